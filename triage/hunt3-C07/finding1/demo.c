/*
 * C07 finding 1: ring sizes / chunk lengths that do not fit the ring's 32-bit
 * fields are accepted and silently truncated.
 *
 *   demo len32   : S = 4 GiB + 100, one chunk of 4 GiB + 10 bytes (<= S) is
 *                  accepted by alloc+commit, the reader gets a 10 byte chunk.
 *   demo idx32   : S = 13 GiB, chunks below 4 GiB only: the 32-bit word index overflows
 *                  in qb_rb_chunk_step(), the next chunk is written into the payload
 *                  of an unread one.
 *   demo words32 : S = 16 GiB: qb_rb_open() succeeds, the ring it returns holds
 *                  4084 bytes; a 5000 byte chunk is refused on the empty ring.
 *   demo sizewrap: S = SIZE_MAX - 5: S + 13 wraps to 7, qb_rb_open() succeeds with a
 *                  one page ring; a 5000 byte chunk is refused on the empty ring.
 *   demo words0  : S = 16 GiB - 13: qb_rb_open() succeeds with word_size 0,
 *                  every write is refused, a read divides by zero.
 *
 * By default the program is linked with --wrap=posix_fallocate,--wrap=memset
 * so that the backing file stays sparse and the test needs a few pages of
 * memory instead of 4..16 GiB (only libc is wrapped, the library code is the
 * tree's).  Build with -DREAL (see demo.sh) to run without the wrappers.
 *
 * exit 0 = property held (or the library refused the size), 1 = violated.
 */
#include <stdio.h>
#include <stdlib.h>
#include <string.h>
#include <stdint.h>
#include <errno.h>
#include <unistd.h>
#include <fcntl.h>
#include <qb/qbdefs.h>
#include <qb/qbrb.h>
#include "ringbuffer_int.h"

#ifndef REAL
int __real_posix_fallocate(int fd, off_t off, off_t len);
void *__real_memset(void *s, int c, size_t n);
int __wrap_posix_fallocate(int fd, off_t off, off_t len)
{
	if (len > (1 << 24)) return 0;	/* the ftruncate()d file stays sparse: reads as zeroes */
	return __real_posix_fallocate(fd, off, len);
}
void *__wrap_memset(void *s, int c, size_t n)
{
	if (n > (1 << 24) && c == 0) return s;	/* fresh sparse file is already zero */
	return __real_memset(s, c, n);
}
#endif

static char name[64];

static qb_ringbuffer_t *open_ring(size_t S)
{
	qb_ringbuffer_t *rb;
	snprintf(name, sizeof(name), "h3c07demo-%d", (int)getpid());
	rb = qb_rb_open(name, S, QB_RB_FLAG_CREATE | QB_RB_FLAG_NO_SEMAPHORE, 0);
	if (rb == NULL) {
		printf("qb_rb_open(S=%zu) refused, errno %d: nothing promised, nothing broken\n", S, errno);
		exit(0);
	}
	printf("qb_rb_open(S=%zu) ok: word_size=%u (= %zu bytes), chunk_max=%zu\n", S,
	       rb->shared_hdr->word_size, (size_t)rb->shared_hdr->word_size * 4, qb_rb_chunk_max(rb));
	return rb;
}

static int len32(void)
{
	size_t S = ((size_t)1 << 32) + 100;
	size_t L = ((size_t)1 << 32) + 10;
	qb_ringbuffer_t *rb = open_ring(S);
	char *p, *q = NULL;
	ssize_t r;
	int32_t c;
	int bad = 0;

	p = qb_rb_chunk_alloc(rb, L);
	if (p == NULL) {
		printf("alloc(%zu) on the empty ring of S=%zu refused, errno %d\n", L, S, errno);
		qb_rb_close(rb);
		return 1;
	}
	memcpy(p, "HEAD", 4);
	memcpy(p + L - 4, "TAIL", 4);
	c = qb_rb_chunk_commit(rb, L);
	printf("alloc(%zu)+commit(%zu) -> %d (accepted)\n", L, L, c);
	printf("write_pt after commit: %u words (a chunk of that length takes %zu words)\n",
	       rb->shared_hdr->write_pt, 2 + (L + 3) / 4);
	r = qb_rb_chunk_peek(rb, (void **)&q, 0);
	printf("peek -> %zd (expected %zu)\n", r, L);
	if (r != (ssize_t)L) bad = 1;
	/* the next chunk lands inside the first one's payload */
	if (qb_rb_chunk_write(rb, "0123456789abcdefghij", 20) == 20) {
		printf("second chunk of 20 bytes accepted; bytes 20..27 of the first chunk's payload are now: %02x %02x %02x %02x %02x %02x %02x %02x (were zero)\n",
		       (uint8_t)p[20], (uint8_t)p[21], (uint8_t)p[22], (uint8_t)p[23], (uint8_t)p[24], (uint8_t)p[25], (uint8_t)p[26], (uint8_t)p[27]);
	}
	qb_rb_close(rb);
	return bad;
}

static char *put(qb_ringbuffer_t *rb, size_t len, const char *tag)
{
	char *p = qb_rb_chunk_alloc(rb, len);
	if (p == NULL) { printf("alloc(%zu) for %s refused, errno %d\n", len, tag, errno); return NULL; }
	memcpy(p, tag, 4);
	if (qb_rb_chunk_commit(rb, len) != 0) return NULL;
	printf("chunk %s len %zu committed, write_pt now %u\n", tag, len, rb->shared_hdr->write_pt);
	return p;
}

static ssize_t take(qb_ringbuffer_t *rb, char **p)
{
	ssize_t r = qb_rb_chunk_peek(rb, (void **)p, 0);
	return r;
}

static int idx32(void)
{
	size_t S = (size_t)13 << 30;
	size_t LA = 0xF8000000, LD = 0x26000000;
	qb_ringbuffer_t *rb = open_ring(S);
	uint64_t W = rb->shared_hdr->word_size, expect;
	char *e, *p;
	ssize_t r;
	int bad = 0;
	size_t off = 0x38001000;	/* where the wrapped write_pt points inside chunk E */

	if (!put(rb, LA, "AAAA") || !put(rb, LA, "BBBB") || !put(rb, LA, "CCCC") || !put(rb, LD, "DDDD")) return 1;
	r = take(rb, &p); printf("read -> %zd %.4s\n", r, p); if (r != (ssize_t)LA || memcmp(p, "AAAA", 4)) bad = 1; qb_rb_chunk_reclaim(rb);
	r = take(rb, &p); printf("read -> %zd %.4s\n", r, p); if (r != (ssize_t)LA || memcmp(p, "BBBB", 4)) bad = 1; qb_rb_chunk_reclaim(rb);
	expect = ((uint64_t)rb->shared_hdr->write_pt + 2 + LA / 4) % W;
	e = put(rb, LA, "EEEE");
	if (!e) return 1;
	printf("write_pt after E: %u, correct value (old + 2 + len/4) mod word_size: %llu\n",
	       rb->shared_hdr->write_pt, (unsigned long long)expect);
	memcpy(e + off, "E-payload-at-0x38001000-must-stay", 34);
	if (!put(rb, 20, "FFFFffffFFFFffffFFFF")) { qb_rb_close(rb); return bad; }
	r = take(rb, &p); printf("read -> %zd %.4s\n", r, p); if (r != (ssize_t)LA || memcmp(p, "CCCC", 4)) bad = 1; qb_rb_chunk_reclaim(rb);
	r = take(rb, &p); printf("read -> %zd %.4s\n", r, p); if (r != (ssize_t)LD || memcmp(p, "DDDD", 4)) bad = 1; qb_rb_chunk_reclaim(rb);
	r = take(rb, &p); printf("read -> %zd %.4s\n", r, p); if (r != (ssize_t)LA || memcmp(p, "EEEE", 4)) bad = 1;
	if (r == (ssize_t)LA) {
		printf("chunk E at offset 0x%zx: \"%.34s\"\n", off, p + off);
		if (memcmp(p + off, "E-payload-at-0x38001000-must-stay", 34)) { printf("chunk E's payload was overwritten by chunk F\n"); bad = 1; }
	}
	qb_rb_close(rb);
	return bad;
}

static int words32(void)
{
	size_t S = (size_t)1 << 34;
	qb_ringbuffer_t *rb = open_ring(S);
	static char buf[5000];
	ssize_t r;
	memset(buf, 'x', sizeof(buf));
	r = qb_rb_chunk_write(rb, buf, sizeof(buf));
	printf("chunk_write(5000) on the empty ring of S=%zu -> %zd\n", S, r);
	qb_rb_close(rb);
	return r == 5000 ? 0 : 1;
}

static int sizewrap(void)
{
	size_t S = SIZE_MAX - 5;
	qb_ringbuffer_t *rb = open_ring(S);
	static char buf[5000];
	ssize_t r;
	memset(buf, 'x', sizeof(buf));
	r = qb_rb_chunk_write(rb, buf, sizeof(buf));
	printf("chunk_write(5000) on the empty ring of S=%zu -> %zd\n", S, r);
	qb_rb_close(rb);
	return r == 5000 ? 0 : 1;
}

static int words0(void)
{
	size_t S = ((size_t)1 << 34) - 13;
	qb_ringbuffer_t *rb = open_ring(S);
	char buf[16];
	ssize_t r;
	r = qb_rb_chunk_write(rb, "a", 1);
	printf("chunk_write(1) on the empty ring of S=%zu -> %zd\n", S, r);
	if (r == 1) { qb_rb_close(rb); return 0; }
	printf("now qb_rb_chunk_read() ...\n");
	fflush(stdout);
	r = qb_rb_chunk_read(rb, buf, sizeof(buf), 0);	/* (read_pt + 1) % word_size, word_size == 0 */
	printf("chunk_read -> %zd\n", r);
	qb_rb_close(rb);
	return 1;
}

int main(int argc, char **argv)
{
	if (sizeof(size_t) < 8) { printf("needs a 64-bit size_t\n"); return 0; }
	if (argc < 2) return 2;
	if (!strcmp(argv[1], "len32")) return len32();
	if (!strcmp(argv[1], "words32")) return words32();
	if (!strcmp(argv[1], "idx32")) return idx32();
	if (!strcmp(argv[1], "words0")) return words0();
	if (!strcmp(argv[1], "sizewrap")) return sizewrap();
	return 2;
}
