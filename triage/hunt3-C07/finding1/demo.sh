#!/bin/sh
# usage: demo.sh <tree>      exit 0 = property held, non-zero = violated
# REAL=1 demo.sh <tree>  runs without the libc wrappers (needs ~5 GiB for len32,
# ~17 GiB of free memory for words32/words0; only len32 is run in that case
# unless REAL=all)
T=${1:-/repo}
D=$(cd "$(dirname "$0")" && pwd)
WRAP="-Wl,--wrap=posix_fallocate -Wl,--wrap=memset"
CASES="len32 idx32 words32 sizewrap words0"
if [ -n "$REAL" ]; then WRAP="-DREAL"; [ "$REAL" = all ] || CASES="len32 sizewrap"; fi
gcc -g -O1 -fno-builtin-memset -fsanitize=undefined -fno-sanitize-recover=undefined \
  -DHAVE_CONFIG_H -I$T/include -I$T/include/qb -I$T/lib $WRAP \
  -o $D/demo $D/demo.c $T/lib/ringbuffer.c $T/lib/ringbuffer_helper.c $T/lib/unix.c \
  -L$T/lib/.libs -lqb -lpthread || exit 99
rc=0
for c in $CASES; do
  echo "--- $c"
  LD_LIBRARY_PATH=$T/lib/.libs $D/demo $c
  r=$?
  echo "--- $c: exit $r"
  [ $r -ne 0 ] && rc=1
done
# leftovers of a crashed case (names carry this demo's prefix only)
rm -f /dev/shm/qb-h3c07demo-*-header /dev/shm/qb-h3c07demo-*-data
[ $rc -eq 0 ] && echo "RESULT: property held" || echo "RESULT: VIOLATED"
exit $rc
