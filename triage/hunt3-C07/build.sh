#!/bin/sh
# usage: build.sh [tree]   (default /repo)
T=${1:-/repo}
D=$(dirname "$0")
set -e
gcc -g -O1 -fsanitize=address,undefined -fno-sanitize-recover=undefined -fno-omit-frame-pointer \
  -DHAVE_CONFIG_H -I$T/include -I$T/include/qb -I$T/lib \
  -o $D/fuzz $D/fuzz.c $T/lib/ringbuffer.c $T/lib/ringbuffer_helper.c $T/lib/unix.c \
  -L$T/lib/.libs -lqb -lpthread
