/* targeted checks through the public API only:
 * qb_log_from_external_source -> blackbox -> write_to_file -> print_from_file */
#include <stdio.h>
#include <stdlib.h>
#include <string.h>
#include <unistd.h>
#include <fcntl.h>
#include <wchar.h>
#include <stddef.h>
#include <stdint.h>
#include <locale.h>
#include <limits.h>
#include <syslog.h>
#include <qb/qbdefs.h>
#include <qb/qblog.h>

static char dumpf[128], outf[128];
static int fails;

/* returns the message part of the last line printed for the blackbox */
static char *bb_last(void)
{
	static char last[20000];
	char line[20000];
	int saved, fd;
	FILE *f;
	char *p;
	unlink(dumpf);
	qb_log_blackbox_write_to_file(dumpf);
	fflush(stdout);
	saved = dup(1);
	fd = open(outf, O_CREAT | O_TRUNC | O_WRONLY, 0600);
	dup2(fd, 1); close(fd);
	fd = dup(2); { int n = open("/dev/null", O_WRONLY); dup2(n, 2); close(n); }
	qb_log_blackbox_print_from_file(dumpf);
	fflush(stdout);
	dup2(saved, 1); close(saved);
	dup2(fd, 2); close(fd);
	f = fopen(outf, "r");
	last[0] = 0;
	while (fgets(line, sizeof line, f)) if (strstr(line, "FN(7):0: ")) strcpy(last, line);
	fclose(f);
	unlink(dumpf); unlink(outf);
	p = strstr(last, "FN(7):0: ");
	if (!p) return last;
	p += 9;
	if (*p && p[strlen(p) - 1] == '\n') p[strlen(p) - 1] = 0;
	return p;
}

#define T(fmt, ...) do { \
	char ref[20000]; char *got; \
	snprintf(ref, sizeof ref, fmt, __VA_ARGS__); \
	qb_log_from_external_source("FN", "t.c", fmt, LOG_INFO, 7, 0, __VA_ARGS__); \
	got = bb_last(); \
	if (strcmp(ref, got)) { fails++; printf("DIFF  fmt=[%s]\n   printf : [%s] (%zu)\n   blackbox: [%s] (%zu)\n", #fmt, ref, strlen(ref), got, strlen(got)); } \
	else printf("same  fmt=%s -> [%.60s]\n", #fmt, ref); \
} while (0)

int main(void)
{
	char big[600];
	setlocale(LC_ALL, "C.utf8");
	snprintf(dumpf, sizeof dumpf, "/tmp/hunt3-C14/targeted/dump-%d", getpid());
	snprintf(outf, sizeof outf, "/tmp/hunt3-C14/targeted/out-%d", getpid());
	qb_log_init("h3c14t", LOG_USER, LOG_EMERG);
	qb_log_ctl(QB_LOG_SYSLOG, QB_LOG_CONF_ENABLED, QB_FALSE);
	qb_log_ctl(QB_LOG_BLACKBOX, QB_LOG_CONF_SIZE, 64 * 1024);
	qb_log_ctl(QB_LOG_BLACKBOX, QB_LOG_CONF_ENABLED, QB_TRUE);
	qb_log_filter_ctl(QB_LOG_BLACKBOX, QB_LOG_FILTER_ADD, QB_LOG_FILTER_FILE, "*", LOG_TRACE);

	T("plain %d", 5);
	T("[%.3s]", (char *)NULL);
	T("[%.0s]", (char *)NULL);
	T("[%.*s]", 5, (char *)NULL);
	T("[%.6s] [%s] [%10s] [%-10s]", (char *)NULL, (char *)NULL, (char *)NULL, (char *)NULL);
	T("[%lc]", (wint_t)0x20AC);
	T("[%lc]", (wint_t)'x');
	T("[%ls]", L"wide");
	T("[%Lf] [%Le]", (long double)1.5, (long double)-2.25e100L);
	T("[%hhd] [%hd] [%hhu]", 300, 70000, -1);
	T("[%-----------------------------------------------------------------5d] tail %s", 42, "end");
	T("[%000000000000000000000000000000000000000000000000000000000000000000008d] tail %s", 42, "end");
	T("[%5%] [%-5%|]%s", "x");
	T("[%zu] [%td] [%jd] [%lld] [%ld]", (size_t)-1, (ptrdiff_t)-5, (intmax_t)INTMAX_MIN, LLONG_MIN, LONG_MAX);
	T("[%#x] [%#o] [%+d] [% d] [%'d] [%05d] [%-5d|]", 255, 8, 5, 5, 1234567, 42, 42);
	T("[%a] [%A] [%g] [%G] [%e] [%E] [%f] [%F]", 1.0, 2.0, 1e-5, 1e20, 3.14, 3.14, 1.0/0.0, -1.0/0.0);
	T("[%p] [%p]", (void *)0, (void *)0x1234);
	T("[%c%c%c]", 'a', '%', 'z');
	T("[%s]", "100% %s %n %d");
	T("[%*.*f] [%-*d|] [%.*d]", 10, 3, 3.14159, -6, 42, -1, 7);

	/* text fits 512, encoded form does not */
	memset(big, 'x', sizeof big);
	big[485] = 0;
	T("%s %d %d %d %d %d", big, 1, 2, 3, 4, 5);
	big[470] = 0;
	T("%s %d %d %d %d %d", big, 1, 2, 3, 4, 5);
	T("%s%%%%%%%%%%%%%%%%%%%%%%%%%%%%%%%%%%%%%%%%%%%%%%%%%%%%%%%%%%%%%%%%%%%%%%%%%%%%%%%%%%%%%%%%%%%%%%%%%%%%%%%%%%%%%%%%%%%%%%%%%%%%%%%%%%%%%%%%%%%%%%%%%%%%%%%%%%%%%%%%%%%%%%%%%%%%%%%%%%%%%%%%%%%%%%%%%%%%%%%%%%%%%%%%%%%%%%%%%%%%%%%%%%%%%%%%%%%%%%%%%%%%%%%%%%%%%%%%%%%%%%%%%%%%%%%%%%%%%%%%%%%%%%%%%%%%%%%%%%%%%%%%%%%%%%%%%%%%%%%%%%%%%%%%%%%%%%%%%%%%%%%%%%%%%%%%%%%%%%%%%%%%%%%%%%%%%%%%%%%%%%%%%%%%%%%%%%%%%%%%%%%%%%%%%%%%%%%%%%%%%%%%%%%%%%%%%%%%%%%%%%%%%%%%%%%%%%%%%%%%%%%%%%%%%%%%%%%%%%%%%%%%%%%%%%%%%%%%%%%%%%%%%%%%%%%%%%%%%%%%%%%%%%%%%%%", "p");
	qb_log_fini();
	printf("%d differences\n", fails);
	return fails != 0;
}
