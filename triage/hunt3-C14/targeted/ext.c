#include <stdio.h>
#include <stdlib.h>
#include <string.h>
#include <stdarg.h>
#include <limits.h>
#include <qb/qbdefs.h>
#include <qb/qblog.h>
static size_t ser(char *b, size_t n, const char *fmt, ...)
{ va_list ap; size_t r; va_start(ap, fmt); r = qb_vsnprintf_serialize(b, n, fmt, ap); va_end(ap); return r; }
#define X(sl, fmt, ...) do { char *e = malloc(512); char *d = malloc(sl); size_t r, l; char ref[64]; int n; \
  r = ser(e, 512, fmt, __VA_ARGS__); e = realloc(e, r); memset(d, 0xdd, sl); \
  l = qb_vsnprintf_deserialize_n(d, sl, e, r); n = snprintf(ref, sizeof ref, fmt, __VA_ARGS__); \
  printf("%-14s enc %zu dec ret %zu terminated %d printf ret %d\n", fmt, r, l, memchr(d, 0, sl) != NULL, n); free(e); free(d); } while (0)
int main(void)
{
	X(16, "%*d", INT_MIN, 5);
	X(16, "ab%*d", INT_MIN, 5);
	X(16, "ab%*d|%*d|%*d", INT_MIN, 5, INT_MIN, 6, INT_MIN, 7);
	X(16, "%.*d", INT_MAX, 5);
	X(16, "ab%*d", INT_MAX, 5);
	X(1, "ab%*d%s", INT_MAX, 5, "x");
	X(16, "%*s%*s", 1 << 30, "a", 1 << 30, "b");
	X(16, "%*.*f", INT_MIN + 1, INT_MAX, 1.5);
	X(2, "%-*c", INT_MAX - 1, 'x');
	return 0;
}
