#!/bin/sh
# usage: demo.sh <tree>    exit 0 = property held, non-zero = violated
T=${1:-/repo}
D=$(cd "$(dirname "$0")" && pwd)
B=/tmp/h3c14-demo-$$
gcc -g -Wno-format -Wno-format-truncation -Wno-format-overflow -I$T/include -o $B $D/demo.c -L$T/lib/.libs -lqb || exit 99
LD_LIBRARY_PATH=$T/lib/.libs $B 2>/dev/null | grep -v '^Ringbuffer\|^ ->\|^ =>'
rc=$?
# grep's status is not the program's: run again quietly for the exit code
LD_LIBRARY_PATH=$T/lib/.libs $B >/dev/null 2>&1
rc=$?
rm -f $B
exit $rc
