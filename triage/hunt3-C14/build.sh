#!/bin/sh
# usage: build.sh [tree]   (default /repo)
T=${1:-/repo}
D=$(dirname "$0")
SRC="$T/lib/log.c $T/lib/log_blackbox.c $T/lib/log_format.c $T/lib/log_dcs.c $T/lib/log_file.c $T/lib/log_syslog.c $T/lib/log_thread.c $T/lib/ringbuffer.c $T/lib/ringbuffer_helper.c $T/lib/strlcpy.c $T/lib/strlcat.c"
gcc -g -O1 -fno-omit-frame-pointer -fsanitize=address,undefined -DHAVE_CONFIG_H \
  -I$T/include -I$T/include/qb -I$T/lib -I$T \
  -Wno-format -o $D/fuzz $D/fuzz.c $SRC -L$T/lib/.libs -lqb -lpthread -lm -ldl
