/*
 * Public API only: qb_log_from_external_source() -> blackbox target ->
 * qb_log_blackbox_write_to_file() -> qb_log_blackbox_print_from_file(),
 * whose output is captured and compared with what snprintf() makes of the
 * same format and arguments.  exit 0 = all equal, 1 = a record differs.
 */
#include <stdio.h>
#include <stdlib.h>
#include <string.h>
#include <stddef.h>
#include <stdint.h>
#include <unistd.h>
#include <fcntl.h>
#include <wchar.h>
#include <locale.h>
#include <limits.h>
#include <syslog.h>
#include <qb/qbdefs.h>
#include <qb/qblog.h>

static char dumpf[128], outf[128];
static int fails;

static char *bb_last(void)
{
	static char last[20000];
	char line[20000];
	int saved, fd;
	FILE *f;
	char *p;

	unlink(dumpf);
	qb_log_blackbox_write_to_file(dumpf);
	fflush(stdout);
	fflush(stderr);
	saved = dup(1);
	fd = open(outf, O_CREAT | O_TRUNC | O_WRONLY, 0600);
	dup2(fd, 1);
	close(fd);
	fd = dup(2);
	{ int n = open("/dev/null", O_WRONLY); dup2(n, 2); close(n); }
	qb_log_blackbox_print_from_file(dumpf);
	fflush(stdout);
	dup2(saved, 1); close(saved);
	dup2(fd, 2); close(fd);
	f = fopen(outf, "r");
	last[0] = 0;
	while (fgets(line, sizeof line, f)) {
		if (strstr(line, "FN(7):0: ")) {
			strcpy(last, line);
		}
	}
	fclose(f);
	unlink(dumpf);
	unlink(outf);
	p = strstr(last, "FN(7):0: ");
	if (!p) {
		return last;
	}
	p += 9;
	if (*p && p[strlen(p) - 1] == '\n') {
		p[strlen(p) - 1] = 0;
	}
	return p;
}

#define T(fmt, ...) do { \
	char ref[20000]; char *got; \
	snprintf(ref, sizeof ref, fmt, __VA_ARGS__); \
	qb_log_from_external_source("FN", "demo.c", fmt, LOG_INFO, 7, 0, __VA_ARGS__); \
	got = bb_last(); \
	if (strcmp(ref, got)) { fails++; printf("DIFF  fmt=%s\n   printf  : [%s] (%zu chars)\n   blackbox: [%s] (%zu chars)\n", #fmt, ref, strlen(ref), got, strlen(got)); } \
	else printf("same  fmt=%s -> [%.70s]\n", #fmt, ref); \
} while (0)

static void setup(void)
{
	setlocale(LC_ALL, "C.utf8");
	snprintf(dumpf, sizeof dumpf, "/tmp/h3c14-demo-dump-%d", getpid());
	snprintf(outf, sizeof outf, "/tmp/h3c14-demo-out-%d", getpid());
	qb_log_init("h3c14demo", LOG_USER, LOG_EMERG);
	qb_log_ctl(QB_LOG_SYSLOG, QB_LOG_CONF_ENABLED, QB_FALSE);
	qb_log_ctl(QB_LOG_BLACKBOX, QB_LOG_CONF_SIZE, 64 * 1024);
	qb_log_ctl(QB_LOG_BLACKBOX, QB_LOG_CONF_ENABLED, QB_TRUE);
	qb_log_filter_ctl(QB_LOG_BLACKBOX, QB_LOG_FILTER_ADD, QB_LOG_FILTER_FILE, "*", LOG_TRACE);
}

static int finish(void)
{
	qb_log_fini();
	printf("%d record(s) differ from printf\n", fails);
	return fails != 0;
}

int main(void)
{
	char big[600];

	setup();
	/* default line limit of the blackbox target: QB_LOG_MAX_LEN = 512,
	 * i.e. every other target prints texts of up to 511 characters */
	memset(big, 'x', sizeof big);
	big[470] = 0;
	T("%s %d %d %d %d %d", big, 1, 2, 3, 4, 5);	/* control: 480 chars */
	big[470] = 'x';
	big[478] = 0;
	T("%s %d %d %d %d %d", big, 1, 2, 3, 4, 5);	/* 488 chars: refused */
	big[310] = 0;
	/* 310 + 100 = 410 chars of text; format 203 bytes + string 311 bytes = 514 */
	T("%s%%%%%%%%%%%%%%%%%%%%%%%%%%%%%%%%%%%%%%%%%%%%%%%%%%%%%%%%%%%%%%%%%%%%%%%%%%%%%%%%%%%%%%%%%%%%%%%%%%%%%%%%%%%%%%%%%%%%%%%%%%%%%%%%%%%%%%%%%%%%%%%%%%%%%%%%%%%%%%%%%%%%%%%%%%%%%%%%%%%%%%%%%%%%%%%%%%%%%%%%", big);
	return finish();
}
