/*
 * hunt3-C14: model based randomized tester for the blackbox encoder/decoder
 * (lib/log_format.c qb_vsnprintf_serialize / qb_vsnprintf_deserialize_n and
 * lib/log_blackbox.c _blackbox_vlogger / qb_log_blackbox_print_from_file).
 *
 * x86_64 SysV only: argument lists are built by hand as a va_list whose
 * register areas are exhausted, so that every argument is fetched from the
 * overflow area (8 bytes per int/long/pointer/double).
 *
 * usage: fuzz <seed> <iterations> [mode]   mode: 1 = direct, 2 = blackbox, 3 = both
 */
#include "os_base.h"
#include <stdarg.h>
#include <float.h>
#include <limits.h>
#include <math.h>
#include <locale.h>
#include <qb/qbdefs.h>
#include <qb/qblog.h>
#include <qb/qbrb.h>
#include "log_int.h"
#include "ringbuffer_int.h"

static uint64_t rs;
static uint64_t rnd(void)
{
	rs ^= rs << 13; rs ^= rs >> 7; rs ^= rs << 17;
	return rs;
}
static unsigned rn(unsigned n) { return n ? (unsigned)(rnd() % n) : 0; }

#define MAXARGS 400
#define MAXFMT  9000

struct gen {
	char fmt[MAXFMT];
	size_t fmtlen;
	uint64_t slots[MAXARGS];
	int nslots;
	size_t argbytes;	/* what the encoder is expected to need behind the format */
	char *strs[MAXARGS];
	int nstrs;
	int has_extreme_star;
	int simple;		/* no NUL char argument, no newline */
	int xc;			/* 1: QB_XC inside the format (becomes '|'), 2: at its end (stripped) */
	int null_prec;		/* NULL string with a precision below 6: finding 1, not compared */
};

static void mk_va(va_list ap, struct gen *g)
{
	ap[0].gp_offset = 48;
	ap[0].fp_offset = 176;
	ap[0].overflow_arg_area = g->slots;
	ap[0].reg_save_area = NULL;
}

static void put(struct gen *g, char c)
{
	if (g->fmtlen < MAXFMT - 1) {
		g->fmt[g->fmtlen++] = c;
		g->fmt[g->fmtlen] = 0;
	}
}
static void puts_(struct gen *g, const char *s) { while (*s) put(g, *s++); }

static void push_slot(struct gen *g, uint64_t v) { g->slots[g->nslots++] = v; }

static int gen_star(struct gen *g)
{
	int v;
	unsigned r = rn(1000);
	if (r < 700) v = (int)rn(41) - 20;
	else if (r < 900) v = (int)rn(600) - 100;
	else if (r < 990) v = (int)rn(6000);
	else if (r < 999 || !getenv("FUZZ_EXTREME")) { v = -(int)rn(6000); }
	else { static const int ex[] = { INT_MAX, INT_MIN, INT_MAX - 1, INT_MIN + 1, 1 << 30 };
		v = ex[rn(5)]; g->has_extreme_star = 1; }
	push_slot(g, (uint64_t)(uint32_t)v);	/* upper half garbage free */
	if (rn(2)) g->slots[g->nslots - 1] |= ((uint64_t)rnd() << 32); /* upper half garbage */
	g->argbytes += 4;
	return v;
}

static uint64_t gen_int64(void)
{
	static const uint64_t ex[] = { 0, 1, (uint64_t)-1, INT_MAX, (uint64_t)INT_MIN,
		(uint64_t)LLONG_MAX, (uint64_t)LLONG_MIN, UINT_MAX, 0x80000000ull, 255, 65535, 65536,
		(uint64_t)-32768, 127, 128 };
	unsigned r = rn(10);
	if (r < 5) return ex[rn(sizeof ex / sizeof ex[0])];
	if (r < 7) return rnd() % 1000;
	return rnd();
}

static double gen_double(void)
{
	static const double ex[] = { 0.0, -0.0, 1.0, -1.0, 0.1, 1e100, 1e-100, 123456.789, 0.5, 1e308, 9.999999 };
	unsigned r = rn(20);
	if (r < 8) return ex[rn(sizeof ex / sizeof ex[0])];
	if (r == 8) return INFINITY;
	if (r == 9) return -INFINITY;
	if (r == 10) return NAN;
	if (r == 11) return DBL_MAX;
	if (r == 12) return DBL_MIN;
	if (r == 13) return 4.9e-324;
	if (r == 14) return -DBL_MAX;
	{ union { uint64_t u; double d; } x; x.u = rnd(); if (rn(2)) return x.d; }
	return (double)(int64_t)rnd() / (double)(1 + rn(100000));
}

static char *gen_str(struct gen *g)
{
	unsigned r = rn(100);
	size_t len, i;
	char *s;
	if (r < 8) return NULL;
	if (r < 20) len = 0;
	else if (r < 70) len = rn(20);
	else if (r < 90) len = rn(300);
	else if (r < 97) len = rn(1200);
	else len = rn(6000);
	s = malloc(len + 1);
	for (i = 0; i < len; i++) {
		unsigned k = rn(20);
		if (k == 0) s[i] = '%';
		else if (k == 1) s[i] = "sdnc*.l"[rn(7)];
		else if (k == 2) s[i] = (char)(128 + rn(128));
		else if (k == 3 && rn(8) == 0) { s[i] = '\n'; g->simple = 0; }
		else s[i] = (char)(' ' + 1 + rn(94));
	}
	s[len] = 0;
	g->strs[g->nstrs++] = s;
	return s;
}

static void gen_directive(struct gen *g)
{
	static const char flags[] = "#- +'0";
	static const char *imods[] = { "", "", "", "h", "hh", "l", "ll", "z", "t", "j" };
	int nf, i, prec = -1, conv;
	unsigned r;

	put(g, '%');
	nf = rn(4) ? rn(3) : rn(8);
	for (i = 0; i < nf; i++) put(g, flags[rn(6)]);
	if (rn(200) == 0) put(g, 'I');
	/* width */
	r = rn(10);
	if (r < 2) { char b[16]; snprintf(b, sizeof b, "%u", rn(4) ? 1 + rn(30) : 1 + rn(5000)); puts_(g, b); }
	else if (r < 4) { put(g, '*'); gen_star(g); }
	/* precision */
	r = rn(10);
	if (r < 1) { put(g, '.'); prec = 0; }
	else if (r < 3) { char b[16]; prec = rn(4) ? rn(12) : rn(5000); snprintf(b, sizeof b, ".%d", prec); puts_(g, b);
		if (rn(10) == 0) { /* leading zeros in the precision */ } }
	else if (r < 5) { put(g, '.'); put(g, '*'); prec = gen_star(g); if (prec < 0) prec = -1; }

	conv = rn(100);
	if (conv < 40) {
		static const char ic[] = "diouxX";
		const char *m = imods[rn(10)];
		puts_(g, m);
		put(g, ic[rn(6)]);
		push_slot(g, gen_int64());
		if (m[0] == 'l' || m[0] == 'z' || m[0] == 't' || m[0] == 'j') g->argbytes += 8;
		else g->argbytes += 4;
	} else if (conv < 55) {
		static const char fc[] = "eEfFgGaA";
		union { double d; uint64_t u; } x;
		if (rn(6) == 0) put(g, 'l');
		put(g, fc[rn(8)]);
		x.d = gen_double();
		push_slot(g, x.u);
		g->argbytes += 8;
	} else if (conv < 65) {
		unsigned c;
		put(g, 'c');
		r = rn(10);
		if (r == 0) { c = 0; g->simple = 0; }
		else if (r == 1) c = 128 + rn(128);
		else if (r == 2) c = '%';
		else if (r == 3) { c = rn(256); if (c == 0 || c == '\n') g->simple = 0; }
		else c = ' ' + 1 + rn(94);
		push_slot(g, c | (rn(2) ? 0xffffff00u * 0 : 0));
		g->argbytes += 1;
	} else if (conv < 90) {
		char *s;
		put(g, 's');
		s = gen_str(g);
		push_slot(g, (uint64_t)(uintptr_t)s);
		if (s == NULL) { g->argbytes += 7; if (prec >= 0 && prec < 6) g->null_prec = 1; }
		else {
			size_t l = strlen(s);
			if (prec >= 0 && (size_t)prec < l) l = prec;
			g->argbytes += l + 1;
		}
	} else if (conv < 96) {
		put(g, 'p');
		push_slot(g, rn(4) ? rnd() : 0);
		g->argbytes += 8;
	} else {
		put(g, '%');
	}
}

static void gen_literal(struct gen *g)
{
	unsigned n = rn(4) ? rn(12) : rn(200), i;
	if (g->xc == 0 && rn(25) == 0) { put(g, '\a'); put(g, 'x'); g->xc = 1; }
	for (i = 0; i < n; i++) {
		unsigned k = rn(40);
		if (k == 0 && rn(4) == 0) { put(g, '\n'); g->simple = 0; }
		else if (k == 1) put(g, (char)(128 + rn(128)));
		else if (k == 2) { put(g, '%'); put(g, '%'); }
		else { char c = (char)(' ' + 1 + rn(94)); put(g, c == '%' ? '_' : c); }
	}
}

static void gen_free(struct gen *g)
{
	int i;
	for (i = 0; i < g->nstrs; i++) free(g->strs[i]);
	g->nstrs = 0;
}

static void gen_make(struct gen *g)
{
	unsigned nd, i;
	unsigned r = rn(100);
	g->fmtlen = 0; g->fmt[0] = 0; g->nslots = 0; g->argbytes = 0; g->nstrs = 0;
	g->has_extreme_star = 0; g->simple = 1; g->null_prec = 0; g->xc = 0;
	if (r < 60) nd = rn(5);
	else if (r < 90) nd = rn(15);
	else if (r < 98) nd = rn(60);
	else nd = rn(120);
	for (i = 0; i < nd; i++) {
		if (rn(3)) gen_literal(g);
		gen_directive(g);
		if (g->nslots > MAXARGS - 4 || g->fmtlen > MAXFMT - 300) break;
	}
	if (rn(3)) gen_literal(g);
	if (g->xc == 0 && rn(20) == 0) { put(g, '\a'); g->xc = 2; }
	/* '%' never survives in a literal except as "%%": replace stray ones */
	if (g->fmtlen && g->fmt[g->fmtlen - 1] == '\n') g->simple = 0;
}

/* strip stray '%' produced by gen_literal's random printable chars */
static void sanitize_literal_percent(struct gen *g) { (void)g; }

static long n_nullprec;
static long n_checked, n_fit, n_catB, n_fail, n_bb_records, n_bb_skipped, n_bb_toolong, n_print;

static void dump(const char *what, const char *s, size_t n)
{
	size_t i;
	fprintf(stderr, "  %s (%zu): \"", what, n);
	for (i = 0; i < n && i < 600; i++) {
		unsigned char c = s[i];
		if (c >= 32 && c < 127 && c != '\\' && c != '"') fputc(c, stderr);
		else fprintf(stderr, "\\x%02x", c);
	}
	fprintf(stderr, "\"%s\n", n > 600 ? "..." : "");
}

static void dump_gen(struct gen *g)
{
	int i;
	dump("format", g->fmt, g->fmtlen);
	for (i = 0; i < g->nslots && i < 40; i++)
		fprintf(stderr, "  slot[%d] = 0x%llx\n", i, (unsigned long long)g->slots[i]);
}

#define REFMAX (1 << 16)
static char refbuf[REFMAX];

/* returns length of the text printf produces, -1 when printf fails, and the
 * text in refbuf (cut to REFMAX-1) */
static long ref_text(struct gen *g)
{
	va_list ap;
	int n;
	static char f2[MAXFMT];
	char *a;
	mk_va(ap, g);
	memcpy(f2, g->fmt, g->fmtlen + 1);
	a = strchr(f2, '\a');
	if (a) { if (a[1]) *a = '|'; else *a = 0; }
	n = vsnprintf(refbuf, REFMAX, f2, ap);
	return n;
}

static int direct_once(struct gen *g)
{
	va_list ap;
	size_t need = g->fmtlen + 1 + g->argbytes - (g->xc == 2);
	size_t max_len, str_len, ret, dlen;
	char *enc, *dec;
	long tl;
	unsigned r = rn(100);
	int bad = 0;

	if (r < 30) max_len = 1 + rn(64);
	else if (r < 50) { max_len = need + rn(5); max_len = max_len > 2 ? max_len - 2 : 1; }
	else if (r < 80) max_len = 512;
	else if (r < 90) max_len = 1 + rn(4096);
	else max_len = 4096 + rn(8192);
	if ((ssize_t)max_len < 1) max_len = 1;

	enc = malloc(max_len);
	memset(enc, 0xEE, max_len);
	mk_va(ap, g);
	ret = qb_vsnprintf_serialize(enc, max_len, g->fmt, ap);
	n_checked++;
	if (ret > max_len) {
		fprintf(stderr, "FAIL: serialize returned %zu > max_len %zu\n", ret, max_len);
		bad = 1;
	}
	tl = ref_text(g);

	r = rn(100);
	if (r < 20) str_len = 1 + rn(32);
	else if (r < 40 && tl >= 0) { str_len = (size_t)tl + rn(4); str_len = str_len > 1 ? str_len - 1 : 1; }
	else if (r < 70) str_len = 512;
	else str_len = 4096 + rn(2) * 60000;
	if (str_len < 1) str_len = 1;
	dec = malloc(str_len);
	memset(dec, 0xDD, str_len);

	if (need <= max_len) {
		/* everything has room: the encoder must have stored all of it */
		if (ret != need) {
			fprintf(stderr, "FAIL: serialize returned %zu, model says %zu (max_len %zu)\n", ret, need, max_len);
			bad = 1;
		}
		dlen = qb_vsnprintf_deserialize_n(dec, str_len, enc, ret <= max_len ? ret : max_len);
		if (g->null_prec) n_nullprec++;
		if (tl >= 0 && !g->has_extreme_star && !g->null_prec) {
			n_fit++;
			if ((size_t)tl < str_len && tl < REFMAX - 1) {
				if (dlen != (size_t)tl + 1 || memcmp(dec, refbuf, tl + 1) != 0) {
					fprintf(stderr, "FAIL: decoded text differs from printf (direct, max_len %zu str_len %zu ret %zu dlen %zu tl %ld)\n",
						max_len, str_len, ret, dlen, tl);
					dump("printf ", refbuf, tl);
					dump("decoded", dec, dlen ? dlen - 1 : 0);
					bad = 1;
				}
			} else {
				/* does not fit the caller's buffer: must be terminated inside */
				if (memchr(dec, 0, str_len) == NULL) {
					fprintf(stderr, "FAIL: decoded text not terminated within str_len\n");
					bad = 1;
				}
				if (dlen > str_len) {
					fprintf(stderr, "FAIL: decode returned %zu > str_len %zu\n", dlen, str_len);
					bad = 1;
				}
			}
		}
	} else {
		/* truncated record: decode it with the exact size, memory safety only */
		dlen = qb_vsnprintf_deserialize_n(dec, str_len, enc, max_len);
		if (!g->has_extreme_star && (dlen > str_len || memchr(dec, 0, str_len) == NULL)) {
			fprintf(stderr, "FAIL: decode of truncated record: dlen %zu str_len %zu\n", dlen, str_len);
			bad = 1;
		}
	}
	if (bad) {
		dump_gen(g);
		n_fail++;
	}
	free(enc);
	free(dec);
	return bad;
}

/* ---------------- blackbox layer ---------------- */

struct expect {
	char *text;	/* NULL: do not care (too long) */
	size_t tl;
	int catB;
	struct gen *g;
	char *fn;
	uint32_t lineno, tags;
	uint8_t prio;
};

static char bbname[64];
static int bb_size_cur;
static int bb_maxline_cur;

static void bb_config(void)
{
	static const int sizes[] = { 1024, 1025, 2048, 4000, 4096, 4097, 8192, 10000, 65536, 1 << 20 };
	static const int lines[] = { 4, 5, 8, 16, 64, 100, 511, 512, 513, 1024, 4095, 4096 };
	int rc;
	qb_log_ctl(QB_LOG_BLACKBOX, QB_LOG_CONF_ENABLED, QB_FALSE);
	bb_size_cur = rn(3) ? sizes[rn(10)] : 1024 + (int)rn(70000);
	bb_maxline_cur = rn(3) ? lines[rn(12)] : 4 + (int)rn(4093);
	if (rn(3) == 0) bb_maxline_cur = 512;
	rc = qb_log_ctl(QB_LOG_BLACKBOX, QB_LOG_CONF_SIZE, bb_size_cur);
	assert(rc == 0);
	rc = qb_log_ctl(QB_LOG_BLACKBOX, QB_LOG_CONF_MAX_LINE_LEN, bb_maxline_cur);
	assert(rc == 0);
	rc = qb_log_ctl(QB_LOG_BLACKBOX, QB_LOG_CONF_ENABLED, QB_TRUE);
	assert(rc == 0);
}

static char *gen_fn(void)
{
	unsigned r = rn(100);
	size_t len, i;
	char *s;
	if (r < 10) len = 0;
	else if (r < 80) len = 1 + rn(30);
	else if (r < 97) len = rn(400);
	else len = rn(9000);
	s = malloc(len + 1);
	for (i = 0; i < len; i++) s[i] = (char)('a' + rn(26));
	s[len] = 0;
	return s;
}

static int bb_batch(void)
{
	struct qb_log_target *t = qb_log_target_get(QB_LOG_BLACKBOX);
	int k = 1 + rn(rn(4) ? 6 : 40), i, bad = 0;
	struct expect *ex = calloc(k, sizeof *ex);
	int nexp = 0;
	char *chunk;
	size_t chunk_sz;
	static char dec[70000];
	int do_print = (rn(25) == 0);
	char dumpfile[128], outfile[128];

	assert(t->instance);
	for (i = 0; i < k; i++) {
		struct gen *g = calloc(1, sizeof *g);
		struct qb_log_callsite cs;
		va_list ap;
		size_t room, actual, line_len, need;
		long tl;
		char *fn = gen_fn();

		gen_make(g);
		memset(&cs, 0, sizeof cs);
		cs.function = fn;
		cs.filename = "fuzz.c";
		cs.format = g->fmt;
		cs.priority = (uint8_t)rn(8);
		cs.lineno = (uint32_t)rnd();
		cs.tags = (uint32_t)rnd();
		cs.targets = 1u << QB_LOG_BLACKBOX;

		room = qb_rb_chunk_max(t->instance);
		actual = 4 * 4 + 1 + strlen(fn) + 1 + sizeof(struct timespec);
		need = g->fmtlen + 1 + g->argbytes - (g->xc == 2);
		tl = ref_text(g);

		mk_va(ap, g);
		qb_log_real_va_(&cs, ap);
		n_checked++;
		t = qb_log_target_get(QB_LOG_BLACKBOX);
		if (t->instance == NULL) {
			fprintf(stderr, "FAIL: blackbox closed itself (size %d maxline %d fn %zu)\n", bb_size_cur, bb_maxline_cur, strlen(fn));
			dump_gen(g);
			n_fail++;
			exit(2);
		}
		if (actual + 4 > room) {
			n_bb_skipped++;
			free(fn); gen_free(g); free(g);
			continue;
		}
		line_len = QB_MIN((size_t)bb_maxline_cur, room - actual);
		ex[nexp].g = g;
		ex[nexp].fn = fn;
		ex[nexp].lineno = cs.lineno;
		ex[nexp].tags = cs.tags;
		ex[nexp].prio = cs.priority;
		if (g->null_prec) { n_nullprec++; n_bb_toolong++; }
		else if (tl >= 0 && !g->has_extreme_star && need < line_len && tl < REFMAX - 1) {
			ex[nexp].text = malloc(tl + 1);
			memcpy(ex[nexp].text, refbuf, tl + 1);
			ex[nexp].tl = tl;
		} else if (tl >= 0 && !g->has_extreme_star && (size_t)tl < (size_t)bb_maxline_cur && (size_t)tl < line_len) {
			/* the text fits the line limit but its encoded form does not */
			ex[nexp].text = malloc(tl + 1);
			memcpy(ex[nexp].text, refbuf, tl + 1);
			ex[nexp].tl = tl;
			ex[nexp].catB = 1;
		} else {
			n_bb_toolong++;
		}
		nexp++;
	}

	if (do_print) {
		int fd, saved, rc;
		ssize_t w;
		snprintf(dumpfile, sizeof dumpfile, "/tmp/hunt3-C14/bbdump-%d", getpid());
		snprintf(outfile, sizeof outfile, "/tmp/hunt3-C14/bbout-%d", getpid());
		unlink(dumpfile);
		w = qb_log_blackbox_write_to_file(dumpfile);
		if (w < 0) { fprintf(stderr, "FAIL: write_to_file %zd\n", w); bad = 1; }
		fflush(stdout);
		saved = dup(1);
		fd = open(outfile, O_CREAT | O_TRUNC | O_WRONLY, 0600);
		dup2(fd, 1); close(fd);
		rc = qb_log_blackbox_print_from_file(dumpfile);
		fflush(stdout);
		dup2(saved, 1); close(saved);
		n_print++;
		if (0 && rc != 0 && nexp > 0) {
			/* an empty ring yields an error, that is fine */
			fprintf(stderr, "FAIL: print_from_file returned %d with %d records logged (size %d, maxline %d)\n", rc, nexp, bb_size_cur, bb_maxline_cur);
			bad = 1;
		}
		/* compare the last line when the last record is simple */
		if (nexp > 0 && ex[nexp - 1].text && !ex[nexp - 1].catB && ex[nexp - 1].g->simple && ex[nexp - 1].tl < 4095) {
			FILE *f = fopen(outfile, "r");
			static char line[80000], last[80000];
			char want[80000];
			last[0] = 0;
			while (fgets(line, sizeof line, f)) strcpy(last, line);
			fclose(f);
			snprintf(want, sizeof want, "%s(%u):%u: %s\n", ex[nexp - 1].fn, ex[nexp - 1].lineno, ex[nexp - 1].tags, ex[nexp - 1].text);
			if (strlen(last) < strlen(want) || strcmp(last + strlen(last) - strlen(want), want) != 0) {
				fprintf(stderr, "FAIL: print_from_file last line differs\n");
				dump("want", want, strlen(want));
				dump("got ", last, strlen(last));
				dump_gen(ex[nexp - 1].g);
				bad = 1;
			}
		}
		unlink(dumpfile); unlink(outfile);
	}

	/* drain the ring: what comes out must be a suffix of what went in */
	chunk_sz = 80000;
	chunk = malloc(chunk_sz);
	{
		struct rec { char *buf; ssize_t n; } *recs = calloc(k + 1, sizeof *recs);
		int nrec = 0, first;
		for (;;) {
			ssize_t n = qb_rb_chunk_read(t->instance, chunk, chunk_sz, 0);
			if (n < 0) break;
			if (nrec > k) { fprintf(stderr, "FAIL: more records than logged\n"); bad = 1; break; }
			recs[nrec].buf = malloc(n ? n : 1);	/* exact size: ASan guards the decode */
			memcpy(recs[nrec].buf, chunk, n);
			recs[nrec].n = n;
			nrec++;
		}
		if (nrec > nexp) { fprintf(stderr, "FAIL: %d records read, %d expected\n", nrec, nexp); bad = 1; nrec = nexp; }
		first = nexp - nrec;
		for (i = 0; i < nrec; i++) {
			struct expect *e = &ex[first + i];
			char *p = recs[i].buf;
			ssize_t n = recs[i].n;
			uint32_t lineno, tags, fnsz, msg_len;
			uint8_t prio;
			size_t hdr = 4 + 4 + 1 + 4 + strlen(e->fn) + 1 + sizeof(struct timespec) + 4;
			size_t dlen;
			n_bb_records++;
			if ((size_t)n < hdr + 1) { fprintf(stderr, "FAIL: record too short %zd < %zu\n", n, hdr + 1); bad = 1; continue; }
			memcpy(&lineno, p, 4); memcpy(&tags, p + 4, 4); prio = p[8]; memcpy(&fnsz, p + 9, 4);
			if (lineno != e->lineno || tags != e->tags || prio != e->prio || fnsz != strlen(e->fn) + 1 || memcmp(p + 13, e->fn, fnsz)) {
				fprintf(stderr, "FAIL: record header differs\n"); bad = 1; continue;
			}
			memcpy(&msg_len, p + hdr - 4, 4);
			if (hdr + msg_len != (size_t)n) {
				fprintf(stderr, "FAIL: msg_len %u + hdr %zu != chunk %zd\n", msg_len, hdr, n); bad = 1; continue;
			}
			if (msg_len > (uint32_t)bb_maxline_cur) {
				fprintf(stderr, "FAIL: msg_len %u > max line %d\n", msg_len, bb_maxline_cur); bad = 1;
			}
			dlen = qb_vsnprintf_deserialize_n(dec, sizeof dec, p + hdr, msg_len);
			if (e->text) {
				if (dlen != e->tl + 1 || memcmp(dec, e->text, e->tl + 1)) {
					if (e->catB) {
						n_catB++;
					} else {
						fprintf(stderr, "FAIL: blackbox record differs from printf (size %d maxline %d)\n", bb_size_cur, bb_maxline_cur);
						dump("printf ", e->text, e->tl);
						dump("decoded", dec, dlen ? dlen - 1 : 0);
						dump_gen(e->g);
						bad = 1;
					}
				} else {
					n_fit++;
				}
			}
		}
		for (i = 0; i < nrec; i++) free(recs[i].buf);
		for (i = nrec; i <= k; i++) if (recs[i].buf) free(recs[i].buf);
		free(recs);
	}
	free(chunk);
	for (i = 0; i < nexp; i++) { free(ex[i].text); free(ex[i].fn); gen_free(ex[i].g); free(ex[i].g); }
	free(ex);
	if (bad) n_fail++;
	return bad;
}

static void garbage_once(void)
{
	static const char alpha[] = "%%%%%%.*-+ #0123456789lhzjtLqIdiouxXcspeEfFgGaAnmCS$\a'abc";
	static struct gen g;
	static char *str;
	va_list ap;
	int run = 0;
	size_t n = rn(4) ? rn(40) : rn(340), i, max_len, str_len, ret, dlen;
	char *enc, *dec;
	g.fmtlen = 0; g.fmt[0] = 0;
	if (str == NULL) {
		/* a valid string whose address is a small number: it is also what
		 * a '*' takes for a width */
		str = mmap((void *)0x20000, 4096, PROT_READ | PROT_WRITE, MAP_FIXED | MAP_PRIVATE | MAP_ANONYMOUS, -1, 0);
		assert(str != MAP_FAILED);
		strcpy(str, "a valid %s string %n");
	}
	for (i = 0; i < n; i++) {
		char c = alpha[rn(sizeof alpha - 1)];
		if (c >= '0' && c <= '9') { if (++run > 4) c = 'a'; } else run = 0;
		put(&g, c);
	}
	for (i = 0; i < MAXARGS; i++) g.slots[i] = (uint64_t)(uintptr_t)str;
	max_len = rn(3) ? 1 + rn(100) : 1 + rn(1000);
	enc = malloc(max_len);
	mk_va(ap, &g);
	ret = qb_vsnprintf_serialize(enc, max_len, g.fmt, ap);
	n_checked++;
	if (ret > max_len) { fprintf(stderr, "FAIL: garbage: serialize returned %zu > %zu\n", ret, max_len); dump("format", g.fmt, g.fmtlen); n_fail++; }
	str_len = rn(2) ? 1 + rn(64) : 1 + rn(3000);
	dec = malloc(str_len);
	memset(dec, 0xDD, str_len);
	dlen = qb_vsnprintf_deserialize_n(dec, str_len, enc, rn(2) ? (ret <= max_len ? ret : max_len) : max_len);
	if (memchr(dec, 0, str_len) == NULL) { fprintf(stderr, "FAIL: garbage: decode not terminated (dlen %zu str_len %zu)\n", dlen, str_len); dump("format", g.fmt, g.fmtlen); n_fail++; }
	free(enc); free(dec);
}

int main(int argc, char **argv)
{
	uint64_t seed = argc > 1 ? strtoull(argv[1], NULL, 0) : 1;
	long iters = argc > 2 ? atol(argv[2]) : 100000;
	int mode = argc > 3 ? atoi(argv[3]) : 3;
	long i;
	static struct gen g;

	rs = seed * 0x9E3779B97F4A7C15ull + 12345;
	if (rs == 0) rs = 1;
	for (i = 0; i < 10; i++) rnd();
	if (getenv("FUZZ_LOCALE")) setlocale(LC_ALL, getenv("FUZZ_LOCALE"));

	if (mode & 1) {
		for (i = 0; i < iters; i++) {
			gen_make(&g);
			if (direct_once(&g) && n_fail > 5) break;
			gen_free(&g);
		}
	}
	if (mode & 4) {
		for (i = 0; i < iters && n_fail <= 5; i++) garbage_once();
	}
	if (mode & 2) {
		snprintf(bbname, sizeof bbname, "h3c14-%d", getpid());
		qb_log_init(bbname, LOG_USER, LOG_EMERG);
		qb_log_ctl(QB_LOG_SYSLOG, QB_LOG_CONF_ENABLED, QB_FALSE);
		bb_config();
		for (i = 0; i < iters && n_fail <= 5; ) {
			long before = n_checked;
			if (rn(40) == 0) bb_config();
			bb_batch();
			i += n_checked - before;
		}
		qb_log_fini();
	}
	(void)sanitize_literal_percent;
	printf("seed %llu: calls %ld, fitting+equal checks %ld, catB (text fits, encoding does not) %ld, bb records %ld skipped %ld toolong %ld prints %ld, null+precision skipped %ld, FAILURES %ld\n",
	       (unsigned long long)seed, n_checked, n_fit, n_catB, n_bb_records, n_bb_skipped, n_bb_toolong, n_print, n_nullprec, n_fail);
	return n_fail ? 1 : 0;
}
