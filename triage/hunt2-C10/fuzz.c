/*
 * C10 model-based randomized tester: weak priorities of the qb_loop.
 *
 * Workload: self-re-adding jobs, always-ready descriptors, zero-delay timers
 * at the three priorities; callbacks randomly add / delete / re-prioritise
 * other items, optionally stop the loop (it is then run again).
 *
 * The iteration boundary is observed by wrapping job_source->poll (called
 * exactly once at the top of every iteration of qb_loop_run()).
 *
 * Checks
 *  WEAK   (the property): in any 3 consecutive iterations, each level that had
 *         pending work from the start of the window (and nothing of it removed
 *         by a delete) dispatched >= 1 item.
 *  FAIR   (the property): in an iteration where level p dispatched, every
 *         higher level q with pending work at the start dispatched as well.
 *  STRONG (informational, exact model of loop.c): level p runs in iteration
 *         k of a run iff p >= {HIGH,MED,LOW}[k%3]; dispatches min(4,queue).
 */
#include "os_base.h"
#include <sys/eventfd.h>
#include <qb/qbdefs.h>
#include <qb/qblist.h>
#include <qb/qbloop.h>
#include "loop_int.h"

enum { K_JOB, K_TIMER, K_FD };
struct it {
	int kind, p, live, fd, counted, modp, keeper, dispatching, events;
	qb_loop_timer_handle th;
	long last, maxgap;
};
#define MAXI 1400
static struct it items[MAXI];
static int nitems;
static qb_loop_t *L;
static int live[3];
static long iter, run_iter, max_iter, ndisp, nops;
static int disp[3][3], liveathook[3][3], cut[3], stoplvl[3];
static long del_iter[3] = { -10, -10, -10 };
static long hist;		/* iterations recorded */
static int cur;
static int stop_now;
static int fails, strongfails;
static int verbose, big;
static unsigned long seed;

/* parameters (per mille) */
static int P_ADD, P_DEL, P_MOD, P_STOP, P_DIE, P_MOVE, P_DELSELF;
static int STOPS_OK;		/* with stops, only count failures, do not treat STRONG */

static unsigned long rs;
static unsigned rnd(void)
{
	rs = rs * 6364136223846793005UL + 1442695040888963407UL;
	return (unsigned)(rs >> 33);
}
static int chance(int pm) { return (int)(rnd() % 1000) < pm; }

static int32_t (*orig_poll) (struct qb_loop_source *, int32_t);

static void job_cb(void *d);
static void tmr_cb(void *d);
static int32_t fd_cb(int32_t fd, int32_t rev, void *d);

static void mark_del(int p) { del_iter[p] = iter; }

static void end_iteration(void)
{
	int p, q, w;
	if (hist == 0)
		return;
	/* FAIR + STRONG on the iteration just finished */
	for (p = 0; p < 3; p++) {
		int active = p >= stoplvl[cur];
		if (del_iter[p] == iter || cut[cur])
			continue;
		if (active && liveathook[cur][p] > 0 && disp[cur][p] < 1) {
			strongfails++;
			if (strongfails < 10)
				printf("STRONG seed %lu iter %ld (run_iter %ld): level %d active, pending %d, dispatched 0\n",
				       seed, iter, run_iter - 1, p, liveathook[cur][p]);
		}
		if (disp[cur][p] > 4 || (!active && disp[cur][p] > 0)) {
			strongfails++;
			if (strongfails < 10)
				printf("STRONG seed %lu iter %ld: level %d active=%d dispatched %d\n",
				       seed, iter, p, active, disp[cur][p]);
		}
		for (q = p + 1; q < 3; q++) {
			if (del_iter[q] == iter)
				continue;
			if (disp[cur][p] > 0 && liveathook[cur][q] > 0 && disp[cur][q] == 0) {
				fails++;
				if (fails < 10)
					printf("FAIR seed %lu iter %ld: level %d dispatched %d but higher level %d (pending %d) none\n",
					       seed, iter, p, disp[cur][p], q, liveathook[cur][q]);
			}
		}
	}
	/* WEAK on the window of the last three */
	if (hist >= 3) {
		int first = (cur + 1) % 3;	/* oldest */
		for (p = 0; p < 3; p++) {
			int sum = 0;
			if (del_iter[p] > iter - 3)
				continue;
			if (liveathook[first][p] <= 0)
				continue;
			for (w = 0; w < 3; w++)
				sum += disp[w][p];
			if (sum == 0) {
				fails++;
				if (fails < 10)
					printf("WEAK seed %lu iters %ld..%ld: level %d pending %d at window start, 0 dispatched (cut %d%d%d)\n",
					       seed, iter - 2, iter, p, liveathook[first][p],
					       cut[first], cut[(first + 1) % 3], cut[cur]);
			}
		}
	}
}

static void begin_iteration(void)
{
	int p;
	static const int pstop[3] = { QB_LOOP_HIGH, QB_LOOP_MED, QB_LOOP_LOW };
	stoplvl[(cur + 1) % 3] = pstop[run_iter % 3];
	iter++;
	run_iter++;
	hist++;
	cur = (cur + 1) % 3;
	cut[cur] = 0;
	for (p = 0; p < 3; p++) {
		disp[cur][p] = 0;
		liveathook[cur][p] = live[p];
	}
}

static int32_t hook_poll(struct qb_loop_source *s, int32_t t)
{
	end_iteration();
	if (iter >= max_iter) {
		stop_now = 1;
		qb_loop_stop(L);
	}
	begin_iteration();
	return orig_poll(s, t);
}

static int arm(struct it *x)
{
	int rc = 0;
	switch (x->kind) {
	case K_JOB:
		rc = qb_loop_job_add(L, x->p, x, job_cb);
		break;
	case K_TIMER:
		rc = qb_loop_timer_add(L, x->p, 0, x, tmr_cb, &x->th);
		break;
	case K_FD:
		rc = qb_loop_poll_add(L, x->p, x->fd, x->events, x, fd_cb);
		break;
	}
	return rc;
}

static struct it *new_item(int kind, int p)
{
	struct it *x = NULL;
	int i;
	for (i = 0; i < nitems; i++) {
		if (!items[i].live && !items[i].dispatching && items[i].kind == kind) {
			x = &items[i];
			break;
		}
	}
	if (x == NULL) {
		if (nitems >= MAXI)
			return NULL;
		x = &items[nitems++];
		memset(x, 0, sizeof(*x));
		x->kind = kind;
		x->fd = -1;
		if (kind == K_FD) {
			if (big || (rnd() & 1)) {
				x->fd = eventfd(1, EFD_NONBLOCK);
				x->events = POLLIN;
			} else {
				int pf[2];
				if (pipe(pf) != 0) { nitems--; return NULL; }
				x->fd = pf[1];	/* read end leaks on purpose: stays writable */
				x->events = POLLOUT;
			}
			if (x->fd < 0) { nitems--; return NULL; }
		}
	}
	x->p = p;
	x->counted = 1;
	if (arm(x) != 0) {
		printf("note: seed %lu arm kind %d failed\n", seed, kind);
		return NULL;
	}
	x->live = 1;
	live[p]++;
	return x;
}

static struct it *pick_live(int kind, struct it *notme)
{
	int i, n = nitems, s = rnd() % (n ? n : 1);
	for (i = 0; i < n; i++) {
		struct it *x = &items[(s + i) % n];
		if (x->live && !x->keeper && x != notme && !x->dispatching &&
		    (kind < 0 || x->kind == kind))
			return x;
	}
	return NULL;
}

static void uncount(struct it *x)
{
	if (x->counted) {
		live[x->p]--;
		mark_del(x->p);
	}
	x->counted = 0;
}

static void random_ops(struct it *self)
{
	struct it *x;
	int rc;
	nops++;
	if (chance(P_ADD))
		(void)new_item(rnd() % 3, rnd() % 3);
	if (chance(P_DEL) && (x = pick_live(-1, self)) != NULL) {
		switch (x->kind) {
		case K_JOB:
			rc = qb_loop_job_del(L, x->p, x, job_cb);
			break;
		case K_TIMER:
			rc = qb_loop_timer_del(L, x->th);
			break;
		default:
			rc = qb_loop_poll_del(L, x->fd);
			break;
		}
		if (rc != 0)
			printf("note: seed %lu del kind %d rc %d\n", seed, x->kind, rc);
		uncount(x);
		x->live = 0;
	}
	if (chance(P_MOD) && (x = pick_live(K_FD, NULL)) != NULL) {
		int np = rnd() % 3;
		rc = qb_loop_poll_mod(L, np, x->fd, x->events, x, fd_cb);
		if (rc != 0)
			printf("note: seed %lu mod rc %d\n", seed, rc);
		uncount(x);
		x->modp = np;
	}
	if (chance(P_STOP)) {
		cut[cur] = 1;
		qb_loop_stop(L);
	}
}

static void dispatched(struct it *x)
{
	ndisp++;
	if (x->last && iter - x->last > x->maxgap)
		x->maxgap = iter - x->last;
	x->last = iter;
	if (x->counted)
		disp[cur][x->p]++;
}

static void self_next(struct it *x)
{
	/* job / timer: one-shot, decide whether and where to come back */
	if (!x->keeper && chance(P_DIE)) {
		live[x->p]--;
		x->live = 0;
		return;
	}
	if (!x->keeper && chance(P_MOVE)) {
		live[x->p]--;
		x->p = rnd() % 3;
		live[x->p]++;
	}
	if (arm(x) != 0) {
		printf("note: seed %lu re-arm failed\n", seed);
		live[x->p]--;
		x->live = 0;
	}
}

static void job_cb(void *d)
{
	struct it *x = d;
	dispatched(x);
	x->dispatching = 1;
	random_ops(x);
	x->dispatching = 0;
	self_next(x);
}

static void tmr_cb(void *d)
{
	struct it *x = d;
	dispatched(x);
	x->dispatching = 1;
	random_ops(x);
	x->dispatching = 0;
	self_next(x);
}

static int32_t fd_cb(int32_t fd, int32_t rev, void *d)
{
	struct it *x = d;
	int ret = 0;
	(void)fd; (void)rev;
	dispatched(x);
	if (!x->counted) {
		/* re-prioritised: from now on it is queued at the new level */
		x->p = x->modp;
		x->counted = 1;
		live[x->p]++;
	}
	random_ops(x);		/* may poll_mod self (uncounts again) */
	if (!x->keeper && chance(P_DIE)) {
		if (x->counted)
			live[x->p]--;
		x->counted = 0;
		x->live = 0;
		if (chance(P_DELSELF)) {
			(void)qb_loop_poll_del(L, x->fd);
			ret = (rnd() & 1) ? -1 : 0;
		} else {
			ret = -1;
		}
	}
	return ret;
}

int main(int argc, char **argv)
{
	int nj[3], nt[3], nf[3], p, i, keeper_kind;
	static const int sizes[] = { 0, 0, 1, 1, 2, 3, 5, 11, 12, 13, 25, 40 };
	static const int bigsizes[] = { 0, 1, 12, 13, 24, 25, 60, 100, 143, 144, 145, 250 };
	int mode;

	seed = argc > 1 ? strtoul(argv[1], NULL, 0) : 1;
	max_iter = argc > 2 ? atol(argv[2]) : 1000;
	mode = argc > 3 ? atoi(argv[3]) : 0;	/* 0 static, 1 churn, 2 churn+stops, 3 jobs only */
	verbose = argc > 4;
	big = mode == 4;
	rs = seed * 2654435761UL + 12345;
	for (i = 0; i < 5; i++) rnd();

	L = qb_loop_create();
	orig_poll = L->job_source->poll;
	L->job_source->poll = hook_poll;

	P_ADD = P_DEL = P_MOD = P_STOP = P_DIE = P_MOVE = 0;
	P_DELSELF = 300;
	if (mode == 1 || mode == 2) {
		P_ADD = 5 + rnd() % 60;
		P_DEL = rnd() % 50;
		P_MOD = rnd() % 30;
		P_DIE = rnd() % 40;
		P_MOVE = rnd() % 50;
	}
	if (mode == 2) {
		P_STOP = 1 + rnd() % 200;
		STOPS_OK = 1;
	}
	for (p = 0; p < 3; p++) {
		nj[p] = (mode == 4 ? bigsizes : sizes)[rnd() % 12];
		nt[p] = mode == 3 ? 0 : (mode == 4 ? bigsizes : sizes)[rnd() % 12];
		nf[p] = mode == 3 ? 0 : (mode == 4 ? bigsizes : sizes)[rnd() % 12];
	}
	/* keeper: something that keeps the loop turning */
	keeper_kind = mode == 3 ? K_JOB : (rnd() & 1) ? K_TIMER : K_FD;
	{
		struct it *k = new_item(keeper_kind, rnd() % 3);
		k->keeper = 1;
	}
	for (p = 0; p < 3; p++) {
		for (i = 0; i < nj[p]; i++) new_item(K_JOB, p);
		for (i = 0; i < nt[p]; i++) new_item(K_TIMER, p);
		for (i = 0; i < nf[p]; i++) new_item(K_FD, p);
	}
	if (verbose)
		printf("seed %lu mode %d J %d/%d/%d T %d/%d/%d F %d/%d/%d add %d del %d mod %d die %d move %d stop %d\n",
		       seed, mode, nj[0], nj[1], nj[2], nt[0], nt[1], nt[2], nf[0], nf[1], nf[2],
		       P_ADD, P_DEL, P_MOD, P_DIE, P_MOVE, P_STOP);

	while (!stop_now) {
		run_iter = 0;
		qb_loop_run(L);
	}
	if (mode == 0 || mode == 4) {
		/* static population: FIFO within a level, 4 per visit, a visit at least every 3 iterations */
		for (i = 0; i < nitems; i++) {
			struct it *x = &items[i];
			long bound = 3 * ((live[x->p] + 3) / 4) + 3;
			if (x->last == 0 || x->maxgap > bound || iter - x->last > bound) {
				fails++;
				printf("ITEM seed %lu item %d kind %d level %d (population %d): last %ld maxgap %ld bound %ld\n",
				       seed, i, x->kind, x->p, live[x->p], x->last, x->maxgap, bound);
			}
		}
	}
	printf("seed %lu mode %d: iterations %ld dispatches %ld ops %ld items %d  property-fails %d strong-fails %d\n",
	       seed, mode, iter, ndisp, nops, nitems, fails, strongfails);
	/* no qb_loop_destroy: pending one-shot jobs would show as leaks */
	return fails ? 1 : (strongfails ? 2 : 0);
}
