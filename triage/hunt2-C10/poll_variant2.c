#include "os_base.h"
#undef HAVE_EPOLL
#include "loop_poll_poll.c"
