#!/bin/sh
T=${1:-/repo}; cd "$(dirname "$0")"
gcc -g -fsanitize=address,undefined -I$T/include demo.c -L$T/lib/.libs -lqb -o demo || exit 99
LD_LIBRARY_PATH=$T/lib/.libs ASAN_OPTIONS=detect_leaks=0 ./demo
