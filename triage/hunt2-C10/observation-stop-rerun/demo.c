/* Observation (NOT reported as a violation): the rotation position p_stop is a
 * local of qb_loop_run() (lib/loop.c:148) and stop returns right after the
 * current dispatch, so an application that runs the loop in bursts shorter
 * than three iterations never reaches LOW (or MED). */
#include <stdio.h>
#include <qb/qbloop.h>
static qb_loop_t *l; static int n[3];
static void high(void *d) { n[2]++; qb_loop_job_add(l, QB_LOOP_HIGH, NULL, high); qb_loop_stop(l); }
static void med(void *d)  { n[1]++; qb_loop_job_add(l, QB_LOOP_MED, NULL, med); }
static void low(void *d)  { n[0]++; qb_loop_job_add(l, QB_LOOP_LOW, NULL, low); }
int main(void)
{
	int i;
	l = qb_loop_create();
	qb_loop_job_add(l, QB_LOOP_HIGH, NULL, high);
	qb_loop_job_add(l, QB_LOOP_MED, NULL, med);
	qb_loop_job_add(l, QB_LOOP_LOW, NULL, low);
	for (i = 0; i < 30; i++) qb_loop_run(l);	/* 30 one-iteration runs */
	printf("dispatches after 30 runs: HIGH %d MED %d LOW %d\n", n[2], n[1], n[0]);
	return (n[1] == 0 || n[0] == 0) ? 1 : 0;
}
