#include "os_base.h"
#include <qb/qbdefs.h>
#include <qb/qblist.h>
#include <qb/qbloop.h>
#include <qb/qblog.h>
#include <qb/qbrb.h>
#include <qb/qbutil.h>
#include <signal.h>
#include "log_int.h"
static int nmsg;
static void tlog(int32_t t, struct qb_log_callsite *cs, struct timespec *ts, const char *msg){ nmsg++; }
static int sigcalls; static qb_loop_t *L; static qb_loop_signal_handle SH;
static int32_t sigcb(int32_t sig, void *d){ sigcalls++; printf("signal callback invoked (call %d)\n", sigcalls); return 0; }
static void deleter(void *d){ int rc = qb_loop_signal_del(L, SH); printf("qb_loop_signal_del -> %d\n", rc); }
static void stopper(void *d){ qb_loop_stop(L); }
int main(int argc, char **argv){
  const char *w = argv[1];
  if(!strcmp(w,"D12a")){ /* init/threaded/start/fini then re-init */
    for (int round=0; round<2; round++){
      nmsg=0;
      qb_log_init("t", LOG_USER, LOG_EMERG); qb_log_ctl(QB_LOG_SYSLOG, QB_LOG_CONF_ENABLED, QB_FALSE);
      int t = qb_log_custom_open(tlog, NULL, NULL, NULL); qb_log_filter_ctl(t, QB_LOG_FILTER_ADD, QB_LOG_FILTER_FILE, "*", LOG_TRACE); qb_log_ctl(t, QB_LOG_CONF_ENABLED, QB_TRUE);
      qb_log_ctl(t, QB_LOG_CONF_THREADED, QB_TRUE);
      int rc = qb_log_thread_start(); printf("round %d: thread_start rc=%d\n", round, rc);
      for (int i=0;i<5;i++) qb_log_from_external_source("f","file.c","m %d", LOG_INFO, 10, 0, i);
      qb_log_fini(); printf("round %d: delivered %d of 5\n", round, nmsg);
    }
  } else if(!strcmp(w,"D12b")){ /* control call on a threaded target before thread start */
    qb_log_init("t", LOG_USER, LOG_EMERG); qb_log_ctl(QB_LOG_SYSLOG, QB_LOG_CONF_ENABLED, QB_FALSE);
    int t = qb_log_custom_open(tlog, NULL, NULL, NULL);
    qb_log_ctl(t, QB_LOG_CONF_THREADED, QB_TRUE);
    printf("enabling threaded target before qb_log_thread_start...\n"); fflush(stdout);
    int rc = qb_log_ctl(t, QB_LOG_CONF_ENABLED, QB_TRUE); printf("rc=%d\n", rc);
  } else if(!strcmp(w,"D18")){
    L = qb_loop_create();
    qb_loop_signal_add(L, QB_LOOP_LOW, SIGUSR1, NULL, sigcb, &SH);
    /* two deliveries queued before the LOW level is served; a HIGH job deletes the registration */
    raise(SIGUSR1); raise(SIGUSR1);
    /* let the loop read both from the pipe first: use MED job added after 2 iterations? simpler: run loop; add deleter as HIGH job after pipe drained */
    qb_loop_job_add(L, QB_LOOP_MED, NULL, deleter);
    qb_loop_timer_handle th; qb_loop_timer_add(L, QB_LOOP_LOW, 300*QB_TIME_NS_IN_MSEC, NULL, stopper, &th);
    qb_loop_run(L);
    printf("callback calls total: %d\n", sigcalls);
  } else if(!strcmp(w,"D10")){
    qb_log_init("t", LOG_USER, LOG_EMERG); qb_log_ctl(QB_LOG_SYSLOG, QB_LOG_CONF_ENABLED, QB_FALSE);
    qb_log_ctl(QB_LOG_BLACKBOX, QB_LOG_CONF_SIZE, 4096);
    qb_log_filter_ctl(QB_LOG_BLACKBOX, QB_LOG_FILTER_ADD, QB_LOG_FILTER_FILE, "*", LOG_TRACE);
    qb_log_ctl(QB_LOG_BLACKBOX, QB_LOG_CONF_MAX_LINE_LEN, 32);
    qb_log_ctl(QB_LOG_BLACKBOX, QB_LOG_CONF_ENABLED, QB_TRUE);
    struct qb_log_target *t = qb_log_target_get(QB_LOG_BLACKBOX);
    for (int i=0;i<200;i++) {
      ssize_t before = qb_rb_space_used(t->instance);
      qb_log_from_external_source("fn","file.c","this message is definitely much longer than thirty-two characters %d", LOG_INFO, 10, 0, i);
      if (i<2) printf("used before %zd after %zd (reserved for message: 32)\n", before, qb_rb_space_used(t->instance));
    }
    const char *outp = argc > 2 ? argv[2] : "d10.fdata"; qb_log_blackbox_write_to_file(outp); qb_log_fini();
    qb_log_blackbox_print_from_file(outp);
  } else if(!strcmp(w,"mkbb")){
    qb_log_init("t", LOG_USER, LOG_EMERG); qb_log_ctl(QB_LOG_SYSLOG, QB_LOG_CONF_ENABLED, QB_FALSE);
    qb_log_ctl(QB_LOG_BLACKBOX, QB_LOG_CONF_SIZE, 4096);
    qb_log_filter_ctl(QB_LOG_BLACKBOX, QB_LOG_FILTER_ADD, QB_LOG_FILTER_FILE, "*", LOG_TRACE);
    qb_log_ctl(QB_LOG_BLACKBOX, QB_LOG_CONF_ENABLED, QB_TRUE);
    for (int i=0;i<5;i++) qb_log_from_external_source("fn","file.c","msg %d", LOG_INFO, 10, 0, i);
    qb_log_blackbox_write_to_file(argv[2]); qb_log_fini();
  } else if(!strcmp(w,"print")){
    int rc = qb_log_blackbox_print_from_file(argv[2]); printf("print rc=%d\n", rc);
  }
  return 0;
}
