/* shared by the finding demos: a libqb IPC server in a forked child */
#include "os_base.h"
#include <poll.h>
#include <dirent.h>
#include <grp.h>
#include <sys/un.h>
#include <sys/wait.h>
#include <sys/mman.h>
#include <sys/stat.h>
#include <signal.h>
#include <qb/qbdefs.h>
#include <qb/qbloop.h>
#include <qb/qbipcs.h>
#include <qb/qbipcc.h>
#include "ipc_int.h"

struct h_shared {
	volatile int ready;
	volatile pid_t server_pid;
	/* what the accept callback is to do */
	volatile int decision_for_uid_valid;
	volatile uid_t refuse_uid;	/* refuse (-EACCES) when the reported uid is this */
	volatile int use_auth;
	volatile uid_t auid;
	volatile gid_t agid;
	volatile mode_t amode;
	/* what the callbacks saw */
	volatile int accept_calls;
	volatile uid_t cb_uid;
	volatile gid_t cb_gid;
	volatile pid_t cb_pid;
	volatile int msgs;
	volatile int marker_msgs;	/* messages carrying H_MARKER */
	volatile pid_t marker_conn_pid;	/* the connection they arrived on */
	volatile int go;
	char dir[PATH_MAX];
};
#define H_MARKER 0x0badcafe
struct h_msg {
	struct qb_ipc_request_header hdr;
	int32_t marker;
	int32_t pad;
};

static struct h_shared *hs;
static qb_loop_t *h_loop;
static char h_name[64];

static pid_t h_conn_pid(qb_ipcs_connection_t *c)
{
	struct qb_ipcs_connection_stats st;
	qb_ipcs_connection_stats_get(c, &st, 0);
	return st.client_pid;
}
static int32_t h_accept(qb_ipcs_connection_t *c, uid_t uid, gid_t gid)
{
	hs->accept_calls++;
	hs->cb_uid = uid;
	hs->cb_gid = gid;
	hs->cb_pid = h_conn_pid(c);
	if (hs->use_auth) {
		qb_ipcs_connection_auth_set(c, hs->auid, hs->agid, hs->amode);
	}
	if (hs->decision_for_uid_valid && uid == hs->refuse_uid) {
		return -EACCES;
	}
	return 0;
}
static void h_created(qb_ipcs_connection_t *c) { }
static int32_t h_msg_process(qb_ipcs_connection_t *c, void *data, size_t size)
{
	struct h_msg *m = data;
	struct qb_ipc_response_header rh;
	hs->msgs++;
	if (size >= sizeof *m && m->marker == H_MARKER) {
		hs->marker_msgs++;
		hs->marker_conn_pid = h_conn_pid(c);
		return 0;
	}
	rh.id = 1; rh.size = sizeof rh; rh.error = 0;
	qb_ipcs_response_send(c, &rh, sizeof rh);
	return 0;
}
static int32_t h_closed(qb_ipcs_connection_t *c) { return 0; }
static void h_destroyed(qb_ipcs_connection_t *c) { }
static int32_t h_job_add(enum qb_loop_priority p, void *d, qb_loop_job_dispatch_fn fn)
{ return qb_loop_job_add(h_loop, p, d, fn); }
static int32_t h_dadd(enum qb_loop_priority p, int32_t fd, int32_t ev, void *d, qb_ipcs_dispatch_fn_t fn)
{ return qb_loop_poll_add(h_loop, p, fd, ev, d, fn); }
static int32_t h_dmod(enum qb_loop_priority p, int32_t fd, int32_t ev, void *d, qb_ipcs_dispatch_fn_t fn)
{ return qb_loop_poll_mod(h_loop, p, fd, ev, d, fn); }
static int32_t h_ddel(int32_t fd) { return qb_loop_poll_del(h_loop, fd); }
static int32_t h_stop(int32_t sig, void *d) { qb_loop_stop(h_loop); return 0; }

static pid_t
h_start_server(enum qb_ipc_type type)
{
	pid_t p;

	hs = mmap(NULL, sizeof *hs, PROT_READ | PROT_WRITE, MAP_SHARED | MAP_ANONYMOUS, -1, 0);
	memset(hs, 0, sizeof *hs);
	snprintf(h_name, sizeof h_name, "huntC05demo-%d", (int)getpid());
	p = fork();
	if (p == 0) {
		struct qb_ipcs_service_handlers sh = {
			.connection_accept = h_accept, .connection_created = h_created,
			.msg_process = h_msg_process, .connection_closed = h_closed,
			.connection_destroyed = h_destroyed,
		};
		struct qb_ipcs_poll_handlers ph = {
			.job_add = h_job_add, .dispatch_add = h_dadd,
			.dispatch_mod = h_dmod, .dispatch_del = h_ddel,
		};
		qb_ipcs_service_t *s;
		h_loop = qb_loop_create();
		qb_loop_signal_add(h_loop, QB_LOOP_HIGH, SIGTERM, NULL, h_stop, NULL);
		s = qb_ipcs_create(h_name, 0, type, &sh);
		qb_ipcs_poll_handlers_set(s, &ph);
		if (qb_ipcs_run(s) != 0) _exit(3);
		hs->server_pid = getpid();
		hs->ready = 1;
		qb_loop_run(h_loop);
		qb_ipcs_destroy(s);
		qb_loop_destroy(h_loop);
		_exit(0);
	}
	while (!hs->ready) usleep(1000);
	return p;
}

static void
h_stop_server(pid_t p)
{
	int st;
	kill(p, SIGTERM);
	waitpid(p, &st, 0);
}

static void
h_become(uid_t ruid, uid_t euid, gid_t rgid, gid_t egid)
{
	if (setgroups(0, NULL) != 0 || setregid(rgid, egid) != 0 ||
	    setreuid(ruid, euid) != 0) {
		perror("credentials");
		_exit(99);
	}
}

/* first directory /dev/shm/qb-<server>-<client>-* */
static int
h_find_dir(pid_t spid, pid_t cpid, char *out, size_t outlen)
{
	DIR *d = opendir("/dev/shm");
	struct dirent *de;
	char pfx[64];
	int found = 0;

	snprintf(pfx, sizeof pfx, "qb-%d-%d-", (int)spid, (int)cpid);
	while (d && (de = readdir(d)) != NULL) {
		if (strncmp(de->d_name, pfx, strlen(pfx)) == 0) {
			snprintf(out, outlen, "/dev/shm/%s", de->d_name);
			found = 1;
			break;
		}
	}
	if (d) closedir(d);
	return found;
}
