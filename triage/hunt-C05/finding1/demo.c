/*
 * C05 finding 1: the uid/gid handed to connection_accept() are not the
 * effective credentials of the connecting process.
 *
 *  A. libqb client with real ids 0:0, effective ids 1000:1000
 *     (a root daemon that dropped its effective privileges)   -> server is told 0:0
 *  B. libqb client with real ids 1000:1000, effective 2000:2000 -> server is told 1000:1000
 *  C. process P1 (all ids 1000) connects and sends the first 16 bytes of the
 *     handshake; another process P2 (root) writes the remaining 8 bytes into
 *     the same socket                                          -> server is told 0:0
 */
#include "harness.h"

static int bad;

static void
check(const char *what, uid_t want_uid, gid_t want_gid, int calls_before)
{
	int i;
	for (i = 0; i < 2000 && hs->accept_calls == calls_before; i++) usleep(1000);
	if (hs->accept_calls == calls_before) {
		printf("%s: accept callback never called\n", what);
		bad = 1;
		return;
	}
	printf("%s: connecting process is effective %d:%d, accept callback was given %d:%d -> %s\n",
	       what, want_uid, want_gid, hs->cb_uid, hs->cb_gid,
	       (hs->cb_uid == want_uid && hs->cb_gid == want_gid) ? "ok" : "VIOLATION");
	if (hs->cb_uid != want_uid || hs->cb_gid != want_gid) bad = 1;
}

static void
libqb_case(const char *what, uid_t ruid, uid_t euid, gid_t rgid, gid_t egid)
{
	int before = hs->accept_calls;
	int st;
	pid_t p = fork();
	if (p == 0) {
		qb_ipcc_connection_t *c;
		h_become(ruid, euid, rgid, egid);
		c = qb_ipcc_connect(h_name, 8192);
		printf("   (client real %d:%d effective %d:%d: qb_ipcc_connect %s, errno %d)\n",
		       getuid(), getgid(), geteuid(), getegid(), c ? "succeeded" : "failed", c ? 0 : errno);
		fflush(stdout);
		if (c) qb_ipcc_disconnect(c);
		_exit(0);
	}
	waitpid(p, &st, 0);
	check(what, euid, egid, before);
}

static void
send_fd(int via, int fd)
{
	struct msghdr mh = { 0 };
	struct iovec iov;
	char b = 'x';
	char ctl[CMSG_SPACE(sizeof(int))];
	struct cmsghdr *cm;
	iov.iov_base = &b; iov.iov_len = 1;
	mh.msg_iov = &iov; mh.msg_iovlen = 1;
	mh.msg_control = ctl; mh.msg_controllen = sizeof ctl;
	cm = CMSG_FIRSTHDR(&mh);
	cm->cmsg_level = SOL_SOCKET; cm->cmsg_type = SCM_RIGHTS; cm->cmsg_len = CMSG_LEN(sizeof(int));
	memcpy(CMSG_DATA(cm), &fd, sizeof fd);
	sendmsg(via, &mh, 0);
}
static int
recv_fd(int via)
{
	struct msghdr mh = { 0 };
	struct iovec iov;
	char b;
	char ctl[CMSG_SPACE(sizeof(int))];
	struct cmsghdr *cm;
	int fd = -1;
	iov.iov_base = &b; iov.iov_len = 1;
	mh.msg_iov = &iov; mh.msg_iovlen = 1;
	mh.msg_control = ctl; mh.msg_controllen = sizeof ctl;
	if (recvmsg(via, &mh, 0) <= 0) return -1;
	cm = CMSG_FIRSTHDR(&mh);
	if (cm) memcpy(&fd, CMSG_DATA(cm), sizeof fd);
	return fd;
}

static void
two_writers_case(void)
{
	int before = hs->accept_calls;
	int sp[2], st;
	pid_t p1, p2;
	struct qb_ipc_connection_request req;

	memset(&req, 0, sizeof req);
	req.hdr.id = QB_IPC_MSG_AUTHENTICATE;
	req.hdr.size = sizeof req;
	req.max_msg_size = 8192;
	socketpair(AF_UNIX, SOCK_DGRAM, 0, sp);

	p1 = fork();
	if (p1 == 0) {		/* the connecting process: all ids 1000 */
		struct sockaddr_un a;
		int fd;
		char buf[64];
		h_become(1000, 1000, 1000, 1000);
		fd = socket(AF_UNIX, SOCK_STREAM, 0);
		memset(&a, 0, sizeof a);
		a.sun_family = AF_UNIX;
		snprintf(a.sun_path + 1, sizeof a.sun_path - 1, "%s", h_name);
		if (connect(fd, (struct sockaddr *)&a, sizeof a) != 0) _exit(1);
		send(fd, &req, 16, MSG_NOSIGNAL);	/* the header, nothing more */
		send_fd(sp[0], fd);
		/* wait for the answer so that the socket stays open */
		recv(fd, buf, sizeof buf, 0);
		_exit(0);
	}
	p2 = fork();
	if (p2 == 0) {		/* somebody else (root) writing into that socket */
		int fd = recv_fd(sp[1]);
		if (fd < 0) _exit(1);
		usleep(20000);
		send(fd, (char *)&req + 16, sizeof req - 16, MSG_NOSIGNAL);
		_exit(0);
	}
	waitpid(p2, &st, 0);
	check("C two writers (P1 uid 1000 connects + sends header, root P2 writes last 8 bytes)",
	      1000, 1000, before);
	kill(p1, SIGKILL);
	waitpid(p1, &st, 0);
}

int
main(void)
{
	pid_t srv = h_start_server(QB_IPC_SHM);

	setvbuf(stdout, NULL, _IONBF, 0);
	libqb_case("A libqb client real 0:0 effective 1000:1000", 0, 1000, 0, 1000);
	libqb_case("B libqb client real 1000:1000 effective 2000:2000", 1000, 2000, 1000, 2000);
	libqb_case("  (control: real = effective = 1000:1000)", 1000, 1000, 1000, 1000);
	two_writers_case();
	h_stop_server(srv);
	printf(bad ? "RESULT: property violated\n" : "RESULT: property held\n");
	return bad;
}
