/*
 * C05 finding 2: the per-connection directory is group-accessible (0770)
 * although the accept callback chose nothing (default: owner-only, 0600).
 *
 * client:      uid 1000, gid 3000, accepted with the defaults
 * third party: uid 2000, gid 3000 (shares only the group)
 * The third party lists the connection's directory, deletes one of its ring
 * files and plants a file of its own there.
 */
#include "harness.h"

static int
run(enum qb_ipc_type type, const char *tname)
{
	pid_t srv = h_start_server(type);
	int p2c[2], c2p[2], st, bad = 0;
	pid_t cl, tp;
	char dir[PATH_MAX], b;
	struct stat sb;

	pipe(p2c); pipe(c2p);
	cl = fork();
	if (cl == 0) {
		qb_ipcc_connection_t *c;
		h_become(1000, 1000, 3000, 3000);
		c = qb_ipcc_connect(h_name, 8192);
		b = c ? 'y' : 'n';
		write(c2p[1], &b, 1);
		read(p2c[0], &b, 1);	/* stay connected until told */
		if (c) qb_ipcc_disconnect(c);
		_exit(0);
	}
	read(c2p[0], &b, 1);
	if (b != 'y' || !h_find_dir(hs->server_pid, cl, dir, sizeof dir)) {
		printf("[%s] setup failed (connected=%c)\n", tname, b);
		bad = 2;
		goto out;
	}
	stat(dir, &sb);
	printf("[%s] accepted client 1000:3000, default owner/mode (0600)\n", tname);
	printf("[%s] %s: owner %d:%d mode %04o\n", tname, dir, sb.st_uid, sb.st_gid, sb.st_mode & 07777);
	if (sb.st_mode & 0077) {
		printf("[%s]   -> VIOLATION: directory grants %04o to group/others\n", tname, sb.st_mode & 0077);
		bad = 1;
	}
	tp = fork();
	if (tp == 0) {
		DIR *d;
		struct dirent *de;
		char victim[PATH_MAX] = "", path[PATH_MAX + 300];
		int n = 0, fd, r = 0;
		h_become(2000, 2000, 3000, 3000);
		d = opendir(dir);
		if (d) {
			while ((de = readdir(d)) != NULL) {
				if (de->d_name[0] == '.') continue;
				n++;
				snprintf(victim, sizeof victim, "%s", de->d_name);
			}
			closedir(d);
			printf("[%s]   third party 2000:3000 listed the directory: %d entries -> VIOLATION\n", tname, n);
			r = 1;
		} else {
			printf("[%s]   third party cannot list the directory (errno %d) ok\n", tname, errno);
		}
		if (victim[0]) {
			snprintf(path, sizeof path, "%s/%s", dir, victim);
			if (unlink(path) == 0) {
				printf("[%s]   third party deleted %s -> VIOLATION\n", tname, victim);
				r = 1;
			}
		}
		snprintf(path, sizeof path, "%s/planted", dir);
		fd = open(path, O_CREAT | O_EXCL | O_WRONLY, 0666);
		if (fd >= 0) {
			printf("[%s]   third party created %s -> VIOLATION\n", tname, path);
			close(fd);
			unlink(path);
			r = 1;
		}
		fflush(stdout);
		_exit(r);
	}
	waitpid(tp, &st, 0);
	if (WEXITSTATUS(st)) bad = 1;
out:
	write(p2c[1], "x", 1);
	waitpid(cl, &st, 0);
	usleep(100000);
	h_stop_server(srv);
	return bad;
}

int
main(void)
{
	int bad;
	setvbuf(stdout, NULL, _IONBF, 0);
	bad = run(QB_IPC_SHM, "shm");
	bad |= run(QB_IPC_SOCKET, "socket");
	printf(bad ? "RESULT: property violated\n" : "RESULT: property held\n");
	return bad ? 1 : 0;
}
