# sourced by finding*/demo.sh: builds demo.c against the tree given as $1
T=${1:-/repo}
D=$(cd "$(dirname "$0")" && pwd)
SRCS="$T/lib/ipc_setup.c $T/lib/ipcs.c $T/lib/ipc_shm.c $T/lib/ipc_socket.c $T/lib/ringbuffer.c $T/lib/ringbuffer_helper.c $T/lib/unix.c $T/lib/ipcc.c"
gcc -g -O1 -fsanitize=address,undefined -fno-omit-frame-pointer -DHAVE_CONFIG_H \
  -I$T/include -I$T/include/qb -I$T/lib -I$D/.. -w \
  $D/demo.c $SRCS -L$T/lib/.libs -lqb -lpthread -o $D/demo || exit 2
ASAN_OPTIONS=detect_leaks=0 LD_LIBRARY_PATH=$T/lib/.libs $D/demo
