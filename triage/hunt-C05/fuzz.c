/*
 * C05 model-based randomized tester: IPC admission / file privacy.
 *
 * Processes:
 *   driver  (root)   - picks random client credentials / accept decisions /
 *                      auth_set choices, forks clients, checks the outcome
 *   server  (root)   - qb_loop + qb_ipcs service, callbacks check against
 *                      the shared model table
 *   watcher (root)   - continuously stat()s everything under
 *                      /dev/shm/qb-<serverpid>-* and checks the modes
 *   clients          - forked with the chosen real/effective uid/gid, either
 *                      the libqb client or a raw (hostile) one
 *
 * usage: fuzz <seed> <rounds> <shm|sock> [q|v] [mask]
 *   mask letters hide already known findings so that others stand out:
 *   e = real ids always equal effective ids (finding 1)
 *   d = tolerate group bits 0070 on the directory (finding 2)
 *   i = the raw client does not throw datagrams at foreign sockets (finding 3)
 *   o = do not check directory ownership on the socket transport (finding 4)
 */
#include "os_base.h"
#include <poll.h>
#include <dirent.h>
#include <grp.h>
#include <sys/un.h>
#include <sys/wait.h>
#include <sys/mman.h>
#include <sys/stat.h>
#include <signal.h>
#include <qb/qbdefs.h>
#include <qb/qbloop.h>
#include <qb/qbipcs.h>
#include <qb/qbipcc.h>
#include "ipc_int.h"

#define NSLOT 8
#define MAXMSG 8192

enum viol {
	V_CRED,			/* accept cb got something else than euid/egid */
	V_REFUSED_CONNECTED,	/* refused client got a connection */
	V_REFUSED_ERRNO,	/* refused client saw another error */
	V_ACCEPT_FAILED,	/* accepted (default owner) client could not connect */
	V_MSG_FROM_REFUSED,	/* msg_process ran for a refused connection */
	V_MSG_INJECTED,		/* msg_process got a message from another (refused) client */
	V_LEFTOVER,		/* dir/file left for a refused / finished client */
	V_DIR_MODE,		/* directory more permissive than chosen mode */
	V_FILE_MODE,		/* file more permissive than chosen mode */
	V_DIR_OWNER,		/* directory not owned by authorised uid/gid */
	V_FILE_OWNER,		/* file not owned by authorised uid/gid */
	V_MAX
};
static const char *vname[V_MAX] = {
	"CRED", "REFUSED_CONNECTED", "REFUSED_ERRNO", "ACCEPT_FAILED",
	"MSG_FROM_REFUSED", "MSG_INJECTED", "LEFTOVER", "DIR_MODE",
	"FILE_MODE", "DIR_OWNER", "FILE_OWNER"
};

struct slot {
	volatile pid_t pid;
	uid_t ruid, euid;
	gid_t rgid, egid;
	int decision;
	int use_auth;
	uid_t auid;
	gid_t agid;
	mode_t amode;
	int raw;		/* hostile raw client */
	int nmsg;
	/* results */
	volatile int cb_seen;
	volatile int created_seen;
	volatile int msgs_seen;
	volatile int connected;
	volatile int conn_errno;
	volatile int done;
};

struct shared {
	struct slot slots[NSLOT];
	volatile unsigned long viol[V_MAX];
	volatile unsigned long ops;
	volatile int server_ready;
	volatile int stop;
	volatile pid_t server_pid;
	char first[V_MAX][256];
};

static struct shared *sh;
static int quiet;
static int m_e, m_d, m_i, m_o;
static char svc_name[64];
static enum qb_ipc_type ipc_type;

static void
violation(enum viol v, const char *fmt, ...)
{
	char buf[256];
	va_list ap;

	va_start(ap, fmt);
	vsnprintf(buf, sizeof buf, fmt, ap);
	va_end(ap);
	if (__sync_fetch_and_add(&sh->viol[v], 1) == 0) {
		strncpy(sh->first[v], buf, sizeof sh->first[v] - 1);
	}
	if (!quiet) {
		fprintf(stderr, "VIOLATION %s: %s\n", vname[v], buf);
	}
}

static struct slot *
slot_by_pid(pid_t pid)
{
	int i;
	for (i = 0; i < NSLOT; i++) {
		if (sh->slots[i].pid == pid) {
			return &sh->slots[i];
		}
	}
	return NULL;
}

static mode_t exp_mode(const struct slot *s) { return s->use_auth ? s->amode : 0600; }
/* a directory may have search permission where the mode gives read or write */
static mode_t
dir_perm(mode_t m)
{
	mode_t d = m & 0777;
	d |= 0700;	/* the owner's own bits are not what this check is about */
	if (m & 0060) d |= 0010;
	if (m & 0006) d |= 0001;
	if (m_d) d |= 0070;
	return d;
}

/*
 * Walk /dev/shm/qb-<spid>-<cpid>-*; check modes (always) and owners (if asked).
 * Returns the number of objects found for cpid (or for everybody if cpid == 0).
 */
static int
scan(pid_t spid, pid_t cpid, int check_owner, const char *when)
{
	DIR *d = opendir("/dev/shm");
	struct dirent *de;
	char pfx[64];
	int found = 0;

	if (d == NULL) return 0;
	snprintf(pfx, sizeof pfx, "qb-%d-", (int)spid);
	while ((de = readdir(d)) != NULL) {
		char path[PATH_MAX];
		struct stat st;
		int p;
		struct slot *s;
		DIR *d2;
		struct dirent *de2;

		if (strncmp(de->d_name, pfx, strlen(pfx)) != 0) continue;
		p = atoi(de->d_name + strlen(pfx));
		if (cpid && p != cpid) continue;
		snprintf(path, sizeof path, "/dev/shm/%s", de->d_name);
		if (lstat(path, &st) != 0) continue;
		found++;
		s = slot_by_pid(p);
		if (s == NULL) continue;
		if ((st.st_mode & 0777 & ~dir_perm(exp_mode(s))) != 0) {
			violation(V_DIR_MODE, "%s: %s mode %04o, chosen mode %04o (auth_set=%d)",
				  when, path, st.st_mode & 07777, exp_mode(s), s->use_auth);
		}
		if (check_owner && !(m_o && ipc_type == QB_IPC_SOCKET)) {
			uid_t eu = s->use_auth ? s->auid : s->euid;
			gid_t eg = s->use_auth ? s->agid : s->egid;
			if (st.st_uid != eu || st.st_gid != eg) {
				violation(V_DIR_OWNER, "%s: %s owner %d:%d expected %d:%d (auth_set=%d peer e%d:%d r%d:%d)",
					  when, path, st.st_uid, st.st_gid, eu, eg, s->use_auth,
					  s->euid, s->egid, s->ruid, s->rgid);
			}
		}
		d2 = opendir(path);
		if (d2 == NULL) continue;
		while ((de2 = readdir(d2)) != NULL) {
			char p2[PATH_MAX + 300];
			if (de2->d_name[0] == '.') continue;
			snprintf(p2, sizeof p2, "%s/%s", path, de2->d_name);
			if (lstat(p2, &st) != 0) continue;
			found++;
			if ((st.st_mode & 0777 & ~exp_mode(s)) != 0) {
				violation(V_FILE_MODE, "%s: %s mode %04o, chosen %04o",
					  when, p2, st.st_mode & 07777, exp_mode(s));
			}
			if (check_owner) {
				uid_t eu = s->use_auth ? s->auid : s->euid;
				gid_t eg = s->use_auth ? s->agid : s->egid;
				if (st.st_uid != eu || st.st_gid != eg) {
					violation(V_FILE_OWNER, "%s: %s owner %d:%d expected %d:%d (auth_set=%d peer e%d:%d r%d:%d)",
						  when, p2, st.st_uid, st.st_gid, eu, eg, s->use_auth,
						  s->euid, s->egid, s->ruid, s->rgid);
				}
			}
		}
		closedir(d2);
	}
	closedir(d);
	return found;
}

/* ---------------------------------------------------------------- server */
static qb_loop_t *loop;
static qb_ipcs_service_t *svc;

struct msg {
	struct qb_ipc_request_header hdr;
	int32_t from_slot;
	int32_t seq;
	char pad[64];
};

static pid_t
conn_pid(qb_ipcs_connection_t *c)
{
	struct qb_ipcs_connection_stats st;
	qb_ipcs_connection_stats_get(c, &st, 0);
	return st.client_pid;
}

static int32_t
s_accept(qb_ipcs_connection_t *c, uid_t uid, gid_t gid)
{
	struct slot *s = slot_by_pid(conn_pid(c));

	__sync_fetch_and_add(&sh->ops, 1);
	if (s == NULL) {
		return -EACCES;
	}
	s->cb_seen++;
	if (uid != s->euid || gid != s->egid) {
		violation(V_CRED, "accept cb got %d:%d, client is effective %d:%d real %d:%d (raw=%d)",
			  uid, gid, s->euid, s->egid, s->ruid, s->rgid, s->raw);
	}
	if (s->use_auth) {
		qb_ipcs_connection_auth_set(c, s->auid, s->agid, s->amode);
	}
	return s->decision;
}

static void
s_created(qb_ipcs_connection_t *c)
{
	pid_t p = conn_pid(c);
	struct slot *s = slot_by_pid(p);

	if (s == NULL) return;
	s->created_seen++;
	if (s->decision != 0) {
		violation(V_REFUSED_CONNECTED, "connection_created for refused client %d", p);
	}
	scan(getpid(), p, 1, "created");
}

static int32_t
s_msg(qb_ipcs_connection_t *c, void *data, size_t size)
{
	struct msg *m = data;
	struct slot *s = slot_by_pid(conn_pid(c));
	struct qb_ipc_response_header rh;

	__sync_fetch_and_add(&sh->ops, 1);
	if (s == NULL) return 0;
	s->msgs_seen++;
	if (s->decision != 0) {
		violation(V_MSG_FROM_REFUSED, "msg_process on refused connection");
	}
	if (size >= sizeof(struct qb_ipc_request_header) + 8 &&
	    m->from_slot != (int)(s - sh->slots)) {
		struct slot *o = (m->from_slot >= 0 && m->from_slot < NSLOT) ? &sh->slots[m->from_slot] : NULL;
		violation(V_MSG_INJECTED,
			  "msg_process on connection of slot %d got a message sent by slot %d (decision %d)",
			  (int)(s - sh->slots), m->from_slot, o ? o->decision : 999);
		return 0;
	}
	rh.id = 1; rh.size = sizeof rh; rh.error = 0;
	qb_ipcs_response_send(c, &rh, sizeof rh);
	return 0;
}

static int32_t s_closed(qb_ipcs_connection_t *c) { return 0; }
static void s_destroyed(qb_ipcs_connection_t *c) { }

static int32_t my_job_add(enum qb_loop_priority p, void *data, qb_loop_job_dispatch_fn fn)
{ return qb_loop_job_add(loop, p, data, fn); }
static int32_t my_dispatch_add(enum qb_loop_priority p, int32_t fd, int32_t events, void *data, qb_ipcs_dispatch_fn_t fn)
{ return qb_loop_poll_add(loop, p, fd, events, data, fn); }
static int32_t my_dispatch_mod(enum qb_loop_priority p, int32_t fd, int32_t events, void *data, qb_ipcs_dispatch_fn_t fn)
{ return qb_loop_poll_mod(loop, p, fd, events, data, fn); }
static int32_t my_dispatch_del(int32_t fd)
{ return qb_loop_poll_del(loop, fd); }

static int32_t sig_stop(int32_t sig, void *d) { qb_loop_stop(loop); return 0; }

static void
run_server(void)
{
	struct qb_ipcs_service_handlers sh_ = {
		.connection_accept = s_accept,
		.connection_created = s_created,
		.msg_process = s_msg,
		.connection_closed = s_closed,
		.connection_destroyed = s_destroyed,
	};
	struct qb_ipcs_poll_handlers ph = {
		.job_add = my_job_add,
		.dispatch_add = my_dispatch_add,
		.dispatch_mod = my_dispatch_mod,
		.dispatch_del = my_dispatch_del,
	};
	int32_t res;

	loop = qb_loop_create();
	qb_loop_signal_add(loop, QB_LOOP_HIGH, SIGTERM, NULL, sig_stop, NULL);
	svc = qb_ipcs_create(svc_name, 0, ipc_type, &sh_);
	qb_ipcs_poll_handlers_set(svc, &ph);
	res = qb_ipcs_run(svc);
	if (res != 0) {
		fprintf(stderr, "qb_ipcs_run: %d\n", res);
		_exit(3);
	}
	sh->server_pid = getpid();
	sh->server_ready = 1;
	qb_loop_run(loop);
	qb_ipcs_destroy(svc);
	qb_loop_destroy(loop);
	_exit(0);
}

/* ---------------------------------------------------------------- clients */
static void
become(const struct slot *s)
{
	if (setgroups(0, NULL) != 0) _exit(90);
	if (setregid(s->rgid, s->egid) != 0) _exit(91);
	if (setreuid(s->ruid, s->euid) != 0) _exit(92);
	if (geteuid() != s->euid || getegid() != s->egid ||
	    getuid() != s->ruid || getgid() != s->rgid) _exit(93);
}

static void
libqb_client(struct slot *s, int idx)
{
	qb_ipcc_connection_t *c;
	int i;

	become(s);
	s->pid = getpid();
	__sync_synchronize();
	errno = 0;
	c = qb_ipcc_connect(svc_name, MAXMSG);
	s->conn_errno = errno;
	s->connected = (c != NULL);
	if (c == NULL) {
		_exit(0);
	}
	for (i = 0; i < s->nmsg; i++) {
		struct msg m;
		struct qb_ipc_response_header rh;
		ssize_t r;
		memset(&m, 0, sizeof m);
		m.hdr.id = QB_IPC_MSG_USER_START + 1;
		m.hdr.size = sizeof m;
		m.from_slot = idx;
		m.seq = i;
		r = qb_ipcc_send(c, &m, sizeof m);
		if (r < 0) break;
		r = qb_ipcc_recv(c, &rh, sizeof rh, 2000);
		if (r < 0) break;
	}
	usleep(1000 * (rand() % 30));
	qb_ipcc_disconnect(c);
	_exit(0);
}

/*
 * A hostile client: does the handshake by hand, keeps talking after a
 * refusal, and throws datagrams at every request socket of the server it can
 * see in /proc/net/unix.
 */
static void
raw_client(struct slot *s, int idx)
{
	struct sockaddr_un a;
	struct qb_ipc_connection_request req;
	struct qb_ipc_connection_response *res = calloc(1, sizeof *res);
	int fd, on = 1, i;
	size_t got = 0;
	struct msg m;
	FILE *f;
	char line[1024];

	become(s);
	s->pid = getpid();
	__sync_synchronize();

	fd = socket(AF_UNIX, SOCK_STREAM, 0);
	memset(&a, 0, sizeof a);
	a.sun_family = AF_UNIX;
	snprintf(a.sun_path + 1, sizeof a.sun_path - 1, "%s", svc_name);
	if (connect(fd, (struct sockaddr *)&a, sizeof a) != 0) {
		s->conn_errno = errno;
		_exit(0);
	}
	setsockopt(fd, SOL_SOCKET, SO_PASSCRED, &on, sizeof on);
	memset(&req, 0, sizeof req);
	req.hdr.id = QB_IPC_MSG_AUTHENTICATE;
	req.hdr.size = sizeof req;
	req.max_msg_size = MAXMSG;
	i = rand() % 8;
	if (i == 0) {
		/* whole handshake, gone before the answer */
		send(fd, &req, sizeof req, MSG_NOSIGNAL);
		close(fd);
		s->conn_errno = -s->decision;
		_exit(0);
	} else if (i == 1) {
		/* half a handshake */
		send(fd, &req, 7, MSG_NOSIGNAL);
		usleep(1000);
		close(fd);
		s->conn_errno = -s->decision;
		_exit(0);
	} else if (i == 2) {
		/* not a handshake at all */
		req.hdr.id = QB_IPC_MSG_USER_START + 7;
		send(fd, &req, sizeof req, MSG_NOSIGNAL);
		s->decision = -ENOTCONN; /* nothing may come of it */
	} else if (i == 3) {
		req.max_msg_size = (rand() % 2) ? 0 : 1 + rand() % 100;
		send(fd, &req, sizeof req, MSG_NOSIGNAL);
	} else if (i == 4) {
		/* in two pieces */
		send(fd, &req, 5, MSG_NOSIGNAL);
		usleep(2000);
		send(fd, (char *)&req + 5, sizeof req - 5, MSG_NOSIGNAL);
	} else {
		send(fd, &req, sizeof req, MSG_NOSIGNAL);
	}
	while (got < sizeof *res) {
		ssize_t r = recv(fd, (char *)res + got, sizeof *res - got, 0);
		if (r <= 0) break;
		got += r;
	}
	if (got == sizeof *res) {
		s->conn_errno = -res->hdr.error;
		s->connected = (res->hdr.error == 0);
	} else {
		s->conn_errno = ENOTCONN;
	}
	/* keep talking on the setup socket */
	memset(&m, 0, sizeof m);
	m.hdr.id = QB_IPC_MSG_USER_START + 2;
	m.hdr.size = sizeof m;
	m.from_slot = idx;
	for (i = 0; i < 3; i++) {
		send(fd, &m, sizeof m, MSG_NOSIGNAL | MSG_DONTWAIT);
	}
	/* and at whatever request sockets exist */
	f = m_i ? NULL : fopen("/proc/net/unix", "r");
	if (f) {
		char pfx[64];
		snprintf(pfx, sizeof pfx, "@/dev/shm/qb-%d-", (int)sh->server_pid);
		while (fgets(line, sizeof line, f)) {
			char *p = strstr(line, pfx);
			char *e;
			int dfd;
			if (p == NULL) continue;
			e = p + strlen(p);
			while (e > p && (e[-1] == '\n' || e[-1] == '@' || e[-1] == ' ')) *--e = 0;
			if (strlen(p) < 9 || strcmp(p + strlen(p) - 8, "-request") != 0) continue;
			dfd = socket(AF_UNIX, SOCK_DGRAM, 0);
			memset(&a, 0, sizeof a);
			a.sun_family = AF_UNIX;
			snprintf(a.sun_path + 1, sizeof a.sun_path - 1, "%s", p + 1);
			sendto(dfd, &m, sizeof m, MSG_DONTWAIT | MSG_NOSIGNAL,
			       (struct sockaddr *)&a, sizeof a);
			close(dfd);
		}
		fclose(f);
	}
	usleep(20000);
	close(fd);
	_exit(0);
}

/* ---------------------------------------------------------------- driver */
static const uid_t ids[] = { 0, 1000, 2000, 65534, 12345 };
#define NIDS (sizeof ids / sizeof ids[0])
static const int refusals[] = { -EACCES, -EPERM, -EAGAIN, -ENOMEM, -EINVAL, -EBUSY, -1, -ENOTCONN };
static const mode_t modes[] = { 0600, 0660, 0666, 0640, 0400, 0606, 0700 };

static void
watcher(void)
{
	while (!sh->stop) {
		if (sh->server_pid) {
			scan(sh->server_pid, 0, 0, "watch");
		}
	}
	_exit(0);
}

int
main(int argc, char **argv)
{
	unsigned seed = argc > 1 ? atoi(argv[1]) : 1;
	long rounds = argc > 2 ? atol(argv[2]) : 100;
	const char *t = argc > 3 ? argv[3] : "shm";
	pid_t spid, wpid;
	long r;
	int v, rc = 0, i;

	quiet = argc > 4 && argv[4][0] == 'q';
	if (argc > 5) {
		m_e = strchr(argv[5], 'e') != NULL;
		m_d = strchr(argv[5], 'd') != NULL;
		m_i = strchr(argv[5], 'i') != NULL;
		m_o = strchr(argv[5], 'o') != NULL;
	}
	ipc_type = strcmp(t, "sock") == 0 ? QB_IPC_SOCKET : QB_IPC_SHM;
	sh = mmap(NULL, sizeof *sh, PROT_READ | PROT_WRITE, MAP_SHARED | MAP_ANONYMOUS, -1, 0);
	memset(sh, 0, sizeof *sh);
	snprintf(svc_name, sizeof svc_name, "huntC05-%d-%u", (int)getpid(), seed);
	srand(seed);

	spid = fork();
	if (spid == 0) run_server();
	while (!sh->server_ready) {
		int st;
		if (waitpid(spid, &st, WNOHANG) == spid) { fprintf(stderr, "server died\n"); return 2; }
		usleep(1000);
	}
	wpid = fork();
	if (wpid == 0) watcher();

	for (r = 0; r < rounds; r++) {
		int n = 1 + rand() % 4;
		pid_t kids[NSLOT];

		for (i = 0; i < NSLOT; i++) sh->slots[i].pid = 0;
		for (i = 0; i < n; i++) {
			struct slot *s = &sh->slots[i];
			memset(s, 0, sizeof *s);
			s->euid = ids[rand() % NIDS];
			s->egid = ids[rand() % NIDS];
			s->ruid = (rand() % 3 == 0) ? ids[rand() % NIDS] : s->euid;
			s->rgid = (rand() % 3 == 0) ? ids[rand() % NIDS] : s->egid;
			if (m_e) { s->ruid = s->euid; s->rgid = s->egid; }
			s->decision = (rand() % 2) ? 0 : refusals[rand() % (sizeof refusals / sizeof refusals[0])];
			s->use_auth = rand() % 3 == 0;
			s->auid = ids[rand() % NIDS];
			s->agid = ids[rand() % NIDS];
			s->amode = modes[rand() % (sizeof modes / sizeof modes[0])];
			s->raw = rand() % 4 == 0;
			s->nmsg = rand() % 200;
		}
		for (i = 0; i < n; i++) {
			unsigned cs = rand();
			kids[i] = fork();
			if (kids[i] == 0) {
				srand(cs);
				if (sh->slots[i].raw) raw_client(&sh->slots[i], i);
				else libqb_client(&sh->slots[i], i);
			}
		}
		for (i = 0; i < n; i++) {
			int st;
			waitpid(kids[i], &st, 0);
			if (!WIFEXITED(st) || WEXITSTATUS(st) != 0) {
				fprintf(stderr, "client %d ended with status %#x\n", i, st);
				rc = 2;
			}
		}
		for (i = 0; i < n; i++) {
			struct slot *s = &sh->slots[i];
			int tries;
			__sync_fetch_and_add(&sh->ops, 2);
			if (s->decision != 0) {
				if (s->connected) {
					violation(V_REFUSED_CONNECTED, "client refused with %d got a connection", s->decision);
				} else if (s->cb_seen && s->conn_errno != -s->decision) {
					violation(V_REFUSED_ERRNO, "client refused with %d saw errno %d (raw=%d)",
						  s->decision, s->conn_errno, s->raw);
				}
				if (s->msgs_seen) {
					violation(V_MSG_FROM_REFUSED, "%d messages from refused client", s->msgs_seen);
				}
			} else if (!s->use_auth && !s->raw && !s->connected) {
				violation(V_ACCEPT_FAILED,
					  "accepted client e%d:%d r%d:%d (default owner/mode) failed to connect: errno %d",
					  s->euid, s->egid, s->ruid, s->rgid, s->conn_errno);
			}
			for (tries = 0; tries < 300; tries++) {
				if (scan(spid, s->pid, 0, "after") == 0) break;
				usleep(10000);
			}
			if (tries == 300) {
				violation(V_LEFTOVER, "objects remain in /dev/shm for client pid %d (decision %d raw %d)",
					  s->pid, s->decision, s->raw);
			}
		}
	}

	sh->stop = 1;
	kill(spid, SIGTERM);
	waitpid(spid, &i, 0);
	if (!WIFEXITED(i) || WEXITSTATUS(i) != 0) {
		fprintf(stderr, "server ended with status %#x\n", i);
		rc = 2;
	}
	waitpid(wpid, &i, 0);

	printf("seed %u type %s rounds %ld ops %lu\n", seed, t, rounds, sh->ops);
	for (v = 0; v < V_MAX; v++) {
		if (sh->viol[v]) {
			printf("  %-18s %8lu  first: %s\n", vname[v], sh->viol[v], sh->first[v]);
			rc = 1;
		}
	}
	if (rc == 0) printf("  no violations\n");
	return rc;
}
