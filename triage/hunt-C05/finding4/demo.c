/*
 * C05 finding 4 (socket transport): the directory made for an accepted
 * connection is not owned by the user/group the accept callback authorised.
 *
 * connection_accept() calls qb_ipcs_connection_auth_set(c, 3000, 3000, 0660)
 * and accepts; the client is root (0:0) so that it can open whatever it gets.
 * shm transport (control): directory and files 3000:3000
 * socket transport:        control file 3000:3000, directory still 0:0 (the peer)
 */
#include "harness.h"

static int
run(enum qb_ipc_type type, const char *tname)
{
	pid_t srv = h_start_server(type), cl;
	int p2c[2], c2p[2], st, bad = 0;
	char dir[PATH_MAX], ch;
	struct stat sb;
	DIR *d;
	struct dirent *de;

	hs->auid = 3000; hs->agid = 3000; hs->amode = 0660;
	hs->use_auth = 1;
	pipe(p2c); pipe(c2p);
	cl = fork();
	if (cl == 0) {
		qb_ipcc_connection_t *c = qb_ipcc_connect(h_name, 8192);
		ch = c ? 'y' : 'n';
		write(c2p[1], &ch, 1);
		read(p2c[0], &ch, 1);
		if (c) qb_ipcc_disconnect(c);
		_exit(0);
	}
	read(c2p[0], &ch, 1);
	if (ch != 'y' || !h_find_dir(hs->server_pid, cl, dir, sizeof dir)) {
		printf("[%s] setup failed\n", tname);
		bad = 2;
		goto out;
	}
	stat(dir, &sb);
	printf("[%s] accept callback authorised 3000:3000 mode 0660 (peer is 0:0)\n", tname);
	printf("[%s]   %-70s owner %d:%d mode %04o %s\n", tname, dir, sb.st_uid, sb.st_gid,
	       sb.st_mode & 07777, (sb.st_uid == 3000 && sb.st_gid == 3000) ? "ok" : "VIOLATION (owner)");
	if (sb.st_uid != 3000 || sb.st_gid != 3000) bad = 1;
	d = opendir(dir);
	while (d && (de = readdir(d)) != NULL) {
		char p[PATH_MAX + 300];
		if (de->d_name[0] == '.') continue;
		snprintf(p, sizeof p, "%s/%s", dir, de->d_name);
		if (lstat(p, &sb) != 0) continue;
		printf("[%s]   %-70s owner %d:%d mode %04o %s\n", tname, p, sb.st_uid, sb.st_gid,
		       sb.st_mode & 07777, (sb.st_uid == 3000 && sb.st_gid == 3000 && !(sb.st_mode & 0777 & ~0660)) ? "ok" : "VIOLATION");
		if (sb.st_uid != 3000 || sb.st_gid != 3000 || (sb.st_mode & 0777 & ~0660)) bad = 1;
	}
	if (d) closedir(d);
out:
	write(p2c[1], "x", 1);
	waitpid(cl, &st, 0);
	usleep(100000);
	h_stop_server(srv);
	return bad;
}

int
main(void)
{
	int b1, b2;
	setvbuf(stdout, NULL, _IONBF, 0);
	b1 = run(QB_IPC_SHM, "shm");
	b2 = run(QB_IPC_SOCKET, "socket");
	printf((b1 | b2) ? "RESULT: property violated\n" : "RESULT: property held\n");
	return (b1 | b2) ? 1 : 0;
}
