#!/bin/sh
# usage: demo.sh <tree>; exit 0 = property held, 1 = violated
. "$(dirname "$0")/../demo-common.sh"
