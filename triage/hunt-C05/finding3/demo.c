/*
 * C05 finding 3 (socket transport): what a refused client sends reaches the
 * message callback.
 *
 * server:   QB_IPC_SOCKET, connection_accept() refuses uid 2000 with -EACCES
 * client A: uid 1000, accepted, stays connected and idle
 * client B: uid 2000, qb_ipcc_connect() fails with EACCES as it should;
 *           it then looks up the server's request sockets in /proc/net/unix
 *           (abstract names, world visible, no permissions) and sends one
 *           datagram to each.
 * msg_process() is run with B's bytes (on A's connection).
 */
#include "harness.h"

int
main(void)
{
	pid_t srv, a, b;
	int p2c[2], c2p[2], st, bad = 0, i;
	char ch;

	setvbuf(stdout, NULL, _IONBF, 0);
	srv = h_start_server(QB_IPC_SOCKET);
	hs->refuse_uid = 2000;
	hs->decision_for_uid_valid = 1;

	pipe(p2c); pipe(c2p);
	a = fork();
	if (a == 0) {
		qb_ipcc_connection_t *c;
		h_become(1000, 1000, 1000, 1000);
		c = qb_ipcc_connect(h_name, 8192);
		ch = c ? 'y' : 'n';
		write(c2p[1], &ch, 1);
		read(p2c[0], &ch, 1);
		if (c) qb_ipcc_disconnect(c);
		_exit(0);
	}
	read(c2p[0], &ch, 1);
	printf("client A (uid 1000): %s\n", ch == 'y' ? "accepted, connected" : "FAILED to connect");
	if (ch != 'y') { bad = 2; goto out; }

	b = fork();
	if (b == 0) {
		qb_ipcc_connection_t *c;
		FILE *f;
		char line[1024], pfx[64];
		int sent = 0;

		h_become(2000, 2000, 2000, 2000);
		errno = 0;
		c = qb_ipcc_connect(h_name, 8192);
		printf("client B (uid 2000): qb_ipcc_connect -> %s, errno %d (%s)\n",
		       c ? "CONNECTED" : "NULL", errno, strerror(errno));
		if (c != NULL || errno != EACCES) _exit(1);

		snprintf(pfx, sizeof pfx, "@/dev/shm/qb-%d-", (int)hs->server_pid);
		f = fopen("/proc/net/unix", "r");
		while (f && fgets(line, sizeof line, f)) {
			char *p = strstr(line, pfx), *e;
			struct sockaddr_un sa;
			struct h_msg m;
			int fd;
			if (p == NULL) continue;
			e = p + strlen(p);
			while (e > p && (e[-1] == '\n' || e[-1] == ' ' || e[-1] == '@')) *--e = 0; /* bound with sizeof(sockaddr_un): NUL padding is shown as @ */
			if (strlen(p) < 9 || strcmp(e - 8, "-request") != 0) continue;
			memset(&sa, 0, sizeof sa);
			sa.sun_family = AF_UNIX;
			snprintf(sa.sun_path + 1, sizeof sa.sun_path - 1, "%s", p + 1);
			memset(&m, 0, sizeof m);
			m.hdr.id = QB_IPC_MSG_USER_START + 5;
			m.hdr.size = sizeof m;
			m.marker = H_MARKER;
			fd = socket(AF_UNIX, SOCK_DGRAM, 0);
			if (sendto(fd, &m, sizeof m, 0, (struct sockaddr *)&sa, sizeof sa) == sizeof m) {
				printf("client B: sent a request to %s\n", p);
				sent++;
			} else {
				printf("client B: sendto %s failed: %s\n", p, strerror(errno));
			}
			close(fd);
		}
		if (f) fclose(f);
		if (!sent) printf("client B: found no request socket to write to\n");
		_exit(0);
	}
	waitpid(b, &st, 0);
	if (!WIFEXITED(st) || WEXITSTATUS(st) != 0) {
		printf("VIOLATION: the refused client's connect did not fail with EACCES\n");
		bad = 1;
	}
	for (i = 0; i < 500 && hs->marker_msgs == 0; i++) usleep(1000);
	if (hs->marker_msgs) {
		printf("VIOLATION: msg_process() received %d message(s) sent by the refused client "
		       "(on the connection of pid %d = client A %d)\n",
		       hs->marker_msgs, hs->marker_conn_pid, a);
		bad = 1;
	} else {
		printf("nothing of the refused client reached msg_process()\n");
	}
out:
	write(p2c[1], "x", 1);
	waitpid(a, &st, 0);
	usleep(100000);
	h_stop_server(srv);
	printf(bad ? "RESULT: property violated\n" : "RESULT: property held\n");
	return bad ? 1 : 0;
}
