#define _GNU_SOURCE
#include <stdio.h>
#include <stdlib.h>
#include <string.h>
#include <stdarg.h>
#include <limits.h>
#include <qb/qbdefs.h>
#include <qb/qblog.h>

static size_t ser(char *b, size_t n, const char *f, ...)
{ va_list ap; size_t r; va_start(ap, f); r = qb_vsnprintf_serialize(b, n, f, ap); va_end(ap); return r; }

static void rt(const char *name, size_t max_len, size_t str_len, const char *want, size_t r, char *rec)
{
	char *out = malloc(str_len);
	char *src = malloc(r < max_len ? r : max_len);
	memcpy(src, rec, r < max_len ? r : max_len);
	printf("%-28s stored=%zu/%zu ", name, r, max_len);
	if (r >= max_len) { printf("(refused)\n"); free(out); free(src); return; }
	qb_vsnprintf_deserialize(out, str_len, src);
	printf("%s\n    want \"%s\"\n    got  \"%s\"\n", strcmp(out, want) ? "MISMATCH" : "ok", want, out);
	free(out); free(src);
}

int main(int argc, char **argv)
{
	char *rec = malloc(512), want[8192];
	size_t r;
	int which = argc > 1 ? atoi(argv[1]) : 0;

	if (which == 0 || which == 1) {
		/* QB_XC (\a) at the very end of the format: encoder turns it into NUL */
		r = ser(rec, 512, "abc %d\a", 0x41424344);
		rt("trailing QB_XC", 512, 512, "abc 1094861636", r, rec);
		r = ser(rec, 512, "abc %d\a%s", 7, "ext");
		rt("QB_XC + ext", 512, 512, "abc 7|ext", r, rec);
		r = ser(rec, 512, "abc %d\a%s", 7, "");
		rt("QB_XC + empty ext", 512, 512, "abc 7|", r, rec);
	}
	if (which == 0 || which == 2) {
		/* precision-limited, not NUL terminated source (legal for printf) */
		char *u = malloc(3); memcpy(u, "xyz", 3);
		snprintf(want, sizeof want, "[%.3s]", u);
		r = ser(rec, 512, "[%.3s]", u);
		rt("unterminated %.3s", 512, 512, want, r, rec);
		r = ser(rec, 512, "[%.*s]", 3, u);
		rt("unterminated %.*s", 512, 512, want, r, rec);
		free(u);
	}
	if (which == 0 || which == 3) {
		r = ser(rec, 512, "[%.18446744073709551615s]", "hello");
		printf("wrap precision: stored %zu\n", r);
		r = ser(rec, 512, "[%.18446744073709551616s|%d]", "hello", 5);
		printf("wrap precision2: stored %zu\n", r);
		{ char *o = malloc(64); qb_vsnprintf_deserialize(o, 64, rec); printf("  -> \"%s\"\n", o); free(o); }
	}
	if (which == 4) {
		/* extreme '*' */
		char *o = malloc(512);
		r = ser(rec, 512, "[%*d]", INT_MAX, 5); qb_vsnprintf_deserialize(o, 512, rec); printf("INT_MAX width: %zu %.20s\n", r, o);
		r = ser(rec, 512, "[%*d]", INT_MIN, 5); qb_vsnprintf_deserialize(o, 512, rec); printf("INT_MIN width: %zu %.20s\n", r, o);
		r = ser(rec, 512, "[%.*d]", INT_MAX, 5); qb_vsnprintf_deserialize(o, 512, rec); printf("INT_MAX prec: %zu %.20s\n", r, o);
		r = ser(rec, 512, "[%.*d]", INT_MIN, 5); qb_vsnprintf_deserialize(o, 512, rec); printf("INT_MIN prec: %zu %.20s\n", r, o);
		r = ser(rec, 512, "[%-*.*s]", INT_MIN, INT_MIN, "q"); qb_vsnprintf_deserialize(o, 512, rec); printf("INT_MIN both: %zu %.40s\n", r, o);
		r = ser(rec, 512, "[%*.*f]", INT_MAX, INT_MAX, 1.0); qb_vsnprintf_deserialize(o, 512, rec); printf("INT_MAX f: %zu %.40s\n", r, o);
		free(o);
	}
	if (which == 0 || which == 5) {
		/* tiny buffers */
		size_t m, s;
		for (m = 1; m <= 40; m++) for (s = 1; s <= 40; s++) {
			char *b = malloc(m), *o = malloc(s), *src = calloc(1, m + 64);
			r = ser(b, m, "a%db%sc%%d%5.2fe%c%p%lld", 12345, "hello", 3.14159, 'x', (void *)0x1234, 1LL << 40);
			if (r > m) printf("encoder returned %zu > %zu\n", r, m);
			memcpy(src, b, m);
			qb_vsnprintf_deserialize(o, s, src);
			if (!memchr(o, 0, s)) printf("unterminated m=%zu s=%zu\n", m, s);
			free(b); free(o); free(src);
		}
		printf("tiny buffers done\n");
	}
	return 0;
}
