/*
 * C14 model-based randomized tester:
 *   blackbox compact records (format + raw args) must decode to what printf
 *   would have produced, and neither encoder nor decoder may write out of bounds.
 *
 * Reference model: glibc vsnprintf() on the very same format and va_list.
 *
 * The argument list is built at run time: on x86-64 SysV a va_list whose
 * gp_offset/fp_offset say "all registers used" fetches every argument from
 * overflow_arg_area, one 8-byte slot per int/long/double/pointer argument.
 *
 * usage: fuzz <mode> <seed> <iters> [verbose]
 *   mode d : direct qb_vsnprintf_serialize / qb_vsnprintf_deserialize
 *   mode b : end-to-end through the blackbox target + print_from_file
 *
 * Mismatches are classified (a short "class" key) and counted; the first few of
 * every class are printed.  Exit status: 0 no deviations, 1 deviations.
 */
#define _GNU_SOURCE
#include <stdio.h>
#include <stdlib.h>
#include <string.h>
#include <stdarg.h>
#include <stdint.h>
#include <limits.h>
#include <float.h>
#include <math.h>
#include <unistd.h>
#include <fcntl.h>
#include <sys/file.h>
#include <sys/stat.h>
#include <errno.h>
#include <syslog.h>
#include <qb/qbdefs.h>
#include <qb/qblog.h>

#if !defined(__x86_64__)
#error "va_list construction below is x86-64 SysV specific"
#endif

typedef union { long long i; double d; const void *p; } slot_t;

static void mk_va(va_list ap, slot_t *slots)
{
	ap[0].gp_offset = 48;
	ap[0].fp_offset = 176;
	ap[0].overflow_arg_area = slots;
	ap[0].reg_save_area = NULL;
}

/* ---------------- rng ---------------- */
static uint64_t rs;
static uint64_t rnd(void)
{
	rs ^= rs << 13; rs ^= rs >> 7; rs ^= rs << 17;
	return rs;
}
static unsigned rn(unsigned n) { return n ? (unsigned)(rnd() % n) : 0; }
static int chance(unsigned pct) { return rn(100) < pct; }

/* ---------------- generator ---------------- */
#define MAXARGS 64
#define MAXFMT 4096

struct tc {
	char fmt[MAXFMT];
	int nargs;
	slot_t slots[MAXARGS + 4];
	char desc[8192];	/* human readable args */
	char *strs[MAXARGS];	/* owned strings */
	int nstrs;
	/* feature flags for classification */
	int has_neg_star_prec;
	int has_null_with_prec;
	int has_long_spec;
	int has_char0;
	int has_xc;
	char reffmt[MAXFMT];	/* what the text model formats: QB_XC shown as '|' (dropped when last) */
};

/* generation knobs */
static int g_allow_nl = 0;	/* newlines in literals (direct mode only) */
static int g_tame = 0;		/* avoid the already-known deviation classes */
static int g_maxlit = 12;
static int g_maxconv = 8;
static int g_bigstr = 10;	/* pct of long strings */

static const char litchars[] =
	"abcdefghijklmnopqrstuvwxyzABCDEFGHIJKLMNOPQRSTUVWXYZ0123456789 _-+=:;,.<>/?[]{}()!@#$^&*~|\\\"'";

static void desc_add(struct tc *t, const char *f, ...)
{
	va_list ap;
	size_t l = strlen(t->desc);
	va_start(ap, f);
	vsnprintf(t->desc + l, sizeof(t->desc) - l, f, ap);
	va_end(ap);
}

static long long pick_int(int bits)
{
	static const long long ext[] = {
		0, 1, -1, 2, 7, 10, 42, 100, 255, 256, 65535, 65536, -128,
		INT_MAX, INT_MIN, (long long)INT_MAX + 1, (long long)INT_MIN - 1,
		UINT_MAX, LLONG_MAX, LLONG_MIN, LLONG_MAX - 1, LLONG_MIN + 1,
		0x7fffffffffffffffLL, (long long)0x8000000000000000ULL,
		(long long)0xffffffffffffffffULL, 0x0123456789abcdefLL,
		(long long)0xdeadbeefcafebabeULL, 1000000007LL, -999999999999LL
	};
	long long v;
	switch (rn(4)) {
	case 0: v = ext[rn(sizeof(ext) / sizeof(ext[0]))]; break;
	case 1: v = (long long)rnd(); break;
	case 2: v = (long long)(int)rnd(); break;
	default: v = (long long)rn(2000) - 1000; break;
	}
	if (bits == 32) {
		/* the caller passes an int: keep the garbage in the upper half of
		 * the slot, as a real caller might (the callee must not look) */
		v = (long long)(uint32_t)v | (long long)((rnd() & 0xffffffffULL) << 32);
	}
	return v;
}

static double pick_double(void)
{
	static const double ext[] = {
		0.0, -0.0, 1.0, -1.0, 0.5, 1.5, 3.141592653589793, 1e10, 1e-10,
		1e100, -1e100, 1e300, 1e308, DBL_MAX, -DBL_MAX, DBL_MIN,
		4.9406564584124654e-324, 123456789.123456789, 0.1, 99.9999999,
		1e15, 1e16, 1e17, 9.999999e5, 1e-5, 1e-4
	};
	double d;
	uint64_t u;
	switch (rn(5)) {
	case 0: d = ext[rn(sizeof(ext) / sizeof(ext[0]))]; break;
	case 1: d = (rn(2) ? INFINITY : -INFINITY); if (rn(2)) d = NAN; break;
	case 2: u = rnd(); memcpy(&d, &u, 8); break;
	case 3: d = (double)((long long)rn(2000000) - 1000000) / 1000.0; break;
	default: d = (double)(int)rnd() * 1.0e-3; break;
	}
	return d;
}

static char *pick_str(struct tc *t, int *is_null)
{
	char *s;
	size_t n, i;
	*is_null = 0;
	if (chance(6)) { *is_null = 1; return NULL; }
	if (chance(8)) n = 0;
	else if (chance(g_bigstr)) n = 100 + rn(900);
	else if (chance(3)) n = 480 + rn(64);
	else n = rn(24);
	s = malloc(n + 1);	/* exact size: asan sees any over-read */
	for (i = 0; i < n; i++) {
		unsigned r = rn(100);
		if (r < 10) s[i] = '%';
		else if (r < 13) s[i] = "dsxc*.l0-"[rn(9)];
		else if (r < 14 && g_allow_nl) s[i] = '\n';
		else s[i] = litchars[rn(sizeof(litchars) - 1)];
	}
	s[n] = 0;
	t->strs[t->nstrs++] = s;
	return s;
}

static int pick_star(int for_prec, struct tc *t)
{
	int v;
	unsigned r = rn(100);
	if (r < 60) v = rn(30);
	else if (r < 75) v = -(int)rn(30);
	else if (r < 85) v = 0;
	else if (r < 92) v = rn(600);
	else if (r < 96) v = -(int)rn(600);
	else if (r < 98) v = rn(2) ? 9000 : -9000;
	else v = (int)rnd() % 9000;	/* INT_MAX/INT_MIN cost seconds and gigabytes inside glibc itself: tried by hand, see REPORT */
	if (g_tame) {
		if (for_prec && v < 0) v = -v;
		if (v == INT_MIN) v = 0;
		if (v > 5000 || v < -5000) v %= 5000;	/* keep the reference affordable */
	}
	if (for_prec && v < 0) t->has_neg_star_prec = 1;
	return v;
}

static void gen(struct tc *t)
{
	size_t pos = 0;
	int nconv = rn(g_maxconv + 1);
	int c;
	memset(t, 0, sizeof(*t));
#define PUT(ch) do { if (pos < MAXFMT - 40) t->fmt[pos++] = (ch); } while (0)
	for (c = 0; c <= nconv; c++) {
		/* literal run */
		int nl = rn(g_maxlit + 1), i;
		size_t spec_start;
		int has_prec = 0, prec_val = -1, prec_star = 0, star_extra = 0;
		char conv, lenmod[3] = "";
		if (chance(3)) nl = 100 + rn(500);
		for (i = 0; i < nl; i++) {
			unsigned r = rn(100);
			if (r < 4) { PUT('%'); PUT('%'); }
			else if (r < 5 && !g_tame && !t->has_xc && chance(20)) { PUT(QB_XC); t->has_xc = 1; }
			else if (r < 5 && g_allow_nl) PUT('\n');
			else PUT(litchars[rn(sizeof(litchars) - 1)]);
		}
		if (c == nconv || t->nargs >= MAXARGS - 3 || pos >= MAXFMT - 80) break;
		spec_start = pos;
		PUT('%');
		/* flags */
		{
			int nf = chance(50) ? 0 : 1 + rn(3);
			if (!g_tame && chance(2)) nf = 10 + rn(15);
			for (i = 0; i < nf; i++) PUT("#- +0'"[rn(6)]);
		}
		/* width */
		switch (rn(6)) {
		case 0: case 1: case 2: break;
		case 3: pos += sprintf(t->fmt + pos, "%u", rn(30)); break;
		case 4:
			if (chance(10)) pos += sprintf(t->fmt + pos, "%u", rn(700));
			else if (!g_tame && chance(5)) pos += sprintf(t->fmt + pos, "%017u", rn(40));
			else pos += sprintf(t->fmt + pos, "%u", rn(12));
			break;
		case 5: {
			int v = pick_star(0, t);
			star_extra += snprintf(NULL, 0, "%d", v) - 1;
			PUT('*');
			t->slots[t->nargs++].i = (long long)(uint32_t)v | (long long)((rnd() & 0xffffffffULL) << 32);
			desc_add(t, " int:%d", v);
			break;
		}
		}
		/* precision */
		switch (rn(6)) {
		case 0: case 1: case 2: break;
		case 3: PUT('.'); has_prec = 1; prec_val = 0; break;
		case 4:
			PUT('.'); has_prec = 1;
			prec_val = chance(8) ? rn(600) : rn(20);
			if (chance(10)) { PUT('0'); }
			pos += sprintf(t->fmt + pos, "%d", prec_val);
			break;
		case 5: {
			int v = pick_star(1, t);
			star_extra += snprintf(NULL, 0, "%d", v) - 1;
			PUT('.'); PUT('*'); has_prec = 1; prec_star = 1; prec_val = v;
			t->slots[t->nargs++].i = (long long)(uint32_t)v | (long long)((rnd() & 0xffffffffULL) << 32);
			desc_add(t, " int:%d", v);
			break;
		}
		}
		/* conversion */
		conv = "diouxXcspeEfFgGaAdsxsd"[rn(22)];
		if (strchr("diouxX", conv)) {
			static const char *lm[] = { "", "", "", "l", "ll", "z", "t", "j" };
			strcpy(lenmod, lm[rn(8)]);
		} else if (strchr("eEfFgGaA", conv) && chance(10)) {
			strcpy(lenmod, "l");	/* %lf == %f */
		}
		for (i = 0; lenmod[i]; i++) PUT(lenmod[i]);
		PUT(conv);
		if (pos - spec_start + star_extra > 19) t->has_long_spec = 1;	/* decoder rebuilds the spec in char fmt[20] */
		switch (conv) {
		case 'd': case 'i': case 'o': case 'u': case 'x': case 'X': {
			long long v = pick_int(lenmod[0] ? 64 : 32);
			t->slots[t->nargs++].i = v;
			if (lenmod[0]) desc_add(t, " i64:%lld", v);
			else desc_add(t, " int:%d", (int)v);
			break;
		}
		case 'c': {
			int v = chance(3) ? 0 : (chance(20) ? (int)rn(256) : 32 + (int)rn(95));
			if (g_tame && v == 0) v = 'Z';
			if (!g_allow_nl && v == '\n') v = 'n';
			if (v == 0) t->has_char0 = 1;
			t->slots[t->nargs++].i = (long long)(uint32_t)v | (long long)((rnd() & 0xffffffULL) << 40);
			desc_add(t, " chr:%d", v);
			break;
		}
		case 's': {
			int isnull;
			char *s = pick_str(t, &isnull);
			if (isnull && g_tame && has_prec) {
				/* known class: avoid */
				isnull = 0;
				s = strdup("");
				t->strs[t->nstrs++] = s;
			}
			if (isnull && has_prec && !(prec_star && prec_val < 0)) t->has_null_with_prec = 1;
			t->slots[t->nargs++].p = s;
			if (s == NULL) desc_add(t, " str:NULL");
			else if (strlen(s) < 60) desc_add(t, " str[%zu]:\"%s\"", strlen(s), s);
			else desc_add(t, " str[%zu]:\"%.40s...\"", strlen(s), s);
			break;
		}
		case 'p': {
			const void *p = chance(20) ? NULL : (const void *)(uintptr_t)pick_int(64);
			t->slots[t->nargs++].p = p;
			desc_add(t, " ptr:%p", p);
			break;
		}
		default: {
			double d = pick_double();
			t->slots[t->nargs++].d = d;
			desc_add(t, " dbl:%a", d);
			break;
		}
		}
	}
	t->fmt[pos] = 0;
	strcpy(t->reffmt, t->fmt);
	{
		char *xc = strchr(t->reffmt, QB_XC);
		if (xc) *xc = xc[1] ? '|' : '\0';
	}
#undef PUT
}

static void tc_free(struct tc *t)
{
	int i;
	for (i = 0; i < t->nstrs; i++) free(t->strs[i]);
	t->nstrs = 0;
}

/* ---------------- deviation bookkeeping ---------------- */
struct cls { char key[64]; unsigned long n; };
static struct cls classes[64];
static int nclasses;
static int verbose = 0;

static int note(const char *key)
{
	int i;
	for (i = 0; i < nclasses; i++)
		if (!strcmp(classes[i].key, key)) { classes[i].n++; return classes[i].n <= (verbose ? 1000 : 3); }
	if (nclasses < 64) { strncpy(classes[nclasses].key, key, 63); classes[nclasses].n = 1; nclasses++; }
	return 1;
}

static void pr_escaped(const char *lbl, const char *s, size_t max)
{
	size_t i;
	printf("    %s \"", lbl);
	for (i = 0; s[i] && i < max; i++) {
		unsigned char ch = s[i];
		if (ch == '\n') printf("\\n");
		else if (ch < 32 || ch > 126) printf("\\x%02x", ch);
		else putchar(ch);
	}
	if (s[i]) printf("...");
	printf("\"\n");
}

static const char *classify(struct tc *t)
{
	if (t->has_long_spec) return "long-spec(>19 chars)";
	if (t->has_neg_star_prec) return "negative-*-precision";
	if (t->has_null_with_prec) return "NULL-%s-with-precision";
	if (t->has_char0) return "%c-of-NUL";
	if (t->has_xc) return "QB_XC-in-format";
	return "UNEXPLAINED";
}

/* ---------------- direct mode ---------------- */
#define REFMAX 16384
static char ref[REFMAX];

static int direct_once(struct tc *t, unsigned long iter)
{
	va_list ap;
	size_t max_len, str_len, r, dr;
	char *ser, *src, *out;
	int reflen;
	int bad = 0;

	/* reference */
	mk_va(ap, t->slots);
	errno = 0;
	reflen = vsnprintf(ref, REFMAX, t->reffmt, ap);

	/* encoder: into an exact-size heap block */
	switch (rn(8)) {
	case 0: max_len = 1 + rn(16); break;
	case 1: max_len = 1 + rn(128); break;
	case 2: max_len = strlen(t->fmt) + rn(24); if (max_len < 1) max_len = 1; if (max_len > 8 && rn(2)) max_len -= rn(8); break;
	case 3: max_len = 4096; break;
	case 4: max_len = 500 + rn(24); break;
	default: max_len = 512; break;
	}
	ser = malloc(max_len);
	memset(ser, 0xA5, max_len);
	mk_va(ap, t->slots);
	r = qb_vsnprintf_serialize(ser, max_len, t->fmt, ap);
	if (r > max_len) {
		if (note("ENC-returns-more-than-max_len")) {
			printf("[%lu] encoder returned %zu > max_len %zu\n", iter, r, max_len);
			pr_escaped("fmt", t->fmt, 300);
		}
		bad = 1;
		r = max_len;
	}

	switch (rn(6)) {
	case 0: str_len = 1 + rn(16); break;
	case 1: str_len = 1 + rn(600); break;
	case 2: str_len = (reflen >= 0 ? (size_t)reflen : 0) + rn(4); if (str_len > 2 && rn(2)) str_len -= rn(3); if (!str_len) str_len = 1; break;
	default: str_len = QB_LOG_MAX_LEN; break;
	}
	out = malloc(str_len);
	memset(out, 0x5A, str_len);

	if (r < max_len) {
		/* the record was stored: decode from an exact-size copy */
		src = malloc(r ? r : 1);
		memcpy(src, ser, r);
		dr = qb_vsnprintf_deserialize(out, str_len, src);
		(void)dr;
		if (memchr(out, 0, str_len) == NULL) {
			if (note("DEC-output-not-terminated")) {
				printf("[%lu] decoder output not NUL terminated (str_len %zu)\n", iter, str_len);
				pr_escaped("fmt", t->fmt, 300);
			}
			bad = 1;
			out[str_len - 1] = 0;
		}
		if (reflen >= 0 && (size_t)reflen < str_len && (size_t)reflen < REFMAX) {
			if (strcmp(out, ref) != 0) {
				char key[80];
				snprintf(key, sizeof key, "MISMATCH:%s", classify(t));
				if (note(key)) {
					printf("[%lu] %s  max_len=%zu str_len=%zu stored=%zu\n", iter, key, max_len, str_len, r);
					pr_escaped("fmt ", t->fmt, 400);
					printf("    args%s\n", t->desc);
					pr_escaped("want", ref, 400);
					pr_escaped("got ", out, 400);
				}
				bad = 1;
			}
		} else if (reflen >= 0 && (size_t)reflen < REFMAX) {
			/* does not fit: not promised, but a prefix is the natural outcome; tracked only */
			size_t ol = strlen(out);
			if (strncmp(out, ref, ol) != 0 && !strcmp(classify(t), "UNEXPLAINED")) {
				if (note("info:truncated-output-is-not-a-prefix")) {
					printf("[%lu] info: truncated decode is not a prefix of printf's text (str_len %zu)\n", iter, str_len);
					pr_escaped("fmt ", t->fmt, 300);
					printf("    args%s\n", t->desc);
					pr_escaped("want", ref, 200);
					pr_escaped("got ", out, 200);
				}
			}
		}
		free(src);
	} else if (strchr(t->fmt, '*') == NULL) {
		/* (formats with '*' are skipped here: the decoder would take a width
		 * from garbage and glibc then pads for seconds/gigabytes)
		 * not stored; a caller might still decode it. Only write-safety of the
		 * decoder matters: give it readable slack behind the record */
		size_t slack = 8192;
		src = calloc(1, max_len + slack);
		memcpy(src, ser, max_len);
		{ size_t i, g = rn(64); for (i = 0; i < g; i++) src[max_len + i] = (char)rnd(); }
		dr = qb_vsnprintf_deserialize(out, str_len, src);
		(void)dr;
		free(src);
	}
	free(out);
	free(ser);
	return bad;
}

/* ---------------- blackbox mode ---------------- */
#define BATCH 48
static const char *too_long = "Log message too long to be stored in the blackbox.  Maximum is QB_LOG_MAX_LEN";

struct expect { char *text; int stored; int fits; struct tc *t; };

static int bb_batch(unsigned long iter0, int max_line, int bbsize)
{
	static struct tc tcs[BATCH];
	struct expect ex[BATCH];
	int i, n = 1 + rn(BATCH), bad = 0;
	char dump[64], outp[64];
	int savefd, fd;
	FILE *f;
	char *line = NULL;
	size_t cap = 0;
	int seen[BATCH];
	int rc;

	qb_log_init("huntC14", LOG_USER, LOG_TRACE);
	qb_log_ctl(QB_LOG_SYSLOG, QB_LOG_CONF_ENABLED, QB_FALSE);
	rc = qb_log_filter_ctl(QB_LOG_BLACKBOX, QB_LOG_FILTER_ADD, QB_LOG_FILTER_FILE, "*", LOG_TRACE);
	rc |= qb_log_ctl(QB_LOG_BLACKBOX, QB_LOG_CONF_SIZE, bbsize);
	if (max_line) rc |= qb_log_ctl(QB_LOG_BLACKBOX, QB_LOG_CONF_MAX_LINE_LEN, max_line);
	rc |= qb_log_ctl(QB_LOG_BLACKBOX, QB_LOG_CONF_ENABLED, QB_TRUE);
	if (rc != 0) { printf("blackbox setup failed %d\n", rc); exit(2); }
	if (!max_line) max_line = QB_LOG_MAX_LEN;

	for (i = 0; i < n; i++) {
		va_list ap;
		int reflen;
		size_t r;
		char *tmp;
		gen(&tcs[i]);
		mk_va(ap, tcs[i].slots);
		reflen = vsnprintf(ref, REFMAX, tcs[i].reffmt, ap);
		ex[i].t = &tcs[i];
		ex[i].text = strdup(reflen >= 0 ? ref : "");
		ex[i].fits = reflen >= 0 && reflen < QB_LOG_MAX_LEN && reflen < max_line;
		/* would the compact form be stored? ask the encoder itself (its
		 * safety/size contract is checked in direct mode) */
		tmp = malloc(max_line);
		mk_va(ap, tcs[i].slots);
		r = qb_vsnprintf_serialize(tmp, max_line, tcs[i].fmt, ap);
		free(tmp);
		ex[i].stored = r < (size_t)max_line;
		mk_va(ap, tcs[i].slots);
		qb_log_from_external_source_va("fn", "file.c", tcs[i].fmt, LOG_INFO, 1000 + i, 7, ap);
	}

	snprintf(dump, sizeof dump, "/tmp/hunt-C14/bb-%d.dump", getpid());
	snprintf(outp, sizeof outp, "/tmp/hunt-C14/bb-%d.out", getpid());
	unlink(dump);
	if (qb_log_blackbox_write_to_file(dump) < 0) {
		/* happens when the ring is smaller than one reserved record (size 1024,
		 * line limit 4096): the target shuts itself down. Not a C14 matter. */
		if (note("info:blackbox-shut-down(ring smaller than a record)")) printf("[%lu] write_to_file failed (max_line %d bbsize %d)\n", iter0, max_line, bbsize);
		qb_log_fini();
		for (i = 0; i < n; i++) { free(ex[i].text); tc_free(&tcs[i]); }
		unlink(dump);
		return n;
	}
	/* The reader maps the dump under the FIXED shm name "create_from_file":
	 * other processes on this machine (ours or anybody's) reading a dump at the
	 * same moment make qb_rb_create_from_file() fail. Serialise our own
	 * processes, wait out anybody else's, and retry when the reader produced
	 * nothing at all (no record and no complaint on stdout). */
	{
		int tries, lk = open("/tmp/hunt-C14/.lock", O_CREAT | O_RDWR, 0600);
		flock(lk, LOCK_EX);
		for (tries = 0; tries < 50; tries++) {
			int w;
			struct stat sb;
			fflush(stdout);
			savefd = dup(1);
			fd = open(outp, O_CREAT | O_TRUNC | O_WRONLY, 0600);
			dup2(fd, 1); close(fd);
			for (w = 0; w < 100 && access("/dev/shm/qb-create_from_file-header", F_OK) == 0; w++) usleep(5000);
			rc = qb_log_blackbox_print_from_file(dump);
			fflush(stdout);
			dup2(savefd, 1); close(savefd);
			if (stat(outp, &sb) == 0 && sb.st_size > 0) {
				char cmd[200];
				snprintf(cmd, sizeof cmd, "grep -q ' fn(\\|ERROR' %s", outp);
				if (system(cmd) == 0) break;
			}
			usleep(20000);
		}
		flock(lk, LOCK_UN);
		close(lk);
	}
	qb_log_fini();

	memset(seen, 0, sizeof seen);
	f = fopen(outp, "r");
	while (getline(&line, &cap, f) > 0) {
		char *p = strstr(line, " fn(");
		unsigned ln, tags;
		int off = 0;
		size_t L;
		if (!p) {
			/* ring buffer header chatter printed by the library itself */
			if (strstr(line, "ERROR")) {
				if (note("BB-ERROR-line-in-dump")) printf("[%lu] (max_line %d bbsize %d) dump says: %s", iter0, max_line, bbsize, line);
				bad = 1;
			}
			continue;
		}
		if (sscanf(p, " fn(%u):%u:%n", &ln, &tags, &off) < 2 || !off || p[off] != ' ') {
			if (note("BB-unparsable-line")) { printf("[%lu] unparsable dump line: %s", iter0, line); }
			bad = 1;
			continue;
		}
		p += off + 1;
		L = strlen(p);
		if (L && p[L - 1] == '\n') p[L - 1] = 0;
		if (ln < 1000 || ln >= 1000 + (unsigned)n) { note("BB-bad-lineno"); bad = 1; continue; }
		i = ln - 1000;
		seen[i]++;
		if (!ex[i].stored) {
			/* refused: the replacement text (cut to the line limit) is expected */
			if (strncmp(p, too_long, strlen(p)) != 0 || (strlen(p) != strlen(too_long) && (int)strlen(p) < max_line - 2)) {
				if (note("BB-refused-record-odd-text")) {
					printf("[%lu] refused record shows odd text (max_line %d)\n", iter0, max_line);
					pr_escaped("got", p, 200);
				}
				bad = 1;
			}
			continue;
		}
		if (ex[i].fits) {
			if (strcmp(p, ex[i].text) != 0) {
				char key[80];
				snprintf(key, sizeof key, "BB-MISMATCH:%s", classify(ex[i].t));
				if (note(key)) {
					printf("[%lu] %s max_line=%d bbsize=%d\n", iter0 + i, key, max_line, bbsize);
					pr_escaped("fmt ", ex[i].t->fmt, 400);
					printf("    args%s\n", ex[i].t->desc);
					pr_escaped("want", ex[i].text, 400);
					pr_escaped("got ", p, 400);
				}
				bad = 1;
			}
		}
	}
	fclose(f);
	free(line);
	/* rc is -EIO even for a good dump: the reader always ends on a failing
	 * qb_rb_chunk_read (ETIMEDOUT); real trouble shows as ERROR lines / lost records */
	(void)rc;
	/* the ring keeps the newest records: record i may only be missing if an
	 * older part was overwritten, i.e. missing ones must form a prefix */
	{
		int first = -1;
		for (i = 0; i < n; i++) if (seen[i]) { first = i; break; }
		{
			if (first < 0) { if (note("BB-nothing-printed")) printf("[%lu] nothing printed: rc %d max_line %d bbsize %d n %d\n", iter0, rc, max_line, bbsize, n); bad = 1; }
			else for (i = first; i < n; i++) if (seen[i] != 1) {
				if (note("BB-record-lost-or-duplicated")) printf("[%lu] record %d of %d seen %d times (first seen %d)\n", iter0, i, n, seen[i], first);
				bad = 1; break;
			}
		}
	}
	for (i = 0; i < n; i++) { free(ex[i].text); tc_free(&tcs[i]); }
	unlink(dump); unlink(outp);
	return bad ? -n : n;
}

int main(int argc, char **argv)
{
	char mode;
	unsigned long seed, iters, i, bad = 0;
	int k;
	static struct tc t;
	if (argc < 4) { fprintf(stderr, "usage: %s d|D|b|B seed iters [v]\n  upper case = tame generator (skips the already known deviation classes)\n", argv[0]); return 2; }
	mode = argv[1][0];
	seed = strtoul(argv[2], 0, 0);
	iters = strtoul(argv[3], 0, 0);
	verbose = argc > 4;
	rs = seed * 0x9E3779B97F4A7C15ULL + 0x1234567;
	if (!rs) rs = 1;
	for (k = 0; k < 8; k++) rnd();
	setvbuf(stdout, NULL, _IOLBF, 0);
	if (mode == 'D' || mode == 'B') g_tame = 1;
	if (mode == 'd' || mode == 'D') {
		g_allow_nl = 1;
		for (i = 0; i < iters; i++) {
			/* vary the shape */
			g_maxconv = (i % 7 == 0) ? 40 : 8;
			g_maxlit = (i % 5 == 0) ? 60 : 12;
			g_bigstr = (i % 3 == 0) ? 30 : 5;
			gen(&t);
			bad += direct_once(&t, i);
			tc_free(&t);
		}
	} else {
		g_allow_nl = 0;
		for (i = 0; i < iters; ) {
			static const int lines[] = { 0, 0, 0, 512, 511, 513, 4, 5, 16, 64, 77, 78, 79, 128, 256, 1024, 4096, 600 };
			static const int sizes[] = { 1024, 1025, 4096, 8192, 5000, 65536, 1 << 20 };
			int ml = lines[rn(sizeof lines / sizeof lines[0])];
			int sz = sizes[rn(sizeof sizes / sizeof sizes[0])];
			int n;
			if (g_tame && ml > 512) ml = 512;
			g_maxconv = rn(3) ? 6 : 20;
			g_bigstr = rn(2) ? 3 : 25;
			n = bb_batch(i, ml, sz);
			if (n < 0) { bad++; n = -n; }
			i += n;
		}
	}
	printf("mode %c seed %lu iters %lu: %lu deviating cases\n", mode, seed, iters, bad);
	for (k = 0; k < nclasses; k++) printf("  %-48s %lu\n", classes[k].key, classes[k].n);
	return bad ? 1 : 0;
}
