/* C14 finding 3: NULL string with a precision below 6 */
#include "rt.h"
int main(void)
{
	char *nul = NULL;
	CHECK("name=%s;", nul);			/* control: (null) */
	CHECK("name=%.10s;", nul);		/* control: (null) */
	CHECK("name=%.3s;", nul);		/* printf: nothing; blackbox: (nu */
	CHECK("name=%8.0s;", nul);
	CHECK("name=%-8.*s;", 5, nul);
	printf("%d violation(s)\n", violations);
	return violations ? 1 : 0;
}
