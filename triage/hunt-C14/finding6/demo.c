/* C14 finding 6: "%.3s" / "%.*s" with a character array that is NOT NUL
 * terminated (legal for printf: it reads at most <precision> bytes).
 * The encoder runs strlen() over the argument. The array is put at the very
 * end of a page followed by an inaccessible page, so the over-read faults. */
#include "rt.h"
#include <sys/mman.h>
#include <sys/wait.h>
#include <unistd.h>

static char *edge;	/* 3 bytes "xyz" ending exactly at a PROT_NONE page */

static int in_child(int which)
{
	pid_t p;
	int st;
	fflush(stdout);
	p = fork();
	if (p == 0) {
		char buf[64], *rec = malloc(QB_LOG_MAX_LEN), *msg = malloc(QB_LOG_MAX_LEN);
		size_t r;
		if (which == 0) { snprintf(buf, sizeof buf, "[%.3s]", edge); printf("  printf \"[%%.3s]\"   -> %s\n", buf); }
		if (which == 1) { snprintf(buf, sizeof buf, "[%.*s]", 3, edge); printf("  printf \"[%%.*s]\",3 -> %s\n", buf); }
		if (which == 2) { r = ser(rec, QB_LOG_MAX_LEN, "[%.3s]", edge); qb_vsnprintf_deserialize(msg, QB_LOG_MAX_LEN, rec); printf("  blackbox \"[%%.3s]\"   -> %s (record %zu)\n", msg, r); }
		if (which == 3) { r = ser(rec, QB_LOG_MAX_LEN, "[%.*s]", 3, edge); qb_vsnprintf_deserialize(msg, QB_LOG_MAX_LEN, rec); printf("  blackbox \"[%%.*s]\",3 -> %s (record %zu)\n", msg, r); }
		fflush(stdout);
		_exit(0);
	}
	waitpid(p, &st, 0);
	if (WIFSIGNALED(st)) { printf("  case %d: child killed by signal %d\n", which, WTERMSIG(st)); return 1; }
	if (WEXITSTATUS(st)) { printf("  case %d: child exit status %d (sanitizer report above)\n", which, WEXITSTATUS(st)); return 1; }
	return 0;
}

int main(void)
{
	long pg = sysconf(_SC_PAGESIZE);
	char *m = mmap(NULL, 2 * pg, PROT_READ | PROT_WRITE, MAP_PRIVATE | MAP_ANONYMOUS, -1, 0);
	mprotect(m + pg, pg, PROT_NONE);
	edge = m + pg - 3;
	memcpy(edge, "xyz", 3);
	if (in_child(0) || in_child(1)) { printf("reference printf failed?!\n"); return 98; }
	violations += in_child(2);
	violations += in_child(3);
	printf("%d violation(s)\n", violations);
	return violations ? 1 : 0;
}
