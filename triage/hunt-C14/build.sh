#!/bin/sh
# usage: build.sh [tree]   (default /repo)  -> ./fuzz
T=${1:-/repo}
set -e
cd "$(dirname "$0")"
SRCS="$T/lib/log_format.c $T/lib/log_blackbox.c $T/lib/log.c $T/lib/log_file.c $T/lib/log_syslog.c \
 $T/lib/log_thread.c $T/lib/log_dcs.c $T/lib/ringbuffer.c $T/lib/ringbuffer_helper.c \
 $T/lib/strlcpy.c $T/lib/strlcat.c"
gcc -g -O1 -fno-omit-frame-pointer -fsanitize=address,undefined \
  -w -DHAVE_CONFIG_H -I$T/include -I$T/include/qb -I$T/lib \
  -o ${OUT:-fuzz} fuzz.c $SRCS -L$T/lib/.libs -lqb -lpthread -ldl
echo built ./fuzz against $T
