/* C14 finding 7: a format too long for the record, cut right after the
 * extended-information marker (QB_XC, '\a'), is reported as stored */
#include "rt.h"
int main(void)
{
	char fmt[700], shown[700], want[700], *rec = malloc(QB_LOG_MAX_LEN), *msg = malloc(QB_LOG_MAX_LEN);
	size_t r; int i, wl;
	for (i = 0; i < 600; i += 2) { fmt[i] = '%'; fmt[i + 1] = '%'; }	/* 300 x "%%" */
	fmt[600] = 0;
	fmt[510] = QB_XC; fmt[511] = 'x';		/* marker is the 511th character */
	strcpy(shown, fmt); shown[510] = '|';		/* how every target shows the marker */
	wl = snprintf(want, sizeof want, shown);
	r = ser(rec, QB_LOG_MAX_LEN, fmt);
	printf("format %zu chars, printf text %d chars (fits %d), encoder returns %zu -> %s\n",
	       strlen(fmt), wl, QB_LOG_MAX_LEN, r, r < QB_LOG_MAX_LEN ? "STORED" : "refused (correct)");
	if (r < QB_LOG_MAX_LEN) {
		qb_vsnprintf_deserialize(msg, QB_LOG_MAX_LEN, rec);
		printf("decoded %zu chars, printf %zu chars: %s\n", strlen(msg), strlen(want), strcmp(msg, want) ? "MISMATCH" : "same");
		if (strcmp(msg, want)) violations++;
	}
	/* control: same format without the marker is refused */
	fmt[510] = '%'; fmt[511] = '%';
	r = ser(rec, QB_LOG_MAX_LEN, fmt);
	printf("control without marker: encoder returns %zu -> %s\n", r, r < QB_LOG_MAX_LEN ? "STORED" : "refused (correct)");
	printf("%d violation(s)\n", violations);
	return violations ? 1 : 0;
}
