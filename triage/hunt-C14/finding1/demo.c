/* C14 finding 1: a negative precision passed through '*' */
#include "rt.h"
int main(void)
{
	CHECK("[%.*d]", -1, 42);			/* printf: as if no precision -> [42] */
	CHECK("value=%.*s;", -1, "hello");
	CHECK("%.*f|%d", -3, 1.5, 7);
	CHECK("%*.*x", 8, -2, 255);
	CHECK("[%.*d]", 3, 42);				/* control: positive precision is fine */
	CHECK("[%*d]", -6, 42);				/* control: negative width is fine */
	printf("%d violation(s)\n", violations);
	return violations ? 1 : 0;
}
