/* shared by the finding demos: encode with qb_vsnprintf_serialize exactly as the
 * blackbox does (512 byte record, QB_LOG_MAX_LEN), decode with
 * qb_vsnprintf_deserialize exactly as qb_log_blackbox_print_from_file does
 * (512 byte message buffer), compare with snprintf on the same arguments. */
#define _GNU_SOURCE
#include <stdio.h>
#include <stdlib.h>
#include <string.h>
#include <stdarg.h>
#include <limits.h>
#include <qb/qbdefs.h>
#include <qb/qblog.h>

static int violations;

static size_t ser(char *b, size_t n, const char *f, ...)
{
	va_list ap; size_t r;
	va_start(ap, f); r = qb_vsnprintf_serialize(b, n, f, ap); va_end(ap);
	return r;
}

static void show(const char *l, const char *s)
{
	printf("    %s \"", l);
	for (; *s; s++) { if ((unsigned char)*s < 32) printf("\\x%02x", *s); else putchar(*s); }
	printf("\"\n");
}

#define CHECK(...) do { \
	char want[2048]; \
	char *rec = malloc(QB_LOG_MAX_LEN), *msg = malloc(QB_LOG_MAX_LEN); \
	int wl = snprintf(want, sizeof want, __VA_ARGS__); \
	size_t r = ser(rec, QB_LOG_MAX_LEN, __VA_ARGS__); \
	printf("%s\n", #__VA_ARGS__); \
	if (r >= QB_LOG_MAX_LEN) { printf("    refused by the encoder (%zu)\n", r); } \
	else if (wl >= QB_LOG_MAX_LEN) { printf("    text does not fit the line limit, not checked\n"); } \
	else { \
		qb_vsnprintf_deserialize(msg, QB_LOG_MAX_LEN, rec); \
		if (strcmp(msg, want)) { violations++; printf("    MISMATCH (record %zu bytes)\n", r); show("printf :", want); show("decoded:", msg); } \
		else { printf("    ok\n"); show("both   :", msg); } \
	} \
	free(rec); free(msg); \
} while (0)
