/* C14 finding 5: the blackbox line limit raised above 512 (QB_LOG_CONF_MAX_LINE_LEN
 * is accepted for the blackbox target, up to 4096).  A message whose text fits that
 * limit is stored, but the dump reader calls the record corrupt and stops: that
 * message and every later one are lost. */
#define _GNU_SOURCE
#include <stdio.h>
#include <stdlib.h>
#include <string.h>
#include <unistd.h>
#include <fcntl.h>
#include <syslog.h>
#include <qb/qbdefs.h>
#include <qb/qblog.h>

static char out[65536];

static int dump_and_read(const char *dump, const char *outp)
{
	int tries, n = 0;
	unlink(dump);
	if (qb_log_blackbox_write_to_file(dump) < 0) { printf("write_to_file failed\n"); exit(97); }
	/* the reader uses the fixed shm name "create_from_file"; retry if another
	 * process on the machine was using it at that moment */
	for (tries = 0; tries < 100; tries++) {
		int save, fd;
		FILE *f;
		fflush(stdout);
		save = dup(1);
		fd = open(outp, O_CREAT | O_TRUNC | O_WRONLY, 0600);
		dup2(fd, 1); close(fd);
		(void)qb_log_blackbox_print_from_file(dump);
		fflush(stdout);
		dup2(save, 1); close(save);
		f = fopen(outp, "r");
		n = fread(out, 1, sizeof out - 1, f);
		fclose(f);
		out[n] = 0;
		if (strstr(out, "demo_fn") || strstr(out, "ERROR")) break;
		usleep(50000);
	}
	unlink(dump); unlink(outp);
	return n;
}

static int run(int line_limit, int textlen)
{
	char *big = malloc(textlen + 1);
	char dump[64], outp[64];
	int bad = 0;
	memset(big, 'M', textlen); big[textlen] = 0;
	snprintf(dump, sizeof dump, "/tmp/huntC14f5-%d.dump", getpid());
	snprintf(outp, sizeof outp, "/tmp/huntC14f5-%d.out", getpid());

	qb_log_init("huntC14f5", LOG_USER, LOG_TRACE);
	qb_log_ctl(QB_LOG_SYSLOG, QB_LOG_CONF_ENABLED, QB_FALSE);
	qb_log_filter_ctl(QB_LOG_BLACKBOX, QB_LOG_FILTER_ADD, QB_LOG_FILTER_FILE, "*", LOG_TRACE);
	qb_log_ctl(QB_LOG_BLACKBOX, QB_LOG_CONF_SIZE, 65536);
	if (line_limit) {
		int rc = qb_log_ctl(QB_LOG_BLACKBOX, QB_LOG_CONF_MAX_LINE_LEN, line_limit);
		printf("line limit %d: qb_log_ctl(QB_LOG_BLACKBOX, QB_LOG_CONF_MAX_LINE_LEN) = %d\n", line_limit, rc);
	} else {
		printf("default line limit (512)\n");
	}
	qb_log_ctl(QB_LOG_BLACKBOX, QB_LOG_CONF_ENABLED, QB_TRUE);

	qb_log_from_external_source("demo_fn", "demo.c", "first %d", LOG_INFO, 1, 0, 1);
	qb_log_from_external_source("demo_fn", "demo.c", "big %s end", LOG_INFO, 2, 0, big);
	qb_log_from_external_source("demo_fn", "demo.c", "third %d", LOG_INFO, 3, 0, 3);

	dump_and_read(dump, outp);
	qb_log_fini();
	{
		char *p = out, *e;
		while ((e = strchr(p, '\n'))) {
			*e = 0;
			if (strstr(p, "demo_fn") || strstr(p, "ERROR")) printf("   | %.70s%s\n", p, strlen(p) > 70 ? "..." : "");
			*e = '\n';
			p = e + 1;
		}
	}
	{
		char needle[32];
		snprintf(needle, sizeof needle, "%.20s", big);
		int has1 = strstr(out, "first 1") != NULL;
		int hasbig = strstr(out, "MMMMMMMMMMMMMMMMMMMM end") != NULL;
		int hastoolong = strstr(out, "Log message too long") != NULL;
		int has3 = strstr(out, "third 3") != NULL;
		printf("   first:%s  big:%s  third:%s\n", has1 ? "shown" : "LOST",
		       hasbig ? "shown in full" : hastoolong ? "refused (replacement text)" : "LOST", has3 ? "shown" : "LOST");
		/* the text (4 + textlen + 4 chars) fits the configured limit: it must be shown;
		 * and whatever happens to it, its neighbours must survive */
		if (!has1 || !has3) bad = 1;
		if (4 + textlen + 4 < (line_limit ? line_limit : 512) - 1 && !hasbig && !hastoolong) bad = 1;
	}
	free(big);
	return bad;
}

int main(void)
{
	int bad = 0;
	bad += run(0, 400);	/* control */
	bad += run(0, 600);	/* control: refused, neighbours intact */
	bad += run(1024, 600);	/* text of 608 chars fits 1024 */
	bad += run(4096, 2000);	/* record is larger than the reader's 1024 byte chunk buffer */
	printf("%d violation(s)\n", bad);
	return bad ? 1 : 0;
}
