#!/bin/sh
# usage: demo.sh <tree>    exit 0 = property held, non-zero = violated
T=${1:-/repo}
D=$(cd "$(dirname "$0")" && pwd)
B=$(mktemp -d /tmp/hunt-C14-demo.XXXXXX)
gcc -g -O1 -fno-omit-frame-pointer -fsanitize=address,undefined -w -DHAVE_CONFIG_H \
  -I$T/include -I$T/include/qb -I$T/lib -o $B/demo $D/demo.c \
  $T/lib/log_format.c $T/lib/log_blackbox.c $T/lib/log.c $T/lib/log_file.c $T/lib/log_syslog.c \
  $T/lib/log_thread.c $T/lib/log_dcs.c $T/lib/ringbuffer.c $T/lib/ringbuffer_helper.c \
  $T/lib/strlcpy.c $T/lib/strlcat.c -L$T/lib/.libs -lqb -lpthread -ldl || { rm -rf $B; exit 99; }
LD_LIBRARY_PATH=$T/lib/.libs ASAN_OPTIONS=detect_leaks=0 $B/demo 2>$B/err >$B/out
rc=$?
grep -v "^Ringbuffer\|^ ->\|^ =>" $B/out
grep -v "Connection timed out" $B/err | head -20
rm -rf $B
rm -f /dev/shm/qb-huntC14f5-*
exit $rc
