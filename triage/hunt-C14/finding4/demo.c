/* C14 finding 4: %c given the NUL character.  printf emits the byte and goes on;
 * the decoded text is neither printf's bytes nor printf's C string */
#include "rt.h"
static void bytes(const char *s, int n)
{
	int i;
	for (i = 0; i < n; i++) { if (s[i]) putchar(s[i]); else printf("\\0"); }
}
int main(void)
{
	char want[64] = "", *rec = malloc(QB_LOG_MAX_LEN), *msg = malloc(QB_LOG_MAX_LEN);
	int wl; size_t r, dl;
	memset(msg, '#', QB_LOG_MAX_LEN);
	wl = snprintf(want, sizeof want, "ab%ccd%def", 0, 7);
	r = ser(rec, QB_LOG_MAX_LEN, "ab%ccd%def", 0, 7);
	dl = qb_vsnprintf_deserialize(msg, QB_LOG_MAX_LEN, rec);
	printf("\"ab%%ccd%%def\", 0, 7   (record %zu bytes)\n", r);
	printf("  printf : returns %d, bytes: ", wl); bytes(want, wl + 1); printf("   (as a C string: \"%s\")\n", want);
	printf("  decoded: returns %zu, bytes: ", dl); bytes(msg, wl + 1); printf("   (as a C string: \"%s\")\n", msg);
	if (strcmp(msg, want) != 0 || memcmp(msg, want, wl + 1) != 0) violations++;
	CHECK("ab%ccd%def", 'X', 7);		/* control */
	printf("%d violation(s)\n", violations);
	return violations ? 1 : 0;
}
