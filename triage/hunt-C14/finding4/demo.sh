#!/bin/sh
# usage: demo.sh <tree>    exit 0 = property held, non-zero = violated
T=${1:-/repo}
D=$(cd "$(dirname "$0")" && pwd)
B=$(mktemp -d /tmp/hunt-C14-demo.XXXXXX)
gcc -g -O1 -fno-omit-frame-pointer -fsanitize=address,undefined -w -DHAVE_CONFIG_H \
  -I$T/include -I$T/include/qb -I$T/lib -I$D -o $B/demo $D/demo.c \
  $T/lib/log_format.c $T/lib/strlcpy.c $T/lib/strlcat.c -L$T/lib/.libs -lqb -lpthread || { rm -rf $B; exit 99; }
LD_LIBRARY_PATH=$T/lib/.libs ASAN_OPTIONS=detect_leaks=0 $B/demo
rc=$?
rm -rf $B
exit $rc
