/* C14 finding 2: a directive whose rebuilt text needs more than 19 characters
 * makes the decoder stop: the directive and everything after it vanish */
#include "rt.h"
int main(void)
{
	CHECK("a=%d b=%020.15lld c=%d", 1, 123456789LL, 3);		/* control, 11 chars */
	CHECK("a=%d b=%-+#0 '*.*llx c=%d", 1, 100, 50, 255LL, 3);	/* control: '%-+#0 '100.50llx' is 17 */
	CHECK("a=%d b=%00000000000000000012d c=%d", 1, 2, 3);		/* 22 chars */
	CHECK("a=%d b=%-+-+-+-+-+-+-+-+-+-+d c=%d", 1, 2, 3);		/* repeated flags, 22 chars */
	CHECK("a=%d b=%-+#0 '*.*llx c=%d", 1, 100000, 100, 255LL, 3);	/* would be long anyway: text > limit */
	CHECK("a=%d b=%-+#0 ' '*.*llx c=%d", 1, -100, 100, 255LL, 3);	/* '%-+#0 ' '-100.100llx' is 20 */
	printf("%d violation(s)\n", violations);
	return violations ? 1 : 0;
}
