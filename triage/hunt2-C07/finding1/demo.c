/*
 * C07 finding 1: in a ring with a semaphore (the default: any ring opened
 * without QB_RB_FLAG_NO_SEMAPHORE), qb_rb_chunk_reclaim() of a chunk that was
 * not peeked first leaves the semaphore count one too high.  When the ring
 * then becomes empty (read_pt == write_pt) qb_rb_space_free() takes the
 * semaphore count for "the ring is full" and returns 0: every write into the
 * EMPTY ring is refused with -EAGAIN, for ever, and reads report -EBADMSG.
 *
 * exit 0 = property held, 1 = violated
 */
#include <stdio.h>
#include <string.h>
#include <errno.h>
#include <unistd.h>
#include <qb/qbrb.h>

int main(int argc, char **argv)
{
	uint32_t extra = (argc > 1 && strcmp(argv[1], "nosem") == 0) ? QB_RB_FLAG_NO_SEMAPHORE : QB_RB_FLAG_SHARED_THREAD;
	char name[64], out[64];
	qb_ringbuffer_t *rb;
	ssize_t r;
	int bad = 0, i;

	snprintf(name, sizeof(name), "h2c07-f1-%d", (int)getpid());
	rb = qb_rb_open(name, 1000, QB_RB_FLAG_CREATE | extra, 0);
	if (!rb) { perror("qb_rb_open"); return 2; }

	r = qb_rb_chunk_write(rb, "AAAA", 4);
	printf("write A (4 bytes)           -> %zd\n", r);
	qb_rb_chunk_reclaim(rb);	/* drop the oldest chunk */
	printf("reclaim                     -> ring is empty: space_used=%zd chunks_used=%zd space_free=%zd\n",
	       qb_rb_space_used(rb), qb_rb_chunks_used(rb), qb_rb_space_free(rb));

	for (i = 0; i < 3; i++) {
		r = qb_rb_chunk_write(rb, "BBBB", 4);
		printf("write B (4 bytes) into empty ring of size 1000 -> %zd%s\n", r,
		       r == -EAGAIN ? " (-EAGAIN: refused)" : "");
		if (r != 4) bad = 1;
		r = qb_rb_chunk_read(rb, out, sizeof(out), 0);
		printf("read                        -> %zd\n", r);
		if (r != 4 || memcmp(out, "BBBB", 4)) bad = 1;
	}
	qb_rb_close(rb);
	printf(bad ? "VIOLATED: empty ring refuses a 4 byte chunk\n" : "held\n");
	return bad;
}
