/*
 * C07 finding 2: in a ring with a semaphore, a successful qb_rb_chunk_peek()
 * takes the chunk's notification; a following qb_rb_chunk_read() (e.g. "peek
 * to learn the length, then read into a buffer of that length") then needs a
 * second notification.  With one chunk the read reports -ETIMEDOUT although
 * the chunk is there; with more chunks it eats the next chunk's notification,
 * so the last written chunk can never be read (nor peeked) afterwards.
 *
 * exit 0 = property held, 1 = violated
 */
#include <stdio.h>
#include <string.h>
#include <errno.h>
#include <unistd.h>
#include <qb/qbrb.h>

int main(int argc, char **argv)
{
	uint32_t extra = (argc > 1 && strcmp(argv[1], "nosem") == 0) ? QB_RB_FLAG_NO_SEMAPHORE : QB_RB_FLAG_SHARED_THREAD;
	char name[64], out[64];
	void *p;
	qb_ringbuffer_t *rb;
	ssize_t r;
	int bad = 0;

	snprintf(name, sizeof(name), "h2c07-f2-%d", (int)getpid());
	rb = qb_rb_open(name, 1000, QB_RB_FLAG_CREATE | extra, 0);
	if (!rb) { perror("qb_rb_open"); return 2; }

	printf("write A -> %zd\n", qb_rb_chunk_write(rb, "AAAA", 4));
	printf("write B -> %zd\n", qb_rb_chunk_write(rb, "BBBBB", 5));
	r = qb_rb_chunk_peek(rb, &p, 0);
	printf("peek    -> %zd (expect 4, chunk A)\n", r);
	if (r != 4 || memcmp(p, "AAAA", 4)) bad = 1;
	r = qb_rb_chunk_read(rb, out, sizeof(out), 0);
	printf("read    -> %zd (expect 4, chunk A)\n", r);
	if (r != 4 || memcmp(out, "AAAA", 4)) bad = 1;
	r = qb_rb_chunk_read(rb, out, sizeof(out), 0);
	printf("read    -> %zd (expect 5, chunk B)%s\n", r, r == -ETIMEDOUT ? "  -ETIMEDOUT: chunk B is written, unread, and unreadable" : "");
	if (r != 5 || memcmp(out, "BBBBB", 5)) bad = 1;
	r = qb_rb_chunk_peek(rb, &p, 0);
	printf("peek    -> %zd (expect <= 0 if B was read, else 5); space_used=%zd\n", r, qb_rb_space_used(rb));

	qb_rb_close(rb);
	printf(bad ? "VIOLATED: a successfully written chunk is not returned by read\n" : "held\n");
	return bad;
}
