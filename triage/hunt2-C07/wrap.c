/* exhaustive: every chunk length 0..chunk_max at chosen start positions around the wrap,
 * payload made of marker words, written via write or alloc+commit, read via read or peek+reclaim;
 * plus a second pass with an unread neighbour chunk in front. usage: wrap <S> <mode> */
#include "ringbuffer_int.h"
#include <stdio.h>
#include <stdlib.h>
#include <string.h>
static qb_ringbuffer_t *rb; static uint32_t W; static unsigned char *buf, *out; static size_t cmax;
static int die(const char *m, size_t len, uint32_t p, ssize_t r) { fprintf(stderr, "VIOLATION %s len=%zu pos=%u r=%zd w=%u rd=%u\n", m, len, p, r, rb->shared_hdr->write_pt, rb->shared_hdr->read_pt); exit(1); }
static void adv(uint32_t d) { ssize_t r; if (d == 0) return; if (d == 1) { adv(2); adv(W - 1); return; }
  r = qb_rb_chunk_write(rb, buf, 4 * (size_t)(d - 2)); if (r < 0) die("filler write", 4 * (d - 2), 0, r);
  r = qb_rb_chunk_read(rb, out, cmax + 8, 0); if (r < 0) die("filler read", 4 * (d - 2), 0, r); }
static void goto_pos(uint32_t p) { uint32_t cur = rb->shared_hdr->write_pt; if (rb->shared_hdr->read_pt != cur) die("not empty", 0, p, 0); adv((p + W - cur) % W); if (rb->shared_hdr->write_pt != p) die("positioning", 0, p, 0); }
int main(int c, char **v) { size_t S = atol(v[1]); int mode = atoi(v[2]); char name[64]; size_t len, i; unsigned long n = 0; static const uint32_t mk[3] = {0xA1A1A1A1u, 0xD0D0D0D0u, 0xA110CED0u};
 snprintf(name, 64, "h2c07-wr-%d", (int)getpid()); rb = qb_rb_open(name, S, QB_RB_FLAG_CREATE | (mode ? QB_RB_FLAG_SHARED_THREAD : QB_RB_FLAG_NO_SEMAPHORE), 0); if (!rb) return 2;
 W = rb->shared_hdr->word_size; cmax = (size_t)W * 4 - 12; buf = malloc(cmax + 8); out = malloc(cmax + 8);
 for (len = 0; len <= cmax; len++) { uint32_t cw = 2 + (len + 3) / 4; /* words the chunk takes */
  uint32_t pos[] = { 0, 1, 2, W - 1, W - 2, W - 3, W / 2, (W - cw + W) % W, (W - cw + 1 + W) % W, (W - cw - 1 + W) % W, (W - cw + 2 + W) % W, (W - cw - 2 + W) % W, (uint32_t)(len * 7 % W) }; unsigned k;
  for (k = 0; k < sizeof(pos) / sizeof(pos[0]); k++) { ssize_t r; void *p; uint32_t m = mk[(len + k) % 3];
   for (i = 0; i < len; i++) buf[i] = ((unsigned char *)&m)[i & 3]; if (len > 8) { buf[len / 2] = (unsigned char)len; buf[len - 1] ^= (unsigned char)k; }
   goto_pos(pos[k]);
   /* pass 1: alone in the ring */
   if ((len + k) & 1) r = qb_rb_chunk_write(rb, buf, len); else { p = qb_rb_chunk_alloc(rb, len); if (!p) r = -errno; else { memcpy(p, buf, len); r = qb_rb_chunk_commit(rb, len); if (r == 0) r = len; } }
   if (r != (ssize_t)len) die("write refused on empty ring", len, pos[k], r);
   if (len > 0) { r = qb_rb_chunk_read(rb, out, len - 1, 0); if (r != -ENOBUFS) die("short read", len, pos[k], r); }
   memset(out, 0x55, len + 1);
   if (k & 1) { r = qb_rb_chunk_read(rb, out, len, 0); if (r != (ssize_t)len || memcmp(out, buf, len) || out[len] != 0x55) die("read", len, pos[k], r); }
   else { r = qb_rb_chunk_peek(rb, &p, 0); if (r != (ssize_t)len || memcmp(p, buf, len)) die("peek", len, pos[k], r); qb_rb_chunk_reclaim(rb); }
   r = qb_rb_chunk_read(rb, out, cmax, 0); if (r >= 0) die("read on empty returned chunk", len, pos[k], r);
   n++;
   /* pass 2: behind an unread 5-byte neighbour, if the promise (16 overhead each) covers it */
   if (5 + 16 + len + 16 <= S) { goto_pos(pos[k]); r = qb_rb_chunk_write(rb, "\xA1\xA1\xA1\xA1\xA1", 5); if (r != 5) die("nb write", len, pos[k], r);
    r = qb_rb_chunk_write(rb, buf, len); if (r != (ssize_t)len) die("write refused though promised", len, pos[k], r);
    r = qb_rb_chunk_read(rb, out, 5, 0); if (r != 5 || memcmp(out, "\xA1\xA1\xA1\xA1\xA1", 5)) die("nb read", len, pos[k], r);
    r = qb_rb_chunk_read(rb, out, len, 0); if (r != (ssize_t)len || memcmp(out, buf, len)) die("read2", len, pos[k], r);
    r = qb_rb_chunk_read(rb, out, cmax, 0); if (r >= 0) die("read on empty returned chunk (2)", len, pos[k], r); n++; }
  } }
 qb_rb_close(rb); printf("ok S=%zu mode=%d W=%u lens 0..%zu cases=%lu\n", S, mode, W, cmax, n); return 0; }
