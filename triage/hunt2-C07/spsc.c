/* one writer thread, one reader thread; checks loss-free in-order delivery.
 * usage: spsc <mode 0 nosem|1 sem> <S> <nchunks> <seed> */
#include <stdio.h>
#include <stdlib.h>
#include <string.h>
#include <errno.h>
#include <pthread.h>
#include <sched.h>
#include <unistd.h>
#include <qb/qbrb.h>
static qb_ringbuffer_t *rb; static size_t S; static unsigned long N; static unsigned seed; static int bad;
static size_t len_of(unsigned long i) { unsigned x = (unsigned)(i * 2654435761u) ^ seed; x ^= x >> 13; return (x % 7 == 0) ? x % (S + 1) : x % 97; }
static void mk(unsigned char *b, size_t l, unsigned long i) { size_t k; for (k = 0; k < l; k++) b[k] = (unsigned char)(i * 31 + k * 7); if (l >= 8 && i % 3 == 0) { unsigned m = 0xA1A1A1A1u; memcpy(b, &m, 4); memcpy(b + l - 4 - (l % 4), &m, 4); } }
static void *wr(void *a) { unsigned long i; unsigned char *b = malloc(S + 1); for (i = 0; i < N && !bad; i++) { size_t l = len_of(i); ssize_t r; mk(b, l, i); while ((r = qb_rb_chunk_write(rb, b, l)) == -EAGAIN && !bad) sched_yield(); if (r != (ssize_t)l && !bad) { fprintf(stderr, "write %lu -> %zd\n", i, r); bad = 1; } } free(b); return a; }
static void *rd(void *a) { unsigned long i; unsigned char *b = malloc(S + 1), *e = malloc(S + 1); int mode = *(int *)a; for (i = 0; i < N && !bad; i++) { size_t l = len_of(i); ssize_t r; unsigned long spins = 0; mk(e, l, i);
  if (i % 2) { void *p; while (((r = qb_rb_chunk_peek(rb, &p, mode ? 50 : 0)) < 0 || (r == 0 && l != 0)) && !bad) { if (++spins > 200000000UL) { fprintf(stderr, "stuck\n"); bad = 1; } sched_yield(); }
    if (r == 0 && l == 0 && mode) { /* ambiguous 0: retry until head really is there is impossible to tell; reclaim only if space used */ }
    if (!bad && (r != (ssize_t)l || memcmp(p, e, l))) { fprintf(stderr, "peek chunk %lu: got %zd want %zu\n", i, r, l); bad = 1; } qb_rb_chunk_reclaim(rb); }
  else { while ((r = qb_rb_chunk_read(rb, b, S + 1, mode ? 50 : 0)) < 0 && !bad) { if (r != -ETIMEDOUT && r != -EBADMSG) { fprintf(stderr, "read -> %zd\n", r); bad = 1; } sched_yield(); }
    if (!bad && (r != (ssize_t)l || memcmp(b, e, l))) { fprintf(stderr, "read chunk %lu: got %zd want %zu\n", i, r, l); bad = 1; } } }
 free(b); free(e); return NULL; }
int main(int c, char **v) { int mode = atoi(v[1]); pthread_t a, b; char name[64]; S = atol(v[2]); N = atol(v[3]); seed = atoi(v[4]);
 snprintf(name, 64, "h2c07-sp-%d", (int)getpid()); rb = qb_rb_open(name, S, QB_RB_FLAG_CREATE | (mode ? QB_RB_FLAG_SHARED_THREAD : QB_RB_FLAG_NO_SEMAPHORE), 0);
 pthread_create(&a, NULL, wr, NULL); pthread_create(&b, NULL, rd, &mode); pthread_join(a, NULL); pthread_join(b, NULL); qb_rb_close(rb); printf("%s mode=%d S=%zu N=%lu\n", bad ? "BAD" : "ok", mode, S, N); return bad; }
