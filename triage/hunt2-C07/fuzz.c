/*
 * Model-based randomized tester for libqb ring buffer, property C07:
 * capacity contract + loss-free sequential FIFO.
 *
 * usage: fuzz <seed> <rounds> <ops-per-round> <mode> <discipline> [fixedS]
 *   mode: 0 = QB_RB_FLAG_NO_SEMAPHORE, 1 = default (posix sem, threads),
 *         2 = QB_RB_FLAG_SHARED_PROCESS (pshared sem)
 *   discipline: 0 = any op sequence (write/alloc+commit/read/peek/reclaim)
 *               1 = reclaim only directly after a successful peek, no read
 *                   between a successful peek and its reclaim
 * exit 0 = no violation, 1 = violation (trace printed)
 */
#include <stdio.h>
#include <stdlib.h>
#include <string.h>
#include <stdint.h>
#include <errno.h>
#include <unistd.h>
#include <qb/qbrb.h>
#include <qb/qblog.h>

#define OVERHEAD 16
#define MAXQ 70000

struct chunk { size_t len; unsigned char *data; };
static struct chunk q[MAXQ];
static size_t qh, qt;		/* head index, tail index (no wrap: reset per round) */
static size_t q_sum;		/* sum of (len+OVERHEAD) of unread chunks */

static uint64_t rng_s;
static uint32_t rnd(void)
{
	rng_s ^= rng_s << 13; rng_s ^= rng_s >> 7; rng_s ^= rng_s << 17;
	return (uint32_t)(rng_s >> 11);
}

#define TRACE_MAX 4096
static char trace[TRACE_MAX][96];
static unsigned long trace_n;
#define TR(...) do { snprintf(trace[trace_n % TRACE_MAX], 96, __VA_ARGS__); trace_n++; } while (0)

static unsigned long st_wok, st_wref, st_rok, st_rsmall, st_rempty, st_peek, st_reclaim, st_wrap, st_full, st_short;
static size_t cur_S;
static int cur_mode;

static void dump_trace(void)
{
	unsigned long i, from = trace_n > 60 ? trace_n - 60 : 0;
	fprintf(stderr, "--- S=%zu mode=%d, last ops (of %lu):\n", cur_S, cur_mode, trace_n);
	for (i = from; i < trace_n; i++)
		fprintf(stderr, "  %s\n", trace[i % TRACE_MAX]);
}

#define FAIL(...) do { fprintf(stderr, "VIOLATION: " __VA_ARGS__); fprintf(stderr, "\n"); dump_trace(); return 1; } while (0)

static const uint32_t markers[] = { 0xA1A1A1A1u, 0xD0D0D0D0u, 0xA110CED0u, 0u, 5u, 8u, 0xffffffffu };

static void fill(unsigned char *p, size_t len, int kind)
{
	size_t i;
	if (kind == 0) {
		for (i = 0; i < len; i++) p[i] = (unsigned char)rnd();
	} else if (kind == 1) {
		/* all words are marker constants */
		uint32_t m = markers[rnd() % 3];
		for (i = 0; i < len; i++) p[i] = ((unsigned char *)&m)[i & 3];
	} else {
		for (i = 0; i + 4 <= len; i += 4) {
			uint32_t m = (rnd() & 1) ? markers[rnd() % 7] : rnd() % 64;
			memcpy(p + i, &m, 4);
		}
		for (; i < len; i++) p[i] = 0xA1;
	}
}

static size_t pick_S(void)
{
	static const size_t base[] = { 0, 1, 2, 3, 4, 5, 7, 8, 15, 16, 17, 31, 32, 33, 63, 64, 100, 255, 1000, 2000 };
	long pg = sysconf(_SC_PAGESIZE);
	uint32_t r = rnd() % 10;
	if (r < 3) return base[rnd() % (sizeof(base) / sizeof(base[0]))];
	if (r < 7) {
		/* around page multiples: the library adds 13 before rounding */
		size_t k = 1 + rnd() % 4;
		long d = (long)(rnd() % 31) - 15 - 13;
		return (size_t)((long)(k * pg) + d);
	}
	if (r < 9) return rnd() % 6000;
	return rnd() % 40000;
}

static size_t pick_len(size_t S, size_t real)
{
	uint32_t r = rnd() % 20;
	size_t cmax = real - 12;
	switch (r) {
	case 0: return 0;
	case 1: return S;
	case 2: return S ? S - 1 - (rnd() % (S < 8 ? S : 8)) : 0;
	case 3: return S + 1 + rnd() % 16;
	case 4: return cmax;
	case 5: return cmax + 1 + rnd() % 4;
	case 6: return cmax ? cmax - 1 - rnd() % (cmax < 9 ? cmax : 9) : 0;
	case 7: case 8: case 9: return rnd() % 9;
	case 10: case 11: case 12: return rnd() % 64;
	case 13: case 14: return rnd() % (S / 4 + 1);
	case 15: return rnd() % (S / 2 + 1);
	case 16: {	/* exactly fill what the promise allows */
		if (q_sum + OVERHEAD <= S) return S - q_sum - OVERHEAD;
		return 0;
	}
	case 17: {
		if (q_sum + OVERHEAD <= S) { size_t m = S - q_sum - OVERHEAD; return m ? m - rnd() % (m < 5 ? m : 5) : 0; }
		return 1;
	}
	default: return rnd() % (S + 1);
	}
}

static int one_round(int mode, int discipline, unsigned long nops, size_t S, unsigned long roundno)
{
	char name[64];
	uint32_t flags = QB_RB_FLAG_CREATE;
	qb_ringbuffer_t *rb;
	long pg = sysconf(_SC_PAGESIZE);
	size_t real = ((S + 13 + pg - 1) / pg) * pg;
	unsigned long op;
	int peeked = 0;	/* discipline: a successful peek awaits its reclaim */
	int rc = 0;

	if (mode == 0) flags |= QB_RB_FLAG_NO_SEMAPHORE;
	else if (mode == 2) flags |= QB_RB_FLAG_SHARED_PROCESS;
	else flags |= QB_RB_FLAG_SHARED_THREAD;

	snprintf(name, sizeof(name), "h2c07-%d-%lu", (int)getpid(), roundno);
	rb = qb_rb_open(name, S, flags, 0);
	if (rb == NULL) { fprintf(stderr, "open failed S=%zu errno=%d\n", S, errno); return 2; }

	cur_S = S; cur_mode = mode; trace_n = 0;
	qh = qt = 0; q_sum = 0;
	TR("open S=%zu real=%zu flags=0x%x", S, real, flags);

#define RFAIL(...) do { fprintf(stderr, "VIOLATION: " __VA_ARGS__); fprintf(stderr, "\n"); dump_trace(); rc = 1; goto out; } while (0)

	for (op = 0; op < nops; op++) {
		uint32_t r = rnd() % 100;
		int empty = (qh == qt);

		if (discipline && peeked) {
			/* only allowed: writes, more peeks, or the reclaim */
			if (r >= 50) r = 95;	/* reclaim */
			else r = r % 45;	/* write */
		}

		if (r < 45) {
			/* write */
			size_t len = pick_len(S, real);
			int kind = rnd() % 3;
			int via_alloc = rnd() % 3;	/* 0 write, 1 alloc+commit, 2 alloc(abandon)+alloc+commit */
			unsigned char *buf = malloc(len ? len : 1);
			ssize_t res;
			int promised = (empty && len <= S) || (q_sum + len + OVERHEAD <= S);
			fill(buf, len, kind);
			if (via_alloc == 0) {
				errno = 0;
				res = qb_rb_chunk_write(rb, buf, len);
				TR("write len=%zu kind=%d -> %zd", len, kind, res);
			} else {
				void *p;
				if (via_alloc == 2) {
					/* an allocation that is never committed, scribbled with markers */
					size_t l2 = rnd() % (S + 1);
					p = qb_rb_chunk_alloc(rb, l2);
					if (p) { unsigned char *t = malloc(l2 ? l2 : 1); fill(t, l2, 1); memcpy(p, t, l2); free(t); }
					TR("alloc len=%zu (abandoned) -> %s", l2, p ? "ok" : "NULL");
				}
				errno = 0;
				p = qb_rb_chunk_alloc(rb, len);
				if (p == NULL) {
					res = -errno;
				} else {
					int32_t c;
					memcpy(p, buf, len);
					if (len > 0 && rnd() % 4 == 0) {
						/* commit less than was allocated (as the blackbox does) */
						len = rnd() % (len + 1);
						st_short++;
					}
					c = qb_rb_chunk_commit(rb, len);
					res = c < 0 ? c : (ssize_t)len;
				}
				TR("alloc+commit len=%zu kind=%d -> %zd", len, kind, res);
			}
			if (res < 0) {
				st_wref++;
				if (promised && (free(buf), 1))
					RFAIL("write of %zu refused (%zd) although promised: S=%zu, unread=%zu chunks, sum(len+16)=%zu, empty=%d",
					      len, res, S, qt - qh, q_sum, empty);
				if (res != -EAGAIN && (free(buf), 1))
					RFAIL("refused write reports %zd, not -EAGAIN", res);
				free(buf);
			} else {
				if ((size_t)res != len && (free(buf), 1))
					RFAIL("write of %zu returned %zd", len, res);
				st_wok++;
				if (empty && len + 15 >= real - 12) st_full++;
				if (qt >= MAXQ) { free(buf); RFAIL("model queue overflow (tester limit)"); }
				q[qt].len = len; q[qt].data = buf; qt++;
				q_sum += len + OVERHEAD;
			}
		} else if (r < 75) {
			/* read */
			size_t blen;
			unsigned char *out;
			ssize_t res;
			uint32_t k = rnd() % 10;
			if (!empty && k < 6) blen = q[qh].len;			/* exact */
			else if (!empty && k < 8) blen = q[qh].len + rnd() % 32;	/* larger */
			else if (!empty && k == 8 && q[qh].len > 0) blen = rnd() % q[qh].len;	/* too small */
			else blen = rnd() % (S + 8);
			out = malloc(blen ? blen : 1);
			res = qb_rb_chunk_read(rb, out, blen, 0);
			TR("read buf=%zu -> %zd", blen, res);
			if (empty) {
				if (res >= 0) { free(out); RFAIL("read on empty ring returned %zd", res); }
			} else if (blen < q[qh].len) {
				if (res != -ENOBUFS) { free(out); RFAIL("read into too-small buffer (%zu < %zu) returned %zd", blen, q[qh].len, res); }
			} else {
				if (res < 0) { free(out); RFAIL("read returned %zd although chunk of %zu is unread (%zu chunks unread)", res, q[qh].len, qt - qh); }
				if ((size_t)res != q[qh].len) { free(out); RFAIL("read returned %zd, expected chunk of %zu", res, q[qh].len); }
				if (memcmp(out, q[qh].data, q[qh].len) != 0) { free(out); RFAIL("read data differs, len %zu", q[qh].len); }
				q_sum -= q[qh].len + OVERHEAD;
				free(q[qh].data); q[qh].data = NULL; qh++;
				st_rok++;
			}
			free(out);
		} else if (r < 90) {
			/* peek */
			void *p = NULL;
			ssize_t res = qb_rb_chunk_peek(rb, &p, 0);
			TR("peek -> %zd", res);
			if (empty) {
				if (res > 0) RFAIL("peek on empty ring returned %zd", res);
			} else {
				if (mode != 0 && peeked && res == 0) {
					/* second peek: notification already taken; tolerated */
				} else {
					if (res < 0 || (res == 0 && q[qh].len != 0))
						RFAIL("peek returned %zd although chunk of %zu is unread (%zu chunks unread)", res, q[qh].len, qt - qh);
					if ((size_t)res != q[qh].len) RFAIL("peek returned %zd, expected %zu", res, q[qh].len);
					if (res > 0 && memcmp(p, q[qh].data, q[qh].len) != 0) RFAIL("peek data differs, len %zu", q[qh].len);
					if (discipline) peeked = 1;
				}
			}
		} else {
			/* reclaim */
			if (discipline && !peeked) { continue; }
			qb_rb_chunk_reclaim(rb);
			TR("reclaim");
			peeked = 0;
			if (!empty) {
				q_sum -= q[qh].len + OVERHEAD;
				free(q[qh].data); q[qh].data = NULL; qh++;
			}
		}
		if (qh == qt) { qh = qt = 0; }
	}
out:
	while (qh < qt) { free(q[qh].data); qh++; }
	qh = qt = 0;
	qb_rb_close(rb);
	return rc;
}

int main(int argc, char **argv)
{
	unsigned long seed = argc > 1 ? strtoul(argv[1], NULL, 0) : 1;
	unsigned long rounds = argc > 2 ? strtoul(argv[2], NULL, 0) : 100;
	unsigned long nops = argc > 3 ? strtoul(argv[3], NULL, 0) : 2000;
	int mode = argc > 4 ? atoi(argv[4]) : 0;
	int discipline = argc > 5 ? atoi(argv[5]) : 0;
	long fixedS = argc > 6 ? atol(argv[6]) : -1;
	unsigned long r, total = 0;

	rng_s = seed * 0x9E3779B97F4A7C15ull + 12345;
	qb_log_init("h2c07", LOG_USER, LOG_EMERG);
	qb_log_ctl(QB_LOG_SYSLOG, QB_LOG_CONF_ENABLED, QB_FALSE);

	for (r = 0; r < rounds; r++) {
		size_t S = fixedS >= 0 ? (size_t)fixedS : pick_S();
		int rc = one_round(mode, discipline, nops, S, r);
		if (rc) { fprintf(stderr, "seed=%lu round=%lu S=%zu mode=%d disc=%d\n", seed, r, S, mode, discipline); return rc; }
		total += nops;
	}
	printf("ok seed=%lu rounds=%lu ops=%lu mode=%d disc=%d | writes ok=%lu refused=%lu shortcommit=%lu wholering=%lu reads ok=%lu\n", seed, rounds, total, mode, discipline, st_wok, st_wref, st_short, st_full, st_rok);
	return 0;
}
