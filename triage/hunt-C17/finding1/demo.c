/* skiplist: an iteration abandoned early keeps a reference on the entry it
 * stopped on; removing that entry later never notifies DELETED / FREE. */
#include <stdio.h>
#include <string.h>
#include <qb/qbdefs.h>
#include <qb/qbmap.h>

static int deleted_a, freed_a, deleted_other, freed_other;

static void cb(uint32_t event, char *key, void *old, void *value, void *ud)
{
	if (key == NULL) return;	/* (see finding 2) */
	if (event == QB_MAP_NOTIFY_DELETED) { if (!strcmp(key, "a")) deleted_a++; else deleted_other++; }
	if (event == QB_MAP_NOTIFY_FREE) { if (!strcmp(key, "a")) freed_a++; else freed_other++; }
}

static int32_t stop_at_first(const char *key, void *value, void *ud)
{
	return 1;	/* abandon the traversal on the first entry ("a") */
}

static int run(qb_map_t *m, const char *name, int use_foreach)
{
	int32_t rc;
	int bad = 0;

	deleted_a = freed_a = deleted_other = freed_other = 0;
	qb_map_notify_add(m, NULL, cb, QB_MAP_NOTIFY_DELETED | QB_MAP_NOTIFY_RECURSIVE, NULL);
	qb_map_notify_add(m, NULL, cb, QB_MAP_NOTIFY_FREE, NULL);
	qb_map_put(m, "a", "A");
	qb_map_put(m, "b", "B");
	if (use_foreach) {
		qb_map_foreach(m, stop_at_first, NULL);
	} else {
		void *v;
		qb_map_iter_t *it = qb_map_iter_create(m);
		qb_map_iter_next(it, &v);	/* "a" */
		qb_map_iter_free(it);
	}
	rc = qb_map_rm(m, "a");
	printf("%-9s %s: rm(a)=%d get(a)=%p count=%zu; after rm: DELETED(a) x%d FREE(a) x%d",
	       name, use_foreach ? "foreach " : "iterator", rc, qb_map_get(m, "a"),
	       qb_map_count_get(m), deleted_a, freed_a);
	if (rc != QB_TRUE || deleted_a != 1 || freed_a != 1) bad = 1;
	qb_map_destroy(m);
	printf("; after destroy: DELETED(a) x%d FREE(a) x%d DELETED(b) x%d FREE(b) x%d%s\n",
	       deleted_a, freed_a, deleted_other, freed_other, bad ? "   <-- VIOLATION" : "");
	if (deleted_a != 1 || freed_a != 1 || deleted_other != 1 || freed_other != 1) bad = 1;
	return bad;
}

int main(void)
{
	int bad = 0;
	bad |= run(qb_hashtable_create(16), "hashtable", 1);
	bad |= run(qb_trie_create(), "trie", 1);
	bad |= run(qb_skiplist_create(), "skiplist", 1);
	bad |= run(qb_skiplist_create(), "skiplist", 0);
	printf(bad ? "VIOLATED\n" : "held\n");
	return bad;
}
