/*
 * Model-based randomized tester for libqb maps (hashtable, skiplist, trie).
 *
 * usage: fuzz [-i ht|sl|tr] [-s seed] [-r runs] [-n ops_per_run] [-k known_mask]
 *             [-p keypool_mode] [-v] [-x] (stop at first failure)
 *
 * Every run creates one map, drives a random sequence of
 * put/get/rm/count/foreach/iterator/notifier operations, and checks every
 * result (return values, iteration content and order, every single notifier
 * callback with its arguments) against a reference model.
 *
 * known_mask tolerates (works around) already identified defects so that the
 * fuzzing can go on behind them:
 *   1  skiplist: an iterator freed before the end keeps its reference
 *      (work-around: the tester always drains skiplist iterators)
 *   2  skiplist: destroy notifies about the (key-less) header node
 *   4  trie: iteration order is by signed char
 *   8  trie: prefix iterator yields a removed (iterator-held) prefix root
 *  16  trie: notify_del() finds the node by prefix, not exactly
 */
#include <stdio.h>
#include <stdlib.h>
#include <string.h>
#include <stdint.h>
#include <errno.h>
#include <unistd.h>
#include <qb/qbdefs.h>
#include <qb/qbmap.h>

enum { HT, SL, TR };
static const char *impl_name[] = { "hashtable", "skiplist", "trie" };

#define MAXKEYS 300
#define MAXVALS 200000
#define MAXNOTIF 12
#define MAXITER 3
#define MAXLOG 4096

#define K_SL_ITERFREE 1
#define K_SL_HEADER 2
#define K_TR_SIGNED 4
#define K_TR_PREFROOT 8
#define K_TR_NDEL 16

static int known;
static int verbose;
static int stop_first;
static int failures;
static uint64_t total_ops;

/* ---------- rng ---------- */
static uint64_t rng_s;
static uint32_t rnd(void)
{
	rng_s ^= rng_s << 13;
	rng_s ^= rng_s >> 7;
	rng_s ^= rng_s << 17;
	return (uint32_t)(rng_s >> 16);
}
static uint32_t rn(uint32_t n) { return n ? rnd() % n : 0; }

/* ---------- model ---------- */
struct val {
	int id;
	int keyidx;
	char *kcopy;
	int kfreed;
};
struct ent {
	int keyidx;
	struct val *v;
	int holders;
	int removed;
	int destroyed;
	struct ent *next_all;
};
struct notif {
	int active;
	char *key;		/* NULL: global */
	struct ent *owner;	/* ht/sl: the entry a key notifier hangs on */
	int events;
	int id;
	int fnno;
};
struct iter {
	int used;
	qb_map_iter_t *it;
	char *prefix;
	struct ent *pos;
	int done;
	int started;
	int last;		/* last yielded key index, -1 */
	int yielded[MAXKEYS];
	int touched[MAXKEYS];
	int snapshot[MAXKEYS];
};
struct logent {
	struct notif *n;
	uint32_t event;
	char *key;
	char *keystr;
	void *old;
	void *val;
	int matched;
};

static int impl;
static qb_map_t *m;
static char *pool[MAXKEYS];
static int npool;
static struct ent *cur[MAXKEYS];
static struct ent *ghost[MAXKEYS];	/* trie: removed but iterator-held */
static size_t mcount;
static struct val valpool[MAXVALS];
static int nvals;
static struct ent *all_ents;
static struct notif notifs[MAXNOTIF];
static struct iter iters[MAXITER];
static struct logent lg[MAXLOG];
static int nlog;
static struct logent ex[MAXLOG];
static int nex;
#define TRN 4096
#define TRW 1500
static char trace[TRN][TRW];
static int ntrace;
static int run_failed;

#define TRACE(...) do { \
	snprintf(trace[ntrace++ % TRN], TRW, __VA_ARGS__); \
	if (verbose) { printf(__VA_ARGS__); printf("\n"); } } while (0)

static char *esc(const char *s)
{
	static char bufs[4][2800];
	static int bi;
	char *b = bufs[bi++ & 3];
	int o = 0;
	if (!s) return strcpy(b, "(null)");
	for (; *s && o < 2780; s++) {
		unsigned char c = *s;
		if (c >= 0x21 && c < 0x7f && c != '\\') b[o++] = c;
		else o += sprintf(b + o, "\\x%02x", c);
	}
	b[o] = 0;
	return b;
}

static void dump_trace(void)
{
	int i, from = ntrace > 60 ? ntrace - 60 : 0;
	printf("  --- last operations (of %d) ---\n", ntrace);
	for (i = from; i < ntrace; i++) printf("  %s\n", trace[i % TRN]);
}

#define FAIL(...) do { \
	printf("FAIL[%s]: ", impl_name[impl]); printf(__VA_ARGS__); printf("\n"); \
	if (!run_failed) dump_trace(); \
	run_failed = 1; failures++; \
	if (stop_first) { fflush(stdout); _exit(1); } } while (0)

static int is_val(void *p)
{
	char *c = p;
	return c >= (char *)valpool && c < (char *)(valpool + nvals) &&
	    ((c - (char *)valpool) % sizeof(struct val)) == 0;
}
static const char *vname(void *p)
{
	static char b[4][32];
	static int bi;
	char *s = b[bi++ & 3];
	if (p == NULL) return "NULL";
	if (is_val(p)) sprintf(s, "v%d", ((struct val *)p)->id);
	else sprintf(s, "%p", p);
	return s;
}

static void cb_common(int fnno, uint32_t event, char *key, void *old, void *value, void *ud)
{
	struct logent *l;
	if (nlog >= MAXLOG) return;
	l = &lg[nlog++];
	l->n = ud;
	l->event = event;
	l->key = key;
	l->keystr = key ? strdup(key) : NULL;
	l->old = old;
	l->val = value;
	l->matched = 0;
	if (l->n->fnno != fnno) {
		FAIL("callback fn %d called with user_data of notifier n%d (fn %d)", fnno, l->n->id, l->n->fnno);
	}
	if (event == QB_MAP_NOTIFY_FREE && old && is_val(old)) {
		struct val *v = old;
		/* what a real user does: release key and value */
		if (key == v->kcopy && !v->kfreed) {
			v->kfreed = 1;
			free(v->kcopy);
		}
	}
}
static void cb0(uint32_t e, char *k, void *o, void *v, void *ud) { cb_common(0, e, k, o, v, ud); }
static void cb1(uint32_t e, char *k, void *o, void *v, void *ud) { cb_common(1, e, k, o, v, ud); }
static qb_map_notify_fn fns[2] = { cb0, cb1 };

static void log_clear(void)
{
	int i;
	for (i = 0; i < nlog; i++) free(lg[i].keystr);
	nlog = 0;
	nex = 0;
}

static int starts_with(const char *s, const char *p)
{
	return strncmp(s, p, strlen(p)) == 0;
}

/* expect the callbacks of one event on entry e */
static void expect_event(struct ent *e, uint32_t event, char *key, void *old, void *val)
{
	int i;
	const char *ks = pool[e->keyidx];
	for (i = 0; i < MAXNOTIF; i++) {
		struct notif *n = &notifs[i];
		int hit = 0;
		if (!n->active) continue;
		if (n->key == NULL) {
			if (impl == TR) {
				hit = (n->events & event) && (n->events & QB_MAP_NOTIFY_RECURSIVE);
			} else {
				hit = (n->events & event) != 0;
			}
			if (hit) {
				ex[nex].n = n; ex[nex].event = event; ex[nex].key = key;
				ex[nex].old = old; ex[nex].val = val; ex[nex].matched = 0; nex++;
			}
			if ((n->events & QB_MAP_NOTIFY_FREE) &&
			    (event == QB_MAP_NOTIFY_DELETED || event == QB_MAP_NOTIFY_REPLACED)) {
				ex[nex].n = n; ex[nex].event = QB_MAP_NOTIFY_FREE; ex[nex].key = key;
				ex[nex].old = old; ex[nex].val = val; ex[nex].matched = 0; nex++;
			}
			continue;
		}
		if (impl == TR) {
			if (!(n->events & event)) continue;
			if (strcmp(n->key, ks) == 0) hit = 1;
			else if ((n->events & QB_MAP_NOTIFY_RECURSIVE) && starts_with(ks, n->key)) hit = 1;
		} else {
			hit = (n->owner == e) && (n->events & event);
		}
		if (hit) {
			ex[nex].n = n; ex[nex].event = event; ex[nex].key = key;
			ex[nex].old = old; ex[nex].val = val; ex[nex].matched = 0; nex++;
		}
	}
}

static void ent_destroy(struct ent *e)
{
	int i;
	expect_event(e, QB_MAP_NOTIFY_DELETED, e->v->kcopy, e->v, NULL);
	e->destroyed = 1;
	if (impl != TR) {
		for (i = 0; i < MAXNOTIF; i++) {
			if (notifs[i].active && notifs[i].owner == e) {
				notifs[i].active = 0;
				free(notifs[i].key);
				notifs[i].key = NULL;
			}
		}
	} else if (ghost[e->keyidx] == e) {
		ghost[e->keyidx] = NULL;
	}
}

static void ent_unhold(struct ent *e)
{
	if (!e) return;
	e->holders--;
	if (e->holders == 0 && e->removed && !e->destroyed) {
		ent_destroy(e);
	}
}

static const char *evname(uint32_t e)
{
	switch (e) {
	case QB_MAP_NOTIFY_DELETED: return "DELETED";
	case QB_MAP_NOTIFY_REPLACED: return "REPLACED";
	case QB_MAP_NOTIFY_INSERTED: return "INSERTED";
	case QB_MAP_NOTIFY_FREE: return "FREE";
	}
	return "?";
}

/* compare logged callbacks with the expected ones */
static void check_log(const char *what, int in_destroy)
{
	int i, j;
	for (i = 0; i < nlog; i++) {
		struct logent *l = &lg[i];
		for (j = 0; j < nex; j++) {
			struct logent *x = &ex[j];
			if (x->matched) continue;
			if (x->n == l->n && x->event == l->event && x->key == l->key &&
			    x->old == l->old && x->val == l->val) {
				x->matched = l->matched = 1;
				break;
			}
		}
		if (!l->matched) {
			if (in_destroy && (known & K_SL_HEADER) && impl == SL && l->key == NULL && l->old == NULL)
				continue;
			FAIL("%s: unexpected callback n%d %s key=%s(%p) old=%s new=%s",
			     what, l->n->id, evname(l->event), esc(l->keystr), l->key, vname(l->old), vname(l->val));
		}
	}
	for (j = 0; j < nex; j++) {
		struct logent *x = &ex[j];
		if (!x->matched) {
			FAIL("%s: missing callback n%d %s key=%s old=%s new=%s",
			     what, x->n->id, evname(x->event),
			     is_val(x->old) ? esc(pool[((struct val *)x->old)->keyidx]) :
			     (is_val(x->val) ? esc(pool[((struct val *)x->val)->keyidx]) : "?"),
			     vname(x->old), vname(x->val));
		}
	}
	log_clear();
}

static int key_index(const char *k)
{
	int i;
	for (i = 0; i < npool; i++) if (strcmp(pool[i], k) == 0) return i;
	return -1;
}

static int cmp_order(const char *a, const char *b)
{
	if (impl == TR && (known & K_TR_SIGNED)) {
		const signed char *x = (const signed char *)a, *y = (const signed char *)b;
		while (*x && *x == *y) { x++; y++; }
		if (*x == 0 || *y == 0) return (*x != 0) - (*y != 0);	/* a prefix comes first */
		return (int)*x - (int)*y;
	}
	return strcmp(a, b);
}

static void touch(int k)
{
	int i;
	for (i = 0; i < MAXITER; i++) if (iters[i].used) iters[i].touched[k] = 1;
}

/* ---------- operations ---------- */
static void op_put(int k)
{
	struct val *v;
	struct ent *e;
	int i;
	if (nvals >= MAXVALS) return;
	v = &valpool[nvals];
	v->id = nvals++;
	v->keyidx = k;
	v->kcopy = strdup(pool[k]);
	v->kfreed = 0;
	TRACE("put(\"%s\", v%d)", esc(pool[k]), v->id);
	if (cur[k]) {
		e = cur[k];
		expect_event(e, QB_MAP_NOTIFY_REPLACED, e->v->kcopy, e->v, v);
		e->v = v;
	} else {
		e = calloc(1, sizeof(*e));
		e->keyidx = k;
		e->v = v;
		e->next_all = all_ents;
		all_ents = e;
		if (impl == TR && ghost[k]) {
			/* the trie re-uses the node the iterators sit on */
			struct ent *g = ghost[k];
			expect_event(g, QB_MAP_NOTIFY_DELETED, g->v->kcopy, g->v, NULL);
			g->destroyed = 1;
			e->holders = g->holders;
			g->holders = 0;
			for (i = 0; i < MAXITER; i++) if (iters[i].used && iters[i].pos == g) iters[i].pos = e;
			ghost[k] = NULL;
		}
		cur[k] = e;
		mcount++;
		expect_event(e, QB_MAP_NOTIFY_INSERTED, v->kcopy, NULL, v);
	}
	touch(k);
	qb_map_put(m, v->kcopy, v);
	check_log("put", 0);
}

static void op_get(int k)
{
	void *r = qb_map_get(m, pool[k]);
	void *want = cur[k] ? cur[k]->v : NULL;
	if (r != want) {
		TRACE("get(\"%s\")", esc(pool[k]));
		FAIL("get(\"%s\") returned %s, model has %s", esc(pool[k]), vname(r), vname(want));
	}
}

static void op_rm(int k)
{
	int32_t r;
	struct ent *e = cur[k];
	TRACE("rm(\"%s\")%s", esc(pool[k]), e ? (e->holders ? " [present, iterator on it]" : " [present]") : " [absent]");
	if (e) {
		e->removed = 1;
		cur[k] = NULL;
		mcount--;
		if (e->holders == 0) {
			ent_destroy(e);
		} else if (impl == TR) {
			ghost[k] = e;
		}
		touch(k);
	}
	r = qb_map_rm(m, pool[k]);
	if (!!r != !!e) {
		FAIL("rm(\"%s\") returned %d, key was %s", esc(pool[k]), r, e ? "present" : "absent");
	}
	check_log("rm", 0);
}

static void op_count(void)
{
	size_t c = qb_map_count_get(m);
	if (c != mcount) {
		TRACE("count()");
		FAIL("count is %zu, model has %zu", c, mcount);
	}
}

/* sorted list of the present keys (with prefix) in model order */
static int model_list(int *out, const char *prefix)
{
	int n = 0, i, j;
	for (i = 0; i < npool; i++) {
		if (cur[i] && (!prefix || starts_with(pool[i], prefix))) out[n++] = i;
	}
	for (i = 1; i < n; i++) {
		int t = out[i];
		for (j = i; j > 0 && cmp_order(pool[out[j - 1]], pool[t]) > 0; j--) out[j] = out[j - 1];
		out[j] = t;
	}
	return n;
}

struct fe_state {
	int n;
	int got[MAXKEYS + 8];
	void *gotv[MAXKEYS + 8];
	int stop_after;		/* -1: never */
	int rm_current;
};

static int32_t fe_cb(const char *key, void *value, void *ud)
{
	struct fe_state *s = ud;
	int k = key_index(key);
	if (s->n < MAXKEYS + 8) {
		s->got[s->n] = k;
		s->gotv[s->n] = value;
		s->n++;
	}
	if (s->stop_after >= 0 && s->n > s->stop_after) return 1;
	return 0;
}

static void check_sequence(const char *what, struct fe_state *s, int *want, int nwant, int complete)
{
	int i, j;
	if (complete && s->n != nwant) {
		FAIL("%s yielded %d keys, %d present", what, s->n, nwant);
	}
	for (i = 0; i < s->n; i++) {
		int k = s->got[i];
		if (k < 0) { FAIL("%s yielded an unknown key", what); continue; }
		if (!cur[k]) { FAIL("%s yielded absent key \"%s\"", what, esc(pool[k])); continue; }
		if (s->gotv[i] != cur[k]->v) FAIL("%s yielded %s for \"%s\", model has %s", what,
						  vname(s->gotv[i]), esc(pool[k]), vname(cur[k]->v));
		for (j = 0; j < i; j++) if (s->got[j] == k) FAIL("%s yielded \"%s\" twice", what, esc(pool[k]));
		if (impl != HT) {
			if (i < nwant && want[i] != k) {
				FAIL("%s: position %d is \"%s\", expected \"%s\" (ascending order)", what, i,
				     esc(pool[k]), esc(pool[want[i]]));
				break;
			}
		}
	}
	if (impl == HT && complete) {
		for (j = 0; j < nwant; j++) {
			int f = 0;
			for (i = 0; i < s->n; i++) if (s->got[i] == want[j]) f = 1;
			if (!f) FAIL("%s missed \"%s\"", what, esc(pool[want[j]]));
		}
	}
}

static void op_foreach(int abandon)
{
	static struct fe_state s;
	int want[MAXKEYS];
	int nwant = model_list(want, NULL);
	s.n = 0;
	s.stop_after = -1;
	if (abandon && nwant > 0) s.stop_after = rn(nwant);
	if (impl == SL && (known & K_SL_ITERFREE)) s.stop_after = -1;
	TRACE("foreach(stop after %d) [%d present]", s.stop_after, nwant);
	/* the internal iterator sits on the entry it stops on and must let go of it */
	qb_map_foreach(m, fe_cb, &s);
	check_sequence("foreach", &s, want, nwant, s.stop_after < 0);
	if (s.stop_after >= 0 && s.n != s.stop_after + 1) FAIL("foreach went on after the callback returned non-zero");
	check_log("foreach", 0);
}

static int any_iter(void)
{
	int i;
	for (i = 0; i < MAXITER; i++) if (iters[i].used) return 1;
	return 0;
}

static char *random_prefix(void)
{
	char buf[700];
	int k = rn(npool);
	size_t l = strlen(pool[k]);
	size_t n;
	switch (rn(4)) {
	case 0: n = l; break;
	case 1: n = 1; break;
	default: n = 1 + rn(l); break;
	}
	memcpy(buf, pool[k], n);
	buf[n] = 0;
	if (rn(10) == 0 && n < 600) { buf[n] = "ab\x80z"[rn(4)]; buf[n + 1] = 0; }
	return strdup(buf);
}

static void op_iter_create(int slot)
{
	struct iter *it = &iters[slot];
	int i;
	memset(it, 0, sizeof(*it));
	it->used = 1;
	it->last = -1;
	if (impl == TR && rn(2)) {
		it->prefix = random_prefix();
		it->it = qb_map_pref_iter_create(m, it->prefix);
	} else {
		it->it = qb_map_iter_create(m);
	}
	for (i = 0; i < npool; i++) it->snapshot[i] = cur[i] != NULL;
	TRACE("it%d = iter_create(%s%s)", slot, it->prefix ? "prefix " : "", it->prefix ? esc(it->prefix) : "");
}

static void iter_finish_check(int slot)
{
	struct iter *it = &iters[slot];
	int i;
	for (i = 0; i < npool; i++) {
		if (it->touched[i]) continue;
		if (it->prefix && !starts_with(pool[i], it->prefix)) {
			if (it->yielded[i]) FAIL("it%d yielded \"%s\" outside prefix \"%s\"", slot, esc(pool[i]), esc(it->prefix));
			continue;
		}
		if (it->snapshot[i] && it->yielded[i] != 1) {
			FAIL("it%d (complete) yielded present key \"%s\" %d times", slot, esc(pool[i]), it->yielded[i]);
		}
		if (!it->snapshot[i] && it->yielded[i]) {
			FAIL("it%d yielded never-present key \"%s\"", slot, esc(pool[i]));
		}
	}
}

static void op_iter_next(int slot)
{
	struct iter *it = &iters[slot];
	void *value = NULL;
	const char *key;
	char *kc;
	int k;
	struct ent *old = it->pos;

	if (it->done) return;
	key = qb_map_iter_next(it->it, &value);
	kc = key ? strdup(key) : NULL;
	TRACE("it%d.next() -> %s", slot, kc ? esc(kc) : "END");
	it->started = 1;
	if (key == NULL) {
		it->done = 1;
		it->pos = NULL;
		ent_unhold(old);
		iter_finish_check(slot);
		check_log("iter_next(end)", 0);
		return;
	}
	k = key_index(kc);
	if (k < 0) {
		FAIL("it%d yielded unknown key \"%s\"", slot, esc(kc));
		free(kc);
		it->pos = NULL;
		ent_unhold(old);
		check_log("iter_next", 0);
		return;
	}
	if (!cur[k]) {
		if (impl == TR && (known & K_TR_PREFROOT) && ghost[k] && it->prefix) {
			/* tolerated: position on the ghost */
			ghost[k]->holders++;
			it->pos = ghost[k];
			ent_unhold(old);
			it->touched[k] = 1;
			free(kc);
			check_log("iter_next", 0);
			return;
		}
		FAIL("it%d yielded key \"%s\" which is not in the map", slot, esc(kc));
		it->pos = NULL;
	} else {
		if (value != cur[k]->v) {
			FAIL("it%d yielded %s for \"%s\", model has %s", slot, vname(value), esc(kc), vname(cur[k]->v));
		}
		cur[k]->holders++;
		it->pos = cur[k];
	}
	ent_unhold(old);
	if (it->prefix && !starts_with(kc, it->prefix)) {
		FAIL("it%d with prefix \"%s\" yielded \"%s\"", slot, esc(it->prefix), esc(kc));
	}
	if (impl != HT && it->last >= 0 && cmp_order(pool[it->last], kc) >= 0) {
		FAIL("it%d yielded \"%s\" after \"%s\": not ascending", slot, esc(kc), esc(pool[it->last]));
	}
	if (it->yielded[k] && !it->touched[k]) {
		FAIL("it%d yielded \"%s\" twice", slot, esc(kc));
	}
	it->yielded[k]++;
	it->last = k;
	free(kc);
	check_log("iter_next", 0);
}

static void op_iter_free(int slot)
{
	struct iter *it = &iters[slot];
	if (impl == SL && (known & K_SL_ITERFREE)) {
		/* drain first */
		while (!it->done) op_iter_next(slot);
	}
	TRACE("it%d.free()%s", slot, it->done ? "" : (it->started ? " [abandoned]" : " [never advanced]"));
	ent_unhold(it->pos);
	it->pos = NULL;
	qb_map_iter_free(it->it);
	free(it->prefix);
	it->used = 0;
	check_log("iter_free", 0);
}

static int pending_deferred(void)
{
	struct ent *e;
	for (e = all_ents; e; e = e->next_all) if (e->removed && !e->destroyed) return 1;
	return 0;
}

static const int ev_choices[] = {
	QB_MAP_NOTIFY_DELETED,
	QB_MAP_NOTIFY_REPLACED,
	QB_MAP_NOTIFY_INSERTED,
	QB_MAP_NOTIFY_DELETED | QB_MAP_NOTIFY_REPLACED,
	QB_MAP_NOTIFY_DELETED | QB_MAP_NOTIFY_REPLACED | QB_MAP_NOTIFY_INSERTED,
	QB_MAP_NOTIFY_DELETED | QB_MAP_NOTIFY_INSERTED,
};

static void op_notify_add(void)
{
	int i, slot = -1, r, want = 0;
	struct notif *n;
	if (pending_deferred()) return;
	for (i = 0; i < MAXNOTIF; i++) if (!notifs[i].active) { slot = i; break; }
	if (slot < 0) return;
	n = &notifs[slot];
	memset(n, 0, sizeof(*n));
	n->id = slot;
	n->fnno = rn(2);
	n->events = ev_choices[rn(6)];
	if (rn(3) == 0) {
		/* global */
		n->key = NULL;
		if (rn(3) == 0) {
			n->events = QB_MAP_NOTIFY_FREE;
			if (rn(2)) n->events |= QB_MAP_NOTIFY_DELETED | QB_MAP_NOTIFY_REPLACED;
			for (i = 0; i < MAXNOTIF; i++)
				if (notifs[i].active && !notifs[i].key && (notifs[i].events & QB_MAP_NOTIFY_FREE)) return;
		}
		n->events |= QB_MAP_NOTIFY_RECURSIVE;
	} else if (impl == TR) {
		n->key = random_prefix();
		if (rn(2)) n->events |= QB_MAP_NOTIFY_RECURSIVE;
	} else {
		int k = rn(npool);
		n->key = strdup(pool[k]);
		n->owner = cur[k];
		if (!cur[k]) want = -1;
	}
	TRACE("notify_add(n%d, key=%s, events=0x%x, fn%d)%s", slot, n->key ? esc(n->key) : "NULL", n->events, n->fnno,
	      want ? " [key absent]" : "");
	r = qb_map_notify_add(m, n->key, fns[n->fnno], n->events, n);
	if (want == 0 && r != 0) FAIL("notify_add returned %d", r);
	if (want != 0 && r >= 0) FAIL("notify_add on an absent key returned %d", r);
	if (r == 0 && want == 0) n->active = 1;
	else { free(n->key); n->key = NULL; }
	check_log("notify_add", 0);
}

static void op_notify_del(void)
{
	int slot = rn(MAXNOTIF), r;
	struct notif *n = &notifs[slot];
	if (pending_deferred()) return;
	if (!n->active) {
		/* delete something that does not exist */
		char *key = NULL;
		int events = ev_choices[rn(6)] | (rn(2) ? QB_MAP_NOTIFY_RECURSIVE : 0);
		int fnno = rn(2), i, hit = 0;
		if (rn(4)) key = (impl == TR) ? random_prefix() : strdup(pool[rn(npool)]);
		/* model: all notifiers on exactly that key with that fn and events go */
		for (i = 0; i < MAXNOTIF; i++) {
			struct notif *o = &notifs[i];
			if (!o->active || o->fnno != fnno || o->events != events) continue;
			if ((key == NULL) != (o->key == NULL)) continue;
			if (key && strcmp(key, o->key) != 0) continue;
			if (impl != TR && key && (o->owner == NULL || o->owner != cur[key_index(key)])) continue;
			hit = 1;
			o->active = 0;
			free(o->key);
			o->key = NULL;
		}
		TRACE("notify_del(key=%s, events=0x%x, fn%d) [%s]", key ? esc(key) : "NULL", events, fnno, hit ? "exists" : "none such");
		r = qb_map_notify_del(m, key, fns[fnno], events);
		if (hit && r != 0) FAIL("notify_del returned %d for an existing notifier", r);
		if (!hit && r == 0 && !(impl == TR && (known & K_TR_NDEL))) {
			FAIL("notify_del(key=%s, events=0x%x) returned 0 though no such notifier was added",
			     key ? esc(key) : "NULL", events);
		}
		if (!hit && r == 0 && impl == TR) {
			/* resync the model: which one went? we cannot know - stop the run */
			run_failed = run_failed ? run_failed : 2;
		}
		free(key);
		check_log("notify_del", 0);
		return;
	}
	TRACE("notify_del_2(n%d, key=%s, events=0x%x)", slot, n->key ? esc(n->key) : "NULL", n->events);
	r = qb_map_notify_del_2(m, n->key, fns[n->fnno], n->events, n);
	if (r != 0) FAIL("notify_del_2 returned %d for an existing notifier", r);
	n->active = 0;
	free(n->key);
	n->key = NULL;
	check_log("notify_del_2", 0);
}

/* ---------- key pools ---------- */
static void add_key(const char *s)
{
	if (npool >= MAXKEYS || s[0] == 0 || key_index(s) >= 0) return;
	pool[npool++] = strdup(s);
}

static void make_pool(int mode, int size)
{
	char buf[700];
	int i, l, tries = 0;
	static const char *alpha[] = {
		"ab", "abc", "abcdefghijklmnopqrstuvwxyz",
		"a\x80\xff", "ab\x7f\x01\x80\xfe\xff", "\x80\x81\xfe\xff",
		"az\xc3\xa9",
	};
	npool = 0;
	while (npool < size && tries++ < 100000) {
		const char *a;
		int al, maxlen;
		switch (mode) {
		case 0: a = alpha[0]; maxlen = 8; break;
		case 1: a = alpha[1]; maxlen = 5; break;
		case 2: a = alpha[2]; maxlen = 1; break;	/* single chars */
		case 3: a = alpha[3]; maxlen = 5; break;
		case 4: a = alpha[4]; maxlen = 4; break;
		case 5: a = alpha[5]; maxlen = 4; break;
		case 6: a = alpha[1]; maxlen = 600; break;	/* long keys */
		case 7: a = alpha[6]; maxlen = 6; break;
		default: a = alpha[2]; maxlen = 12; break;
		}
		al = strlen(a);
		if (mode == 6) {
			/* long keys sharing long prefixes */
			l = 1 + rn(maxlen);
			for (i = 0; i < l; i++) buf[i] = (i < l - 3) ? a[(i / 7) % al] : a[rn(al)];
			buf[l] = 0;
		} else if (mode == 8 && npool > 0 && rn(2)) {
			/* extend or truncate an existing key */
			strcpy(buf, pool[rn(npool)]);
			l = strlen(buf);
			if (rn(2) && l > 1) buf[1 + rn(l - 1)] = 0;
			else { buf[l] = a[rn(al)]; buf[l + 1] = 0; }
		} else {
			l = 1 + rn(maxlen);
			for (i = 0; i < l; i++) buf[i] = a[rn(al)];
			buf[l] = 0;
		}
		add_key(buf);
	}
}

static void free_pool(void)
{
	int i;
	for (i = 0; i < npool; i++) free(pool[i]);
	npool = 0;
}

/* ---------- one run ---------- */
static void one_run(uint64_t seed, int nops, int poolmode)
{
	int i, op;
	int w_put, w_rm, w_iter, w_notif, w_foreach;
	struct ent *e, *ne;
	static const size_t htsizes[] = { 0, 1, 2, 7, 8, 9, 15, 16, 17, 100, 1000, 65536 };

	rng_s = seed * 0x9E3779B97F4A7C15ull + 0x1234567;
	for (i = 0; i < 8; i++) rnd();
	srandom((unsigned)seed);
	run_failed = 0;
	ntrace = 0;
	nvals = 0;
	mcount = 0;
	all_ents = NULL;
	memset(cur, 0, sizeof(cur));
	memset(ghost, 0, sizeof(ghost));
	memset(notifs, 0, sizeof(notifs));
	memset(iters, 0, sizeof(iters));
	if (poolmode < 0) poolmode = rn(9);
	{
		static const int sizes[] = { 1, 2, 3, 5, 8, 16, 40, 100, 250 };
		make_pool(poolmode, sizes[rn(9)]);
	}
	switch (impl) {
	case HT: {
		size_t sz = htsizes[rn(12)];
		m = qb_hashtable_create(sz);
		TRACE("m = qb_hashtable_create(%zu)  [seed %llu pool mode %d size %d]", sz, (unsigned long long)seed, poolmode, npool);
		break;
	}
	case SL:
		m = qb_skiplist_create();
		TRACE("m = qb_skiplist_create()  [seed %llu pool mode %d size %d]", (unsigned long long)seed, poolmode, npool);
		break;
	default:
		m = qb_trie_create();
		TRACE("m = qb_trie_create()  [seed %llu pool mode %d size %d]", (unsigned long long)seed, poolmode, npool);
		break;
	}
	w_put = 10 + rn(40);
	w_rm = 5 + rn(40);
	w_iter = rn(3) ? rn(40) : 0;
	w_notif = rn(3) ? rn(10) : 0;
	w_foreach = 1 + rn(6);

	for (op = 0; op < nops && !run_failed; op++) {
		int tot = w_put + w_rm + 10 + 2 + w_foreach + w_iter + w_notif;
		int r = rn(tot);
		total_ops++;
		if ((r -= w_put) < 0) op_put(rn(npool));
		else if ((r -= w_rm) < 0) op_rm(rn(npool));
		else if ((r -= 10) < 0) op_get(rn(npool));
		else if ((r -= 2) < 0) op_count();
		else if ((r -= w_foreach) < 0) {
			/* a plain traversal is only comparable when nothing is pending */
			op_foreach(rn(2));
		} else if ((r -= w_iter) < 0) {
			int slot = rn(MAXITER);
			if (!iters[slot].used) op_iter_create(slot);
			else if (iters[slot].done || rn(12) == 0) op_iter_free(slot);
			else op_iter_next(slot);
		} else {
			if (rn(3)) op_notify_add(); else op_notify_del();
		}
		if (rn(50) == 0) {
			for (i = 0; i < npool; i++) op_get(i);
			op_count();
		}
	}
	/* wind up: iterators go first, then the map */
	for (i = 0; i < MAXITER && run_failed != 1; i++) {
		if (iters[i].used) {
			if (rn(2)) while (!iters[i].done && !run_failed) op_iter_next(i);
			op_iter_free(i);
		}
	}
	if (!run_failed) {
		for (i = 0; i < npool; i++) op_get(i);
		op_count();
		if (!any_iter()) op_foreach(0);
	}
	if (!run_failed) {
		TRACE("destroy() [%zu present]", mcount);
		for (i = 0; i < npool; i++) {
			if (cur[i]) {
				cur[i]->removed = 1;
				ent_destroy(cur[i]);
			}
		}
		qb_map_destroy(m);
		check_log("destroy", 1);
	} else {
		log_clear();
		/* the model is out of step: leak the map rather than destroy it */
	}
	for (i = 0; i < nvals; i++) if (!valpool[i].kfreed) { free(valpool[i].kcopy); valpool[i].kfreed = 1; }
	for (e = all_ents; e; e = ne) { ne = e->next_all; free(e); }
	for (i = 0; i < MAXNOTIF; i++) { free(notifs[i].key); notifs[i].key = NULL; }
	for (i = 0; i < MAXITER; i++) { if (iters[i].used) free(iters[i].prefix); }
	free_pool();
}

int main(int argc, char **argv)
{
	int c, runs = 200, nops = 2000, poolmode = -1, r;
	uint64_t seed = 1;
	int only = -1;
	while ((c = getopt(argc, argv, "i:s:r:n:k:p:vx")) != -1) {
		switch (c) {
		case 'i': only = !strcmp(optarg, "ht") ? HT : !strcmp(optarg, "sl") ? SL : TR; break;
		case 's': seed = strtoull(optarg, NULL, 0); break;
		case 'r': runs = atoi(optarg); break;
		case 'n': nops = atoi(optarg); break;
		case 'k': known = strtol(optarg, NULL, 0); break;
		case 'p': poolmode = atoi(optarg); break;
		case 'v': verbose = 1; break;
		case 'x': stop_first = 1; break;
		}
	}
	setvbuf(stdout, NULL, _IOLBF, 0);
	for (r = 0; r < runs; r++) {
		for (impl = HT; impl <= TR; impl++) {
			if (only >= 0 && impl != only) continue;
			one_run(seed * 1000003 + r, nops, poolmode);
		}
	}
	printf("done: %llu operations, %d failures\n", (unsigned long long)total_ops, failures);
	return failures ? 1 : 0;
}
