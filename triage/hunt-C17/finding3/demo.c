/* trie: iteration is not in ascending key order once a key contains a byte
 * >= 0x80: children are ordered by (signed char), so such bytes sort before
 * all ASCII bytes.  The skiplist (the other sorted map) orders by strcmp(). */
#include <stdio.h>
#include <string.h>
#include <qb/qbdefs.h>
#include <qb/qbmap.h>

static void show(const char *s)
{
	for (; *s; s++) {
		unsigned char c = *s;
		if (c >= 0x21 && c < 0x7f) putchar(c); else printf("\\x%02x", c);
	}
}

static int run(qb_map_t *m, const char *name)
{
	static const char *keys[] = { "a", "z", "\xc3\xa9", "a\x80", "ab", "\x80", "\xff", NULL };
	const char *k, *prev = NULL;
	char prevbuf[16];
	void *v;
	int i, bad = 0, n = 0;
	qb_map_iter_t *it;

	for (i = 0; keys[i]; i++) qb_map_put(m, keys[i], keys[i]);
	printf("%-9s:", name);
	it = qb_map_iter_create(m);
	while ((k = qb_map_iter_next(it, &v)) != NULL) {
		printf(" ");
		show(k);
		if (prev && strcmp(prev, k) >= 0) { printf("(!)"); bad = 1; }
		strcpy(prevbuf, k);
		prev = prevbuf;
		n++;
	}
	qb_map_iter_free(it);
	printf("%s\n", bad ? "   <-- not ascending (strcmp)" : "");
	if (n != 7) bad = 1;
	qb_map_destroy(m);
	return bad;
}

int main(void)
{
	int bad = 0;
	bad |= run(qb_skiplist_create(), "skiplist");
	bad |= run(qb_trie_create(), "trie");
	printf(bad ? "VIOLATED\n" : "held\n");
	return bad;
}
