/* trie: the empty string as a key makes trie_insert()/trie_lookup() step over
 * the string's terminator: the bytes BEHIND the terminator become part of the
 * key.  Two empty strings at different addresses are different keys, and with
 * a tightly allocated "" the read is out of bounds. */
#include <stdio.h>
#include <stdlib.h>
#include <string.h>
#include <qb/qbdefs.h>
#include <qb/qbmap.h>

static int run(qb_map_t *m, const char *name)
{
	/* both are the empty string; what follows the terminator differs */
	static const char e1[4] = { 0, 'Q', 0, 0 };
	static const char e2[4] = { 0, 'R', 0, 0 };
	int bad = 0;
	void *g1, *g2;
	int32_t rc;

	qb_map_put(m, e1, "E");
	g1 = qb_map_get(m, e1);
	g2 = qb_map_get(m, e2);
	printf("%-9s: put(\"\"); get(\"\") -> %s; get(another \"\") -> %s; count %zu",
	       name, g1 ? (char *)g1 : "(null)", g2 ? (char *)g2 : "(null)", qb_map_count_get(m));
	if (g1 == NULL || g2 == NULL) bad = 1;
	rc = qb_map_rm(m, e2);
	printf("; rm(another \"\") -> %d%s\n", rc, (bad || rc != QB_TRUE) ? "   <-- VIOLATION" : "");
	if (rc != QB_TRUE) bad = 1;
	qb_map_destroy(m);
	return bad;
}

static int run_tight(qb_map_t *m, const char *name)
{
	char *k = malloc(1);	/* exactly "": the sanitizer reports the overrun */
	int bad = 0;
	k[0] = 0;
	printf("%-9s: put(\"\") with a 1-byte buffer\n", name); fflush(stdout);
	qb_map_put(m, k, "E");
	if (qb_map_get(m, k) == NULL) bad = 1;
	qb_map_destroy(m);
	free(k);
	return bad;
}

int main(void)
{
	int bad = 0;
	bad |= run(qb_hashtable_create(16), "hashtable");
	bad |= run(qb_skiplist_create(), "skiplist");
	bad |= run(qb_trie_create(), "trie");
	if (!bad) {
		bad |= run_tight(qb_hashtable_create(16), "hashtable");
		bad |= run_tight(qb_skiplist_create(), "skiplist");
		bad |= run_tight(qb_trie_create(), "trie");
	}
	printf(bad ? "VIOLATED\n" : "held\n");
	return bad;
}
