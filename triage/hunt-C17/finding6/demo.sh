#!/bin/sh
# usage: demo.sh <tree>   exit 0 = property held, non-zero = violated
T=${1:-/repo}
D=$(cd "$(dirname "$0")" && pwd)
B=$(mktemp -d /tmp/hunt-C17-demo.XXXXXX)
gcc -g -O1 -fsanitize=address,undefined -fno-omit-frame-pointer -DHAVE_CONFIG_H \
  -I$T/include -I$T/include/qb -I$T/lib \
  -o $B/demo $D/demo.c $T/lib/map.c $T/lib/hashtable.c $T/lib/skiplist.c $T/lib/trie.c \
  -L$T/lib/.libs -lqb || { rm -rf $B; exit 99; }
LD_LIBRARY_PATH=$T/lib/.libs ASAN_OPTIONS=detect_leaks=0 $B/demo
rc=$?
rm -rf $B
exit $rc
