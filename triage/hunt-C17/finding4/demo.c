/* trie: a prefix iterator yields a key that has been removed, when the
 * removed entry is still held by another iterator and is the node the prefix
 * leads to. */
#include <stdio.h>
#include <string.h>
#include <qb/qbdefs.h>
#include <qb/qbmap.h>

int main(void)
{
	qb_map_t *m = qb_trie_create();
	qb_map_iter_t *it1, *it2;
	const char *k;
	void *v;
	int bad = 0, n = 0;

	qb_map_put(m, "ab", "AB");
	qb_map_put(m, "abc", "ABC");
	it1 = qb_map_iter_create(m);
	k = qb_map_iter_next(it1, &v);			/* it1 sits on "ab" */
	printf("it1.next() -> %s\n", k);
	printf("rm(ab) -> %d\n", qb_map_rm(m, "ab"));	/* supported: removal under an iterator */
	printf("get(ab) -> %p, count -> %zu\n", qb_map_get(m, "ab"), qb_map_count_get(m));

	it2 = qb_map_pref_iter_create(m, "ab");
	while ((k = qb_map_iter_next(it2, &v)) != NULL) {
		int present = qb_map_get(m, k) != NULL;
		printf("prefix iterator \"ab\" yields %s (value %s)%s\n", k, (char *)v,
		       present ? "" : "   <-- not in the map");
		if (!present) bad = 1;
		n++;
	}
	qb_map_iter_free(it2);
	if (n != (int)qb_map_count_get(m)) {
		printf("prefix iterator yielded %d keys, count is %zu\n", n, qb_map_count_get(m));
		bad = 1;
	}
	/* for comparison: a full iterator does skip it */
	it2 = qb_map_iter_create(m);
	while ((k = qb_map_iter_next(it2, &v)) != NULL) printf("full iterator yields %s\n", k);
	qb_map_iter_free(it2);
	qb_map_iter_free(it1);
	qb_map_destroy(m);
	printf(bad ? "VIOLATED\n" : "held\n");
	return bad;
}
