/* trie: qb_map_notify_del() with a key that was never given a notifier, but
 * that ends inside the compressed segment of a longer key's node, deletes the
 * notifier registered for the longer key (and returns 0 instead of -ENOENT).
 * From then on the registered notifier is not called any more. */
#include <stdio.h>
#include <string.h>
#include <errno.h>
#include <qb/qbdefs.h>
#include <qb/qbmap.h>

static int calls;

static void cb(uint32_t event, char *key, void *old, void *value, void *ud)
{
	calls++;
}

static int run(qb_map_t *m, const char *name)
{
	int32_t rc;
	int bad = 0;
	const int ev = QB_MAP_NOTIFY_DELETED | QB_MAP_NOTIFY_REPLACED;

	calls = 0;
	qb_map_put(m, "abcd", "1");
	rc = qb_map_notify_add(m, "abcd", cb, ev, NULL);
	printf("%-9s: notify_add(abcd) -> %d", name, rc);
	/* no notifier was ever added for "ab" (nor is "ab" a key) */
	rc = qb_map_notify_del(m, "ab", cb, ev);
	printf("; notify_del(ab) -> %d (expected %d)", rc, -ENOENT);
	if (rc == 0) bad = 1;
	qb_map_put(m, "abcd", "2");	/* REPLACED */
	qb_map_rm(m, "abcd");		/* DELETED */
	printf("; notifier on abcd called %d times for replace+delete (expected 2)%s\n", calls,
	       calls != 2 ? "   <-- VIOLATION" : "");
	if (calls != 2) bad = 1;
	qb_map_destroy(m);
	return bad;
}

int main(void)
{
	int bad = 0;
	bad |= run(qb_hashtable_create(16), "hashtable");
	bad |= run(qb_skiplist_create(), "skiplist");
	bad |= run(qb_trie_create(), "trie");
	printf(bad ? "VIOLATED\n" : "held\n");
	return bad;
}
