/* skiplist: qb_map_destroy() "deletes" the key-less header node and calls the
 * map-wide notifiers for it: DELETED twice and FREE once, all with key NULL
 * and old value NULL, for an entry that never existed. */
#include <stdio.h>
#include <string.h>
#include <qb/qbdefs.h>
#include <qb/qbmap.h>

static int n_deleted, n_free, n_null_deleted, n_null_free;

static void cb(uint32_t event, char *key, void *old, void *value, void *ud)
{
	printf("    callback: %s key=%s old=%s\n",
	       event == QB_MAP_NOTIFY_DELETED ? "DELETED" : event == QB_MAP_NOTIFY_FREE ? "FREE" : "other",
	       key ? key : "(null)", old ? (char *)old : "(null)");
	if (event == QB_MAP_NOTIFY_DELETED) { n_deleted++; if (!key) n_null_deleted++; }
	if (event == QB_MAP_NOTIFY_FREE) { n_free++; if (!key) n_null_free++; }
}

static int run(qb_map_t *m, const char *name, int nkeys)
{
	int bad;
	n_deleted = n_free = n_null_deleted = n_null_free = 0;
	qb_map_notify_add(m, NULL, cb, QB_MAP_NOTIFY_DELETED | QB_MAP_NOTIFY_RECURSIVE, NULL);
	qb_map_notify_add(m, NULL, cb, QB_MAP_NOTIFY_FREE, NULL);
	if (nkeys) qb_map_put(m, "a", "A");
	printf("%s, %d entr%s, destroy:\n", name, nkeys, nkeys == 1 ? "y" : "ies");
	qb_map_destroy(m);
	bad = (n_deleted != nkeys || n_free != nkeys);
	printf("  -> DELETED x%d (key NULL: %d), FREE x%d (key NULL: %d); expected %d each%s\n",
	       n_deleted, n_null_deleted, n_free, n_null_free, nkeys, bad ? "   <-- VIOLATION" : "");
	return bad;
}

int main(void)
{
	int bad = 0;
	bad |= run(qb_hashtable_create(16), "hashtable", 1);
	bad |= run(qb_trie_create(), "trie", 1);
	bad |= run(qb_skiplist_create(), "skiplist", 1);
	bad |= run(qb_skiplist_create(), "skiplist", 0);
	printf(bad ? "VIOLATED\n" : "held\n");
	return bad;
}
