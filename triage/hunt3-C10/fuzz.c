/*
 * C10 model-based randomized tester: weak priorities, no starvation.
 *
 * Compiles lib/loop*.c into the program, wraps the source function
 * pointers (fd_source->poll marks iteration boundaries, every source's
 * dispatch_and_take_back counts dispatches per level) and checks:
 *
 *  W3   in any 3 consecutive iterations a level whose job_head was non-empty
 *       at each of the three dispatch phases dispatched >= 1 item
 *  HI   in an iteration where a lower level dispatched, every higher level
 *       that had queued work dispatched too
 *  ITEM every model item (job / zero-delay timer / always-ready fd) is
 *       dispatched within 3*(live items when it became pending + 2) iterations
 *  SLP  the loop never asks the fd source to block (timeout -1 or > 50ms)
 *       while some job_head is non-empty
 *
 * usage: fuzz <seed> <iterations> <mode> [nfd_max]
 *   mode bit0: allow deletes/mods, bit1: allow stop+rerun, bit2: heavy HIGH load,
 *        bit3: many fds, bit4: delayed timers too,
 *        bit5: jobs only, bit6: zero-delay timers only, bit7: fds only
 */
#include "os_base.h"
#include <sys/eventfd.h>
#include <qb/qbdefs.h>
#include <qb/qblist.h>
#include <qb/qbloop.h>
#include "loop_int.h"

#define MAXITEMS 8192
enum kind { K_FREE, K_JOB, K_TIMER0, K_TIMERD, K_FD };
enum st { S_DEAD, S_PENDING };

struct mitem {
	enum kind kind;
	enum st st;
	int prio;
	long enq_iter;
	long bound;
	int fd;
	int events;
	qb_loop_timer_handle th;
	int id;
};

static struct mitem items[MAXITEMS];
static int live_total;
static int live_lvl[3];
static int live_fd;
static qb_loop_t *L;
static long iter;
static long iter_limit;
static int mode;
static int nfd_max = 8;
static int violations;
static long w3_skipped;
static long dispatched_total;
static long ops_total;
static unsigned long long rng;

static int nonempty_hist[3][3];	/* [age][level] */
static int disp_hist[3][3];
static int cur_nonempty[3];
static int cur_disp[3];
static int stop_in_iter[3];
static int cur_stop;
static int cur_del[3];
static int del_hist[3][3];

static int32_t (*orig_fd_poll)(struct qb_loop_source *, int32_t);
static void (*orig_disp[4])(struct qb_loop_item *, enum qb_loop_priority);

static unsigned rnd(void)
{
	rng ^= rng << 13; rng ^= rng >> 7; rng ^= rng << 17;
	return (unsigned)(rng >> 11);
}
static int rn(int n) { return n <= 0 ? 0 : (int)(rnd() % (unsigned)n); }

static void viol(const char *what, const char *fmt, ...)
{
	va_list ap;
	violations++;
	if (violations > 20) return;
	fprintf(stderr, "VIOLATION[%s] iter=%ld: ", what, iter);
	va_start(ap, fmt); vfprintf(stderr, fmt, ap); va_end(ap);
	fputc('\n', stderr);
}

static int pick_prio(void)
{
	if (mode & 4) {
		int r = rn(100);
		return r < 90 ? QB_LOOP_HIGH : (r < 97 ? QB_LOOP_MED : QB_LOOP_LOW);
	}
	return rn(3);
}

static struct mitem *alloc_item(enum kind k, int prio)
{
	static int next;
	int i;
	for (i = 0; i < MAXITEMS; i++) {
		struct mitem *it = &items[(next + i) % MAXITEMS];
		if (it->kind == K_FREE) {
			next = (next + i + 1) % MAXITEMS;
			memset(it, 0, sizeof(*it));
			it->kind = k; it->prio = prio; it->st = S_PENDING;
			it->id = (int)(it - items);
			it->enq_iter = iter;
			it->fd = -1;
			live_total++; live_lvl[prio]++;
			it->bound = 3L * (live_total + 2);
			return it;
		}
	}
	return NULL;
}
static int in_delete;
static void kill_item(struct mitem *it)
{
	if (in_delete) cur_del[it->prio]++;
	live_total--; live_lvl[it->prio]--;
	it->st = S_DEAD; it->kind = K_FREE;
}

static void act(struct mitem *self, int budget);
static void add_any(int p);
static void job_cb(void *data);
static void timer_cb(void *data);
static int32_t fd_cb(int32_t fd, int32_t revents, void *data);

static void check_latency(struct mitem *it, const char *what)
{
	long lat = iter - it->enq_iter;
	if (lat > it->bound) {
		viol("ITEM", "%s id=%d prio=%d waited %ld iterations (bound %ld)",
		     what, it->id, it->prio, lat, it->bound);
	}
}

static void add_job(int prio)
{
	struct mitem *it = alloc_item(K_JOB, prio);
	if (!it) return;
	ops_total++;
	if (qb_loop_job_add(L, prio, it, job_cb) != 0) { kill_item(it); }
}
static void add_timer(int prio, int delayed)
{
	struct mitem *it = alloc_item(delayed ? K_TIMERD : K_TIMER0, prio);
	if (!it) return;
	ops_total++;
	if (qb_loop_timer_add(L, prio, delayed ? (uint64_t)(1 + rn(3000)) * 1000ULL : 0,
			      it, timer_cb, &it->th) != 0) { kill_item(it); }
}
static void add_fd(int prio)
{
	struct mitem *it;
	int fd;
	if (live_fd >= nfd_max) return;
	it = alloc_item(K_FD, prio);
	if (!it) return;
	ops_total++;
	fd = eventfd(1, EFD_NONBLOCK | EFD_CLOEXEC);
	if (fd < 0) { kill_item(it); return; }
	it->fd = fd;
	it->events = (rn(3) == 0) ? POLLOUT : ((rn(2) == 0) ? POLLIN : (POLLIN | POLLOUT));
	if (qb_loop_poll_add(L, prio, fd, it->events, it, fd_cb) != 0) {
		close(fd); kill_item(it); return;
	}
	live_fd++;
}
static void del_fd(struct mitem *it)
{
	ops_total++;
	(void)qb_loop_poll_del(L, it->fd);
	close(it->fd);
	live_fd--;
	in_delete = 1; kill_item(it); in_delete = 0;
}

static struct mitem *pick_live(enum kind k)
{
	int i, start = rn(MAXITEMS);
	for (i = 0; i < 256; i++) {
		struct mitem *it = &items[(start + i) % MAXITEMS];
		if (it->kind == k && it->st == S_PENDING) return it;
	}
	return NULL;
}

static void act(struct mitem *self, int budget)
{
	int n = rn(budget + 1);
	int cap = (mode & 4) ? 120 : 40;
	while (n-- > 0) {
		int r = rn(100);
		struct mitem *o;
		if ((mode & (32|64|128)) && r < 65) {
			if (live_total < cap) add_any(pick_prio());
		} else if (r < 30) {
			if (live_total < cap) add_job(pick_prio());
		} else if (r < 50) {
			if (live_total < cap) add_timer(pick_prio(), 0);
		} else if (r < 55) {
			if ((mode & 16) && live_total < cap) add_timer(pick_prio(), 1);
		} else if (r < 65) {
			add_fd(pick_prio());
		} else if (r < 72 && (mode & 1)) {
			o = pick_live(K_FD);
			if (o && o != self) del_fd(o);
		} else if (r < 80 && (mode & 1)) {
			o = pick_live(K_FD);
			if (o) {
				int np = rn(3);
				int ev = (rn(3) == 0) ? POLLOUT : ((rn(2) == 0) ? POLLIN : (POLLIN | POLLOUT));
				ops_total++;
				if (qb_loop_poll_mod(L, np, o->fd, ev, o, fd_cb) == 0) {
					cur_del[o->prio]++; live_lvl[o->prio]--; o->prio = np; live_lvl[np]++;
					o->events = ev;
					/* worst case it is queued at its old level: restart its clock */
					o->enq_iter = iter; o->bound = 3L * (live_total + 2);
				}
			}
		} else if (r < 86 && (mode & 1)) {
			o = pick_live(K_JOB);
			if (o && o != self) {
				ops_total++;
				if (qb_loop_job_del(L, o->prio, o, job_cb) == 0) { in_delete = 1; kill_item(o); in_delete = 0; }
				else viol("API", "job_del of pending job id=%d failed", o->id);
			}
		} else if (r < 92 && (mode & 1)) {
			o = pick_live(rn(2) ? K_TIMER0 : K_TIMERD);
			if (o && o != self) {
				ops_total++;
				if (qb_loop_timer_del(L, o->th) == 0) { in_delete = 1; kill_item(o); in_delete = 0; }
				else viol("API", "timer_del of pending timer id=%d failed", o->id);
			}
		} else if (r < 94 && (mode & 2)) {
			qb_loop_stop(L);
			cur_stop = 1;
		}
	}
}

static void add_any(int p)
{
	int k = rn(3);
	if (mode & 32) k = 0;
	if (mode & 64) k = 1;
	if (mode & 128) k = 2;
	switch (k) {
	case 0: add_job(p); break;
	case 1: add_timer(p, 0); break;
	default: if (live_fd < nfd_max) add_fd(p); else if (mode & 128) ; else add_job(p); break;
	}
}

static void refill(void)
{
	/* keep every level populated so that starvation is observable */
	int p;
	for (p = 0; p < 3; p++) {
		if (live_lvl[p] == 0) {
			add_any(p);
		}
	}
}

static void job_cb(void *data)
{
	struct mitem *it = data;
	int prio;
	dispatched_total++;
	if (it->kind != K_JOB || it->st != S_PENDING) {
		viol("MODEL", "job id=%d dispatched but not pending in model", it->id);
		return;
	}
	check_latency(it, "job");
	prio = it->prio;
	kill_item(it);
	if (rn(100) < 80) add_job(prio);	/* self re-adding */
	else if (mode & 32) add_job(pick_prio());
	act(NULL, 2);
	refill();
}
static void timer_cb(void *data)
{
	struct mitem *it = data;
	int prio, d;
	dispatched_total++;
	if ((it->kind != K_TIMER0 && it->kind != K_TIMERD) || it->st != S_PENDING) {
		viol("MODEL", "timer id=%d dispatched but not pending in model", it->id);
		return;
	}
	if (it->kind == K_TIMER0) check_latency(it, "timer0");
	prio = it->prio; d = it->kind == K_TIMERD;
	kill_item(it);
	if (rn(100) < 80) add_timer(prio, d);
	act(NULL, 2);
	refill();
}
static int32_t fd_cb(int32_t fd, int32_t revents, void *data)
{
	struct mitem *it = data;
	dispatched_total++;
	if (it->kind != K_FD || it->st != S_PENDING || it->fd != fd) {
		viol("MODEL", "fd %d id=%d dispatched but not live in model", fd, it->id);
		return 0;
	}
	if ((revents & it->events) == 0) {
		/* poll_mod changed events while queued: tolerated */
	}
	check_latency(it, "fd");
	it->enq_iter = iter;
	it->bound = 3L * (live_total + 2);
	act(it, 2);
	if (it->st == S_PENDING && (mode & 1) && rn(100) < 3) {
		/* close and register the same number again from inside the callback */
		struct mitem *n;
		int prio = pick_prio(), nfd;
		close(fd);
		live_fd--;
		in_delete = 1; kill_item(it); in_delete = 0;
		n = alloc_item(K_FD, prio);
		nfd = eventfd(1, EFD_NONBLOCK | EFD_CLOEXEC);
		ops_total++;
		if (nfd != fd) {
			/* not the same number: the old registration has to be dropped by hand */
			(void)qb_loop_poll_del(L, fd);
		}
		if (n && nfd >= 0) {
			n->fd = nfd; n->events = POLLIN;
			if (qb_loop_poll_add(L, prio, nfd, POLLIN, n, fd_cb) != 0) {
				viol("API", "re-registering fd %d (was %d) from its callback failed", nfd, fd);
				close(nfd); kill_item(n);
			} else live_fd++;
		} else { if (n) kill_item(n); if (nfd >= 0) close(nfd); }
		refill();
		return rn(2) ? 0 : -1;
	}
	if (it->st == S_PENDING && (mode & 1) && rn(100) < 3) {
		/* take me out */
		close(fd);
		live_fd--;
		kill_item(it);
		refill();
		return -1;
	}
	if (it->st == S_PENDING && (mode & 1) && rn(100) < 3) {
		del_fd(it);
	}
	refill();
	return 0;
}

static void end_iteration(void)
{
	int p, q, a;
	/* shift history: [0] oldest */
	for (a = 0; a < 2; a++) {
		for (p = 0; p < 3; p++) {
			nonempty_hist[a][p] = nonempty_hist[a + 1][p];
			disp_hist[a][p] = disp_hist[a + 1][p];
		}
		stop_in_iter[a] = stop_in_iter[a + 1];
		for (p = 0; p < 3; p++) del_hist[a][p] = del_hist[a + 1][p];
	}
	for (p = 0; p < 3; p++) {
		nonempty_hist[2][p] = cur_nonempty[p];
		disp_hist[2][p] = cur_disp[p];
	}
	stop_in_iter[2] = cur_stop;
	for (p = 0; p < 3; p++) del_hist[2][p] = cur_del[p];
	if (iter >= 3) {
		for (p = 0; p < 3; p++) {
			if (nonempty_hist[0][p] && nonempty_hist[1][p] && nonempty_hist[2][p] &&
			    disp_hist[0][p] + disp_hist[1][p] + disp_hist[2][p] == 0) {
				if (del_hist[0][p] + del_hist[1][p] + del_hist[2][p] > 0) {
					/* queued items were removed by callbacks, the level may have been
					 * emptied and refilled between snapshots: not conclusive */
					w3_skipped++;
					continue;
				}
				viol("W3", "level %d had queued work in iterations %ld..%ld and dispatched nothing%s",
				     p, iter - 2, iter,
				     (stop_in_iter[0] | stop_in_iter[1] | stop_in_iter[2]) ? " (stop+rerun inside window)" : "");
			}
		}
	}
	if (!cur_stop) {
		for (q = 0; q < 3; q++) {
			for (p = q + 1; p < 3; p++) {
				if (cur_disp[q] > 0 && cur_nonempty[p] && cur_disp[p] == 0 && cur_del[p] == 0) {
					viol("HI", "level %d dispatched %d but higher level %d with queued work dispatched 0",
					     q, cur_disp[q], p);
				}
			}
		}
	}
	for (p = 0; p < 3; p++) {
		if (cur_disp[p] > 4) {
			viol("BATCH", "level %d dispatched %d (>4) in one iteration", p, cur_disp[p]);
		}
	}
}

static int32_t my_fd_poll(struct qb_loop_source *s, int32_t ms_timeout)
{
	int32_t rc;
	int p, any = 0;

	if (iter > 0) end_iteration();
	iter++;
	for (p = 0; p < 3; p++) { cur_disp[p] = 0; cur_del[p] = 0; }
	cur_stop = 0;

	for (p = 0; p < 3; p++) any |= !qb_list_empty(&L->level[p].job_head);
	if (any && (ms_timeout < 0 || ms_timeout > 50)) {
		viol("SLP", "fd poll asked to wait %d ms with queued work", ms_timeout);
	}
	if (ms_timeout < 0 || ms_timeout > 1) ms_timeout = 1;
	rc = orig_fd_poll(s, ms_timeout);
	for (p = 0; p < 3; p++) cur_nonempty[p] = !qb_list_empty(&L->level[p].job_head);
	if (iter >= iter_limit) qb_loop_stop(L);
	return rc;
}

#define DISP_WRAP(n) \
static void my_disp##n(struct qb_loop_item *i, enum qb_loop_priority p) \
{ cur_disp[p]++; orig_disp[n](i, p); }
DISP_WRAP(0) DISP_WRAP(1) DISP_WRAP(2) DISP_WRAP(3)

int main(int argc, char **argv)
{
	unsigned long seed = argc > 1 ? strtoul(argv[1], NULL, 0) : 1;
	int i, p;
	iter_limit = argc > 2 ? atol(argv[2]) : 3000;
	mode = argc > 3 ? atoi(argv[3]) : 0;
	if (argc > 4) nfd_max = atoi(argv[4]);
	else if (mode & 8) nfd_max = 60;
	rng = seed * 0x9E3779B97F4A7C15ULL + 0x1234567ULL;
	for (i = 0; i < 10; i++) rnd();

	L = qb_loop_create();
	orig_fd_poll = L->fd_source->poll; L->fd_source->poll = my_fd_poll;
	orig_disp[0] = L->job_source->dispatch_and_take_back;   L->job_source->dispatch_and_take_back = my_disp0;
	orig_disp[1] = L->timer_source->dispatch_and_take_back; L->timer_source->dispatch_and_take_back = my_disp1;
	orig_disp[2] = L->fd_source->dispatch_and_take_back;    L->fd_source->dispatch_and_take_back = my_disp2;
	orig_disp[3] = L->signal_source->dispatch_and_take_back; L->signal_source->dispatch_and_take_back = my_disp3;

	/* initial population */
	for (p = 0; p < 3; p++) {
		int n = 1 + rn(4);
		while (n--) {
			add_any(p);
		}
	}
	if (mode & 8) {
		int n = nfd_max - 3;
		while (n-- > 0) add_fd(pick_prio());
	}
	refill();

	while (iter < iter_limit) {
		qb_loop_run(L);
	}
	/* leftover check: nothing may be pending for longer than its bound */
	for (i = 0; i < MAXITEMS; i++) {
		struct mitem *it = &items[i];
		if (it->kind != K_FREE && it->kind != K_TIMERD && it->st == S_PENDING) {
			if (iter - it->enq_iter > it->bound) {
				viol("LOST", "item id=%d kind=%d prio=%d pending since %ld, never dispatched (now %ld)",
				     it->id, it->kind, it->prio, it->enq_iter, iter);
			}
		}
	}
	printf("seed=%lu mode=%d iters=%ld dispatched=%ld ops=%ld live=%d fds=%d w3skipped=%ld violations=%d\n",
	       seed, mode, iter, dispatched_total, ops_total, live_total, live_fd, w3_skipped, violations);
	return violations ? 1 : 0;
}
