#!/bin/sh
# usage: build.sh [tree]   (default /repo)
T=${1:-/repo}
cd "$(dirname "$0")"
gcc -g -O1 -fsanitize=address,undefined -fno-omit-frame-pointer -DHAVE_CONFIG_H \
  -I$T/include -I$T/include/qb -I$T/lib \
  fuzz.c $T/lib/loop.c $T/lib/loop_job.c $T/lib/loop_poll.c $T/lib/loop_poll_epoll.c $T/lib/loop_timerlist.c \
  -L$T/lib/.libs -lqb -lpthread -o fuzz
