/*
 * Copyright (C) 2010 Red Hat, Inc.
 *
 * Author: Angus Salkeld <asalkeld@redhat.com>
 *
 * This file is part of libqb.
 *
 * libqb is free software: you can redistribute it and/or modify
 * it under the terms of the GNU Lesser General Public License as published by
 * the Free Software Foundation, either version 2.1 of the License, or
 * (at your option) any later version.
 *
 * libqb is distributed in the hope that it will be useful,
 * but WITHOUT ANY WARRANTY; without even the implied warranty of
 * MERCHANTABILITY or FITNESS FOR A PARTICULAR PURPOSE.  See the
 * GNU Lesser General Public License for more details.
 *
 * You should have received a copy of the GNU Lesser General Public License
 * along with libqb.  If not, see <http://www.gnu.org/licenses/>.
 */
#include "os_base.h"

#include <qb/qbdefs.h>
#include <qb/qblist.h>
#include <qb/qbloop.h>
#include "loop_int.h"
#include "util_int.h"

static struct qb_loop *default_instance = NULL;

static void
qb_loop_run_level(struct qb_loop_level *level)
{
	struct qb_loop_item *job;
	int32_t processed = 0;

Ill_have_another:

	if (!qb_list_empty(&level->job_head)) {
		job = qb_list_first_entry(&level->job_head, struct qb_loop_item, list);
		qb_list_del(&job->list);
		qb_list_init(&job->list);
		job->source->dispatch_and_take_back(job, level->priority);
		level->todo--;
		processed++;
		if (level->l->stop_requested) {
			return;
		}
		if (processed < level->to_process) {
			goto Ill_have_another;
		}
	}
}

void
qb_loop_level_item_add(struct qb_loop_level *level, struct qb_loop_item *job)
{
	qb_list_init(&job->list);
	qb_list_add_tail(&job->list, &level->job_head);
	level->todo++;
}

void
qb_loop_level_item_del(struct qb_loop_level *level, struct qb_loop_item *job)
{
	/*
	 * We may be deleted during dispatch... don't double-decrement todo.
	 */
	if (qb_list_empty(&job->list)) {
		return;
	}
	qb_list_del(&job->list);
	qb_list_init(&job->list);
	level->todo--;
}

struct qb_loop *
qb_loop_default_get(void)
{
	return default_instance;
}

struct qb_loop *
qb_loop_create(void)
{
	struct qb_loop *l = malloc(sizeof(struct qb_loop));
	int32_t p;

	if (l == NULL) {
		return NULL;
	}
	for (p = QB_LOOP_LOW; p <= QB_LOOP_HIGH; p++) {
		l->level[p].priority = p;
		l->level[p].to_process = 4;
		l->level[p].todo = 0;
		l->level[p].l = l;

		qb_list_init(&l->level[p].job_head);
		qb_list_init(&l->level[p].wait_head);
	}

	l->stop_requested = QB_FALSE;
	l->timer_source = qb_loop_timer_create(l);
	l->job_source = qb_loop_jobs_create(l);
	l->fd_source = qb_loop_poll_create(l);
	l->signal_source = qb_loop_signals_create(l);

	if (default_instance == NULL) {
		default_instance = l;
	}
	return l;
}

void
qb_loop_destroy(struct qb_loop *l)
{
	qb_loop_timer_destroy(l);
	qb_loop_jobs_destroy(l);
	qb_loop_poll_destroy(l);
	qb_loop_signals_destroy(l);

	if (default_instance == l) {
		default_instance = NULL;
	}
	free(l);
}

void
qb_loop_stop(struct qb_loop *l)
{
	struct qb_loop *apply_loop = (l != NULL) ? l : default_instance;
	if (apply_loop != NULL) {
		apply_loop->stop_requested = QB_TRUE;
	} else {
		qb_util_log(LOG_CRIT, "API misuse: cannot stop nonexisting loop");
	}
}

void
qb_loop_run(struct qb_loop *lp)
{
	int32_t p;
	static int32_t p_stop = QB_LOOP_LOW;
	static int32_t resume_from = -1;
	int32_t start = QB_LOOP_HIGH;
	int32_t rc;
	int32_t remaining_todo = 0;
	int32_t job_todo;
	int32_t timer_todo;
	int32_t ms_timeout;
	struct qb_loop *l = lp;

	if (l == NULL) {
		l = default_instance;
	}
	l->stop_requested = QB_FALSE;

	/*
	 * Work that was queued for dispatch when a previous run was stopped
	 * is still there: do not go to sleep on it.
	 */
	for (p = QB_LOOP_HIGH; p >= QB_LOOP_LOW; p--) {
		remaining_todo += l->level[p].todo;
	}

	if (resume_from >= 0) {
		start = resume_from;
		goto run_levels;
	}
	do {
		if (p_stop == QB_LOOP_LOW) {
			p_stop = QB_LOOP_HIGH;
		} else {
			p_stop--;
		}

		job_todo = 0;
		if (l->job_source && l->job_source->poll) {
			rc = l->job_source->poll(l->job_source, 0);
			if (rc > 0) {
				job_todo = rc;
			} else if (rc == -1) {
				errno = -rc;
				qb_util_perror(LOG_WARNING, "job->poll");
			}
		}
		timer_todo = 0;
		if (l->timer_source && l->timer_source->poll) {
			rc = l->timer_source->poll(l->timer_source, 0);
			if (rc > 0) {
				timer_todo = rc;
			} else if (rc == -1) {
				errno = -rc;
				qb_util_perror(LOG_WARNING, "timer->poll");
			}
		}
		if (remaining_todo > 0 || timer_todo > 0) {
			/*
			 * if there are remaining todos or timer todos then don't wait.
			 */
			ms_timeout = 0;
		} else if (job_todo > 0) {
			/*
			 * if we only have jobs to do (not timers or old todos)
			 * then set a non-zero timeout. Jobs can spin out of
			 * control if someone keeps adding them.
			 */
			ms_timeout = 50;
		} else {
			if (l->timer_source) {
				ms_timeout = qb_loop_timer_msec_duration_to_expire(l->timer_source);
			} else {
				ms_timeout = -1;
			}
		}
		rc = l->fd_source->poll(l->fd_source, ms_timeout);
		if (rc < 0) {
			errno = -rc;
			qb_util_perror(LOG_WARNING, "fd->poll");
		}

run_levels:
		remaining_todo = 0;
		for (p = QB_LOOP_HIGH; p >= QB_LOOP_LOW; p--) {
			if (p >= p_stop && p <= start) {
				qb_loop_run_level(&l->level[p]);
				if (l->stop_requested) {
					resume_from = p - 1;
					return;
				}
			}
			remaining_todo += l->level[p].todo;
		}
		resume_from = -1;
		start = QB_LOOP_HIGH;
	} while (!l->stop_requested);
}
