#include <stdio.h>
#include <qb/qbdefs.h>
#include <qb/qbloop.h>
static qb_loop_t *l;
static void tcb(void *d) { printf("timer cb\n"); qb_loop_stop(l); }
static void jcb(void *d) { }
int main(void)
{
	qb_loop_timer_handle th;
	int rc;
	l = qb_loop_create();
	rc = qb_loop_job_add(l, 3, NULL, jcb);
	printf("job_add(p=3) = %d\n", rc);
	rc = qb_loop_timer_add(l, 3, 0, NULL, tcb, &th);
	printf("timer_add(p=3) = %d\n", rc);
	qb_loop_run(l);
	return 0;
}
