#include <stdio.h>
#include <signal.h>
#include <unistd.h>
#include <qb/qbdefs.h>
#include <qb/qbloop.h>
static qb_loop_t *l;
static long nsig, nlow, raised;
static int32_t scb(int32_t s, void *d) { nsig++; raise(SIGUSR1); raised++; raise(SIGUSR1); raised++; return 0; }
static void low(void *d) { nlow++; qb_loop_job_add(l, QB_LOOP_LOW, NULL, low); if (nlow % 2000 == 0) { printf("low=%ld sig=%ld raised=%ld\n", nlow, nsig, raised); } if (nlow >= 20000) qb_loop_stop(l); }
int main(void)
{
	qb_loop_signal_handle h;
	setvbuf(stdout, NULL, _IONBF, 0);
	alarm(20);
	l = qb_loop_create();
	qb_loop_signal_add(l, QB_LOOP_HIGH, SIGUSR1, NULL, scb, &h);
	qb_loop_job_add(l, QB_LOOP_LOW, NULL, low);
	raise(SIGUSR1);
	qb_loop_run(l);
	printf("done low=%ld sig=%ld\n", nlow, nsig);
	return 0;
}
