#!/bin/sh
# usage: demo.sh <tree>    exit 0 = property held, non-zero = violated
T=${1:-/repo}
D=$(cd "$(dirname "$0")" && pwd)
OUT=${TMPDIR:-/tmp}/hunt3-C10-f1-$$
gcc -g -O1 -fsanitize=address,undefined -DHAVE_CONFIG_H -I$T/include -I$T/include/qb -I$T/lib \
  $D/demo.c $T/lib/loop.c $T/lib/loop_job.c -L$T/lib/.libs -lqb -lpthread -o $OUT || exit 99
LD_LIBRARY_PATH=$T/lib/.libs ASAN_OPTIONS=detect_leaks=0 timeout 300 $OUT
rc=$?
rm -f $OUT
exit $rc
