/*
 * C10 finding 1: the priority rotation restarts with every qb_loop_run().
 *
 * Public API only.  One self-re-adding HIGH job, one MED job, one LOW job.
 * The HIGH job asks the loop to stop every K-th time it runs (K = 1, 2, 3)
 * and main() simply calls qb_loop_run() again - the usual "run the loop
 * until something happened, look at it, go on" pattern.
 *
 * Every loop iteration dispatches the HIGH job exactly once, so the number
 * of HIGH dispatches is the number of loop iterations.  The property wants
 * every level with pending work to dispatch in any 3 consecutive
 * iterations; here LOW (and for K = 1 also MED) is never dispatched in
 * 3000 iterations although its job is queued all the time.
 */
#include <stdio.h>
#include <stdlib.h>
#include <qb/qbdefs.h>
#include <qb/qbloop.h>

static qb_loop_t *l;
static int K;
static long n_high, n_med, n_low;
#define ITER 3000

static void high_job(void *d)
{
	n_high++;
	qb_loop_job_add(l, QB_LOOP_HIGH, NULL, high_job);	/* continuous HIGH work */
	if (K > 0 && n_high % K == 0) {
		qb_loop_stop(l);
	}
	if (K == 0 && n_high >= ITER) {
		qb_loop_stop(l);
	}
}
static void med_job(void *d)  { n_med++; qb_loop_job_add(l, QB_LOOP_MED, NULL, med_job); }
static void low_job(void *d)  { n_low++; qb_loop_job_add(l, QB_LOOP_LOW, NULL, low_job); }

static int scenario(int k)
{
	int bad = 0;
	long runs = 0;

	K = k;
	n_high = n_med = n_low = 0;
	l = qb_loop_create();
	qb_loop_job_add(l, QB_LOOP_HIGH, NULL, high_job);
	qb_loop_job_add(l, QB_LOOP_MED, NULL, med_job);
	qb_loop_job_add(l, QB_LOOP_LOW, NULL, low_job);
	while (n_high < ITER) {
		qb_loop_run(l);
		runs++;
	}
	printf("stop every %d iteration(s): runs=%ld iterations=%ld  HIGH=%ld MED=%ld LOW=%ld",
	       k, runs, n_high, n_high, n_med, n_low);
	/* weak priorities: >= 1 dispatch per 3 iterations for a level with pending work */
	if (n_med < ITER / 3 - 1 || n_low < ITER / 3 - 1) {
		printf("   <-- STARVED\n");
		bad = 1;
	} else {
		printf("   ok\n");
	}
	/* the queued jobs are left behind on purpose (the loop is thrown away) */
	return bad;
}

int main(void)
{
	int bad = 0;
	setvbuf(stdout, NULL, _IONBF, 0);
	bad |= scenario(0);	/* control: one long run */
	bad |= scenario(1);
	bad |= scenario(2);
	bad |= scenario(3);
	bad |= scenario(4);
	printf(bad ? "RESULT: property C10 VIOLATED\n" : "RESULT: property held\n");
	return bad;
}
