/*
 * Model based randomized tester for libqb maps (property C17).
 *
 * usage: fuzz <kind: 0=hashtable 1=skiplist 2=trie> <seed> <nops> [nkeys] [alpha] [flags]
 *   flags bit0: allow put during iteration / inside foreach callback
 *         bit1: allow self deleting notifiers
 *   env TRACE=1 prints each operation
 */
#include <stdio.h>
#include <stdlib.h>
#include <string.h>
#include <stdint.h>
#include <errno.h>
#include <qb/qbdefs.h>
#include <qb/qbmap.h>

enum { HT, SL, TR };
static int kind;
static qb_map_t *m;
static int trace;
static long opno;
static unsigned long long seed0;
static int flags = 3;

#define TRACE(...) do { if (trace) { fprintf(stderr, "[%ld] ", opno); fprintf(stderr, __VA_ARGS__); fprintf(stderr, "\n"); } } while (0)
#define FAIL(...) do { fprintf(stderr, "FAIL kind=%d seed=%llu op=%ld: ", kind, seed0, opno); fprintf(stderr, __VA_ARGS__); fprintf(stderr, "\n"); exit(1); } while (0)

/* rng */
static unsigned long long rs;
static unsigned rnd(void)
{
	rs ^= rs << 13; rs ^= rs >> 7; rs ^= rs << 17;
	return (unsigned)(rs >> 11);
}
static int rn(int n) { return (int)(rnd() % (unsigned)n); }

/* keys */
#define MAXK 96
static int NK = 40;
static char *keys[MAXK];

static int ucmp(const char *a, const char *b) { return strcmp(a, b); }

static int keyidx_of(const char *s)
{
	int i;
	for (i = 0; i < NK; i++)
		if (strcmp(keys[i], s) == 0)
			return i;
	return -1;
}

static const char alphabet[] = { 'a', 'b', '\x80', '\xff', '\x01', '\x7f', 'c', '\xc3' };

static void make_keys(int alpha)
{
	int n = 0, i, tries = 0;
	char buf[1200];
	while (n < NK && tries++ < 100000) {
		int len;
		int r = rn(100);
		if (r < 4) {
			len = 100 + rn(1000);
		} else if (r < 20) {
			len = 1;
		} else {
			len = 1 + rn(6);
		}
		if (n > 0 && rn(3) == 0) {
			/* extend or truncate an existing key */
			const char *b = keys[rn(n)];
			int bl = strlen(b);
			if (rn(2) && bl > 1) {
				len = 1 + rn(bl - 1);
				memcpy(buf, b, len);
			} else {
				int ext = 1 + rn(3);
				if (bl + ext > 1190) ext = 0;
				memcpy(buf, b, bl);
				for (i = 0; i < ext; i++) buf[bl + i] = alphabet[rn(alpha)];
				len = bl + ext;
			}
		} else {
			for (i = 0; i < len; i++) buf[i] = alphabet[rn(alpha)];
		}
		buf[len] = 0;
		for (i = 0; i < n; i++) if (strcmp(keys[i], buf) == 0) break;
		if (i < n) continue;
		keys[n++] = strdup(buf);
	}
	NK = n;
}

/* values */
struct val {
	int id;
	int keyidx;
	char key[];
};
static int valctr;
static struct val *newval(int k)
{
	size_t l = strlen(keys[k]);
	struct val *v = malloc(sizeof(*v) + l + 1);
	v->id = ++valctr;
	v->keyidx = k;
	memcpy(v->key, keys[k], l + 1);
	return v;
}

/* entries */
#define NIT 4
#define FSLOT (NIT - 1)		/* pseudo slot for foreach */
struct ent {
	int used;
	int keyidx;
	struct val *v;
	int removed;
	int holders;
	unsigned must, seen;
};
#define MAXE 512
static struct ent ents[MAXE];
static struct ent *live[MAXK];
static int nlive;

static struct ent *newent(int k, struct val *v)
{
	int i;
	for (i = 0; i < MAXE; i++) {
		if (!ents[i].used) {
			memset(&ents[i], 0, sizeof(ents[i]));
			ents[i].used = 1;
			ents[i].keyidx = k;
			ents[i].v = v;
			return &ents[i];
		}
	}
	FAIL("tester: out of ents");
	return NULL;
}

/* notifiers */
struct notif {
	int used;
	int keyidx;		/* -1 global */
	int events;
	int fnidx;
	void *ud;
	struct ent *owner;	/* HT/SL key notifiers */
	int selfdel_done;
	int sd_expected;	/* a call has been expected: it deletes itself then */
	int sd_skip;
};
#define NN 48
static struct notif notifs[NN];
static char ud_a, ud_b;

struct ev {
	int fnidx;
	void *ud;
	int event;
	int keyidx;
	void *old, *new;
	int matched;
};
#define MAXEV 4096
static struct ev logv[MAXEV], expv[MAXEV];
static int nlog, nexp;

static void record(int fnidx, uint32_t event, char *key, void *old, void *new, void *ud)
{
	struct ev *e;
	if (nlog >= MAXEV) FAIL("tester: log overflow");
	e = &logv[nlog++];
	e->fnidx = fnidx; e->ud = ud; e->event = event;
	e->keyidx = key ? keyidx_of(key) : -2;
	e->old = old; e->new = new; e->matched = 0;
	if (trace) fprintf(stderr, "      cb fn%d ud=%p ev=%u key#%d old=%d new=%d\n", fnidx, ud, event, e->keyidx,
			   old ? ((struct val *)old)->id : 0, new ? ((struct val *)new)->id : 0);
}

static void cb0(uint32_t event, char *key, void *old, void *new, void *ud) { record(0, event, key, old, new, ud); }
static void cb1(uint32_t event, char *key, void *old, void *new, void *ud) { record(1, event, key, old, new, ud); }
static void cb2(uint32_t event, char *key, void *old, void *new, void *ud)
{
	struct notif *n = ud;
	record(2, event, key, old, new, ud);
	if (n->used && !n->selfdel_done) {
		n->selfdel_done = 1;
		(void)qb_map_notify_del_2(m, n->keyidx >= 0 ? keys[n->keyidx] : NULL, cb2, n->events, n);
	}
}
static qb_map_notify_fn fns[3] = { cb0, cb1, cb2 };

static void expect(struct notif *n, int event, int keyidx, void *old, void *new)
{
	struct ev *e;
	if (nexp >= MAXEV) FAIL("tester: exp overflow");
	e = &expv[nexp++];
	e->fnidx = n->fnidx; e->ud = n->ud; e->event = event; e->keyidx = keyidx;
	e->old = old; e->new = new; e->matched = 0;
	if (n->fnidx == 2) n->sd_expected = 1;
}

static int is_proper_prefix(const char *p, const char *k)
{
	size_t lp = strlen(p);
	return strlen(k) > lp && strncmp(p, k, lp) == 0;
}

static void fire(int event, struct ent *e, void *old, void *new)
{
	int i;
	const char *K = keys[e->keyidx];
	for (i = 0; i < NN; i++)
		notifs[i].sd_skip = notifs[i].sd_expected;
	/* key notifiers */
	for (i = 0; i < NN; i++) {
		struct notif *n = &notifs[i];
		if (!n->used || n->keyidx < 0 || n->sd_skip) continue;
		if (kind == TR) {
			const char *P = keys[n->keyidx];
			if (strcmp(P, K) == 0) {
				if (n->events & event) expect(n, event, e->keyidx, old, new);
			} else if (is_proper_prefix(P, K)) {
				if ((n->events & event) && (n->events & QB_MAP_NOTIFY_RECURSIVE))
					expect(n, event, e->keyidx, old, new);
			}
		} else {
			if (n->owner == e && (n->events & event))
				expect(n, event, e->keyidx, old, new);
		}
	}
	for (i = 0; i < NN; i++) {
		struct notif *n = &notifs[i];
		if (!n->used || n->keyidx >= 0 || n->sd_skip) continue;
		if (n->events & event) {
			if (kind != TR || (n->events & QB_MAP_NOTIFY_RECURSIVE))
				expect(n, event, e->keyidx, old, new);
		}
		if ((event & (QB_MAP_NOTIFY_DELETED | QB_MAP_NOTIFY_REPLACED)) &&
		    (n->events & QB_MAP_NOTIFY_FREE))
			expect(n, QB_MAP_NOTIFY_FREE, e->keyidx, old, new);
	}
}

/* deferred frees */
static struct val *qf[MAXEV];
static int nqf;
static struct ent *qk[MAXEV];
static int nqk;

static void value_leaves(struct val *v) { qf[nqf++] = v; }
static void ent_dies(struct ent *e) { qk[nqk++] = e; }

static void begin_op(void) { nlog = nexp = 0; opno++; }

static void end_op(const char *what)
{
	int i, j;
	for (i = 0; i < nexp; i++) {
		for (j = 0; j < nlog; j++) {
			if (logv[j].matched) continue;
			if (logv[j].fnidx == expv[i].fnidx && logv[j].ud == expv[i].ud &&
			    logv[j].event == expv[i].event && logv[j].keyidx == expv[i].keyidx &&
			    logv[j].old == expv[i].old && logv[j].new == expv[i].new) {
				logv[j].matched = expv[i].matched = 1;
				break;
			}
		}
		if (!expv[i].matched)
			FAIL("%s: missing notification fn%d ud=%p event=%d key#%d(%s) old=%p new=%p (got %d calls, expected %d)",
			     what, expv[i].fnidx, expv[i].ud, expv[i].event, expv[i].keyidx,
			     expv[i].keyidx >= 0 ? keys[expv[i].keyidx] : "?", expv[i].old, expv[i].new, nlog, nexp);
	}
	for (j = 0; j < nlog; j++)
		if (!logv[j].matched)
			FAIL("%s: unexpected notification fn%d ud=%p event=%d key#%d(%s) old=%p new=%p (got %d calls, expected %d)",
			     what, logv[j].fnidx, logv[j].ud, logv[j].event, logv[j].keyidx,
			     logv[j].keyidx >= 0 ? keys[logv[j].keyidx] : "?", logv[j].old, logv[j].new, nlog, nexp);
	for (i = 0; i < nqk; i++) {
		for (j = 0; j < NN; j++)
			if (notifs[j].used && notifs[j].owner == qk[i])
				notifs[j].used = 0;
		qk[i]->used = 0;
	}
	nqk = 0;
	for (i = 0; i < nqf; i++) {
		memset(qf[i]->key, 'Z', strlen(qf[i]->key));
		free(qf[i]);
	}
	nqf = 0;
	for (j = 0; j < NN; j++)
		if (notifs[j].used && notifs[j].selfdel_done)
			notifs[j].used = 0;
	if (m && qb_map_count_get(m) != (size_t)nlive)
		FAIL("%s: count %zu, model %d", what, qb_map_count_get(m), nlive);
}

static void apply_selfdel(void)
{
	int j;
	for (j = 0; j < NN; j++)
		if (notifs[j].used && notifs[j].selfdel_done)
			notifs[j].used = 0;
}

/* holders */
static void ent_hold(struct ent *e) { e->holders++; }
static void ent_release(struct ent *e)
{
	e->holders--;
	if (e->holders == 0 && e->removed) {
		fire(QB_MAP_NOTIFY_DELETED, e, e->v, NULL);
		value_leaves(e->v);
		ent_dies(e);
		e->removed = 2;
	}
}

/* basic ops (model + library, no compare) */
static void do_put(int k)
{
	struct val *v = newval(k);
	struct ent *e = live[k];
	int i;
	TRACE("put key#%d val=%d", k, v->id);
	if (e) {
		struct val *old = e->v;
		e->v = v;
		fire(QB_MAP_NOTIFY_REPLACED, e, old, v);
		value_leaves(old);
	} else {
		struct ent *pe = NULL;
		if (kind == TR) {
			for (i = 0; i < MAXE; i++)
				if (ents[i].used && ents[i].removed == 1 && ents[i].keyidx == k)
					pe = &ents[i];
		}
		if (pe) {
			fire(QB_MAP_NOTIFY_DELETED, pe, pe->v, NULL);
			value_leaves(pe->v);
			pe->removed = 0;
			pe->v = v;
			pe->must = 0;
			e = pe;
		} else {
			e = newent(k, v);
		}
		live[k] = e;
		nlive++;
		fire(QB_MAP_NOTIFY_INSERTED, e, NULL, v);
	}
	qb_map_put(m, v->key, v);
	apply_selfdel();
}

static void do_rm(int k)
{
	struct ent *e = live[k];
	int32_t r;
	TRACE("rm key#%d (%s)", k, e ? "present" : "absent");
	if (e) {
		live[k] = NULL;
		nlive--;
		e->must = 0;
		if (e->holders > 0) {
			e->removed = 1;
		} else {
			fire(QB_MAP_NOTIFY_DELETED, e, e->v, NULL);
			value_leaves(e->v);
			ent_dies(e);
			e->removed = 2;
		}
	}
	r = qb_map_rm(m, keys[k]);
	if ((r != 0) != (e != NULL))
		FAIL("rm key#%d (%s) returned %d, present=%d", k, keys[k], r, e != NULL);
	apply_selfdel();
}

static void do_get(int k)
{
	void *r = qb_map_get(m, keys[k]);
	void *x = live[k] ? live[k]->v : NULL;
	if (r != x)
		FAIL("get key#%d (%s) returned %p expected %p", k, keys[k], r, x);
}

/* iterators */
struct it {
	int used;
	qb_map_iter_t *h;
	struct ent *cur;
	int done;
	char *pref;
	char *last;
	int n;
};
static struct it its[NIT];

static int active_iters(void)
{
	int i, c = 0;
	for (i = 0; i < NIT; i++) c += its[i].used;
	return c;
}

static void it_begin(int s, const char *pref)
{
	struct it *t = &its[s];
	unsigned bit = 1u << s;
	int i;
	memset(t, 0, sizeof(*t));
	t->used = 1;
	t->pref = pref ? strdup(pref) : NULL;
	for (i = 0; i < MAXE; i++) {
		if (!ents[i].used) continue;
		ents[i].must &= ~bit;
		ents[i].seen &= ~bit;
	}
	for (i = 0; i < NK; i++) {
		if (live[i] && (!pref || strncmp(keys[i], pref, strlen(pref)) == 0))
			live[i]->must |= bit;
	}
}

/* process one item yielded to slot s */
static void it_item(int s, const char *key, void *value, const char *what)
{
	struct it *t = &its[s];
	unsigned bit = 1u << s;
	int k = keyidx_of(key);
	struct ent *e;
	if (k < 0) FAIL("%s: unknown key yielded", what);
	e = live[k];
	if (e == NULL) FAIL("%s: yielded key#%d (%s) which is not present", what, k, keys[k]);
	if (e->v != value) FAIL("%s: key#%d yielded value %p, expected %p", what, k, value, (void *)e->v);
	if (key != e->v->key) FAIL("%s: key#%d yielded stale key pointer", what, k);
	if (e->seen & bit) FAIL("%s: key#%d (%s) yielded twice", what, k, keys[k]);
	e->seen |= bit;
	if (t->pref && strncmp(key, t->pref, strlen(t->pref)) != 0)
		FAIL("%s: key#%d does not have the prefix", what, k);
	if (kind != HT && t->last && ucmp(t->last, key) >= 0)
		FAIL("%s: key#%d (%s) out of order", what, k, keys[k]);
	free(t->last);
	t->last = strdup(key);
	t->n++;
	ent_hold(e);
	if (t->cur) ent_release(t->cur);
	t->cur = e;
	apply_selfdel();
}

static void it_end(int s, const char *what)
{
	struct it *t = &its[s];
	unsigned bit = 1u << s;
	int i;
	for (i = 0; i < NK; i++) {
		if (live[i] && (live[i]->must & bit) && !(live[i]->seen & bit))
			FAIL("%s: key#%d (%s) present all along but not yielded (yielded %d)", what, i, keys[i], t->n);
	}
	if (t->cur) ent_release(t->cur);
	t->cur = NULL;
	t->done = 1;
	apply_selfdel();
}

static void it_free_model(int s)
{
	struct it *t = &its[s];
	if (t->cur) ent_release(t->cur);
	t->cur = NULL;
	free(t->last);
	free(t->pref);
	t->last = t->pref = NULL;
	t->used = 0;
	apply_selfdel();
}

static void op_iter_create(int s)
{
	const char *pref = NULL;
	char buf[1300];
	begin_op();
	if (kind == TR && rn(2)) {
		const char *b = keys[rn(NK)];
		int l = strlen(b);
		int r = rn(4);
		strcpy(buf, b);
		if (r == 0 && l > 1) buf[1 + rn(l - 1)] = 0;
		else if (r == 1) { buf[l] = alphabet[rn(8)]; buf[l + 1] = 0; }
		pref = buf;
	}
	TRACE("iter_create slot %d prefix=%s", s, pref ? "yes" : "no");
	it_begin(s, pref);
	its[s].h = its[s].pref ? qb_map_pref_iter_create(m, its[s].pref) : qb_map_iter_create(m);
	end_op("iter_create");
}

static void op_iter_next(int s)
{
	struct it *t = &its[s];
	const char *key;
	void *value = NULL;
	begin_op();
	TRACE("iter_next slot %d", s);
	if (t->done) {
		key = qb_map_iter_next(t->h, &value);
		if (key) FAIL("finished iterator yields again");
		end_op("iter_next(done)");
		return;
	}
	/* the events of leaving the current entry are decided before the call */
	{
		/* we do not know yet what comes next: compute with a dry run */
	}
	key = qb_map_iter_next(t->h, &value);
	if (key) it_item(s, key, value, "iter_next");
	else it_end(s, "iter_next");
	end_op("iter_next");
}

static void op_iter_free(int s)
{
	begin_op();
	TRACE("iter_free slot %d", s);
	qb_map_iter_free(its[s].h);
	it_free_model(s);
	end_op("iter_free");
}

static void op_fullscan(void)
{
	int s, n = 0;
	const char *key;
	void *value;
	for (s = 0; s < FSLOT; s++) if (!its[s].used) break;
	if (s == FSLOT) return;
	begin_op();
	TRACE("fullscan");
	it_begin(s, NULL);
	its[s].h = qb_map_iter_create(m);
	while ((key = qb_map_iter_next(its[s].h, &value)) != NULL) {
		it_item(s, key, value, "fullscan");
		n++;
		if (n > nlive) FAIL("fullscan: more than %d items", nlive);
	}
	it_end(s, "fullscan");
	if (n != nlive) FAIL("fullscan: %d items, model %d", n, nlive);
	qb_map_iter_free(its[s].h);
	it_free_model(s);
	end_op("fullscan");
}

/* foreach */
static int fe_stop_after;
static int fe_mut;
static int32_t fe_cb(const char *key, void *value, void *ud)
{
	int k;
	it_item(FSLOT, key, value, "foreach");
	k = keyidx_of(key);
	if (fe_mut) {
		int r = rn(10);
		if (r < 2) do_rm(k);
		else if (r < 4) do_rm(rn(NK));
		else if (r < 5 && (flags & 1)) do_put(rn(NK));
		else if (r < 6 && (flags & 1)) { do_rm(k); do_put(k); }
		else if (r < 7) do_get(rn(NK));
	}
	if (fe_stop_after > 0 && its[FSLOT].n >= fe_stop_after)
		return 1;
	return 0;
}

static void op_foreach(void)
{
	int stopped;
	begin_op();
	fe_stop_after = rn(3) ? 0 : 1 + rn(nlive + 1);
	fe_mut = rn(2);
	TRACE("foreach stop_after=%d mut=%d", fe_stop_after, fe_mut);
	it_begin(FSLOT, NULL);
	qb_map_foreach(m, fe_cb, NULL);
	stopped = fe_stop_after > 0 && its[FSLOT].n >= fe_stop_after;
	if (!stopped) it_end(FSLOT, "foreach");
	it_free_model(FSLOT);
	end_op("foreach");
}

/* notifier ops */
static void op_notify_add(void)
{
	int k = rn(3) ? -1 : rn(NK);
	int events;
	int fnidx = rn(3);
	void *ud;
	int exp = 0, i, r;
	struct notif *slot = NULL;
	struct ent *owner = NULL;

	if (!(flags & 2) && fnidx == 2) fnidx = 0;
	switch (rn(6)) {
	case 0: events = rn(32); break;
	case 1: events = QB_MAP_NOTIFY_FREE; break;
	case 2: events = QB_MAP_NOTIFY_DELETED | QB_MAP_NOTIFY_REPLACED | QB_MAP_NOTIFY_INSERTED | QB_MAP_NOTIFY_RECURSIVE; break;
	case 3: events = QB_MAP_NOTIFY_DELETED | QB_MAP_NOTIFY_REPLACED | QB_MAP_NOTIFY_INSERTED; break;
	case 4: events = (1 << rn(3)) | (rn(2) ? QB_MAP_NOTIFY_RECURSIVE : 0); break;
	default: events = rn(16); break;
	}
	for (i = 0; i < NN; i++) if (!notifs[i].used) { slot = &notifs[i]; break; }
	if (!slot) return;
	ud = fnidx == 2 ? (void *)slot : (rn(2) ? (void *)&ud_a : (void *)&ud_b);

	begin_op();
	TRACE("notify_add key#%d fn%d events=%d ud=%p", k, fnidx, events, ud);
	if (k >= 0 && (events & QB_MAP_NOTIFY_FREE)) {
		exp = -EINVAL;
	} else if (k >= 0 && kind != TR && live[k] == NULL) {
		exp = kind == HT ? -ENOENT : -EINVAL;
	} else {
		if (k >= 0 && kind != TR) owner = live[k];
		for (i = 0; i < NN; i++) {
			struct notif *n = &notifs[i];
			if (!n->used || n->keyidx != k || n->owner != owner) continue;
			if ((events & QB_MAP_NOTIFY_FREE) && n->events == events) exp = -EEXIST;
			if (n->events == events && n->fnidx == fnidx && n->ud == ud) exp = -EEXIST;
		}
	}
	r = qb_map_notify_add(m, k >= 0 ? keys[k] : NULL, fns[fnidx], events, ud);
	if (r != exp) FAIL("notify_add key#%d events=%d returned %d expected %d", k, events, r, exp);
	if (r == 0) {
		memset(slot, 0, sizeof(*slot));
		slot->used = 1; slot->keyidx = k; slot->events = events;
		slot->fnidx = fnidx; slot->ud = ud; slot->owner = owner;
	}
	end_op("notify_add");
}

static void op_notify_del(void)
{
	int i, r, exp = -ENOENT, cnt = 0, pick;
	int k, events, fnidx, with_ud;
	void *ud;
	struct ent *owner = NULL;

	for (i = 0; i < NN; i++) cnt += notifs[i].used;
	if (cnt && rn(5)) {
		pick = rn(cnt);
		for (i = 0; i < NN; i++) if (notifs[i].used && pick-- == 0) break;
		k = notifs[i].keyidx; events = notifs[i].events; fnidx = notifs[i].fnidx; ud = notifs[i].ud;
		if (notifs[i].owner && notifs[i].owner->removed) return;	/* not reachable by key any more */
	} else {
		k = rn(2) ? -1 : rn(NK); events = rn(32); fnidx = rn(3); ud = &ud_a;
	}
	with_ud = rn(2);
	begin_op();
	TRACE("notify_del%s key#%d fn%d events=%d ud=%p", with_ud ? "_2" : "", k, fnidx, events, ud);
	if (k >= 0 && kind != TR) owner = live[k];
	if (!(k >= 0 && kind != TR && owner == NULL)) {
		for (i = 0; i < NN; i++) {
			struct notif *n = &notifs[i];
			if (!n->used || n->keyidx != k || n->owner != owner) continue;
			if (n->events == events && n->fnidx == fnidx && (!with_ud || n->ud == ud)) {
				n->used = 0;
				exp = 0;
			}
		}
	}
	if (with_ud) r = qb_map_notify_del_2(m, k >= 0 ? keys[k] : NULL, fns[fnidx], events, ud);
	else r = qb_map_notify_del(m, k >= 0 ? keys[k] : NULL, fns[fnidx], events);
	if (r != exp) FAIL("notify_del key#%d events=%d returned %d expected %d", k, events, r, exp);
	end_op("notify_del");
}

static int ht_sizes[] = { 0, 1, 7, 8, 9, 32, 1000 };
static void map_create(void)
{
	switch (kind) {
	case HT: m = qb_hashtable_create(ht_sizes[rn(7)]); break;
	case SL: m = qb_skiplist_create(); srandom(rnd()); break;
	default: m = qb_trie_create(); break;
	}
	if (!m) FAIL("create");
}

static void op_destroy(void)
{
	int s, i;
	for (s = 0; s < NIT; s++)
		if (its[s].used) op_iter_free(s);
	/* self deleting notifiers would fire for an unknown one of the entries */
	for (i = 0; i < NN; i++) {
		struct notif *n = &notifs[i];
		if (n->used && n->fnidx == 2 && !(n->owner && n->owner->removed)) {
			begin_op();
			TRACE("notify_del_2 (pre-destroy) key#%d events=%d", n->keyidx, n->events);
			if (qb_map_notify_del_2(m, n->keyidx >= 0 ? keys[n->keyidx] : NULL, cb2, n->events, n) != 0)
				FAIL("pre-destroy notify_del_2 failed");
			n->used = 0;
			end_op("notify_del_2");
		}
	}
	begin_op();
	TRACE("destroy (%d live)", nlive);
	for (i = 0; i < NK; i++) {
		if (live[i]) {
			fire(QB_MAP_NOTIFY_DELETED, live[i], live[i]->v, NULL);
			value_leaves(live[i]->v);
			ent_dies(live[i]);
			live[i] = NULL;
		}
	}
	nlive = 0;
	qb_map_destroy(m);
	m = NULL;
	end_op("destroy");
	for (i = 0; i < MAXE; i++)
		if (ents[i].used) FAIL("tester: ent %d still in use after destroy", i);
	memset(notifs, 0, sizeof(notifs));
	map_create();
}

int main(int argc, char **argv)
{
	long nops, n;
	int alpha = 4;
	if (argc < 4) { fprintf(stderr, "usage\n"); return 2; }
	kind = atoi(argv[1]);
	seed0 = strtoull(argv[2], NULL, 0);
	nops = atol(argv[3]);
	if (argc > 4) NK = atoi(argv[4]);
	if (argc > 5) alpha = atoi(argv[5]);
	if (argc > 6) flags = atoi(argv[6]);
	if (NK > MAXK) NK = MAXK;
	if (alpha < 1) alpha = 1;
	if (alpha > 8) alpha = 8;
	trace = getenv("TRACE") != NULL;
	rs = seed0 * 0x9E3779B97F4A7C15ull + 0x1234567ull;
	if (!rs) rs = 1;
	rnd(); rnd();
	make_keys(alpha);
	if (trace) {
		int i, j;
		for (i = 0; i < NK; i++) {
			fprintf(stderr, "key#%d = \"", i);
			for (j = 0; keys[i][j] && j < 40; j++) {
				unsigned char c = keys[i][j];
				if (c >= 0x20 && c < 0x7f) fputc(c, stderr); else fprintf(stderr, "\\x%02x", c);
			}
			fprintf(stderr, "\"%s\n", strlen(keys[i]) > 40 ? "..." : "");
		}
	}
	map_create();
	for (n = 0; n < nops; n++) {
		int r = rn(1000);
		int s;
		if (r < 300) {
			if (active_iters() && !(flags & 1)) continue;
			begin_op(); do_put(rn(NK)); end_op("put");
		} else if (r < 500) {
			begin_op(); do_rm(rn(NK)); end_op("rm");
		} else if (r < 600) {
			begin_op(); do_get(rn(NK)); end_op("get");
		} else if (r < 640) {
			s = rn(FSLOT);
			if (!its[s].used) op_iter_create(s);
		} else if (r < 800) {
			s = rn(FSLOT);
			if (its[s].used) {
				op_iter_next(s);
				/* remove the element being visited quite often */
				if (its[s].cur && rn(4) == 0) {
					begin_op(); do_rm(its[s].cur->keyidx); end_op("rm-current");
				}
			}
		} else if (r < 830) {
			s = rn(FSLOT);
			if (its[s].used) op_iter_free(s);
		} else if (r < 860) {
			op_fullscan();
		} else if (r < 900) {
			op_foreach();
		} else if (r < 950) {
			op_notify_add();
		} else if (r < 990) {
			op_notify_del();
		} else if (r < 993) {
			op_destroy();
		} else {
			/* burst of removals to empty the map */
			int i;
			for (i = 0; i < NK; i++) {
				if (rn(3)) { begin_op(); do_rm(i); end_op("rm-burst"); }
			}
		}
	}
	op_destroy();
	qb_map_destroy(m);
	printf("ok kind=%d seed=%llu ops=%ld values=%d\n", kind, seed0, opno, valctr);
	return 0;
}
