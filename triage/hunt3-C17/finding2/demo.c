/*
 * skiplist: the INSERTED notification is sent before the new node is linked
 * into the list (and before the count is updated), with the search path
 * (update[]) already computed.
 *  part A: inside the INSERTED callback the map does not hold the key yet
 *          (hashtable and trie do) - get() returns NULL, count is short.
 *  part B: a callback that removes another key frees a node update[] still
 *          points to: heap-use-after-free in skiplist_put().
 */
#include <stdio.h>
#include <string.h>
#include <stdlib.h>
#include <qb/qbdefs.h>
#include <qb/qbmap.h>

static qb_map_t *m;
static int bad;
static const char *rm_in_cb;

static void
inserted_cb(uint32_t event, char *key, void *old_value, void *value, void *user_data)
{
	void *v = qb_map_get(m, key);
	printf("INSERTED %s=%s: get() -> %s, count %zu\n", key, (char *)value,
	       v ? (char *)v : "(null)", qb_map_count_get(m));
	if (v != value) {
		printf("  VIOLATION: the inserted key is not in the map\n");
		bad = 1;
	}
	if (rm_in_cb) {
		const char *k = rm_in_cb;
		rm_in_cb = NULL;
		printf("  rm(%s) from the callback -> %d\n", k, qb_map_rm(m, k));
	}
}

int
main(int argc, char **argv)
{
	setvbuf(stdout, NULL, _IONBF, 0);
	m = qb_skiplist_create();
	qb_map_notify_add(m, NULL, inserted_cb, QB_MAP_NOTIFY_INSERTED, NULL);
	qb_map_put(m, "a", "1");
	qb_map_put(m, "c", "3");
	rm_in_cb = "a";			/* the predecessor of "b" */
	qb_map_put(m, "b", "2");	/* part B: use after free */
	printf("count %zu, a=%s b=%s c=%s\n", qb_map_count_get(m),
	       (char *)qb_map_get(m, "a"), (char *)qb_map_get(m, "b"), (char *)qb_map_get(m, "c"));
	qb_map_destroy(m);
	return bad;
}
