#!/bin/sh
# usage: build.sh [tree]   (default /repo)
T=${1:-/repo}
cd "$(dirname "$0")"
gcc -g -O1 -fsanitize=address,undefined -fno-omit-frame-pointer -DHAVE_CONFIG_H \
  -I$T/include -I$T/include/qb -I$T/lib -I$T \
  -o fuzz fuzz.c $T/lib/map.c $T/lib/hashtable.c $T/lib/skiplist.c $T/lib/trie.c \
  -L$T/lib/.libs -lqb
