/*
 * All three maps: while a DELETED notification is delivered the count has not
 * been updated yet although the key is already gone (get() fails, iteration
 * skips it).  The trie does not update the count at all during destroy.
 * kinds: 0 hashtable, 1 skiplist, 2 trie
 */
#include <stdio.h>
#include <qb/qbdefs.h>
#include <qb/qbmap.h>

static qb_map_t *m;
static int bad;
static const char *kname[] = { "hashtable", "skiplist", "trie" };

static void
deleted_cb(uint32_t event, char *key, void *old_value, void *value, void *user_data)
{
	qb_map_iter_t *it = qb_map_iter_create(m);
	const char *p;
	void *data;
	size_t n = 0;

	for (p = qb_map_iter_next(it, &data); p; p = qb_map_iter_next(it, &data)) {
		n++;
	}
	qb_map_iter_free(it);
	printf("  DELETED %s: get() -> %s, keys iterated %zu, count %zu%s\n", key,
	       qb_map_get(m, key) ? "value" : "NULL", n, qb_map_count_get(m),
	       n != qb_map_count_get(m) ? "   <-- MISMATCH" : "");
	if (n != qb_map_count_get(m)) {
		bad++;
	}
}

int
main(void)
{
	int kind;

	setvbuf(stdout, NULL, _IONBF, 0);
	for (kind = 0; kind < 3; kind++) {
		m = kind == 0 ? qb_hashtable_create(8) : kind == 1 ? qb_skiplist_create() : qb_trie_create();
		printf("%s\n", kname[kind]);
		qb_map_notify_add(m, NULL, deleted_cb,
				  QB_MAP_NOTIFY_DELETED | QB_MAP_NOTIFY_RECURSIVE, NULL);
		qb_map_put(m, "a", "1");
		qb_map_put(m, "b", "2");
		qb_map_put(m, "c", "3");
		printf(" rm b\n");
		qb_map_rm(m, "b");
		if (kind == 1) {
			/* destroy of a skiplist with such a notifier is finding1 */
			qb_map_notify_del(m, NULL, deleted_cb,
					  QB_MAP_NOTIFY_DELETED | QB_MAP_NOTIFY_RECURSIVE);
		}
		printf(" destroy\n");
		qb_map_destroy(m);
	}
	printf("mismatches: %d\n", bad);
	return bad != 0;
}
