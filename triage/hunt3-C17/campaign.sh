#!/bin/sh
export LD_LIBRARY_PATH=/repo/lib/.libs ASAN_OPTIONS=detect_leaks=0 UBSAN_OPTIONS=halt_on_error=1:print_stacktrace=1
cd /tmp/hunt3-C17
for seed in $(seq 100 139); do
 for k in 0 1 2; do
  for cfg in "40 4" "8 2" "3 1" "96 8" "20 3" "64 2" "12 6"; do
   set -- $cfg
   ./fuzz $k $seed 30000 $1 $2 3 > out.$$ 2>&1 || { echo "== kind=$k seed=$seed cfg=$cfg"; tail -30 out.$$ | cut -c1-400; }
  done
 done
done
echo CAMPAIGN DONE
