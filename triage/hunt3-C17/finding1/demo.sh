#!/bin/sh
# usage: demo.sh <tree>   exit 0 = property held, non-zero = violated
D=$(cd "$(dirname "$0")" && pwd)
T=${1:-/repo}
. "$D/../demo_common.sh"
"$D/demo.bin"
rc=$?
echo "exit code $rc"
exit $rc
