/*
 * skiplist: a DELETED notifier that looks at the map (here: iterates over it,
 * exactly like my_map_notification_iter in tests/check_map.c) is called from
 * qb_map_destroy() while the list still links to nodes that have been freed.
 */
#include <stdio.h>
#include <qb/qbdefs.h>
#include <qb/qbmap.h>

static int bad;
static int calls;

static void
deleted_cb(uint32_t event, char *key, void *old_value, void *value, void *user_data)
{
	qb_map_t *m = user_data;
	qb_map_iter_t *it = qb_map_iter_create(m);
	const char *p;
	void *data;
	int n = 0;

	calls++;
	printf("DELETED %s, map holds:", key);
	for (p = qb_map_iter_next(it, &data); p; p = qb_map_iter_next(it, &data)) {
		printf(" %s=%s", p, (char *)data);
		n++;
	}
	printf("\n");
	qb_map_iter_free(it);
	(void)n;
}

int
main(void)
{
	qb_map_t *m = qb_skiplist_create();

	setvbuf(stdout, NULL, _IONBF, 0);
	qb_map_notify_add(m, NULL, deleted_cb, QB_MAP_NOTIFY_DELETED, m);
	qb_map_put(m, "a", "1");
	qb_map_put(m, "b", "2");
	qb_map_destroy(m);	/* second callback walks into the freed node "a" */
	if (calls != 2) {
		printf("DELETED called %d times, expected 2\n", calls);
		bad = 1;
	}
	return bad;
}
