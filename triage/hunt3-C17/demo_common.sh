# sourced: builds $1/demo.c against tree $2
# expects D (demo dir) and T (tree) to be set
gcc -g -O1 -fsanitize=address,undefined -fno-omit-frame-pointer -DHAVE_CONFIG_H \
  -I$T/include -I$T/include/qb -I$T/lib -I$T -o $D/demo.bin $D/demo.c \
  $T/lib/map.c $T/lib/hashtable.c $T/lib/skiplist.c $T/lib/trie.c -L$T/lib/.libs -lqb || exit 99
export LD_LIBRARY_PATH=$T/lib/.libs ASAN_OPTIONS=detect_leaks=0 UBSAN_OPTIONS=halt_on_error=1
