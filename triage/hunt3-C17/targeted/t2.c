/* notifier callbacks that look at the map (iterate, get, count) like tests/check_map.c my_map_notification_iter */
#include <stdio.h>
#include <stdlib.h>
#include <string.h>
#include <qb/qbdefs.h>
#include <qb/qbmap.h>

static qb_map_t *m;
static int bad;
static void cb_look(uint32_t ev, char *key, void *o, void *n, void *ud)
{
	qb_map_iter_t *i = qb_map_iter_create(m);
	const char *k; void *v; int cnt = 0;
	printf("  cb ev=%u key=%s: count=%zu get=%s iter=[", ev, key, qb_map_count_get(m), (char *)qb_map_get(m, key));
	while ((k = qb_map_iter_next(i, &v))) { printf(" %s=%s", k, (char *)v); cnt++; }
	printf(" ]\n");
	qb_map_iter_free(i);
	if ((size_t)cnt != qb_map_count_get(m)) { printf("  MISMATCH count=%zu iterated=%d\n", qb_map_count_get(m), cnt); bad++; }
}

int main(int argc, char **argv)
{
	int kind = atoi(argv[1]); setvbuf(stdout, NULL, _IONBF, 0);
	int evs = atoi(argv[2]);
	m = kind == 0 ? qb_hashtable_create(8) : kind == 1 ? qb_skiplist_create() : qb_trie_create();
	qb_map_notify_add(m, NULL, cb_look, evs | QB_MAP_NOTIFY_RECURSIVE, NULL);
	printf("put a\n"); qb_map_put(m, "a", "1");
	printf("put b\n"); qb_map_put(m, "b", "2");
	printf("put c\n"); qb_map_put(m, "c", "3");
	printf("put b again\n"); qb_map_put(m, "b", "22");
	printf("rm b\n"); qb_map_rm(m, "b");
	printf("put d\n"); qb_map_put(m, "d", "4");
	printf("destroy\n");
	qb_map_destroy(m);
	printf("bad=%d\n", bad);
	return bad != 0;
}
