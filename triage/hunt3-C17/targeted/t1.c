/* targeted sequences */
#include <stdio.h>
#include <stdlib.h>
#include <string.h>
#include <qb/qbdefs.h>
#include <qb/qbmap.h>

static qb_map_t *m;
static int calls;
static const char *rmkey;
static void cb_rm_other(uint32_t ev, char *key, void *o, void *n, void *ud)
{
	calls++;
	printf("  cb ev=%u key=%s\n", ev, key);
	if (rmkey) { const char *k = rmkey; rmkey = NULL; printf("  nested rm(%s)=%d\n", k, qb_map_rm(m, k)); }
}

static void scan(const char *what)
{
	qb_map_iter_t *i = qb_map_iter_create(m);
	const char *k; void *v; int n = 0;
	printf("%s: count=%zu [", what, qb_map_count_get(m));
	while ((k = qb_map_iter_next(i, &v))) { printf(" %s", k); n++; }
	printf(" ] n=%d\n", n);
	qb_map_iter_free(i);
}

int main(int argc, char **argv)
{
	int t = atoi(argv[1]);
	int kind = atoi(argv[2]);
	m = kind == 0 ? qb_hashtable_create(8) : kind == 1 ? qb_skiplist_create() : qb_trie_create();
	switch (t) {
	case 1: { /* empty prefix */
		char *p = malloc(1); p[0] = 0;
		qb_map_put(m, "a", "1"); qb_map_put(m, "b", "2");
		qb_map_iter_t *i = qb_map_pref_iter_create(m, p);
		const char *k; void *v; int n = 0;
		while ((k = qb_map_iter_next(i, &v))) { printf(" %s", k); n++; }
		printf(" n=%d\n", n);
		qb_map_iter_free(i);
		break; }
	case 2: { /* DELETED callback removes another key */
		qb_map_notify_add(m, NULL, cb_rm_other, QB_MAP_NOTIFY_DELETED|QB_MAP_NOTIFY_RECURSIVE, NULL);
		qb_map_put(m, "a", "1"); qb_map_put(m, "b", "2"); qb_map_put(m, "c", "3");
		rmkey = "b";
		printf("rm a=%d\n", qb_map_rm(m, "a"));
		scan("after");
		break; }
	case 3: { /* INSERTED callback removes a key */
		qb_map_notify_add(m, NULL, cb_rm_other, QB_MAP_NOTIFY_INSERTED|QB_MAP_NOTIFY_RECURSIVE, NULL);
		qb_map_put(m, "a", "1"); qb_map_put(m, "c", "3");
		rmkey = "a";
		qb_map_put(m, "b", "2");
		scan("after");
		break; }
	case 4: { /* get of "" */
		char *p = malloc(1); p[0] = 0;
		qb_map_put(m, "a", "1");
		printf("get empty=%p\n", qb_map_get(m, p));
		break; }
	}
	qb_map_destroy(m);
	return 0;
}
