/* kill-point instrumentation: every libc call the library makes goes through
 * a __wrap_ function (ld --wrap); when armed, the process SIGKILLs itself
 * right before executing its kill_at-th call. */
#ifndef WRAPS_H
#define WRAPS_H
#include <stdint.h>
struct kp_shared {
	volatile int armed;        /* counting on */
	volatile int arm_on_accept;/* start counting at first accept() */
	volatile int kill_at;      /* 0 = never */
	volatile int count;
	volatile char last[32];    /* name of call at which we died */
	volatile int completed;    /* script ran to the end */
	volatile int total;        /* count at completion */
	volatile int result;       /* script verdict */
	volatile char msg[512];
};
extern struct kp_shared *kp;
void kp_tick(const char *name);
#endif
