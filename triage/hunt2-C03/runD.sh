#!/bin/sh
cd /tmp/hunt2-C03
export LD_LIBRARY_PATH=/repo/lib/.libs ASAN_OPTIONS=detect_leaks=0
for seed in 1 2 3 4 5 6; do timeout 400 ./c03fuzz rand $seed 12 2>&1 | cut -c1-700; done; echo RAND-DONE
