/*
 * C03 finding 1: a server that was killed but is not yet reaped by its parent
 * (a zombie) counts as alive for qb_ipcc_disconnect(): the shared-memory files
 * it left behind are not removed.
 *
 * sequence: server (QB_IPC_SHM) up -> client connects, one request/response
 *           -> server SIGKILLed, parent does NOT wait() for it yet
 *           -> client: qb_ipcc_sendv_recv() reports the disconnect
 *           -> client: qb_ipcc_disconnect()
 *           -> look at /dev/shm/qb-<serverpid>-<clientpid>-*
 * control:  the same with the server reaped before the disconnect.
 */
#define _GNU_SOURCE
#include <sys/types.h>
#include <sys/wait.h>
#include <sys/uio.h>
#include <dirent.h>
#include <errno.h>
#include <signal.h>
#include <stdio.h>
#include <stdlib.h>
#include <string.h>
#include <unistd.h>
#include <qb/qbdefs.h>
#include <qb/qbipcc.h>
#include <qb/qbipcs.h>
#include <qb/qbloop.h>

static qb_loop_t *loop;
static int32_t s_accept(qb_ipcs_connection_t *c, uid_t u, gid_t g) { return 0; }
static void s_created(qb_ipcs_connection_t *c) { }
static int32_t s_closed(qb_ipcs_connection_t *c) { return 0; }
static void s_destroyed(qb_ipcs_connection_t *c) { }
static int32_t s_msg(qb_ipcs_connection_t *c, void *data, size_t size)
{
	struct qb_ipc_response_header rh = { .id = 1, .size = sizeof rh, .error = 0 };
	qb_ipcs_response_send(c, &rh, sizeof rh);
	return 0;
}
static int32_t j_add(enum qb_loop_priority p, void *d, qb_loop_job_dispatch_fn f) { return qb_loop_job_add(loop, p, d, f); }
static int32_t d_add(enum qb_loop_priority p, int32_t fd, int32_t ev, void *d, qb_ipcs_dispatch_fn_t f) { return qb_loop_poll_add(loop, p, fd, ev, d, f); }
static int32_t d_mod(enum qb_loop_priority p, int32_t fd, int32_t ev, void *d, qb_ipcs_dispatch_fn_t f) { return qb_loop_poll_mod(loop, p, fd, ev, d, f); }
static int32_t d_del(int32_t fd) { return qb_loop_poll_del(loop, fd); }

static int list_files(pid_t srv, pid_t cli, int remove_them)
{
	char pfx[64], p2[512], p3[1024];
	int n = 0;
	DIR *d = opendir("/dev/shm");
	struct dirent *e;
	snprintf(pfx, sizeof pfx, "qb-%d-%d-", srv, cli);
	while (d && (e = readdir(d))) {
		if (strncmp(e->d_name, pfx, strlen(pfx))) continue;
		snprintf(p2, sizeof p2, "/dev/shm/%s", e->d_name);
		DIR *d2 = opendir(p2);
		struct dirent *e2;
		while (d2 && (e2 = readdir(d2))) {
			if (e2->d_name[0] == '.') continue;
			snprintf(p3, sizeof p3, "%s/%s", p2, e2->d_name);
			if (remove_them) unlink(p3); else { n++; printf("    left behind: %s\n", p3); }
		}
		if (d2) closedir(d2);
		if (remove_them) rmdir(p2);
	}
	if (d) closedir(d);
	return n;
}

static int one_run(int reap_first)
{
	int pfd[2], left;
	char name[64], b;
	pid_t srv;
	qb_ipcc_connection_t *c;
	struct qb_ipc_request_header rq = { .id = 5, .size = sizeof rq };
	struct qb_ipc_response_header rh;
	struct iovec iov = { &rq, sizeof rq };
	siginfo_t si;
	ssize_t r;

	snprintf(name, sizeof name, "c03demo-%d-%d", getpid(), reap_first);
	if (pipe(pfd)) return -1;
	srv = fork();
	if (srv == 0) {
		struct qb_ipcs_service_handlers sh = { s_accept, s_created, s_msg, s_closed, s_destroyed };
		struct qb_ipcs_poll_handlers ph = { .job_add = j_add, .dispatch_add = d_add, .dispatch_mod = d_mod, .dispatch_del = d_del };
		qb_ipcs_service_t *s;
		loop = qb_loop_create();
		s = qb_ipcs_create(name, 1, QB_IPC_SHM, &sh);
		qb_ipcs_poll_handlers_set(s, &ph);
		if (qb_ipcs_run(s) != 0) _exit(9);
		(void)!write(pfd[1], "R", 1);
		qb_loop_run(loop);
		_exit(0);
	}
	close(pfd[1]);
	if (read(pfd[0], &b, 1) != 1) return -1;
	close(pfd[0]);
	list_files(srv, getpid(), 1);   /* stale leftovers of older processes with these pids */

	c = qb_ipcc_connect(name, 8192);
	if (!c) { perror("connect"); return -1; }
	r = qb_ipcc_sendv_recv(c, &iov, 1, &rh, sizeof rh, 2000);
	printf("  request/response while the server lives: %zd\n", r);

	kill(srv, SIGKILL);
	/* dead for sure (exit status available), but deliberately not reaped */
	si.si_pid = 0;
	waitid(P_PID, srv, &si, WEXITED | WNOWAIT);
	if (reap_first) waitpid(srv, NULL, 0);
	printf("  server %d killed, %s\n", srv, reap_first ? "reaped by its parent" : "not reaped yet (zombie)");

	r = qb_ipcc_sendv_recv(c, &iov, 1, &rh, sizeof rh, -1);
	printf("  qb_ipcc_sendv_recv(-1) after the death: %zd (%s)\n", r, r < 0 ? strerror(-r) : "ok");
	qb_ipcc_disconnect(c);
	left = list_files(srv, getpid(), 0);
	printf("  files of the dead server left after qb_ipcc_disconnect(): %d\n", left);
	if (!reap_first) waitpid(srv, NULL, 0);
	list_files(srv, getpid(), 1);
	return left;
}

int main(void)
{
	int a, b;
	setvbuf(stdout, NULL, _IOLBF, 0);
	printf("control: server reaped before the client disconnects\n");
	a = one_run(1);
	printf("case: server dead but still a zombie when the client disconnects\n");
	b = one_run(0);
	if (a < 0 || b < 0) { printf("SETUP ERROR\n"); return 2; }
	if (a == 0 && b == 0) { printf("PROPERTY HELD\n"); return 0; }
	printf("PROPERTY VIOLATED: %d file(s) left in the control run, %d with the zombie server\n", a, b);
	return 1;
}
