#define _GNU_SOURCE
#include <sys/types.h>
#include <sys/socket.h>
#include <sys/stat.h>
#include <sys/mman.h>
#include <sys/uio.h>
#include <sys/epoll.h>
#include <sys/syscall.h>
#include <semaphore.h>
#include <signal.h>
#include <poll.h>
#include <fcntl.h>
#include <stdarg.h>
#include <stdlib.h>
#include <string.h>
#include <time.h>
#include <unistd.h>
#include "wraps.h"

struct kp_shared *kp;

void kp_tick(const char *name)
{
	if (!kp) return;
	if (!kp->armed) {
		if (kp->arm_on_accept && strcmp(name, "accept") == 0) {
			kp->armed = 1;
		} else {
			return;
		}
	}
	kp->count++;
	if (kp->kill_at && kp->count == kp->kill_at) {
		strncpy((char *)kp->last, name, sizeof(kp->last) - 1);
		syscall(SYS_kill, getpid(), SIGKILL);
		for (;;) pause();
	}
}

#define W(ret, name, params, args) \
	ret __real_##name params; \
	ret __wrap_##name params { kp_tick(#name); return __real_##name args; }

W(int, socket, (int a, int b, int c), (a, b, c))
W(int, connect, (int a, const struct sockaddr *b, socklen_t c), (a, b, c))
W(int, bind, (int a, const struct sockaddr *b, socklen_t c), (a, b, c))
W(int, listen, (int a, int b), (a, b))
W(int, accept, (int a, struct sockaddr *b, socklen_t *c), (a, b, c))
W(ssize_t, send, (int a, const void *b, size_t c, int d), (a, b, c, d))
W(ssize_t, recv, (int a, void *b, size_t c, int d), (a, b, c, d))
W(ssize_t, sendmsg, (int a, const struct msghdr *b, int c), (a, b, c))
W(ssize_t, recvmsg, (int a, struct msghdr *b, int c), (a, b, c))
W(ssize_t, writev, (int a, const struct iovec *b, int c), (a, b, c))
W(ssize_t, write, (int a, const void *b, size_t c), (a, b, c))
W(ssize_t, read, (int a, void *b, size_t c), (a, b, c))
W(int, poll, (struct pollfd *a, nfds_t b, int c), (a, b, c))
W(int, setsockopt, (int a, int b, int c, const void *d, socklen_t e), (a, b, c, d, e))
W(int, getsockopt, (int a, int b, int c, void *d, socklen_t *e), (a, b, c, d, e))
W(int, getsockname, (int a, struct sockaddr *b, socklen_t *c), (a, b, c))
W(int, shutdown, (int a, int b), (a, b))
W(int, close, (int a), (a))
W(int, mkstemp, (char *a), (a))
W(char *, mkdtemp, (char *a), (a))
W(int, ftruncate, (int a, off_t b), (a, b))
W(int, posix_fallocate, (int a, off_t b, off_t c), (a, b, c))
W(void *, mmap, (void *a, size_t b, int c, int d, int e, off_t f), (a, b, c, d, e, f))
W(int, munmap, (void *a, size_t b), (a, b))
W(int, unlink, (const char *a), (a))
W(int, unlinkat, (int a, const char *b, int c), (a, b, c))
W(int, rmdir, (const char *a), (a))
W(int, chmod, (const char *a, mode_t b), (a, b))
W(int, chown, (const char *a, uid_t b, gid_t c), (a, b, c))
W(int, fchmod, (int a, mode_t b), (a, b))
W(int, fchown, (int a, uid_t b, gid_t c), (a, b, c))
W(int, nanosleep, (const struct timespec *a, struct timespec *b), (a, b))
W(int, usleep, (useconds_t a), (a))
W(int, kill, (pid_t a, int b), (a, b))
W(int, truncate, (const char *a, off_t b), (a, b))
W(int, epoll_wait, (int a, struct epoll_event *b, int c, int d), (a, b, c, d))
W(int, epoll_ctl, (int a, int b, int c, struct epoll_event *d), (a, b, c, d))
W(int, sem_wait, (sem_t *a), (a))
W(int, sem_trywait, (sem_t *a), (a))
W(int, sem_timedwait, (sem_t *a, const struct timespec *b), (a, b))
W(int, sem_post, (sem_t *a), (a))
W(int, sem_init, (sem_t *a, int b, unsigned c), (a, b, c))
W(int, sem_destroy, (sem_t *a), (a))
W(int, sigaction, (int a, const struct sigaction *b, struct sigaction *c), (a, b, c))

int __real_open(const char *path, int flags, ...);
int __wrap_open(const char *path, int flags, ...)
{
	mode_t m = 0;
	va_list ap;
	va_start(ap, flags);
	if (flags & (O_CREAT | O_TMPFILE)) m = va_arg(ap, mode_t);
	va_end(ap);
	kp_tick("open");
	return __real_open(path, flags, m);
}
int __real_openat(int dfd, const char *path, int flags, ...);
int __wrap_openat(int dfd, const char *path, int flags, ...)
{
	mode_t m = 0;
	va_list ap;
	va_start(ap, flags);
	if (flags & (O_CREAT | O_TMPFILE)) m = va_arg(ap, mode_t);
	va_end(ap);
	kp_tick("openat");
	return __real_openat(dfd, path, flags, m);
}
int __real_fcntl(int fd, int cmd, ...);
int __wrap_fcntl(int fd, int cmd, ...)
{
	long arg;
	va_list ap;
	va_start(ap, cmd);
	arg = va_arg(ap, long);
	va_end(ap);
	kp_tick("fcntl");
	return __real_fcntl(fd, cmd, arg);
}
