#!/bin/sh
cd /tmp/hunt2-C03
export LD_LIBRARY_PATH=/repo/lib/.libs ASAN_OPTIONS=detect_leaks=0
for t in shm sock; do timeout 200 ./c03fuzz prefix $t 2>&1; for k in 1 2 3 4; do for s in Ce CEvD CqqQQwrv; do timeout 100 ./c03fuzz enumc $t $s 0,0,$k 2>&1 | grep -v "^ops"; timeout 100 ./c03fuzz enumc $t $s 1,2,$k 2>&1 | grep -v "^ops"; done; done; done; echo PREFIX-DONE
