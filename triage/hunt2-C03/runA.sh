#!/bin/sh
cd /tmp/hunt2-C03
export LD_LIBRARY_PATH=/repo/lib/.libs ASAN_OPTIONS=detect_leaks=0
for t in shm sock; do for s in CD CEvD CEsssSqqqX CBEhqQrvD AeEEQQwwX CsssssssssssX CqqqqqqD; do for o in 0,0,0 1,3,0; do timeout 280 ./c03fuzz enumc $t $s $o 2>&1 | grep -v "^ops"; done; done; done; echo ENUMC-DONE
