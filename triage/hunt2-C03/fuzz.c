/*
 * C03 tester: death of the IPC peer at any point is detected and cleaned up.
 *
 * One binary, three kinds of processes:
 *   orchestrator : never dies; owns a "witness" client connection to the
 *                  server that must keep being served, asks the server for
 *                  its bookkeeping (open descriptors, /dev/shm entries,
 *                  callback counts) after every death.
 *   server       : qb_loop + qb_ipcs service, reference model of callbacks.
 *   client       : runs a script of qb_ipcc_* calls.
 * The process that has to die is "armed": it SIGKILLs itself right before
 * its N-th libc call made from the library (see wraps.c), N enumerated.
 *
 * modes:
 *   fuzz enumc <shm|sock> <script> <opts> [maxmsg]   every kill point of a client script
 *   fuzz enums <shm|sock> <script> [maxmsg]          every kill point of the server
 *   fuzz prefix <shm|sock>                            every prefix of the handshake
 *   fuzz rand <seed> <iters>                          random scripts/kill points/options
 */
#define _GNU_SOURCE
#include <sys/types.h>
#include <sys/socket.h>
#include <sys/un.h>
#include <sys/wait.h>
#include <sys/mman.h>
#include <sys/syscall.h>
#include <sys/stat.h>
#include <sys/time.h>
#include <dirent.h>
#include <errno.h>
#include <fcntl.h>
#include <poll.h>
#include <signal.h>
#include <stdio.h>
#include <stdlib.h>
#include <string.h>
#include <time.h>
#include <unistd.h>
#include <stddef.h>

#include <qb/qbdefs.h>
#include <qb/qbipcc.h>
#include <qb/qbipcs.h>
#include <qb/qbloop.h>
#include <qb/qbutil.h>
#include <qb/qblog.h>
#include "wraps.h"

enum { REQ_ECHO = 10, REQ_EVENTS, REQ_NOREPLY, REQ_SLOW, REQ_STAT, REQ_HOLDREF,
       REQ_CONFIG, REQ_QUIT, REQ_WITNESS };

struct req {
	struct qb_ipc_request_header hdr;
	int32_t arg[4];
	char pad[0];
};
struct stat_rep {
	struct qb_ipc_response_header hdr;
	int32_t nfds, nshm, live, nviol;
	int32_t accepted, created, closed, destroyed;
	char viol[256];
};

static long long now_ms(void)
{
	struct timespec ts;
	clock_gettime(CLOCK_MONOTONIC, &ts);
	return ts.tv_sec * 1000LL + ts.tv_nsec / 1000000;
}
static void real_kill(pid_t p, int sig) { syscall(SYS_kill, p, sig); }

static int verbose = 0;
static long long total_ops = 0;

/* ------------------------------------------------------------------ server */
static qb_loop_t *loop;
static qb_ipcs_service_t *svc;
static int o_closed_rerun, o_timer_ms, o_kill_in, o_holdref;
static int s_nviol, s_accepted, s_created, s_closed, s_destroyed;
static char s_viol[256];

#define MAXC 4096
static struct ctrack {
	void *c; int created, closed, rerun_done, witness, used;
} ct[MAXC];

static void sviol(const char *fmt, void *c, int a)
{
	s_nviol++;
	if (s_viol[0] == 0) snprintf(s_viol, sizeof s_viol, fmt, c, a);
	fprintf(stderr, "SERVER VIOLATION: ");
	fprintf(stderr, fmt, c, a);
	fprintf(stderr, "\n");
}
static struct ctrack *ct_find(void *c)
{
	for (int i = 0; i < MAXC; i++) if (ct[i].used && ct[i].c == c) return &ct[i];
	return NULL;
}
static int ct_live(void)
{
	int n = 0;
	for (int i = 0; i < MAXC; i++) if (ct[i].used) n++;
	return n;
}
static int count_fds(void)
{
	int n = 0;
	DIR *d = opendir("/proc/self/fd");
	struct dirent *e;
	if (!d) return -1;
	while ((e = readdir(d))) if (e->d_name[0] != '.') n++;
	closedir(d);
	return n - 1;
}
static int count_shm(pid_t srvpid, pid_t clipid, int files_only, char *first, size_t fl)
{
	char pfx[64], p2[600];
	int n = 0;
	DIR *d = opendir("/dev/shm");
	struct dirent *e;
	if (clipid) snprintf(pfx, sizeof pfx, "qb-%d-%d-", srvpid, clipid);
	else snprintf(pfx, sizeof pfx, "qb-%d-", srvpid);
	if (!d) return -1;
	while ((e = readdir(d))) {
		if (strncmp(e->d_name, pfx, strlen(pfx))) continue;
		if (!files_only) { n++; if (first && !first[0]) snprintf(first, fl, "%s", e->d_name); }
		snprintf(p2, sizeof p2, "/dev/shm/%s", e->d_name);
		DIR *d2 = opendir(p2);
		if (d2) {
			struct dirent *e2;
			while ((e2 = readdir(d2))) if (e2->d_name[0] != '.') {
				n++;
				if (first && !first[0]) snprintf(first, fl, "%s/%s", e->d_name, e2->d_name);
			}
			closedir(d2);
		}
	}
	closedir(d);
	return n;
}
static void wait_dead(pid_t p)
{
	char path[64], buf[256];
	snprintf(path, sizeof path, "/proc/%d/stat", p);
	for (int i = 0; i < 5000; i++) {
		int fd = open(path, O_RDONLY);
		if (fd < 0) return;
		int n = read(fd, buf, sizeof buf - 1);
		close(fd);
		if (n <= 0) return;
		buf[n] = 0;
		char *r = strrchr(buf, ')');
		if (r && (r[2] == 'Z' || r[2] == 'X')) return;
		struct timespec ts = {0, 200000};
		syscall(SYS_nanosleep, &ts, NULL);
	}
}
static void kill_client_of(qb_ipcs_connection_t *c)
{
	struct qb_ipcs_connection_stats st;
	qb_ipcs_connection_stats_get(c, &st, 0);
	if (st.client_pid == getppid() || st.client_pid <= 1) return;
	real_kill(st.client_pid, SIGKILL);
	wait_dead(st.client_pid);
}

static int32_t s_accept(qb_ipcs_connection_t *c, uid_t u, gid_t g)
{
	struct ctrack *t = ct_find(c);
	if (t) sviol("accept on a connection still tracked %p (%d)", c, 0);
	for (int i = 0; i < MAXC; i++) if (!ct[i].used) {
		memset(&ct[i], 0, sizeof ct[i]);
		ct[i].used = 1; ct[i].c = c;
		break;
	}
	s_accepted++;
	if (o_kill_in == 1) kill_client_of(c);
	return 0;
}
static void s_created_fn(qb_ipcs_connection_t *c)
{
	struct ctrack *t = ct_find(c);
	if (!t) sviol("created for unknown connection %p (%d)", c, 0);
	else { if (t->created) sviol("created twice %p (%d)", c, 0); t->created = 1; }
	s_created++;
	if (o_kill_in == 2) kill_client_of(c);
}
static int32_t s_closed_fn(qb_ipcs_connection_t *c)
{
	struct ctrack *t = ct_find(c);
	s_closed++;
	if (!t) { sviol("closed for unknown/destroyed connection %p (%d)", c, 0); return 0; }
	if (!t->created) sviol("closed without created %p (%d)", c, 0);
	t->closed++;
	if (o_closed_rerun && !t->rerun_done) { t->rerun_done = 1; return -1; }
	if (t->closed > 1 + t->rerun_done) sviol("closed run too often %p (%d times)", c, t->closed);
	return 0;
}
static void s_destroyed_fn(qb_ipcs_connection_t *c)
{
	struct ctrack *t = ct_find(c);
	s_destroyed++;
	if (!t) { sviol("destroyed for unknown (twice?) connection %p (%d)", c, 0); return; }
	if (t->created && t->closed == 0) sviol("destroyed without closed %p (%d)", c, 0);
	t->used = 0;
}

struct held { qb_ipcs_connection_t *c; };
static void release_ref(void *d)
{
	struct held *h = d;
	/* try to talk to it once more, as an application would */
	char ev[32];
	struct qb_ipc_response_header *r = (void *)ev;
	r->id = 99; r->size = sizeof ev; r->error = 0;
	(void)qb_ipcs_event_send(h->c, ev, sizeof ev);
	qb_ipcs_connection_unref(h->c);
	free(h);
}
static void send_events(qb_ipcs_connection_t *c, int n, int size)
{
	char buf[256];
	struct qb_ipc_response_header *r = (void *)buf;
	if (size < (int)sizeof *r) size = sizeof *r;
	if (size > (int)sizeof buf) size = sizeof buf;
	memset(buf, 0x5a, sizeof buf);
	for (int i = 0; i < n; i++) {
		r->id = 77; r->size = size; r->error = i;
		(void)qb_ipcs_event_send(c, buf, size);
	}
}
static void timer_fn(void *d)
{
	qb_loop_timer_handle th;
	if (o_timer_ms > 0) {
		qb_ipcs_connection_t *c = qb_ipcs_connection_first_get(svc), *n;
		while (c) {
			struct ctrack *t = ct_find(c);
			n = qb_ipcs_connection_next_get(svc, c);
			if (t && !t->witness) send_events(c, 1, 24);
			qb_ipcs_connection_unref(c);
			c = n;
		}
		qb_loop_timer_add(loop, QB_LOOP_LOW, (uint64_t)o_timer_ms * 1000000ULL, NULL, timer_fn, &th);
	}
}

static int32_t s_msg(qb_ipcs_connection_t *c, void *data, size_t size)
{
	struct req *rq = data;
	static char big[1100000];
	struct qb_ipc_response_header *rh = (void *)big;
	struct ctrack *t = ct_find(c);

	if (!t) sviol("msg_process for unknown connection %p (%d)", c, 0);
	if (size < sizeof(struct qb_ipc_request_header)) return 0;
	if (o_kill_in == 3 && rq->hdr.id != REQ_STAT && rq->hdr.id != REQ_CONFIG) kill_client_of(c);
	switch (rq->hdr.id) {
	case REQ_ECHO:
		memset(big, 0x11, size);
		rh->id = rq->hdr.id; rh->size = size; rh->error = 0;
		(void)qb_ipcs_response_send(c, big, size);
		break;
	case REQ_EVENTS:
		rh->id = rq->hdr.id; rh->size = sizeof *rh; rh->error = 0;
		(void)qb_ipcs_response_send(c, rh, sizeof *rh);
		if (o_kill_in == 4) kill_client_of(c);
		send_events(c, rq->arg[0], rq->arg[1]);
		break;
	case REQ_NOREPLY:
		break;
	case REQ_SLOW: {
		struct timespec ts = {0, 20000000};
		syscall(SYS_nanosleep, &ts, NULL);
		rh->id = rq->hdr.id; rh->size = sizeof *rh; rh->error = 0;
		(void)qb_ipcs_response_send(c, rh, sizeof *rh);
		break;
	}
	case REQ_HOLDREF: {
		struct held *h = malloc(sizeof *h);
		qb_loop_timer_handle th;
		h->c = c;
		qb_ipcs_connection_ref(c);
		qb_loop_timer_add(loop, QB_LOOP_LOW, 30ULL * 1000000ULL, h, release_ref, &th);
		rh->id = rq->hdr.id; rh->size = sizeof *rh; rh->error = 0;
		(void)qb_ipcs_response_send(c, rh, sizeof *rh);
		break;
	}
	case REQ_WITNESS:
		if (t) t->witness = 1;
		rh->id = rq->hdr.id; rh->size = sizeof *rh; rh->error = 0;
		(void)qb_ipcs_response_send(c, rh, sizeof *rh);
		break;
	case REQ_CONFIG: {
		int old_timer = o_timer_ms;
		o_closed_rerun = rq->arg[0];
		o_timer_ms = rq->arg[1];
		o_kill_in = rq->arg[2];
		o_holdref = rq->arg[3];
		if (o_timer_ms > 0 && old_timer <= 0) timer_fn(NULL);
		rh->id = rq->hdr.id; rh->size = sizeof *rh; rh->error = 0;
		(void)qb_ipcs_response_send(c, rh, sizeof *rh);
		break;
	}
	case REQ_STAT: {
		struct stat_rep sr;
		memset(&sr, 0, sizeof sr);
		sr.hdr.id = REQ_STAT; sr.hdr.size = sizeof sr;
		sr.nfds = count_fds();
		sr.nshm = count_shm(getpid(), 0, 0, NULL, 0);
		sr.live = ct_live();
		sr.nviol = s_nviol;
		sr.accepted = s_accepted; sr.created = s_created;
		sr.closed = s_closed; sr.destroyed = s_destroyed;
		memcpy(sr.viol, s_viol, sizeof sr.viol);
		(void)qb_ipcs_response_send(c, &sr, sizeof sr);
		break;
	}
	case REQ_QUIT:
		rh->id = rq->hdr.id; rh->size = sizeof *rh; rh->error = 0;
		(void)qb_ipcs_response_send(c, rh, sizeof *rh);
		qb_loop_stop(loop);
		break;
	default:
		break;
	}
	return 0;
}

static int32_t my_job_add(enum qb_loop_priority p, void *d, qb_loop_job_dispatch_fn f)
{ return qb_loop_job_add(loop, p, d, f); }
static int32_t my_dispatch_add(enum qb_loop_priority p, int32_t fd, int32_t ev, void *d, qb_ipcs_dispatch_fn_t f)
{ return qb_loop_poll_add(loop, p, fd, ev, d, f); }
static int32_t my_dispatch_mod(enum qb_loop_priority p, int32_t fd, int32_t ev, void *d, qb_ipcs_dispatch_fn_t f)
{ return qb_loop_poll_mod(loop, p, fd, ev, d, f); }
static int32_t my_dispatch_del(int32_t fd)
{ return qb_loop_poll_del(loop, fd); }

static void server_main(int transport, int readyfd, size_t enforce)
{
	char name[64];
	struct qb_ipcs_service_handlers sh = {
		.connection_accept = s_accept, .connection_created = s_created_fn,
		.msg_process = s_msg, .connection_closed = s_closed_fn,
		.connection_destroyed = s_destroyed_fn,
	};
	struct qb_ipcs_poll_handlers ph = {
		.job_add = my_job_add, .dispatch_add = my_dispatch_add,
		.dispatch_mod = my_dispatch_mod, .dispatch_del = my_dispatch_del,
	};
	int32_t res;
	int stale = count_shm(getpid(), 0, 0, NULL, 0); /* leftovers of an older process with our pid */

	signal(SIGPIPE, SIG_DFL);
	snprintf(name, sizeof name, "c03-%d", getpid());
	loop = qb_loop_create();
	svc = qb_ipcs_create(name, 4, transport, &sh);
	if (enforce) qb_ipcs_enforce_buffer_size(svc, enforce);
	qb_ipcs_poll_handlers_set(svc, &ph);
	res = qb_ipcs_run(svc);
	if (res != 0) { fprintf(stderr, "qb_ipcs_run %d\n", res); _exit(9); }
	if (write(readyfd, "R", 1) != 1) _exit(9);
	close(readyfd);
	qb_loop_run(loop);
	qb_ipcs_destroy(svc);
	{
		char first[300] = "";
		int n = count_shm(getpid(), 0, 0, first, sizeof first);
		if (n != stale) { fprintf(stderr, "SERVER: %d /dev/shm entries left at exit (%s), %d were there before\n", n, first, stale); s_nviol++; }
		if (ct_live()) { fprintf(stderr, "SERVER: %d connections never destroyed\n", ct_live()); s_nviol++; }
	}
	qb_loop_destroy(loop);
	_exit(s_nviol ? 3 : 0);
}

/* ------------------------------------------------------------------ client */
static size_t g_maxmsg = 8192;

static ssize_t c_call(qb_ipcc_connection_t *c, int id, int a0, int a1, size_t size, int tmo, void *rep, size_t replen)
{
	static char buf[1100000];
	struct req *rq = (void *)buf;
	struct iovec iov;
	if (size < sizeof *rq) size = sizeof *rq;
	memset(buf, 0x22, size);
	rq->hdr.id = id; rq->hdr.size = size;
	rq->arg[0] = a0; rq->arg[1] = a1; rq->arg[2] = rq->arg[3] = 0;
	iov.iov_base = buf; iov.iov_len = size;
	total_ops++;
	return qb_ipcc_sendv_recv(c, &iov, 1, rep, replen, tmo);
}
static ssize_t c_send(qb_ipcc_connection_t *c, int id, int a0, int a1, size_t size)
{
	static char buf[1100000];
	struct req *rq = (void *)buf;
	if (size < sizeof *rq) size = sizeof *rq;
	memset(buf, 0x33, size);
	rq->hdr.id = id; rq->hdr.size = size;
	rq->arg[0] = a0; rq->arg[1] = a1; rq->arg[2] = rq->arg[3] = 0;
	total_ops++;
	return qb_ipcc_send(c, buf, size);
}

/* unchecked script, used by the process that is to die */
static void run_script(const char *name, const char *script)
{
	static char rep[1100000];
	qb_ipcc_connection_t *c = NULL;
	for (const char *p = script; *p; p++) {
		if (*p != 'C' && *p != 'A' && *p != 'w' && *p != 'X' && c == NULL) continue;
		switch (*p) {
		case 'C': c = qb_ipcc_connect(name, g_maxmsg); break;
		case 'A': {
			int fd = -1;
			c = qb_ipcc_connect_async(name, g_maxmsg, &fd);
			if (c) {
				struct pollfd pf = { .fd = fd, .events = POLLIN };
				poll(&pf, 1, 2000);
				if (qb_ipcc_connect_continue(c) != 0) c = NULL;
			}
			break;
		}
		case 'e': c_call(c, REQ_ECHO, 0, 0, 64, 1000, rep, sizeof rep); break;
		case 'B': c_call(c, REQ_ECHO, 0, 0, qb_ipcc_get_buffer_size(c), 1000, rep, sizeof rep); break;
		case 'E': c_call(c, REQ_EVENTS, 3, 100, 0, 1000, rep, sizeof rep); break;
		case 'h': c_call(c, REQ_HOLDREF, 0, 0, 0, 1000, rep, sizeof rep); break;
		case 's': c_send(c, REQ_NOREPLY, 0, 0, 40); break;
		case 'S': c_send(c, REQ_SLOW, 0, 0, 0); break;
		case 'q': c_send(c, REQ_ECHO, 0, 0, 200); break;
		case 'Q': c_send(c, REQ_EVENTS, 2, 60, 0); break;
		case 'r': total_ops++; qb_ipcc_recv(c, rep, sizeof rep, 300); break;
		case 'v': total_ops++; qb_ipcc_event_recv(c, rep, sizeof rep, 300); break;
		case 'w': { struct timespec ts = {0, 3000000}; syscall(SYS_nanosleep, &ts, NULL); break; }
		case 'D': qb_ipcc_disconnect(c); c = NULL; break;
		case 'X': if (kp) { kp->armed = 0; kp->total = kp->count; kp->completed = 1; } real_kill(getpid(), SIGKILL); break;
		}
	}
}

/* ------------------------------------------------------------ orchestrator */
static struct kp_shared *sh;   /* shared with the process that is to die */
static pid_t srv_pid;
static int srv_stale;
static char srv_name[64];
static qb_ipcc_connection_t *wit;

static pid_t start_server(int transport, int armed_kill_at, size_t enforce)
{
	int pfd[2];
	char b;
	pid_t p;
	if (pipe(pfd)) { perror("pipe"); exit(2); }
	memset(sh, 0, sizeof *sh);
	p = fork();
	if (p == 0) {
		close(pfd[0]);
		if (armed_kill_at) {
			kp = sh;
			kp->kill_at = armed_kill_at;
			kp->arm_on_accept = 1;
		} else {
			kp = NULL;
		}
		server_main(transport, pfd[1], enforce);
		_exit(0);
	}
	close(pfd[1]);
	if (read(pfd[0], &b, 1) != 1) { fprintf(stderr, "server did not start\n"); exit(2); }
	close(pfd[0]);
	srv_pid = p;
	srv_stale = 0;
	snprintf(srv_name, sizeof srv_name, "c03-%d", p);
	return p;
}
static int wit_stat(struct stat_rep *sr)
{
	ssize_t r = c_call(wit, REQ_STAT, 0, 0, 0, 20000, sr, sizeof *sr);
	return r == sizeof *sr ? 0 : (int)(r < 0 ? r : -1000);
}
static int wit_config(int rerun, int timer, int kill_in, int holdref)
{
	static char buf[64];
	struct req *rq = (void *)buf;
	struct qb_ipc_response_header rh;
	struct iovec iov = { buf, sizeof *rq };
	rq->hdr.id = REQ_CONFIG; rq->hdr.size = sizeof *rq;
	rq->arg[0] = rerun; rq->arg[1] = timer; rq->arg[2] = kill_in; rq->arg[3] = holdref;
	return qb_ipcc_sendv_recv(wit, &iov, 1, &rh, sizeof rh, 20000) == sizeof rh ? 0 : -1;
}
static int wit_open(void)
{
	struct qb_ipc_response_header rh;
	wit = qb_ipcc_connect(srv_name, 8192);
	if (!wit) { perror("witness connect"); return -1; }
	if (c_call(wit, REQ_WITNESS, 0, 0, 0, 20000, &rh, sizeof rh) != sizeof rh) return -1;
	return 0;
}
static int stop_server(void)
{
	struct qb_ipc_response_header rh;
	int st = 0;
	wit_config(0, 0, 0, 0);
	c_call(wit, REQ_QUIT, 0, 0, 0, 20000, &rh, sizeof rh);
	qb_ipcc_disconnect(wit);
	wit = NULL;
	waitpid(srv_pid, &st, 0);
	if (!WIFEXITED(st) || WEXITSTATUS(st) != 0) {
		printf("FAIL: server exit status 0x%x (sanitizer report or bookkeeping violation)\n", st);
		return 1;
	}
	{
		char first[300] = "";
		int n = count_shm(srv_pid, 0, 0, first, sizeof first);
		if (n > 0) { printf("NOTE: %d entries in /dev/shm match server %d (%s) - stale leftovers of other processes are possible, server's own check is authoritative\n", n, srv_pid, first); }
	}
	return 0;
}

static struct stat_rep base;
static long long max_settle_ms, max_wit_ms;

/* after a client died: the server must come back to its baseline */
static int settle(const char *what)
{
	struct stat_rep sr;
	long long t0 = now_ms(), t1;
	int r, first = 1;
	for (;;) {
		long long a = now_ms();
		r = wit_stat(&sr);
		t1 = now_ms();
		if (first) { if (t1 - a > max_wit_ms) max_wit_ms = t1 - a; first = 0; }
		if (r != 0) { printf("FAIL[%s]: witness no longer served (%d)\n", what, r); return 1; }
		if (sr.nviol != base.nviol) { printf("FAIL[%s]: callback model violated: %s\n", what, sr.viol); base.nviol = sr.nviol; return 1; }
		if (sr.live == base.live && sr.nfds == base.nfds && sr.nshm == base.nshm) break;
		if (t1 - t0 > 15000) {
			printf("FAIL[%s]: server did not return to baseline within 15s: live %d (base %d) fds %d (base %d) shm entries %d (base %d)\n",
			       what, sr.live, base.live, sr.nfds, base.nfds, sr.nshm, base.nshm);
			/* re-base so that one leak is reported once */
			base = sr;
			return 1;
		}
		struct timespec ts = {0, 2000000};
		syscall(SYS_nanosleep, &ts, NULL);
	}
	if (t1 - t0 > max_settle_ms) max_settle_ms = t1 - t0;
	return 0;
}

/* run one client that dies at its n-th call; returns 1 if it completed */
static pid_t spawn_client(const char *script, int n)
{
	pid_t p;
	memset(sh, 0, sizeof *sh);
	p = fork();
	if (p == 0) {
		kp = sh;
		kp->kill_at = n;
		kp->armed = 1;
		run_script(srv_name, script);
		kp->armed = 0;
		kp->total = kp->count;
		kp->completed = 1;
		_exit(0);
	}
	return p;
}

static int enum_client(int transport, const char *script, const char *opts, size_t maxmsg)
{
	int fails = 0, n, rerun = 0, timer = 0, kill_in = 0;
	g_maxmsg = maxmsg;
	sscanf(opts, "%d,%d,%d", &rerun, &timer, &kill_in);
	start_server(transport, 0, 0);
	if (wit_open()) return 1;
	if (wit_config(rerun, timer, kill_in, 0)) return 1;
	if (wit_stat(&base)) return 1;
	for (n = 1; n < 5000; n++) {
		int st;
		char what[128];
		pid_t p = spawn_client(script, kill_in ? 0 : n);
		waitpid(p, &st, 0);
		total_ops += sh->count;
		snprintf(what, sizeof what, "%s script=%s opts=%s maxmsg=%zu kill@%d(%s)",
			 transport == QB_IPC_SHM ? "shm" : "sock", script, opts, maxmsg, n, (char *)sh->last);
		if (verbose) printf("  %s completed=%d\n", what, sh->completed);
		if (WIFSIGNALED(st) && WTERMSIG(st) != SIGKILL) {
			printf("FAIL[%s]: client crashed with signal %d\n", what, WTERMSIG(st)); fails++;
		}
		if (WIFEXITED(st) && WEXITSTATUS(st) != 0) {
			printf("FAIL[%s]: client exit %d (sanitizer?)\n", what, WEXITSTATUS(st)); fails++;
		}
		fails += settle(what);
		if (sh->completed || kill_in) break;
		if (fails > 20) break;
	}
	printf("enumc %s script=%s opts=%s maxmsg=%zu: %d kill points, %d failures, max settle %lld ms, max witness latency %lld ms\n",
	       transport == QB_IPC_SHM ? "shm" : "sock", script, opts, maxmsg, n, fails, max_settle_ms, max_wit_ms);
	fails += stop_server();
	return fails;
}

/* ---- handshake prefixes ---- */
struct hs_req { struct qb_ipc_request_header hdr; uint32_t max_msg_size; } __attribute__((aligned(8)));

static int raw_connect(const char *name)
{
	struct sockaddr_un a;
	int fd = socket(AF_UNIX, SOCK_STREAM, 0);
	memset(&a, 0, sizeof a);
	a.sun_family = AF_UNIX;
	snprintf(a.sun_path + 1, sizeof(a.sun_path) - 1, "%s", name);
	if (connect(fd, (struct sockaddr *)&a, offsetof(struct sockaddr_un, sun_path) + 1 + strlen(name)) != 0) {
		/* libqb uses QB_SUN_LEN; try full length */
		if (connect(fd, (struct sockaddr *)&a, sizeof a) != 0) { perror("raw connect"); close(fd); return -1; }
	}
	return fd;
}

static int prefix_mode(int transport)
{
	int fails = 0;
	struct hs_req rq;
	start_server(transport, 0, 0);
	if (wit_open()) return 1;
	if (wit_stat(&base)) return 1;
	memset(&rq, 0, sizeof rq);
	rq.hdr.id = QB_IPC_MSG_AUTHENTICATE;
	rq.hdr.size = sizeof rq;
	rq.max_msg_size = 8192;
	for (int variant = 0; variant < 4; variant++) {
		for (size_t k = 0; k <= sizeof rq + 1; k++) {
			char what[128];
			int st;
			pid_t p = fork();
			if (p == 0) {
				int fd = raw_connect(srv_name);
				char extra = 7;
				if (fd < 0) _exit(5);
				if (variant == 1) rq.max_msg_size = 0;
				if (variant == 2) rq.hdr.id = 4242;
				size_t kk = k > sizeof rq ? sizeof rq : k;
				if (kk && write(fd, &rq, kk) != (ssize_t)kk) _exit(6);
				if (k > sizeof rq) (void)!write(fd, &extra, 1);
				if (variant == 3) { /* linger a little, split delivery */
					struct timespec ts = {0, 5000000};
					nanosleep(&ts, NULL);
				}
				real_kill(getpid(), SIGKILL);
				_exit(0);
			}
			waitpid(p, &st, 0);
			total_ops++;
			snprintf(what, sizeof what, "%s handshake variant %d prefix %zu/%zu",
				 transport == QB_IPC_SHM ? "shm" : "sock", variant, k, sizeof rq);
			fails += settle(what);
		}
	}
	printf("prefix %s: %d failures, max settle %lld ms\n", transport == QB_IPC_SHM ? "shm" : "sock", fails, max_settle_ms);
	fails += stop_server();
	return fails;
}

/* ---- server death, checked client ---- */
struct cres {
	volatile int done, fails, saw_disc, connected;
	volatile char msg[1024];
};
static struct cres *cr;
static void cfail(const char *fmt, const char *op, long long a, long long b)
{
	char tmp[256];
	snprintf(tmp, sizeof tmp, fmt, op, a, b);
	cr->fails++;
	if (strlen((char *)cr->msg) + strlen(tmp) + 3 < sizeof cr->msg) {
		strcat((char *)cr->msg, tmp);
		strcat((char *)cr->msg, "; ");
	}
}
static int is_disc(long long r)
{
	return r < 0 && r != -EAGAIN && r != -ETIMEDOUT && r != -EINTR && r != -EMSGSIZE && r != -ENOMSG && r != -EINVAL;
}
static const char *cur_op = "?";
static void on_alarm(int s)
{
	(void)s;
	cfail("HANG: %s did not return within the watchdog (%lld s)%.0lld", cur_op, 12, 0);
	cr->done = 2;
	_exit(7);
}

static void checked_client(const char *name, const char *script, int tokfd, pid_t srvpid)
{
	static char rep[1100000];
	qb_ipcc_connection_t *c = NULL;
	long long t0, dt, r = 0;
	int disc = 0;
	const char *p;

	int stale_files = count_shm(srvpid, getpid(), 1, NULL, 0);
	signal(SIGALRM, on_alarm);
	for (p = script; *p; p++) {
		int tmo = 0, unbounded = 0;
		char opn[32];
		snprintf(opn, sizeof opn, "op '%c' #%d", *p, (int)(p - script));
		cur_op = opn;
		if (c == NULL && *p != 'C' && *p != 'A') continue;
		alarm(12);
		t0 = now_ms();
		switch (*p) {
		case 'C':
			c = qb_ipcc_connect(name, g_maxmsg);
			cr->connected = c != NULL;
			r = 0; tmo = 3000;
			break;
		case 'A': {
			int fd = -1;
			c = qb_ipcc_connect_async(name, g_maxmsg, &fd);
			if (c) {
				struct pollfd pf = { .fd = fd, .events = POLLIN };
				poll(&pf, 1, 3000);
				if (qb_ipcc_connect_continue(c) != 0) c = NULL;
			}
			cr->connected = c != NULL;
			r = 0; tmo = 4000;
			break;
		}
		case 'e': tmo = 400; r = c_call(c, REQ_ECHO, 0, 0, 64, tmo, rep, sizeof rep); break;
		case 'B': tmo = 400; r = c_call(c, REQ_ECHO, 0, 0, qb_ipcc_get_buffer_size(c), tmo, rep, sizeof rep); break;
		case 'E': tmo = 400; r = c_call(c, REQ_EVENTS, 2, 80, 0, tmo, rep, sizeof rep); break;
		case 'F': unbounded = 1; r = c_call(c, REQ_EVENTS, 2, 80, 0, -1, rep, sizeof rep); break;
		case 'f': unbounded = 1; r = c_call(c, REQ_ECHO, 0, 0, 100, -1, rep, sizeof rep); break;
		case 's': tmo = 1; r = c_send(c, REQ_NOREPLY, 0, 0, 40); break;
		case 'q': tmo = 1; r = c_send(c, REQ_ECHO, 0, 0, 200); break;
		case 'r': tmo = 300; total_ops++; r = qb_ipcc_recv(c, rep, sizeof rep, tmo); break;
		case 'v': tmo = 300; total_ops++; r = qb_ipcc_event_recv(c, rep, sizeof rep, tmo); break;
		case 'V': /* wait for ever for an event that was asked for (or for the disconnect) */
			unbounded = 1; total_ops++; r = qb_ipcc_event_recv(c, rep, sizeof rep, -1); break;
		case 'w': { struct timespec ts = {0, 3000000}; syscall(SYS_nanosleep, &ts, NULL); r = 0; tmo = 10; break; }
		default: continue;
		}
		dt = now_ms() - t0;
		alarm(0);
		if (!unbounded && dt > tmo + 700) cfail("%s overran its deadline: took %lld ms for timeout %lld ms", opn, dt, tmo);
		if (unbounded && dt > 2 * 2000 + 1500) cfail("%s (infinite timeout) took %lld ms%.0lld", opn, dt, 0);
		if (disc && *p != 'C' && *p != 'A') {
			/* after a disconnect was reported every later call fails at once;
			 * a receive may still hand out what had arrived */
			if (r >= 0 && *p != 'r' && *p != 'v' && *p != 'V' && *p != 'w')
				cfail("%s succeeded (%lld) after a disconnect was reported%.0lld", opn, r, 0);
			if (dt > 300) cfail("%s took %lld ms after a disconnect was reported%.0lld", opn, dt, 0);
		}
		if (c && is_disc(r) && *p != 'C' && *p != 'A') { disc = 1; cr->saw_disc = 1; }
		if (unbounded && r < 0 && !is_disc(r))
			cfail("%s (infinite timeout) returned %lld, not a disconnect error%.0lld", opn, r, 0);
	}
	/* was the server alive all along?  then nothing to check */
	{
		char b;
		int n;
		struct pollfd pf = { .fd = tokfd, .events = POLLIN };
		/* orchestrator writes 'D' once the server is reaped, 'L' if it lives */
		if (!disc) cr->done = 3;
		poll(&pf, 1, 20000);
		n = read(tokfd, &b, 1);
		if (n == 1 && b == 'D' && c) {
			/* server is dead and reaped: everything fails now, quickly */
			const char *tail = "sfFVrv";
			for (p = tail; *p; p++) {
				char opn[32];
				snprintf(opn, sizeof opn, "post-mortem op '%c'", *p);
				cur_op = opn;
				alarm(12);
				t0 = now_ms();
				switch (*p) {
				case 's': r = c_send(c, REQ_NOREPLY, 0, 0, 40); break;
				case 'f': r = c_call(c, REQ_ECHO, 0, 0, 100, -1, rep, sizeof rep); break;
				case 'F': r = c_call(c, REQ_ECHO, 0, 0, 100, 200, rep, sizeof rep); break;
				case 'V': r = qb_ipcc_event_recv(c, rep, sizeof rep, -1); break;
				case 'r': r = qb_ipcc_recv(c, rep, sizeof rep, 200); break;
				case 'v': r = qb_ipcc_event_recv(c, rep, sizeof rep, 200); break;
				}
				dt = now_ms() - t0;
				alarm(0);
				total_ops++;
				if (r >= 0 && *p != 'r' && *p != 'v' && *p != 'V')
					cfail("%s succeeded (%lld) although the server is dead%.0lld", opn, r, 0);
				if ((*p == 'f' || *p == 'V') && !is_disc(r) && r < 0)
					cfail("%s returned %lld, not a disconnect error%.0lld", opn, r, 0);
				if (!disc && dt > 2 * 2000 + 1500) cfail("%s took %lld ms%.0lld", opn, dt, 0);
				if (disc && dt > 300) cfail("%s took %lld ms after a disconnect was reported%.0lld", opn, dt, 0);
				if (is_disc(r)) disc = 1;
			}
			cur_op = "disconnect";
			alarm(12);
			qb_ipcc_disconnect(c);
			alarm(0);
			c = NULL;
			{
				char first[300] = "";
				int nf = count_shm(srvpid, getpid(), 1, first, sizeof first);
				nf -= stale_files;
				if (nf) cfail("%s: files of the dead server left after qb_ipcc_disconnect: %lld (first: see msg)%.0lld", "disconnect", nf, 0);
				if (nf) { strncat((char *)cr->msg, first, sizeof cr->msg - strlen((char *)cr->msg) - 1); }
			}
		} else if (c) {
			qb_ipcc_disconnect(c);
		}
	}
	cr->done = 1;
	_exit(0);
}

static int enum_server(int transport, const char *script, size_t maxmsg)
{
	int fails = 0, n, ndead = 0;
	g_maxmsg = maxmsg;
	for (n = 1; n < 3000; n++) {
		int tok[2], st, sst = 0, server_died = 0;
		pid_t cp, w;
		char what[160];
		start_server(transport, n, 0);
		if (pipe(tok)) return 1;
		memset(cr, 0, sizeof *cr);
		cp = fork();
		if (cp == 0) {
			kp = NULL;
			close(tok[1]);
			checked_client(srv_name, script, tok[0], srv_pid);
			_exit(0);
		}
		close(tok[0]);
		/* reap whoever finishes; the server's parent reaps it at once, like init would */
		{
			int told = 0;
			for (;;) {
				if (getenv("C03_ZOMBIE")) {
					/* the server's parent is slow to reap it: it stays a zombie
					 * until the client is through with its disconnect */
					siginfo_t si;
					si.si_pid = 0;
					w = 0;
					if (!server_died && waitid(P_PID, srv_pid, &si, WEXITED | WNOHANG | WNOWAIT) == 0 && si.si_pid == srv_pid) {
						server_died = 1; sst = SIGKILL;
						if (!told) { (void)!write(tok[1], "D", 1); told = 1; }
					}
					if (waitpid(cp, &st, WNOHANG) == cp) { w = cp; if (server_died) { int s2; waitpid(srv_pid, &s2, 0); } }
				} else
				w = waitpid(-1, &st, WNOHANG);
				if (w == srv_pid) {
					server_died = 1; sst = st;
					if (!told) { (void)!write(tok[1], "D", 1); told = 1; }
				} else if (w == cp) {
					break;
				} else {
					struct timespec ts = {0, 500000};
					syscall(SYS_nanosleep, &ts, NULL);
					if (!server_died && !told && cr->done == 3) {
						(void)!write(tok[1], "L", 1); told = 1;
					}
				}
			}
		}
		close(tok[1]);
		snprintf(what, sizeof what, "%s script=%s maxmsg=%zu server kill@%d(%s)",
			 transport == QB_IPC_SHM ? "shm" : "sock", script, maxmsg, n, (char *)sh->last);
		total_ops += sh->count;
		if (WIFSIGNALED(st)) { printf("FAIL[%s]: client died of signal %d\n", what, WTERMSIG(st)); fails++; }
		else if (WEXITSTATUS(st) != 0 && WEXITSTATUS(st) != 7) { printf("FAIL[%s]: client exit %d\n", what, WEXITSTATUS(st)); fails++; }
		if (cr->fails) { printf("FAIL[%s]: %s\n", what, (char *)cr->msg); fails++; }
		if (verbose) printf("  %s died=%d connected=%d saw_disc=%d\n", what, server_died, cr->connected, cr->saw_disc);
		if (server_died) {
			ndead++;
			if (!(WIFSIGNALED(sst) && WTERMSIG(sst) == SIGKILL)) { printf("FAIL[%s]: server ended with status 0x%x\n", what, sst); fails++; }
			/* leftovers of this dead server that no client could know of are not the property's business; remove them */
			char cmd[128];
			snprintf(cmd, sizeof cmd, "rm -rf /dev/shm/qb-%d-*", srv_pid);
			(void)!system(cmd);
		} else {
			real_kill(srv_pid, SIGKILL);
			waitpid(srv_pid, &st, 0);
			char cmd[128];
			snprintf(cmd, sizeof cmd, "rm -rf /dev/shm/qb-%d-*", srv_pid);
			(void)!system(cmd);
			break;
		}
		if (fails > 20) break;
	}
	printf("enums %s script=%s maxmsg=%zu: %d kill points (%d server deaths), %d failures\n",
	       transport == QB_IPC_SHM ? "shm" : "sock", script, maxmsg, n, ndead, fails);
	return fails;
}

/* ---- random mode ---- */
static unsigned long long rs;
static unsigned rnd(void) { rs = rs * 6364136223846793005ULL + 1442695040888963407ULL; return rs >> 33; }

static int rand_mode(unsigned seed, int iters)
{
	int fails = 0;
	const char ops[] = "eeEBhsSqQrvwwD";
	rs = seed * 2654435761ULL + 12345;
	for (int round = 0; round < iters && fails < 10; round++) {
		int transport = (rnd() & 1) ? QB_IPC_SHM : QB_IPC_SOCKET;
		if (getenv("C03_TRANSPORT")) transport = !strcmp(getenv("C03_TRANSPORT"), "shm") ? QB_IPC_SHM : QB_IPC_SOCKET;
		static const size_t sizes[] = { 0, 1, 4096, 8192, 12311, 12312, 12313, 65536, 1000000 };
		size_t enforce = (rnd() % 4 == 0) ? sizes[rnd() % 9] : 0;
		int rerun = rnd() & 1, timer = (rnd() % 3 == 0) ? 1 + rnd() % 5 : 0;
		start_server(transport, 0, enforce);
		if (wit_open()) return 1;
		if (wit_config(rerun, timer, 0, 0)) return 1;
		if (wit_stat(&base)) return 1;
		for (int it = 0; it < 40 && fails < 10; it++) {
			int nc = 1 + rnd() % 3;
			pid_t pids[3];
			char scripts[3][40];
			char what[256] = "";
			struct kp_shared *shs[3];
			for (int k = 0; k < nc; k++) {
				int len = rnd() % 14, j = 0;
				scripts[k][j++] = (rnd() % 5 == 0) ? 'A' : 'C';
				for (int i = 0; i < len; i++) scripts[k][j++] = ops[rnd() % (sizeof ops - 1)];
				if (rnd() & 1) scripts[k][j++] = 'D'; else scripts[k][j++] = 'X';
				scripts[k][j] = 0;
				shs[k] = sh + 1 + k;
				memset(shs[k], 0, sizeof *shs[k]);
				g_maxmsg = sizes[rnd() % 9];
				int kill_at = rnd() % 5 == 0 ? 0 : 1 + rnd() % 160;
				pids[k] = fork();
				if (pids[k] == 0) {
					kp = shs[k];
					kp->kill_at = kill_at;
					kp->armed = 1;
					run_script(srv_name, scripts[k]);
					kp->armed = 0;
					kp->completed = 1;
					_exit(0);
				}
				snprintf(what + strlen(what), sizeof what - strlen(what), "[%s max=%zu kill@%d]", scripts[k], g_maxmsg, kill_at);
			}
			for (int k = 0; k < nc; k++) {
				int st;
				waitpid(pids[k], &st, 0);
				total_ops += shs[k]->count;
				if ((WIFSIGNALED(st) && WTERMSIG(st) != SIGKILL) || (WIFEXITED(st) && WEXITSTATUS(st))) {
					printf("FAIL[seed %u round %d %s]: client %d ended with status 0x%x\n", seed, round, what, k, st);
					fails++;
				}
			}
			char w2[400];
			snprintf(w2, sizeof w2, "seed %u round %d it %d %s enforce=%zu rerun=%d timer=%d %s", seed, round, it,
				 transport == QB_IPC_SHM ? "shm" : "sock", enforce, rerun, timer, what);
			if (verbose) printf("  %s\n", w2);
			fails += settle(w2);
		}
		fails += stop_server();
	}
	printf("rand seed %u: %d failures, max settle %lld ms, max witness latency %lld ms\n", seed, fails, max_settle_ms, max_wit_ms);
	return fails;
}

int main(int argc, char **argv)
{
	int rc = 1;
	setvbuf(stdout, NULL, _IOLBF, 0);
	signal(SIGPIPE, SIG_IGN);
	if (getenv("C03_VERBOSE")) verbose = 1;
	if (getenv("C03_LOG")) {
		qb_log_init("c03", LOG_USER, LOG_EMERG);
		qb_log_ctl(QB_LOG_SYSLOG, QB_LOG_CONF_ENABLED, QB_FALSE);
		qb_log_filter_ctl(QB_LOG_STDERR, QB_LOG_FILTER_ADD, QB_LOG_FILTER_FILE, "*", LOG_TRACE);
		qb_log_format_set(QB_LOG_STDERR, "%p [%P] %f:%l %b");
		qb_log_ctl(QB_LOG_STDERR, QB_LOG_CONF_ENABLED, QB_TRUE);
	}
	sh = mmap(NULL, 8 * sizeof *sh + sizeof *cr, PROT_READ | PROT_WRITE, MAP_SHARED | MAP_ANONYMOUS, -1, 0);
	cr = (struct cres *)(sh + 8);
	kp = NULL;
	if (argc >= 5 && !strcmp(argv[1], "enumc")) {
		rc = enum_client(!strcmp(argv[2], "shm") ? QB_IPC_SHM : QB_IPC_SOCKET, argv[3], argv[4],
				 argc > 5 ? strtoul(argv[5], 0, 0) : 8192);
	} else if (argc >= 4 && !strcmp(argv[1], "enums")) {
		rc = enum_server(!strcmp(argv[2], "shm") ? QB_IPC_SHM : QB_IPC_SOCKET, argv[3],
				 argc > 4 ? strtoul(argv[4], 0, 0) : 8192);
	} else if (argc >= 3 && !strcmp(argv[1], "prefix")) {
		rc = prefix_mode(!strcmp(argv[2], "shm") ? QB_IPC_SHM : QB_IPC_SOCKET);
	} else if (argc >= 4 && !strcmp(argv[1], "rand")) {
		rc = rand_mode(atoi(argv[2]), atoi(argv[3]));
	} else {
		fprintf(stderr, "usage: see top of fuzz.c\n");
		return 2;
	}
	printf("ops so far: %lld\n", total_ops);
	return rc ? 1 : 0;
}
