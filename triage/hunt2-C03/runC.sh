#!/bin/sh
cd /tmp/hunt2-C03
export LD_LIBRARY_PATH=/repo/lib/.libs ASAN_OPTIONS=detect_leaks=0
for t in shm sock; do for s in CeD CEFVq CfffF AqqqrrvEV CBsssEVVwF CEEEEwwwwF CqqqqqqqqwF; do for m in 8192 0 100000; do timeout 280 ./c03fuzz enums $t $s $m 2>&1 | grep -v "^ops" | cut -c1-600; done; done; done; echo ENUMS-DONE
