#!/bin/sh
# usage: build.sh [tree]   (default /repo)
set -e
T=${1:-/repo}
cd "$(dirname "$0")"
WRAPS="socket connect bind listen accept send recv sendmsg recvmsg writev write read poll setsockopt getsockopt getsockname shutdown close mkstemp mkdtemp ftruncate posix_fallocate mmap munmap unlink unlinkat rmdir chmod chown fchmod fchown nanosleep usleep kill truncate epoll_wait epoll_ctl sem_wait sem_trywait sem_timedwait sem_post sem_init sem_destroy sigaction open openat fcntl"
WL=""
for w in $WRAPS; do WL="$WL -Wl,--wrap=$w"; done
LIBSRC="$T/lib/ipcs.c $T/lib/ipcc.c $T/lib/ipc_setup.c $T/lib/ipc_shm.c $T/lib/ipc_socket.c $T/lib/ringbuffer.c $T/lib/ringbuffer_helper.c $T/lib/unix.c $T/lib/loop.c $T/lib/loop_job.c $T/lib/loop_poll.c $T/lib/loop_poll_epoll.c $T/lib/loop_timerlist.c"
gcc -g -O1 -fsanitize=address,undefined -fno-sanitize=alignment -fno-omit-frame-pointer -DHAVE_CONFIG_H \
  -I$T/include -I$T/include/qb -I$T/lib -I. \
  -o c03fuzz fuzz.c wraps.c $LIBSRC $WL -L$T/lib/.libs -lqb -lpthread
echo built
