#!/bin/sh
cd /tmp/hunt2-C03
export LD_LIBRARY_PATH=/repo/lib/.libs ASAN_OPTIONS=detect_leaks=0
for s in CEFVq AqqqrrvEV CBsssEVVwF CfffF; do timeout 200 ./c03fuzz enums sock $s 8192 2>&1 | grep -v "^ops" | cut -c1-600; done; echo ENUMS-SOCK-DONE
