/*
 * C10 finding 2: the priority rotation is a local of qb_loop_run(), so a
 * loop that is stopped and run again before the rotation has come round
 * starts at "HIGH only" every time: MED and LOW work is never dispatched,
 * however many iterations are executed.
 *
 * Public API only.  A self-re-adding HIGH job stops the loop each time it
 * runs (an application "stepping" the loop); the program calls
 * qb_loop_run() again RUNS times.  Every qb_loop_run() executes exactly one
 * iteration.  One MED job, one LOW job, a zero-delay MED timer and an
 * always-readable LOW descriptor are pending all the time.
 *
 * Part 2: the stop comes from a MED job instead (two iterations per run):
 * MED is served now, LOW still never.
 */
#include <stdio.h>
#include <stdint.h>
#include <unistd.h>
#include <assert.h>
#include <sys/eventfd.h>
#include <qb/qbdefs.h>
#include <qb/qbloop.h>

#define RUNS 1000
static qb_loop_t *l;
static int n_high, n_med_job, n_low_job, n_med_timer, n_low_fd;
static int stopper_prio;

static void stopper(void *d)
{
	if (stopper_prio == QB_LOOP_HIGH) n_high++; else n_med_job++;
	qb_loop_job_add(l, stopper_prio, NULL, stopper);
	qb_loop_stop(l);
}
static void high_job(void *d) { n_high++; qb_loop_job_add(l, QB_LOOP_HIGH, NULL, high_job); }
static void med_job(void *d) { n_med_job++; }
static void low_job(void *d) { n_low_job++; }
static void med_timer(void *d) { n_med_timer++; }
static int32_t low_fd(int32_t fd, int32_t ev, void *d) { n_low_fd++; return 0; }

static int part(int prio)
{
	int i, efd;
	qb_loop_timer_handle th;

	n_high = n_med_job = n_low_job = n_med_timer = n_low_fd = 0;
	stopper_prio = prio;
	l = qb_loop_create();
	efd = eventfd(1, EFD_NONBLOCK);
	assert(qb_loop_job_add(l, prio, NULL, stopper) == 0);
	if (prio != QB_LOOP_HIGH) assert(qb_loop_job_add(l, QB_LOOP_HIGH, NULL, high_job) == 0);
	if (prio == QB_LOOP_HIGH) assert(qb_loop_job_add(l, QB_LOOP_MED, NULL, med_job) == 0);
	assert(qb_loop_job_add(l, QB_LOOP_LOW, NULL, low_job) == 0);
	assert(qb_loop_timer_add(l, QB_LOOP_MED, 0, NULL, med_timer, &th) == 0);
	assert(qb_loop_poll_add(l, QB_LOOP_LOW, efd, POLLIN, NULL, low_fd) == 0);
	for (i = 0; i < RUNS; i++) {
		qb_loop_run(l);
	}
	printf("stop requested by a %s job, %d x qb_loop_run():\n"
	       "  HIGH job dispatches %d, MED job %d, MED timer %d, LOW job %d, LOW descriptor %d\n",
	       prio == QB_LOOP_HIGH ? "HIGH" : "MED", RUNS,
	       n_high, n_med_job, n_med_timer, n_low_job, n_low_fd);
	qb_loop_poll_del(l, efd);
	close(efd);
	qb_loop_destroy(l);
	return (n_med_job == 0 || n_med_timer == 0 || n_low_job == 0 || n_low_fd == 0);
}

int main(void)
{
	int bad = 0;
	bad |= part(QB_LOOP_HIGH);
	bad |= part(QB_LOOP_MED);
	if (bad) {
		printf("RESULT: property VIOLATED (pending MED/LOW work never dispatched in %d iterations)\n", RUNS);
		return 1;
	}
	printf("RESULT: property held\n");
	return 0;
}
