#!/bin/sh
# usage: demo.sh <tree> [n_other_fds]
T=${1:-/repo}
D=$(dirname "$(readlink -f "$0")")
set -e
gcc -g -O1 -fsanitize=address,undefined -DHAVE_CONFIG_H \
  -I$T/include -I$T/include/qb -I$T/lib \
  -o $D/demo $D/demo.c $T/lib/loop.c $T/lib/loop_job.c $T/lib/loop_timerlist.c \
  $T/lib/loop_poll.c $T/lib/loop_poll_epoll.c -L$T/lib/.libs -lqb -lpthread
set +e
LD_LIBRARY_PATH=$T/lib/.libs ASAN_OPTIONS=detect_leaks=0 $D/demo $2 $3
