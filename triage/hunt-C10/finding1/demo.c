/*
 * C10 finding 1: with more always-ready descriptors than three epoll_wait()
 * batches hold (3 * MAX_EVENTS = 36), a level whose only work is a ready
 * descriptor goes more than three consecutive iterations without a dispatch;
 * a HIGH descriptor among many LOW ones is dispatched in fewer iterations
 * than LOW is.
 *
 * usage: demo [n] [m]        (defaults n=36, m=24)
 *
 * Part A: n HIGH descriptors + 1 LOW descriptor, all always readable.
 * Part B: n LOW descriptors + 1 HIGH descriptor, all always readable.
 * Part C: m LOW descriptors + 1 HIGH descriptor, all always readable, and one
 *         self-re-adding MED job: HIGH is served in fewer iterations than MED
 *         as soon as there are more descriptors than one batch (12) holds.
 * Iterations are counted by interposing on fd_source->poll (the loop calls it
 * exactly once per iteration); nothing else of the library is touched.
 */
#include "os_base.h"
#include <sys/eventfd.h>
#include <qb/qbdefs.h>
#include <qb/qblist.h>
#include <qb/qbloop.h>
#include "loop_int.h"

#define ITERS 300
static struct qb_loop *L;
static int32_t (*orig_poll)(struct qb_loop_source *, int32_t);
static int iter;
static int disp_in_iter[3][ITERS + 2];

static int32_t my_poll(struct qb_loop_source *s, int32_t ms)
{
	int32_t rc = orig_poll(s, ms);
	iter++;
	if (iter > ITERS) qb_loop_stop(L);
	return rc;
}

static int32_t fd_cb(int32_t fd, int32_t revents, void *data)
{
	int prio = (int)(intptr_t)data;
	if (iter <= ITERS) disp_in_iter[prio][iter]++;
	return 0;	/* never read: the descriptor stays ready for ever */
}

static void job_cb(void *data)
{
	if (iter <= ITERS) disp_in_iter[QB_LOOP_MED][iter]++;
	qb_loop_job_add(L, QB_LOOP_MED, data, job_cb);
}

static int run(int n_high, int n_low, int med_job, int *worst_gap, int *worst_opp)
{
	int fds[1024], n = 0, i, p, k, gap, bad = 0;

	memset(disp_in_iter, 0, sizeof disp_in_iter);
	iter = 0;
	L = qb_loop_create();
	orig_poll = L->fd_source->poll;
	L->fd_source->poll = my_poll;
	for (i = 0; i < n_high + n_low; i++) {
		p = i < n_high ? QB_LOOP_HIGH : QB_LOOP_LOW;
		fds[n] = eventfd(1, EFD_NONBLOCK);
		assert(fds[n] >= 0);
		assert(qb_loop_poll_add(L, p, fds[n], POLLIN, (void *)(intptr_t)p, fd_cb) == 0);
		n++;
	}
	if (med_job) qb_loop_job_add(L, QB_LOOP_MED, NULL, job_cb);
	qb_loop_run(L);

	/* both levels have a ready descriptor in every iteration */
	*worst_gap = 0; *worst_opp = 0;
	for (p = QB_LOOP_LOW; p <= QB_LOOP_HIGH; p += 1) {
		int tot = 0, diters = 0;
		if (p == QB_LOOP_MED && !med_job) continue;
		gap = 0;
		/* skip the start-up: begin once every fd has been seen */
		for (i = 40; i <= ITERS; i++) {
			tot += disp_in_iter[p][i];
			if (disp_in_iter[p][i]) { diters++; gap = 0; }
			else if (++gap > *worst_gap && gap >= 3) *worst_gap = gap;
		}
		printf("  %s: %d dispatches in %d of %d iterations\n",
		       p == QB_LOOP_HIGH ? "HIGH" : p == QB_LOOP_MED ? "MED " : "LOW ", tot, diters, ITERS - 39);
	}
	for (i = 40; i + 2 <= ITERS; i++) {
		int dh = 0, dl = 0, dm = 0;
		for (k = 0; k < 3; k++) {
			dh += disp_in_iter[QB_LOOP_HIGH][i + k] > 0;
			dm += disp_in_iter[QB_LOOP_MED][i + k] > 0;
			dl += disp_in_iter[QB_LOOP_LOW][i + k] > 0;
		}
		if (dh == 0 || dl == 0 || (med_job && dm == 0)) bad++;
		if (dh < dl || (med_job && (dh < dm || dm < dl))) (*worst_opp)++;
	}
	printf("  3-iteration windows in which a level with a ready descriptor dispatched nothing: %d\n", bad);
	printf("  longest run of iterations without a dispatch at such a level: %d\n", *worst_gap);
	printf("  3-iteration windows in which a higher level dispatched in fewer iterations than a lower one: %d\n", *worst_opp);
	for (i = 0; i < n; i++) { qb_loop_poll_del(L, fds[i]); close(fds[i]); }
	qb_loop_destroy(L);
	return bad;
}

int main(int argc, char **argv)
{
	int n = argc > 1 ? atoi(argv[1]) : 36;
	int m = argc > 2 ? atoi(argv[2]) : 24;
	int gap, opp, badA, badB, oppB, badC, oppC;

	printf("Part A: %d HIGH + 1 LOW always-ready descriptors\n", n);
	badA = run(n, 1, 0, &gap, &opp);
	printf("Part B: 1 HIGH + %d LOW always-ready descriptors\n", n);
	badB = run(1, n, 0, &gap, &oppB);
	printf("Part C: 1 HIGH + %d LOW always-ready descriptors, 1 self-re-adding MED job\n", m);
	badC = run(1, m, 1, &gap, &oppC);
	if (badA || badB || oppB || badC || oppC) {
		printf("RESULT: property VIOLATED\n");
		return 1;
	}
	printf("RESULT: property held\n");
	return 0;
}
