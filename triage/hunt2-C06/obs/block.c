/*
 * hunt2-C06 finding 1: the SHM server validates hdr->size in the request ring
 * (memory the client can write) and then reads it AGAIN to tell msg_process()
 * how long the message is.  A client that rewrites the length word between
 * the two reads gets a length reported that exceeds both the chunk it wrote
 * and the negotiated maximum.
 *
 * child  = ordinary libqb server (public API only, the tree's libqb.so)
 * parent = raw client: handshake by hand, request ring through qb_rb_*,
 *          one thread flips hdr->size between 64 and 0x40000000.
 *
 * exit 0: property held for all attempts, 1: violated, 2: setup problem
 */
#include "os_base.h"
#include <pthread.h>
#include <sys/un.h>
#include <sys/wait.h>
#include <sys/socket.h>
#include <qb/qbdefs.h>
#include <qb/qbloop.h>
#include <qb/qbipcs.h>
#include <qb/qbrb.h>
#include <qb/qblog.h>
#include "util_int.h"
#include "ipc_int.h"

#define CHUNK 64
#define BIG 0x40000000
#define MAX_ATTEMPTS 5000000
#define MAX_SECONDS 30

static char name[64];
static qb_loop_t *loop;
static qb_ipcs_service_t *svc;
static int report_fd;

/* ---------------- server ---------------- */
static int32_t s_accept(qb_ipcs_connection_t *c, uid_t u, gid_t g) { return 0; }
static void s_created(qb_ipcs_connection_t *c) { }
static int32_t s_closed(qb_ipcs_connection_t *c) { return 0; }
static void s_destroyed(qb_ipcs_connection_t *c) { }
static long delivered;
static int32_t s_msg(qb_ipcs_connection_t *c, void *data, size_t size)
{
	int32_t max = qb_ipcs_connection_get_buffer_size(c);
	delivered++;
	if (size > (size_t)max || size > CHUNK) {
		char b[200];
		int n = snprintf(b, sizeof b,
			"VIOLATION: msg_process(size=%zu) but the chunk is %d bytes and the negotiated maximum is %d (after %ld good deliveries)\n",
			size, CHUNK, max, delivered - 1);
		if (write(report_fd, b, n)) {}
		qb_loop_stop(loop);
	}
	return 0;
}
static int32_t j_add(enum qb_loop_priority p, void *d, qb_loop_job_dispatch_fn f) { return qb_loop_job_add(loop, p, d, f); }
static int32_t d_add(enum qb_loop_priority p, int32_t fd, int32_t e, void *d, qb_ipcs_dispatch_fn_t f) { return qb_loop_poll_add(loop, p, fd, e, d, f); }
static int32_t d_mod(enum qb_loop_priority p, int32_t fd, int32_t e, void *d, qb_ipcs_dispatch_fn_t f) { return qb_loop_poll_mod(loop, p, fd, e, d, f); }
static int32_t d_del(int32_t fd) { return qb_loop_poll_del(loop, fd); }
static int32_t on_term(int32_t sig, void *d) { qb_loop_stop(loop); return 0; }

static int server(int ready_fd)
{
	struct qb_ipcs_service_handlers h = { s_accept, s_created, s_msg, s_closed, s_destroyed };
	struct qb_ipcs_poll_handlers ph = { j_add, d_add, d_mod, d_del };
	qb_loop_signal_handle sh;

	report_fd = ready_fd;
	loop = qb_loop_create();
	qb_loop_signal_add(loop, QB_LOOP_HIGH, SIGTERM, NULL, on_term, &sh);
	svc = qb_ipcs_create(name, 0, QB_IPC_SHM, &h);
	qb_ipcs_poll_handlers_set(svc, &ph);
	if (qb_ipcs_run(svc) != 0) return 2;
	if (write(ready_fd, "R\n", 2)) {}
	qb_loop_run(loop);
	qb_ipcs_destroy(svc);
	qb_loop_destroy(loop);
	return 0;
}

/* ---------------- raw client ---------------- */
static volatile int32_t *volatile flip_target;
static volatile int flip_stop;
static volatile unsigned long flip_iter;
static void flip_park(void)
{
	unsigned long it;
	flip_target = NULL;
	__sync_synchronize();
	it = flip_iter;
	while (flip_iter < it + 2) { }	/* the flipper no longer holds the old address */
}
static void *flipper(void *arg)
{
	while (!flip_stop) {
		volatile int32_t *t = flip_target;
		flip_iter++;
		if (t) {
			*t = BIG;
			*t = CHUNK;
		}
	}
	return NULL;
}

static int raw_connect(struct qb_ipc_connection_response *resp)
{
	struct sockaddr_un a;
	struct qb_ipc_connection_request rq;
	size_t got = 0;
	int s = socket(AF_UNIX, SOCK_STREAM, 0);

	memset(&a, 0, sizeof a);
	a.sun_family = AF_UNIX;
	snprintf(a.sun_path + 1, UNIX_PATH_MAX - 1, "%s", name);
	if (connect(s, (struct sockaddr *)&a, sizeof a) != 0) { close(s); return -1; }
	memset(&rq, 0, sizeof rq);
	rq.hdr.id = QB_IPC_MSG_AUTHENTICATE;
	rq.hdr.size = sizeof rq;
	rq.max_msg_size = 8192;
	if (send(s, &rq, sizeof rq, MSG_NOSIGNAL) != sizeof rq) { close(s); return -1; }
	while (got < sizeof *resp) {
		ssize_t r = recv(s, (char *)resp + got, sizeof *resp - got, 0);
		if (r <= 0) { close(s); return -1; }
		got += r;
	}
	if (resp->hdr.error != 0) { close(s); return -1; }
	return s;
}

int main(void)
{
	int pfd[2];
	pid_t child;
	char buf[16];
	struct qb_ipc_connection_response resp, resp2;
	qb_ringbuffer_t *rq;
	int s, s2, i;
	struct timeval tv = { 3, 0 };

	signal(SIGPIPE, SIG_IGN);
	snprintf(name, sizeof name, "h2c06-ob-%d", getpid());
	if (pipe(pfd)) return 2;
	child = fork();
	if (child == 0) { close(pfd[0]); _exit(server(pfd[1])); }
	close(pfd[1]);
	if (read(pfd[0], buf, 2) != 2) return 2;
	s = raw_connect(&resp);
	rq = qb_rb_open(resp.request, resp.max_msg_size, QB_RB_FLAG_SHARED_PROCESS, sizeof(int32_t));
	for (i = 0; i < 2; i++) {
		struct qb_ipc_request_header *hdr = qb_rb_chunk_alloc(rq, CHUNK);
		memset(hdr, 0, CHUNK); hdr->id = 1; hdr->size = CHUNK;
		qb_rb_chunk_commit(rq, CHUNK);
	}
	send(s, "x", 1, MSG_NOSIGNAL);	/* two chunks, ONE notification byte */
	usleep(200000);
	/* a second, well behaved client */
	{
		struct sockaddr_un a;
		struct qb_ipc_connection_request r;
		ssize_t n;
		s2 = socket(AF_UNIX, SOCK_STREAM, 0);
		memset(&a, 0, sizeof a); a.sun_family = AF_UNIX;
		snprintf(a.sun_path + 1, UNIX_PATH_MAX - 1, "%s", name);
		connect(s2, (struct sockaddr *)&a, sizeof a);
		memset(&r, 0, sizeof r); r.hdr.id = QB_IPC_MSG_AUTHENTICATE; r.hdr.size = sizeof r; r.max_msg_size = 8192;
		send(s2, &r, sizeof r, MSG_NOSIGNAL);
		setsockopt(s2, SOL_SOCKET, SO_RCVTIMEO, &tv, sizeof tv);
		n = recv(s2, &resp2, sizeof resp2, 0);
		printf("second client: response after 3 s wait: %zd (%s)\n", n, n > 0 ? "served" : "server is stuck");
	}
	close(s);	/* first client goes away: server wakes up */
	tv.tv_sec = 3;
	{
		ssize_t n = recv(s2, &resp2, sizeof resp2, 0);
		printf("after the first client hung up: %zd\n", n);
	}
	kill(child, SIGTERM);
	waitpid(child, NULL, 0);
	return 0;
}
