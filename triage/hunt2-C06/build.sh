#!/bin/sh
# usage: build.sh [tree] [out] [src]  -- builds the tester against the sources of <tree> (default /repo)
TREE=${1:-/repo}
OUT=${2:-/tmp/hunt2-C06/fuzz}
SRC=${3:-/tmp/hunt2-C06/fuzz.c}
SAN=${SAN:--fsanitize=address,undefined -fno-sanitize=alignment}
LIBSRC=""
for f in util hdb ringbuffer ringbuffer_helper array loop loop_poll loop_job loop_timerlist \
         ipcc ipcs ipc_shm ipc_setup ipc_socket log log_thread log_blackbox log_file log_syslog \
         log_dcs log_format map skiplist hashtable trie unix loop_poll_epoll strlcpy strlcat; do
  LIBSRC="$LIBSRC $TREE/lib/$f.c"
done
exec gcc -g -O1 -fno-omit-frame-pointer $SAN -DHAVE_CONFIG_H -D_GNU_SOURCE \
  -I$TREE/include -I$TREE/include/qb -I$TREE/lib \
  -o $OUT $SRC $LIBSRC -L$TREE/lib/.libs -lqb -lpthread -ldl -lrt
