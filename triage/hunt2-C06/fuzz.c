/*
 * hunt2-C06: model based randomized tester for the libqb IPC server side.
 *
 * One process, one thread: two services (SHM and SOCKET transport) on one
 * qb_loop, and hand-written raw peers that talk to the service socket, to
 * the request rings and to the request datagram sockets directly.
 * After every operation the loop is pumped and what the server did is
 * compared with a reference model of property C06.
 *
 *   ./fuzz <seed> <nops> [verbose]
 */
#include "os_base.h"
#include <poll.h>
#include <dirent.h>
#include <sys/un.h>
#include <sys/mman.h>
#include <sys/socket.h>
#include <qb/qbdefs.h>
#include <qb/qbloop.h>
#include <qb/qbipcs.h>
#include <qb/qbrb.h>
#include <qb/qblog.h>
#include "util_int.h"
#include "ipc_int.h"

#define MAGIC 0x4d363043u
#define NPEER 12
#define FAIL(...) do { fprintf(stderr, "VIOLATION: " __VA_ARGS__); fprintf(stderr, "\n"); failures++; if (failures > 20) exit(3);} while (0)

static int failures;
static int verbose, valid_bias;
static qb_loop_t *loop;
static qb_ipcs_service_t *svc[2];
static char svc_name[2][64];
static uint32_t svc_enforce[2];
static uint64_t rng_s;

static uint32_t rnd(void)
{
	rng_s ^= rng_s << 13; rng_s ^= rng_s >> 7; rng_s ^= rng_s << 17;
	return (uint32_t)(rng_s >> 16);
}
static uint32_t rr(uint32_t lo, uint32_t hi) { return lo + rnd() % (hi - lo + 1); }

/* ------------------------------------------------------------------ */
/* what the server told us through its callbacks                        */
static long n_accept, n_created, n_closed, n_destroyed, n_msgs;

struct expect {
	uint32_t tag, seq, size, id;
};
#define NEXP 4096
static struct expect expq[NEXP];
static int exp_head, exp_tail;

struct payload {
	struct qb_ipc_request_header hdr;
	uint32_t magic;
	uint32_t tag;
	uint32_t seq;
	uint32_t actual;	/* bytes really put on the wire / in the chunk */
};

static int32_t cb_accept(qb_ipcs_connection_t *c, uid_t u, gid_t g)
{
	n_accept++;
	return 0;
}
static void cb_created(qb_ipcs_connection_t *c) { n_created++; }
static int32_t cb_closed(qb_ipcs_connection_t *c) { n_closed++; return 0; }
static void cb_destroyed(qb_ipcs_connection_t *c) { n_destroyed++; }

static volatile unsigned char sink;
static int32_t cb_msg(qb_ipcs_connection_t *c, void *data, size_t size)
{
	struct payload *p = data;
	int32_t max = qb_ipcs_connection_get_buffer_size(c);
	size_t i;
	unsigned char s = 0;

	n_msgs++;
	if (size < sizeof(struct qb_ipc_request_header)) {
		FAIL("callback size %zu below a header", size);
		return 0;
	}
	if ((int64_t)size > (int64_t)(uint32_t)max) {
		FAIL("callback size %zu above negotiated max %u", size, (uint32_t)max);
		return 0;
	}
	/* touch every byte we were told is ours (asan: socket transport) */
	for (i = 0; i < size; i++) {
		s += ((unsigned char *)data)[i];
	}
	sink = s;
	if (exp_head == exp_tail) {
		FAIL("callback (size %zu) although the model expects no message", size);
		return 0;
	}
	struct expect *e = &expq[exp_head % NEXP];
	exp_head++;
	if (e->size != size) {
		FAIL("callback size %zu, model says %u (tag %u seq %u)", size, e->size, e->tag, e->seq);
	}
	if (e->id != (uint32_t)p->hdr.id) {
		FAIL("callback id %d, model says %d", p->hdr.id, (int)e->id);
	}
	if (size >= sizeof(*p)) {
		if (p->magic != MAGIC || p->tag != e->tag || p->seq != e->seq) {
			FAIL("callback got somebody else's bytes tag %u/%u seq %u/%u",
			     p->tag, e->tag, p->seq, e->seq);
		} else if (size > p->actual) {
			FAIL("callback size %zu exceeds what was sent %u", size, p->actual);
		}
	}
	return 0;
}

/* ------------------------------------------------------------------ */
static int32_t my_job_add(enum qb_loop_priority p, void *data, qb_loop_job_dispatch_fn fn)
{
	return qb_loop_job_add(loop, p, data, fn);
}
static int32_t my_dispatch_add(enum qb_loop_priority p, int32_t fd, int32_t evts,
			       void *data, qb_ipcs_dispatch_fn_t fn)
{
	return qb_loop_poll_add(loop, p, fd, evts, data, fn);
}
static int32_t my_dispatch_mod(enum qb_loop_priority p, int32_t fd, int32_t evts,
			       void *data, qb_ipcs_dispatch_fn_t fn)
{
	return qb_loop_poll_mod(loop, p, fd, evts, data, fn);
}
static int32_t my_dispatch_del(int32_t fd)
{
	return qb_loop_poll_del(loop, fd);
}

static int pump_left;
static void pump_job(void *d)
{
	qb_loop_timer_handle th;
	if (--pump_left > 0) {
		qb_loop_timer_add(loop, QB_LOOP_LOW, 1, NULL, pump_job, &th);
	} else {
		qb_loop_stop(loop);
	}
}
static void pump(int n)
{
	qb_loop_timer_handle th;
	pump_left = n;
	qb_loop_timer_add(loop, QB_LOOP_LOW, 1, NULL, pump_job, &th);
	qb_loop_run(loop);
}

static int count_fds(void)
{
	DIR *d = opendir("/proc/self/fd");
	struct dirent *e;
	int n = 0;
	while ((e = readdir(d))) {
		if (e->d_name[0] != '.') n++;
	}
	closedir(d);
	return n - 1;		/* the DIR itself */
}

static int count_shm(void)
{
	char pfx[64];
	DIR *d = opendir("/dev/shm");
	struct dirent *e;
	int n = 0;
	snprintf(pfx, sizeof pfx, "qb-%d-", getpid());
	while ((e = readdir(d))) {
		if (strncmp(e->d_name, pfx, strlen(pfx)) == 0) {
			if (verbose) fprintf(stderr, "  leftover /dev/shm/%s\n", e->d_name);
			n++;
		}
	}
	closedir(d);
	return n;
}

/* ------------------------------------------------------------------ */
/* raw peers                                                            */
enum pstate { P_FREE, P_HANDSHAKE, P_WAITRESP, P_ACCEPTED, P_DEAD, P_NORESP };

struct peer {
	enum pstate st;
	int t;			/* transport 0 = SOCKET, 1 = SHM */
	int sock;		/* stream socket */
	unsigned char hs[64];	/* the handshake bytes we are going to send */
	size_t hs_len, hs_sent;
	int shut_wr, shut_rd;
	uint32_t tag;
	uint32_t seq;
	uint32_t max;		/* negotiated */
	int expect_accept;	/* model */
	struct qb_ipc_connection_response resp;
	size_t resp_got;
	/* SHM */
	qb_ringbuffer_t *rq, *rs, *ev;
	/* SOCKET */
	int dg, dgev;
	struct { int32_t sent, fc; } *ctl;
	int doomed;		/* model: server is going to drop us */
	int pending;		/* messages in flight */
};
static struct peer peers[NPEER];
static uint32_t next_tag = 1;

static void set_abs_addr(struct sockaddr_un *a, const char *name)
{
	memset(a, 0, sizeof *a);
	a->sun_family = AF_UNIX;
	snprintf(a->sun_path + 1, UNIX_PATH_MAX - 1, "%s", name);
}

static void peer_release(struct peer *p)
{
	if (p->rq) qb_rb_close(p->rq);
	if (p->rs) qb_rb_close(p->rs);
	if (p->ev) qb_rb_close(p->ev);
	if (p->dg >= 0) close(p->dg);
	if (p->dgev >= 0) close(p->dgev);
	if (p->ctl) munmap(p->ctl, 24);
	if (p->sock >= 0) close(p->sock);
	memset(p, 0, sizeof *p);
	p->sock = p->dg = p->dgev = -1;
	p->st = P_FREE;
}

static const uint32_t maxes[] = { 0, 1, 15, 16, 17, 24, 100, 4095, 4096, 4097, 8192,
	12311, 12312, 12313, 12320, 16384, 65535, 65536, 100000, 262144, 1048576 };

static void op_open(void)
{
	int i;
	struct peer *p = NULL;
	struct sockaddr_un a;
	struct qb_ipc_connection_request rq;
	uint32_t kind;

	for (i = 0; i < NPEER; i++) if (peers[i].st == P_FREE) { p = &peers[i]; break; }
	if (!p) return;
	p->t = rnd() & 1;
	p->sock = socket(AF_UNIX, SOCK_STREAM | SOCK_NONBLOCK, 0);
	set_abs_addr(&a, svc_name[p->t]);
	if (connect(p->sock, (struct sockaddr *)&a, sizeof a) != 0) {
		if (verbose) perror("connect");
		close(p->sock); p->sock = -1;
		return;
	}
	p->tag = next_tag++;
	memset(&rq, 0, sizeof rq);
	rq.hdr.id = QB_IPC_MSG_AUTHENTICATE;
	rq.hdr.size = sizeof rq;
	rq.max_msg_size = maxes[rnd() % (sizeof maxes / sizeof maxes[0])];
	if (rnd() % 4 == 0) rq.max_msg_size = rr(0, 300000);
	memset(p->hs, 0, sizeof p->hs);
	memcpy(p->hs, &rq, sizeof rq);
	p->hs_len = sizeof rq;
	kind = rnd() % 10;
	if (kind == 0) {		/* garbage */
		for (i = 0; i < (int)sizeof p->hs; i++) p->hs[i] = rnd();
		p->hs_len = rr(0, sizeof p->hs);
	} else if (kind == 1) {		/* one field mutated */
		uint32_t v;
		switch (rnd() % 4) {
		case 0: v = rnd(); break;
		case 1: v = 0x7fffffff; break;
		case 2: v = 0x80000000u; break;
		default: v = rr(0, 64) - 32; break;
		}
		switch (rnd() % 3) {
		case 0: memcpy(p->hs, &v, 4); break;		/* id */
		case 1: memcpy(p->hs + 8, &v, 4); break;	/* size */
		default: memcpy(p->hs + 4, &v, 4); break;	/* padding */
		}
	} else if (kind == 2) {		/* truncated */
		p->hs_len = rr(0, sizeof rq - 1);
	} else if (kind == 3) {		/* oversized */
		p->hs_len = rr(sizeof rq + 1, sizeof p->hs);
		for (i = sizeof rq; i < (int)p->hs_len; i++) p->hs[i] = rnd();
	}
	p->st = P_HANDSHAKE;
	p->hs_sent = 0;
	if (verbose) fprintf(stderr, "open peer tag %u t=%d kind %u len %zu\n", p->tag, p->t, kind, p->hs_len);
}

static void model_after_handshake_bytes(struct peer *p)
{
	struct qb_ipc_connection_request rq;
	if (p->st != P_HANDSHAKE || p->hs_sent < sizeof rq) return;
	memcpy(&rq, p->hs, sizeof rq);
	if (rq.hdr.id == QB_IPC_MSG_AUTHENTICATE) {
		uint32_t m = QB_MAX(rq.max_msg_size, svc_enforce[p->t]);
		m = QB_MAX(m, (uint32_t)sizeof(struct qb_ipc_connection_response));
		p->max = m;
		p->expect_accept = 1;
		p->st = p->shut_rd ? P_NORESP : P_WAITRESP;
	} else {
		p->st = P_DEAD;	/* server closes */
	}
}

static void op_hs_send(struct peer *p)
{
	size_t n, left = p->hs_len - p->hs_sent;
	ssize_t r;
	struct msghdr mh;
	struct iovec iov;
	char cbuf[CMSG_SPACE(sizeof(int) * 2)];
	long acc0 = n_accept;

	if (left == 0) return;
	n = (rnd() % 3 == 0) ? left : rr(1, left);
	memset(&mh, 0, sizeof mh);
	iov.iov_base = p->hs + p->hs_sent;
	iov.iov_len = n;
	mh.msg_iov = &iov; mh.msg_iovlen = 1;
	if (rnd() % 8 == 0) {	/* pass descriptors along */
		struct cmsghdr *cm;
		int fds[2] = { p->sock, 2 };
		memset(cbuf, 0, sizeof cbuf);
		mh.msg_control = cbuf; mh.msg_controllen = sizeof cbuf;
		cm = CMSG_FIRSTHDR(&mh);
		cm->cmsg_level = SOL_SOCKET; cm->cmsg_type = SCM_RIGHTS;
		cm->cmsg_len = CMSG_LEN(sizeof fds);
		memcpy(CMSG_DATA(cm), fds, sizeof fds);
	}
	r = sendmsg(p->sock, &mh, MSG_NOSIGNAL);
	if (verbose) fprintf(stderr, "tag %u hs send %zu -> %zd (%zu/%zu)\n", p->tag, n, r, p->hs_sent, p->hs_len);
	if (r <= 0) { p->st = P_DEAD; return; }
	p->hs_sent += r;
	{
		int was_hs = (p->st == P_HANDSHAKE);
		size_t before = p->hs_sent - r;
		model_after_handshake_bytes(p);
		pump(4);
		if (was_hs && before < sizeof(struct qb_ipc_connection_request)) {
			if ((p->st == P_WAITRESP || p->st == P_NORESP) && n_accept != acc0 + 1)
				FAIL("valid handshake not taken to connection_accept (tag %u)", p->tag);
			if (p->st != P_WAITRESP && p->st != P_NORESP && n_accept != acc0)
				FAIL("connection_accept called for a bad/incomplete handshake (tag %u)", p->tag);
		} else if (n_accept != acc0) {
			FAIL("connection_accept called for trailing bytes (tag %u)", p->tag);
		}
	}
}

static int read_resp(struct peer *p)
{
	ssize_t r;
	while (p->resp_got < sizeof p->resp) {
		r = recv(p->sock, (char *)&p->resp + p->resp_got, sizeof p->resp - p->resp_got, 0);
		if (r <= 0) break;
		p->resp_got += r;
	}
	return p->resp_got == sizeof p->resp;
}

static void op_finish_accept(struct peer *p)
{
	if (!read_resp(p)) {
		pump(3);
		if (!read_resp(p)) {
			FAIL("no connection response for a valid handshake (tag %u, got %zu)", p->tag, p->resp_got);
			p->st = P_DEAD;
			return;
		}
	}
	if (p->resp.hdr.error != 0) {
		if (verbose) fprintf(stderr, "tag %u refused: %d\n", p->tag, p->resp.hdr.error);
		p->st = P_DEAD;
		return;
	}
	if (p->resp.max_msg_size != p->max) {
		FAIL("negotiated max %u, model %u", p->resp.max_msg_size, p->max);
		p->max = p->resp.max_msg_size;
	}
	if (p->t == 1) {
		p->rq = qb_rb_open(p->resp.request, p->max, QB_RB_FLAG_SHARED_PROCESS, sizeof(int32_t));
		p->rs = qb_rb_open(p->resp.response, p->max, QB_RB_FLAG_SHARED_PROCESS, 0);
		p->ev = qb_rb_open(p->resp.event, p->max, QB_RB_FLAG_SHARED_PROCESS, 0);
		if (!p->rq || !p->rs || !p->ev) {
			FAIL("cannot open the rings of tag %u", p->tag);
			p->st = P_DEAD;
			return;
		}
	} else {
		struct sockaddr_un a;
		char nm[PATH_MAX];
		int fd = open(p->resp.request, O_RDWR);
		if (fd >= 0) {
			p->ctl = mmap(0, 24, PROT_READ | PROT_WRITE, MAP_SHARED, fd, 0);
			if (p->ctl == MAP_FAILED) p->ctl = NULL;
			close(fd);
		}
		p->dg = socket(AF_UNIX, SOCK_DGRAM | SOCK_NONBLOCK, 0);
		snprintf(nm, sizeof nm, "%s-response", p->resp.response);
		set_abs_addr(&a, nm);
		bind(p->dg, (struct sockaddr *)&a, sizeof a);
		snprintf(nm, sizeof nm, "%s-request", p->resp.response);
		set_abs_addr(&a, nm);
		if (connect(p->dg, (struct sockaddr *)&a, sizeof a) != 0) {
			FAIL("cannot connect request dgram of tag %u: %s", p->tag, strerror(errno));
			p->st = P_DEAD;
			return;
		}
		{
			int v = 4 * 1048576;
			setsockopt(p->dg, SOL_SOCKET, SO_SNDBUF, &v, sizeof v);
		}
	}
	p->st = P_ACCEPTED;
}

/*
 * one request through the raw channel.
 * N = bytes on the wire / chunk length, h = hdr.size
 */
static unsigned char *msgbuf;
#define MSGBUF (3 * 1048576)

static void pick_sizes(struct peer *p, uint32_t *N, int32_t *h, int32_t *id)
{
	uint32_t max = p->max;
	uint32_t k = rnd() % (valid_bias ? 48 : 16);
	*id = rr(0, 20);
	if (rnd() % 64 == 0) *id = QB_IPC_MSG_DISCONNECT;
	if (rnd() % 64 == 0) *id = (int32_t)rnd();
	if (*id == QB_IPC_MSG_AUTHENTICATE && rnd() % 2) *id = 5;
	switch (k) {
	case 0: *N = rr(0, 40); break;
	case 1: *N = max - rr(0, 8); break;
	case 2: *N = max + rr(0, 8); break;
	case 3: *N = max + rr(1, 70000); break;
	case 4: *N = rr(16, 64); break;
	default: *N = rr(16, QB_MIN(max, 70000u)); break;
	}
	if (*N > MSGBUF) *N = MSGBUF;
	switch (rnd() % (valid_bias ? 40 : 12)) {
	case 0: *h = 0; break;
	case 1: *h = -(int32_t)rr(1, 100); break;
	case 2: *h = (int32_t)0x80000000u; break;
	case 3: *h = 0x7fffffff; break;
	case 4: *h = *N + rr(1, 16); break;
	case 5: *h = (int32_t)*N - (int32_t)rr(1, 16); break;
	case 6: *h = rr(0, 31); break;
	case 7: *h = max + rr(0, 2); break;
	default: *h = *N; break;
	}
}

static void expect_push(struct peer *p, uint32_t size, int32_t id, uint32_t seq)
{
	struct expect *e = &expq[exp_tail % NEXP];
	e->tag = p->tag; e->seq = seq; e->size = size; e->id = id;
	exp_tail++;
}

static void emit_one(struct peer *p, int after_bad)
{
	uint32_t N;
	int32_t h, id;
	struct payload *pl = (struct payload *)msgbuf;
	uint32_t seq = ++p->seq;
	int deliver;

	pick_sizes(p, &N, &h, &id);
	memset(msgbuf, 0x5a, QB_MIN((size_t)N + 64, (size_t)MSGBUF));
	pl->hdr.id = id; pl->hdr.size = h;
	pl->magic = MAGIC; pl->tag = p->tag; pl->seq = seq; pl->actual = N;

	if (p->t == 1) {
		/* SHM: a chunk of N bytes */
		void *dst;
		uint32_t room = N;
		if (rnd() % 16 == 0 && !after_bad && qb_rb_chunks_used(p->rq) == 0) {
			/* commit more than allocated: the chunk length is just a word */
			room = sizeof(struct payload);
			if (rnd() % 2) N = rnd();
			pl->actual = N;
		}
		if (verbose) fprintf(stderr, "  free %zd used %zd chunks %zd room %u\n", qb_rb_space_free(p->rq), qb_rb_space_used(p->rq), qb_rb_chunks_used(p->rq), room);
		dst = qb_rb_chunk_alloc(p->rq, room);
		if (dst == NULL) {
			if (room == N) return;	/* ring full / never fits: nothing emitted */
			return;
		}
		memcpy(dst, msgbuf, QB_MIN(room, (uint32_t)MSGBUF));
		if (room != N) {
			/* ring bookkeeping is now whatever; model: this chunk decides */
		}
		qb_rb_chunk_commit(p->rq, N);
		deliver = (N >= 16 && N <= p->max && h >= 16 && (uint32_t)h <= N && id != QB_IPC_MSG_DISCONNECT);
		if (room != N && !deliver) p->doomed = 3;
		if (room != N && deliver) {
			/* delivered, but the ring is inconsistent afterwards */
			p->doomed = 2;
		}
		if (send(p->sock, "x", 1, MSG_NOSIGNAL) != 1) {
			/* server side already gone? */
		}
	} else {
		ssize_t r;
		if (p->ctl && rnd() % 4) __sync_fetch_and_add(&p->ctl->sent, 1);
		else if (p->ctl && rnd() % 32 == 0) p->ctl->sent = (int32_t)rnd();
		r = send(p->dg, msgbuf, N, MSG_NOSIGNAL);
		if (r < 0) {
			if (verbose) fprintf(stderr, "dgram send N=%u: %s\n", N, strerror(errno));
			if (errno == ECONNREFUSED || errno == ENOTCONN || errno == EPIPE) p->doomed = 1;
			return;	/* nothing emitted (EMSGSIZE, EAGAIN) */
		}
		deliver = (N >= 16 && h >= 16 && (uint32_t)h <= N && (uint32_t)h <= p->max && id != QB_IPC_MSG_DISCONNECT);
	}
	if (verbose) fprintf(stderr, "msg tag %u t=%d N=%u h=%d id=%d max=%u -> %s\n", p->tag, p->t, N, h, id, p->max, deliver ? "deliver" : "drop+disconnect");
	if (after_bad) {
		/* behind a request that gets us dropped: never delivered */
	} else if (deliver) {
		expect_push(p, (uint32_t)h, id, seq);
	} else if (!p->doomed) {
		p->doomed = 1;
	}
}

static void op_msg(struct peer *p)
{
	int burst = (rnd() % 3 == 0) ? rr(2, 9) : 1;
	int tail = (rnd() % 4 == 0) ? rr(1, 3) : 0;

	if (p->doomed) return;
	while (burst-- > 0 && !p->doomed) {
		emit_one(p, 0);
	}
	while (p->doomed == 1 && tail-- > 0) {
		emit_one(p, 1);
	}
	{
		long d0 = n_destroyed;
		pump(3);
		if (exp_head != exp_tail) pump(3);
		if (exp_head != exp_tail) pump(4);
		if (exp_head != exp_tail) {
			FAIL("valid message not delivered (tag %u seq<=%u t=%d)", p->tag, p->seq, p->t);
			exp_head = exp_tail;
		}
		if (p->doomed == 1 && n_destroyed == d0) {
			pump(3);
			if (n_destroyed == d0 && verbose)
				fprintf(stderr, "note: tag %u not dropped after malformed request\n", p->tag);
		}
	}
}

static void op_close(struct peer *p)
{
	if (verbose) fprintf(stderr, "close tag %u state %d\n", p->tag, p->st);
	peer_release(p);
	pump(4);
}

static void op_extra_setup_bytes(struct peer *p)
{
	char b[64];
	memset(b, 'y', sizeof b);
	if (rnd() % 3 == 0) {
		/* urgent data on the stream socket: POLLPRI at the server */
		send(p->sock, b, 1, MSG_NOSIGNAL | MSG_OOB);
		pump(2);
		return;
	}
	send(p->sock, b, rr(1, sizeof b), MSG_NOSIGNAL);
	pump(2);
}

static int base_fds, base_shm;

static void checkpoint(long op)
{
	int i, f, s;
	struct qb_ipcs_stats st;
	for (i = 0; i < NPEER; i++) if (peers[i].st != P_FREE) peer_release(&peers[i]);
	pump(6);
	pump(6);
	f = count_fds();
	if (f != base_fds) {
		FAIL("op %ld: %d descriptors open, baseline %d", op, f, base_fds);
		if (verbose) { char c[64]; snprintf(c, sizeof c, "ls -l /proc/%d/fd >&2", getpid()); if (system(c)) {} }
		base_fds = f;
	}
	s = count_shm();
	if (s != base_shm) FAIL("op %ld: %d of our entries left in /dev/shm", op, s - base_shm);
	if (n_created != n_closed) FAIL("op %ld: created %ld closed %ld", op, n_created, n_closed);
	for (i = 0; i < 2; i++) {
		qb_ipcs_connection_t *c = qb_ipcs_connection_first_get(svc[i]);
		if (c) {
			FAIL("op %ld: service %d still lists a connection", op, i);
			qb_ipcs_connection_unref(c);
		}
		qb_ipcs_stats_get(svc[i], &st, 0);
	}
	if (exp_head != exp_tail) { FAIL("op %ld: undelivered expected messages", op); exp_head = exp_tail; }
}

static void on_alarm(int s)
{
	static const char m[] = "VIOLATION: server loop stuck (watchdog)\n";
	if (write(2, m, sizeof m - 1)) {}
	_exit(4);
}

int main(int argc, char **argv)
{
	struct qb_ipcs_service_handlers h = { cb_accept, cb_created, cb_msg, cb_closed, cb_destroyed };
	struct qb_ipcs_poll_handlers ph = { my_job_add, my_dispatch_add, my_dispatch_mod, my_dispatch_del };
	long nops, op;
	int i;
	uint64_t seed = argc > 1 ? strtoull(argv[1], 0, 0) : 1;

	nops = argc > 2 ? atol(argv[2]) : 10000;
	verbose = argc > 3;
	valid_bias = (seed % 2 == 0);
	rng_s = seed * 0x9E3779B97F4A7C15ull + 0x1234567;
	signal(SIGPIPE, SIG_IGN);
	signal(SIGALRM, on_alarm);
	msgbuf = malloc(MSGBUF + 64);
	for (i = 0; i < NPEER; i++) { peers[i].sock = peers[i].dg = peers[i].dgev = -1; }

	qb_log_init("fuzz", LOG_USER, LOG_EMERG);
	qb_log_ctl(QB_LOG_SYSLOG, QB_LOG_CONF_ENABLED, QB_FALSE);
	loop = qb_loop_create();
	for (i = 0; i < 2; i++) {
		snprintf(svc_name[i], sizeof svc_name[i], "h2c06-%s-%d", i ? "shm" : "sock", getpid());
		svc[i] = qb_ipcs_create(svc_name[i], 0, i ? QB_IPC_SHM : QB_IPC_SOCKET, &h);
		qb_ipcs_poll_handlers_set(svc[i], &ph);
		if (seed % 3 == 1) {
			svc_enforce[i] = (seed % 2) ? 20000 : 100;
			qb_ipcs_enforce_buffer_size(svc[i], svc_enforce[i]);
		}
		if (qb_ipcs_run(svc[i]) != 0) { fprintf(stderr, "run failed\n"); return 2; }
	}
	pump(2);
	base_fds = count_fds();
	base_shm = count_shm();

	for (op = 0; op < nops && failures == 0; op++) {
		struct peer *p = &peers[rnd() % NPEER];
		alarm(60);
		switch (p->st) {
		case P_FREE:
			op_open();
			break;
		case P_HANDSHAKE:
			switch (rnd() % 8) {
			case 0: op_close(p); break;
			case 1:
				if (rnd() % 2) {
					/* no more bytes from us: the server sees EOF */
					shutdown(p->sock, SHUT_WR); pump(3);
					if (verbose) fprintf(stderr, "tag %u SHUT_WR\n", p->tag);
					p->st = P_DEAD;
				} else {
					/* we will not read: the response cannot be sent */
					shutdown(p->sock, SHUT_RD); pump(3);
					if (verbose) fprintf(stderr, "tag %u SHUT_RD\n", p->tag);
					p->shut_rd = 1;
				}
				break;
			case 2:
				if (rnd() % 4 == 0) { send(p->sock, "u", 1, MSG_NOSIGNAL | MSG_OOB); pump(2); break; }
				/* fall through */
			default:
				if (p->hs_sent < p->hs_len) op_hs_send(p); else if (rnd() % 4 == 0) op_close(p);
				break;
			}
			break;
		case P_WAITRESP:
			if (p->hs_sent < p->hs_len && rnd() % 2) op_hs_send(p);
			else op_finish_accept(p);
			break;
		case P_ACCEPTED:
			switch (rnd() % 32) {
			case 0: op_close(p); break;
			case 1: op_extra_setup_bytes(p); break;
			default: op_msg(p); if (p->doomed) op_close(p); break;
			}
			break;
		case P_DEAD:
		case P_NORESP:
			op_close(p);
			break;
		}
		if (op % 500 == 499) checkpoint(op);
	}
	checkpoint(op);
	alarm(0);
	for (i = 0; i < 2; i++) qb_ipcs_destroy(svc[i]);
	qb_loop_destroy(loop);
	qb_log_fini();
	free(msgbuf);
	printf("seed %llu ops %ld accept %ld created %ld closed %ld destroyed %ld msgs %ld failures %d\n",
	       (unsigned long long)seed, op, n_accept, n_created, n_closed, n_destroyed, n_msgs, failures);
	return failures ? 1 : 0;
}
