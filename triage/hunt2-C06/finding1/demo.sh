#!/bin/sh
# usage: demo.sh <tree>     exit 0 = property held, 1 = violated, 2 = could not build/run
# The library sources of <tree> are compiled into the demo (plain -O0, the
# way the tree itself is configured), so the verdict is about the source.
TREE=${1:-/repo}
D=$(dirname "$(readlink -f "$0")")
OUT=$(mktemp /tmp/hunt2-C06-f1.XXXXXX)
LIBSRC=""
for f in util hdb ringbuffer ringbuffer_helper array loop loop_poll loop_job loop_timerlist \
         ipcc ipcs ipc_shm ipc_setup ipc_socket log log_thread log_blackbox log_file log_syslog \
         log_dcs log_format map skiplist hashtable trie unix loop_poll_epoll strlcpy strlcat; do
  LIBSRC="$LIBSRC $TREE/lib/$f.c"
done
gcc -g -O0 -w -DHAVE_CONFIG_H -D_GNU_SOURCE -I$TREE/include -I$TREE/include/qb -I$TREE/lib \
    -o $OUT $D/demo.c $LIBSRC -L$TREE/lib/.libs -lqb -lpthread -ldl -lrt || { rm -f $OUT; exit 2; }
LD_LIBRARY_PATH=$TREE/lib/.libs $OUT
rc=$?
rm -f $OUT
exit $rc
