/*
 * hunt2-C06 finding 1: the SHM server validates hdr->size in the request ring
 * (memory the client can write) and then reads it AGAIN to tell msg_process()
 * how long the message is.  A client that rewrites the length word between
 * the two reads gets a length reported that exceeds both the chunk it wrote
 * and the negotiated maximum.
 *
 * child  = ordinary libqb server (public API only, the tree's libqb.so)
 * parent = raw client: handshake by hand, request ring through qb_rb_*,
 *          one thread flips hdr->size between 64 and 0x40000000.
 *
 * exit 0: property held for all attempts, 1: violated, 2: setup problem
 */
#include "os_base.h"
#include <pthread.h>
#include <sys/un.h>
#include <sys/wait.h>
#include <sys/socket.h>
#include <qb/qbdefs.h>
#include <qb/qbloop.h>
#include <qb/qbipcs.h>
#include <qb/qbrb.h>
#include <qb/qblog.h>
#include "util_int.h"
#include "ipc_int.h"

#define CHUNK 64
#define BIG 0x40000000
#define MAX_ATTEMPTS 5000000
#define MAX_SECONDS 30

static char name[64];
static qb_loop_t *loop;
static qb_ipcs_service_t *svc;
static int report_fd;

/* ---------------- server ---------------- */
static int32_t s_accept(qb_ipcs_connection_t *c, uid_t u, gid_t g) { return 0; }
static void s_created(qb_ipcs_connection_t *c) { }
static int32_t s_closed(qb_ipcs_connection_t *c) { return 0; }
static void s_destroyed(qb_ipcs_connection_t *c) { }
static long delivered;
static int32_t s_msg(qb_ipcs_connection_t *c, void *data, size_t size)
{
	int32_t max = qb_ipcs_connection_get_buffer_size(c);
	delivered++;
	if (size > (size_t)max || size > CHUNK) {
		char b[200];
		int n = snprintf(b, sizeof b,
			"VIOLATION: msg_process(size=%zu) but the chunk is %d bytes and the negotiated maximum is %d (after %ld good deliveries)\n",
			size, CHUNK, max, delivered - 1);
		if (write(report_fd, b, n)) {}
		qb_loop_stop(loop);
	}
	return 0;
}
static int32_t j_add(enum qb_loop_priority p, void *d, qb_loop_job_dispatch_fn f) { return qb_loop_job_add(loop, p, d, f); }
static int32_t d_add(enum qb_loop_priority p, int32_t fd, int32_t e, void *d, qb_ipcs_dispatch_fn_t f) { return qb_loop_poll_add(loop, p, fd, e, d, f); }
static int32_t d_mod(enum qb_loop_priority p, int32_t fd, int32_t e, void *d, qb_ipcs_dispatch_fn_t f) { return qb_loop_poll_mod(loop, p, fd, e, d, f); }
static int32_t d_del(int32_t fd) { return qb_loop_poll_del(loop, fd); }
static int32_t on_term(int32_t sig, void *d) { qb_loop_stop(loop); return 0; }

static int server(int ready_fd)
{
	struct qb_ipcs_service_handlers h = { s_accept, s_created, s_msg, s_closed, s_destroyed };
	struct qb_ipcs_poll_handlers ph = { j_add, d_add, d_mod, d_del };
	qb_loop_signal_handle sh;

	report_fd = ready_fd;
	loop = qb_loop_create();
	qb_loop_signal_add(loop, QB_LOOP_HIGH, SIGTERM, NULL, on_term, &sh);
	svc = qb_ipcs_create(name, 0, QB_IPC_SHM, &h);
	qb_ipcs_poll_handlers_set(svc, &ph);
	if (qb_ipcs_run(svc) != 0) return 2;
	if (write(ready_fd, "R\n", 2)) {}
	qb_loop_run(loop);
	qb_ipcs_destroy(svc);
	qb_loop_destroy(loop);
	return 0;
}

/* ---------------- raw client ---------------- */
static volatile int32_t *volatile flip_target;
static volatile int flip_stop;
static volatile unsigned long flip_iter;
static void flip_park(void)
{
	unsigned long it;
	flip_target = NULL;
	__sync_synchronize();
	it = flip_iter;
	while (flip_iter < it + 2) { }	/* the flipper no longer holds the old address */
}
static void *flipper(void *arg)
{
	while (!flip_stop) {
		volatile int32_t *t = flip_target;
		flip_iter++;
		if (t) {
			*t = BIG;
			*t = CHUNK;
		}
	}
	return NULL;
}

static int raw_connect(struct qb_ipc_connection_response *resp)
{
	struct sockaddr_un a;
	struct qb_ipc_connection_request rq;
	size_t got = 0;
	int s = socket(AF_UNIX, SOCK_STREAM, 0);

	memset(&a, 0, sizeof a);
	a.sun_family = AF_UNIX;
	snprintf(a.sun_path + 1, UNIX_PATH_MAX - 1, "%s", name);
	if (connect(s, (struct sockaddr *)&a, sizeof a) != 0) { close(s); return -1; }
	memset(&rq, 0, sizeof rq);
	rq.hdr.id = QB_IPC_MSG_AUTHENTICATE;
	rq.hdr.size = sizeof rq;
	rq.max_msg_size = 8192;
	if (send(s, &rq, sizeof rq, MSG_NOSIGNAL) != sizeof rq) { close(s); return -1; }
	while (got < sizeof *resp) {
		ssize_t r = recv(s, (char *)resp + got, sizeof *resp - got, 0);
		if (r <= 0) { close(s); return -1; }
		got += r;
	}
	if (resp->hdr.error != 0) { close(s); return -1; }
	return s;
}

int main(void)
{
	int pfd[2];
	pid_t child;
	char buf[512];
	ssize_t n;
	pthread_t th;
	long attempts = 0, conns = 0;
	time_t t0 = time(NULL);
	int violated = 0;

	signal(SIGPIPE, SIG_IGN);
	snprintf(name, sizeof name, "h2c06-f1-%d", getpid());
	if (pipe(pfd)) return 2;
	child = fork();
	if (child == 0) {
		close(pfd[0]);
		_exit(server(pfd[1]));
	}
	close(pfd[1]);
	if (read(pfd[0], buf, 2) != 2) return 2;
	fcntl(pfd[0], F_SETFL, O_NONBLOCK);
	pthread_create(&th, NULL, flipper, NULL);

	while (!violated && attempts < MAX_ATTEMPTS && time(NULL) - t0 < MAX_SECONDS) {
		struct qb_ipc_connection_response resp;
		qb_ringbuffer_t *rq;
		int alive = 1;
		int s = raw_connect(&resp);
		if (s < 0) break;
		conns++;
		rq = qb_rb_open(resp.request, resp.max_msg_size, QB_RB_FLAG_SHARED_PROCESS, sizeof(int32_t));
		if (rq == NULL) { close(s); break; }
		fcntl(s, F_SETFL, O_NONBLOCK);
		while (alive && !violated && attempts < MAX_ATTEMPTS) {
			struct qb_ipc_request_header *hdr = qb_rb_chunk_alloc(rq, CHUNK);
			int spins = 0;
			if (hdr == NULL) break;
			memset(hdr, 0, CHUNK);
			hdr->id = 1;
			hdr->size = CHUNK;
			flip_target = &hdr->size;	/* from now on it flips */
			qb_rb_chunk_commit(rq, CHUNK);
			attempts++;
			if (send(s, "x", 1, MSG_NOSIGNAL) != 1) alive = 0;
			/* wait for the server: chunk taken, or we were dropped */
			while (alive) {
				char c;
				ssize_t r;
				if (qb_rb_chunks_used(rq) == 0) break;
				r = recv(s, &c, 1, 0);
				if (r == 0 || (r < 0 && errno != EAGAIN)) alive = 0;
				if (++spins > 2000000) alive = 0;
			}
			flip_park();
			n = read(pfd[0], buf, sizeof buf - 1);
			if (n > 0) { buf[n] = 0; fputs(buf, stdout); violated = 1; }
		}
		flip_park();
		qb_rb_close(rq);
		close(s);
	}
	flip_stop = 1;
	pthread_join(th, NULL);
	usleep(50000);
	n = read(pfd[0], buf, sizeof buf - 1);
	if (n > 0) { buf[n] = 0; fputs(buf, stdout); violated = 1; }
	kill(child, SIGTERM);
	waitpid(child, NULL, 0);
	printf("%ld requests over %ld connections in %ld s: %s\n", attempts, conns,
	       (long)(time(NULL) - t0), violated ? "property VIOLATED" : "property held");
	return violated ? 1 : 0;
}
