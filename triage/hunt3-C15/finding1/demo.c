/*
 * C15 finding 1: printing a valid dump leaves the printer's ring-buffer header
 * file behind when a stale file with the printer's fixed temporary name
 * (left by an earlier printer that was killed, same pid) already exists.
 *
 * exit 0 = nothing left behind, 1 = file(s) left behind.
 */
#define _GNU_SOURCE
#include <stdio.h>
#include <stdlib.h>
#include <string.h>
#include <unistd.h>
#include <fcntl.h>
#include <syslog.h>
#include <sys/stat.h>
#include <sys/wait.h>
#include <qb/qbdefs.h>
#include <qb/qblog.h>

static int exists(const char *p) { struct stat sb; return stat(p, &sb) == 0; }

static int variant(const char *dump, const char *stale_suffix)
{
	char stale[256], shm_hdr[256], shm_data[256], run_hdr[256], run_data[256];
	pid_t pid;
	int st, left = 0;

	fflush(NULL);
	pid = fork();
	if (pid == 0) {
		int rc;
		snprintf(stale, sizeof stale, "/dev/shm/qb-create_from_file-%d-%s", (int)getpid(), stale_suffix);
		close(open(stale, O_CREAT | O_WRONLY, 0600));	/* what a killed printer leaves */
		if (freopen("/dev/null", "w", stdout) == NULL) _exit(3);
		rc = qb_log_blackbox_print_from_file(dump);
		fprintf(stderr, "  stale -%s present: print_from_file returned %d\n", stale_suffix, rc);
		unlink(stale);				/* remove only what the demo itself made */
		_exit(0);
	}
	waitpid(pid, &st, 0);
	snprintf(shm_hdr, sizeof shm_hdr, "/dev/shm/qb-create_from_file-%d-header", (int)pid);
	snprintf(shm_data, sizeof shm_data, "/dev/shm/qb-create_from_file-%d-data", (int)pid);
	snprintf(run_hdr, sizeof run_hdr, "/var/run/create_from_file-%d-header", (int)pid);
	snprintf(run_data, sizeof run_data, "/var/run/create_from_file-%d-data", (int)pid);
	if (exists(shm_hdr)) { fprintf(stderr, "  LEFT BEHIND: %s\n", shm_hdr); unlink(shm_hdr); left++; }
	if (exists(shm_data)) { fprintf(stderr, "  LEFT BEHIND: %s\n", shm_data); unlink(shm_data); left++; }
	if (exists(run_hdr)) { fprintf(stderr, "  LEFT BEHIND: %s\n", run_hdr); unlink(run_hdr); left++; }
	if (exists(run_data)) { fprintf(stderr, "  LEFT BEHIND: %s\n", run_data); unlink(run_data); left++; }
	if (!WIFEXITED(st) || WEXITSTATUS(st) != 0) { fprintf(stderr, "  printer child status 0x%x\n", st); left++; }
	return left;
}

int main(void)
{
	char dump[256];
	int i, left = 0;

	snprintf(dump, sizeof dump, "/tmp/hunt3-C15-demo1-%d.bb", (int)getpid());
	qb_log_init("c15demo", LOG_USER, LOG_EMERG);
	qb_log_ctl(QB_LOG_SYSLOG, QB_LOG_CONF_ENABLED, QB_FALSE);
	qb_log_ctl(QB_LOG_BLACKBOX, QB_LOG_CONF_SIZE, 4096);
	qb_log_filter_ctl(QB_LOG_BLACKBOX, QB_LOG_FILTER_ADD, QB_LOG_FILTER_FILE, "*", LOG_TRACE);
	qb_log_ctl(QB_LOG_BLACKBOX, QB_LOG_CONF_ENABLED, QB_TRUE);
	for (i = 0; i < 5; i++) qb_log(LOG_INFO, "record %d", i);
	if (freopen("/dev/null", "w", stdout) == NULL) return 3;
	unlink(dump);
	if (qb_log_blackbox_write_to_file(dump) < 0) { fprintf(stderr, "cannot write dump\n"); return 3; }
	qb_log_fini();

	fprintf(stderr, "variant A: stale /dev/shm/qb-create_from_file-<pid>-data\n");
	left += variant(dump, "data");
	fprintf(stderr, "variant B: stale /dev/shm/qb-create_from_file-<pid>-header\n");
	left += variant(dump, "header");
	unlink(dump);
	fprintf(stderr, left ? "VIOLATED: %d temporary file(s) left behind by the printer\n" : "held: nothing left behind (%d)\n", left);
	return left ? 1 : 0;
}
