#!/bin/sh
# usage: demo.sh <tree>    exit 0 = property held, non-zero = violated
TREE=${1:-/repo}
HERE=$(cd "$(dirname "$0")" && pwd)
OUT=$(mktemp -d /tmp/hunt3-C15-f1.XXXXXX)
CF="-g -O1 -DHAVE_CONFIG_H -D_GNU_SOURCE -I$TREE/include -I$TREE/include/qb -I$TREE/lib -w"
SRCS="util hdb ringbuffer ringbuffer_helper array loop loop_poll loop_job loop_timerlist ipcc ipcs ipc_shm ipc_setup ipc_socket log log_thread log_blackbox log_file log_syslog log_dcs log_format map skiplist hashtable trie unix loop_poll_epoll strlcpy strlcat"
FILES=""
for s in $SRCS; do FILES="$FILES $TREE/lib/$s.c"; done
gcc $CF "$HERE/demo.c" $FILES -o "$OUT/demo" -lpthread -ldl -lrt || { rm -rf "$OUT"; exit 2; }
"$OUT/demo"
RC=$?
rm -rf "$OUT"
exit $RC
