#define _GNU_SOURCE
#include <stdio.h>
#include <stdlib.h>
#include <string.h>
#include <unistd.h>
#include <fcntl.h>
#include <qb/qbdefs.h>
#include <qb/qblog.h>
/* usage: t_stale <dump> header|data|both|none */
int main(int argc, char **argv)
{
	char p[256], c[256]; int rc;
	if (!strcmp(argv[2], "header") || !strcmp(argv[2], "both")) { snprintf(p, sizeof p, "/dev/shm/qb-create_from_file-%d-header", (int)getpid()); close(open(p, O_CREAT | O_WRONLY, 0600)); }
	if (!strcmp(argv[2], "data") || !strcmp(argv[2], "both")) { snprintf(p, sizeof p, "/dev/shm/qb-create_from_file-%d-data", (int)getpid()); close(open(p, O_CREAT | O_WRONLY, 0600)); }
	rc = qb_log_blackbox_print_from_file(argv[1]);
	fflush(stdout);
	fprintf(stderr, "pre-existing %s: rc %d; files now:\n", argv[2], rc);
	snprintf(c, sizeof c, "ls -l /dev/shm /var/run 2>/dev/null | grep create_from_file-%d >&2", (int)getpid());
	if (system(c)) {}
	snprintf(c, sizeof c, "rm -f /dev/shm/qb-create_from_file-%d-* /var/run/create_from_file-%d-*", (int)getpid(), (int)getpid());
	if (system(c)) {}
	return 0;
}
