#define _GNU_SOURCE
#include <stdio.h>
#include <stdlib.h>
#include <string.h>
#include <unistd.h>
#include <fcntl.h>
#include <syslog.h>
#include <sys/stat.h>
#include <qb/qbdefs.h>
#include <qb/qblog.h>
static void touch(const char *suffix) { char p[256]; snprintf(p, sizeof p, "/dev/shm/qb-create_from_file-%d-%s", (int)getpid(), suffix); close(open(p, O_CREAT | O_WRONLY, 0600)); }
static void ls(const char *tag) { char c[256]; snprintf(c, sizeof c, "echo '%s:' >&2; ls /dev/shm | grep create_from_file-%d >&2", tag, (int)getpid()); if (system(c)) {} }
static void rmf(const char *suffix) { char p[256]; snprintf(p, sizeof p, "/dev/shm/qb-create_from_file-%d-%s", (int)getpid(), suffix); unlink(p); }
int main(void)
{
	const char *dump = "/tmp/hunt3-C15/work/t.bb"; int rc, i;
	mkdir("/tmp/hunt3-C15/work", 0700);
	qb_log_init("tt", LOG_USER, LOG_EMERG);
	qb_log_ctl(QB_LOG_SYSLOG, QB_LOG_CONF_ENABLED, QB_FALSE);
	qb_log_ctl(QB_LOG_BLACKBOX, QB_LOG_CONF_SIZE, 4096);
	qb_log_filter_ctl(QB_LOG_BLACKBOX, QB_LOG_FILTER_ADD, QB_LOG_FILTER_FILE, "*", LOG_TRACE);
	qb_log_ctl(QB_LOG_BLACKBOX, QB_LOG_CONF_ENABLED, QB_TRUE);
	for (i = 0; i < 10; i++) qb_log(LOG_INFO, "hello %d %s", i, "x");
	unlink(dump);
	fprintf(stderr, "write rc %zd\n", qb_log_blackbox_write_to_file(dump));
	touch("header"); rc = qb_log_blackbox_print_from_file(dump); fprintf(stderr, "stale header: rc %d\n", rc); ls("after stale header"); rmf("header");
	touch("data"); rc = qb_log_blackbox_print_from_file(dump); fprintf(stderr, "stale data: rc %d\n", rc); ls("after stale data"); rmf("data");
	rc = qb_log_blackbox_print_from_file("/tmp"); fprintf(stderr, "directory: rc %d\n", rc);
	rc = qb_log_blackbox_print_from_file("/dev/zero"); fprintf(stderr, "/dev/zero: rc %d\n", rc);
	rc = qb_log_blackbox_print_from_file("/dev/urandom"); fprintf(stderr, "/dev/urandom: rc %d\n", rc);
	rc = qb_log_blackbox_print_from_file("/dev/null"); fprintf(stderr, "/dev/null: rc %d\n", rc);
	rc = qb_log_blackbox_print_from_file("/proc/self/maps"); fprintf(stderr, "/proc/self/maps: rc %d\n", rc);
	rc = qb_log_blackbox_print_from_file("/nonexistent"); fprintf(stderr, "nonexistent: rc %d\n", rc);
	rc = qb_log_blackbox_print_from_file(dump); fprintf(stderr, "valid again: rc %d\n", rc); ls("at end");
	qb_log_fini();
	return 0;
}
