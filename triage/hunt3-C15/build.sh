#!/bin/sh
# usage: build.sh [tree]   (default /repo); builds ./fuzz with ASan+UBSan, library sources compiled in
TREE=${1:-/repo}
HERE=$(cd "$(dirname "$0")" && pwd)
OBJ=$HERE/obj
mkdir -p "$OBJ"
CF="-g -O1 -fno-omit-frame-pointer -fsanitize=address,undefined -fno-sanitize-recover=undefined -DHAVE_CONFIG_H -D_GNU_SOURCE -I$TREE/include -I$TREE/include/qb -I$TREE/lib -w"
SRCS="util hdb ringbuffer ringbuffer_helper array loop loop_poll loop_job loop_timerlist ipcc ipcs ipc_shm ipc_setup ipc_socket log log_thread log_blackbox log_file log_syslog log_dcs log_format map skiplist hashtable trie unix loop_poll_epoll strlcpy strlcat"
OBJS=""
for s in $SRCS; do
  gcc $CF -c "$TREE/lib/$s.c" -o "$OBJ/$s.o" || exit 1
  OBJS="$OBJS $OBJ/$s.o"
done
gcc $CF -fno-sanitize=undefined -c "$HERE/fuzz.c" -o "$OBJ/fuzz_main.o" || exit 1
gcc $CF "$OBJ/fuzz_main.o" $OBJS -o "$HERE/fuzz" -lpthread -ldl -lrt || exit 1
echo built $HERE/fuzz
gcc $CF -fno-sanitize=undefined -c "$HERE/fuzz2.c" -o "$OBJ/fuzz2_main.o" && gcc $CF "$OBJ/fuzz2_main.o" $OBJS -o "$HERE/fuzz2" -lpthread -ldl -lrt && echo built $HERE/fuzz2
