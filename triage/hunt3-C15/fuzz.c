/*
 * C15 model-based fuzzer: blackbox dump round trip + robustness of
 * qb_log_blackbox_print_from_file() on damaged files.
 *
 * usage: fuzz <seed> <iterations> [mutations-per-iteration]
 */
#define _GNU_SOURCE
#include <stdio.h>
#include <stdlib.h>
#include <string.h>
#include <stdarg.h>
#include <stdint.h>
#include <stddef.h>
#include <unistd.h>
#include <errno.h>
#include <fcntl.h>
#include <time.h>
#include <dirent.h>
#include <signal.h>
#include <syslog.h>
#include <sys/mman.h>
#include <sys/stat.h>
#include <sys/wait.h>
#include <qb/qbdefs.h>
#include <qb/qblog.h>

static uint64_t rs;
static uint32_t rnd(void)
{
	rs ^= rs << 13; rs ^= rs >> 7; rs ^= rs << 17;
	return (uint32_t)(rs >> 16);
}
static uint32_t rr(uint32_t lo, uint32_t hi) { return lo + rnd() % (hi - lo + 1); }

static FILE *rep;
static int failures;
static char workdir[256];
static unsigned long total_ops, total_prints;

#define FAIL(...) do { fprintf(rep, "FAIL: " __VA_ARGS__); fprintf(rep, "\n"); fflush(rep); failures++; } while (0)

/* ---------------- model ---------------- */
struct rec {
	uint8_t prio;
	uint32_t lineno, tags;
	char *fn;
	char *text;		/* expected printed message */
	uint32_t size;		/* chunk payload size */
	long long t0, t1;	/* ms since epoch window */
};
#define MAXREC 20000
static struct rec recs[MAXREC];
static int nrec;		/* all accepted records in order */
static int first_kept;		/* index of oldest retained */
static uint32_t m_rd, m_wr, m_W;

static uint32_t m_step(uint32_t p, uint32_t sz)
{
	p += 2 + sz / 4 + ((sz % 4) ? 1 : 0);
	if (p > m_W - 1) p %= m_W;
	return p;
}
static size_t m_free(void)
{
	size_t f;
	if (m_wr > m_rd) f = (m_rd - m_wr + m_W) - 1;
	else if (m_wr < m_rd) f = (m_rd - m_wr) - 1;
	else f = m_W;
	return f * 4;
}
static void m_alloc(size_t len)
{
	while (m_free() < len + 12) {
		if (first_kept >= nrec) { FAIL("model: reclaim with nothing kept"); return; }
		m_rd = m_step(m_rd, recs[first_kept].size);
		first_kept++;
	}
}

static long long now_ms(void)
{
	struct timespec ts;
	clock_gettime(CLOCK_REALTIME, &ts);
	return (long long)ts.tv_sec * 1000 + ts.tv_nsec / 1000000;
}

static const char *prio_name[] = { "emerg", "alert", "crit", "error", "warning", "notice", "info", "debug", "trace" };

static size_t cur_line_len;
static uint32_t cur_mll;

/* log one record; S = serialized size the format+args take */
static void emit(const char *fn, uint8_t prio, uint32_t lineno, uint32_t tags,
		 size_t S, const char *fmt, ...)
{
	va_list ap, ap2;
	char exp[8192];
	char fmt2[8192];
	size_t fn_size = strlen(fn) + 1;
	size_t actual = 33 + fn_size;
	size_t room = (size_t)m_W * 4 - 12;
	size_t line_len;
	struct rec *r;
	long long t0, t1;
	size_t i, n;

	va_start(ap, fmt);
	va_copy(ap2, ap);
	t0 = now_ms();
	qb_log_from_external_source_va(fn, "file.c", fmt, prio, lineno, tags, ap);
	t1 = now_ms();
	va_end(ap);
	total_ops++;

	if (actual + 4 > room) { va_end(ap2); return; }
	line_len = QB_MIN((size_t)cur_mll, room - actual);
	if (nrec >= MAXREC) { va_end(ap2); FAIL("too many records"); return; }

	/* expected text */
	n = strlen(fmt);
	memcpy(fmt2, fmt, n + 1);
	{
		char *xc = strchr(fmt2, '\a');
		if (xc) { if (xc[1]) *xc = '|'; else *xc = 0; }
	}
	if (S >= line_len) {
		const char *tl = "Log message too long to be stored in the blackbox.  Maximum is QB_LOG_MAX_LEN";
		size_t l = QB_MIN(strlen(tl), line_len - 1);
		memcpy(exp, tl, l); exp[l] = 0;
		S = l + 1;
	} else {
		vsnprintf(exp, 4096, fmt2, ap2);
	}
	va_end(ap2);
	i = strlen(exp);
	while (i > 0 && exp[i - 1] == '\n') exp[--i] = 0;

	m_alloc(actual + line_len);
	r = &recs[nrec];
	r->prio = prio; r->lineno = lineno; r->tags = tags;
	r->fn = strdup(fn); r->text = strdup(exp);
	r->size = actual + S;
	r->t0 = t0; r->t1 = t1;
	nrec++;
	m_wr = m_step(m_wr, r->size);
}

static void rnd_str(char *b, size_t len, int pct_ok)
{
	size_t i;
	for (i = 0; i < len; i++) {
		char c = (char)rr(32, 126);
		if (c == '%' && !pct_ok) c = '#';
		b[i] = c;
	}
	b[len] = 0;
}

static uint32_t fn_counter;

static void log_random_record(void)
{
	char fn[600], a[5000], b[600], c[600], f[5000];
	uint8_t prio = rr(0, 8);
	uint32_t lineno = (rnd() & 1) ? rr(0, 70000) : rnd() * 65536u + rnd();
	uint32_t tags = (rnd() & 1) ? 0 : rnd() * 65536u + rnd();
	size_t fl = (rnd() % 8 == 0) ? rr(0, 400) : rr(0, 30);
	size_t room = (size_t)m_W * 4 - 12;
	size_t L, ll;
	int t;

	snprintf(fn, sizeof(fn), "f%u_", fn_counter++);
	rnd_str(fn + strlen(fn), fl, 1);
	ll = QB_MIN((size_t)cur_mll, room - (33 + strlen(fn) + 1));
	cur_line_len = ll;
	t = rr(0, 9);
	switch (t) {
	case 0:	/* plain text around the line length */
		if (rnd() & 1) L = rr(ll > 6 ? ll - 6 : 0, ll + 4); else L = rr(0, QB_MIN(ll + 4, (size_t)200));
		if (L > 4500) L = 4500;
		rnd_str(f, L, 0);
		emit(fn, prio, lineno, tags, L + 1, f, 0);
		break;
	case 1:
		if (rnd() & 1) L = rr(ll > 10 ? ll - 10 : 0, ll + 2); else L = rr(0, 100);
		if (L > 4500) L = 4500;
		rnd_str(a, L, 1);
		emit(fn, prio, lineno, tags, 3 + L + 1, "%s", a);
		break;
	case 2: {
		int n = (int)(rnd() * 65536u + rnd()); unsigned long u = ((unsigned long)rnd() << 40) ^ rnd();
		L = rr(0, 60); rnd_str(a, L, 1);
		emit(fn, prio, lineno, tags, strlen("n=%d s=%s u=%lu") + 1 + 4 + L + 1 + 8, "n=%d s=%s u=%lu", n, a, u);
		break; }
	case 3: {
		int p = (int)rr(0, 40) - 5;
		size_t st;
		L = rr(0, 30); rnd_str(a, L, 1);
		st = (p < 0) ? L : QB_MIN((size_t)p, L);
		emit(fn, prio, lineno, tags, strlen("[%.*s]") + 1 + 4 + st + 1, "[%.*s]", p, a);
		break; }
	case 4: {
		double d = (double)(int)rnd() / 7.0; long double ld = (long double)rnd() / 3.0L;
		long long q = ((long long)rnd() << 48) ^ rnd(); size_t z = rnd();
		emit(fn, prio, lineno, tags, strlen("%5.2f|%c|%p|%lld|%zu|%Lf") + 1 + 8 + 1 + 8 + 8 + 8 + 16,
		     "%5.2f|%c|%p|%lld|%zu|%Lf", d, (int)rr(33, 126), (void *)(uintptr_t)rnd(), q, z, ld);
		break; }
	case 5: {
		int w = (int)rr(0, 20) - 10; int v = (int)rnd() - 30000; long lv = -(long)(rnd() % 100000) * 100000;
		emit(fn, prio, lineno, tags, strlen("%-*d|%%|%hhd|%#x|%05i|%+ld|%hu") + 1 + 4 * 6 + 8,
		     "%-*d|%%|%hhd|%#x|%05i|%+ld|%hu", w, v, (int)rnd(), (unsigned)rnd(), (int)rr(0, 99999), lv, (int)rnd());
		break; }
	case 6: {
		size_t l1 = rr(0, 8), l2 = rr(0, 20), l3 = rr(0, 6);
		rnd_str(a, l1, 1); rnd_str(b, l2, 1); rnd_str(c, l3, 1);
		emit(fn, prio, lineno, tags, strlen("%.3s|%10s|%-10.2s|") + 1 + QB_MIN(l1, (size_t)3) + 1 + l2 + 1 + QB_MIN(l3, (size_t)2) + 1,
		     "%.3s|%10s|%-10.2s|", a, b, c);
		break; }
	case 7:
		L = rr(1, 20); rnd_str(f, L, 0);
		strcat(f, (rnd() & 1) ? "\n" : "\n\n");
		emit(fn, prio, lineno, tags, strlen(f) + 1, f, 0);
		break;
	case 8:
		if (ll < 40) { emit(fn, prio, lineno, tags, 1, "", 0); break; }
		if (rnd() & 1) emit(fn, prio, lineno, tags, strlen("tail\a") + 1 - 1, "tail\a", 0);
		else emit(fn, prio, lineno, tags, strlen("a\ab %d") + 1 + 4, "a\ab %d", (int)rnd());
		break;
	case 9: {
		/* "%zd %td %jd %i %o %X %e %G %lc-less" */
		emit(fn, prio, lineno, tags, strlen("%zd %td %jd %i %o %X %e %G %lx %llu %%") + 1 + 8 * 3 + 4 * 3 + 8 * 2 + 8 + 8,
		     "%zd %td %jd %i %o %X %e %G %lx %llu %%", (ssize_t)-(long)rnd(), (ptrdiff_t)rnd(), (intmax_t)(rnd() % 100000) << 20,
		     (int)rnd(), rnd(), rnd(), (double)rnd() * 1e10, (double)rnd() / 1e7, (unsigned long)rnd() << 30, (unsigned long long)rnd() << 33);
		break; }
	}
}

/* ---------------- running the printer ---------------- */
static volatile int *progress;	/* shared with children */

static int leftovers(pid_t pid)
{
	char pat[64];
	DIR *d = opendir("/dev/shm");
	struct dirent *e;
	int n = 0;
	snprintf(pat, sizeof(pat), "qb-create_from_file-%d-", (int)pid);
	if (!d) return 0;
	while ((e = readdir(d))) {
		if (strncmp(e->d_name, pat, strlen(pat)) == 0) {
			char p[512];
			n++;
			snprintf(p, sizeof(p), "/dev/shm/%s", e->d_name);
			unlink(p);
		}
	}
	closedir(d);
	return n;
}

/* print "path" in a child with stdout to "out" (or /dev/null); returns wait status */
static int print_child(const char *path, const char *out, pid_t *pidp)
{
	pid_t pid;
	int st;
	fflush(NULL);
	pid = fork();
	if (pid == 0) {
		int fd = open(out ? out : "/dev/null", O_WRONLY | O_CREAT | O_TRUNC, 0600);
		int rc;
		dup2(fd, 1);
		alarm(60);
		rc = qb_log_blackbox_print_from_file(path);
		fflush(stdout);
		_exit(rc == 0 ? 0 : 1);
	}
	waitpid(pid, &st, 0);
	*pidp = pid;
	total_prints++;
	return st;
}

static int bad_status(int st)
{
	if (WIFSIGNALED(st)) return 1;
	if (WIFEXITED(st) && WEXITSTATUS(st) > 1) return 1;	/* sanitizer exit code 99 */
	return 0;
}

static void save_case(const char *path, const char *tag, uint64_t seed, int it, int k)
{
	char cmd[1024];
	snprintf(cmd, sizeof(cmd), "cp %s %s/crash-%s-%llu-%d-%d.bb", path, workdir, tag, (unsigned long long)seed, it, k);
	if (system(cmd)) {}
}

/* ---------------- round trip check ---------------- */
static long long ms_of_day_local(long long ms)
{
	time_t s = ms / 1000; struct tm tm;
	localtime_r(&s, &tm);
	return ((tm.tm_hour * 60LL + tm.tm_min) * 60 + tm.tm_sec) * 1000 + ms % 1000;
}

static void check_output(const char *out, uint64_t seed, int it)
{
	FILE *f = fopen(out, "r");
	static char line[16384];
	int idx = first_kept;
	if (!f) { FAIL("no output file"); return; }
	while (fgets(line, sizeof(line), f)) {
		size_t l = strlen(line);
		char exp[12000];
		struct rec *r;
		char *p;
		int h, m, s, ms;
		char mon[8]; int day;
		if (l && line[l - 1] == '\n') line[--l] = 0;
		if (!strncmp(line, "Ringbuffer:", 11) || !strncmp(line, " ->", 3) || !strncmp(line, " =>", 3)) continue;
		if (!strncmp(line, "ERROR: qb_rb_chunk_read failed", 30)) continue;
		if (idx >= nrec) { FAIL("seed %llu it %d: extra output line: %s", (unsigned long long)seed, it, line); break; }
		r = &recs[idx];
		/* "%-7s %s %s(%u):%u: %s" */
		snprintf(exp, sizeof(exp), "%-7s ", prio_name[r->prio]);
		if (strncmp(line, exp, strlen(exp))) { FAIL("seed %llu it %d rec %d: priority: got '%s' want '%s'", (unsigned long long)seed, it, idx, line, exp); break; }
		p = line + strlen(exp);
		if (sscanf(p, "%3s %d %d:%d:%d.%d", mon, &day, &h, &m, &s, &ms) != 6) { FAIL("seed %llu it %d rec %d: timestamp unparsable: %s", (unsigned long long)seed, it, idx, line); break; }
		{
			long long got = ((h * 60LL + m) * 60 + s) * 1000 + ms;
			long long a = ms_of_day_local(r->t0 - 50), b = ms_of_day_local(r->t1);
			if (!((a <= b && got >= a && got <= b) || (a > b && (got >= a || got <= b))))
				FAIL("seed %llu it %d rec %d: timestamp %lld outside [%lld,%lld]", (unsigned long long)seed, it, idx, got, a, b);
		}
		p += 19;	/* "Mon DD HH:MM:SS.mmm" */
		snprintf(exp, sizeof(exp), " %s(%u):%u: %s", r->fn, r->lineno, r->tags, r->text);
		if (strcmp(p, exp)) {
			FAIL("seed %llu it %d rec %d (of %d, kept from %d):\n  got  '%s'\n  want '%s'", (unsigned long long)seed, it, idx, nrec, first_kept, p, exp);
			break;
		}
		idx++;
	}
	if (idx != nrec && !failures) FAIL("seed %llu it %d: %d records expected (from %d), %d printed", (unsigned long long)seed, it, nrec - first_kept, first_kept, idx - first_kept);
	fclose(f);
}

/* ---------------- mutations ---------------- */
static uint8_t *img; static size_t img_len;
static uint8_t *mut; static size_t mut_len;

static uint32_t interesting(uint32_t W, uint32_t old)
{
	switch (rnd() % 16) {
	case 0: return 0; case 1: return 1; case 2: return 2; case 3: return W - 1; case 4: return W;
	case 5: return W + 1; case 6: return 0xFFFFFFFFu; case 7: return 0x7FFFFFFFu; case 8: return 0x80000000u;
	case 9: return old + 1; case 10: return old - 1; case 11: return W * 4; case 12: return W * 2;
	case 13: return rnd() % (W ? W : 1); case 14: return old ^ (1u << (rnd() % 32));
	default: return rnd() * 65536u + rnd();
	}
}
static uint32_t g32(size_t off) { uint32_t v; memcpy(&v, mut + off, 4); return v; }
static void p32(size_t off, uint32_t v) { if (off + 4 <= mut_len) memcpy(mut + off, &v, 4); }
static void fix_hash(size_t base) { if (base + 20 <= mut_len) p32(base + 16, g32(base) + g32(base + 4) + g32(base + 8) + g32(base + 12)); }

static const char *evil_fmts[] = {
	"%s", "%s%s%s%s", "%n", "%ls", "%lls", "%.*s", "%*.*s", "%*d", "%99999999999d", "%.99999d", "%2147483647d",
	"%Lf", "%llllllld", "%hhhhhhn", "%", "%%", "%5", "%-", "%l", "%ll", "%z", "%c%c%c", "%p%p", "%a", "%.*f",
	"%################################################################d", "%*********************d",
	"%0000000000000000000000000000000000000000000000000000000000000d", "%q", "%m", "%S", "%C", "%lc", "%jd%td%zd",
	"%.*.*.*s", "%-*.*Lf", "%I64d", "%'d", "% d", "%+.3e", "%#llx", "%hs",
};

static void make_mutation(uint32_t W)
{
	int kind = rnd() % 14;
	size_t base = 20;	/* rb header offset */
	size_t data = 40;
	memcpy(mut, img, img_len);
	mut_len = img_len;
	switch (kind) {
	case 0:	/* truncation */
		mut_len = (rnd() & 1) ? rr(0, 80) : rr(0, img_len);
		if (mut_len > img_len) mut_len = img_len;
		break;
	case 1:	/* one rb header word, hash fixed */
	case 2: {
		int w = rnd() % 5;
		p32(base + 4 * w, interesting(W, g32(base + 4 * w)));
		if (kind == 1 && w != 4) fix_hash(base);
		break; }
	case 3: /* blackbox header word */
		p32(4 * (rnd() % 5), interesting(W, 0));
		break;
	case 4: /* old format: drop bb header */
		memmove(mut, mut + 20, mut_len - 20); mut_len -= 20;
		break;
	case 5: case 6: { /* walk chunks, damage one chunk header / record field */
		uint32_t rd = g32(base + 8), wr = g32(base + 4);
		uint32_t p = rd; int n = 0, target = rnd() % 40, guard = 0;
		while (p != wr && guard++ < 100000) {
			uint32_t sz = g32(data + 4 * (size_t)p);
			if (n++ == target || (rnd() % 64) == 0) {
				size_t o = data + 4 * (size_t)p;
				int what = rnd() % 8;
				size_t rec = o + 8;
				uint32_t fnsz = 0;
				if (rec + 13 < mut_len) fnsz = g32(rec + 9);
				switch (what) {
				case 0: p32(o, interesting(W, sz)); break;
				case 1: p32(o + 4, (rnd() & 1) ? 0xA1A1A1A1u : interesting(W, 0xA1A1A1A1u)); break;
				case 2: p32(rec + 9, interesting(W, fnsz)); break;	/* fn_size */
				case 3: if (rec + 13 + fnsz + 20 < mut_len) p32(rec + 13 + fnsz + 16, interesting(W, 5)); break; /* msg_len */
				case 4: if (rec + 13 + fnsz + 16 < mut_len) { p32(rec + 13 + fnsz, rnd()); p32(rec + 13 + fnsz + 4, rnd() * 65536u + rnd()); p32(rec + 13 + fnsz + 8, rnd() * 65536u + rnd()); p32(rec + 13 + fnsz + 12, rnd() * 65536u + rnd()); } break; /* timestamp */
				case 5: if (fnsz && rec + 13 + fnsz < mut_len) mut[rec + 13 + fnsz - 1] = 'x'; break; /* unterminated fn */
				case 6: { /* evil format into the message */
					size_t mo = rec + 13 + fnsz + 20;
					const char *e = evil_fmts[rnd() % (sizeof(evil_fmts) / sizeof(evil_fmts[0]))];
					uint32_t ml = (rec + 13 + fnsz + 20 <= mut_len) ? g32(rec + 13 + fnsz + 16) : 0;
					if (mo + strlen(e) + 1 < mut_len && ml > 0 && ml < 5000) {
						size_t el = QB_MIN(strlen(e), (size_t)ml - 1);
						memcpy(mut + mo, e, el);
						if (rnd() & 1) mut[mo + el] = 0;
						if (rnd() % 4 == 0) { size_t i; for (i = el + 1; i < ml && mo + i < mut_len; i++) mut[mo + i] = rnd(); }
					}
					break; }
				case 7: { size_t i, cnt = rr(1, 16); for (i = 0; i < cnt; i++) { size_t q = rec + rnd() % (sz + 8 ? sz + 8 : 1); if (q < mut_len) mut[q] = rnd(); } break; }
				}
				if (rnd() & 1) break;
			}
			p += 2 + sz / 4 + ((sz % 4) ? 1 : 0);
			if (W) p %= W;
			if (data + 4 * (size_t)p + 8 > mut_len) break;
		}
		break; }
	case 7: { /* random multi-byte */
		size_t i, cnt = rr(1, 64);
		for (i = 0; i < cnt; i++) mut[rnd() % mut_len] = rnd();
		if (rnd() & 1) fix_hash(base);
		break; }
	case 8: { /* random bytes in the first 60 */
		size_t i, cnt = rr(1, 8);
		for (i = 0; i < cnt; i++) mut[rnd() % 60] = rnd();
		if (rnd() & 1) fix_hash(base);
		break; }
	case 9: { /* arbitrary byte string */
		size_t i; mut_len = rr(0, 300);
		for (i = 0; i < mut_len; i++) mut[i] = rnd();
		break; }
	case 10: { /* small synthetic rb: valid header, small/odd word size */
		uint32_t w = (rnd() & 1) ? rr(1, 40) : rr(1, 3000);
		size_t i; int newfmt = rnd() & 1;
		size_t o = 0;
		uint32_t rd = rnd() % w, wr = rnd() % w;
		if (newfmt) { p32(0, 0); p32(4, 0xCCBBCCBB); p32(8, 0xBBCCBBCC); p32(12, 2); p32(16, 0); o = 20; }
		mut_len = o + 20 + 4 * (size_t)w + ((rnd() % 4 == 0) ? rr(0, 64) : 0);
		if (mut_len > img_len) mut_len = img_len;
		p32(o, w); p32(o + 4, wr); p32(o + 8, rd); p32(o + 12, 1); fix_hash(o);
		for (i = o + 20; i < mut_len; i++) mut[i] = (rnd() % 3) ? 0 : rnd();
		/* put a chunk at rd */
		if (w > 4) { p32(o + 20 + 4 * (size_t)rd, (rnd() & 1) ? rr(0, 4 * w) : interesting(w, 30)); p32(o + 20 + 4 * (size_t)((rd + 1) % w), 0xA1A1A1A1u); }
		break; }
	case 11: { /* rd/wr swapped or moved, hash fixed: stale data walked */
		p32(base + 4, rnd() % W); p32(base + 8, rnd() % W); fix_hash(base);
		break; }
	case 12: { /* word size shrunk/grown with matching truncation */
		uint32_t w = (rnd() & 1) ? rr(1, W) : W - rr(0, 8);
		p32(base, w); if (g32(base + 4) >= w) p32(base + 4, rnd() % w); if (g32(base + 8) >= w) p32(base + 8, rnd() % w);
		fix_hash(base);
		if (rnd() & 1) mut_len = QB_MIN(img_len, 40 + 4 * (size_t)w);
		break; }
	case 13: { /* every chunk size word damaged the same way */
		uint32_t rd = g32(base + 8), wr = g32(base + 4), p = rd; int guard = 0; int d = (int)rr(0, 16) - 8;
		while (p != wr && guard++ < 100000) {
			size_t o = data + 4 * (size_t)p; uint32_t sz;
			if (o + 8 > mut_len) break;
			sz = g32(o);
			if (rnd() % 3 == 0) p32(o, sz + d);
			p = (p + 2 + sz / 4 + ((sz % 4) ? 1 : 0)) % W;
		}
		break; }
	}
}

static void write_file(const char *path, const uint8_t *b, size_t n)
{
	int fd = open(path, O_WRONLY | O_CREAT | O_TRUNC, 0600);
	if (fd < 0 || write(fd, b, n) != (ssize_t)n) { perror("write_file"); exit(3); }
	close(fd);
}

static void mutation_batch(const char *dump, uint32_t W, int count, uint64_t seed, int it)
{
	char path[512], keep[512];
	int start = 0;
	snprintf(path, sizeof(path), "%s/mut-%llu.bb", workdir, (unsigned long long)seed);
	snprintf(keep, sizeof(keep), "%s/mutcur-%llu.bb", workdir, (unsigned long long)seed);
	(void)dump;
	while (start < count) {
		pid_t pid; int st; uint64_t save_rs = rs;
		fflush(NULL);
		*progress = start;
		pid = fork();
		if (pid == 0) {
			int k, fd = open("/dev/null", O_WRONLY);
			dup2(fd, 1);
			alarm(120);
			for (k = start; k < count; k++) {
				make_mutation(W);
				write_file(path, mut, mut_len);
				*progress = k;
				(void)qb_log_blackbox_print_from_file(path);
			}
			*progress = count;
			fflush(stdout);
			_exit(0);
		}
		waitpid(pid, &st, 0);
		{
			int done = *progress, k;
			/* replay the rng in the parent up to where the child got */
			rs = save_rs;
			for (k = start; k < QB_MIN(done + 1, count); k++) make_mutation(W);
			total_prints += QB_MIN(done + 1, count) - start;
			if (bad_status(st)) {
				write_file(keep, mut, mut_len);
				FAIL("seed %llu it %d mutation %d: printer died, status 0x%x (file kept as crash-mut)", (unsigned long long)seed, it, done, st);
				save_case(keep, "mut", seed, it, done);
				start = done + 1;
			} else {
				start = count;
			}
			if (leftovers(pid)) FAIL("seed %llu it %d: shm files left behind by pid %d (batch up to %d)", (unsigned long long)seed, it, (int)pid, done);
		}
	}
}

int main(int argc, char **argv)
{
	uint64_t seed = argc > 1 ? strtoull(argv[1], NULL, 0) : 1;
	int iters = argc > 2 ? atoi(argv[2]) : 100;
	int nmut = argc > 3 ? atoi(argv[3]) : 200;
	int it;
	char dump[512], out[512];

	rep = fdopen(dup(2), "w");
	snprintf(workdir, sizeof(workdir), "/tmp/hunt3-C15/work");
	mkdir(workdir, 0700);
	snprintf(dump, sizeof(dump), "%s/dump-%llu.bb", workdir, (unsigned long long)seed);
	snprintf(out, sizeof(out), "%s/out-%llu.txt", workdir, (unsigned long long)seed);
	progress = mmap(NULL, 4096, PROT_READ | PROT_WRITE, MAP_SHARED | MAP_ANONYMOUS, -1, 0);
	if (freopen("/dev/null", "w", stdout) == NULL) return 3;
	rs = seed * 0x9E3779B97F4A7C15ull + 12345;
	rnd(); rnd();

	for (it = 0; it < iters && failures < 5; it++) {
		static const int sizes[] = { 1024, 1025, 2000, 4083, 4084, 4082, 4096, 5000, 8179, 8180, 8192, 12275, 16384, 30000, 65536 };
		int size = (rnd() % 4 == 0) ? (int)rr(1024, 40000) : sizes[rnd() % (sizeof(sizes) / sizeof(sizes[0]))];
		int n, i, rc;
		ssize_t wsz;
		struct stat sb;
		pid_t pid;
		int st;
		char name[32];

		switch (rnd() % 5) {
		case 0: cur_mll = rr(4, 40); break;
		case 1: cur_mll = 4096; break;
		case 2: cur_mll = rr(4, 4096); break;
		default: cur_mll = 512; break;
		}
		snprintf(name, sizeof(name), "fz%llu", (unsigned long long)seed);
		qb_log_init(name, LOG_USER, LOG_EMERG);
		qb_log_ctl(QB_LOG_SYSLOG, QB_LOG_CONF_ENABLED, QB_FALSE);
		rc = qb_log_ctl(QB_LOG_BLACKBOX, QB_LOG_CONF_SIZE, size);
		rc |= qb_log_ctl(QB_LOG_BLACKBOX, QB_LOG_CONF_MAX_LINE_LEN, cur_mll);
		rc |= qb_log_filter_ctl(QB_LOG_BLACKBOX, QB_LOG_FILTER_ADD, QB_LOG_FILTER_FILE, "*", LOG_TRACE);
		rc |= qb_log_ctl(QB_LOG_BLACKBOX, QB_LOG_CONF_ENABLED, QB_TRUE);
		if (rc) { FAIL("setup rc %d size %d", rc, size); break; }

		m_W = (uint32_t)((((size_t)size + 13 + 4095) / 4096) * 4096 / 4);
		m_rd = m_wr = 0; nrec = 0; first_kept = 0;

		switch (rnd() % 4) {
		case 0: n = rr(0, 5); break;
		case 1: n = rr(0, 60); break;
		default: n = rr(0, 1500); break;
		}
		for (i = 0; i < n; i++) log_random_record();

		unlink(dump);
		wsz = qb_log_blackbox_write_to_file(dump);
		if (stat(dump, &sb) || sb.st_size != (off_t)(40 + 4 * (size_t)m_W) || wsz != sb.st_size)
			FAIL("seed %llu it %d: dump size %lld returned %zd, want %zu", (unsigned long long)seed, it, (long long)sb.st_size, wsz, 40 + 4 * (size_t)m_W);

		st = print_child(dump, out, &pid);
		if (bad_status(st)) { FAIL("seed %llu it %d: printer died on a VALID dump, status 0x%x", (unsigned long long)seed, it, st); save_case(dump, "valid", seed, it, 0); }
		else check_output(out, seed, it);
		if (leftovers(pid)) FAIL("seed %llu it %d: shm files left behind after valid print", (unsigned long long)seed, it);
		if (failures) { save_case(dump, "rt", seed, it, 0); }

		/* mutations */
		{
			int fd = open(dump, O_RDONLY);
			img_len = sb.st_size;
			img = realloc(img, img_len + 64); mut = realloc(mut, img_len + 64);
			if (read(fd, img, img_len) != (ssize_t)img_len) { FAIL("reread"); }
			close(fd);
			mutation_batch(dump, m_W, nmut, seed, it);
		}

		for (i = 0; i < nrec; i++) { free(recs[i].fn); free(recs[i].text); }
		qb_log_fini();
		if ((it % 20) == 19) { fprintf(rep, "seed %llu: it %d, log ops %lu, prints %lu, failures %d\n", (unsigned long long)seed, it + 1, total_ops, total_prints, failures); fflush(rep); }
	}
	fprintf(rep, "DONE seed %llu: iterations %d, log ops %lu, prints %lu, failures %d\n", (unsigned long long)seed, it, total_ops, total_prints, failures);
	unlink(dump); unlink(out);
	return failures ? 1 : 0;
}
