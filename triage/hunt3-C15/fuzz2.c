/* direct fuzz of qb_vsnprintf_deserialize_n with exactly sized heap buffers
 * (the printer hands it the record's message; inside the printer an over-read
 * would stay inside the malloc'ed chunk buffer and ASan would not see it) */
#define _GNU_SOURCE
#include <stdio.h>
#include <stdlib.h>
#include <string.h>
#include <stdint.h>
#include <qb/qbdefs.h>
#include <qb/qblog.h>
size_t qb_vsnprintf_deserialize_n(char *string, size_t str_len, const char *buf, size_t buf_len);
static uint64_t rs;
static uint32_t rnd(void) { rs ^= rs << 13; rs ^= rs >> 7; rs ^= rs << 17; return (uint32_t)(rs >> 16); }
static uint32_t rr(uint32_t lo, uint32_t hi) { return lo + rnd() % (hi - lo + 1); }
static const char *pieces[] = { "%s", "%d", "%ld", "%lld", "%c", "%p", "%f", "%Lf", "%%", "%", "%.*s", "%*d", "%*.*f", "%-5s|", "%.3s", "%ls", "%lls", "%hhd", "%zu", "%jd", "%td",
	"%n", "%q", "%m", "abc", " ", "%l", "%ll", "%L", "%h", "%5", "%.", "%.*", "%*", "%#x", "%+i", "%'d", "%I", "%05o", "%e", "%G", "%a", "%A", "%lc", "%hs", "%lllld", "%zzd", "%Ls", "%Lc", "%Lp", "%lp", "%hp", "%.*p", "%*c", "%.*c", "%*%", "%.5%" };
int main(int argc, char **argv)
{
	uint64_t seed = argc > 1 ? strtoull(argv[1], 0, 0) : 1;
	long n = argc > 2 ? atol(argv[2]) : 100000, i, bad = 0;
	rs = seed * 0x9E3779B97F4A7C15ull + 99; rnd();
	for (i = 0; i < n; i++) {
		char tmp[9000]; size_t tl = 0, buf_len, str_len, ret; char *buf, *str; int np = rr(0, 12), k;
		for (k = 0; k < np && tl < 4000; k++) {
			int w = rnd() % 10;
			if (w < 6) { const char *p = pieces[rnd() % (sizeof(pieces) / sizeof(pieces[0]))]; strcpy(tmp + tl, p); tl += strlen(p); }
			else if (w < 8) { /* random spec */
				int j, m = rr(0, (rnd() % 8 == 0) ? 70 : 6);
				tmp[tl++] = '%';
				for (j = 0; j < m; j++) { char ch = "#- +'Ih.0123456789*lLztj"[rnd() % 24]; if (ch >= '0' && ch <= '9' && j > 0 && tl > 3 && tmp[tl-1] >= '0' && tmp[tl-1] <= '9' && tmp[tl-2] >= '0' && tmp[tl-2] <= '9' && tmp[tl-3] >= '0' && tmp[tl-3] <= '9') ch = '.'; tmp[tl++] = ch; }
				tmp[tl++] = "diouxXeEfFgGaAcsp%nqSC"[rnd() % 22];
			} else { int j, m = rr(0, (rnd() % 16 == 0) ? 3000 : 20); for (j = 0; j < m; j++) tmp[tl++] = (char)rr(1, 255); }
		}
		if (rnd() % 8) tmp[tl++] = 0;
		/* arguments */
		{ int m = rr(0, (rnd() % 4 == 0) ? 60 : 12), j;
		  for (j = 0; j < m && tl < 8000; j++) { int w = rnd() % 8;
			if (w < 3) { tmp[tl++] = (char)rr(0, 20); tmp[tl++] = 0; tmp[tl++] = 0; tmp[tl++] = 0; }
			else if (w == 3) { tmp[tl++] = (char)0xff; tmp[tl++] = (char)0xff; tmp[tl++] = (char)0xff; tmp[tl++] = (char)0xff; }
			else if (w < 6) { int q, l = rr(0, 3); for (q = 0; q < l; q++) tmp[tl++] = (char)rr(32, 126); tmp[tl++] = 0; }
			else if (w == 6) { memset(tmp + tl, 0, 8); tl += 8; }
			else { tmp[tl++] = (char)rnd(); } } }
		buf_len = (rnd() % 4 == 0) ? rr(0, tl) : tl;
		buf = malloc(buf_len ? buf_len : 1); memcpy(buf, tmp, buf_len);
		switch (rnd() % 6) { case 0: str_len = rr(1, 8); break; case 1: str_len = rr(1, 200); break; default: str_len = 4096; }
		str = malloc(str_len); memset(str, 'Z', str_len);
		ret = qb_vsnprintf_deserialize_n(str, str_len, buf, buf_len);
		if (ret == 0 || ret > str_len || memchr(str, 0, str_len) == NULL) {
			fprintf(stderr, "BAD seed %llu case %ld: ret %zu str_len %zu buf_len %zu\n", (unsigned long long)seed, i, ret, str_len, buf_len);
			{ size_t q; for (q = 0; q < buf_len; q++) fprintf(stderr, "%02x", (unsigned char)buf[q]); fprintf(stderr, "\n"); }
			if (++bad > 3) return 1;
		}
		free(buf); free(str);
	}
	fprintf(stderr, "fuzz2 seed %llu: %ld cases, %ld bad\n", (unsigned long long)seed, n, bad);
	return bad ? 1 : 0;
}
