/*
 * C09 finding 1: a timer whose duration does not fit in "2^64 - now" wraps
 * around in timerlist_add_duration() and is dispatched IMMEDIATELY instead of
 * (practically) never.
 *
 * Public API only, real clock.  Exit 0 = property held, 1 = violated.
 */
#include <stdio.h>
#include <stdint.h>
#include <inttypes.h>
#include <qb/qbdefs.h>
#include <qb/qbloop.h>
#include <qb/qbutil.h>

static qb_loop_t *l;
static uint64_t t0;
static int fired_huge[3], fired_ctl, fired_stop, bad;
static const char *order[8];
static int norder;

static void huge_cb(void *data)
{
	int i = (int)(intptr_t) data;
	uint64_t el = qb_util_nano_current_get() - t0;
	fired_huge[i] = 1;
	order[norder++] = "huge";
	printf("  huge timer #%d DISPATCHED %" PRIu64 " us after it was added\n", i, el / 1000);
}

static void ctl_cb(void *data)
{
	(void)data;
	fired_ctl = 1;
	order[norder++] = "100ms";
	printf("  100 ms control timer dispatched after %" PRIu64 " us\n", (qb_util_nano_current_get() - t0) / 1000);
}

static void stop_cb(void *data)
{
	(void)data;
	fired_stop = 1;
	qb_loop_stop(l);
}

int main(void)
{
	/* all of these are > 500 years; none may fire within the 300 ms this program runs */
	uint64_t d[3] = { UINT64_MAX, UINT64_MAX - 1000, UINT64_MAX - qb_util_nano_current_get() / 2 };
	qb_loop_timer_handle h[3], hc, hs;
	int i, rc;

	l = qb_loop_create();
	t0 = qb_util_nano_current_get();
	printf("monotonic clock now = %" PRIu64 " ns\n", t0);
	/* same priority: the 100 ms timer has the EARLIER expiry, it must be dispatched first */
	rc = qb_loop_timer_add(l, QB_LOOP_MED, 100 * QB_TIME_NS_IN_MSEC, NULL, ctl_cb, &hc);
	printf("add(100 ms) = %d\n", rc);
	for (i = 0; i < 3; i++) {
		rc = qb_loop_timer_add(l, QB_LOOP_MED, d[i], (void *)(intptr_t) i, huge_cb, &h[i]);
		printf("add(%" PRIu64 " ns = %.1f years) = %d   expire_time=%" PRIu64 " remaining=%" PRIu64 " is_running=%d\n",
		       d[i], (double)d[i] / 1e9 / 86400 / 365, rc,
		       qb_loop_timer_expire_time_get(l, h[i]), qb_loop_timer_expire_time_remaining(l, h[i]),
		       qb_loop_timer_is_running(l, h[i]));
		if (rc != 0) {
			printf("  (add refused: acceptable, not a violation)\n");
			fired_huge[i] = -1;
			continue;
		}
		if (qb_loop_timer_expire_time_remaining(l, h[i]) == 0) {
			printf("  VIOLATION: pending timer reports 0 ns remaining\n");
			bad = 1;
		}
	}
	qb_loop_timer_add(l, QB_LOOP_LOW, 300 * QB_TIME_NS_IN_MSEC, NULL, stop_cb, &hs);
	qb_loop_run(l);

	for (i = 0; i < 3; i++)
		if (fired_huge[i] == 1) {
			printf("VIOLATION: timer with duration %" PRIu64 " ns fired within 300 ms\n", d[i]);
			bad = 1;
		}
	if (norder && order[0][0] == 'h' && fired_ctl) {
		printf("VIOLATION: same priority, but the >500 year timer was dispatched before the 100 ms timer\n");
		bad = 1;
	}
	printf(bad ? "RESULT: property C09 VIOLATED\n" : "RESULT: property held\n");
	return bad;
}
