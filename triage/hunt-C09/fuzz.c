/*
 * C09 model-based randomized tester for libqb timers (loop_timerlist.c, tlist.h,
 * loop.c, util.c).
 *
 * The loop sources are compiled INTO this program with
 *     -Dclock_gettime=v_clock_gettime -Depoll_wait=v_epoll_wait
 * so that the library runs on a VIRTUAL monotonic clock: every clock read
 * advances the clock by a few ns, and "blocking" in epoll_wait(timeout)
 * simply advances the clock by the timeout.  That makes every duration the
 * API accepts (0 .. 2^64-1 ns) testable in no real time, and makes every
 * sleep of the loop observable and checkable against the reference model.
 *
 * Reference model (what property C09 promises):
 *   - a timer added at virtual time T (T in (lo,hi], clock sampled before and
 *     after the add call) with duration d has mathematical expiry E = T + d
 *     (computed in 128 bit: NO wrap-around);
 *   - dispatch time >= lo + d                                   [EARLY]
 *   - same-priority timers dispatched in expiry order            [ORDER]
 *   - a deleted / already dispatched timer is never dispatched   [GHOST]
 *   - whenever the loop blocks while a timer is pending: timeout != -1 [INDEF]
 *     and wake-up <= earliest E + 1 tick (1ms), or + 50ms when timeout<=50
 *     and a job was queued since the previous block              [OVERSLEEP]
 *   - the loop does not spin for ever without dispatching        [LIVELOCK]
 *   - dispatch time <= max(E, start of run) + 51ms + allowance   [LATE]
 *   - is_running / time_remaining / expire_time_get: non-zero while pending
 *     and not yet expired, remaining within [E-now], zero for dispatched /
 *     deleted handles                                            [QUERY]
 *   - add/del of a valid timer return 0                          [RC]
 */
#define _GNU_SOURCE
#include <stdio.h>
#include <stdlib.h>
#include <string.h>
#include <stdint.h>
#include <inttypes.h>
#include <unistd.h>
#include <errno.h>
#include <time.h>
#include <sys/epoll.h>
#include <sys/eventfd.h>
#include <qb/qbdefs.h>
#include <qb/qbloop.h>
#include <qb/qbutil.h>

typedef unsigned __int128 u128;

#define MS 1000000ULL
#define SEC 1000000000ULL
#define DAY (86400ULL * SEC)
#define YEAR (365ULL * DAY)
#define GUARD ((uint64_t)1 << 62)	/* never let the virtual clock pass this */

/* ---------------------------------------------------------------- rng */
static uint64_t rs;
static uint64_t rnd64(void)
{
	rs ^= rs << 13;
	rs ^= rs >> 7;
	rs ^= rs << 17;
	return rs;
}
static uint64_t rnd(uint64_t n)
{				/* 0..n-1 */
	return n ? rnd64() % n : 0;
}

/* ---------------------------------------------------------------- virtual clock */
static uint64_t vnow;		/* virtual CLOCK_MONOTONIC, ns */
static uint64_t vstep = 2000;	/* each clock read advances by 0..vstep ns */
static uint64_t nclockreads;
static const uint64_t epoch_off = 1700000000ULL * SEC;

int v_clock_gettime(clockid_t id, struct timespec *ts);
int v_epoll_wait(int epfd, struct epoll_event *ev, int maxev, int timeout);

int v_clock_gettime(clockid_t id, struct timespec *ts)
{
	uint64_t t;
	nclockreads++;
	vnow += vstep ? rnd(vstep + 1) : 0;
	t = vnow;
	if (id != CLOCK_MONOTONIC)
		t += epoch_off;
	ts->tv_sec = t / SEC;
	ts->tv_nsec = t % SEC;
	return 0;
}

/* ---------------------------------------------------------------- model */
enum tstate { T_PENDING = 1, T_DISPATCHED, T_DELETED };
struct mt {
	int id;
	enum tstate st;
	int prio;
	uint64_t d, lo, hi;	/* add happened at clock in (lo,hi] */
	qb_loop_timer_handle h;
	int pidx;		/* index in pending[] */
};
static struct mt **pending;
static int npending, cappending;
#define NSTALE 512
static struct mt *stale[NSTALE];
static int nstale;
static struct mt *cached_min;
static int min_dirty = 1;
static int next_id;

static qb_loop_t *L;
static int verbose, keepgoing;
static uint64_t maxdur = UINT64_MAX;
static int maxconc = 64;
static int durmode;
static long ops_done, ops_target = 300000;
static long run_budget;
static int in_run;
static uint64_t run_start;
static uint64_t horizon;
static int job_flag;		/* a job was queued since the last block */
static long polls_this_run, zero_polls_in_row;
static long n_epochs, n_eintr; static int inject_eintr; static int fixed_base;
static long n_add, n_del, n_disp, n_query, n_sleep, n_runs, n_jobs, n_fdwake, n_staledel_ok;
static long viol[16];
static const char *vname[] = { "EARLY", "ORDER", "GHOST", "INDEF", "OVERSLEEP",
	"LIVELOCK", "LATE", "QUERY", "RC", "LOST"
};
enum { V_EARLY, V_ORDER, V_GHOST, V_INDEF, V_OVERSLEEP, V_LIVELOCK, V_LATE, V_QUERY, V_RC, V_LOST };
static uint64_t seed;
static int evfd = -1;
static int evfd_prio;

static struct { int valid; u128 elo, ehi; int id; } last_disp[3];

#define TR(...) do { if (verbose) { printf("[%" PRIu64 "] ", vnow); printf(__VA_ARGS__); printf("\n"); } } while (0)

static void violation(int kind, const char *fmt, ...)
    __attribute__((format(printf, 2, 3)));
#include <stdarg.h>
static void violation(int kind, const char *fmt, ...)
{
	va_list ap;
	viol[kind]++;
	if (viol[kind] <= 5 || verbose) {
		printf("VIOLATION %s (seed %" PRIu64 ", op %ld, vnow %" PRIu64 "): ", vname[kind], seed, ops_done, vnow);
		va_start(ap, fmt);
		vprintf(fmt, ap);
		va_end(ap);
		printf("\n");
	}
	if (!keepgoing) {
		fflush(stdout);
		_exit(1);
	}
}

static u128 Elo(struct mt *t) { return (u128) t->lo + t->d; }
static u128 Ehi(struct mt *t) { return (u128) t->hi + t->d; }

static void pend_add(struct mt *t)
{
	if (npending == cappending) {
		cappending = cappending ? cappending * 2 : 64;
		pending = realloc(pending, cappending * sizeof(*pending));
	}
	t->pidx = npending;
	pending[npending++] = t;
	if (!min_dirty && (cached_min == NULL || Ehi(t) < Ehi(cached_min)))
		cached_min = t;
}

static void pend_remove(struct mt *t)
{
	struct mt *lastp = pending[npending - 1];
	pending[t->pidx] = lastp;
	lastp->pidx = t->pidx;
	npending--;
	t->pidx = -1;
	if (cached_min == t) {
		cached_min = NULL;
		min_dirty = 1;
	}
	stale[nstale++ % NSTALE] = t;
}

static struct mt *pend_min(void)
{
	int i;
	if (min_dirty) {
		cached_min = NULL;
		for (i = 0; i < npending; i++)
			if (cached_min == NULL || Ehi(pending[i]) < Ehi(cached_min))
				cached_min = pending[i];
		min_dirty = 0;
	}
	return cached_min;
}

/* ---------------------------------------------------------------- durations */
static uint64_t gen_dur(void)
{
	uint64_t d = 0, k;
	int c = durmode ? durmode : (int)rnd(16);
	switch (c) {
	case 0:
		d = 0;
		break;
	case 1:
		d = rnd(1000);
		break;
	case 2:
		d = rnd(MS + 1);
		break;
	case 3:
		d = rnd(1000) * MS + rnd(MS);
		break;
	case 4:
		d = rnd(100) * MS;
		break;		/* exact ms, many ties */
	case 5:
		d = rnd(3600) * SEC + rnd(SEC);
		break;
	case 6:
		d = (((uint64_t)1 << 31) + rnd(7) - 3) * MS + rnd(3) * (MS - 1) / 2;
		break;
	case 7:
		d = (((uint64_t)1 << 32) + rnd(7) - 3) * MS + rnd(3) * (MS - 1) / 2;
		break;
	case 8:
		d = ((rnd(6) + 1) * ((uint64_t)1 << 32) + rnd(2001) - 1000) * MS + rnd(MS);
		break;
	case 9:
		d = ((uint64_t)INT32_MAX + rnd(5) - 2) * MS + rnd(MS);
		break;
	case 10:
		k = rnd(64);
		d = ((uint64_t)1 << k) + rnd(5) - 2;
		break;
	case 11:
		d = UINT64_MAX - rnd(4);
		break;
	case 12:
		d = UINT64_MAX - vnow - 2000 + rnd(4000);
		break;		/* wrap boundary */
	case 13:
		d = rnd64();
		break;
	case 14:
		d = rnd64() >> rnd(64);
		break;
	case 15:
		d = rnd(50) * MS + rnd(3);
		break;		/* near the 50ms job pause */
	default:
		d = rnd(10) * MS;
		break;		/* -D 16: only short, for heap stress */
	}
	if (d > maxdur)
		d = maxdur - rnd(maxdur < 1000 ? maxdur + 1 : 1000);
	return d;
}

/* ---------------------------------------------------------------- ops */
static void timer_cb(void *data);
static void job_cb(void *data);
static void random_ops(int depth);

static void op_add(void)
{
	struct mt *t = calloc(1, sizeof(*t));
	int32_t rc;
	t->id = next_id++;
	t->prio = rnd(3);
	t->d = gen_dur();
	t->lo = vnow;
	rc = qb_loop_timer_add(L, t->prio, t->d, t, timer_cb, &t->h);
	t->hi = vnow;
	n_add++;
	TR("add id=%d prio=%d d=%" PRIu64 " rc=%d h=%" PRIx64, t->id, t->prio, t->d, rc, t->h);
	if (rc != 0) {
		violation(V_RC, "qb_loop_timer_add(d=%" PRIu64 ") = %d", t->d, rc);
		return;
	}
	t->st = T_PENDING;
	pend_add(t);
}

static void check_query(struct mt *t)
{
	uint64_t lo, hi, et, rem;
	int32_t run;
	n_query++;
	lo = vnow;
	run = qb_loop_timer_is_running(L, t->h);
	et = qb_loop_timer_expire_time_get(L, t->h);
	rem = qb_loop_timer_expire_time_remaining(L, t->h);
	hi = vnow;
	TR("query id=%d st=%d running=%d et=%" PRIu64 " rem=%" PRIu64, t->id, t->st, run, et, rem);
	if (t->st != T_PENDING) {
		if (run || et || rem)
			violation(V_QUERY, "timer %d is %s but is_running=%d expire_time=%" PRIu64 " remaining=%" PRIu64,
				  t->id, t->st == T_DELETED ? "deleted" : "dispatched", run, et, rem);
		return;
	}
	if ((u128) hi < Elo(t)) {
		/* definitely not yet expired */
		if (!run || !et || !rem)
			violation(V_QUERY, "timer %d (d=%" PRIu64 ", added at %" PRIu64 ") pending, not expired, but is_running=%d expire_time=%" PRIu64 " remaining=%" PRIu64,
				  t->id, t->d, t->hi, run, et, rem);
		else {
			u128 rlo = Elo(t) - hi, rhi = Ehi(t) - lo;
			/* an expiry beyond 2^64 is not representable: only "non-zero" is required then */
			if (Ehi(t) <= UINT64_MAX && ((u128) rem < rlo || (u128) rem > rhi))
				violation(V_QUERY, "timer %d d=%" PRIu64 " added at %" PRIu64 ": remaining=%" PRIu64 " outside [%" PRIu64 ",%" PRIu64 "]",
					  t->id, t->d, t->hi, rem, (uint64_t) rlo, (uint64_t) rhi);
			if (Ehi(t) <= UINT64_MAX && ((u128) et < Elo(t) || (u128) et > Ehi(t)))
				violation(V_QUERY, "timer %d d=%" PRIu64 ": expire_time=%" PRIu64 " outside [%" PRIu64 ",%" PRIu64 "]",
					  t->id, t->d, et, (uint64_t) Elo(t), (uint64_t) Ehi(t));
		}
	} else if ((u128) lo > Ehi(t)) {
		if (rem)
			violation(V_QUERY, "timer %d overdue but remaining=%" PRIu64, t->id, rem);
	}
}

static void op_del(struct mt *t)
{
	int32_t rc = qb_loop_timer_del(L, t->h);
	n_del++;
	TR("del id=%d st=%d rc=%d", t->id, t->st, rc);
	if (t->st == T_PENDING) {
		if (rc != 0)
			violation(V_RC, "qb_loop_timer_del(pending timer %d) = %d", t->id, rc);
		t->st = T_DELETED;
		pend_remove(t);
	} else if (rc != 0) {
		n_staledel_ok++;
	}
}

static struct mt *pick_pending(void)
{
	if (npending == 0)
		return NULL;
	switch (rnd(4)) {
	case 0:
		return pend_min();	/* the heap root (or near) */
	case 1:
		return pending[npending - 1];	/* most recently added */
	default:
		return pending[rnd(npending)];
	}
}

static int jobs_out;
static void op_job(void)
{
	int32_t rc;
	if (jobs_out > 8)
		return;
	rc = qb_loop_job_add(L, rnd(3), NULL, job_cb);
	TR("job_add rc=%d", rc);
	if (rc == 0) {
		jobs_out++;
		job_flag = 1;
		n_jobs++;
	}
}

static void one_op(void)
{
	struct mt *t;
	int r = rnd(100);
	ops_done++;
	if (r < 40) {
		if (npending < maxconc)
			op_add();
		else if ((t = pick_pending()))
			op_del(t);
	} else if (r < 60) {
		if ((t = pick_pending()))
			op_del(t);
	} else if (r < 80) {
		if ((t = pick_pending()))
			check_query(t);
	} else if (r < 88) {
		if (nstale) {
			t = stale[rnd(nstale < NSTALE ? nstale : NSTALE)];
			if (rnd(2))
				check_query(t);
			else
				op_del(t);
		}
	} else if (r < 94) {
		op_job();
	} else if (r < 96 && in_run) {
		TR("stop");
		qb_loop_stop(L);
	} else {
		/* burst of adds: same-time expiries, heap growth */
		int n = rnd(12);
		while (n-- && npending < maxconc)
			op_add();
	}
}

static void random_ops(int depth)
{
	int n;
	(void)depth;
	if (run_budget <= 0)
		return;
	n = rnd(4);
	while (n-- > 0 && run_budget > 0) {
		run_budget--;
		one_op();
	}
}

static void timer_cb(void *data)
{
	struct mt *t = data;
	uint64_t now = vnow;
	u128 dl;
	n_disp++;
	zero_polls_in_row = 0;
	TR("DISPATCH id=%d prio=%d d=%" PRIu64 " added@%" PRIu64 " E=%" PRIu64 "%s", t->id, t->prio, t->d, t->hi,
	   (uint64_t) Ehi(t), Ehi(t) > UINT64_MAX ? " (+2^64)" : "");
	if (t->st != T_PENDING) {
		violation(V_GHOST, "timer %d dispatched although %s", t->id, t->st == T_DELETED ? "deleted" : "already dispatched");
		return;
	}
	if ((u128) now < Elo(t)) {
		u128 early = Elo(t) - now;
		violation(V_EARLY, "timer %d prio %d duration %" PRIu64 " ns added at %" PRIu64 " dispatched at %" PRIu64 ": %s%" PRIu64 " ns EARLY",
			  t->id, t->prio, t->d, t->lo, now, early > UINT64_MAX ? ">2^64+" : "", (uint64_t) early);
	}
	dl = Ehi(t);
	if (dl < run_start)
		dl = run_start;
	dl += 51 * MS + 100 * MS;
	if ((u128) now > dl)
		violation(V_LATE, "timer %d d=%" PRIu64 " expiry %" PRIu64 " dispatched at %" PRIu64 " (%" PRIu64 " ns late)", t->id, t->d,
			  (uint64_t) Ehi(t), now, (uint64_t) (now - Ehi(t)));
	if (last_disp[t->prio].valid && last_disp[t->prio].elo > Ehi(t))
		violation(V_ORDER, "prio %d: timer %d (expiry %" PRIu64 ") dispatched after timer %d (expiry %" PRIu64 ")", t->prio,
			  t->id, (uint64_t) Ehi(t), last_disp[t->prio].id, (uint64_t) last_disp[t->prio].elo);
	last_disp[t->prio].valid = 1;
	last_disp[t->prio].elo = Elo(t);
	last_disp[t->prio].ehi = Ehi(t);
	last_disp[t->prio].id = t->id;
	t->st = T_DISPATCHED;
	pend_remove(t);
	if (rnd(4) == 0)
		check_query(t);	/* own handle from inside the callback */
	if (rnd(16) == 0)
		op_del(t);	/* delete self from inside the callback */
	random_ops(0);
}

static void job_cb(void *data)
{
	(void)data;
	jobs_out--;
	TR("JOB");
	random_ops(0);
	if (run_budget > 0 && rnd(3) == 0)
		op_job();	/* chain: keeps the 50ms pause path busy */
}

static int32_t fd_cb(int32_t fd, int32_t revents, void *data)
{
	uint64_t v;
	(void)revents;
	(void)data;
	if (read(fd, &v, sizeof(v)) < 0)
		perror("read eventfd");
	TR("FD wake");
	random_ops(0);
	return 0;
}

/* ---------------------------------------------------------------- the virtual block */
int v_epoll_wait(int epfd, struct epoll_event *ev, int maxev, int timeout)
{
	struct mt *m;
	int n;
	uint64_t adv;

	polls_this_run++;
	n = epoll_wait(epfd, ev, maxev, 0);
	if (n != 0)
		return n;
	m = pend_min();
	TR("poll timeout=%d pending=%d minE=%" PRIu64, timeout, npending, m ? (uint64_t) Ehi(m) : 0);

	if (timeout == 0) {
		if (++zero_polls_in_row > 200000 + (long)(3 * MS / (vstep + 1))) {
			violation(V_LIVELOCK, "too many consecutive zero-timeout polls; %d timers pending, earliest expiry %" PRIu64, npending,
				  m ? (uint64_t) Ehi(m) : 0);
			qb_loop_stop(L);
		}
		return 0;
	}
	zero_polls_in_row = 0;

	if (m == NULL) {
		if (timeout < 0 || run_budget <= 0) {
			TR("nothing pending: stop run");
			qb_loop_stop(L);
			job_flag = 0;
			return 0;
		}
	} else if (timeout < 0) {
		violation(V_INDEF, "loop blocks with timeout -1 while %d timers pending (earliest: id %d d=%" PRIu64 " expiry %" PRIu64 ")", npending,
			  m->id, m->d, (uint64_t) Ehi(m));
		qb_loop_stop(L);
		return 0;
	}
	if (timeout < 0) {	/* m == NULL, budget left: nothing will ever happen */
		qb_loop_stop(L);
		job_flag = 0;
		return 0;
	}
	adv = (uint64_t) timeout *MS + rnd(20000);	/* small oversleep like a real kernel */

	if (m) {
		u128 wake = (u128) vnow + (uint64_t) timeout * MS;
		u128 allowed = Ehi(m) + 1 * MS;
		if (wake > allowed && !(timeout <= 50 && job_flag))
			violation(V_OVERSLEEP, "loop blocks for %d ms at %" PRIu64 " but earliest timer (id %d, d=%" PRIu64 ") expires at %" PRIu64 " (%" PRIu64 " ns past expiry, job_flag=%d)",
				  timeout, vnow, m->id, m->d, (uint64_t) Ehi(m), (uint64_t) (wake - Ehi(m)), job_flag);
		/* end of run: earliest expiry is beyond this run's horizon / the clock guard */
		if (Elo(m) > (u128) run_start + horizon || Elo(m) > GUARD || (u128) vnow + adv > GUARD
		    || polls_this_run > 2000000) {
			TR("earliest expiry beyond horizon: stop run");
			qb_loop_stop(L);
			job_flag = 0;
			return 0;
		}
	}
	/* -i: a signal handled elsewhere in the process interrupts the block */
	if (inject_eintr && rnd(inject_eintr) == 0) {
		vnow += rnd(adv);
		n_eintr++;
		TR("EINTR");
		errno = EINTR;
		return -1;
	}
	job_flag = 0;
	n_sleep++;
	/* sometimes a descriptor becomes ready in the middle of the sleep */
	if (evfd >= 0 && rnd(8) == 0) {
		uint64_t one = 1;
		vnow += rnd(adv);
		if (write(evfd, &one, sizeof(one)) < 0)
			perror("write eventfd");
		n_fdwake++;
		return epoll_wait(epfd, ev, maxev, 0);
	}
	vnow += adv;
	return 0;
}

/* ---------------------------------------------------------------- driver */
static void do_run(void)
{
	static const uint64_t hz[] = { 1 * SEC, 60 * SEC, DAY, 60 * DAY, 3 * YEAR, 40 * YEAR };
	int i;
	run_budget = 50 + rnd(2000);
	horizon = hz[rnd(rnd(6) + 1)];
	polls_this_run = 0;
	zero_polls_in_row = 0;
	/* main-phase ops (outside the loop) */
	for (i = rnd(20); i > 0; i--)
		one_op();
	if (rnd(4) == 0) {
		uint64_t z = rnd(2) ? rnd(100 * MS) : rnd(10 * SEC);
		if (vnow + z < GUARD)
			vnow += z;	/* application was busy outside the loop */
		TR("main sleeps %" PRIu64, z);
	}
	if (npending == 0)
		op_add();
	run_start = vnow;
	in_run = 1;
	n_runs++;
	TR("RUN budget=%ld horizon=%" PRIu64, run_budget, horizon);
	qb_loop_run(L);
	in_run = 0;
	TR("RUN returned");
}

static void usage(void)
{
	fprintf(stderr, "usage: fuzz [-s seed] [-n ops] [-m maxdur_ns] [-c maxconcurrent] [-D durclass] [-b clockbase_ns] [-t clockstep_ns] [-f 0|1 use fd] [-i N: EINTR on 1/N of the blocks] [-k] [-v]\n");
	exit(2);
}

int main(int argc, char **argv)
{
	int c, i, usefd = 1;
	uint64_t base = 12345 * SEC;
	seed = 1;
	while ((c = getopt(argc, argv, "s:n:m:c:D:b:t:f:i:kv")) != -1) {
		switch (c) {
		case 's': seed = strtoull(optarg, NULL, 0); break;
		case 'n': ops_target = atol(optarg); break;
		case 'm': maxdur = strtoull(optarg, NULL, 0); break;
		case 'c': maxconc = atoi(optarg); break;
		case 'D': durmode = atoi(optarg); break;
		case 'b': base = strtoull(optarg, NULL, 0); fixed_base = 1; break;
		case 't': vstep = strtoull(optarg, NULL, 0); break;
		case 'f': usefd = atoi(optarg); break;
		case 'k': keepgoing = 1; break;
		case 'i': inject_eintr = atoi(optarg); break;
		case 'v': verbose = 1; break;
		default: usage();
		}
	}
	setvbuf(stdout, NULL, _IOLBF, 0);
	rs = seed * 0x9E3779B97F4A7C15ULL + 0x1234567;
	if (!rs)
		rs = 1;
	srandom(seed);
	vnow = base;
	L = qb_loop_create();
	if (usefd) {
		evfd = eventfd(0, EFD_NONBLOCK);
		evfd_prio = rnd(3);
		if (qb_loop_poll_add(L, evfd_prio, evfd, EPOLLIN, NULL, fd_cb) != 0) {
			fprintf(stderr, "poll_add failed\n");
			return 2;
		}
	}
	while (ops_done < ops_target) {
		do_run();
		if (vnow >= GUARD - 1 * YEAR) {
			/* virtual clock exhausted: new epoch = new loop, new clock base */
			while (npending)
				op_del(pending[npending - 1]);
			if (evfd >= 0)
				qb_loop_poll_del(L, evfd);
			qb_loop_destroy(L);
			nstale = 0;
			memset(last_disp, 0, sizeof(last_disp));
			vnow = (fixed_base ? base : rnd64() >> (2 + rnd(60))) + 1;
			L = qb_loop_create();
			if (evfd >= 0)
				qb_loop_poll_add(L, evfd_prio, evfd, EPOLLIN, NULL, fd_cb);
			n_epochs++;
			jobs_out = 0;
		}
	}
	/* drain: delete everything still pending, then the loop must have nothing to say */
	while (npending)
		op_del(pending[npending - 1]);
	printf("seed %" PRIu64 ": epochs=%ld ops=%ld runs=%ld add=%ld del=%ld dispatched=%ld queries=%ld sleeps=%ld fdwakes=%ld jobs=%ld clockreads=%" PRIu64 " vnow=%" PRIu64 "\n",
	       seed, n_epochs + 1, ops_done, n_runs, n_add, n_del, n_disp, n_query, n_sleep, n_fdwake, n_jobs, nclockreads, vnow);
	c = 0;
	for (i = 0; i < 10; i++)
		if (viol[i]) {
			printf("  %s: %ld\n", vname[i], viol[i]);
			c = 1;
		}
	qb_loop_destroy(L);
	return c;
}
