#!/bin/sh
# usage: build.sh [tree] [outdir]   (default tree /repo)
set -e
TREE=${1:-/repo}
OUT=${2:-$(dirname "$0")/build}
HERE=$(cd "$(dirname "$0")" && pwd)
mkdir -p "$OUT"
CF="-g -O1 -fno-omit-frame-pointer -fsanitize=address,undefined -DHAVE_CONFIG_H -I$TREE/include -I$TREE/include/qb -I$TREE/lib"
for f in loop loop_timerlist loop_job loop_poll loop_poll_epoll util; do
	gcc $CF -Dclock_gettime=v_clock_gettime -Depoll_wait=v_epoll_wait -c "$TREE/lib/$f.c" -o "$OUT/$f.o"
done
gcc $CF -Wall -c "$HERE/fuzz.c" -o "$OUT/fuzz.o"
gcc -fsanitize=address,undefined -o "$OUT/fuzz" "$OUT"/fuzz.o "$OUT"/loop.o "$OUT"/loop_timerlist.o "$OUT"/loop_job.o "$OUT"/loop_poll.o "$OUT"/loop_poll_epoll.o "$OUT"/util.o -L"$TREE/lib/.libs" -lqb -lpthread
echo "built $OUT/fuzz  (run with LD_LIBRARY_PATH=$TREE/lib/.libs)"
