/*
 * C09 finding 2: when the blocking wait of the loop is interrupted by a signal
 * that the application handles itself (EINTR), the wait is restarted with the
 * FULL original timeout instead of the time that is left until the earliest
 * timer.  One signal delays the timer by the time already slept; a periodic
 * signal with a period shorter than the timeout starves the timer for ever.
 *
 * Public API only, real clock.  Exit 0 = property held, 1 = violated.
 */
#define _GNU_SOURCE
#include <stdio.h>
#include <stdint.h>
#include <inttypes.h>
#include <signal.h>
#include <string.h>
#include <sys/time.h>
#include <qb/qbdefs.h>
#include <qb/qbloop.h>
#include <qb/qbutil.h>

static qb_loop_t *l;
static uint64_t t0, fired_at;
static volatile sig_atomic_t nsig;
static int maxsig;

static void on_alarm(int sig)
{
	(void)sig;
	if (++nsig >= maxsig) {
		/* stop the periodic signal so that the program terminates */
		struct itimerval off;
		memset(&off, 0, sizeof(off));
		setitimer(ITIMER_REAL, &off, NULL);
	}
}

static void timer_cb(void *data)
{
	(void)data;
	fired_at = qb_util_nano_current_get();
	qb_loop_stop(l);
}

static int scenario(const char *name, int first_ms, int interval_ms, int count)
{
	struct itimerval it;
	qb_loop_timer_handle h;
	uint64_t late_ms;
	const uint64_t d = 300 * QB_TIME_NS_IN_MSEC;

	nsig = 0;
	maxsig = count;
	fired_at = 0;
	memset(&it, 0, sizeof(it));
	it.it_value.tv_sec = first_ms / 1000;
	it.it_value.tv_usec = (first_ms % 1000) * 1000;
	it.it_interval.tv_sec = interval_ms / 1000;
	it.it_interval.tv_usec = (interval_ms % 1000) * 1000;

	t0 = qb_util_nano_current_get();
	qb_loop_timer_add(l, QB_LOOP_MED, d, NULL, timer_cb, &h);
	setitimer(ITIMER_REAL, &it, NULL);
	qb_loop_run(l);
	late_ms = (fired_at - t0 - d) / QB_TIME_NS_IN_MSEC;
	printf("%s: 300 ms timer dispatched after %" PRIu64 " ms (%" PRIu64 " ms late), %d signals handled\n", name,
	       (uint64_t) ((fired_at - t0) / QB_TIME_NS_IN_MSEC), late_ms, (int)nsig);
	/* allowed slack: one tick / 50 ms throttle; 100 ms leaves room for scheduling noise */
	return late_ms > 100;
}

int main(void)
{
	struct sigaction sa;
	int bad = 0;

	memset(&sa, 0, sizeof(sa));
	sa.sa_handler = on_alarm;
	sa.sa_flags = SA_RESTART;	/* does not matter: epoll_wait/poll are never restarted */
	sigaction(SIGALRM, &sa, NULL);

	l = qb_loop_create();
	bad |= scenario("no signal              ", 5000, 0, 1);
	{
		struct itimerval off;
		memset(&off, 0, sizeof(off));
		setitimer(ITIMER_REAL, &off, NULL);
	}
	bad |= scenario("one signal at 250 ms   ", 250, 0, 1);
	bad |= scenario("signal every 200 ms x15", 200, 200, 15);
	printf(bad ? "RESULT: property C09 VIOLATED (loop slept past the earliest expiry)\n" : "RESULT: property held\n");
	return bad;
}
