#!/bin/sh
# usage: demo.sh <tree>     exit 0 = property held, non-zero = violated
TREE=${1:-/repo}
HERE=$(cd "$(dirname "$0")" && pwd)
OUT=$(mktemp -d /tmp/hunt-C09-f2.XXXXXX)
gcc -g -Wall -fsanitize=address,undefined -I"$TREE/include" "$HERE/demo.c" -o "$OUT/demo" -L"$TREE/lib/.libs" -lqb || exit 99
LD_LIBRARY_PATH="$TREE/lib/.libs" ASAN_OPTIONS=detect_leaks=0 "$OUT/demo"
rc=$?
rm -rf "$OUT"
exit $rc
