#!/bin/sh
# usage: build.sh [tree]   (default /repo)
# builds ./fuzz ./targeted (ASan+UBSan), ./spsc (plain) and ./spsc_tsan (TSan)
set -e
T=${1:-/repo}
cd "$(dirname "$0")"
CF="-g -O1 -fno-omit-frame-pointer -DHAVE_CONFIG_H -I$T/include -I$T/include/qb -I$T/lib"
SRC="$T/lib/ringbuffer.c $T/lib/ringbuffer_helper.c $T/lib/unix.c"
LD="-L$T/lib/.libs -lqb -lpthread"
gcc $CF -fsanitize=address,undefined -o fuzz fuzz.c $SRC $LD
gcc $CF -fsanitize=address,undefined -o targeted targeted.c $SRC $LD
gcc $CF -o spsc spsc.c $SRC $LD
gcc $CF -fsanitize=thread -o spsc_tsan spsc.c $SRC $LD
echo "built; run with LD_LIBRARY_PATH=$T/lib/.libs, e.g."
echo "  ./fuzz -s 1000 -n 300 -o 3000 -A -m 1        # finding 1"
echo "  ./fuzz -s 7000 -n 300 -o 3000 -m 6 -u -c -A  # finding 2"
echo "  ./fuzz -s 100 -n 500 -o 3000 -K -u           # everything else"
