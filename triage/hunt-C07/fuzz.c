/*
 * Model-based randomized tester for libqb ring buffer, property C07:
 *   capacity contract + loss-free sequential FIFO for all sizes.
 *
 * Reference model: a FIFO of (len, bytes) plus, for semaphore rings, the
 * documented token count (commit posts, read/peek take one).
 *
 * Property checks (P-*):
 *  P-accept-empty : empty ring of requested size S accepts any chunk len<=S
 *  P-accept-fits  : sum(len_i+16 over unread) + len+16 <= S  => accepted
 *  P-refuse       : a refused write returns -EAGAIN (alloc: NULL/EAGAIN)
 *                   and changes nothing (checked by all following ops)
 *  P-enobufs      : read into too-small buffer -> -ENOBUFS, chunk stays
 *  P-fifo         : read/peek return exactly the head of the model FIFO,
 *                   byte for byte; a read on an empty ring returns no chunk
 */
#define _GNU_SOURCE
#include <stdio.h>
#include <stdarg.h>
#include <stdlib.h>
#include <string.h>
#include <stdint.h>
#include <errno.h>
#include <unistd.h>
#include <getopt.h>
#include <qb/qbdefs.h>
#include <qb/qbrb.h>
#include "ringbuffer_int.h"

#define MAGIC  0xA1A1A1A1u
#define DEAD   0xD0D0D0D0u
#define ALLOCM 0xA110CED0u

/* ---------- rng ---------- */
static uint64_t rs;
static uint64_t rnd64(void)
{
	rs ^= rs << 13; rs ^= rs >> 7; rs ^= rs << 17;
	return rs;
}
static uint32_t rnd(uint32_t n) { return n ? (uint32_t)(rnd64() % n) : 0; }

/* ---------- model ---------- */
struct chunk { uint32_t len; uint8_t *data; };
static struct chunk *q;
static size_t q_cap, q_head, q_n;
static size_t q_cost;		/* sum(len+16) */
static long m_sem;		/* token count for semaphore rings */

static void q_push(const uint8_t *d, uint32_t len)
{
	if (q_n == q_cap) {
		size_t ncap = q_cap ? q_cap * 2 : 64, i;
		struct chunk *nq = calloc(ncap, sizeof(*nq));
		for (i = 0; i < q_n; i++) nq[i] = q[(q_head + i) % q_cap];
		free(q); q = nq; q_cap = ncap; q_head = 0;
	}
	struct chunk *c = &q[(q_head + q_n) % q_cap];
	c->len = len;
	c->data = malloc(len ? len : 1);
	memcpy(c->data, d, len);
	q_n++;
	q_cost += len + 16;
}
static struct chunk *q_front(void) { return q_n ? &q[q_head] : NULL; }
static void q_pop(void)
{
	struct chunk *c = &q[q_head];
	q_cost -= c->len + 16;
	free(c->data);
	q_head = (q_head + 1) % q_cap;
	q_n--;
}
static void q_clear(void) { while (q_n) q_pop(); q_cost = 0; }

/* ---------- options ---------- */
static int opt_verbose;
static int opt_markers = 1;	/* payload rich in marker constants */
static int opt_unpaired;	/* sem rings: allow peek/reclaim/read free-form */
static int opt_reclaim_empty;	/* allow reclaim on an empty ring */
static int opt_known;		/* steer around the two known findings to look for others */
static int opt_abandon = 1;	/* alloc without commit now and then */
static unsigned opt_modes = 7;	/* 1 nosem, 2 thread-sem, 4 process-sem */
static long opt_maxS = 20000;

static uint64_t total_ops;
static unsigned long n_fail;

#define NKIND 16
static const char *kind_name[NKIND];
static unsigned long kind_cnt[NKIND];
static int nkinds;

static void count_kind(const char *k)
{
	int i;
	for (i = 0; i < nkinds; i++)
		if (!strcmp(kind_name[i], k)) { kind_cnt[i]++; return; }
	if (nkinds < NKIND) { kind_name[nkinds] = k; kind_cnt[nkinds++] = 1; }
}

/* ---------- trace ---------- */
#define TR 64
static char trace[TR][160];
static unsigned long trn;
#define T(...) do { snprintf(trace[trn % TR], sizeof(trace[0]), __VA_ARGS__); \
	if (opt_verbose) printf("    %s\n", trace[trn % TR]); trn++; } while (0)

static qb_ringbuffer_t *rb;	/* writer handle (creator) */
static qb_ringbuffer_t *rbr;	/* reader handle (== rb unless -2) */
static int opt_two;
static size_t S;
static int sem_mode;
static uint64_t run_seed;
static int run_failed;

static void fail(const char *kind, const char *fmt, ...)
{
	va_list ap;
	unsigned long i, from;
	if (run_failed) return;
	run_failed = 1;
	n_fail++;
	count_kind(kind);
	if (n_fail > 12 && !opt_verbose) return;
	printf("VIOLATION [%s] seed=%llu S=%zu sem=%d: ", kind,
	       (unsigned long long)run_seed, S, sem_mode);
	va_start(ap, fmt); vprintf(fmt, ap); va_end(ap);
	printf("\n  state: rd=%u wr=%u words=%u model_n=%zu model_cost=%zu m_sem=%ld\n",
	       rb->shared_hdr->read_pt, rb->shared_hdr->write_pt,
	       rb->shared_hdr->word_size, q_n, q_cost, m_sem);
	from = trn > 12 ? trn - 12 : 0;
	for (i = from; i < trn; i++) printf("    op[%lu] %s\n", i, trace[i % TR]);
}

/* ---------- payload ---------- */
static uint8_t *wbuf, *rbuf;
static size_t bufsz;

static void gen_payload(uint8_t *d, uint32_t len)
{
	uint32_t i, nw = (len + 3) / 4;
	uint32_t *w = (uint32_t *)wbuf;
	int style = rnd(6);
	for (i = 0; i < nw; i++) {
		uint32_t v;
		if (!opt_markers) { v = (uint32_t)rnd64(); }
		else switch (style) {
		case 0: v = (uint32_t)rnd64(); break;
		case 1: v = MAGIC; break;
		case 2: v = (i & 1) ? MAGIC : rnd(40); break;
		case 3: v = (i & 1) ? rnd(40) : MAGIC; break;
		case 4: { static const uint32_t t[] = { MAGIC, DEAD, ALLOCM, 0, 4, 8 };
			v = t[rnd(6)]; break; }
		default: v = rnd(3) ? MAGIC : rnd(64); break;
		}
		w[i] = v;
	}
	if (d != wbuf) memcpy(d, wbuf, len);
}

static uint32_t pick_len(void)
{
	uint32_t r = rnd(100);
	size_t room;
	if (r < 30) return rnd(64);
	if (r < 45) { uint32_t d = rnd(20); return (uint32_t)(S > d ? S - d : S); }	/* near S */
	if (r < 50) return (uint32_t)S;
	if (r < 55) return 0;
	/* near the exact fit boundary */
	if (r < 75) {
		if (q_cost + 16 <= S) {
			room = S - q_cost - 16;
			uint32_t d = rnd(6);
			if (rnd(2)) return (uint32_t)(room >= d ? room - d : room);
			return (uint32_t)((room + d) <= S ? room + d : room);
		}
		return rnd(32);
	}
	if (r < 90) return rnd((uint32_t)S / 4 + 1);
	return rnd((uint32_t)S + 1);
}

/* ---------- operations ---------- */
static int must_accept(uint32_t len)
{
	if (len > S) return 0;
	if (q_n == 0) return 1;
	return q_cost + len + 16 <= S;
}

static void op_write(int via_alloc)
{
	uint32_t len = pick_len();
	int must = must_accept(len);

	if (!via_alloc) {
		ssize_t r;
		gen_payload(wbuf, len);
		r = qb_rb_chunk_write(rb, wbuf, len);
		T("write len=%u -> %zd (must_accept=%d)", len, r, must);
		if (r == (ssize_t)len) {
			q_push(wbuf, len); m_sem++;
		} else if (r == -EAGAIN) {
			if (must)
				fail(q_n ? "refused-though-fits" : "refused-on-empty",
				     "write of %u refused with EAGAIN; unread=%zu cost=%zu S=%zu free=%zd",
				     len, q_n, q_cost, S, qb_rb_space_free(rb));
		} else {
			fail("write-bad-result", "write of %u returned %zd", len, r);
		}
	} else {
		void *p;
		errno = 0;
		p = qb_rb_chunk_alloc(rb, len);
		if (p == NULL) {
			int e = errno;
			T("alloc len=%u -> NULL errno=%d (must_accept=%d)", len, e, must);
			if (e != EAGAIN)
				fail("alloc-bad-errno", "alloc of %u failed with errno %d", len, e);
			else if (must)
				fail(q_n ? "refused-though-fits" : "refused-on-empty",
				     "alloc of %u refused; unread=%zu cost=%zu S=%zu", len, q_n, q_cost, S);
			return;
		}
		if (opt_abandon && rnd(10) == 0) {
			/* scribble and abandon: nothing may change */
			memset(p, 0xA1, len);
			T("alloc len=%u abandoned", len);
			return;
		}
		gen_payload(wbuf, len);
		memcpy(p, wbuf, len);
		int32_t r = qb_rb_chunk_commit(rb, len);
		T("alloc+commit len=%u -> %d", len, r);
		if (r != 0) { fail("commit-bad-result", "commit returned %d", r); return; }
		q_push(wbuf, len); m_sem++;
	}
}

static void op_read(void)
{
	struct chunk *c = q_front();
	size_t blen;
	ssize_t r;
	int small = 0;

	/* -K: no read on an empty no-semaphore ring (finding 1) */
	if (opt_known && !sem_mode && !c) return;

	if (c && rnd(5) == 0 && c->len > 0) {
		blen = rnd(3) ? c->len - 1 : rnd(c->len);
		small = 1;
	} else if (c && rnd(2)) {
		blen = c->len;
	} else {
		blen = bufsz;
	}
	memset(rbuf, 0x5c, blen < 64 ? 64 : blen);
	r = qb_rb_chunk_read(rbr, rbuf, blen, 0);
	T("read buf=%zu -> %zd (model head %s len=%u, m_sem=%ld)", blen, r,
	  c ? "present" : "none", c ? c->len : 0, m_sem);

	if (sem_mode && m_sem == 0) {
		/* documented: no token -> timeout, nothing changes */
		if (r != -ETIMEDOUT)
			fail("read-no-token", "read returned %zd with no token", r);
		return;
	}
	if (!c) {
		if (r >= 0)
			fail("phantom-chunk", "read on EMPTY ring returned a chunk of %zd bytes", r);
		else if (r == -ENOBUFS)
			fail("phantom-chunk", "read on EMPTY ring returned -ENOBUFS (sees a chunk)");
		else if (!sem_mode && r != -ETIMEDOUT)
			fail("read-empty-bad-result", "read on empty returned %zd", r);
		else if (sem_mode && r != -EBADMSG)
			fail("read-empty-bad-result", "read on empty (token held) returned %zd", r);
		return;
	}
	if (small) {
		if (r != -ENOBUFS)
			fail("small-buffer", "read buf=%zu of chunk len=%u returned %zd", blen, c->len, r);
		return;	/* chunk must stay: verified by later ops */
	}
	if (r != (ssize_t)c->len) {
		fail("fifo-len", "read returned %zd, expected chunk of %u", r, c->len);
		return;
	}
	if (memcmp(rbuf, c->data, c->len) != 0) {
		fail("fifo-data", "read chunk len=%u differs from what was written", c->len);
		return;
	}
	q_pop(); m_sem--;
}

/* returns 1 if a chunk was peeked */
static int op_peek(void)
{
	struct chunk *c = q_front();
	void *p = NULL;
	ssize_t r;
	if (opt_known && !sem_mode && !c) return 0;
	r = qb_rb_chunk_peek(rbr, &p, 0);
	T("peek -> %zd (model head %s len=%u, m_sem=%ld)", r,
	  c ? "present" : "none", c ? c->len : 0, m_sem);

	if (sem_mode && m_sem == 0) {
		if (r != 0) fail("peek-no-token", "peek returned %zd with no token", r);
		return 0;
	}
	if (!c) {
		if (r > 0 || (r == 0 && p != NULL))
			fail("phantom-chunk", "peek on EMPTY ring returned a chunk of %zd bytes", r);
		else if (r != -EBADMSG && r != 0)
			fail("peek-empty-bad-result", "peek on empty returned %zd", r);
		return 0;
	}
	if (r != (ssize_t)c->len) {
		fail("fifo-len", "peek returned %zd, expected %u", r, c->len);
		return 0;
	}
	if (p == NULL || memcmp(p, c->data, c->len) != 0) {
		fail("fifo-data", "peeked chunk len=%u differs", c->len);
		return 0;
	}
	m_sem--;
	return 1;
}

static void op_reclaim(void)
{
	struct chunk *c = q_front();
	/* -K: on sem rings only reclaim a chunk whose token a peek has taken */
	if (opt_known && sem_mode && m_sem >= (long)q_n) return;
	T("reclaim (model head %s len=%u)", c ? "present" : "none", c ? c->len : 0);
	qb_rb_chunk_reclaim(rbr);
	if (c) q_pop();
}

static void drain_check(void)
{
	/* final: everything still in the model must come out, in order */
	while (!run_failed && q_n) {
		struct chunk *c = q_front();
		ssize_t r;
		if (sem_mode && m_sem == 0) break;
		r = qb_rb_chunk_read(rbr, rbuf, bufsz, 0);
		T("drain read -> %zd (expect %u)", r, c->len);
		if (r != (ssize_t)c->len) { fail("fifo-len", "drain: read %zd expected %u", r, c->len); break; }
		if (memcmp(rbuf, c->data, c->len)) { fail("fifo-data", "drain: data differs len=%u", c->len); break; }
		q_pop(); m_sem--;
	}
	if (!run_failed && q_n == 0 && (!sem_mode || m_sem > 0 || 1)) {
		ssize_t r;
		if (sem_mode && m_sem == 0) return;
		if (opt_known && !sem_mode) return;
		r = qb_rb_chunk_read(rbr, rbuf, bufsz, 0);
		T("final read on empty -> %zd", r);
		if (r >= 0 || r == -ENOBUFS)
			fail("phantom-chunk", "final read on EMPTY ring returned %zd", r);
	}
}

static const long specialS[] = {
	0, 1, 2, 3, 4, 5, 7, 8, 12, 13, 16, 17, 31, 100, 1000,
	4096 - 17, 4096 - 16, 4096 - 15, 4096 - 14, 4096 - 13, 4096 - 12, 4096 - 11,
	4096 - 1, 4096, 4096 + 1,
	8192 - 14, 8192 - 13, 8192 - 12, 8192, 8192 + 3,
	12288 - 13, 12288 - 12, 16384 - 13, 16384 - 12, 16384,
};

static unsigned rbseq;

static void one_run(uint64_t seed, long ops)
{
	char name[64];
	uint32_t flags = QB_RB_FLAG_CREATE;
	unsigned m;
	long i;
	int pat;

	run_seed = seed;
	rs = seed * 0x9E3779B97F4A7C15ull + 0x1234567ull;
	rnd64(); rnd64();
	run_failed = 0; trn = 0; m_sem = 0; q_clear();

	if (rnd(3)) S = specialS[rnd(sizeof(specialS) / sizeof(specialS[0]))];
	else S = rnd((uint32_t)opt_maxS + 1);
	if ((long)S > opt_maxS && opt_maxS < 16384) S = rnd((uint32_t)opt_maxS + 1);

	do { m = 1u << rnd(3); } while (!(m & opt_modes));
	sem_mode = (m != 1);
	if (m == 1) flags |= QB_RB_FLAG_NO_SEMAPHORE | QB_RB_FLAG_SHARED_THREAD;
	else if (m == 2) flags |= QB_RB_FLAG_SHARED_THREAD;
	else flags |= QB_RB_FLAG_SHARED_PROCESS;

	snprintf(name, sizeof(name), "hunt-C07-%d-%u", (int)getpid(), rbseq++);
	rb = qb_rb_open(name, S, flags, 0);
	if (!rb) { printf("open failed S=%zu errno=%d\n", S, errno); exit(2); }
	rbr = rb;
	if (opt_two && m != 2) {
		/* second handle on the same ring, as the IPC layer does */
		rbr = qb_rb_open(name, S, flags & ~QB_RB_FLAG_CREATE, 0);
		if (!rbr) { printf("2nd open failed S=%zu errno=%d\n", S, errno); exit(2); }
	}
	if (opt_verbose) printf("run seed=%llu S=%zu mode=%u words=%u\n",
				(unsigned long long)seed, S, m, rb->shared_hdr->word_size);

	bufsz = S + 64;
	wbuf = malloc(bufsz + 8);
	rbuf = malloc(bufsz + 8);
	pat = rnd(4);	/* op mix */

	for (i = 0; i < ops && !run_failed; i++) {
		uint32_t r = rnd(100);
		uint32_t wr = pat == 0 ? 50 : pat == 1 ? 60 : pat == 2 ? 40 : 52;
		total_ops++;
		if (r < wr) op_write(rnd(3) == 0);
		else if (r < wr + 30) op_read();
		else if (r < wr + 42) {
			/* peek (+ reclaim) */
			if (!sem_mode || opt_unpaired) {
				int got = op_peek();
				if (!run_failed && (got || opt_unpaired) && rnd(4) && (q_n || opt_reclaim_empty)) {
					total_ops++;
					op_reclaim();
				}
			} else {
				if (op_peek() && !run_failed) { total_ops++; op_reclaim(); }
			}
		} else if (r < wr + 46) {
			/* bare reclaim */
			if (sem_mode && !opt_unpaired) continue;
			if (!q_n && !opt_reclaim_empty) continue;
			op_reclaim();
		} else {
			/* drain burst */
			int k = rnd(8);
			while (k-- && !run_failed) { total_ops++; op_read(); }
		}
	}
	if (!run_failed) drain_check();

	q_clear();
	free(wbuf); free(rbuf);
	if (rbr != rb) qb_rb_close(rbr);
	qb_rb_close(rb);
}

int main(int argc, char **argv)
{
	uint64_t seed = 1;
	long runs = 200, ops = 2000;
	int c, i;

	while ((c = getopt(argc, argv, "s:n:o:m:M:vurcAK2")) != -1) {
		switch (c) {
		case 's': seed = strtoull(optarg, NULL, 0); break;
		case 'n': runs = atol(optarg); break;
		case 'o': ops = atol(optarg); break;
		case 'm': opt_modes = atoi(optarg) & 7; break;
		case 'M': opt_maxS = atol(optarg); break;
		case 'v': opt_verbose = 1; break;
		case 'u': opt_unpaired = 1; break;
		case 'r': opt_reclaim_empty = 1; break;
		case 'c': opt_markers = 0; break;
		case 'A': opt_abandon = 0; break;
		case 'K': opt_known = 1; break;
		case '2': opt_two = 1; break;
		default:
			fprintf(stderr, "usage: fuzz [-s seed] [-n runs] [-o ops/run] [-m modemask] [-M maxS] [-v] [-u] [-r] [-c] [-A]\n");
			return 2;
		}
	}
	if (!opt_modes) opt_modes = 7;
	for (i = 0; i < runs; i++)
		one_run(seed + i, ops);

	printf("done: %ld runs, %llu ops, %lu failing runs\n", runs,
	       (unsigned long long)total_ops, n_fail);
	for (i = 0; i < nkinds; i++)
		printf("  %-24s %lu\n", kind_name[i], kind_cnt[i]);
	return n_fail ? 1 : 0;
}
