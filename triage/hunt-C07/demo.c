/*
 * C07 finding 1: a read on an EMPTY no-semaphore ring returns a chunk that
 * was never written, because "is there a chunk at read_pt?" is decided only
 * by the word at read_pt+1 being 0xA1A1A1A1, and that word can be a stale
 * payload word of an earlier (already consumed) chunk.
 *
 * Sequence (S = 4000 -> 1024-word ring):
 *   1. write A: 4000 bytes, payload words  8, MAGIC, 8, MAGIC, ...
 *   2. read  -> A                      (rd = wr = 1002)
 *   3. write B: 88 bytes of zeros       (24 words: wr wraps to 2)
 *   4. read  -> B                      (rd = wr = 2, ring empty)
 *   5. read  -> must be -ETIMEDOUT; returns 8 (a chunk nobody wrote)
 *   6. write C: 100 bytes to the (logically empty) ring -> must succeed
 */
#include <stdio.h>
#include <stdlib.h>
#include <string.h>
#include <stdint.h>
#include <errno.h>
#include <unistd.h>
#include <qb/qbrb.h>

#define MAGIC 0xA1A1A1A1u

int main(void)
{
	const size_t S = 4000;
	static uint32_t A[1000], B[22], out[1100];
	char name[64];
	qb_ringbuffer_t *rb;
	ssize_t r;
	int bad = 0, i;

	snprintf(name, sizeof(name), "hunt-C07-f1-%d", (int)getpid());
	rb = qb_rb_open(name, S, QB_RB_FLAG_CREATE | QB_RB_FLAG_NO_SEMAPHORE, 0);
	if (!rb) { perror("qb_rb_open"); return 2; }

	for (i = 0; i < 1000; i++) A[i] = (i & 1) ? MAGIC : 8;

	r = qb_rb_chunk_write(rb, A, 4000);       printf("1. write A(4000)      -> %zd\n", r);
	if (r != 4000) return 2;
	r = qb_rb_chunk_read(rb, out, sizeof(out), 0); printf("2. read               -> %zd\n", r);
	if (r != 4000 || memcmp(out, A, 4000)) return 2;
	r = qb_rb_chunk_write(rb, B, 88);         printf("3. write B(88)        -> %zd\n", r);
	if (r != 88) return 2;
	r = qb_rb_chunk_read(rb, out, sizeof(out), 0); printf("4. read               -> %zd\n", r);
	if (r != 88) return 2;

	printf("   ring is empty now: 2 chunks written, 2 chunks read; space_used=%zd\n", qb_rb_space_used(rb));
	r = qb_rb_chunk_read(rb, out, sizeof(out), 0);
	printf("5. read on empty ring -> %zd (expected %d = -ETIMEDOUT)\n", r, -ETIMEDOUT);
	if (r >= 0) {
		printf("   VIOLATION: read returned a %zd-byte chunk that was never written (words %08x %08x)\n",
		       r, out[0], out[1]);
		bad = 1;
	} else if (r != -ETIMEDOUT) {
		printf("   VIOLATION: empty ring reported %zd\n", r);
		bad = 1;
	}
	r = qb_rb_chunk_write(rb, A, 100);
	printf("6. write C(100) with nothing unread, S=%zu -> %zd (space_free=%zd)\n", S, r, qb_rb_space_free(rb));
	if (r != 100) {
		printf("   VIOLATION: the empty ring refuses a 100-byte chunk (read_pt ran past write_pt)\n");
		bad = 1;
	}
	qb_rb_close(rb);
	printf(bad ? "RESULT: property violated\n" : "RESULT: property held\n");
	return bad;
}
