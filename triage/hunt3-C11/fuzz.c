/*
 * C11 model-based tester: overwrite ring keeps the newest chunks, intact.
 *
 * usage: fuzz <seed> <nops> [mode]
 *   mode 0 (default): internal walker after every write + dump/create_from_file
 *                     every ~64 ops + destructive reads/peeks/reclaims
 *   mode 1: dump/create_from_file after every write (slow, pure public API)
 */
#include "os_base.h"
#include <sys/mman.h>
#include <qb/qbrb.h>
#include <qb/qbdefs.h>
#include "ringbuffer_int.h"

#define MAGIC 0xA1A1A1A1u

static uint64_t rs;
static uint64_t rnd(void)
{
	rs ^= rs << 13; rs ^= rs >> 7; rs ^= rs << 17;
	return rs;
}
static uint32_t rn(uint32_t n) { return n ? (uint32_t)(rnd() % n) : 0; }

struct ent { uint64_t seq; uint32_t len; };
#define MAXENT (1 << 16)
static struct ent model[MAXENT];	/* oldest .. newest */
static int nmodel;
static uint64_t seqno;
static int paymode;

static uint8_t pay(uint64_t seq, uint32_t i)
{
	switch (paymode) {
	case 0: { uint64_t x = seq * 0x9E3779B97F4A7C15ull + i * 0xD6E8FEB86659FD93ull;
		  x ^= x >> 29; return (uint8_t)(x ^ (x >> 11)); }
	case 1: return 0xA1;			/* looks like chunk magic */
	case 2: return 0;
	case 3: return 0xD0;
	default: { /* words that look like a chunk header: small size, magic */
		  static const uint8_t pat[8] = {4,0,0,0,0xA1,0xA1,0xA1,0xA1};
		  return pat[(i + seq) % 8]; }
	}
}

static uint8_t *wbuf, *rbuf;
static size_t bufsz;
static unsigned long nwrites, nreads, ndumps, nwalks, nbig_ok, nbig_fail;
static size_t S;		/* requested size */
static qb_ringbuffer_t *rb;
static char rbname[128];
static int has_sem;

#define FAIL(...) do { fprintf(stderr, "VIOLATION (S=%zu seq=%llu nmodel=%d): ", S, \
	(unsigned long long)seqno, nmodel); fprintf(stderr, __VA_ARGS__); \
	fprintf(stderr, "\n"); dump_model(); abort(); } while (0)

static void dump_model(void)
{
	int i, from = nmodel > 12 ? nmodel - 12 : 0;
	fprintf(stderr, " ring: word_size=%u read_pt=%u write_pt=%u\n model tail:",
		rb->shared_hdr->word_size, rb->shared_hdr->read_pt, rb->shared_hdr->write_pt);
	for (i = from; i < nmodel; i++)
		fprintf(stderr, " [%llu:%u]", (unsigned long long)model[i].seq, model[i].len);
	fprintf(stderr, "\n");
}

static void check_payload(const uint8_t *p, const struct ent *e, const char *who)
{
	uint32_t i;
	for (i = 0; i < e->len; i++) {
		if (p[i] != pay(e->seq, i))
			FAIL("%s: chunk seq %llu len %u differs at byte %u (got %02x want %02x)",
			     who, (unsigned long long)e->seq, e->len, i, p[i], pay(e->seq, i));
	}
}

/* the minimum number of newest chunks the property promises */
static int kmin(void)
{
	size_t sum = 0;
	int k = 0, i;
	for (i = nmodel - 1; i >= 0; i--) {
		sum += (size_t)model[i].len + 16;
		if (sum > S)
			break;
		k++;
	}
	return k < 1 ? 1 : k;
}

/* what a reader would see, walking like qb_rb_chunk_read does; returns count */
static int walk(int verify_against_k /* -1: discover */)
{
	uint32_t ws = rb->shared_hdr->word_size;
	uint32_t p = rb->shared_hdr->read_pt;
	int n = 0, guard = 0;
	struct { uint32_t p, len; } found[4096];

	nwalks++;
	while (rb->shared_data[(p + 1) % ws] == MAGIC) {
		uint32_t len = rb->shared_data[p];
		if (n < 4096) { found[n].p = p; found[n].len = len; }
		n++;
		p += 2 + len / 4 + ((len % 4) ? 1 : 0);
		p %= ws;
		if (++guard > (int)ws)
			FAIL("walk: reader never stops (loop)");
	}
	if (p != rb->shared_hdr->write_pt)
		FAIL("walk: reader stops at %u, not at write_pt %u, after %d chunks", p,
		     rb->shared_hdr->write_pt, n);
	if (n > nmodel)
		FAIL("walk: %d chunks readable, only %d ever candidates", n, nmodel);
	if (verify_against_k >= 0 && n != verify_against_k)
		FAIL("walk: %d chunks readable, expected %d", n, verify_against_k);
	if (n <= 4096) {
		int i;
		for (i = 0; i < n; i++) {
			struct ent *e = &model[nmodel - n + i];
			if (found[i].len != e->len)
				FAIL("walk: chunk %d/%d has len %u, want seq %llu len %u", i, n,
				     found[i].len, (unsigned long long)e->seq, e->len);
			check_payload((uint8_t *)&rb->shared_data[(found[i].p + 2) % ws], e, "walk");
		}
	}
	return n;
}

/* dump to a file, load with qb_rb_create_from_file, read everything */
static int dumpcheck(int expect_k)
{
	int fd, n = 0, so;
	ssize_t r;
	qb_ringbuffer_t *c;
	char tn[128];

	ndumps++;
	snprintf(tn, sizeof(tn), "/tmp/hunt3-C11/dump-%d", (int)getpid());
	fd = open(tn, O_CREAT | O_TRUNC | O_RDWR, 0600);
	if (fd < 0) { perror("open dump"); exit(2); }
	unlink(tn);
	/* write_to_file prints the header to stdout */
	fflush(stdout);
	so = dup(1);
	{ int dn = open("/dev/null", O_WRONLY); dup2(dn, 1); close(dn); }
	r = qb_rb_write_to_file(rb, fd);
	if (r < 0) { fflush(stdout); dup2(so, 1); close(so); FAIL("write_to_file: %zd", r); }
	lseek(fd, 0, SEEK_SET);
	c = qb_rb_create_from_file(fd, 0);
	fflush(stdout);
	dup2(so, 1);
	close(so);
	close(fd);
	if (c == NULL)
		FAIL("create_from_file failed errno %d", errno);
	for (;;) {
		r = qb_rb_chunk_read(c, rbuf, bufsz, 0);
		if (r < 0)
			break;
		if (n >= expect_k)
			FAIL("dump: more than %d chunks (extra len %zd)", expect_k, r);
		{
			struct ent *e = &model[nmodel - expect_k + n];
			if ((size_t)r != e->len)
				FAIL("dump: chunk %d/%d len %zd want seq %llu len %u", n, expect_k, r,
				     (unsigned long long)e->seq, e->len);
			check_payload(rbuf, e, "dump");
		}
		n++;
	}
	if (r != -ETIMEDOUT)
		FAIL("dump: read ended with %zd", r);
	if (n != expect_k)
		FAIL("dump: %d chunks, expected %d", n, expect_k);
	qb_rb_close(c);
	return n;
}

static size_t pick_size(int cls)
{
	long pg = 4096;
	switch (cls) {
	case 0: return rn(64);
	case 1: return pg * (1 + rn(4)) - 13 - 8 + rn(17);	/* page boundary of size+13 */
	case 2: return pg * (1 + rn(3)) - 4 + rn(9);
	case 3: return 1 + rn(20000);
	case 4: return 1024 + rn(3) * 1024;
	case 5: return 16 + rn(2000);
	default: return 60000 + rn(80000);
	}
}

static uint32_t pick_len(void)
{
	uint32_t cm = (uint32_t)qb_rb_chunk_max(rb);
	switch (rn(16)) {
	case 0: return 0;
	case 1: case 2: case 3: return rn(17);
	case 4: return S > 16 ? (uint32_t)(S - rn(17)) : (uint32_t)S;
	case 5: return (uint32_t)S;
	case 6: return rn((uint32_t)S + 1);
	case 7: return rn((uint32_t)S / 2 + 1);
	case 8: return rn((uint32_t)S / 4 + 1);
	case 9: return cm - rn(24 > cm ? cm : 24);	/* near what the ring can hold at all */
	case 10: return cm + 1 + rn(8);			/* must be refused harmlessly */
	case 11: return (uint32_t)S + rn(cm - (uint32_t)S + 1);
	case 12: return rn(200);
	case 13: return S / 3 ? (uint32_t)(S / 3 - rn(S / 3 > 8 ? 8 : 1)) : 0;
	default: return rn(64);
	}
}

static void fill(uint8_t *p, uint64_t seq, uint32_t len)
{
	uint32_t i;
	for (i = 0; i < len; i++)
		p[i] = pay(seq, i);
}

static int mode;

static void after_write(uint32_t len)
{
	int k, km;
	if (nmodel == MAXENT) {
		memmove(model, model + MAXENT / 2, sizeof(model[0]) * (MAXENT / 2));
		nmodel = MAXENT / 2;
	}
	model[nmodel].seq = seqno;
	model[nmodel].len = len;
	nmodel++;
	seqno++;
	nwrites++;

	km = kmin();
	k = walk(-1);
	if (k < 1)
		FAIL("nothing readable after a write");
	if (k < km)
		FAIL("only %d newest chunks kept, property promises %d", k, km);
	/* forget what the ring dropped */
	if (k < nmodel) {
		memmove(model, model + (nmodel - k), sizeof(model[0]) * k);
		nmodel = k;
	}
	if (mode == 1 || rn(64) == 0)
		dumpcheck(nmodel);
}

static void do_write(void)
{
	uint32_t len = pick_len();
	uint32_t cm = (uint32_t)qb_rb_chunk_max(rb);
	ssize_t r;
	int how = rn(3);

	if (how == 0) {
		fill(wbuf, seqno, len);
		r = qb_rb_chunk_write(rb, wbuf, len);
		if (r < 0) {
			if (len <= S)
				FAIL("chunk_write(%u) failed: %zd (chunk_max %u)", len, r, cm);
			nbig_fail++;
			walk(nmodel);	/* refused write must leave contents alone */
			return;
		}
		if ((size_t)r != len)
			FAIL("chunk_write(%u) returned %zd", len, r);
	} else {
		/* blackbox style: alloc max, commit actual */
		uint32_t alen = len, clen = len;
		void *p;
		if (how == 2 && len > 0)
			clen = rn(len + 1);
		p = qb_rb_chunk_alloc(rb, alen);
		if (p == NULL) {
			if (alen <= S)
				FAIL("chunk_alloc(%u) failed errno %d", alen, errno);
			nbig_fail++;
			walk(nmodel);
			return;
		}
		/* between alloc and commit the reader must still see only valid newest chunks */
		{
			int k = walk(-1);
			if (k < nmodel) {
				memmove(model, model + (nmodel - k), sizeof(model[0]) * k);
				nmodel = k;
			}
		}
		fill(p, seqno, clen);
		r = qb_rb_chunk_commit(rb, clen);
		if (r < 0)
			FAIL("chunk_commit(%u) failed %zd", clen, r);
		len = clen;
	}
	if (len > S)
		nbig_ok++;
	after_write(len);
}

static void do_read(void)
{
	ssize_t r;
	int w = rn(4);

	if (w == 0) {
		void *p = NULL;
		r = qb_rb_chunk_peek(rb, &p, 0);
		if (nmodel == 0) {
			if (r > 0 || (r == 0 && !has_sem && 0))
				FAIL("peek on empty ring returned %zd", r);
			return;
		}
		if (r < 0 || (size_t)r != model[0].len)
			FAIL("peek returned %zd, want seq %llu len %u", r,
			     (unsigned long long)model[0].seq, model[0].len);
		check_payload(p, &model[0], "peek");
		return;
	}
	if (w == 1) {
		qb_rb_chunk_reclaim(rb);
		if (nmodel > 0) {
			memmove(model, model + 1, sizeof(model[0]) * (nmodel - 1));
			nmodel--;
		}
		walk(nmodel);
		return;
	}
	r = qb_rb_chunk_read(rb, rbuf, bufsz, 0);
	nreads++;
	if (nmodel == 0) {
		if (r >= 0)
			FAIL("read on empty ring returned %zd", r);
		return;
	}
	if (r < 0 || (size_t)r != model[0].len)
		FAIL("read returned %zd, want seq %llu len %u", r,
		     (unsigned long long)model[0].seq, model[0].len);
	check_payload(rbuf, &model[0], "read");
	memmove(model, model + 1, sizeof(model[0]) * (nmodel - 1));
	nmodel--;
	walk(nmodel);
}

int main(int argc, char **argv)
{
	uint64_t seed = argc > 1 ? strtoull(argv[1], NULL, 0) : 1;
	unsigned long nops = argc > 2 ? strtoul(argv[2], NULL, 0) : 100000, op = 0;
	int episode = 0;

	mode = argc > 3 ? atoi(argv[3]) : 0;
	rs = seed * 0x9E3779B97F4A7C15ull + 12345;
	rnd(); rnd();

	while (op < nops) {
		unsigned long eplen = 50 + rn(3000);
		uint32_t flags = QB_RB_FLAG_CREATE | QB_RB_FLAG_OVERWRITE;
		int readpct;
		unsigned long i;

		S = pick_size(rn(7));
		switch (rn(3)) {
		case 0: flags |= QB_RB_FLAG_NO_SEMAPHORE; has_sem = 0; break;
		case 1: flags |= QB_RB_FLAG_SHARED_PROCESS; has_sem = 1; break;
		default: has_sem = 1; break;
		}
		paymode = rn(8) < 4 ? 0 : 1 + rn(4);
		readpct = rn(3) == 0 ? 0 : rn(40);
		snprintf(rbname, sizeof(rbname), "h3c11-%d-%d", (int)getpid(), episode++);
		rb = qb_rb_open(rbname, S, flags, 0);
		if (rb == NULL) {
			fprintf(stderr, "qb_rb_open(%zu) failed errno %d\n", S, errno);
			exit(2);
		}
		bufsz = qb_rb_chunk_max(rb) + 64;
		wbuf = malloc(bufsz);
		rbuf = malloc(bufsz);
		nmodel = 0;
		if (qb_rb_chunk_max(rb) < S)
			FAIL("chunk_max %zu < requested size", qb_rb_chunk_max(rb));

		for (i = 0; i < eplen && op < nops; i++, op++) {
			if ((int)rn(100) < readpct)
				do_read();
			else
				do_write();
		}
		dumpcheck(nmodel);
		/* drain */
		while (nmodel > 0 && rn(4))
			do_read();
		free(wbuf);
		free(rbuf);
		qb_rb_close(rb);
	}
	printf("seed %llu: ok ops=%lu episodes=%d writes=%lu reads=%lu walks=%lu dumps=%lu big_ok=%lu big_refused=%lu\n",
	       (unsigned long long)seed, op, episode, nwrites, nreads, nwalks, ndumps, nbig_ok, nbig_fail);
	return 0;
}
