/*
 * C11 blackbox tester: a dump taken at any moment holds an unbroken run of the
 * latest records, ending with the very last one, each intact.
 * usage: fuzz_bb <seed> <nops>
 */
#include "os_base.h"
#include <qb/qblog.h>
#include <qb/qbrb.h>
#include <qb/qbdefs.h>
#include "log_int.h"

static uint64_t rs;
static uint64_t rnd(void) { rs ^= rs << 13; rs ^= rs >> 7; rs ^= rs << 17; return rs; }
static uint32_t rn(uint32_t n) { return n ? (uint32_t)(rnd() % n) : 0; }

struct rec { int seq; int wild; char *text; char *fn; int prio; };
#define MAXREC 200000
static struct rec recs[MAXREC];
static int nrec;
static int seq;
static int bbsize, maxline;
static char dumpname[128], outname[128];
static unsigned long nlogs, ndumps, nlines, nwild;

#define FAIL(...) do { fprintf(stderr, "VIOLATION (size=%d maxline=%d nrec=%d seq=%d): ", bbsize, maxline, nrec, seq); \
	fprintf(stderr, __VA_ARGS__); fprintf(stderr, "\n"); abort(); } while (0)

static const char *TOOLONG = "Log message too long to be stored in the blackbox.  Maximum is QB_LOG_MAX_LEN";

static void reset_model(void)
{
	int i;
	for (i = 0; i < nrec; i++) { free(recs[i].text); free(recs[i].fn); }
	nrec = 0;
}

static void do_log(void)
{
	static char s[70000], fn[5000], exp[70100];
	const char *fmt;
	int slen, fnlen, i, prio;
	size_t room, actual, line_len, ser;

	switch (rn(8)) {
	case 0: slen = 0; break;
	case 1: slen = rn(8); break;
	case 2: slen = maxline - 20 + rn(24); break;	/* around the line limit */
	case 3: slen = rn(maxline + 1); break;
	case 4: slen = rn(bbsize); break;
	default: slen = rn(120); break;
	}
	if (slen < 0) slen = 0;
	if (slen > 69000) slen = 69000;
	for (i = 0; i < slen; i++)
		s[i] = 'a' + rn(26);
	s[slen] = 0;
	switch (rn(6)) {
	case 0: fnlen = 1; break;
	case 1: fnlen = 200 + rn(800); break;
	case 2: fnlen = rn(3) == 0 ? 1 + rn(4000) : 1 + rn(30); break;
	default: fnlen = 1 + rn(30); break;
	}
	for (i = 0; i < fnlen; i++)
		fn[i] = 'A' + rn(26);
	fn[fnlen] = 0;
	prio = rn(8);
	fmt = "S%dE %s";

	room = QB_ROUNDUP((size_t)bbsize + 13, 4096) - 12;
	actual = 16 + 1 + (fnlen + 1) + sizeof(struct timespec);
	if (actual + 4 > room) {
		/* record cannot exist at all; outside of what the property covers: skip */
		return;
	}
	line_len = QB_MIN((size_t)maxline, room - actual);
	ser = strlen(fmt) + 1 + 4 + slen + 1;

	qb_log_from_external_source(fn, "fuzz_bb.c", fmt, prio, 7, 0, seq, s);
	nlogs++;
	if (nrec == MAXREC) { reset_model(); FAIL("model overflow (tester)"); }
	recs[nrec].seq = seq;
	recs[nrec].wild = (ser >= line_len);
	recs[nrec].prio = prio;
	if (recs[nrec].wild) {
		nwild++;
		/* the replacement text itself is cut to line_len - 1 */
		snprintf(exp, sizeof(exp), "%s", TOOLONG);
		if (strlen(exp) > line_len - 1)
			exp[line_len - 1] = 0;
	} else {
		snprintf(exp, sizeof(exp), "S%dE %s", seq, s);
	}
	recs[nrec].text = strdup(exp);
	recs[nrec].fn = strdup(fn);
	nrec++;
	seq++;
}

static void do_dump(void)
{
	ssize_t r;
	int so, se, fd, n = 0, i;
	FILE *f;
	static char line[80000];
	static char *lines[MAXREC];

	ndumps++;
	unlink(dumpname);
	fflush(stdout); fflush(stderr);
	so = dup(1); se = dup(2);
	fd = open(outname, O_CREAT | O_TRUNC | O_WRONLY, 0600);
	dup2(fd, 1);
	{ int dn = open("/dev/null", O_WRONLY); dup2(dn, 2); close(dn); }
	close(fd);
	r = qb_log_blackbox_write_to_file(dumpname);
	fflush(stdout);
	ftruncate(1, 0); lseek(1, 0, SEEK_SET);
	if (r >= 0)
		qb_log_blackbox_print_from_file(dumpname);
	fflush(stdout); fflush(stderr);
	dup2(so, 1); dup2(se, 2); close(so); close(se);
	if (r < 0)
		FAIL("blackbox_write_to_file: %zd", r);

	f = fopen(outname, "r");
	while (fgets(line, sizeof(line), f)) {
		size_t l = strlen(line);
		if (l && line[l - 1] == '\n') line[l - 1] = 0;
		if (!strncmp(line, "Ringbuffer:", 11) || !strncmp(line, " ->", 3) || !strncmp(line, " =>", 3))
			continue;
		if (!strncmp(line, "ERROR", 5))
			FAIL("dump output: %s", line);
		lines[n++] = strdup(line);
	}
	fclose(f);
	nlines += n;
	if (nrec > 0 && n < 1)
		FAIL("dump holds no record although %d were logged", nrec);
	if (n > nrec)
		FAIL("dump holds %d records, only %d logged", n, nrec);
	for (i = 0; i < n; i++) {
		struct rec *e = &recs[nrec - n + i];
		/* "prio time fn(7):0: message" */
		char *p = strstr(lines[i], "(7):0: ");
		char *q;
		if (!p)
			FAIL("dump line %d/%d unparsable: %.200s", i, n, lines[i]);
		q = p;
		while (q > lines[i] && q[-1] != ' ') q--;
		if ((size_t)(p - q) != strlen(e->fn) || strncmp(q, e->fn, p - q))
			FAIL("dump line %d/%d: function differs for seq %d: %.100s", i, n, e->seq, lines[i]);
		p += 7;
		if (strcmp(p, e->text))
			FAIL("dump line %d/%d (seq %d wild %d): got '%.120s' want '%.120s'", i, n, e->seq, e->wild, p, e->text);
		if (strncmp(lines[i], qb_log_priority2str(e->prio), strlen(qb_log_priority2str(e->prio))))
			FAIL("dump line %d/%d priority differs: %.60s", i, n, lines[i]);
		free(lines[i]);
	}
	/* forget what fell out */
	if (n < nrec) {
		for (i = 0; i < nrec - n; i++) { free(recs[i].text); free(recs[i].fn); }
		memmove(recs, recs + (nrec - n), sizeof(recs[0]) * n);
		nrec = n;
	}
}

int main(int argc, char **argv)
{
	uint64_t seed = argc > 1 ? strtoull(argv[1], NULL, 0) : 1;
	unsigned long nops = argc > 2 ? strtoul(argv[2], NULL, 0) : 20000, op = 0;
	char name[64];
	int episodes = 0;

	rs = seed * 0x9E3779B97F4A7C15ull + 999;
	rnd(); rnd();
	snprintf(name, sizeof(name), "h3c11bb%d", (int)getpid());
	snprintf(dumpname, sizeof(dumpname), "/tmp/hunt3-C11/bb-%d.dump", (int)getpid());
	snprintf(outname, sizeof(outname), "/tmp/hunt3-C11/bb-%d.out", (int)getpid());
	qb_log_init(name, LOG_USER, LOG_EMERG);
	qb_log_ctl(QB_LOG_SYSLOG, QB_LOG_CONF_ENABLED, QB_FALSE);
	qb_log_filter_ctl(QB_LOG_BLACKBOX, QB_LOG_FILTER_ADD, QB_LOG_FILTER_FILE, "fuzz_bb.c", LOG_TRACE);

	while (op < nops) {
		unsigned long eplen = 20 + rn(1500), i;
		int dumppct = 1 + rn(20);
		int rc;

		switch (rn(6)) {
		case 0: bbsize = 1024; break;
		case 1: bbsize = 4096 * (1 + rn(3)) - 13 - 4 + rn(9); break;
		case 2: bbsize = 1024 + rn(8000); break;
		case 3: bbsize = 1024 + rn(100000); break;
		case 4: bbsize = 4083; break;
		default: bbsize = 1024 + rn(3000); break;
		}
		switch (rn(5)) {
		case 0: maxline = 512; break;
		case 1: maxline = 4 + rn(60); break;
		case 2: maxline = 4 + rn(4093); break;
		case 3: maxline = 4096 - rn(3); break;
		default: maxline = 100 + rn(1000); break;
		}
		qb_log_ctl(QB_LOG_BLACKBOX, QB_LOG_CONF_ENABLED, QB_FALSE);
		reset_model();
		rc = qb_log_ctl(QB_LOG_BLACKBOX, QB_LOG_CONF_MAX_LINE_LEN, maxline);
		if (rc) FAIL("max line len rc %d", rc);
		rc = qb_log_ctl(QB_LOG_BLACKBOX, QB_LOG_CONF_SIZE, bbsize);
		if (rc) FAIL("size rc %d", rc);
		rc = qb_log_ctl(QB_LOG_BLACKBOX, QB_LOG_CONF_ENABLED, QB_TRUE);
		if (rc) FAIL("enable rc %d", rc);
		episodes++;
		for (i = 0; i < eplen && op < nops; i++, op++) {
			if ((int)rn(100) < dumppct)
				do_dump();
			else
				do_log();
		}
		do_dump();
	}
	qb_log_fini();
	unlink(dumpname); unlink(outname);
	printf("seed %llu: ok ops=%lu episodes=%d logs=%lu (too-long %lu) dumps=%lu lines checked=%lu\n",
	       (unsigned long long)seed, op, episodes, nlogs, nwild, ndumps, nlines);
	return 0;
}
