/*
 * Overwrite ring requested with 4 GiB: a chunk of exactly the requested size
 * (or any length >= 2^32) is accepted by qb_rb_chunk_write() but its length is
 * stored in a 32 bit word, so it reads back with length (len mod 2^32).
 * exit 0 = property held, 1 = violated, 2 = could not run (not enough memory)
 */
#include <stdio.h>
#include <stdlib.h>
#include <string.h>
#include <stdint.h>
#include <unistd.h>
#include <errno.h>
#include <qb/qbrb.h>

int main(void)
{
	size_t S = (size_t)1 << 32;		/* requested size */
	size_t len = S;				/* a chunk of at most the requested size */
	char name[64];
	qb_ringbuffer_t *rb;
	unsigned char *buf;
	ssize_t r;
	size_t i;
	int bad = 0;

	snprintf(name, sizeof(name), "h3c11-f1-%d", (int)getpid());
	rb = qb_rb_open(name, S, QB_RB_FLAG_CREATE | QB_RB_FLAG_OVERWRITE, 0);
	if (rb == NULL) { perror("qb_rb_open"); return 2; }
	buf = malloc(len);
	if (buf == NULL) { perror("malloc"); qb_rb_close(rb); return 2; }
	for (i = 0; i < len; i += 4096) buf[i] = (unsigned char)(i >> 12);
	buf[len - 1] = 0x5a;

	r = qb_rb_chunk_write(rb, "first", 5);
	printf("write(5) = %zd\n", r);
	r = qb_rb_chunk_write(rb, buf, len);
	printf("write(%zu) = %zd   (requested size %zu)\n", len, r, S);
	if (r != (ssize_t)len) { printf("write refused\n"); bad = 1; }

	r = qb_rb_chunk_write(rb, "tail", 4);
	printf("write(4) = %zd\n", r);

	/* read everything back: must be a suffix of [5, len, 4], byte-identical */
	{
		size_t want[3] = { 5, len, 4 }, got[8];
		int n = 0, k;
		for (;;) {
			r = qb_rb_chunk_read(rb, buf, len, 0);
			if (r < 0) break;
			printf("read chunk of %zd bytes\n", r);
			if (n < 8) got[n] = (size_t)r;
			n++;
		}
		if (n < 1 || n > 3) bad = 1;
		for (k = 0; !bad && k < n; k++)
			if (got[k] != want[3 - n + k]) bad = 1;
		printf("expected a suffix of: 5, %zu, 4\n", len);
	}
	free(buf);
	qb_rb_close(rb);
	printf(bad ? "VIOLATED\n" : "held\n");
	return bad;
}
