#!/bin/sh
# usage: demo.sh <tree>    needs ~9 GB of free memory (4 GiB ring in /dev/shm + 4 GiB buffer)
T=${1:-/repo}
D=$(dirname "$0")
gcc -g -O1 -I$T/include -o $D/demo $D/demo.c -L$T/lib/.libs -lqb || exit 3
LD_LIBRARY_PATH=$T/lib/.libs $D/demo
rc=$?
rm -f /dev/shm/qb-h3c11-f1-*
exit $rc
