#!/bin/sh
# usage: demo.sh <tree>     (runs 2^31 tiny writes: about a minute)
T=${1:-/repo}
D=$(dirname "$0")
gcc -g -O2 -I$T/include -o $D/demo $D/demo.c -L$T/lib/.libs -lqb || exit 3
LD_LIBRARY_PATH=$T/lib/.libs $D/demo
rc=$?
rm -f /dev/shm/qb-h3c11-f2-*
exit $rc
