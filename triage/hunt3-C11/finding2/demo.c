/*
 * Overwrite ring opened the way the blackbox opens it (with its semaphore):
 * every commit posts the semaphore and nothing ever takes the count back when
 * the writer drops old chunks, so after SEM_VALUE_MAX (2^31-1) writes
 * qb_rb_chunk_write() returns -EOVERFLOW for a chunk that fits.
 * exit 0 = every write succeeded, 1 = a write of <= requested size failed
 * arg1: number of writes to try (default 2^31 + 10)
 */
#include <stdio.h>
#include <stdlib.h>
#include <string.h>
#include <stdint.h>
#include <unistd.h>
#include <errno.h>
#include <qb/qbrb.h>

int main(int argc, char **argv)
{
	unsigned long long n = argc > 1 ? strtoull(argv[1], NULL, 0) : (1ULL << 31) + 10, i;
	char name[64];
	qb_ringbuffer_t *rb;
	ssize_t r;
	int bad = 0;

	snprintf(name, sizeof(name), "h3c11-f2-%d", (int)getpid());
	rb = qb_rb_open(name, 1024, QB_RB_FLAG_CREATE | QB_RB_FLAG_OVERWRITE, 0);
	if (rb == NULL) { perror("qb_rb_open"); return 2; }
	for (i = 1; i <= n; i++) {
		r = qb_rb_chunk_write(rb, "x", 1);
		if (r != 1) {
			printf("write #%llu of 1 byte into a ring of requested size 1024 returned %zd (%s)\n",
			       i, r, strerror((int)-r));
			bad = 1;
			break;
		}
	}
	if (!bad) printf("%llu writes succeeded\n", n);
	qb_rb_close(rb);
	printf(bad ? "VIOLATED\n" : "held\n");
	return bad;
}
