/*
 * qb_rb_open() adds the chunk margin to the requested size without an overflow
 * check: a request within 13 bytes of SIZE_MAX wraps to a few bytes, the open
 * SUCCEEDS with a one page ring, and writes far below the requested size fail.
 * exit 0 = held (open refused, or the write succeeded), 1 = violated
 */
#include <stdio.h>
#include <stdlib.h>
#include <string.h>
#include <stdint.h>
#include <unistd.h>
#include <errno.h>
#include <qb/qbrb.h>

int main(void)
{
	size_t S = SIZE_MAX - 5;
	char name[64];
	static char buf[5000];
	qb_ringbuffer_t *rb;
	ssize_t r;

	snprintf(name, sizeof(name), "h3c11-f3-%d", (int)getpid());
	rb = qb_rb_open(name, S, QB_RB_FLAG_CREATE | QB_RB_FLAG_OVERWRITE, 0);
	if (rb == NULL) {
		printf("qb_rb_open(%zu) refused: %s\nheld\n", S, strerror(errno));
		return 0;
	}
	printf("qb_rb_open(%zu) succeeded\n", S);
	memset(buf, 'x', sizeof(buf));
	r = qb_rb_chunk_write(rb, buf, sizeof(buf));
	printf("write(%zu) = %zd\n", sizeof(buf), r);
	qb_rb_close(rb);
	if (r != (ssize_t)sizeof(buf)) {
		printf("VIOLATED: a write of 5000 bytes (requested size %zu) failed: %s\n", S, strerror((int)-r));
		return 1;
	}
	printf("held\n");
	return 0;
}
