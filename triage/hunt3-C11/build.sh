#!/bin/sh
# usage: build.sh [tree]   (default /repo)
T=${1:-/repo}
set -e
cd "$(dirname "$0")"
gcc -g -O1 -fsanitize=address,undefined -fno-omit-frame-pointer -DHAVE_CONFIG_H \
  -I$T/include -I$T/include/qb -I$T/lib \
  fuzz.c $T/lib/ringbuffer.c $T/lib/ringbuffer_helper.c \
  -L$T/lib/.libs -lqb -lpthread -o fuzz
gcc -g -O1 -fsanitize=address,undefined -fno-omit-frame-pointer -DHAVE_CONFIG_H \
  -I$T/include -I$T/include/qb -I$T/lib \
  fuzz_bb.c $T/lib/ringbuffer.c $T/lib/ringbuffer_helper.c $T/lib/log_blackbox.c \
  -L$T/lib/.libs -lqb -lpthread -o fuzz_bb
