/*
 * C08 finding 2: qb_loop_signal_del() only purges queued deliveries from the
 * level of the handler's *current* priority.  After qb_loop_signal_mod() has
 * changed the priority, a delivery that was queued under the old priority
 * survives the delete and the callback is invoked after
 * qb_loop_signal_del() returned 0 (the queued clone also keeps a dangling
 * cloned_from pointer: a non-zero return from that callback makes the
 * library call qb_loop_signal_del() on freed memory).
 *
 * Sequence:
 *   qb_loop_signal_add(l, QB_LOOP_LOW, SIGUSR1, &st, sig_cb, &h) -> 0
 *   qb_loop_job_add(l, QB_LOOP_HIGH, .., job_mod_del)
 *   raise(SIGUSR1)
 *   qb_loop_run(l):
 *     iteration 1 polls the signal pipe and queues the delivery at LOW, then
 *     runs only level HIGH: job_mod_del does
 *        qb_loop_signal_mod(l, QB_LOOP_HIGH, SIGUSR1, &st, sig_cb, h) -> 0
 *        qb_loop_signal_del(l, h)                                      -> 0
 *     iteration 3 runs level LOW: sig_cb is called  <-- violation
 */
#include <stdio.h>
#include <stdlib.h>
#include <unistd.h>
#include <signal.h>
#include <qb/qbloop.h>

static qb_loop_t *l;
static qb_loop_signal_handle h;
static int deleted;
static int calls_after_delete;
static int calls_before_delete;
static int retval;

static int32_t sig_cb(int32_t sig, void *data)
{
	if (deleted) {
		calls_after_delete++;
		printf("sig_cb(%d) invoked AFTER qb_loop_signal_del() returned 0\n", sig);
	} else {
		calls_before_delete++;
	}
	return retval;
}

static void job_mod_del(void *data)
{
	int rc;
	rc = qb_loop_signal_mod(l, QB_LOOP_HIGH, SIGUSR1, NULL, sig_cb, h);
	printf("signal_mod(prio LOW->HIGH) -> %d\n", rc);
	rc = qb_loop_signal_del(l, h);
	printf("signal_del -> %d\n", rc);
	if (rc == 0) {
		deleted = 1;
	}
}

static void tmo_stop(void *data)
{
	qb_loop_stop(l);
}

int main(int argc, char **argv)
{
	int rc;
	qb_loop_timer_handle th;

	setvbuf(stdout, NULL, _IONBF, 0);
	retval = argc > 1 ? atoi(argv[1]) : 0;	/* pass -1 to see the use-after-free too */
	l = qb_loop_create();
	rc = qb_loop_signal_add(l, QB_LOOP_LOW, SIGUSR1, NULL, sig_cb, &h);
	printf("signal_add(LOW, SIGUSR1) -> %d\n", rc);
	rc = qb_loop_job_add(l, QB_LOOP_HIGH, NULL, job_mod_del);
	printf("job_add(HIGH) -> %d\n", rc);
	raise(SIGUSR1);
	qb_loop_timer_add(l, QB_LOOP_LOW, 100 * 1000 * 1000ULL, NULL, tmo_stop, &th);
	qb_loop_run(l);
	printf("calls before delete: %d, calls after delete: %d\n",
	       calls_before_delete, calls_after_delete);
	qb_loop_destroy(l);
	if (calls_after_delete) {
		printf("VIOLATED\n");
		return 1;
	}
	printf("held\n");
	return 0;
}
