/*
 * C08 finding 1: work that is already queued for dispatch when qb_loop_stop()
 * makes qb_loop_run() return is forgotten by the next qb_loop_run(): the loop
 * goes to sleep in epoll_wait(-1) although a job is runnable, so the job
 * never runs (until some unrelated descriptor/signal/timer wakes the loop).
 *
 * Sequence (public API only, nothing from other threads):
 *   l = qb_loop_create()
 *   qb_loop_job_add(l, QB_LOOP_HIGH, l,  job_stop)   -> 0
 *   qb_loop_job_add(l, QB_LOOP_HIGH, &n, job_count)  -> 0
 *   qb_loop_run(l)      returns after job_stop (job_count still queued)
 *   qb_loop_run(l)      expected: job_count runs; observed: blocks forever
 */
#include <stdio.h>
#include <stdlib.h>
#include <unistd.h>
#include <signal.h>
#include <qb/qbloop.h>

static int counted;
static int phase;

static void job_stop(void *data)
{
	qb_loop_stop(data);
}

static void job_count(void *data)
{
	counted++;
	/* end the second run as soon as the job has run */
	qb_loop_stop(data);
}

static void on_alarm(int s)
{
	static const char m[] = "VIOLATED: second qb_loop_run() slept for 2s with a runnable job queued; job ran 0 times\n";
	(void)s;
	(void)!write(1, m, sizeof(m) - 1);
	_exit(1);
}

int main(void)
{
	qb_loop_t *l = qb_loop_create();
	int rc;
	setvbuf(stdout, NULL, _IONBF, 0);

	rc = qb_loop_job_add(l, QB_LOOP_HIGH, l, job_stop);
	printf("job_add(stop)  -> %d\n", rc);
	rc = qb_loop_job_add(l, QB_LOOP_HIGH, l, job_count);
	printf("job_add(count) -> %d\n", rc);

	phase = 1;
	qb_loop_run(l);
	printf("first run returned, job_count ran %d times\n", counted);

	signal(SIGALRM, on_alarm);	/* plain handler, not a loop signal */
	alarm(2);
	phase = 2;
	qb_loop_run(l);
	alarm(0);
	printf("second run returned, job_count ran %d times\n", counted);
	qb_loop_destroy(l);
	if (counted != 1) {
		printf("VIOLATED\n");
		return 1;
	}
	printf("held\n");
	return 0;
}
