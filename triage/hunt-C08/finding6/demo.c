/*
 * C08 finding 6: descriptor number closed and reused inside its own callback.
 *
 * A descriptor callback handles "peer went away" the usual way: it closes the
 * descriptor and returns a negative value so the loop drops the entry.  If,
 * before returning, it opens a replacement (the kernel hands out the same
 * number), registers it and adjusts it with qb_loop_poll_mod(), the mod is
 * applied to the OLD entry - the one being dispatched, whose descriptor is
 * already closed - because qb_loop_poll_mod()/qb_loop_poll_del() search the
 * entry table by descriptor number only and the old entry comes first.
 * driver.mod re-points the kernel registration of the NEW descriptor at the
 * old slot; the negative return then marks that slot deleted (check = 0), so
 * every later event of the new descriptor is discarded ("can't find poll entry
 * for new event" + usleep(100000) per loop iteration).
 *
 * Sequence:
 *   poll_add(fd6 = pipe A, cb_old)                       -> 0
 *   A becomes readable, cb_old(fd6) runs:
 *       close(A); pipe B -> read end is fd6 again
 *       poll_add(fd6, POLLIN, cb_new)                     -> 0
 *       poll_mod(fd6, POLLIN|POLLPRI, cb_new)             -> 0
 *       write to B;  return -1
 *   expected: cb_new(fd6) runs (registered, never deleted, readable)
 *   observed: cb_new never runs
 */
#define _GNU_SOURCE
#include <stdio.h>
#include <stdlib.h>
#include <unistd.h>
#include <fcntl.h>
#include <qb/qbloop.h>

static qb_loop_t *l;
static int p1[2], p2[2];
static int new_calls, old_calls;

static int32_t cb_new(int32_t fd, int32_t ev, void *d)
{
	char c;
	(void)!read(fd, &c, 1);
	new_calls++;
	printf("cb_new(fd %d) called\n", fd);
	return 0;
}

static int32_t cb_old(int32_t fd, int32_t ev, void *d)
{
	int rc;

	old_calls++;
	close(p1[0]);
	close(p1[1]);
	if (pipe2(p2, O_NONBLOCK)) {
		exit(99);
	}
	printf("cb_old(fd %d): closed it; replacement pipe read end is fd %d\n", fd, p2[0]);
	rc = qb_loop_poll_add(l, QB_LOOP_MED, p2[0], POLLIN, NULL, cb_new);
	printf("  poll_add(fd %d, cb_new) -> %d\n", p2[0], rc);
	rc = qb_loop_poll_mod(l, QB_LOOP_HIGH, p2[0], POLLIN | POLLPRI, NULL, cb_new);
	printf("  poll_mod(fd %d, cb_new) -> %d\n", p2[0], rc);
	(void)!write(p2[1], "n", 1);
	printf("  wrote one byte for fd %d, returning -1\n", p2[0]);
	return -1;
}

static void tmo_stop(void *d)
{
	qb_loop_stop(l);
}

int main(void)
{
	qb_loop_timer_handle th;
	int rc;

	setvbuf(stdout, NULL, _IONBF, 0);
	l = qb_loop_create();
	if (pipe2(p1, O_NONBLOCK)) {
		return 99;
	}
	rc = qb_loop_poll_add(l, QB_LOOP_MED, p1[0], POLLIN, NULL, cb_old);
	printf("poll_add(fd %d, cb_old) -> %d\n", p1[0], rc);
	(void)!write(p1[1], "o", 1);
	qb_loop_timer_add(l, QB_LOOP_LOW, 300 * 1000000ULL, NULL, tmo_stop, &th);
	qb_loop_run(l);
	printf("cb_old calls %d, cb_new calls %d (fd %d same number: %s)\n",
	       old_calls, new_calls, p2[0], p2[0] == p1[0] ? "yes" : "no");
	if (p2[0] != p1[0]) {
		printf("descriptor number was not reused, scenario not reached\n");
		return 98;
	}
	if (new_calls < 1) {
		printf("VIOLATED: registered, readable descriptor never dispatched\n");
		return 1;
	}
	printf("held\n");
	return 0;
}
