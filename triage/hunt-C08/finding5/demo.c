/*
 * C08 finding 5 (stale signal handle is dereferenced, not rejected).
 *
 * A qb_loop_signal_handle is the raw address of the registration.  Once the
 * registration is gone the library still dereferences the handle:
 *
 *  A (default): the callback deletes its own registration
 *     ("a callback deleting itself") with qb_loop_signal_del(l, h) -> 0 and
 *     then returns non-zero, the way an fd callback ends its registration.
 *     _signal_dispatch_and_take_back_() reacts to the non-zero return with a
 *     second qb_loop_signal_del(sig->cloned_from->item.source->l,
 *     sig->cloned_from) on the registration that was just freed:
 *     heap-use-after-free read, then list unlink + free() of freed memory.
 *
 *  B ("demo stale"): the callback returns non-zero, the library deletes the
 *     registration on its own; the application's handle is now stale and a
 *     later qb_loop_signal_del(l, h) is not rejected but walks freed memory.
 *
 * Needs ASan to be visible (demo.sh builds with it): exit status is ASan's.
 */
#include <stdio.h>
#include <stdlib.h>
#include <string.h>
#include <unistd.h>
#include <signal.h>
#include <qb/qbloop.h>

static qb_loop_t *l;
static qb_loop_signal_handle h;
static int mode_stale;

static int32_t cb(int32_t sig, void *data)
{
	if (!mode_stale) {
		int rc = qb_loop_signal_del(l, h);
		printf("callback: qb_loop_signal_del(own handle) -> %d, returning -1\n", rc);
	} else {
		printf("callback: returning -1 (library deletes the registration)\n");
	}
	return -1;
}

static void tmo_stop(void *data)
{
	qb_loop_stop(l);
}

int main(int argc, char **argv)
{
	qb_loop_timer_handle th;
	int rc;

	setvbuf(stdout, NULL, _IONBF, 0);
	mode_stale = argc > 1 && strcmp(argv[1], "stale") == 0;
	l = qb_loop_create();
	rc = qb_loop_signal_add(l, QB_LOOP_HIGH, SIGUSR1, NULL, cb, &h);
	printf("signal_add -> %d\n", rc);
	raise(SIGUSR1);
	qb_loop_timer_add(l, QB_LOOP_LOW, 20 * 1000000ULL, NULL, tmo_stop, &th);
	qb_loop_run(l);
	if (mode_stale) {
		rc = qb_loop_signal_del(l, h);
		printf("signal_del(stale handle) -> %d (expected: rejected, non-zero)\n", rc);
		if (rc == 0) {
			printf("VIOLATED\n");
			return 1;
		}
	}
	qb_loop_destroy(l);
	printf("held\n");
	return 0;
}
