#!/bin/sh
# usage: demo.sh <tree> [args for the demo binary]   exit 0 = property held, non-zero = violated
T=${1:-/repo}
[ $# -gt 0 ] && shift
D=$(cd "$(dirname "$0")" && pwd)
B=$(mktemp -d /tmp/hunt-C08-demo.XXXXXX)
gcc -g -O1 -fsanitize=address,undefined -DHAVE_CONFIG_H -I$T/include -I$T/include/qb -I$T/lib -w \
    -o $B/demo $D/demo.c $T/lib/loop.c $T/lib/loop_job.c $T/lib/loop_timerlist.c $T/lib/loop_poll.c \
    $T/lib/loop_poll_epoll.c $T/lib/array.c -L$T/lib/.libs -lqb -lpthread || { rm -rf $B; exit 99; }
LD_LIBRARY_PATH=$T/lib/.libs ASAN_OPTIONS=detect_leaks=0 $B/demo "$@"
rc=$?
rm -rf $B
exit $rc
