/*
 * C08 finding 4 (boundary): qb_loop_signal_add() accepts the highest signal
 * number (SIGRTMAX == 64 == NSIG-1 on Linux/glibc) and returns 0, but
 * _adjust_sigactions_() only walks "i < QB_MAX_NUM_SIGNALS" with
 * QB_MAX_NUM_SIGNALS == NSIG - 1 == 64, i.e. signals 0..63.  No handler is
 * ever installed for signal 64, so a delivered SIGRTMAX is not turned into a
 * loop callback - it takes its default action and kills the process.
 * The same registration with SIGRTMAX-1 works.
 *
 * Sequence (in a child process):
 *   qb_loop_signal_add(l, QB_LOOP_HIGH, SIGRTMAX, .., cb, &h) -> 0
 *   raise(SIGRTMAX)      expected: cb runs once from qb_loop_run()
 *                        observed: process terminated by signal 64
 */
#include <stdio.h>
#include <stdlib.h>
#include <unistd.h>
#include <signal.h>
#include <sys/wait.h>
#include <qb/qbloop.h>

static qb_loop_t *l;
static int calls;

static int32_t cb(int32_t sig, void *data)
{
	calls++;
	qb_loop_stop(l);
	return 0;
}

static void tmo_stop(void *data)
{
	qb_loop_stop(l);
}

static int child(int sig)
{
	qb_loop_signal_handle h;
	qb_loop_timer_handle th;
	struct sigaction sa;
	int rc;

	l = qb_loop_create();
	rc = qb_loop_signal_add(l, QB_LOOP_HIGH, sig, NULL, cb, &h);
	printf("  signal_add(sig %d) -> %d\n", sig, rc);
	if (rc != 0) {
		return 3;	/* rejecting the signal would be fine */
	}
	sigaction(sig, NULL, &sa);
	printf("  handler installed for %d: %s\n", sig,
	       (sa.sa_flags & SA_SIGINFO) && sa.sa_sigaction ? "yes" :
	       (sa.sa_handler == SIG_DFL ? "no (SIG_DFL)" : "?"));
	raise(sig);
	qb_loop_timer_add(l, QB_LOOP_LOW, 50 * 1000000ULL, NULL, tmo_stop, &th);
	qb_loop_run(l);
	printf("  callback ran %d time(s)\n", calls);
	return calls == 1 ? 0 : 4;
}

static int try_sig(int sig)
{
	int st;
	pid_t p;

	fflush(stdout);
	p = fork();
	if (p == 0) {
		setvbuf(stdout, NULL, _IONBF, 0);
		_exit(child(sig));
	}
	waitpid(p, &st, 0);
	if (WIFSIGNALED(st)) {
		printf("  child KILLED by signal %d instead of running the callback\n", WTERMSIG(st));
		return 1;
	}
	return WEXITSTATUS(st) == 0 || WEXITSTATUS(st) == 3 ? 0 : 1;
}

int main(void)
{
	int bad = 0;
	setvbuf(stdout, NULL, _IONBF, 0);
	printf("SIGRTMAX-1 (%d):\n", SIGRTMAX - 1);
	bad |= try_sig(SIGRTMAX - 1);
	printf("SIGRTMAX (%d), NSIG=%d:\n", SIGRTMAX, NSIG);
	bad |= try_sig(SIGRTMAX);
	printf(bad ? "VIOLATED\n" : "held\n");
	return bad;
}
