/*
 * C08 finding 3: a qb_loop_poll_add() that fails (here: the descriptor is
 * already registered, epoll answers EEXIST) leaves its array slot in state
 * EMPTY but with ufd.fd still set to the descriptor (and a fresh non-zero
 * check value).  qb_loop_poll_del()/qb_loop_poll_mod() look entries up by
 * descriptor number only, so when that half-initialised slot has a lower index
 * than the live registration they operate on it instead:
 *   - qb_loop_poll_del(fd) returns 0 ("success") without removing anything:
 *     the callback keeps being invoked after a successful delete;
 *   - qb_loop_poll_mod(fd, other events) returns 0, re-points the kernel
 *     registration at the EMPTY slot and the next event calls the NULL
 *     add_to_jobs pointer (SIGSEGV)  -- run "demo mod" to see it.
 *
 * Sequence:
 *   poll_add(a)            -> 0   slot 1   (slot 0 is the signal pipe)
 *   poll_add(x)            -> 0   slot 2
 *   poll_del(a)            -> 0   slot 1 DELETED
 *   run one iteration             slot 1 recycled to EMPTY
 *   poll_add(x) again      -> -EEXIST, rejected; slot 1: EMPTY, ufd.fd = x
 *   poll_del(x)            -> 0   (matched slot 1, nothing removed)
 *   write to x's peer, run        x's callback is invoked  <-- violation
 */
#include <stdio.h>
#include <stdlib.h>
#include <string.h>
#include <unistd.h>
#include <fcntl.h>
#include <qb/qbloop.h>

static qb_loop_t *l;
static int deleted;
static int calls_after_delete;

static int32_t cb_x(int32_t fd, int32_t revents, void *data)
{
	char c;
	(void)!read(fd, &c, 1);
	if (deleted) {
		calls_after_delete++;
		printf("cb_x(fd %d) invoked AFTER qb_loop_poll_del() returned 0\n", fd);
	}
	return 0;
}

static int32_t cb_a(int32_t fd, int32_t revents, void *data)
{
	return 0;
}

static void tmo_stop(void *data)
{
	qb_loop_stop(l);
}

static void run_ms(int ms)
{
	qb_loop_timer_handle th;
	qb_loop_timer_add(l, QB_LOOP_HIGH, ms * 1000000ULL, NULL, tmo_stop, &th);
	qb_loop_run(l);
}

int main(int argc, char **argv)
{
	int a[2], x[2], rc;
	int do_mod = argc > 1 && strcmp(argv[1], "mod") == 0;

	setvbuf(stdout, NULL, _IONBF, 0);
	l = qb_loop_create();
	if (pipe2(a, O_NONBLOCK) || pipe2(x, O_NONBLOCK)) return 99;

	rc = qb_loop_poll_add(l, QB_LOOP_MED, a[0], POLLIN, NULL, cb_a);
	printf("poll_add(a=%d) -> %d\n", a[0], rc);
	rc = qb_loop_poll_add(l, QB_LOOP_MED, x[0], POLLIN, NULL, cb_x);
	printf("poll_add(x=%d) -> %d\n", x[0], rc);
	rc = qb_loop_poll_del(l, a[0]);
	printf("poll_del(a) -> %d\n", rc);
	run_ms(5);
	rc = qb_loop_poll_add(l, QB_LOOP_MED, x[0], POLLIN, NULL, cb_x);
	printf("poll_add(x) again -> %d (rejected duplicate)\n", rc);

	if (do_mod) {
		rc = qb_loop_poll_mod(l, QB_LOOP_MED, x[0], POLLIN | POLLPRI, NULL, cb_x);
		printf("poll_mod(x) -> %d\n", rc);
		(void)!write(x[1], "1", 1);
		run_ms(20);
		printf("survived\n");
		return 0;
	}

	rc = qb_loop_poll_del(l, x[0]);
	printf("poll_del(x) -> %d\n", rc);
	if (rc == 0) {
		deleted = 1;
	}
	(void)!write(x[1], "1", 1);
	run_ms(20);
	printf("callbacks after successful delete: %d\n", calls_after_delete);
	qb_loop_destroy(l);
	if (calls_after_delete) {
		printf("VIOLATED\n");
		return 1;
	}
	printf("held\n");
	return 0;
}
