/*
 * Model-based randomized tester for the libqb main loop (property C08).
 *
 * Drives random add/mod/del sequences for jobs, timers, descriptors and
 * signals, both from outside qb_loop_run() and from inside every kind of
 * callback, and checks every result against a reference model:
 *
 *  - job: runs exactly once unless deleted; FIFO per priority; del of a
 *    pending job returns 0 and it never runs; del of a stale job -ENOENT
 *  - timer: runs exactly once, never early; del pending -> 0 and never runs;
 *    stale handle (fired/deleted/slot reused) rejected, others unaffected
 *  - fd: callback only while registered, with the registered fd/data;
 *    ready + registered => eventually called; negative return unregisters;
 *    del -> never called again, even when queued
 *  - signal: callback only while registered; at quiescent points exactly
 *    one call per raise() per registered handler
 *  - stop from a callback: no further callback before run returns
 *
 * usage: fuzz <seed> <rounds> [flags]
 *   flags (bit mask, default 0):
 *     1  allow duplicate qb_loop_poll_add() of an already registered fd
 *        (must be rejected and leave the existing registration alone)
 *     2  allow qb_loop_signal_mod() to change the priority
 *     4  use long-lived timers too (stress heap deletion)
 *     8  small ranges (few objects, heavy slot reuse)
 *    16  allow fd callback to return <0 while leaving the fd open (drained)
 *    32  stop from callbacks frequently
 *   128  an fd callback may close its own descriptor (number gets reused by a
 *        fresh pipe in the same model slot), then do further operations -
 *        possibly registering the new descriptor - and finally return -1
 *    64  register an always-readable descriptor (outside the model) so that
 *        the loop never sleeps: much faster, same checks
 */
#define _GNU_SOURCE
#include <stdio.h>
#include <stdlib.h>
#include <string.h>
#include <stdint.h>
#include <unistd.h>
#include <errno.h>
#include <fcntl.h>
#include <signal.h>
#include <poll.h>
#include <sys/socket.h>
#include <sys/time.h>
#include <sys/stat.h>
#include <sys/ioctl.h>
#include <qb/qbdefs.h>
#include <qb/qbutil.h>
#include <qb/qbloop.h>
#include <qb/qblist.h>
#ifdef INTROSPECT
#include "loop_int.h"
#endif

static qb_loop_t *L;
static uint64_t rs;
static unsigned flags;
static uint64_t nops;
static int failures;
static int in_run;
static int stop_called;
static int drain_mode;
static int depth;
static uint64_t seed_in;
static int run_gen;

#define F_DUPADD   1
#define F_SIGMODP  2
#define F_LONGTMR  4
#define F_SMALL    8
#define F_NEGOPEN 16
#define F_STOPS   32
#define F_EARLYCLOSE 128	/* fd callback may close its descriptor first, work, then return -1 */
#define F_SPIN    64	/* keep an always-ready descriptor registered so the loop never sleeps */

static uint64_t rnd(void)
{
	rs ^= rs << 13;
	rs ^= rs >> 7;
	rs ^= rs << 17;
	return rs;
}
static uint32_t rn(uint32_t n) { return n ? (uint32_t)(rnd() % n) : 0; }

static void ring_dump(void);
#define FAIL(...) do { \
	ring_dump(); \
	fprintf(stderr, "VIOLATION(seed=%llu,op=%llu): ", \
		(unsigned long long)seed_in, (unsigned long long)nops); \
	fprintf(stderr, __VA_ARGS__); fprintf(stderr, "\n"); \
	failures++; if (failures > 20) { fprintf(stderr, "too many failures\n"); exit(1); } \
} while (0)

static int trace;
/* last operations are kept in a ring and dumped at the first violation when FUZZ_DUMP is set
 * (timers depend on wall-clock time, so a seed does not replay exactly) */
#define RING 400
static char ring[RING][160];
static unsigned ring_pos;
static int ring_dumped;
static void ring_dump(void)
{
	unsigned i;
	if (ring_dumped || !getenv("FUZZ_DUMP")) return;
	ring_dumped = 1;
	for (i = 0; i < RING; i++) {
		const char *l = ring[(ring_pos + i) % RING];
		if (l[0]) fprintf(stderr, "  | %s\n", l);
	}
}
#define TR(...) do { int o_ = snprintf(ring[ring_pos % RING], 160, "%*s", depth * 2, ""); \
	snprintf(ring[ring_pos % RING] + o_, 160 - o_, __VA_ARGS__); \
	if (trace) fprintf(stderr, "%s\n", ring[ring_pos % RING]); \
	ring_pos++; } while (0)

static enum qb_loop_priority rprio(void) { return (enum qb_loop_priority)rn(3); }

static void random_ops(int n);
static void cb_enter(const char *what)
{
	if (!in_run) {
		FAIL("%s callback invoked outside qb_loop_run", what);
	}
	if (stop_called) {
		FAIL("%s callback invoked after qb_loop_stop() and before run returned", what);
	}
	depth++;
}
static void cb_leave(void) { depth--; }

/* ------------------------------------------------------------------ jobs */
enum { S_PENDING = 1, S_RUNNING, S_DONE, S_DELETED };

struct job {
	int id;
	int prio;
	int state;
	int runs;
	int is_stop;
	int gen;
};
#define MAXJ 64
static struct job *jobs[MAXJ + 4096];		/* pending, in add order (global) */
static int njobs;
#define MAXSTALE 16
static struct job *stale_jobs[MAXSTALE];
static int job_ids;

static void job_cb(void *data);

static void job_forget(struct job *j)
{
	int i;
	for (i = 0; i < njobs; i++) {
		if (jobs[i] == j) {
			memmove(&jobs[i], &jobs[i + 1], (njobs - i - 1) * sizeof(jobs[0]));
			njobs--;
			break;
		}
	}
	i = rn(MAXSTALE);
	stale_jobs[i] = j;	/* model objects are never freed on purpose */
}

static void job_cb(void *data)
{
	struct job *j = data;
	int i;

	cb_enter("job");
	TR("job %d runs (prio %d)", j->id, j->prio);
	if (j->state != S_PENDING) {
		FAIL("job %d ran in state %d (runs=%d) [1=pending 3=done 4=deleted]", j->id, j->state, j->runs);
		cb_leave();
		return;
	}
	/* FIFO within the priority */
	for (i = 0; i < njobs; i++) {
		if (jobs[i]->prio == j->prio) {
			if (jobs[i] != j) {
				FAIL("job %d (prio %d) ran before older job %d of the same priority",
				     j->id, j->prio, jobs[i]->id);
			}
			break;
		}
	}
	j->runs++;
	j->state = S_RUNNING;
	if (j->is_stop && j->gen != run_gen) {
		/* stopper left over from an earlier run: plain job */
	} else if (j->is_stop) {
		TR("stop from job");
		qb_loop_stop(L);
		stop_called = 1;
	} else if (!drain_mode) {
		if (rn(4) == 0) {
			int rc = qb_loop_job_del(L, j->prio, j, job_cb);
			nops++;
			if (rc != -ENOENT) {
				FAIL("job %d deleting itself from its callback: rc=%d, expected -ENOENT", j->id, rc);
			}
		}
		random_ops(rn(4));
	}
	j->state = S_DONE;
	job_forget(j);
	cb_leave();
}

static void op_job_add(int is_stop)
{
	struct job *j;
	int rc;
	if (njobs >= ((flags & F_SMALL) ? 6 : MAXJ) && !is_stop) {
		return;
	}
	j = calloc(1, sizeof(*j));
	j->id = ++job_ids;
	j->prio = is_stop ? QB_LOOP_LOW : rprio();
	j->state = S_PENDING;
	j->is_stop = is_stop;
	j->gen = run_gen;
	rc = qb_loop_job_add(L, j->prio, j, job_cb);
	nops++;
	TR("job_add %d prio %d -> %d", j->id, j->prio, rc);
	if (rc != 0) {
		FAIL("job_add rc=%d", rc);
		free(j);
		return;
	}
	jobs[njobs++] = j;
}

static void op_job_del(void)
{
	struct job *j;
	int rc;
	if (njobs > 0 && rn(4) != 0) {
		j = jobs[rn(njobs)];
		if (j->is_stop) {
			return;
		}
		rc = qb_loop_job_del(L, j->prio, j, job_cb);
		nops++;
		TR("job_del %d (state %d) -> %d", j->id, j->state, rc);
		if (j->state == S_PENDING) {
			if (rc != 0) {
				FAIL("job_del of pending job %d rc=%d", j->id, rc);
			} else {
				j->state = S_DELETED;
				job_forget(j);
			}
		} else if (rc != -ENOENT) {
			FAIL("job_del of running job %d rc=%d, expected -ENOENT", j->id, rc);
		}
	} else {
		j = stale_jobs[rn(MAXSTALE)];
		if (j == NULL) {
			return;
		}
		rc = qb_loop_job_del(L, j->prio, j, job_cb);
		nops++;
		TR("job_del stale %d -> %d", j->id, rc);
		if (rc != -ENOENT) {
			FAIL("job_del of stale job %d (state %d) rc=%d, expected -ENOENT", j->id, j->state, rc);
		}
	}
}

/* ---------------------------------------------------------------- timers */
struct tmr {
	int id;
	int prio;
	int state;
	int runs;
	int is_stop;
	int gen;
	int is_long;
	uint64_t t_add;
	uint64_t dur;
	qb_loop_timer_handle h;
};
#define MAXT 96
static struct tmr *tmrs[MAXT + 4096];
static int ntmrs;
static struct tmr *stale_tmrs[MAXSTALE];
static int tmr_ids;

static void tmr_forget(struct tmr *t)
{
	int i;
	for (i = 0; i < ntmrs; i++) {
		if (tmrs[i] == t) {
			tmrs[i] = tmrs[--ntmrs];
			break;
		}
	}
	i = rn(MAXSTALE);
	stale_tmrs[i] = t;
}

static void tmr_check_stale(struct tmr *t, const char *when)
{
	int rc;
	rc = qb_loop_timer_is_running(L, t->h);
	nops++;
	if (rc) {
		FAIL("timer %d (%s) stale handle reported as running", t->id, when);
	}
	if (qb_loop_timer_expire_time_get(L, t->h) != 0) {
		FAIL("timer %d (%s) stale handle has an expire time", t->id, when);
	}
	rc = qb_loop_timer_del(L, t->h);
	nops++;
	TR("timer_del stale %d (%s) -> %d", t->id, when, rc);
	if (rc == 0) {
		FAIL("timer %d (%s): del of stale handle returned 0", t->id, when);
	}
}

static void tmr_cb(void *data)
{
	struct tmr *t = data;
	uint64_t now = qb_util_nano_current_get();

	cb_enter("timer");
	TR("timer %d fires", t->id);
	if (t->state != S_PENDING) {
		FAIL("timer %d fired in state %d (runs=%d) [3=done 4=deleted]", t->id, t->state, t->runs);
		cb_leave();
		return;
	}
	if (now < t->t_add + t->dur) {
		FAIL("timer %d fired early", t->id);
	}
	if (t->is_long) {
		FAIL("long timer %d fired (dur %llu ns)", t->id, (unsigned long long)t->dur);
	}
	t->runs++;
	t->state = S_RUNNING;
	if (t->is_stop && t->gen != run_gen) {
		/* stopper left over from an earlier run: plain timer */
	} else if (t->is_stop) {
		TR("stop from timer");
		qb_loop_stop(L);
		stop_called = 1;
	} else if (!drain_mode) {
		if (rn(3) == 0) {
			tmr_check_stale(t, "in own callback");
		}
		random_ops(rn(4));
	}
	t->state = S_DONE;
	tmr_forget(t);
	cb_leave();
}

static void op_tmr_add(int is_stop)
{
	struct tmr *t;
	int rc;
	int lim = (flags & F_SMALL) ? 5 : MAXT;
	if (ntmrs >= lim && !is_stop) {
		return;
	}
	if (ntmrs >= MAXT + 4000) {
		fprintf(stderr, "fuzzer: too many pending timers\n");
		exit(2);
	}
	t = calloc(1, sizeof(*t));
	t->id = ++tmr_ids;
	t->prio = rprio();
	t->state = S_PENDING;
	t->is_stop = is_stop;
	t->gen = run_gen;
	if (is_stop) {
		t->dur = rn(3) * 500000ULL;
	} else if ((flags & F_LONGTMR) && rn(3) == 0) {
		t->is_long = 1;
		t->dur = 3600ULL * QB_TIME_NS_IN_SEC + rnd() % (1000ULL * QB_TIME_NS_IN_SEC);
	} else {
		switch (rn(4)) {
		case 0: t->dur = 0; break;
		case 1: t->dur = rn(1000); break;
		case 2: t->dur = rn(300000); break;
		default: t->dur = rn(2000000); break;
		}
	}
	t->t_add = qb_util_nano_current_get();
	rc = qb_loop_timer_add(L, t->prio, t->dur, t, tmr_cb, &t->h);
	nops++;
	TR("timer_add %d prio %d dur %llu -> %d h=%llx", t->id, t->prio,
	   (unsigned long long)t->dur, rc, (unsigned long long)t->h);
	if (rc != 0) {
		FAIL("timer_add rc=%d", rc);
		free(t);
		return;
	}
	tmrs[ntmrs++] = t;
}

static void op_tmr_del(void)
{
	struct tmr *t;
	int rc;
	if (ntmrs > 0 && rn(4) != 0) {
		t = tmrs[rn(ntmrs)];
		if (t->is_stop) {
			return;
		}
		if (t->state == S_RUNNING) {
			tmr_check_stale(t, "running, from nested op");
			return;
		}
		if (rn(2) && !qb_loop_timer_is_running(L, t->h)) {
			/* expired but not yet dispatched is reported as not running: allowed */
		}
		rc = qb_loop_timer_del(L, t->h);
		nops++;
		TR("timer_del %d -> %d", t->id, rc);
		if (rc != 0) {
			FAIL("timer_del of pending timer %d rc=%d", t->id, rc);
		} else {
			t->state = S_DELETED;
			tmr_forget(t);
		}
	} else {
		t = stale_tmrs[rn(MAXSTALE)];
		if (t == NULL) {
			return;
		}
		tmr_check_stale(t, t->state == S_DONE ? "fired" : "deleted");
	}
}

/* ------------------------------------------------------------------- fds */
struct fdreg {
	int slot;
	int fd;
	int registered;
	int calls;
	int fnsel;
	int events;
	int in_cb;
	struct fdreg *replaced_by;	/* qb_loop_poll_mod gave the same registration new data */
};
struct fdslot {
	int rfd, wfd;
	int pending;	/* bytes written and not read */
	struct fdreg *reg;
};
#define MAXF 24
static struct fdslot fds[MAXF];
static int nfds;
static struct fdreg *stale_regs[64];
static int leaked_fds;

static void reg_retire(struct fdreg *r)
{
	int i = rn(64);
	r->registered = 0;
	stale_regs[i] = r;
}

static void slot_open(struct fdslot *s)
{
	int sv[2];
	if (rn(2)) {
		if (pipe2(sv, O_NONBLOCK | O_CLOEXEC) != 0) { perror("pipe"); exit(2); }
		s->rfd = sv[0];
		s->wfd = sv[1];
	} else {
		if (socketpair(AF_UNIX, SOCK_STREAM | SOCK_NONBLOCK | SOCK_CLOEXEC, 0, sv) != 0) { perror("socketpair"); exit(2); }
		s->rfd = sv[0];
		s->wfd = sv[1];
	}
	s->pending = 0;
	s->reg = NULL;
}

static void slot_recycle(struct fdslot *s)
{
	close(s->rfd);
	close(s->wfd);
	if (rn(3) == 0) {
		/* shuffle fd numbers: open a few spare descriptors first */
		int a = open("/dev/null", O_RDONLY | O_CLOEXEC);
		slot_open(s);
		close(a);
	} else {
		slot_open(s);
	}
}

static int32_t fd_cb_common(int32_t fd, int32_t revents, void *data, int fnsel);
static int32_t fd_cb0(int32_t fd, int32_t revents, void *data) { return fd_cb_common(fd, revents, data, 0); }
static int32_t fd_cb1(int32_t fd, int32_t revents, void *data) { return fd_cb_common(fd, revents, data, 1); }
static qb_loop_poll_dispatch_fn fd_fns[2] = { fd_cb0, fd_cb1 };

static int32_t fd_cb_common(int32_t fd, int32_t revents, void *data, int fnsel)
{
	struct fdreg *r = data;
	struct fdslot *s;
	char c;
	int rc = 0;

	cb_enter("fd");
	TR("fd cb fd=%d revents=%x slot=%d", fd, revents, r->slot);
	if (!r->registered) {
		FAIL("fd callback (fd %d, slot %d) invoked for a registration that was deleted/replaced/ended", fd, r->slot);
		cb_leave();
		return 0;
	}
	s = &fds[r->slot];
	if (s->reg != r || r->fd != fd || s->rfd != fd) {
		FAIL("fd callback with mismatching fd/data (fd %d, reg fd %d, slot fd %d)", fd, r->fd, s->rfd);
	}
	if (r->fnsel != fnsel) {
		FAIL("fd %d: wrong dispatch function called after mod", fd);
	}
	if ((revents & (POLLIN | POLLHUP | POLLERR)) == 0) {
		FAIL("fd %d: callback with revents=%x", fd, revents);
	}
	r->calls++;
	r->in_cb++;
	if (drain_mode) {
		while (read(fd, &c, 1) == 1) {
			s->pending--;
		}
	} else {
		int early = 0;
		if ((flags & F_EARLYCLOSE) && rn(6) == 0) {
			TR("fd %d: closing in own callback, will return -1", fd);
			early = 1;
			reg_retire(r);
			slot_recycle(s);
		} else if (rn(5) != 0) {
			if (read(fd, &c, 1) == 1) {
				s->pending--;
			}
		}
		random_ops(rn(4));
		if (early) {
			r->in_cb--;
			cb_leave();
			return -1;
		}
		while (r->replaced_by) {
			r->in_cb--;
			r = r->replaced_by;
			r->in_cb++;
		}
		s = &fds[r->slot];
		if (r->registered) {
			if (rn(8) == 0) {
				/* end the registration by return value; recycle descriptor */
				TR("fd %d returns -1", fd);
				if ((flags & F_NEGOPEN) && rn(2) && leaked_fds < 60) {
					leaked_fds++;
					while (read(fd, &c, 1) == 1) {
						s->pending--;
					}
					/* leave fd open and never touch it again in this slot:
					 * replace the slot's descriptors by fresh ones, keep old open */
					reg_retire(r);
					slot_open(s);
				} else {
					reg_retire(r);
					slot_recycle(s);
				}
				rc = -1;
			}
		} else {
			rc = rn(2) ? -1 : 0;
		}
	}
	r->in_cb--;
	cb_leave();
	return rc;
}

static void op_fd_add(void)
{
	struct fdslot *s = &fds[rn(nfds)];
	struct fdreg *r;
	int rc;
	if (s->reg) {
		if (!(flags & F_DUPADD) || rn(4)) {
			return;
		}
		r = calloc(1, sizeof(*r));
		r->slot = (int)(s - fds);
		r->fd = s->rfd;
		rc = qb_loop_poll_add(L, rprio(), s->rfd, POLLIN, r, fd_fns[rn(2)]);
		nops++;
		TR("poll_add dup fd %d -> %d", s->rfd, rc);
		if (rc == 0) {
			FAIL("duplicate poll_add of fd %d accepted", s->rfd);
		}
		reg_retire(r);
		return;
	}
	r = calloc(1, sizeof(*r));
	r->slot = (int)(s - fds);
	r->fd = s->rfd;
	r->fnsel = rn(2);
	r->events = POLLIN;
	rc = qb_loop_poll_add(L, rprio(), s->rfd, r->events, r, fd_fns[r->fnsel]);
	nops++;
	TR("poll_add fd %d slot %d -> %d", s->rfd, r->slot, rc);
	if (rc != 0) {
		FAIL("poll_add fd %d rc=%d", s->rfd, rc);
		free(r);
		return;
	}
	r->registered = 1;
	s->reg = r;
}

static void op_fd_del(void)
{
	struct fdslot *s = &fds[rn(nfds)];
	int rc = qb_loop_poll_del(L, s->rfd);
	nops++;
	TR("poll_del fd %d (registered=%d) -> %d", s->rfd, s->reg != NULL, rc);
	if (s->reg) {
		if (rc != 0) {
			FAIL("poll_del of registered fd %d rc=%d", s->rfd, rc);
		}
		reg_retire(s->reg);
		s->reg = NULL;
	} else if ((flags & F_EARLYCLOSE) && depth > 0) {
		/* the closed-but-still-dispatching entry may legitimately match */
	} else if (rc != -EBADF && rc != 0) {
		/* 0 is what the library answers for an entry it still remembers as deleted */
		FAIL("poll_del of unregistered fd %d rc=%d", s->rfd, rc);
	}
}

static void op_fd_mod(void)
{
	struct fdslot *s = &fds[rn(nfds)];
	struct fdreg *r;
	int rc;
	int ev = rn(3) ? POLLIN : (POLLIN | POLLPRI);
	r = calloc(1, sizeof(*r));
	r->slot = (int)(s - fds);
	r->fd = s->rfd;
	r->fnsel = rn(2);
	r->events = ev;
	rc = qb_loop_poll_mod(L, rprio(), s->rfd, ev, r, fd_fns[r->fnsel]);
	nops++;
	TR("poll_mod fd %d (registered=%d) -> %d", s->rfd, s->reg != NULL, rc);
	if (s->reg) {
		if (rc != 0) {
			FAIL("poll_mod of registered fd %d rc=%d", s->rfd, rc);
			free(r);
			return;
		}
		r->registered = 1;
		r->calls = s->reg->calls;
		s->reg->replaced_by = r;
		reg_retire(s->reg);
		s->reg = r;
	} else {
		if (rc == 0 && !((flags & F_EARLYCLOSE) && depth > 0)) {
			FAIL("poll_mod of unregistered fd %d returned 0", s->rfd);
		}
		free(r);
	}
}

static void op_fd_write(void)
{
	struct fdslot *s = &fds[rn(nfds)];
	if (s->pending < 32 && write(s->wfd, "x", 1) == 1) {
		s->pending++;
	}
	nops++;
}

static void op_fd_recycle(void)
{
	struct fdslot *s = &fds[rn(nfds)];
	if (s->reg) {
		int rc = qb_loop_poll_del(L, s->rfd);
		nops++;
		TR("poll_del (recycle) fd %d -> %d", s->rfd, rc);
		if (rc != 0) {
			FAIL("poll_del of registered fd %d rc=%d", s->rfd, rc);
		}
		reg_retire(s->reg);
		s->reg = NULL;
	}
	slot_recycle(s);
	if (rn(2)) {
		/* re-add the (likely same-numbered) descriptor right away */
		struct fdreg *r = calloc(1, sizeof(*r));
		int rc;
		r->slot = (int)(s - fds);
		r->fd = s->rfd;
		r->fnsel = rn(2);
		r->events = POLLIN;
		rc = qb_loop_poll_add(L, rprio(), s->rfd, POLLIN, r, fd_fns[r->fnsel]);
		nops++;
		TR("poll_add (recycled) fd %d -> %d", s->rfd, rc);
		if (rc != 0) {
			FAIL("poll_add of recycled fd %d rc=%d", s->rfd, rc);
			free(r);
		} else {
			r->registered = 1;
			s->reg = r;
		}
	}
}

/* --------------------------------------------------------------- signals */
struct sreg {
	int id;
	int sig;
	int prio;
	int registered;
	int calls;
	int in_cb;
	int fnsel;
	qb_loop_signal_handle h;
};
#define MAXS 8
static struct sreg *sregs[MAXS];
static int nsregs;
static int sig_ids;
static int sigs[4];
static int raised_total;
static int sigpipe_r = -1;
static int sigpipe_bytes(void)
{
	int n = 0;
	ioctl(sigpipe_r, FIONREAD, &n);
	return n;
}

static int32_t sig_cb_common(int32_t sig, void *data, int fnsel);
static int32_t sig_cb0(int32_t sig, void *data) { return sig_cb_common(sig, data, 0); }
static int32_t sig_cb1(int32_t sig, void *data) { return sig_cb_common(sig, data, 1); }
static qb_loop_signal_dispatch_fn sig_fns[2] = { sig_cb0, sig_cb1 };

static void sreg_forget(struct sreg *r)
{
	int i;
	r->registered = 0;
	for (i = 0; i < nsregs; i++) {
		if (sregs[i] == r) {
			sregs[i] = sregs[--nsregs];
			break;
		}
	}
	/* never freed: callbacks after delete must be detectable */
}

static int32_t sig_cb_common(int32_t sig, void *data, int fnsel)
{
	struct sreg *r = data;
	int rc = 0;

	cb_enter("signal");
	TR("signal cb sig=%d reg %d", sig, r->id);
	if (!r->registered) {
		FAIL("signal callback (sig %d, reg %d) invoked after its registration was deleted", sig, r->id);
		cb_leave();
		return 0;
	}
	(void)fnsel;
	r->calls++;
	r->in_cb++;
	if (!drain_mode) {
		random_ops(rn(4));
		if (r->registered && rn(10) == 0) {
			TR("signal reg %d returns -1", r->id);
			sreg_forget(r);
			rc = -1;
		}
	}
	r->in_cb--;
	cb_leave();
	return rc;
}

static void op_sig_add(void)
{
	struct sreg *r;
	int rc;
	if (nsregs >= ((flags & F_SMALL) ? 3 : MAXS)) {
		return;
	}
	r = calloc(1, sizeof(*r));
	r->id = ++sig_ids;
	r->sig = sigs[rn(4)];
	r->prio = rprio();
	r->fnsel = rn(2);
	rc = qb_loop_signal_add(L, r->prio, r->sig, r, sig_fns[r->fnsel], &r->h);
	nops++;
	TR("signal_add reg %d sig %d prio %d -> %d", r->id, r->sig, r->prio, rc);
	if (rc != 0) {
		FAIL("signal_add rc=%d", rc);
		free(r);
		return;
	}
	r->registered = 1;
	sregs[nsregs++] = r;
}

static void op_sig_del(void)
{
	struct sreg *r;
	int rc;
	if (nsregs == 0) {
		return;
	}
	r = sregs[rn(nsregs)];
	rc = qb_loop_signal_del(L, r->h);
	nops++;
	TR("signal_del reg %d -> %d", r->id, rc);
	if (rc != 0) {
		FAIL("signal_del rc=%d", rc);
	}
	sreg_forget(r);
}

static void op_sig_mod(void)
{
	struct sreg *r;
	int rc;
	int p, s;
	if (nsregs == 0) {
		return;
	}
	r = sregs[rn(nsregs)];
	p = (flags & F_SIGMODP) ? (int)rprio() : r->prio;
	s = rn(3) ? r->sig : sigs[rn(4)];
	r->fnsel = rn(2);
	rc = qb_loop_signal_mod(L, p, s, r, sig_fns[r->fnsel], r->h);
	nops++;
	TR("signal_mod reg %d sig %d->%d prio %d->%d -> %d", r->id, r->sig, s, r->prio, p, rc);
	if (rc != 0) {
		FAIL("signal_mod rc=%d", rc);
		return;
	}
	r->prio = p;
	r->sig = s;
}

static void op_sig_raise(void)
{
	int i;
	int s = sigs[rn(4)];
	/* only raise a signal that has a handler installed, default action kills */
	for (i = 0; i < nsregs; i++) {
		if (sregs[i]->sig == s) {
			TR("raise %d", s);
			raise(s);
			raised_total++;
			nops++;
			return;
		}
	}
}

/* ------------------------------------------------------------- dispatcher */
static void random_op(void)
{
	uint32_t k = rn(100);
	if (depth > 0 && (flags & F_STOPS) && rn(12) == 0) {
		TR("stop from callback");
		qb_loop_stop(L);
		stop_called = 1;
		nops++;
		return;
	}
	if (k < 14) op_job_add(0);
	else if (k < 22) op_job_del();
	else if (k < 36) op_tmr_add(0);
	else if (k < 46) op_tmr_del();
	else if (k < 54) op_fd_add();
	else if (k < 60) op_fd_del();
	else if (k < 65) op_fd_mod();
	else if (k < 80) op_fd_write();
	else if (k < 84) op_fd_recycle();
	else if (k < 88) op_sig_add();
	else if (k < 91) op_sig_del();
	else if (k < 94) op_sig_mod();
	else op_sig_raise();
}

static void random_ops(int n)
{
	if (stop_called) {
		/* keep "no callback after stop" checkable: still do operations */
	}
	if (depth > 3) {
		return;
	}
	while (n-- > 0) {
		random_op();
	}
}

#ifdef INTROSPECT
static int internal_warned;
static void check_internal(void)
{
	int p;
	for (p = 0; p < 3; p++) {
		int len = qb_list_length(&L->level[p].job_head);
		if (len != L->level[p].todo && !internal_warned) {
			fprintf(stderr, "note(internal, seed=%llu op=%llu): level %d todo=%d but %d queued\n",
				(unsigned long long)seed_in, (unsigned long long)nops, p, L->level[p].todo, len);
			internal_warned = 1;
		}
	}
}
#else
static void check_internal(void) {}
#endif

static void run_once(void)
{
	/* guarantee that run returns: a stop timer, sometimes also a stop job.
	 * A timer is always armed, which also keeps the loop from sleeping
	 * forever on work left queued by the previous run (see finding 1). */
	run_gen++;
	op_tmr_add(1);
	if (rn(3) == 0) {
		op_job_add(1);
	}
	in_run = 1;
	stop_called = 0;
	qb_loop_run(L);
	in_run = 0;
	if (!stop_called) {
		FAIL("qb_loop_run returned without stop");
	}
	stop_called = 0;
	check_internal();
}

static int work_pending(void)
{
	int i;
	if (njobs > 0) {
		return 1;
	}
	for (i = 0; i < ntmrs; i++) {
		if (!tmrs[i]->is_long) {
			return 1;
		}
	}
	for (i = 0; i < nfds; i++) {
		if (fds[i].reg && fds[i].pending > 0) {
			return 1;
		}
	}
	return 0;
}

static void drain(void)
{
	int i, n, k;
	int before[MAXS];

	drain_mode = 1;
	/* let everything queued run, incl. signals already in the pipe */
	k = 0;
	for (n = 0; n < 1000; n++) {
		run_once();
		if (!work_pending() && sigpipe_bytes() == 0) {
			if (++k >= 6) {
				break;
			}
		}
	}
	if (sigpipe_bytes() != 0) {
		FAIL("liveness: signal pipe not drained");
	}
	if (work_pending()) {
		for (i = 0; i < njobs; i++) {
			FAIL("liveness: job %d (prio %d) never ran", jobs[i]->id, jobs[i]->prio);
		}
		for (i = 0; i < ntmrs; i++) {
			if (!tmrs[i]->is_long) {
				FAIL("liveness: timer %d (dur %llu) never fired", tmrs[i]->id, (unsigned long long)tmrs[i]->dur);
			}
		}
		for (i = 0; i < nfds; i++) {
			if (fds[i].reg && fds[i].pending > 0) {
				FAIL("liveness: registered fd %d readable but callback not called", fds[i].rfd);
			}
		}
	}
	/* exact signal accounting with a stable registration set */
	if (nsregs > 0) {
		int s = sregs[rn(nsregs)]->sig;
		k = 1 + rn(5);
		for (i = 0; i < nsregs; i++) {
			before[i] = sregs[i]->calls;
		}
		for (i = 0; i < k; i++) {
			raise(s);
			nops++;
		}
		for (n = 0; n < 6 + 3 * k; n++) {
			run_once();
		}
		for (i = 0; i < nsregs; i++) {
			int got = sregs[i]->calls - before[i];
			int want = (sregs[i]->sig == s) ? k : 0;
			if (got != want) {
				FAIL("signal %d raised %d times: handler reg %d (sig %d) called %d times",
				     s, k, sregs[i]->id, sregs[i]->sig, got);
			}
		}
	}
	drain_mode = 0;
}

static int32_t spin_cb(int32_t fd, int32_t revents, void *data)
{
	return 0;
}

int main(int argc, char **argv)
{
	uint64_t rounds;
	uint64_t r;
	int i;
	struct itimerval wd = { {0, 0}, {600, 0} };

	seed_in = argc > 1 ? strtoull(argv[1], NULL, 0) : 1;
	rounds = argc > 2 ? strtoull(argv[2], NULL, 0) : 2000;
	flags = argc > 3 ? strtoul(argv[3], NULL, 0) : 0;
	trace = getenv("FUZZ_TRACE") != NULL;
	rs = seed_in * 0x9E3779B97F4A7C15ULL + 0x1234567;
	if (rs == 0) rs = 1;
	for (i = 0; i < 8; i++) rnd();

	setitimer(ITIMER_REAL, &wd, NULL);	/* watchdog: SIGALRM kills on hang */

	sigs[0] = SIGUSR1;
	sigs[1] = SIGUSR2;
	sigs[2] = SIGRTMIN + 1;
	sigs[3] = SIGRTMIN + 2;

	{
		struct stat st;
		int probe = dup(0);
		close(probe);
		L = qb_loop_create();
		if (L == NULL) { fprintf(stderr, "loop create failed\n"); return 2; }
		sigpipe_r = probe + 1;
		if (fstat(sigpipe_r, &st) != 0 || !S_ISFIFO(st.st_mode)) {
			fprintf(stderr, "cannot locate the signal pipe\n");
			return 2;
		}
	}

	nfds = (flags & F_SMALL) ? 3 : 4 + rn(MAXF - 4);
	for (i = 0; i < nfds; i++) {
		slot_open(&fds[i]);
	}

	if (flags & F_SPIN) {
		int sp[2];
		if (pipe2(sp, O_NONBLOCK | O_CLOEXEC) != 0 || write(sp[1], "s", 1) != 1 ||
		    qb_loop_poll_add(L, QB_LOOP_MED, sp[0], POLLIN, NULL, spin_cb) != 0) {
			fprintf(stderr, "spinner setup failed\n");
			return 2;
		}
	}
	for (r = 0; r < rounds; r++) {
		random_ops(rn(12));
		run_once();
		if (rn(40) == 0) {
			drain();
		}
	}
	drain();

	/* tear down: delete everything, check nothing fires afterwards */
	drain_mode = 1;
	while (ntmrs > 0) {
		struct tmr *t = tmrs[0];
		int rc = qb_loop_timer_del(L, t->h);
		if (rc != 0) FAIL("final timer_del %d rc=%d", t->id, rc);
		t->state = S_DELETED;
		tmr_forget(t);
	}
	for (i = 0; i < nfds; i++) {
		if (fds[i].reg) {
			int rc = qb_loop_poll_del(L, fds[i].rfd);
			if (rc != 0) FAIL("final poll_del rc=%d", rc);
			reg_retire(fds[i].reg);
			fds[i].reg = NULL;
		}
		(void)!write(fds[i].wfd, "y", 1);
	}
	while (nsregs > 0) {
		struct sreg *s = sregs[0];
		int rc = qb_loop_signal_del(L, s->h);
		if (rc != 0) FAIL("final signal_del rc=%d", rc);
		sreg_forget(s);
	}
	for (i = 0; i < 5; i++) {
		run_once();
	}
	qb_loop_destroy(L);
	printf("seed %llu flags %u rounds %llu: %llu ops, %d jobs, %d timers, %d sig regs, %d raises, %d violations\n",
	       (unsigned long long)seed_in, flags, (unsigned long long)rounds,
	       (unsigned long long)nops, job_ids, tmr_ids, sig_ids, raised_total, failures);
	return failures ? 1 : 0;
}
