#!/bin/sh
# usage: build.sh [tree]   (default /repo) -> ./fuzz (ASan+UBSan), ./fuzz_int (same + internal invariants)
T=${1:-/repo}
D=$(cd "$(dirname "$0")" && pwd)
SRCS="$T/lib/loop.c $T/lib/loop_job.c $T/lib/loop_timerlist.c $T/lib/loop_poll.c $T/lib/loop_poll_epoll.c $T/lib/array.c"
CF="-g -O1 -fno-omit-frame-pointer -fsanitize=address,undefined -fno-sanitize-recover=undefined -DHAVE_CONFIG_H -I$T/include -I$T/include/qb -I$T/lib -w"
set -e
gcc $CF -o "$D/fuzz" "$D/fuzz.c" $SRCS -L$T/lib/.libs -lqb -lpthread
gcc $CF -DINTROSPECT -o "$D/fuzz_int" "$D/fuzz.c" $SRCS -L$T/lib/.libs -lqb -lpthread
echo "built; run: LD_LIBRARY_PATH=$T/lib/.libs ASAN_OPTIONS=detect_leaks=0 $D/fuzz <seed> <rounds> <flags>"
