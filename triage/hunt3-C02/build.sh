#!/bin/sh
# usage: build.sh [tree]   (default /repo) -> ./fuzz
T=${1:-/repo}
cd "$(dirname "$0")"
SRC="$T/lib/ipcc.c $T/lib/ipcs.c $T/lib/ipc_shm.c $T/lib/ipc_socket.c $T/lib/ipc_setup.c $T/lib/ringbuffer.c $T/lib/ringbuffer_helper.c $T/lib/unix.c"
gcc -g -O1 -fsanitize=address,undefined -fno-sanitize=alignment -fno-omit-frame-pointer -DHAVE_CONFIG_H \
  -I$T/include -I$T/include/qb -I$T/lib -o fuzz fuzz.c $SRC -L$T/lib/.libs -lqb -lpthread
gcc -g -O1 -fsanitize=address,undefined -fno-sanitize=alignment -fno-omit-frame-pointer -DHAVE_CONFIG_H \
  -I$T/include -I$T/include/qb -I$T/lib -o stress stress.c $SRC -L$T/lib/.libs -lqb -lpthread
