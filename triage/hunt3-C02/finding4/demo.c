/*
 * finding4: shared memory transport, slow server.  qb_ipcc_send() is a
 * non-blocking call that answers -EAGAIN when the request cannot be queued.
 * But when the request ring still has room and the notification socket (one
 * byte per request) is full, it neither accepts nor refuses: it spins in
 *     do { res2 = qb_ipc_us_send(&c->setup, msg_ptr, 1); } while (res2 == -EAGAIN);
 * (lib/ipcc.c:276-278) until the server reads - for ever if the server is
 * busy, or has switched request processing off (QB_IPCS_RATE_OFF_2).
 *
 * Single process, single thread, deterministic: the server simply does not
 * get a turn while the client sends (= a server that is slow).
 * exit 0 = every send returned (accepted or refused) and all accepted
 * requests were delivered afterwards, 1 = a send call did not return.
 */
#include <signal.h>
#include "os_base.h"
#include <poll.h>
#include <qb/qbdefs.h>
#include <qb/qbipcc.h>
#include <qb/qbipcs.h>
#include <qb/qbloop.h>
struct pe { int used, fd, events; void *data; qb_ipcs_dispatch_fn_t fn; };
static struct pe pes[32];
static int32_t my_add(enum qb_loop_priority p, int32_t fd, int32_t ev, void *d, qb_ipcs_dispatch_fn_t fn){int i;for(i=0;i<32;i++)if(!pes[i].used){pes[i]=(struct pe){1,fd,ev,d,fn};return 0;}return -ENOMEM;}
static int32_t my_mod(enum qb_loop_priority p, int32_t fd, int32_t ev, void *d, qb_ipcs_dispatch_fn_t fn){int i;for(i=0;i<32;i++)if(pes[i].used&&pes[i].fd==fd){pes[i].events=ev;return 0;}return -ENOENT;}
static int32_t my_del(int32_t fd){int i;for(i=0;i<32;i++)if(pes[i].used&&pes[i].fd==fd){pes[i].used=0;return 0;}return -ENOENT;}
static int32_t my_job(enum qb_loop_priority p, void *d, qb_loop_job_dispatch_fn fn){return 0;}
static void step(void){struct pollfd pf[32];int ix[32],n=0,i;for(i=0;i<32;i++)if(pes[i].used){pf[n].fd=pes[i].fd;pf[n].events=pes[i].events;pf[n].revents=0;ix[n++]=i;}if(poll(pf,n,0)<=0)return;for(i=0;i<n;i++)if(pf[i].revents&&pes[ix[i]].used){struct pe*e=&pes[ix[i]];if(e->fn(e->fd,pf[i].revents,e->data)<0)e->used=0;}}
static qb_ipcs_connection_t *sc; static int got; static volatile int cur;
static void on_alarm(int sig){ char b[160]; int n=snprintf(b,sizeof b,"qb_ipcc_send() #%d (after %d accepted sends, none refused) has not returned for 5 s: it spins on the full notification socket\nRESULT: VIOLATED\n",cur,cur); if(write(1,b,n)){} _exit(1);}
static int32_t acc(qb_ipcs_connection_t *c, uid_t u, gid_t g){return 0;}
static void created(qb_ipcs_connection_t *c){ sc=c; }
static int32_t msg(qb_ipcs_connection_t *c, void *d, size_t s){got++;return 0;}
static int32_t closed(qb_ipcs_connection_t *c){return 0;}
static void destroyed(qb_ipcs_connection_t *c){}
int main(int argc,char**argv){
 setvbuf(stdout,NULL,_IONBF,0); int shm=!strcmp(argv[1],"shm");
 char name[64]; snprintf(name,sizeof name,"h3c02f4-%d",getpid());
 struct qb_ipcs_service_handlers sh={acc,created,msg,closed,destroyed};
 struct qb_ipcs_poll_handlers ph={my_job,my_add,my_mod,my_del};
 qb_ipcs_service_t*s=qb_ipcs_create(name,0,shm?QB_IPC_SHM:QB_IPC_SOCKET,&sh); qb_ipcs_poll_handlers_set(s,&ph); if(qb_ipcs_run(s)){perror("run");return 2;}
 int cfd; qb_ipcc_connection_t*c=qb_ipcc_connect_async(name,0,&cfd); int i; for(i=0;i<20&&!sc;i++)step();
 if(qb_ipcc_connect_continue(c)){perror("cont");return 2;}
 int acc_n=0; signal(SIGALRM,on_alarm);
 for(i=0;i<5000;i++){ struct qb_ipc_request_header h={.id=10+i,.size=sizeof h}; ssize_t r; cur=i; alarm(5); r=qb_ipcc_send(c,&h,sizeof h); alarm(0);
   if(r==sizeof h) acc_n++; else { printf("send #%d refused with %zd after %d accepted sends\n",i,r,acc_n); break; } }
 for(i=0;i<100000&&got<acc_n;i++)step();
 printf("%s: %d accepted, %d delivered\n",argv[1],acc_n,got);
 qb_ipcc_disconnect(c); for(i=0;i<5;i++)step();
 qb_ipcs_destroy(s);
 printf(got==acc_n?"RESULT: held\n":"RESULT: VIOLATED\n");
 return got==acc_n?0:1; }
