/*
 * Model-based randomized tester for libqb IPC (property C02):
 * requests / responses / events arrive exactly once, in order, intact;
 * refused sends have no effect; the client's descriptor is readable while
 * events are queued.
 *
 * Single process, single thread: the server side runs on a hand made poll
 * table (the qb_ipcs poll handlers), so that every interleaving of client
 * and server steps is chosen by the PRNG and is reproducible from the seed.
 *
 * usage: fuzz <seed> <nops> <shm|sock> [maxmsg] [sndbuf_shrink] [verbose]
 */
#include "os_base.h"
#include <poll.h>
#include <sys/socket.h>
#include <qb/qbdefs.h>
#include <qb/qbipcc.h>
#include <qb/qbipcs.h>
#include <qb/qbloop.h>
#include <qb/qblog.h>

#define RESP_HDR sizeof(struct qb_ipc_response_header)
#define REQ_HDR sizeof(struct qb_ipc_request_header)

static int verbose = 0;
static unsigned long long rng_s;
static unsigned rnd(void)
{
	rng_s = rng_s * 6364136223846793005ULL + 1442695040888963407ULL;
	return (unsigned)(rng_s >> 33);
}
static unsigned rr(unsigned lo, unsigned hi) { return lo + rnd() % (hi - lo + 1); }

static long violations = 0;
static long opno = 0;
#define VIOL(...) do { violations++; printf("VIOLATION(op %ld): ", opno); printf(__VA_ARGS__); printf("\n"); fflush(stdout); if (violations > 20) { printf("too many violations\n"); exit(1);} } while (0)
#define LOG(...) do { if (verbose) { printf("[%ld] ", opno); printf(__VA_ARGS__); printf("\n"); } } while (0)

/* ---------------- poll table ---------------- */
struct pe {
	int used, fd, events;
	void *data;
	qb_ipcs_dispatch_fn_t fn;
	unsigned gen;
};
#define MAXPE 32
static struct pe pes[MAXPE];
static unsigned pe_gen = 1;
static int srv_conn_fd = -1;	/* last fd added for a connection */

static int32_t my_add(enum qb_loop_priority p, int32_t fd, int32_t ev, void *data, qb_ipcs_dispatch_fn_t fn)
{
	int i;
	for (i = 0; i < MAXPE; i++) if (pes[i].used && pes[i].fd == fd) return -EEXIST;
	for (i = 0; i < MAXPE; i++) {
		if (!pes[i].used) {
			pes[i].used = 1; pes[i].fd = fd; pes[i].events = ev;
			pes[i].data = data; pes[i].fn = fn; pes[i].gen = pe_gen++;
			return 0;
		}
	}
	return -ENOMEM;
}
static int32_t my_mod(enum qb_loop_priority p, int32_t fd, int32_t ev, void *data, qb_ipcs_dispatch_fn_t fn)
{
	int i;
	for (i = 0; i < MAXPE; i++) if (pes[i].used && pes[i].fd == fd) {
		pes[i].events = ev; pes[i].data = data; pes[i].fn = fn;
		return 0;
	}
	return -ENOENT;
}
static int32_t my_del(int32_t fd)
{
	int i;
	for (i = 0; i < MAXPE; i++) if (pes[i].used && pes[i].fd == fd) {
		pes[i].used = 0;
		return 0;
	}
	return -ENOENT;
}
struct job { void *data; qb_loop_job_dispatch_fn fn; };
static struct job jobs[64];
static int njobs = 0;
static int32_t my_job_add(enum qb_loop_priority p, void *data, qb_loop_job_dispatch_fn fn)
{
	if (njobs >= 64) return -ENOMEM;
	jobs[njobs].data = data; jobs[njobs].fn = fn; njobs++;
	return 0;
}

static int server_step(void)
{
	struct pollfd pfd[MAXPE];
	unsigned gens[MAXPE];
	int idx[MAXPE];
	int n = 0, i, did = 0;

	while (njobs > 0) {
		struct job j = jobs[0];
		memmove(&jobs[0], &jobs[1], sizeof(struct job) * (njobs - 1));
		njobs--;
		j.fn(j.data);
		did++;
	}
	for (i = 0; i < MAXPE; i++) if (pes[i].used) {
		pfd[n].fd = pes[i].fd; pfd[n].events = pes[i].events; pfd[n].revents = 0;
		gens[n] = pes[i].gen; idx[n] = i; n++;
	}
	if (n == 0) return 0;
	if (poll(pfd, n, 0) <= 0) return did;
	for (i = 0; i < n; i++) {
		struct pe *e = &pes[idx[i]];
		if (!pfd[i].revents) continue;
		if (!e->used || e->gen != gens[i]) continue;
		int32_t r = e->fn(e->fd, pfd[i].revents, e->data);
		did++;
		if (r < 0 && e->used && e->gen == gens[i]) {
			e->used = 0;
		}
	}
	return did;
}

/* ---------------- model ---------------- */
struct mmsg { size_t len; unsigned char *b; struct mmsg *next; };
struct mq { struct mmsg *head, *tail; int n; };
static struct mq reqQ, respQ, evQ;

static void mq_push(struct mq *q, const void *b, size_t len)
{
	struct mmsg *m = malloc(sizeof(*m));
	m->len = len; m->b = malloc(len ? len : 1); memcpy(m->b, b, len); m->next = NULL;
	if (q->tail) q->tail->next = m; else q->head = m;
	q->tail = m; q->n++;
}
static void mq_pop(struct mq *q)
{
	struct mmsg *m = q->head;
	q->head = m->next; if (!q->head) q->tail = NULL; q->n--;
	free(m->b); free(m);
}

/* ---------------- globals ---------------- */
static qb_ipcs_service_t *svc;
static qb_ipcs_connection_t *sconn;
static qb_ipcc_connection_t *cc;
static size_t maxmsg;
static int is_shm;
static unsigned char *sbuf, *rbuf;
static unsigned seq_req = 1, seq_resp = 1, seq_ev = 1;
static int conn_dead = 0;
static int cur_rl = QB_IPCS_RATE_NORMAL;
static long stat_req_ok, stat_req_fail, stat_req_dlv, stat_resp_ok, stat_resp_fail, stat_resp_dlv, stat_ev_ok, stat_ev_fail, stat_ev_dlv, stat_unreadable, stat_small;
static int in_cb_actions = 1;

static size_t pick_size(size_t hdr)
{
	unsigned k = rnd() % 100;
	if (k < 25) return hdr;
	if (k < 45) return rr(hdr, hdr + 16);
	if (k < 70) return rr(hdr, 300);
	if (k < 80) return rr(hdr, 5000);
	if (k < 86) return rr(hdr, maxmsg);
	if (k < 90) return maxmsg;
	if (k < 93) return maxmsg - rr(0, 16);
	if (k < 95) return maxmsg + rr(1, 16);	/* over the limit */
	if (k < 97) return rr(4090, 4100);
	return rr(hdr, 64);
}

static void fill(unsigned char *b, size_t len, size_t hdr, unsigned seq, int kind)
{
	size_t i;
	/* id, size at the same place in request and response headers */
	for (i = 0; i < len; i++) b[i] = (unsigned char)(seq * 131 + i * 7 + kind);
	if (len >= REQ_HDR) {
		struct qb_ipc_request_header *h = (void *)b;
		memset(b, 0, hdr < len ? hdr : len);
		h->id = 1000 + (seq & 0xfffff);
		h->size = len;
		if (hdr == RESP_HDR && len >= RESP_HDR) ((struct qb_ipc_response_header *)b)->error = seq;
	}
}

static void server_send_response(size_t len, int v);
static void server_send_event(size_t len, int v);
static void set_rate(int rl);

/* ---------------- server callbacks ---------------- */
static int32_t cb_accept(qb_ipcs_connection_t *c, uid_t u, gid_t g) { return 0; }
static void cb_created(qb_ipcs_connection_t *c) { sconn = c; }
static int32_t cb_closed(qb_ipcs_connection_t *c) { conn_dead = 1; return 0; }
static void cb_destroyed(qb_ipcs_connection_t *c) { sconn = NULL; conn_dead = 1; }
static int32_t cb_msg(qb_ipcs_connection_t *c, void *data, size_t size)
{
	struct mmsg *m = reqQ.head;
	stat_req_dlv++;
	if (!m) {
		VIOL("server got a request (size %zu) but model queue is empty (duplicate or refused send delivered)", size);
		return 0;
	}
	if (m->len != size) {
		VIOL("request length mismatch: got %zu expected %zu (id %d)", size, m->len, ((struct qb_ipc_request_header *)data)->id);
	} else if (memcmp(m->b, data, size) != 0) {
		VIOL("request bytes mismatch (len %zu)", size);
	}
	LOG("  server got req len %zu", size);
	mq_pop(&reqQ);
	if (in_cb_actions) {
		unsigned k = rnd() % 100;
		if (k < 40) server_send_response(pick_size(RESP_HDR), rnd() % 3 == 0);
		else if (k < 55) server_send_event(pick_size(RESP_HDR), rnd() % 3 == 0);
		else if (k < 62) set_rate(rr(0, 5) == 5 ? QB_IPCS_RATE_OFF_2 : (int)rr(0, 4));
		else if (k < 66) return -1;	/* back off */
	}
	return 0;
}

static void set_rate(int rl)
{
	LOG("  rate limit -> %d", rl);
	cur_rl = rl;
	qb_ipcs_request_rate_limit(svc, rl);
}

static ssize_t do_iov(int which, unsigned char *b, size_t len)
{
	struct iovec iov[5];
	int n = rr(1, 5), i;
	size_t off = 0;
	for (i = 0; i < n; i++) {
		size_t l = (i == n - 1) ? len - off : (len - off ? rnd() % (len - off + 1) : 0);
		if (rnd() % 4 == 0 && i != n - 1) l = 0;
		iov[i].iov_base = b + off; iov[i].iov_len = l; off += l;
	}
	if (which == 0) return qb_ipcc_sendv(cc, iov, n);
	if (which == 1) return qb_ipcs_response_sendv(sconn, iov, n);
	return qb_ipcs_event_sendv(sconn, iov, n);
}

static void server_send_response(size_t len, int v)
{
	ssize_t r;
	if (!sconn || conn_dead) return;
	fill(sbuf, len, RESP_HDR, seq_resp, 2);
	r = v ? do_iov(1, sbuf, len) : qb_ipcs_response_send(sconn, sbuf, len);
	LOG("  server resp%s len %zu -> %zd", v ? "v" : "", len, r);
	if (r == (ssize_t)len) {
		if (len > maxmsg) VIOL("response of %zu > max %zu accepted", len, maxmsg);
		mq_push(&respQ, sbuf, len); seq_resp++; stat_resp_ok++;
	} else if (r >= 0) {
		VIOL("response send returned %zd for len %zu", r, len);
	} else {
		stat_resp_fail++;
		if (len > maxmsg && r != -EMSGSIZE) VIOL("oversize response: %zd", r);
		if (len <= maxmsg && r != -EAGAIN && r != -EMSGSIZE && r != -ENOBUFS) VIOL("response send error %zd (len %zu)", r, len);
	}
}

static void server_send_event(size_t len, int v)
{
	ssize_t r;
	if (!sconn || conn_dead) return;
	fill(sbuf, len, RESP_HDR, seq_ev, 3);
	r = v ? do_iov(2, sbuf, len) : qb_ipcs_event_send(sconn, sbuf, len);
	LOG("  server event%s len %zu -> %zd", v ? "v" : "", len, r);
	if (r == (ssize_t)len) {
		if (len > maxmsg) VIOL("event of %zu > max %zu accepted", len, maxmsg);
		mq_push(&evQ, sbuf, len); seq_ev++; stat_ev_ok++;
	} else if (r >= 0) {
		VIOL("event send returned %zd for len %zu", r, len);
	} else {
		stat_ev_fail++;
		if (len > maxmsg && r != -EMSGSIZE) VIOL("oversize event: %zd", r);
		if (len <= maxmsg && r != -EAGAIN && r != -EMSGSIZE && r != -ENOBUFS) VIOL("event send error %zd (len %zu)", r, len);
	}
}

static int shm_req_cap = 150;

static void client_send(size_t len, int v)
{
	ssize_t r;
	/* in one thread a full notification socket would spin for ever */
	if (is_shm && reqQ.n >= shm_req_cap) return;
	fill(sbuf, len, REQ_HDR, seq_req, 1);
	r = v ? do_iov(0, sbuf, len) : qb_ipcc_send(cc, sbuf, len);
	LOG("client send%s len %zu -> %zd", v ? "v" : "", len, r);
	if (r == (ssize_t)len) {
		if (len > maxmsg) VIOL("request of %zu > max %zu accepted", len, maxmsg);
		mq_push(&reqQ, sbuf, len); seq_req++; stat_req_ok++;
	} else if (r >= 0) {
		VIOL("request send returned %zd for len %zu", r, len);
	} else {
		stat_req_fail++;
		if (len > maxmsg && r != -EMSGSIZE) VIOL("oversize request: %zd", r);
		if (len <= maxmsg && r != -EAGAIN && r != -EMSGSIZE && r != -ENOBUFS) VIOL("request send error %zd (len %zu)", r, len);
	}
}

static int fd_readable(void)
{
	struct pollfd p;
	int32_t fd = -1;
	qb_ipcc_fd_get(cc, &fd);
	p.fd = fd; p.events = POLLIN; p.revents = 0;
	return poll(&p, 1, 0) == 1 && (p.revents & POLLIN);
}

static void client_recv(int is_ev)
{
	struct mq *q = is_ev ? &evQ : &respQ;
	struct mmsg *m = q->head;
	size_t bl = maxmsg;
	int small = 0;
	ssize_t r;
	if (m && rnd() % 8 == 0 && m->len > 1) { bl = rr(0, m->len - 1); small = 1; }
	else if (rnd() % 10 == 0 && m) bl = m->len;
	if (is_ev && m && !fd_readable()) {
		int k;
		stat_unreadable++;
		/* let the server flush what it owes */
		for (k = 0; k < 3 && !fd_readable(); k++) server_step();
		if (!fd_readable()) VIOL("%d events queued, fd not readable even after server ran", q->n);
	}
	memset(rbuf, 0xEE, bl < 64 ? 64 : bl);
	r = is_ev ? qb_ipcc_event_recv(cc, rbuf, bl, 0) : qb_ipcc_recv(cc, rbuf, bl, 0);
	LOG("client %s buf %zu -> %zd (model n=%d head %zu)", is_ev ? "evrecv" : "recv", bl, r, q->n, m ? m->len : 0);
	if (r >= 0) {
		if (!m) { VIOL("%s returned %zd but model queue empty", is_ev ? "event_recv" : "recv", r); return; }
		if (small) VIOL("%s into %zu byte buffer returned %zd (msg %zu)", is_ev ? "event_recv" : "recv", bl, r, m->len);
		if ((size_t)r != m->len) VIOL("%s length %zd expected %zu", is_ev ? "event_recv" : "recv", r, m->len);
		else if (memcmp(rbuf, m->b, m->len)) VIOL("%s bytes differ (len %zu)", is_ev ? "event_recv" : "recv", m->len);
		mq_pop(q);
		if (is_ev) stat_ev_dlv++; else stat_resp_dlv++;
	} else {
		if (small) {
			stat_small++;
			if (r != -ENOBUFS && r != -EMSGSIZE) VIOL("small buffer recv error %zd", r);
		} else if (m) {
			VIOL("%s failed with %zd while %d queued (head len %zu)", is_ev ? "event_recv" : "recv", r, q->n, m->len);
		} else if (r != -EAGAIN && r != -ETIMEDOUT) {
			VIOL("%s on empty queue: %zd", is_ev ? "event_recv" : "recv", r);
		}
	}
}

static void shrink_sndbuf(int fd, int v)
{
	if (fd >= 0) setsockopt(fd, SOL_SOCKET, SO_SNDBUF, &v, sizeof(v));
}

int main(int argc, char **argv)
{
	char name[64];
	long nops;
	int connfd = -1, i, shrink = 0;
	size_t want;
	struct qb_ipcs_service_handlers sh = { cb_accept, cb_created, cb_msg, cb_closed, cb_destroyed };
	struct qb_ipcs_poll_handlers ph = { my_job_add, my_add, my_mod, my_del };

	if (argc < 4) { fprintf(stderr, "usage: %s seed nops shm|sock [maxmsg] [shrink] [verbose]\n", argv[0]); return 2; }
	rng_s = strtoull(argv[1], NULL, 0) * 2654435761ULL + 12345;
	nops = atol(argv[2]);
	is_shm = !strcmp(argv[3], "shm");
	want = argc > 4 ? strtoul(argv[4], NULL, 0) : 0;
	shrink = argc > 5 ? atoi(argv[5]) : 0;
	verbose = argc > 6 ? atoi(argv[6]) : 0;
	setvbuf(stdout, NULL, _IOLBF, 0);

	snprintf(name, sizeof name, "h3c02-%d-%s", (int)getpid(), argv[1]);
	svc = qb_ipcs_create(name, 0, is_shm ? QB_IPC_SHM : QB_IPC_SOCKET, &sh);
	qb_ipcs_poll_handlers_set(svc, &ph);
	if (getenv("ENFORCE")) qb_ipcs_enforce_buffer_size(svc, strtoul(getenv("ENFORCE"), NULL, 0));
	if (qb_ipcs_run(svc) != 0) { perror("qb_ipcs_run"); return 2; }

	cc = qb_ipcc_connect_async(name, want, &connfd);
	if (!cc) { perror("connect_async"); return 2; }
	for (i = 0; i < 50 && !sconn; i++) server_step();
	if (!sconn) { fprintf(stderr, "server never saw the connection\n"); return 2; }
	if (qb_ipcc_connect_continue(cc) != 0) { perror("connect_continue"); return 2; }
	maxmsg = qb_ipcc_get_buffer_size(cc);
	if ((size_t)qb_ipcs_connection_get_buffer_size(sconn) != maxmsg) { printf("size disagreement\n"); return 1; }
	sbuf = malloc(maxmsg + 64); rbuf = malloc(maxmsg + 64);
	printf("seed %s %s maxmsg %zu shrink %d\n", argv[1], argv[3], maxmsg, shrink);

	if (shrink && is_shm) {
		/* smaller notification socket: fills after a handful of bytes */
		for (i = 0; i < MAXPE; i++) if (pes[i].used && pes[i].data == sconn) shrink_sndbuf(pes[i].fd, shrink);
		{ int32_t fd; qb_ipcc_fd_get(cc, &fd); (void)fd; }
	}

	for (opno = 0; opno < nops && !conn_dead; opno++) {
		unsigned k = rnd() % 100;
		static int phase_len = 0, phase = 0;
		if (phase_len-- <= 0) { phase = rnd() % 6; phase_len = rr(20, 400); }
		/* phases bias the relative speed of both sides */
		if (phase == 1 && k >= 50) k = rnd() % 20;		/* client floods */
		if (phase == 2 && k >= 50) k = 40 + rnd() % 20;	/* server floods events/resp */
		if (phase == 3 && k >= 50) k = 60 + rnd() % 25;	/* client drains */
		if (phase == 4 && k >= 30) k = 20 + rnd() % 10;	/* server runs */

		if (k < 15) client_send(pick_size(REQ_HDR), 0);
		else if (k < 20) client_send(pick_size(REQ_HDR), 1);
		else if (k < 40) { int n = rr(1, 3); while (n--) server_step(); }
		else if (k < 48) server_send_event(pick_size(RESP_HDR), 0);
		else if (k < 52) server_send_event(pick_size(RESP_HDR), 1);
		else if (k < 57) server_send_response(pick_size(RESP_HDR), 0);
		else if (k < 60) server_send_response(pick_size(RESP_HDR), 1);
		else if (k < 73) client_recv(0);
		else if (k < 86) client_recv(1);
		else if (k < 91) set_rate(rr(0, 5) == 5 ? QB_IPCS_RATE_OFF_2 : (int)rr(0, 4));
		else if (k < 93) { qb_ipcc_fc_enable_max_set(cc, rr(1, 2)); }
		else if (k < 97) {
			if (evQ.n > 0 && !fd_readable()) {
				int j;
				stat_unreadable++;
				LOG("events queued %d but fd not readable", evQ.n);
				for (j = 0; j < 3 && !fd_readable(); j++) server_step();
				if (!fd_readable()) VIOL("%d events queued, fd not readable even after server ran", evQ.n);
			}
		} else {
			/* full drain: everything accepted must come out */
			int guard = 0;
			set_rate(QB_IPCS_RATE_NORMAL);
			while (reqQ.n > 0 && guard++ < 100000) {
				if (cur_rl == QB_IPCS_RATE_OFF || cur_rl == QB_IPCS_RATE_OFF_2) set_rate(QB_IPCS_RATE_NORMAL);
				server_step();
				while (respQ.n > 10 - 2 || evQ.n > 10 - 2) { if (respQ.n) client_recv(0); if (evQ.n) client_recv(1); }
			}
			if (reqQ.n) VIOL("%d accepted requests never delivered", reqQ.n);
		}
	}
	if (conn_dead) VIOL("connection died");
	else {
		int guard = 0;
		set_rate(QB_IPCS_RATE_NORMAL);
		in_cb_actions = 0;
		while (reqQ.n > 0 && guard++ < 100000) server_step();
		if (reqQ.n) VIOL("end: %d accepted requests never delivered", reqQ.n);
		guard = 0;
		while ((respQ.n || evQ.n) && guard++ < 1000000 && violations < 20) {
			if (respQ.n) client_recv(0);
			if (evQ.n) client_recv(1);
			server_step();
		}
		if (respQ.n || evQ.n) VIOL("end: %d responses %d events not received", respQ.n, evQ.n);
		/* nothing extra */
		if (qb_ipcc_recv(cc, rbuf, maxmsg, 0) >= 0) VIOL("extra response");
		if (qb_ipcc_event_recv(cc, rbuf, maxmsg, 0) >= 0) VIOL("extra event");
		if (fd_readable()) { server_step(); if (fd_readable() && !conn_dead) VIOL("fd readable with no event queued"); }
	}
	printf("ops %ld: req ok %ld fail %ld dlv %ld | resp ok %ld fail %ld dlv %ld | ev ok %ld fail %ld dlv %ld | unreadable-before-flush %ld smallbuf %ld | violations %ld\n",
	       opno, stat_req_ok, stat_req_fail, stat_req_dlv, stat_resp_ok, stat_resp_fail, stat_resp_dlv,
	       stat_ev_ok, stat_ev_fail, stat_ev_dlv, stat_unreadable, stat_small, violations);
	qb_ipcc_disconnect(cc);
	for (i = 0; i < 5; i++) server_step();
	qb_ipcs_destroy(svc);
	return violations ? 1 : 0;
}
