/*
 * finding2 (scope: borderline, see NOTES.md): requests that qb_ipcc_send()
 * accepted on an established shared-memory connection are thrown away by the
 * server when the client disconnects before the server's loop got round to
 * them.  The same sequence on the unix-socket transport delivers all of them.
 *
 * Single process, single thread, deterministic (hand made poll table).
 * exit 0 = all 3 accepted requests reached msg_process(), 1 = some were lost.
 */
#include "os_base.h"
#include <poll.h>
#include <qb/qbdefs.h>
#include <qb/qbipcc.h>
#include <qb/qbipcs.h>
#include <qb/qbloop.h>
struct pe { int used, fd, events; void *data; qb_ipcs_dispatch_fn_t fn; };
static struct pe pes[32];
static int32_t my_add(enum qb_loop_priority p, int32_t fd, int32_t ev, void *d, qb_ipcs_dispatch_fn_t fn){int i;for(i=0;i<32;i++)if(!pes[i].used){pes[i]=(struct pe){1,fd,ev,d,fn};return 0;}return -ENOMEM;}
static int32_t my_mod(enum qb_loop_priority p, int32_t fd, int32_t ev, void *d, qb_ipcs_dispatch_fn_t fn){int i;for(i=0;i<32;i++)if(pes[i].used&&pes[i].fd==fd){pes[i].events=ev;return 0;}return -ENOENT;}
static int32_t my_del(int32_t fd){int i;for(i=0;i<32;i++)if(pes[i].used&&pes[i].fd==fd){pes[i].used=0;return 0;}return -ENOENT;}
static int32_t my_job(enum qb_loop_priority p, void *d, qb_loop_job_dispatch_fn fn){return 0;}
static void step(void){struct pollfd pf[32];int ix[32],n=0,i;for(i=0;i<32;i++)if(pes[i].used){pf[n].fd=pes[i].fd;pf[n].events=pes[i].events;pf[n].revents=0;ix[n++]=i;}if(poll(pf,n,0)<=0)return;for(i=0;i<n;i++)if(pf[i].revents&&pes[ix[i]].used){struct pe*e=&pes[ix[i]];if(e->fn(e->fd,pf[i].revents,e->data)<0)e->used=0;}}
static qb_ipcs_connection_t *sc; static int got;
static int32_t acc(qb_ipcs_connection_t *c, uid_t u, gid_t g){return 0;}
static void created(qb_ipcs_connection_t *c){ sc=c; }
static int32_t msg(qb_ipcs_connection_t *c, void *d, size_t s){got++;return 0;}
static int32_t closed(qb_ipcs_connection_t *c){return 0;}
static void destroyed(qb_ipcs_connection_t *c){}
int main(int argc,char**argv){
 setvbuf(stdout,NULL,_IONBF,0); int shm=!strcmp(argv[1],"shm");
 char name[64]; snprintf(name,sizeof name,"h3c02f2-%d",getpid());
 struct qb_ipcs_service_handlers sh={acc,created,msg,closed,destroyed};
 struct qb_ipcs_poll_handlers ph={my_job,my_add,my_mod,my_del};
 qb_ipcs_service_t*s=qb_ipcs_create(name,0,shm?QB_IPC_SHM:QB_IPC_SOCKET,&sh); qb_ipcs_poll_handlers_set(s,&ph); if(qb_ipcs_run(s)){perror("run");return 2;}
 int cfd; qb_ipcc_connection_t*c=qb_ipcc_connect_async(name,0,&cfd); int i; for(i=0;i<20&&!sc;i++)step();
 if(qb_ipcc_connect_continue(c)){perror("cont");return 2;}
 for(i=0;i<3;i++){ struct qb_ipc_request_header h={.id=10+i,.size=sizeof h}; printf("send -> %zd\n",qb_ipcc_send(c,&h,sizeof h)); }
 qb_ipcc_disconnect(c);
 for(i=0;i<10;i++)step();
 printf("%s: delivered %d of 3 accepted requests (client disconnected after sending)\n",argv[1],got);
 qb_ipcs_destroy(s);
 printf(got==3?"RESULT: held\n":"RESULT: VIOLATED\n");
 return got==3?0:1; }
