/*
 * finding1: on the unix-socket transport qb_ipcc_recv() / qb_ipcc_event_recv()
 * write 16 bytes into the caller's buffer before they look at its length.
 * A receive into a buffer shorter than 16 bytes (which must simply fail, the
 * message does not fit) overwrites what lies behind the buffer.
 *
 * Single process, single thread, deterministic: the server side is driven by
 * a hand made poll table.
 * exit 0 = nothing written past the buffer, 1 = memory behind it overwritten.
 */
#include "os_base.h"
#include <poll.h>
#include <qb/qbdefs.h>
#include <qb/qbipcc.h>
#include <qb/qbipcs.h>
#include <qb/qbloop.h>

struct pe { int used, fd, events; void *data; qb_ipcs_dispatch_fn_t fn; };
static struct pe pes[32];
static int32_t my_add(enum qb_loop_priority p, int32_t fd, int32_t ev, void *d, qb_ipcs_dispatch_fn_t fn)
{ int i; for (i = 0; i < 32; i++) if (!pes[i].used) { pes[i] = (struct pe){1, fd, ev, d, fn}; return 0; } return -ENOMEM; }
static int32_t my_mod(enum qb_loop_priority p, int32_t fd, int32_t ev, void *d, qb_ipcs_dispatch_fn_t fn)
{ int i; for (i = 0; i < 32; i++) if (pes[i].used && pes[i].fd == fd) { pes[i].events = ev; return 0; } return -ENOENT; }
static int32_t my_del(int32_t fd)
{ int i; for (i = 0; i < 32; i++) if (pes[i].used && pes[i].fd == fd) { pes[i].used = 0; return 0; } return -ENOENT; }
static int32_t my_job(enum qb_loop_priority p, void *d, qb_loop_job_dispatch_fn fn) { return 0; }
static void step(void)
{
	struct pollfd pf[32]; int ix[32], n = 0, i;
	for (i = 0; i < 32; i++) if (pes[i].used) { pf[n].fd = pes[i].fd; pf[n].events = pes[i].events; pf[n].revents = 0; ix[n++] = i; }
	if (poll(pf, n, 0) <= 0) return;
	for (i = 0; i < n; i++) if (pf[i].revents && pes[ix[i]].used) { struct pe *e = &pes[ix[i]]; if (e->fn(e->fd, pf[i].revents, e->data) < 0) e->used = 0; }
}
static qb_ipcs_connection_t *sc;
static int32_t acc(qb_ipcs_connection_t *c, uid_t u, gid_t g) { return 0; }
static void created(qb_ipcs_connection_t *c) { sc = c; }
static int32_t msg(qb_ipcs_connection_t *c, void *d, size_t s) { return 0; }
static int32_t closed(qb_ipcs_connection_t *c) { return 0; }
static void destroyed(qb_ipcs_connection_t *c) { }

struct guarded { char buf[8]; unsigned char canary[32]; };

static int try(qb_ipcc_connection_t *c, int is_event)
{
	struct qb_ipc_response_header h, full;
	struct guarded g;
	ssize_t r;
	int i, bad = 0;

	memset(&h, 0, sizeof h);
	h.id = 42; h.size = sizeof h; h.error = 7;
	r = is_event ? qb_ipcs_event_send(sc, &h, sizeof h) : qb_ipcs_response_send(sc, &h, sizeof h);
	printf("%s: server send of %zu bytes -> %zd\n", is_event ? "event" : "response", sizeof h, r);
	if (r != sizeof h) return 2;

	memset(&g, 0xAA, sizeof g);
	r = is_event ? qb_ipcc_event_recv(c, g.buf, sizeof g.buf, 0) : qb_ipcc_recv(c, g.buf, sizeof g.buf, 0);
	printf("%s: receive into an %zu byte buffer -> %zd\n", is_event ? "event" : "response", sizeof g.buf, r);
	for (i = 0; i < (int)sizeof g.canary; i++) if (g.canary[i] != 0xAA) bad++;
	if (bad) printf("%s: %d bytes BEHIND the 8 byte buffer were overwritten\n", is_event ? "event" : "response", bad);
	if (r >= 0) { printf("a %zu byte message was 'received' into 8 bytes\n", sizeof h); bad++; }

	/* the message itself must still be there, once, intact */
	r = is_event ? qb_ipcc_event_recv(c, &full, sizeof full, 0) : qb_ipcc_recv(c, &full, sizeof full, 0);
	printf("%s: receive into a big enough buffer -> %zd (%s)\n", is_event ? "event" : "response", r,
	       (r == sizeof h && !memcmp(&h, &full, sizeof h)) ? "intact" : "NOT intact");
	if (r != sizeof h || memcmp(&h, &full, sizeof h)) bad++;
	return bad ? 1 : 0;
}

int main(int argc, char **argv)
{
	char name[64];
	struct qb_ipcs_service_handlers sh = { acc, created, msg, closed, destroyed };
	struct qb_ipcs_poll_handlers ph = { my_job, my_add, my_mod, my_del };
	enum qb_ipc_type type = (argc > 1 && !strcmp(argv[1], "shm")) ? QB_IPC_SHM : QB_IPC_SOCKET;
	qb_ipcs_service_t *s;
	qb_ipcc_connection_t *c;
	int cfd, i, rc = 0;

	setvbuf(stdout, NULL, _IONBF, 0);
	snprintf(name, sizeof name, "h3c02f1-%d", (int)getpid());
	s = qb_ipcs_create(name, 0, type, &sh);
	qb_ipcs_poll_handlers_set(s, &ph);
	if (qb_ipcs_run(s) != 0) { perror("qb_ipcs_run"); return 2; }
	c = qb_ipcc_connect_async(name, 0, &cfd);
	if (c == NULL) { perror("connect"); return 2; }
	for (i = 0; i < 50 && !sc; i++) step();
	if (qb_ipcc_connect_continue(c) != 0) { perror("connect_continue"); return 2; }
	printf("transport: %s\n", type == QB_IPC_SHM ? "shm" : "socket");

	rc |= try(c, 0);
	rc |= try(c, 1);

	qb_ipcc_disconnect(c);
	step(); step();
	qb_ipcs_destroy(s);
	printf(rc ? "RESULT: VIOLATED\n" : "RESULT: held\n");
	return rc;
}
