#!/bin/sh
# usage: demo.sh <tree>   exit 0 = held, non-zero = violated
T=${1:-/repo}
D=$(cd "$(dirname "$0")" && pwd)
O=$(mktemp -d /tmp/h3c02f1.XXXXXX)
SRC="$T/lib/ipcc.c $T/lib/ipcs.c $T/lib/ipc_shm.c $T/lib/ipc_socket.c $T/lib/ipc_setup.c $T/lib/ringbuffer.c $T/lib/ringbuffer_helper.c $T/lib/unix.c"
gcc -g -O0 -w -DHAVE_CONFIG_H -I$T/include -I$T/include/qb -I$T/lib -o $O/demo $D/demo.c $SRC -L$T/lib/.libs -lqb -lpthread || { echo "build failed"; exit 2; }
LD_LIBRARY_PATH=$T/lib/.libs $O/demo sock
rc=$?
rm -rf $O
exit $rc
