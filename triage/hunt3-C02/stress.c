/*
 * Two process stress for libqb IPC (property C02).  The server child runs a
 * real qb_loop; the client parent sends / receives at random speeds.  Every
 * message carries a sequence number; its length and bytes are a function of
 * (kind, seq), so each receiver checks exactly-once / in-order / intact on its
 * own.  A sender only advances its sequence number when the send call
 * accepted the message; a refused send is retried with the same number, so a
 * refused send that had an effect shows up as a duplicate.
 *
 * usage: stress <seed> <nreq> <shm|sock> <maxmsg> [bigprob%]
 */
#include "os_base.h"
#include <poll.h>
#include <sys/wait.h>
#include <sys/time.h>
#include <signal.h>
#include <qb/qbdefs.h>
#include <qb/qbipcc.h>
#include <qb/qbipcs.h>
#include <qb/qbloop.h>
#include <qb/qblog.h>

#define REQ_HDR sizeof(struct qb_ipc_request_header)
#define RESP_HDR sizeof(struct qb_ipc_response_header)
#define ID_BASE 1000
#define ID_FINISH 5
#define ID_FINAL 6

static size_t maxmsg;
static int bigprob = 3;
static unsigned long long rng_s;
static unsigned rnd(void) { rng_s = rng_s * 6364136223846793005ULL + 1442695040888963407ULL; return (unsigned)(rng_s >> 33); }
static unsigned mix(unsigned a, unsigned b) { unsigned long long x = (a + 0x9E3779B97F4A7C15ULL) * (b * 2 + 1) * 0xBF58476D1CE4E5B9ULL; x ^= x >> 29; x *= 0x94D049BB133111EBULL; x ^= x >> 32; return (unsigned)x; }

static size_t msg_len(int kind, unsigned seq)
{
	size_t hdr = kind == 1 ? REQ_HDR : RESP_HDR;
	unsigned h = mix(seq, kind), k = h % 100, v = mix(h, 77);
	if (k < (unsigned)bigprob) return hdr + v % (maxmsg - hdr + 1);
	if (k < (unsigned)bigprob + 2) return maxmsg - v % 8;
	if (k < 40) return hdr;
	if (k < 70) return hdr + v % 40;
	return hdr + v % 2000 % (maxmsg - hdr + 1);
}
static void msg_fill(unsigned char *b, int kind, unsigned seq, size_t len)
{
	size_t i, hdr = kind == 1 ? REQ_HDR : RESP_HDR;
	struct qb_ipc_response_header *h = (void *)b;
	for (i = hdr; i < len; i++) b[i] = (unsigned char)(seq * 131 + i * 7 + kind);
	memset(b, 0, hdr);
	h->id = ID_BASE + seq; h->size = len;
}
static int msg_check(const char *who, const unsigned char *b, size_t got, int kind, unsigned expect_seq)
{
	const struct qb_ipc_request_header *h = (const void *)b;
	size_t i, hdr = kind == 1 ? REQ_HDR : RESP_HDR, want = msg_len(kind, expect_seq);
	unsigned seq = h->id - ID_BASE;
	if (seq != expect_seq) { printf("VIOLATION %s: kind %d got seq %u expected %u (len %zu)\n", who, kind, seq, expect_seq, got); return -1; }
	if (got != want || (size_t)h->size != want) { printf("VIOLATION %s: kind %d seq %u length %zu (hdr %d) expected %zu\n", who, kind, seq, got, h->size, want); return -1; }
	for (i = hdr; i < got; i++) if (b[i] != (unsigned char)(seq * 131 + i * 7 + kind)) { printf("VIOLATION %s: kind %d seq %u byte %zu differs\n", who, kind, seq, i); return -1; }
	return 0;
}

static void on_alrm(int s) { }
static void sig_stress(void)
{
	struct sigaction sa; struct itimerval it;
	if (!getenv("SIGSTRESS")) return;
	memset(&sa, 0, sizeof sa); sa.sa_handler = on_alrm; sigemptyset(&sa.sa_mask); sa.sa_flags = 0; /* no SA_RESTART */
	sigaction(SIGALRM, &sa, NULL);
	it.it_interval.tv_sec = 0; it.it_interval.tv_usec = atoi(getenv("SIGSTRESS"));
	it.it_value = it.it_interval;
	setitimer(ITIMER_REAL, &it, NULL);
}
/* ------------------------------------------------ server */
static qb_loop_t *loop;
static qb_ipcs_service_t *svc;
static qb_ipcs_connection_t *sc;
static unsigned s_req_expect = 1, s_resp_seq = 1, s_ev_seq = 1, s_resp_owed = 0;
static int s_finishing = 0, s_final_sent = 0, s_bad = 0, s_rl_off = 0;
static unsigned char *s_buf;
static long s_ev_eagain, s_resp_eagain;

static void s_flush_responses(void)
{
	while (s_resp_owed > 0 && sc) {
		size_t len = msg_len(2, s_resp_seq);
		ssize_t r;
		msg_fill(s_buf, 2, s_resp_seq, len);
		if (rnd() % 4 == 0) {
			struct iovec iov[2]; size_t cut = rnd() % (len + 1);
			iov[0].iov_base = s_buf; iov[0].iov_len = cut; iov[1].iov_base = s_buf + cut; iov[1].iov_len = len - cut;
			r = qb_ipcs_response_sendv(sc, iov, 2);
		} else r = qb_ipcs_response_send(sc, s_buf, len);
		if (r == (ssize_t)len) { s_resp_seq++; s_resp_owed--; }
		else if (r == -EAGAIN || r == -ENOBUFS) { s_resp_eagain++; break; }
		else { printf("server: response send -> %zd\n", r); if (r >= 0) { printf("VIOLATION short response send\n"); s_bad = 1; } break; }
	}
	if (s_finishing && s_resp_owed == 0 && !s_final_sent && sc) {
		struct { struct qb_ipc_response_header h; unsigned nresp, nev; } f;
		memset(&f, 0, sizeof f);
		f.h.id = ID_FINAL; f.h.size = sizeof f; f.nresp = s_resp_seq - 1; f.nev = s_ev_seq - 1;
		if (qb_ipcs_response_send(sc, &f, sizeof f) == sizeof f) s_final_sent = 1;
	}
}
static void s_send_events(int n)
{
	while (n-- > 0 && sc && !s_finishing) {
		size_t len = msg_len(3, s_ev_seq);
		ssize_t r;
		msg_fill(s_buf, 3, s_ev_seq, len);
		if (rnd() % 4 == 0) {
			struct iovec iov[2]; size_t cut = rnd() % (len + 1);
			iov[0].iov_base = s_buf; iov[0].iov_len = cut; iov[1].iov_base = s_buf + cut; iov[1].iov_len = len - cut;
			r = qb_ipcs_event_sendv(sc, iov, 2);
		} else r = qb_ipcs_event_send(sc, s_buf, len);
		if (r == (ssize_t)len) s_ev_seq++;
		else if (r == -EAGAIN || r == -ENOBUFS) { s_ev_eagain++; break; }
		else { printf("server: event send -> %zd\n", r); if (r >= 0) { printf("VIOLATION short event send\n"); s_bad = 1; } break; }
	}
}
static int32_t s_msg(qb_ipcs_connection_t *c, void *data, size_t size)
{
	struct qb_ipc_request_header *h = data;
	if (h->id == ID_FINISH) {
		s_finishing = 1;
		if (s_rl_off) { qb_ipcs_request_rate_limit(svc, QB_IPCS_RATE_NORMAL); s_rl_off = 0; }
		s_flush_responses();
		return 0;
	}
	if (msg_check("server", data, size, 1, s_req_expect) != 0) { s_bad = 1; s_req_expect = h->id - ID_BASE + 1; }
	else s_req_expect++;
	s_resp_owed++;
	if (rnd() % 3) s_flush_responses();
	if (rnd() % 5 == 0) s_send_events(rnd() % 4);
	if (rnd() % 200 == 0) { qb_ipcs_request_rate_limit(svc, rnd() % 2 ? QB_IPCS_RATE_OFF : QB_IPCS_RATE_OFF_2); s_rl_off = 1; }
	return 0;
}
static void s_tick(void *d)
{
	qb_loop_timer_handle th;
	unsigned k = rnd() % 100;
	if (!s_finishing) {
		if (k < 30) s_send_events(rnd() % 60);
		else if (k < 34) s_send_events(1000);
		else if (k < 38) usleep(rnd() % 20000);	/* slow server */
		else if (k < 42 && !s_rl_off) { qb_ipcs_request_rate_limit(svc, rnd() % 2 ? QB_IPCS_RATE_OFF : QB_IPCS_RATE_OFF_2); s_rl_off = 1; }
		else if (k < 46) qb_ipcs_request_rate_limit(svc, rnd() % 3 == 0 ? QB_IPCS_RATE_FAST : (rnd() % 2 ? QB_IPCS_RATE_SLOW : QB_IPCS_RATE_NORMAL)), s_rl_off = 0;
		if (s_rl_off && rnd() % 4 == 0) { qb_ipcs_request_rate_limit(svc, QB_IPCS_RATE_NORMAL); s_rl_off = 0; }
	}
	s_flush_responses();
	qb_loop_timer_add(loop, QB_LOOP_HIGH, (100 + rnd() % 2000) * 1000ULL, NULL, s_tick, &th);
}
static int32_t s_accept(qb_ipcs_connection_t *c, uid_t u, gid_t g) { return 0; }
static void s_created(qb_ipcs_connection_t *c) { sc = c; }
static int32_t s_closed(qb_ipcs_connection_t *c) { sc = NULL; qb_loop_stop(loop); return 0; }
static void s_destroyed(qb_ipcs_connection_t *c) { }
static int32_t l_job_add(enum qb_loop_priority p, void *data, qb_loop_job_dispatch_fn fn) { return qb_loop_job_add(loop, p, data, fn); }
static int32_t l_add(enum qb_loop_priority p, int32_t fd, int32_t ev, void *data, qb_ipcs_dispatch_fn_t fn) { return qb_loop_poll_add(loop, p, fd, ev, data, fn); }
static int32_t l_mod(enum qb_loop_priority p, int32_t fd, int32_t ev, void *data, qb_ipcs_dispatch_fn_t fn) { return qb_loop_poll_mod(loop, p, fd, ev, data, fn); }
static int32_t l_del(int32_t fd) { return qb_loop_poll_del(loop, fd); }

static int server_main(const char *name, int is_shm, int readyfd)
{
	struct qb_ipcs_service_handlers sh = { s_accept, s_created, s_msg, s_closed, s_destroyed };
	struct qb_ipcs_poll_handlers ph = { l_job_add, l_add, l_mod, l_del };
	qb_loop_timer_handle th;
	rng_s ^= 0xabcdef;
	sig_stress();
	loop = qb_loop_create();
	svc = qb_ipcs_create(name, 0, is_shm ? QB_IPC_SHM : QB_IPC_SOCKET, &sh);
	qb_ipcs_poll_handlers_set(svc, &ph);
	if (qb_ipcs_run(svc) != 0) { perror("qb_ipcs_run"); return 2; }
	s_buf = malloc(maxmsg + 64);
	qb_loop_timer_add(loop, QB_LOOP_HIGH, 1000000ULL, NULL, s_tick, &th);
	if (write(readyfd, "x", 1) != 1) return 2;
	qb_loop_run(loop);
	printf("server: requests %u responses %u events %u (resp eagain %ld, ev eagain %ld) bad %d\n", s_req_expect - 1, s_resp_seq - 1, s_ev_seq - 1, s_resp_eagain, s_ev_eagain, s_bad);
	qb_ipcs_destroy(svc);
	return s_bad ? 1 : 0;
}

/* ------------------------------------------------ client */
static qb_ipcc_connection_t *cc;
static unsigned c_req_seq = 1, c_resp_expect = 1, c_ev_expect = 1;
static int c_bad = 0, c_final = 0;
static unsigned c_nresp_final, c_nev_final;
static unsigned char *c_buf, *c_rbuf;
static long c_send_eagain, c_unreadable;

static int c_recv_resp(int to)
{
	ssize_t r = qb_ipcc_recv(cc, c_rbuf, maxmsg, to);
	if (r >= 0) {
		struct qb_ipc_response_header *h = (void *)c_rbuf;
		if (h->id == ID_FINAL) {
			c_final = 1; c_nresp_final = ((unsigned *)(h + 1))[0]; c_nev_final = ((unsigned *)(h + 1))[1];
			return 1;
		}
		if (msg_check("client-resp", c_rbuf, r, 2, c_resp_expect) != 0) { c_bad = 1; c_resp_expect = h->id - ID_BASE + 1; }
		else c_resp_expect++;
		return 1;
	}
	if (r != -EAGAIN && r != -ETIMEDOUT) { printf("client: recv -> %zd\n", r); c_bad = 1; return -1; }
	return 0;
}
static int c_recv_ev(int to)
{
	ssize_t r = qb_ipcc_event_recv(cc, c_rbuf, maxmsg, to);
	if (r >= 0) {
		struct qb_ipc_response_header *h = (void *)c_rbuf;
		if (msg_check("client-event", c_rbuf, r, 3, c_ev_expect) != 0) { c_bad = 1; c_ev_expect = h->id - ID_BASE + 1; }
		else c_ev_expect++;
		return 1;
	}
	if (r != -EAGAIN && r != -ETIMEDOUT) { printf("client: event_recv -> %zd\n", r); c_bad = 1; return -1; }
	return 0;
}

int main(int argc, char **argv)
{
	char name[64];
	int p[2], is_shm, st = 0, i;
	unsigned nreq;
	pid_t pid;
	char x;

	if (argc < 5) { fprintf(stderr, "usage\n"); return 2; }
	rng_s = strtoull(argv[1], NULL, 0) * 2654435761ULL + 999;
	nreq = atoi(argv[2]);
	is_shm = !strcmp(argv[3], "shm");
	maxmsg = strtoul(argv[4], NULL, 0);
	if (argc > 5) bigprob = atoi(argv[5]);
	if (maxmsg < 12328) maxmsg = 12328;
	setvbuf(stdout, NULL, _IOLBF, 0);
	snprintf(name, sizeof name, "h3c02s-%d-%s", (int)getpid(), argv[1]);
	if (pipe(p)) return 2;
	pid = fork();
	if (pid == 0) { close(p[0]); _exit(server_main(name, is_shm, p[1])); }
	close(p[1]);
	if (read(p[0], &x, 1) != 1) { fprintf(stderr, "server failed\n"); return 2; }
	cc = qb_ipcc_connect(name, maxmsg);
	if (!cc) { perror("connect"); kill(pid, SIGKILL); return 2; }
	if ((size_t)qb_ipcc_get_buffer_size(cc) != maxmsg) { maxmsg = qb_ipcc_get_buffer_size(cc); printf("note: negotiated %zu\n", maxmsg); }
	c_buf = malloc(maxmsg + 64); c_rbuf = malloc(maxmsg + 64);
	sig_stress();

	int mode = 0, mode_left = 0;
	while (c_req_seq <= nreq && !c_bad) {
		unsigned k = rnd() % 100;
		if (mode_left-- <= 0) { mode = rnd() % 5; mode_left = 50 + rnd() % 3000; }
		if (mode == 1 && k >= 40) k = rnd() % 40;		/* sender only */
		if (mode == 2 && k < 40) k = 40 + rnd() % 60;		/* receiver only */
		if (mode == 3 && rnd() % 50 == 0) usleep(rnd() % 30000);	/* slow client */
		if (mode == 4 && k >= 40 && k < 90) k = rnd() % 40;	/* ignores events for a long time */
		if (k < 40) {
			size_t len = msg_len(1, c_req_seq);
			ssize_t r;
			msg_fill(c_buf, 1, c_req_seq, len);
			if (k < 4) {
				/* send + matching receive in one call */
				struct iovec iov[2]; size_t a = rnd() % (len + 1);
				iov[0].iov_base = c_buf; iov[0].iov_len = a; iov[1].iov_base = c_buf + a; iov[1].iov_len = len - a;
				r = qb_ipcc_sendv_recv(cc, iov, 2, c_rbuf, maxmsg, rnd() % 3 ? 0 : (int)(rnd() % 4));
				if (r >= 0) {
					struct qb_ipc_response_header *h = (void *)c_rbuf;
					if (msg_check("client-resp(sendv_recv)", c_rbuf, r, 2, c_resp_expect) != 0) { c_bad = 1; c_resp_expect = h->id - ID_BASE + 1; }
					else c_resp_expect++;
					r = len;
				} else if (r == -ETIMEDOUT) r = len;	/* sent, no response yet */
			} else if (k < 10) {
				struct iovec iov[3]; size_t a = rnd() % (len + 1), b = a + rnd() % (len - a + 1);
				iov[0].iov_base = c_buf; iov[0].iov_len = a; iov[1].iov_base = c_buf + a; iov[1].iov_len = b - a; iov[2].iov_base = c_buf + b; iov[2].iov_len = len - b;
				r = qb_ipcc_sendv(cc, iov, 3);
			} else r = qb_ipcc_send(cc, c_buf, len);
			if (r == (ssize_t)len) c_req_seq++;
			else if (r == -EAGAIN || r == -ENOBUFS) { c_send_eagain++; if (mode == 1) { c_recv_resp(0); c_recv_ev(0); } }
			else { printf("client: send len %zu -> %zd\n", len, r); c_bad = 1; }
		} else if (k < 65) c_recv_resp(rnd() % 3 == 0 ? 1 : 0);
		else if (k < 90) {
			c_recv_ev(rnd() % 3 == 0 ? 1 : 0);
		} else if (k < 95) {
			/* fd readable check: if an event can be had, poll must say so */
			int32_t fd; struct pollfd pf;
			qb_ipcc_fd_get(cc, &fd);
			pf.fd = fd; pf.events = POLLIN; pf.revents = 0;
			if (poll(&pf, 1, 0) == 0) c_unreadable++;
		} else { int n = rnd() % 20; while (n-- && c_recv_resp(0) > 0) ; n = rnd() % 100; while (n-- && c_recv_ev(0) > 0) ; }
	}
	/* finish: tell the server, then everything it accepted must arrive */
	{
		struct qb_ipc_request_header f;
		ssize_t r;
		int tries = 0;
		f.id = ID_FINISH; f.size = sizeof f;
		do { r = qb_ipcc_send(cc, &f, sizeof f); if (r == -EAGAIN) { c_recv_resp(1); c_recv_ev(0); } } while (r == -EAGAIN && tries++ < 200000 && !c_bad);
		if (r != sizeof f) { printf("client: finish send -> %zd\n", r); c_bad = 1; }
		for (i = 0; i < 200000 && !c_final && !c_bad; i++) { c_recv_resp(5); while (c_recv_ev(0) > 0) ; }
		if (!c_final) { printf("VIOLATION client: final response never arrived (got %u responses)\n", c_resp_expect - 1); c_bad = 1; }
		else {
			if (c_resp_expect - 1 != c_nresp_final) { printf("VIOLATION client: %u responses received, server sent %u\n", c_resp_expect - 1, c_nresp_final); c_bad = 1; }
			for (i = 0; i < 3000 && c_ev_expect - 1 < c_nev_final && !c_bad; i++) c_recv_ev(10);
			if (c_ev_expect - 1 != c_nev_final) { printf("VIOLATION client: %u events received, server sent %u\n", c_ev_expect - 1, c_nev_final); c_bad = 1; }
			if (c_recv_ev(50) > 0) { printf("VIOLATION client: extra event\n"); c_bad = 1; }
			if (c_recv_resp(0) > 0) { printf("VIOLATION client: extra response\n"); c_bad = 1; }
		}
	}
	printf("client: requests %u responses %u events %u (send eagain %ld, polls-not-readable %ld) bad %d\n", c_req_seq - 1, c_resp_expect - 1, c_ev_expect - 1, c_send_eagain, c_unreadable, c_bad);
	qb_ipcc_disconnect(cc);
	for (i = 0; i < 100; i++) { if (waitpid(pid, &st, WNOHANG) == pid) break; usleep(50000); }
	if (i == 100) { printf("server did not exit, killing\n"); kill(pid, SIGKILL); waitpid(pid, &st, 0); c_bad = 1; }
	if (!WIFEXITED(st) || WEXITSTATUS(st) != 0) { printf("server status %x\n", st); c_bad = 1; }
	return c_bad ? 1 : 0;
}
