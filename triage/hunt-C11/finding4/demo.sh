#!/bin/sh
# demo.sh <tree>: exit 0 = property held, 1 = violated
T=${1:-/repo}
D=$(cd "$(dirname "$0")" && pwd)
B=$(mktemp -d /tmp/hc11-f4-XXXXXX)
gcc -g -O1 -I"$T/include" "$D/demo.c" -o "$B/demo" -L"$T/lib/.libs" -lqb || exit 2
LD_LIBRARY_PATH="$T/lib/.libs" "$B/demo"; rc=$?
rm -rf "$B"
[ $rc -eq 0 ] && echo "finding4: property held" || echo "finding4: PROPERTY VIOLATED"
exit $rc
