/*
 * C11 finding 4: a write that the overwrite ring refuses (longer than the ring
 * can ever hold) has already thrown away everything that was in the ring.
 * exit 0: the chunks written before are still readable; 1: the ring is empty
 */
#include <stdio.h>
#include <stdint.h>
#include <string.h>
#include <stdlib.h>
#include <unistd.h>
#include <qb/qbrb.h>

int main(void)
{
	char name[64], buf[8192], *big = calloc(1, 8192);
	ssize_t r, r2;
	qb_ringbuffer_t *rb;

	snprintf(name, sizeof(name), "hc11-f4-%d", getpid());
	rb = qb_rb_open(name, 4000, QB_RB_FLAG_CREATE | QB_RB_FLAG_OVERWRITE | QB_RB_FLAG_NO_SEMAPHORE, 0);
	if (!rb) return 2;
	printf("requested size 4000 (ring of 4096 bytes)\n");
	printf("write \"AAAA\" -> %zd\n", qb_rb_chunk_write(rb, "AAAA", 4));
	printf("write \"BBBB\" -> %zd\n", qb_rb_chunk_write(rb, "BBBB", 4));
	r = qb_rb_chunk_write(rb, big, 4085);
	printf("write of 4085 bytes -> %zd (%s)\n", r, r < 0 ? strerror(-r) : "accepted");
	r2 = qb_rb_chunk_read(rb, buf, sizeof(buf), 0);
	if (r2 >= 0)
		printf("read -> %zd bytes \"%.*s\"\n", r2, (int)r2, buf);
	else
		printf("read -> %zd (%s): the ring is empty\n", r2, strerror(-r2));
	qb_rb_close(rb);
	free(big);
	if (r >= 0) return 2;	/* not refused: nothing to show */
	return (r2 == 4 && memcmp(buf, "AAAA", 4) == 0) ? 0 : 1;
}
