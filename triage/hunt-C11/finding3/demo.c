/*
 * C11 finding 3: the blackbox keeps fewer records than fit in its size.
 * Every record reserves room for the longest possible line
 * (qb_rb_chunk_alloc(header + max_line_length)) and the ring evicts old records
 * to make that room, although the record then committed is tiny.
 *
 * usage: demo <size> <max_line_len or 0>
 * exit 0: the dump holds at least all the newest records that fit in <size>
 *         when each is counted with 16 bytes of overhead; 1: fewer
 */
#include <stdio.h>
#include <stdlib.h>
#include <string.h>
#include <unistd.h>
#include <syslog.h>
#include <time.h>
#include <qb/qbdefs.h>
#include <qb/qblog.h>

int main(int argc, char **argv)
{
	int size = argc > 1 ? atoi(argv[1]) : 4083, maxlen = argc > 2 ? atoi(argv[2]) : 0;
	int i, rc, tries, n = 0, last = -1, first = -1, fit;
	/* <u32 line><u32 tags><u8 prio><u32 fn len>"main\0"<timespec><u32 msg len>"m%d\0"<int> */
	int recsz = 4 + 4 + 1 + 4 + 5 + (int)sizeof(struct timespec) + 4 + 4 + 4;
	char line[2048], dump[64], out[64];
	FILE *f;

	snprintf(dump, sizeof(dump), "/tmp/hc11-f3-%d.dump", getpid());
	snprintf(out, sizeof(out), "/tmp/hc11-f3-%d.out", getpid());
	qb_log_init("f3", LOG_USER, LOG_EMERG);
	qb_log_ctl(QB_LOG_SYSLOG, QB_LOG_CONF_ENABLED, QB_FALSE);
	qb_log_filter_ctl(QB_LOG_BLACKBOX, QB_LOG_FILTER_ADD, QB_LOG_FILTER_FILE, "*", LOG_TRACE);
	qb_log_ctl(QB_LOG_BLACKBOX, QB_LOG_CONF_SIZE, size);
	if (maxlen && qb_log_ctl(QB_LOG_BLACKBOX, QB_LOG_CONF_MAX_LINE_LEN, maxlen) != 0) return 2;
	if (qb_log_ctl(QB_LOG_BLACKBOX, QB_LOG_CONF_ENABLED, QB_TRUE) != 0) return 2;
	for (i = 1000; i < 2000; i++)	/* 4 digits: all records have the same size */
		qb_log_from_external_source("main", "demo.c", "m%d", LOG_INFO, 10, 0, i);
	unlink(dump);
	if (qb_log_blackbox_write_to_file(dump) < 0) return 2;
	fflush(stdout);
	for (tries = 0; tries < 100 && n == 0; tries++) {
		if (!freopen(out, "w", stdout)) return 2;
		rc = qb_log_blackbox_print_from_file(dump);
		(void)rc;
		fflush(stdout);
		f = fopen(out, "r");
		while (f && fgets(line, sizeof(line), f)) {
			char *p = strstr(line, "):0: m");
			if (!p) continue;
			i = atoi(p + 6);
			if (first < 0) first = i;
			else if (i != last + 1) { fprintf(stderr, "gap: m%d follows m%d\n", i, last); return 3; }
			last = i;
			n++;
		}
		if (f) fclose(f);
		if (n == 0) usleep(20000);
	}
	unlink(dump); unlink(out);
	qb_log_fini();
	fit = size / (recsz + 16);
	if (fit > 1000) fit = 1000;
	fprintf(stderr, "blackbox size %d, max line length %d: 1000 records of %d bytes logged; the dump holds %d (m%d..m%d); "
		"%d fit in %d bytes at %d+16 bytes each -> %s\n",
		size, maxlen ? maxlen : QB_LOG_MAX_LEN, recsz, n, first, last, fit, size, recsz,
		(n >= fit && last == 1999) ? "ok" : "TOO FEW");
	return (n >= fit && last == 1999) ? 0 : 1;
}
