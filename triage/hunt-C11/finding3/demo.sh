#!/bin/sh
# demo.sh <tree>: exit 0 = property held, 1 = violated
T=${1:-/repo}
D=$(cd "$(dirname "$0")" && pwd)
B=$(mktemp -d /tmp/hc11-f3-XXXXXX)
gcc -g -O1 -I"$T/include" "$D/demo.c" -o "$B/demo" -L"$T/lib/.libs" -lqb || exit 2
rc=0
run() {
	LD_LIBRARY_PATH="$T/lib/.libs" "$B/demo" "$@" >/dev/null 2>"$B/err"; r=$?
	grep "^blackbox size\|^gap" "$B/err"
	[ $r -eq 0 ] || rc=1
}
run 4083 0       # default line length (512), size just below one page (4083 + 13 = 4096)
run 8179 4096    # longest configurable line, size just below two pages
run 65536 0      # control: plenty of slack from page rounding
rm -rf "$B"
[ $rc -eq 0 ] && echo "finding3: property held" || echo "finding3: PROPERTY VIOLATED"
exit $rc
