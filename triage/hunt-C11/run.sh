#!/bin/sh
# run.sh <mode> <first-seed> <last-seed> <rounds> <ops>: seeds in parallel (8 at a time), results in logs/
cd /tmp/hunt-C11
mkdir -p logs
mode=${1:-ring}
for s in $(seq ${2:-1} ${3:-16}); do
  ./fuzz $mode $s ${4:-60} ${5:-3000} > logs/$mode-$s.log 2>&1 &
  if [ $((s % 8)) -eq 0 ]; then wait; fi
done
wait
cat logs/$mode-*.log | grep -c -- "-> ok"
grep -L -- "-> ok" logs/$mode-*.log
