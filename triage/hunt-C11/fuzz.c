/*
 * C11 model-based randomized tester: overwrite ring / blackbox keeps the
 * newest records, intact.
 *
 * usage: fuzz ring <seed> <rounds> <ops-per-round>
 *        fuzz bb   <seed> <rounds> <ops-per-round>
 *        fuzz exh  <seed> <depth> <random-ops-before-each-sequence>
 *
 * ring mode: opens an overwrite ring of a random requested size, drives random
 *   writes (chunk_write, alloc+commit, alloc(bigger)+commit(smaller)), random
 *   destructive reads (chunk_read, peek+reclaim) and non-destructive snapshots
 *   (qb_rb_write_to_file + qb_rb_create_from_file + read everything) and checks
 *   each result against a list model.
 * bb mode: the same through qb_log()/blackbox/qb_log_blackbox_write_to_file/
 *   qb_log_blackbox_print_from_file.
 */
#include "os_base.h"
#include <qb/qbdefs.h>
#include <qb/qbrb.h>
#include <qb/qblog.h>
#include <sys/wait.h>
#include <sys/file.h>

static uint64_t rng_s;
static uint64_t rnd64(void)
{
	rng_s ^= rng_s << 13; rng_s ^= rng_s >> 7; rng_s ^= rng_s << 17;
	return rng_s;
}
static uint32_t rnd(uint32_t n) { return n ? (uint32_t)(rnd64() >> 11) % n : 0; }

static char selog[128];
static int lock_fd = -1;
static FILE *err;		/* real stderr/stdout are noisy; keep our own */
static int verbose;
static unsigned long n_unsynced, n_ops, n_writes, n_reads, n_snaps, n_fullring;

#define FAIL(...) do { fprintf(err, "FAIL: " __VA_ARGS__); fprintf(err, "\n"); fflush(err); failed = 1; } while (0)
static int failed;

/* ---- the model --------------------------------------------------------- */
struct mchunk { uint32_t seq; uint32_t len; uint32_t alen; };
static struct mchunk *m;	/* m[head..tail) are the candidates still readable */
static size_t m_cap, head, tail;
static size_t req_size;
static char trace[1 << 16];
static size_t trace_len;

static void tr(const char *fmt, ...)
{
	va_list ap;
	va_start(ap, fmt);
	if (trace_len < sizeof(trace) - 64)
		trace_len += vsnprintf(trace + trace_len, sizeof(trace) - trace_len, fmt, ap);
	va_end(ap);
}

static void fill(uint8_t *p, uint32_t seq, uint32_t len)
{
	uint64_t s = 0x9e3779b97f4a7c15ULL * (seq + 1);
	uint32_t i;
	for (i = 0; i < len; i++) {
		s ^= s << 13; s ^= s >> 7; s ^= s << 17;
		p[i] = (uint8_t)(s >> 24);
	}
	/* sprinkle ring-header look-alikes into the payloads */
	if (len >= 16 && (seq % 3) == 0) {
		uint32_t magic = 0xA1A1A1A1, sz = 8;
		for (i = 0; i + 8 <= len; i += 8) {
			memcpy(p + i, &sz, 4);
			memcpy(p + i + 4, &magic, 4);
		}
	}
}

static void mpush(uint32_t seq, uint32_t len, uint32_t alen)
{
	if (tail == m_cap) {
		if (m && tail > head) memmove(m, m + head, (tail - head) * sizeof(*m));
		tail -= head; head = 0;
		if (tail + 1024 > m_cap) {
			m_cap = (tail + 1024) * 2;
			m = realloc(m, m_cap * sizeof(*m));
		}
	}
	m[tail].seq = seq; m[tail].len = len; m[tail].alen = alen; tail++;
}

/* index of the oldest chunk that the property guarantees to be still there:
 * the newest chunks that fit in the requested size, 16 bytes overhead each;
 * the newest chunk itself is always guaranteed (k >= 1) */
static uint32_t floor_seq;	/* chunks older than this were legitimately dropped at some earlier write */
static size_t guaranteed_from_now(void)
{
	size_t i = tail, sum = 0;
	while (i > head) {
		/* the newest one may have been allocated bigger than committed */
		size_t l = (i == tail) ? m[i - 1].alen : m[i - 1].len;
		if (sum + l + 16 > req_size)
			break;
		sum += l + 16;
		i--;
	}
	if (i == tail && tail > head)
		i = tail - 1;
	return i;
}

static size_t guaranteed_from(void)
{
	size_t g = guaranteed_from_now();
	if (g < tail && m[g].seq < floor_seq) {
		g += floor_seq - m[g].seq;
		if (g > tail) g = tail;
	}
	return g;
}

static void note_write(void)
{
	size_t g = guaranteed_from_now();
	if (g < tail && m[g].seq > floor_seq)
		floor_seq = m[g].seq;
}

static uint8_t *exp_buf, *got_buf, *snap_buf;
static size_t snap_cap, snap_ncap, *snap_off;
static ssize_t *snap_len;
static size_t buf_cap;

/* m[head] is exact only while `synced`; otherwise head is a lower bound and the
 * real oldest chunk is somewhere in [head, guaranteed_from()] */
static int synced;

static int set_head(size_t i, const char *how)
{
	size_t g = guaranteed_from();
	if (i < head) {
		FAIL("%s: %zu more chunks readable than can be there (oldest possible is seq %u)",
		     how, head - i, head < tail ? m[head].seq : 0);
		return -1;
	}
	if (i > g) {
		FAIL("%s: oldest readable chunk is seq %u but seq %u (len %u) still fits in the requested size %zu "
		     "(newest %zu chunks guaranteed, %zu present)",
		     how, i < tail ? m[i].seq : 0, m[g].seq, m[g].len, req_size, tail - g, tail - i);
		return -1;
	}
	head = i;
	synced = 1;
	return 0;
}

static int check_chunk(size_t i, const uint8_t *data, ssize_t len, const char *how)
{
	fill(exp_buf, m[i].seq, m[i].len);
	if ((uint32_t)len != m[i].len || memcmp(exp_buf, data, len) != 0) {
		FAIL("%s: expected seq %u (len %u) but got a chunk of %zd bytes%s", how, m[i].seq, m[i].len, len,
		     (uint32_t)len == m[i].len ? " with different content" : "");
		return -1;
	}
	return 0;
}

/* ---- ring mode ---------------------------------------------------------- */
static qb_ringbuffer_t *rb;	/* the writer's handle */
static qb_ringbuffer_t *rd;	/* the reader's handle: the same, or a second one opened on the shared ring */
static int use_sem;
static uint32_t next_seq;

static size_t pick_size(void)
{
	static const size_t fixed[] = { 0, 1, 2, 3, 4, 7, 8, 12, 16, 17, 31, 64, 100, 255, 256, 500, 1000, 1024,
		2048, 4000 };
	long pg = sysconf(_SC_PAGESIZE);
	if (getenv("BIG"))	/* BIG=1: rings of 0.25 .. 8 MB */
		return (64 + rnd(2000)) * pg - rnd(40);
	switch (rnd(6)) {
	case 0:
		return fixed[rnd(sizeof(fixed) / sizeof(fixed[0]))];
	case 1:	/* around the page rounding boundary: size + 13 <= n*page */
		return (1 + rnd(3)) * pg - 13 - 6 + rnd(12);
	case 2:	/* exactly the sizes where a full chunk fills the whole ring */
		return (1 + rnd(3)) * pg - 13 - rnd(3);
	case 3:
		return (1 + rnd(3)) * pg - 32 + rnd(64);
	case 4:
		return rnd(3 * pg);
	default:
		return rnd(20 * pg);
	}
}

static long forced_len = -1;
static long forced_size = -1;
static uint32_t pick_len(void)
{
	uint32_t r = rnd(100);
	if (forced_len >= 0) return forced_len;
	uint32_t S = req_size;
	if (r < 30) { uint32_t t = rnd(17); return t > S ? S : t; }
	if (r < 45) return S - rnd(S < 20 ? S + 1 : 20);		/* near capacity */
	if (r < 50) return S;
	if (r < 70) return rnd(S + 1);
	if (r < 85) return rnd(S / 4 + 1);
	if (r < 95) return rnd(200) % (S + 1);
	return (S / 2 + rnd(8)) % (S + 1);
}

static void ring_open(int n)
{
	char name[64];
	uint32_t flags = QB_RB_FLAG_CREATE | QB_RB_FLAG_OVERWRITE;
	use_sem = 1;
	switch (rnd(3)) {
	case 0: flags |= QB_RB_FLAG_NO_SEMAPHORE; use_sem = 0; break;
	case 1: flags |= QB_RB_FLAG_SHARED_PROCESS; break;
	}
	req_size = forced_size >= 0 ? (size_t)forced_size : pick_size();
	snprintf(name, sizeof(name), "hc11-%d-%d", getpid(), n);
	rb = qb_rb_open(name, req_size, flags, rnd(2) ? 0 : rnd(100));
	if (!rb) {
		fprintf(err, "qb_rb_open(%zu) failed: %s\n", req_size, strerror(errno));
		exit(2);
	}
	rd = rb;
	if ((flags & QB_RB_FLAG_SHARED_PROCESS) && rnd(2)) {
		rd = qb_rb_open(name, req_size, QB_RB_FLAG_SHARED_PROCESS | (rnd(2) ? QB_RB_FLAG_OVERWRITE : 0), 0);
		if (!rd) {
			fprintf(err, "second qb_rb_open(%zu) failed: %s\n", req_size, strerror(errno));
			exit(2);
		}
	}
	head = tail = 0;
	synced = 1;
	floor_seq = 0;
	trace_len = 0;
	tr("open size=%zu flags=0x%x second-handle=%d\n", req_size, flags, rd != rb);
	if (buf_cap < req_size + 64) {
		buf_cap = req_size + 64;
		exp_buf = realloc(exp_buf, buf_cap);
		got_buf = realloc(got_buf, buf_cap);
	}
}

static void op_snapshot(void);

/* qb_rb_space_used() tells how many of the newest chunks are in the ring (each
 * takes 8 + len rounded up to 4 bytes; the wrapped case reports one word less).
 * It is only used to learn the library's choice right away; when it does not
 * add up the next snapshot decides. */
static void sync_after_write(void)
{
	ssize_t used = qb_rb_space_used(rb);
	size_t i = tail, sum = 0;
	while (i > head && (ssize_t)sum < used) {
		sum += 8 + ((m[i - 1].len + 3) & ~3U);
		i--;
	}
	if ((ssize_t)sum == used || (ssize_t)sum == used + 4) {
		set_head(i, "after write");
	} else {
		synced = 0;
		n_unsynced++;
		op_snapshot();
	}
}

static void op_write(void)
{
	uint32_t len = pick_len();
	uint32_t alen = len;
	uint32_t seq = next_seq++;
	int how = rnd(3);
	ssize_t res;

	fill(exp_buf, seq, len);
	if (how == 0) {
		tr("W%u ", len);
		res = qb_rb_chunk_write(rb, exp_buf, len);
		if (res != (ssize_t)len) {
			FAIL("qb_rb_chunk_write(len=%u) with requested size %zu returned %zd (%s)",
			     len, req_size, res, res < 0 ? strerror(-res) : "");
			return;
		}
	} else {
		void *p;
		int32_t rc;
		if (how == 2) {
			alen = len + rnd(req_size - len + 1);
		}
		tr("A%u/%u ", alen, len);
		p = qb_rb_chunk_alloc(rb, alen);
		if (p == NULL) {
			FAIL("qb_rb_chunk_alloc(len=%u) with requested size %zu failed: %s", alen, req_size, strerror(errno));
			return;
		}
		if (how == 2) {
			memset(p, 0xEE, alen);	/* the writer may scribble over all it allocated */
		}
		memcpy(p, exp_buf, len);
		rc = qb_rb_chunk_commit(rb, len);
		if (rc != 0) {
			FAIL("qb_rb_chunk_commit(len=%u) returned %d", len, rc);
			return;
		}
	}
	n_writes++;
	mpush(seq, len, alen);
	sync_after_write();
	note_write();
	if (len + 12 + 4 >= ((req_size + 13 + 4095) & ~4095UL))
		n_fullring++;
}

static void op_read(void)
{
	ssize_t res;
	int how = rnd(2);

	if (!synced)
		op_snapshot();
	if (failed)
		return;
	if (how == 0) {
		tr("R ");
		res = qb_rb_chunk_read(rd, got_buf, buf_cap, 0);
		if (res < 0) {
			if (head != tail)
				FAIL("qb_rb_chunk_read returned %zd (%s) although seq %u..%u are written and not read",
				     res, strerror(-res), m[head].seq, m[tail - 1].seq);
			return;
		}
		if (head == tail) {
			FAIL("qb_rb_chunk_read returned a %zd byte chunk from a ring that should be empty", res);
			return;
		}
		if (check_chunk(head, got_buf, res, "qb_rb_chunk_read") == 0)
			head++;
	} else {
		void *p = NULL;
		tr("P ");
		res = qb_rb_chunk_peek(rd, &p, 0);
		if (res < 0 || (res == 0 && p == NULL)) {
			if (head != tail)
				FAIL("qb_rb_chunk_peek returned %zd although seq %u..%u are written and not read",
				     res, m[head].seq, m[tail - 1].seq);
			return;
		}
		if (head == tail) {
			FAIL("qb_rb_chunk_peek returned a %zd byte chunk from a ring that should be empty", res);
			return;
		}
		if (check_chunk(head, p, res, "qb_rb_chunk_peek") == 0)
			head++;
		qb_rb_chunk_reclaim(rd);
	}
	n_reads++;
}

/* non-destructive: dump, load the dump, read all of it */
static void op_snapshot(void)
{
	char path[64];
	int fd, tries;
	qb_ringbuffer_t *copy = NULL;
	ssize_t res;
	size_t i;
	int first = 1;

	tr("S ");
	snprintf(path, sizeof(path), "/tmp/hunt-C11/snap-%d", getpid());
	fd = open(path, O_CREAT | O_TRUNC | O_RDWR, 0600);
	if (fd < 0) { perror("open snap"); exit(2); }
	res = qb_rb_write_to_file(rnd(2) ? rb : rd, fd);
	if (res < 0) {
		FAIL("qb_rb_write_to_file returned %zd", res);
		close(fd);
		return;
	}
	/* other processes on this machine may use the fixed "create_from_file" name */
	for (tries = 0; tries < 200 && copy == NULL; tries++) {
		lseek(fd, 0, SEEK_SET);
		flock(lock_fd, LOCK_EX);
		copy = qb_rb_create_from_file(fd, 0);
		if (copy == NULL) {
			flock(lock_fd, LOCK_UN);
			usleep(1000 + rnd(5000));
		}
	}
	close(fd);
	if (copy == NULL) {
		fprintf(err, "qb_rb_create_from_file kept failing (name clash?), snapshot skipped\n");
		return;
	}
	{
		/* read everything, then line it up with the END of what was written */
		size_t n = 0, off = 0, j;
		for (;;) {
			if (snap_cap < off + buf_cap) {
				snap_cap = (off + buf_cap) * 2;
				snap_buf = realloc(snap_buf, snap_cap);
			}
			res = qb_rb_chunk_read(copy, snap_buf + off, buf_cap, 0);
			if (res < 0)
				break;
			if (n == snap_ncap) {
				snap_ncap = snap_ncap ? snap_ncap * 2 : 1024;
				snap_off = realloc(snap_off, snap_ncap * sizeof(*snap_off));
				snap_len = realloc(snap_len, snap_ncap * sizeof(*snap_len));
			}
			snap_off[n] = off; snap_len[n] = res; n++;
			off += res;
		}
		if (res != -ETIMEDOUT)
			FAIL("snapshot: reading the loaded dump ended with %zd (%s) after %zu chunks", res, strerror(-res), n);
		if (!failed && n > tail - head) {
			FAIL("snapshot: %zu chunks readable, only %zu written and not yet read (seq %u..)", n, tail - head,
			     head < tail ? m[head].seq : 0);
		}
		if (!failed && n == 0 && tail > head) {
			FAIL("snapshot: nothing readable although seq %u (len %u) was written last and not read",
			     m[tail - 1].seq, m[tail - 1].len);
		}
		for (j = 0; j < n && !failed; j++) {
			char how[80];
			snprintf(how, sizeof(how), "snapshot: chunk %zu of %zu (counting back from the newest: %zu)", j, n, n - 1 - j);
			check_chunk(tail - n + j, snap_buf + snap_off[j], snap_len[j], how);
		}
		if (!failed) {
			if (synced && tail - n != head)
				FAIL("snapshot: %zu chunks readable but %zu expected from qb_rb_space_used()/reads", n, tail - head);
			else
				set_head(tail - n, "snapshot");
		}
		(void)i; (void)first;
	}
	qb_rb_close(copy);
	flock(lock_fd, LOCK_UN);
	n_snaps++;
}

static int ring_mode(uint64_t seed, int rounds, int ops)
{
	int r, o;
	for (r = 0; r < rounds && !failed; r++) {
		int wr_pct = 40 + rnd(60);	/* write share */
		int snap_pct = rnd(4) ? 2 : 15;
		ring_open(r);
		for (o = 0; o < ops && !failed; o++) {
			uint32_t x = rnd(100);
			n_ops++;
			if (x < (uint32_t)snap_pct) op_snapshot();
			else if (x < (uint32_t)wr_pct) op_write();
			else op_read();
		}
		if (!failed)
			op_snapshot();
		if (failed) {
			fprintf(err, "seed %llu round %d requested size %zu sem %d\ntrace: %s\n",
				(unsigned long long)seed, r, req_size, use_sem, trace);
		}
		if (rd != rb)
			qb_rb_close(rd);
		qb_rb_close(rb);
	}
	return failed;
}

/* exhaustive: all sequences of `depth` chunk lengths from a boundary set, on rings whose
 * requested size sits at the page rounding boundary; the ring is read back after every
 * sequence (and checked via qb_rb_space_used() after every write), a snapshot every 16th */
static int exh_mode(uint64_t seed, int depth, int pre)
{
	long pg = sysconf(_SC_PAGESIZE);
	long sizes[] = { pg - 13, pg - 14, pg - 15, pg - 16, pg - 12, 2 * pg - 13, 100, 0 };
	unsigned si, n = 0;
	for (si = 0; si < sizeof(sizes) / sizeof(sizes[0]) && !failed; si++) {
		long S = sizes[si];
		long lens[32];
		int nl = 0, idx[8] = { 0 }, d, i;
		long cand[] = { 0, 1, 3, 4, 5, 8, S / 2 - 8, S / 2, S / 2 + 1, S - 17, S - 16, S - 9, S - 8, S - 5, S - 4, S - 3, S - 2, S - 1, S };
		for (i = 0; i < (int)(sizeof(cand) / sizeof(cand[0])); i++) {
			int j, dup = 0;
			if (cand[i] < 0 || cand[i] > S) continue;
			for (j = 0; j < nl; j++) if (lens[j] == cand[i]) dup = 1;
			if (!dup) lens[nl++] = cand[i];
		}
		for (;;) {
			forced_size = S;
			ring_open(n++);
			/* move the indices to a random place first, so that the sequences wrap at different offsets */
			forced_len = -1;
			for (i = 0; i < pre && !failed; i++) { if (rnd(3)) op_write(); else op_read(); }
			for (d = 0; d < depth && !failed; d++) {
				forced_len = lens[idx[d]];
				op_write();
				n_ops++;
			}
			forced_len = -1;
			if (!failed && (n % 16) == 0) op_snapshot();
			while (!failed && head < tail) op_read();
			if (!failed) op_read();	/* must report empty */
			if (failed)
				fprintf(err, "exh size %ld seed %llu\ntrace: %s\n", S, (unsigned long long)seed, trace);
			if (rd != rb) qb_rb_close(rd);
			qb_rb_close(rb);
			if (failed) break;
			for (d = depth - 1; d >= 0; d--) {
				if (++idx[d] < nl) break;
				idx[d] = 0;
			}
			if (d < 0) break;
		}
	}
	forced_size = -1;
	return failed;
}

/* ---- blackbox mode ------------------------------------------------------ */
#define BB_FNS 6
static char *bb_fn[BB_FNS];
struct bbrec { uint32_t seq; uint32_t slen; uint32_t fn; uint32_t lineno; int toolong; };
static struct bbrec *bbm;
static size_t bb_n, bb_cap;
static size_t bb_size;
static int bb_maxline = QB_LOG_MAX_LEN;
static unsigned long bb_short;

static void bb_str(char *s, uint32_t seq, uint32_t n)
{
	uint32_t i;
	uint64_t st = 0x2545F4914F6CDD1DULL * (seq + 7);
	for (i = 0; i < n; i++) {
		st ^= st << 13; st ^= st >> 7; st ^= st << 17;
		s[i] = "abcdefghijklmnopqrstuvwxyz0123456789_-+=/.,"[(st >> 20) % 43];
	}
	s[n] = 0;
}

#define BB_FMT "SEQ=%d;%s"

static void bb_log(void)
{
	char s[QB_LOG_ABSOLUTE_MAX_LEN + 8];
	uint32_t seq = next_seq++;
	uint32_t fn = rnd(BB_FNS);
	/* serialized: format + NUL + int + string + NUL */
	uint32_t room = bb_maxline - (sizeof(BB_FMT) + 4 + 1);
	uint32_t slen;
	uint32_t lineno = 1 + rnd(50);
	int toolong = 0;

	switch (rnd(5)) {
	case 0: slen = rnd(8); break;
	case 1: slen = room - 1 - rnd(4); break;	/* the longest that still fit */
	case 2: slen = room + rnd(40); toolong = (slen >= room); break;
	default: slen = rnd(room); break;
	}
	if (slen >= room) toolong = 1;
	bb_str(s, seq, slen);
	tr("L%u/%u ", slen, fn);
	qb_log_from_external_source(bb_fn[fn], "fuzz.c", BB_FMT, LOG_INFO, lineno, 0, (int)seq, s);
	if (bb_n == bb_cap) {
		bb_cap = bb_cap ? bb_cap * 2 : 4096;
		bbm = realloc(bbm, bb_cap * sizeof(*bbm));
	}
	bbm[bb_n].seq = seq; bbm[bb_n].slen = slen; bbm[bb_n].fn = fn; bbm[bb_n].lineno = lineno;
	bbm[bb_n].toolong = toolong;
	bb_n++;
	n_writes++;
}

static size_t bb_rec_size(const struct bbrec *r)
{
	size_t msg = r->toolong ? (size_t)QB_MIN(76, bb_maxline - 1) + 1
				: sizeof(BB_FMT) + 4 + r->slen + 1;
	return 4 * 4 + 1 + strlen(bb_fn[r->fn]) + 1 + sizeof(struct timespec) + msg;
}

static void bb_dump_check(void)
{
	char path[64], out[64];
	int saved, fd, rc, tries;
	FILE *f;
	char *line = NULL;
	size_t cap = 0;
	ssize_t n;
	size_t nrec = 0, idx = 0, g, sum;
	int have_first = 0;

	tr("D ");
	snprintf(path, sizeof(path), "/tmp/hunt-C11/bb-%d.dump", getpid());
	snprintf(out, sizeof(out), "/tmp/hunt-C11/bb-%d.out", getpid());
	unlink(path);
	fflush(stdout);
	if (qb_log_blackbox_write_to_file(path) < 0) {
		FAIL("qb_log_blackbox_write_to_file failed");
		return;
	}
	fflush(stdout);
	saved = dup(1);
	for (tries = 0; tries < 200; tries++) {
		fd = open(out, O_CREAT | O_TRUNC | O_WRONLY, 0600);
		dup2(fd, 1);
		close(fd);
		flock(lock_fd, LOCK_EX);
		rc = qb_log_blackbox_print_from_file(path);
		flock(lock_fd, LOCK_UN);
		fflush(stdout);
		dup2(saved, 1);
		if (rc != -EIO)
			break;
		/* -EIO is both "could not load" (name clash) and the normal end */
		{
			struct stat st;
			if (stat(out, &st) == 0 && st.st_size > 0)
				break;
		}
		usleep(1000 + rnd(5000));
	}
	close(saved);
	n_snaps++;

	f = fopen(out, "r");
	while ((n = getline(&line, &cap, f)) > 0) {
		char *p;
		long seq;
		char exp[QB_LOG_ABSOLUTE_MAX_LEN + 64];
		char fnbuf[64];
		if (strncmp(line, "ERROR", 5) == 0) {
			FAIL("blackbox print: %s", line);
			break;
		}
		if (strncmp(line, "info ", 5) != 0)
			continue;	/* ring header printed by the library */
		if (line[n - 1] == '\n') line[n - 1] = 0;
		p = strstr(line, "SEQ=");
		if (p) {
			seq = strtol(p + 4, NULL, 10);
			if (!have_first) {
				if (seq < bbm[0].seq || seq > bbm[bb_n - 1].seq) {
					FAIL("blackbox print: first record has unknown seq %ld", seq);
					break;
				}
				idx = seq - bbm[0].seq;
				have_first = 1;
			}
		} else if (!have_first) {
			/* a "too long" placeholder leads the dump: find it when the next one tells */
			nrec++;
			continue;
		}
		if (idx >= bb_n) {
			FAIL("blackbox print: more records than were logged: %s", line);
			break;
		}
		if (bbm[idx].toolong) {
			snprintf(exp, sizeof(exp), "%.*s", bb_maxline - 1,
				 "Log message too long to be stored in the blackbox.  Maximum is QB_LOG_MAX_LEN");
		} else {
			int l = snprintf(exp, sizeof(exp), "SEQ=%d;", (int)bbm[idx].seq);
			bb_str(exp + l, bbm[idx].seq, bbm[idx].slen);
		}
		snprintf(fnbuf, sizeof(fnbuf), " %.40s(%u):0: ", bb_fn[bbm[idx].fn], bbm[idx].lineno);
		p = strstr(line, "):0: ");
		if (p == NULL || strcmp(p + 5, exp) != 0 ||
		    (strlen(bb_fn[bbm[idx].fn]) <= 40 && strstr(line, fnbuf) == NULL)) {
			FAIL("blackbox print: record for seq %u differs:\n got: %s\n exp: ...%s%s", bbm[idx].seq, line, fnbuf, exp);
			break;
		}
		idx++;
		nrec++;
	}
	free(line);
	fclose(f);
	if (failed)
		return;
	if (bb_n && nrec == 0) {
		char cmd[256];
		FAIL("blackbox dump holds no record although %zu were logged (last seq %u), print rc %d tries %d", bb_n, bbm[bb_n - 1].seq, rc, tries);
		snprintf(cmd, sizeof(cmd), "cp %s /tmp/hunt-C11/fail.dump; cp %s /tmp/hunt-C11/fail.out", path, out);
		if (system(cmd)) {}
		return;
	}
	if (bb_n && !have_first) {
		/* only placeholders */
		idx = bb_n;
	}
	if (bb_n && idx != bb_n) {
		FAIL("blackbox dump ends with seq %u but the last record logged is seq %u (%zu missing at the end)",
		     idx ? bbm[idx - 1].seq : 0, bbm[bb_n - 1].seq, bb_n - idx);
		return;
	}
	/* how many should be there at least (soft: counted, not failed) */
	g = bb_n; sum = 0;
	while (g > 0 && sum + bb_rec_size(&bbm[g - 1]) + 16 <= bb_size) {
		sum += bb_rec_size(&bbm[g - 1]) + 16;
		g--;
	}
	if (bb_n - g > nrec) {
		bb_short++;
		if (verbose)
			fprintf(err, "note: dump holds %zu records, %zu newest fit in size %zu\n", nrec, bb_n - g, bb_size);
	}
}

static int bb_mode(uint64_t seed, int rounds, int ops)
{
	int r, o, i;
	static const int fnlen[BB_FNS] = { 1, 4, 12, 33, 100, 300 };
	for (i = 0; i < BB_FNS; i++) {
		bb_fn[i] = malloc(fnlen[i] + 1);
		memset(bb_fn[i], 'f', fnlen[i]);
		bb_fn[i][0] = 'A' + i;
		bb_fn[i][fnlen[i]] = 0;
	}
	qb_log_init("hc11", LOG_USER, LOG_EMERG);
	qb_log_ctl(QB_LOG_SYSLOG, QB_LOG_CONF_ENABLED, QB_FALSE);
	qb_log_filter_ctl(QB_LOG_BLACKBOX, QB_LOG_FILTER_ADD, QB_LOG_FILTER_FILE, "*", LOG_TRACE);
	for (r = 0; r < rounds && !failed; r++) {
		long pg = sysconf(_SC_PAGESIZE);
		switch (rnd(4)) {
		case 0: bb_size = 1024 + rnd(64); break;
		case 1: bb_size = (1 + rnd(3)) * pg - 13 - 6 + rnd(12); break;
		case 2: bb_size = 1024 + rnd(3 * pg); break;
		default: bb_size = 1024 + rnd(16 * pg); break;
		}
		bb_n = 0;
		trace_len = 0;
		tr("bb size=%zu\n", bb_size);
		qb_log_ctl(QB_LOG_BLACKBOX, QB_LOG_CONF_SIZE, bb_size);
		if (qb_log_ctl(QB_LOG_BLACKBOX, QB_LOG_CONF_ENABLED, QB_TRUE) != 0) {
			fprintf(err, "cannot enable blackbox size %zu\n", bb_size);
			exit(2);
		}
		{
			int dump_pct = rnd(3) ? 1 : 10;
			for (o = 0; o < ops && !failed; o++) {
				n_ops++;
				if (rnd(100) < (uint32_t)dump_pct && bb_n) bb_dump_check();
				else bb_log();
			}
		}
		if (!failed && bb_n)
			bb_dump_check();
		if (failed)
			fprintf(err, "seed %llu round %d blackbox size %zu\ntrace: %s\n",
				(unsigned long long)seed, r, bb_size, trace);
		qb_log_ctl(QB_LOG_BLACKBOX, QB_LOG_CONF_ENABLED, QB_FALSE);
	}
	qb_log_fini();
	return failed;
}

int main(int argc, char **argv)
{
	uint64_t seed;
	int rounds, ops, rc;
	char p[64];

	if (argc < 5) {
		fprintf(stderr, "usage: %s ring|bb seed rounds ops\n", argv[0]);
		return 2;
	}
	err = fdopen(dup(2), "w");
	verbose = getenv("V") != NULL;
	seed = strtoull(argv[2], NULL, 0);
	rounds = atoi(argv[3]);
	ops = atoi(argv[4]);
	rng_s = seed * 0x9E3779B97F4A7C15ULL + 0x1234567;
	rnd64(); rnd64();
	/* the library prints ring headers on stdout and perror()s the end of a dump */
	if (!freopen("/dev/null", "w", stdout)) return 2;
	mkdir("/tmp/hunt-C11/logs", 0755);
	snprintf(selog, sizeof(selog), "/tmp/hunt-C11/logs/stderr-%s-%llu.log", argv[1], (unsigned long long)seed);
	if (!verbose && !freopen(selog, "w", stderr)) return 2;
	lock_fd = open("/tmp/hunt-C11/cff.lock", O_CREAT | O_RDWR, 0666);

	if (strcmp(argv[1], "ring") == 0)
		rc = ring_mode(seed, rounds, ops);
	else if (strcmp(argv[1], "exh") == 0)
		rc = exh_mode(seed, rounds, ops);	/* exh <seed> <depth> <random ops before each sequence> */
	else
		rc = bb_mode(seed, rounds, ops);
	if (!verbose) {
		FILE *f;
		char l[1024];
		fflush(stderr);
		f = fopen(selog, "r");
		while (f && fgets(l, sizeof(l), f)) {
			if (strstr(l, "runtime error") == NULL)
				continue;
			/* the failed-open cleanup of qb_rb_open (name clash of "create_from_file"
			 * with another process) is not what is tested here */
			if (strstr(l, "ringbuffer.c:270:") || strstr(l, "ringbuffer.c:276:"))
				continue;
			fprintf(err, "SANITIZER: %s", l);
			rc = 1;
		}
		if (f) fclose(f);
		if (!rc) unlink(selog);
	}
	fprintf(err, "%s seed %llu: ops %lu writes %lu reads %lu snapshots %lu fullring-writes %lu bb-short %lu unsynced %lu -> %s\n",
		argv[1], (unsigned long long)seed, n_ops, n_writes, n_reads, n_snaps, n_fullring, bb_short, n_unsynced,
		rc ? "VIOLATION" : "ok");
	snprintf(p, sizeof(p), "/tmp/hunt-C11/snap-%d", getpid()); unlink(p);
	snprintf(p, sizeof(p), "/tmp/hunt-C11/bb-%d.dump", getpid()); unlink(p);
	snprintf(p, sizeof(p), "/tmp/hunt-C11/bb-%d.out", getpid()); unlink(p);
	return rc;
}
