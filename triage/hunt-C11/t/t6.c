#include <stdio.h>
#include <stdint.h>
#include <string.h>
#include <stdlib.h>
#include <unistd.h>
#include <qb/qbrb.h>
int main(void)
{
	char name[64], buf[8192], *big = calloc(1, 100000);
	ssize_t r;
	qb_ringbuffer_t *rb;
	snprintf(name, sizeof(name), "hc11-t6-%d", getpid());
	rb = qb_rb_open(name, 4000, QB_RB_FLAG_CREATE | QB_RB_FLAG_OVERWRITE | QB_RB_FLAG_NO_SEMAPHORE, 0);
	if (!rb) return 2;
	printf("write A -> %zd\n", qb_rb_chunk_write(rb, "AAAA", 4));
	printf("write B -> %zd\n", qb_rb_chunk_write(rb, "BBBB", 4));
	r = qb_rb_chunk_write(rb, big, 4085);
	printf("write 4085 bytes (requested size 4000, ring 4096) -> %zd (%s)\n", r, r < 0 ? strerror(-r) : "");
	r = qb_rb_chunk_read(rb, buf, sizeof(buf), 0);
	printf("read -> %zd (%s)\n", r, r < 0 ? strerror(-r) : "");
	qb_rb_close(rb);
	free(big);
	return r == 4 ? 0 : 1;
}
