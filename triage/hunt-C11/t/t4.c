#include "os_base.h"
#include <qb/qbdefs.h>
#include <qb/qblog.h>
int main(void)
{
	int rc, i;
	setvbuf(stdout, NULL, _IONBF, 0);
	qb_log_init("t4", LOG_USER, LOG_EMERG);
	qb_log_ctl(QB_LOG_SYSLOG, QB_LOG_CONF_ENABLED, QB_FALSE);
	qb_log_filter_ctl(QB_LOG_BLACKBOX, QB_LOG_FILTER_ADD, QB_LOG_FILTER_FILE, "*", LOG_TRACE);
	qb_log_ctl(QB_LOG_BLACKBOX, QB_LOG_CONF_SIZE, 64 * 1024);
	rc = qb_log_ctl(QB_LOG_BLACKBOX, QB_LOG_CONF_THREADED, QB_TRUE);
	fprintf(stderr, "threaded -> %d\n", rc);
	rc = qb_log_ctl(QB_LOG_BLACKBOX, QB_LOG_CONF_ENABLED, QB_TRUE);
	fprintf(stderr, "enable -> %d\n", rc);
	rc = qb_log_thread_start();
	fprintf(stderr, "thread start -> %d\n", rc);
	for (i = 0; i < 3; i++)
		qb_log(LOG_INFO, "msg %d", i);
	sleep(1);
	unlink("/tmp/hunt-C11/t/t4.dump");
	qb_log_blackbox_write_to_file("/tmp/hunt-C11/t/t4.dump");
	printf("---- print\n");
	rc = qb_log_blackbox_print_from_file("/tmp/hunt-C11/t/t4.dump");
	printf("---- rc %d\n", rc);
	qb_log_fini();
	return 0;
}
