/* blackbox with QB_LOG_CONF_MAX_LINE_LEN > 512: one long record, then short ones; dump + print */
#include "os_base.h"
#include <qb/qbdefs.h>
#include <qb/qblog.h>
int main(int argc, char **argv)
{
	int maxlen = argc > 1 ? atoi(argv[1]) : 1024;
	int slen = argc > 2 ? atoi(argv[2]) : 600;
	int fnlen = argc > 3 ? atoi(argv[3]) : 4;
	char *s = malloc(slen + 1), *fn = malloc(fnlen + 1);
	int i, rc;
	setvbuf(stdout, NULL, _IONBF, 0);
	memset(s, 'x', slen); s[slen] = 0;
	memset(fn, 'f', fnlen); fn[fnlen] = 0;
	qb_log_init("t1", LOG_USER, LOG_EMERG);
	qb_log_ctl(QB_LOG_SYSLOG, QB_LOG_CONF_ENABLED, QB_FALSE);
	qb_log_filter_ctl(QB_LOG_BLACKBOX, QB_LOG_FILTER_ADD, QB_LOG_FILTER_FILE, "*", LOG_TRACE);
	qb_log_ctl(QB_LOG_BLACKBOX, QB_LOG_CONF_SIZE, 64 * 1024);
	if (maxlen) {
		rc = qb_log_ctl(QB_LOG_BLACKBOX, QB_LOG_CONF_MAX_LINE_LEN, maxlen);
		fprintf(stderr, "MAX_LINE_LEN %d -> %d\n", maxlen, rc);
	}
	rc = qb_log_ctl(QB_LOG_BLACKBOX, QB_LOG_CONF_ENABLED, QB_TRUE);
	fprintf(stderr, "enable -> %d\n", rc);
	for (i = 0; i < 3; i++)
		qb_log_from_external_source("main", "t1.c", "before %d", LOG_INFO, 10, 0, i);
	qb_log_from_external_source(fn, "t1.c", "long %s", LOG_INFO, 11, 0, s);
	for (i = 0; i < 3; i++)
		qb_log_from_external_source("main", "t1.c", "after %d", LOG_INFO, 12, 0, i);
	unlink("/tmp/hunt-C11/t/t1.dump");
	qb_log_blackbox_write_to_file("/tmp/hunt-C11/t/t1.dump");
	fflush(stdout);
	printf("---- print\n");
	rc = qb_log_blackbox_print_from_file("/tmp/hunt-C11/t/t1.dump");
	printf("---- rc %d\n", rc);
	qb_log_fini(); free(s); free(fn);
	return 0;
}
