/* default (semaphore) overwrite ring: count writes until one fails */
#include <stdio.h>
#include <stdint.h>
#include <string.h>
#include <unistd.h>
#include <qb/qbrb.h>
int main(void)
{
	char name[64];
	uint64_t i;
	ssize_t r;
	qb_ringbuffer_t *rb;
	snprintf(name, sizeof(name), "hc11-t3-%d", getpid());
	rb = qb_rb_open(name, 4000, QB_RB_FLAG_CREATE | QB_RB_FLAG_OVERWRITE, 0);
	if (!rb) return 2;
	for (i = 1; i <= 2200000000ULL; i++) {
		r = qb_rb_chunk_write(rb, "abcd", 4);
		if (r != 4) {
			char buf[16];
			ssize_t rr;
			printf("write #%llu returned %zd (%s)\n", (unsigned long long)i, r, strerror(-r));
			r = qb_rb_chunk_write(rb, "efgh", 4);
			printf("next write returned %zd\n", r);
			rr = qb_rb_chunk_read(rb, buf, sizeof(buf), 0);
			printf("read returned %zd\n", rr);
			qb_rb_close(rb);
			return 1;
		}
	}
	printf("no failure in %llu writes\n", (unsigned long long)i - 1);
	qb_rb_close(rb);
	return 0;
}
