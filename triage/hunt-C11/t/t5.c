/* how many records does a blackbox of a given size keep? */
#include "os_base.h"
#include <qb/qbdefs.h>
#include <qb/qblog.h>
int main(int argc, char **argv)
{
	int size = atoi(argv[1]), maxlen = atoi(argv[2]);
	int i, rc, n = 0, last = -1, first = -1;
	char line[2048];
	FILE *f;
	qb_log_init("t5", LOG_USER, LOG_EMERG);
	qb_log_ctl(QB_LOG_SYSLOG, QB_LOG_CONF_ENABLED, QB_FALSE);
	qb_log_filter_ctl(QB_LOG_BLACKBOX, QB_LOG_FILTER_ADD, QB_LOG_FILTER_FILE, "*", LOG_TRACE);
	qb_log_ctl(QB_LOG_BLACKBOX, QB_LOG_CONF_SIZE, size);
	if (maxlen) qb_log_ctl(QB_LOG_BLACKBOX, QB_LOG_CONF_MAX_LINE_LEN, maxlen);
	rc = qb_log_ctl(QB_LOG_BLACKBOX, QB_LOG_CONF_ENABLED, QB_TRUE);
	for (i = 0; i < 1000; i++)
		qb_log_from_external_source("main", "t5.c", "m%d", LOG_INFO, 10, 0, i);
	unlink("/tmp/hunt-C11/t/t5.dump");
	qb_log_blackbox_write_to_file("/tmp/hunt-C11/t/t5.dump");
	fflush(stdout);
	if (!freopen("/tmp/hunt-C11/t/t5.out", "w", stdout)) return 2;
	rc = qb_log_blackbox_print_from_file("/tmp/hunt-C11/t/t5.dump");
	fflush(stdout);
	f = fopen("/tmp/hunt-C11/t/t5.out", "r");
	while (fgets(line, sizeof(line), f)) {
		char *p = strstr(line, "):0: m");
		if (!p) continue;
		last = atoi(p + 6);
		if (first < 0) first = last;
		n++;
	}
	/* record: 4*4+1 + fn_size(5) + timespec(16) + msg (fmt "m%d"+NUL = 4, int = 4) = 46 */
	fprintf(stderr, "size %d max_line_len %d: %d records m%d..m%d in the dump; %d records of 46+16 bytes fit in %d\n",
		size, maxlen ? maxlen : 512, n, first, last, size / 62, size);
	qb_log_fini();
	return 0;
}
