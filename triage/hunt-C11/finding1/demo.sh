#!/bin/sh
# demo.sh <tree>: exit 0 = property held, 1 = violated
T=${1:-/repo}
D=$(cd "$(dirname "$0")" && pwd)
B=$(mktemp -d /tmp/hc11-f1-XXXXXX)
gcc -g -O1 -I"$T/include" "$D/demo.c" -o "$B/demo" -L"$T/lib/.libs" -lqb || exit 2
rc=0
LD_LIBRARY_PATH="$T/lib/.libs" "$B/demo" 0 >/dev/null 2>&1 || { echo "control run failed"; rm -rf "$B"; exit 2; }
LD_LIBRARY_PATH="$T/lib/.libs" "$B/demo" 1 || rc=1
LD_LIBRARY_PATH="$T/lib/.libs" "$B/demo" 2 || rc=1
rm -rf "$B"
[ $rc -eq 0 ] && echo "finding1: property held" || echo "finding1: PROPERTY VIOLATED"
exit $rc
