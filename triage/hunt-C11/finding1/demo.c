/*
 * C11 finding 1: the blackbox stores records that its own dump reader cannot
 * get past, so a printed dump does not end with the last record logged.
 *
 * usage: demo <variant>   0: control, default settings, 100 character message
 *                         1: QB_LOG_CONF_MAX_LINE_LEN=1024, one 600 character message
 *                         2: default settings, a 600 character function name + 400 character message
 * exit 0: all 7 records printed, the last one last; 1: the run of records stops early
 */
#include <stdio.h>
#include <stdlib.h>
#include <string.h>
#include <unistd.h>
#include <syslog.h>
#include <qb/qbdefs.h>
#include <qb/qblog.h>

int main(int argc, char **argv)
{
	int variant = argc > 1 ? atoi(argv[1]) : 1;
	int slen = variant == 0 ? 100 : variant == 1 ? 600 : 400;	/* 0: control */
	int fnlen = variant == 2 ? 600 : 4;
	char *s = malloc(slen + 1), *fn = malloc(fnlen + 1);
	char dump[64], out[64], line[4096];
	int i, rc, tries, nrec = 0, saw_last = 0, saw_long = 0;
	FILE *f;

	memset(s, 'x', slen); s[slen] = 0;
	memset(fn, 'f', fnlen); fn[fnlen] = 0;
	snprintf(dump, sizeof(dump), "/tmp/hc11-f1-%d.dump", getpid());
	snprintf(out, sizeof(out), "/tmp/hc11-f1-%d.out", getpid());

	qb_log_init("f1", LOG_USER, LOG_EMERG);
	qb_log_ctl(QB_LOG_SYSLOG, QB_LOG_CONF_ENABLED, QB_FALSE);
	qb_log_filter_ctl(QB_LOG_BLACKBOX, QB_LOG_FILTER_ADD, QB_LOG_FILTER_FILE, "*", LOG_TRACE);
	qb_log_ctl(QB_LOG_BLACKBOX, QB_LOG_CONF_SIZE, 64 * 1024);
	if (variant == 1) {
		rc = qb_log_ctl(QB_LOG_BLACKBOX, QB_LOG_CONF_MAX_LINE_LEN, 1024);
		fprintf(stderr, "qb_log_ctl(QB_LOG_BLACKBOX, QB_LOG_CONF_MAX_LINE_LEN, 1024) = %d\n", rc);
	}
	rc = qb_log_ctl(QB_LOG_BLACKBOX, QB_LOG_CONF_ENABLED, QB_TRUE);
	if (rc != 0) { fprintf(stderr, "cannot enable the blackbox: %d\n", rc); return 2; }

	for (i = 0; i < 3; i++)
		qb_log_from_external_source("main", "demo.c", "before %d", LOG_INFO, 10, 0, i);
	qb_log_from_external_source(fn, "demo.c", "long %s", LOG_INFO, 11, 0, s);
	for (i = 0; i < 3; i++)
		qb_log_from_external_source("main", "demo.c", "after %d", LOG_INFO, 12, 0, i);

	unlink(dump);
	if (qb_log_blackbox_write_to_file(dump) < 0) { fprintf(stderr, "dump failed\n"); return 2; }
	fflush(stdout);
	/* the reader loads the dump into a ring with a fixed name; retry when another
	 * process on the machine happens to use it at the same moment */
	for (tries = 0; tries < 100; tries++) {
		if (!freopen(out, "w", stdout)) return 2;
		rc = qb_log_blackbox_print_from_file(dump);
		fflush(stdout);
		nrec = saw_last = saw_long = 0;
		f = fopen(out, "r");
		while (f && fgets(line, sizeof(line), f)) {
			if (strstr(line, "):0: ") || strncmp(line, "ERROR", 5) == 0)
				fprintf(stderr, "  | %.100s%s", line, strlen(line) > 100 ? "...\n" : "");
			if (strstr(line, "):0: ")) nrec++;
			if (strstr(line, "):0: long ")) saw_long = 1;
			if (strstr(line, "):0: after 2")) saw_last = 1;
		}
		if (f) fclose(f);
		if (nrec > 0)
			break;
		usleep(20000);
	}
	unlink(dump); unlink(out);
	qb_log_fini();
	free(s); free(fn);
	fprintf(stderr, "variant %d: 7 records logged, %d printed from the dump, long record %s, last record (\"after 2\") %s\n",
		variant, nrec, saw_long ? "printed" : "NOT printed", saw_last ? "printed" : "NOT printed");
	return (nrec == 7 && saw_last) ? 0 : 1;
}
