#!/bin/sh
# build.sh [tree]   - builds ./fuzz (ASan+UBSan) with the tree's lib/*.c compiled in
set -e
T=${1:-/repo}
D=$(cd "$(dirname "$0")" && pwd)
SRCS="util hdb ringbuffer ringbuffer_helper array loop loop_poll loop_poll_epoll loop_job loop_timerlist ipcc ipcs ipc_shm ipc_setup ipc_socket log log_thread log_blackbox log_file log_syslog log_dcs log_format map skiplist hashtable trie unix strlcpy strlcat"
CF="-g -O1 -fsanitize=address,undefined -fno-omit-frame-pointer -DHAVE_CONFIG_H -I$T/include -I$T/include/qb -I$T/lib"
mkdir -p "$D/obj"
for f in $SRCS; do
	gcc $CF -w -c "$T/lib/$f.c" -o "$D/obj/$f.o"
done
OBJS=$(for f in $SRCS; do echo "$D/obj/$f.o"; done)
gcc $CF -Wall -o "$D/fuzz" "$D/fuzz.c" $OBJS -lpthread -ldl -lrt
