#!/bin/sh
# demo.sh <tree>: exit 0 = property held, 1 = violated   (runs about 3 minutes)
T=${1:-/repo}
D=$(cd "$(dirname "$0")" && pwd)
B=$(mktemp -d /tmp/hc11-f2-XXXXXX)
gcc -O2 -I"$T/include" "$D/demo.c" -o "$B/demo" -L"$T/lib/.libs" -lqb || exit 2
LD_LIBRARY_PATH="$T/lib/.libs" "$B/demo"; rc=$?
rm -rf "$B"
[ $rc -eq 0 ] && echo "finding2: property held" || echo "finding2: PROPERTY VIOLATED"
exit $rc
