/*
 * C11 finding 2: an overwrite ring opened with the default notifier (no
 * QB_RB_FLAG_NO_SEMAPHORE) counts every committed chunk in a POSIX semaphore
 * and never takes the count back when it overwrites old chunks. After
 * SEM_VALUE_MAX (2^31-1) writes nobody read, every further write returns
 * -EOVERFLOW - although the requested size is 4000 and the chunk has 4 bytes.
 * (takes about 3 minutes)
 * exit 0: 2^31+10 writes all succeeded; 1: a write failed
 */
#include <stdio.h>
#include <stdint.h>
#include <string.h>
#include <unistd.h>
#include <qb/qbrb.h>

int main(void)
{
	char name[64], buf[16];
	uint64_t i, n = (1ULL << 31) + 10;
	ssize_t r;
	qb_ringbuffer_t *rb;

	snprintf(name, sizeof(name), "hc11-f2-%d", getpid());
	rb = qb_rb_open(name, 4000, QB_RB_FLAG_CREATE | QB_RB_FLAG_OVERWRITE, 0);
	if (!rb) return 2;
	for (i = 1; i <= n; i++) {
		r = qb_rb_chunk_write(rb, "abcd", 4);
		if (r != 4) {
			printf("write #%llu of 4 bytes returned %zd (%s)\n", (unsigned long long)i, r, strerror(-r));
			r = qb_rb_chunk_write(rb, "efgh", 4);
			printf("write #%llu returned %zd\n", (unsigned long long)i + 1, r);
			r = qb_rb_chunk_read(rb, buf, sizeof(buf), 0);
			printf("a read still returns %zd\n", r);
			qb_rb_close(rb);
			return 1;
		}
	}
	printf("%llu writes, all succeeded\n", (unsigned long long)n);
	qb_rb_close(rb);
	return 0;
}
