/* targeted: backlog limit. usage: targeted_backlog <nmsgs> <len> <slow_us> */
#include <stdio.h>
#include <stdlib.h>
#include <string.h>
#include <unistd.h>
#include <syslog.h>
#include <qb/qblog.h>
static int n, last = -1, bad;
static int slow;
static void cb(int32_t t, struct qb_log_callsite *cs, struct timespec *ts, const char *msg)
{
	int k = atoi(msg);
	if (k <= last) bad++;
	last = k; n++;
	if (slow) usleep(slow);
}
int main(int argc, char **argv)
{
	int N = atoi(argv[1]), len = atoi(argv[2]), i, t, lost = 0, k, round;
	char m[5000], line[256];
	FILE *f;
	slow = atoi(argv[3]);
	alarm(300);
	if (!freopen("/tmp/hunt2-C16/out/tb.txt", "w", stdout)) return 2;
	for (round = 0; round < 2; round++) {
	qb_log_init("demo", LOG_USER, LOG_EMERG);
	qb_log_ctl(QB_LOG_SYSLOG, QB_LOG_CONF_ENABLED, QB_FALSE);
	t = qb_log_custom_open(cb, NULL, NULL, NULL);
	qb_log_filter_ctl(t, QB_LOG_FILTER_ADD, QB_LOG_FILTER_FILE, "*", LOG_DEBUG);
	qb_log_ctl(t, QB_LOG_CONF_THREADED, QB_TRUE);
	qb_log_ctl(t, QB_LOG_CONF_MAX_LINE_LEN, 4096);
	qb_log_ctl(t, QB_LOG_CONF_ENABLED, QB_TRUE);
	qb_log_thread_start();
	for (i = 0; i < N; i++) {
		int l = snprintf(m, sizeof(m), "%08d:", i + round * N);
		memset(m + l, 'x', len); m[l + len] = 0;
		qb_log_from_external_source("f", "x.c", "%s", LOG_INFO, 1, 0, m);
	}
	qb_log_fini();
	}
	fflush(stdout);
	f = fopen("/tmp/hunt2-C16/out/tb.txt", "r");
	while (fgets(line, sizeof(line), f)) if (sscanf(line, "%d messages lost", &k) == 1) lost += k;
	fprintf(stderr, "logged %d, written %d, reported lost %d, order errors %d -> %s\n", 2 * N, n, lost, bad,
		(n + lost == 2 * N && !bad) ? "ok" : "VIOLATION");
	return !(n + lost == 2 * N && !bad);
}
