#!/bin/sh
# usage: demo.sh <tree>    exit 0 = property held, non-zero = violated
T=${1:-/repo}
D=$(cd "$(dirname "$0")" && pwd)
B=$(mktemp -d /tmp/hunt2-C16/demo.XXXXXX) || exit 99
gcc -g -O1 -w -I"$T/include" "$D/demo.c" -o "$B/demo" -L"$T/lib/.libs" -lqb -lpthread || { rm -rf "$B"; exit 99; }
LD_LIBRARY_PATH="$T/lib/.libs" "$B/demo"
rc=$?
rm -rf "$B"
exit $rc
