/* C16 finding 3: disabling (or closing) a threaded target that has a backlog
 * silently discards the backlog - the messages were logged while the target
 * was enabled, the limit was not exceeded, nothing is reported as lost.
 * Part 2: after close + open the backlog of the OLD target is written to the
 * NEW target that got the same slot (which also inherits THREADED). */
#include <stdio.h>
#include <stdlib.h>
#include <string.h>
#include <unistd.h>
#include <syslog.h>
#include <qb/qblog.h>

#define N 60
static int gotA, gotNew, lastA = -1, orderbad;
static int tA, tN;

static void cbA(int32_t t, struct qb_log_callsite *cs, struct timespec *ts, const char *msg)
{
	int k = atoi(msg);
	if (k != lastA + 1) orderbad = 1;
	lastA = k;
	gotA++;
	usleep(5000);		/* a slow target: the reason to use the thread at all */
}
static void cbNew(int32_t t, struct qb_log_callsite *cs, struct timespec *ts, const char *msg)
{
	if (strcmp(msg, "new") != 0) gotNew++;
}
#define LOG(m) qb_log_from_external_source(__func__, __FILE__, "%s", LOG_INFO, __LINE__, 0, m)

int main(void)
{
	int i, bad = 0, a1;
	char m[32];
	alarm(60);
	qb_log_init("demo", LOG_USER, LOG_EMERG);
	qb_log_ctl(QB_LOG_SYSLOG, QB_LOG_CONF_ENABLED, QB_FALSE);
	qb_log_thread_start();

	/* part 1: disable */
	tA = qb_log_custom_open(cbA, NULL, NULL, NULL);
	qb_log_filter_ctl(tA, QB_LOG_FILTER_ADD, QB_LOG_FILTER_FILE, "*", LOG_DEBUG);
	qb_log_ctl(tA, QB_LOG_CONF_THREADED, QB_TRUE);
	qb_log_ctl(tA, QB_LOG_CONF_ENABLED, QB_TRUE);
	for (i = 0; i < N; i++) { snprintf(m, sizeof(m), "%d", i); LOG(m); }
	qb_log_ctl(tA, QB_LOG_CONF_ENABLED, QB_FALSE);
	usleep(N * 7000);	/* more than enough for the thread to work through the queue */
	a1 = gotA;
	printf("part 1: %d messages logged to the enabled target, %d written, then disabled\n", N, a1);
	if (a1 != N) bad = 1;

	/* part 2: backlog, close, open another target */
	gotA = 0; lastA = -1;
	qb_log_ctl(tA, QB_LOG_CONF_ENABLED, QB_TRUE);
	usleep(N * 7000);	/* whatever part 1 left in the queue is written now (late) */
	printf("part 1: after enabling again %d more of the old messages were written\n", gotA);
	gotA = 0; lastA = -1;
	for (i = 0; i < N; i++) { snprintf(m, sizeof(m), "%d", i); LOG(m); }
	qb_log_custom_close(tA);
	tN = qb_log_custom_open(cbNew, NULL, NULL, NULL);
	qb_log_filter_ctl(tN, QB_LOG_FILTER_ADD, QB_LOG_FILTER_FILE, "*", LOG_DEBUG);
	qb_log_ctl(tN, QB_LOG_CONF_ENABLED, QB_TRUE);
	LOG("new");
	qb_log_fini();
	printf("part 2: %d messages logged to target A (slot %d), %d written before its close;\n"
	       "        new target (slot %d) received %d messages that were logged before it existed\n",
	       N, tA, gotA, tN, gotNew);
	if (gotA != N || gotNew != 0) bad = 1;
	if (bad) {
		printf("VIOLATED: messages logged to an enabled threaded target were neither written nor reported lost\n");
		return 1;
	}
	printf("property held\n");
	return 0;
}
