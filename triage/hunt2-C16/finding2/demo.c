/* C16 finding 2: switching a target back to non-threaded while messages for it
 * are queued: the queued ones are never written (not even by qb_log_fini, and
 * no loss is reported), later messages overtake them, and the target's logger
 * is entered by the producer while the logging thread is still inside it. */
#include <stdio.h>
#include <stdlib.h>
#include <string.h>
#include <unistd.h>
#include <syslog.h>
#include <qb/qblog.h>

#define N 60
static int nA, seqA[2 * N];
static int tA;
static volatile int inside, concurrent;

static void cbA(int32_t t, struct qb_log_callsite *cs, struct timespec *ts, const char *msg)
{
	if (__sync_fetch_and_add(&inside, 1) != 0) concurrent = 1;
	seqA[__sync_fetch_and_add(&nA, 1)] = atoi(msg);
	usleep(5000);		/* a slow target: the reason to use the thread at all */
	__sync_fetch_and_sub(&inside, 1);
}
#define LOG(m) qb_log_from_external_source(__func__, __FILE__, "%s", LOG_INFO, __LINE__, 0, m)

int main(void)
{
	int i, bad = 0;
	char m[32];
	alarm(60);
	qb_log_init("demo", LOG_USER, LOG_EMERG);
	qb_log_ctl(QB_LOG_SYSLOG, QB_LOG_CONF_ENABLED, QB_FALSE);
	tA = qb_log_custom_open(cbA, NULL, NULL, NULL);
	qb_log_filter_ctl(tA, QB_LOG_FILTER_ADD, QB_LOG_FILTER_FILE, "*", LOG_DEBUG);
	qb_log_ctl(tA, QB_LOG_CONF_THREADED, QB_TRUE);
	qb_log_ctl(tA, QB_LOG_CONF_ENABLED, QB_TRUE);
	qb_log_thread_start();

	for (i = 0; i < N; i++) { snprintf(m, sizeof(m), "%d", i); LOG(m); }	/* queued */
	qb_log_ctl(tA, QB_LOG_CONF_THREADED, QB_FALSE);
	snprintf(m, sizeof(m), "%d", N); LOG(m);	/* written by the producer itself */
	qb_log_fini();		/* promises: returns after everything queued was written */
	usleep(100000);

	printf("%d messages logged (0..%d), A wrote %d:", N + 1, N, nA);
	for (i = 0; i < nA; i++) printf(" %d", seqA[i]);
	printf("\nlogger entered by two threads at once: %s\n", concurrent ? "yes" : "no");
	if (nA != N + 1) bad = 1;
	for (i = 0; i < nA; i++) if (seqA[i] != i) bad = 1;
	if (bad || concurrent) {
		printf("VIOLATED: queued messages never written / overtaken, nothing reported lost\n");
		return 1;
	}
	printf("property held\n");
	return 0;
}
