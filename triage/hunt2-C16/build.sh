#!/bin/sh
# usage: build.sh [tree]   -> fuzz.asan fuzz.tsan
T=${1:-/repo}
cd "$(dirname "$0")"
SRC="$T/lib/log.c $T/lib/log_file.c $T/lib/log_format.c $T/lib/log_dcs.c $T/lib/log_syslog.c $T/lib/log_blackbox.c"
INC="-DHAVE_CONFIG_H -I$T/include -I$T/include/qb -I$T/lib -I$T"
gcc -g -O1 -fno-omit-frame-pointer -fsanitize=address,undefined $INC fuzz.c $SRC -o fuzz.asan -L$T/lib/.libs -lqb -lpthread -ldl || exit 1
gcc -g -O1 -fno-omit-frame-pointer -fsanitize=thread $INC fuzz.c $SRC -o fuzz.tsan -L$T/lib/.libs -lqb -lpthread -ldl || exit 1
