/*
 * Model based randomized tester for libqb threaded logging (property C16).
 *
 * lib/log_thread.c is #included so that the tester can look at the queue
 * (for "quiesce" points); the other lib/log*.c are compiled into the program
 * by build.sh, the rest comes from libqb.so.
 *
 * usage: fuzz <seed> <nops> <mode-bits> [slow_us]
 *   mode bits (which delivery-affecting control operations may be issued
 *   WITHOUT first waiting for the queue to drain):
 *     1 toggle THREADED   2 disable   4 close   8 filter change  16 enable
 *   0 = every such operation is preceded by a quiesce point.
 *
 * stdout is redirected to a file so that "N messages lost" can be counted.
 */
#include "os_base.h"
#include <pthread.h>
#include <semaphore.h>
#include <signal.h>
#include <qb/qbdefs.h>
#include <qb/qblist.h>
#include <qb/qbutil.h>
#include <qb/qblog.h>
#include "log_int.h"

#include "log_thread.c"

#define M_THREADED 1
#define M_DISABLE  2
#define M_CLOSE    4
#define M_FILTER   8
#define M_ENABLE   16

#define MAXT 32
#define NSLOT 6			/* how many dynamic targets the test uses */

struct vec {
	int *v;
	int n, cap;
};
static void vpush(struct vec *v, int x)
{
	if (v->n == v->cap) {
		v->cap = v->cap ? v->cap * 2 : 64;
		v->v = realloc(v->v, v->cap * sizeof(int));
	}
	v->v[v->n++] = x;
}

struct sink {
	int id;
	int isfile;
	pthread_mutex_t mx;
	struct vec got;		/* delivered seq */
	struct vec exp;		/* expected seq */
	struct vec expposted;	/* 1 if that one went through the queue */
	int checked_got, checked_exp;
	int closed_cb;
	int incb;
};

struct mtarget {
	int open;
	int pos;
	int enabled;
	int threaded;
	int prio;
	int isfile;
	int fprio;
	struct sink *sink;
};

static struct mtarget mt[NSLOT];
static int m_inited, m_thread;
static int mode, slow_us;
static unsigned long long rng;
static int seqno = 1;
static long total_ops, total_msgs;
static int lost_fd = -1;
static char lost_path[256];
static long lost_seen;		/* cumulative parsed */
static long lost_off;
static int nfail;
static int sink_ids;
static char *posted_dropped;	/* per seq: 1 = decided dropped */
static int posted_cap;
static struct vec oplog;
static long invisible_posted;

static unsigned rnd(void)
{
	rng ^= rng << 13;
	rng ^= rng >> 7;
	rng ^= rng << 17;
	return (unsigned)(rng >> 11);
}
static int rr(int lo, int hi) { return lo + rnd() % (hi - lo + 1); }

#define FAIL(...) do { fprintf(stderr, "VIOLATION: " __VA_ARGS__); fprintf(stderr, "\n"); nfail++; } while (0)

static void on_alarm(int s)
{
	(void)s;
	static const char m[] = "VIOLATION: watchdog - operation did not return (deadlock?)\n";
	if (write(2, m, sizeof(m) - 1)) {}
	_exit(3);
}

static void cb_log(int32_t t, struct qb_log_callsite *cs, struct timespec *ts, const char *msg)
{
	struct sink *s = qb_log_target_user_data_get(t);
	int seq;
	(void)cs; (void)ts;
	if (s == NULL) {
		FAIL("logger callback on target %d without user data", t);
		return;
	}
	if (__sync_fetch_and_add(&s->incb, 1) != 0) {
		FAIL("sink %d: logger entered concurrently from two threads", s->id);
	}
	seq = atoi(msg);
	pthread_mutex_lock(&s->mx);
	if (s->closed_cb) {
		FAIL("sink %d: message %d delivered after close", s->id, seq);
	}
	vpush(&s->got, seq);
	pthread_mutex_unlock(&s->mx);
	if (slow_us && (rnd() & 3) == 0) {
		usleep(slow_us);
	}
	__sync_fetch_and_sub(&s->incb, 1);
}

static void cb_close(int32_t t)
{
	struct sink *s = qb_log_target_user_data_get(t);
	if (s) {
		pthread_mutex_lock(&s->mx);
		s->closed_cb++;
		pthread_mutex_unlock(&s->mx);
	}
}

static void read_lost(void)
{
	char buf[4096];
	ssize_t n;
	fflush(stdout);
	while ((n = pread(lost_fd, buf, sizeof(buf) - 1, lost_off)) > 0) {
		char *p = buf, *nl;
		buf[n] = 0;
		/* only whole lines */
		while ((nl = strchr(p, '\n')) != NULL) {
			int k;
			if (sscanf(p, "%d messages lost", &k) == 1) {
				lost_seen += k;
			}
			p = nl + 1;
		}
		if (p == buf) break;
		lost_off += p - buf;
	}
}

/* wait until the logging thread has written everything (thread running) */
static void quiesce(void)
{
	int i;
	if (!m_thread) return;
	for (i = 0; i < 2000000; i++) {
		int empty;
		if (logt_wthread_lock == NULL) return;
		qb_thread_lock(logt_wthread_lock);
		empty = qb_list_empty(&logt_print_finished_records);
		qb_thread_unlock(logt_wthread_lock);
		if (empty) return;
		usleep(50);
	}
	FAIL("queue never drained");
}

/* compare what each sink got with what the model says; only valid when
 * nothing is in flight (after quiesce or after fini) */
static void check_all(const char *where)
{
	int i, missing_total = 0;
	static struct sink *all[100000];
	(void)all;
	read_lost();
	for (i = 0; i < NSLOT; i++) {
		struct sink *s = mt[i].sink;
		int e, g;
		if (!s) continue;
		pthread_mutex_lock(&s->mx);
		e = s->checked_exp;
		g = s->checked_got;
		while (e < s->exp.n) {
			int want = s->exp.v[e];
			if (g < s->got.n && s->got.v[g] == want) {
				if (posted_dropped[want] == 1) {
					FAIL("[%s] sink %d: message %d delivered here but missing on another threaded target", where, s->id, want);
				}
				posted_dropped[want] = 2;
				e++; g++;
				continue;
			}
			/* not delivered next: acceptable only if it was queued (drop) */
			if (s->expposted.v[e]) {
				/* is it later in got? then it is an order problem */
				int k, later = 0;
				for (k = g; k < s->got.n && k < g + 2000; k++)
					if (s->got.v[k] == want) later = 1;
				if (later) {
					FAIL("[%s] sink %d: message %d out of order (next delivered %d)", where, s->id, want, s->got.v[g]);
					g++;
					continue;
				}
				if (posted_dropped[want] == 2) {
					FAIL("[%s] sink %d: message %d missing here but delivered to another threaded target", where, s->id, want);
				} else if (posted_dropped[want] == 0) {
					posted_dropped[want] = 1;
					missing_total++;
				}
				e++;
				continue;
			}
			FAIL("[%s] sink %d: directly written message %d missing (next delivered %d)", where, s->id, want,
			     g < s->got.n ? s->got.v[g] : -1);
			e++;
		}
		while (g < s->got.n) {
			FAIL("[%s] sink %d: unexpected/duplicate delivery of message %d", where, s->id, s->got.v[g]);
			g++;
		}
		s->checked_exp = e;
		s->checked_got = g;
		pthread_mutex_unlock(&s->mx);
	}
	{
		static long lost_accounted;
		static long missing_accounted;
		missing_accounted += missing_total;
		if (lost_seen < missing_accounted || lost_seen > missing_accounted + invisible_posted) {
			FAIL("[%s] %ld queued messages never delivered but %ld reported lost", where, missing_accounted, lost_seen);
			/* resync so that one discrepancy is reported once */
			missing_accounted = lost_seen;
		}
		lost_accounted = lost_seen;
		(void)lost_accounted;
	}
}

static void settle(const char *where)
{
	quiesce();
	check_all(where);
}

static void do_log(int len, int prio)
{
	char msg[5000];
	int i, n, posted = 0, any = 0, fposted = 0;
	int seq = seqno++;

	if (seq >= posted_cap) {
		int nc = posted_cap * 2;
		posted_dropped = realloc(posted_dropped, nc);
		memset(posted_dropped + posted_cap, 0, nc - posted_cap);
		posted_cap = nc;
	}
	n = snprintf(msg, sizeof(msg), "%08d:", seq);
	if (len < n) len = n;
	if (len > (int)sizeof(msg) - 1) len = sizeof(msg) - 1;
	memset(msg + n, 'a' + seq % 26, len - n);
	msg[len] = 0;
	if ((rnd() & 15) == 0 && len > n + 2) {
		msg[n + 1 + rnd() % (len - n - 1)] = QB_XC;	/* extended information marker */
	}
	if (m_inited) {
		for (i = 0; i < NSLOT; i++) {
			if (mt[i].open && mt[i].enabled && prio <= mt[i].prio && mt[i].threaded && m_thread)
				posted = 1;
			if (mt[i].open && mt[i].enabled && mt[i].isfile && prio <= mt[i].fprio && mt[i].threaded && m_thread)
				fposted = 1;
		}
		if (fposted && !posted) invisible_posted++;
		for (i = 0; i < NSLOT; i++) {
			if (mt[i].open && mt[i].enabled && prio <= mt[i].prio) {
				vpush(&mt[i].sink->exp, seq);
				vpush(&mt[i].sink->expposted, (mt[i].threaded && posted));
				any = 1;
			}
		}
	}
	(void)any;
	qb_log_from_external_source("fn", "fuzz.c", "%s", prio, 1 + (seq & 3), 0, msg);
	total_msgs++;
	/* directly written ones must be there when the call returns */
	if (m_inited) {
		for (i = 0; i < NSLOT; i++) {
			struct sink *s = mt[i].sink;
			if (mt[i].open && mt[i].enabled && prio <= mt[i].prio && !(mt[i].threaded && posted)) {
				pthread_mutex_lock(&s->mx);
				if (s->got.n == 0 || s->got.v[s->got.n - 1] != seq) {
					int k, found = 0;
					for (k = s->got.n - 1; k >= 0 && k > s->got.n - 50; k--)
						if (s->got.v[k] == seq) found = 1;
					if (!found)
						FAIL("sink %d: message %d for a non-threaded target not written synchronously", s->id, seq);
				}
				pthread_mutex_unlock(&s->mx);
			}
		}
	}
}

static void retire_sink(int i)
{
	/* the sink has been checked; keep memory (callbacks might still fire = violation) */
	mt[i].sink = NULL;
}

static void op_init(void)
{
	int i;
	qb_log_init("fuzz", LOG_USER, LOG_EMERG);
	qb_log_ctl(QB_LOG_SYSLOG, QB_LOG_CONF_ENABLED, QB_FALSE);
	m_inited = 1;
	for (i = 0; i < NSLOT; i++) mt[i].open = 0;
}

static void op_fini(void)
{
	int i;
	qb_log_fini();
	m_inited = 0;
	m_thread = 0;
	check_all("fini");
	for (i = 0; i < NSLOT; i++) {
		if (mt[i].open) {
			struct sink *s = mt[i].sink;
			if (mt[i].enabled && !mt[i].isfile && s->closed_cb != 1)
				FAIL("sink %d: close callback ran %d times at fini", s->id, s->closed_cb);
			mt[i].open = 0;
			retire_sink(i);
		}
	}
}

static void op_open(int i)
{
	struct sink *s = calloc(1, sizeof(*s));
	int pos;
	char fn[256];
	s->id = ++sink_ids;
	pthread_mutex_init(&s->mx, NULL);
	if ((rnd() & 3) == 0) {
		/* a file target: only exercised for safety (ASan/TSan), content not modelled */
		snprintf(fn, sizeof(fn), "/tmp/hunt2-C16/out/f%d-%d.log", getpid(), i);
		pos = qb_log_file_open(fn);
		s->isfile = 1;
	} else {
		pos = qb_log_custom_open(cb_log, cb_close, NULL, s);
	}
	if (pos < 0) {
		FAIL("open failed %d", pos);
		free(s);
		return;
	}
	mt[i].open = 1;
	mt[i].pos = pos;
	mt[i].enabled = 0;
	mt[i].isfile = s->isfile;
	mt[i].sink = s;
	mt[i].prio = rr(LOG_ERR, LOG_DEBUG);
	mt[i].threaded = rnd() & 1;
	/* a slot that is reused keeps the previous THREADED value: set it explicitly */
	qb_log_ctl(pos, QB_LOG_CONF_THREADED, mt[i].threaded);
	qb_log_filter_ctl(pos, QB_LOG_FILTER_ADD, QB_LOG_FILTER_FILE, "*", mt[i].prio);
	if (s->isfile) {
		/* model: file targets take no part in the sequence model */
		mt[i].fprio = mt[i].prio;
		mt[i].prio = -1;	/* never "selected" in the model */
	}
}

static void run(long nops)
{
	long n;
	for (n = 0; n < nops; n++) {
		int op = rr(0, 99);
		int i = rr(0, NSLOT - 1);
		total_ops++;
		alarm(120);
		if (!m_inited) {
			if (op < 10) {
				/* start the thread before init */
				if (qb_log_thread_start() == 0) m_thread = 1;
			} else if (op < 15) {
				do_log(rr(9, 100), LOG_ERR);	/* logging without init: nothing */
			} else if (op < 18) {
				qb_log_fini();	/* no-op */
			} else {
				op_init();
			}
			continue;
		}
		if (op < 55) {
			int burst = (op < 3) ? rr(100, 3000) : (op < 10 ? rr(5, 60) : 1);
			int big = (rnd() & 7) == 0;
			if (op < 1) { burst = rr(1500, 6000); big = 1; }
			while (burst--) {
				int len;
				switch (rnd() & 7) {
				case 0: len = 9; break;
				case 1: len = rr(505, 520); break;
				case 2: len = big ? rr(3000, 4200) : rr(9, 600); break;
				default: len = big ? rr(400, 511) : rr(9, 120);
				}
				do_log(len, rr(LOG_ERR, LOG_DEBUG));
			}
		} else if (op < 60) {
			if (!mt[i].open) op_open(i);
		} else if (op < 67) {
			if (mt[i].open) {
				int en = !mt[i].enabled;
				if (!(mode & (en ? M_ENABLE : M_DISABLE))) settle("pre-enable/disable");
				qb_log_ctl(mt[i].pos, QB_LOG_CONF_ENABLED, en);
				mt[i].enabled = en;
				if (!en && !mt[i].isfile) {
					struct sink *s = mt[i].sink;
					if (s->closed_cb != 1) FAIL("sink %d: close callback count %d after disable", s->id, s->closed_cb);
					s->closed_cb = 0;
				}
			}
		} else if (op < 72) {
			if (mt[i].open) {
				if (!(mode & M_THREADED)) settle("pre-threaded");
				mt[i].threaded = !mt[i].threaded;
				qb_log_ctl(mt[i].pos, QB_LOG_CONF_THREADED, mt[i].threaded);
			}
		} else if (op < 75) {
			if (mt[i].open) {
				if (!(mode & M_CLOSE)) settle("pre-close");
				if (mt[i].isfile) qb_log_file_close(mt[i].pos);
				else qb_log_custom_close(mt[i].pos);
				if (mode & M_CLOSE) settle("post-close");
				else check_all("post-close");
				mt[i].open = 0;
				retire_sink(i);
			}
		} else if (op < 79) {
			if (mt[i].open && !mt[i].isfile) {
				int np = rr(LOG_ERR, LOG_DEBUG);
				if (!(mode & M_FILTER)) settle("pre-filter");
				qb_log_filter_ctl(mt[i].pos, QB_LOG_FILTER_REMOVE, QB_LOG_FILTER_FILE, "*", mt[i].prio);
				qb_log_filter_ctl(mt[i].pos, QB_LOG_FILTER_ADD, QB_LOG_FILTER_FILE, "*", np);
				mt[i].prio = np;
			}
		} else if (op < 83) {
			if (!m_thread) {
				int rc = qb_log_thread_start();
				if (rc == 0) m_thread = 1;
				else FAIL("thread_start rc=%d", rc);
			} else if (qb_log_thread_start() != 0) {
				FAIL("second thread_start failed");
			}
		} else if (op < 86) {
			if (mt[i].open) {
				static const int lens[] = { 10, 12, 16, 64, 511, 512, 513, 1024, 4096 };
				qb_log_ctl(mt[i].pos, QB_LOG_CONF_MAX_LINE_LEN, lens[rnd() % 9]);
			}
		} else if (op < 89) {
			if (mt[i].open) {
				static const char *f[] = { "%b", "[%p] %b", "%t %n:%l %b", "%10f %b", NULL };
				qb_log_format_set(mt[i].pos, f[rnd() % 5]);
			}
		} else if (op < 91) {
			if (mt[i].open && mt[i].isfile) {
				char fn[256];
				snprintf(fn, sizeof(fn), "/tmp/hunt2-C16/out/f%d-%d-%d.log", getpid(), i, rnd() & 1);
				qb_log_file_reopen(mt[i].pos, (rnd() & 1) ? fn : NULL);
			}
		} else if (op < 93) {
			if (mt[i].open) {
				qb_log_ctl(mt[i].pos, QB_LOG_CONF_EXTENDED, rnd() & 1);
				qb_log_ctl(mt[i].pos, QB_LOG_CONF_ELLIPSIS, rnd() & 1);
				qb_log_ctl(mt[i].pos, QB_LOG_CONF_FILE_SYNC, 0);
				(void)qb_log_ctl(mt[i].pos, QB_LOG_CONF_STATE_GET, 0);
			}
		} else if (op < 94) {
			qb_log_thread_priority_set(SCHED_OTHER, 0);
		} else if (op < 96) {
			settle("random");
		} else if (op < 97) {
			usleep(rr(0, 2000));
		} else {
			op_fini();
		}
	}
	alarm(120);
	if (m_inited) op_fini();
}

int main(int argc, char **argv)
{
	unsigned long seed = argc > 1 ? strtoul(argv[1], NULL, 0) : 1;
	long nops = argc > 2 ? atol(argv[2]) : 10000;
	mode = argc > 3 ? atoi(argv[3]) : 0;
	slow_us = argc > 4 ? atoi(argv[4]) : 0;

	rng = seed * 0x9E3779B97F4A7C15ULL + 12345;
	if (!rng) rng = 1;
	signal(SIGALRM, on_alarm);
	mkdir("/tmp/hunt2-C16/out", 0755);
	snprintf(lost_path, sizeof(lost_path), "/tmp/hunt2-C16/out/stdout-%d.txt", getpid());
	if (freopen(lost_path, "w", stdout) == NULL) return 2;
	lost_fd = open(lost_path, O_RDONLY);
	posted_cap = 1 << 16;
	posted_dropped = calloc(posted_cap, 1);
	(void)oplog;

	run(nops);

	fprintf(stderr, "seed %lu mode %d slow %d: %ld ops, %ld messages, %ld reported lost, %d violations\n",
		seed, mode, slow_us, total_ops, total_msgs, lost_seen, nfail);
	{
		char cmd[600];
		snprintf(cmd, sizeof(cmd), "rm -f /tmp/hunt2-C16/out/f%d-*.log %s", getpid(), lost_path);
		if (system(cmd)) {}
	}
	return nfail ? 1 : 0;
}
