/* C16 finding 4 (lower confidence, see NOTES): a logger that itself logs is
 * harmless for a non-threaded target (the nested message is ignored by the
 * in_logger guard) but makes the logging thread lock up on its own lock when
 * the target is threaded; every later qb_log() of the producer and
 * qb_log_fini() then never return. */
#include <stdio.h>
#include <stdlib.h>
#include <string.h>
#include <unistd.h>
#include <time.h>
#include <semaphore.h>
#include <syslog.h>
#include <qb/qblog.h>

static sem_t done;
static int n;
#define LOG(m) qb_log_from_external_source("f", "demo.c", "%s", LOG_INFO, 1, 0, m)
static void cb(int32_t t, struct qb_log_callsite *cs, struct timespec *ts, const char *msg)
{
	n++;
	if (strcmp(msg, "nested") != 0) {
		LOG("nested");	/* e.g. an error message of a library the logger uses */
	}
	sem_post(&done);
}
static int wait_done(void)
{
	struct timespec ts;
	clock_gettime(CLOCK_REALTIME, &ts);
	ts.tv_sec += 3;
	return sem_timedwait(&done, &ts);
}
int main(void)
{
	int t;
	sem_init(&done, 0, 0);
	qb_log_init("demo", LOG_USER, LOG_EMERG);
	qb_log_ctl(QB_LOG_SYSLOG, QB_LOG_CONF_ENABLED, QB_FALSE);
	t = qb_log_custom_open(cb, NULL, NULL, NULL);
	qb_log_filter_ctl(t, QB_LOG_FILTER_ADD, QB_LOG_FILTER_FILE, "*", LOG_DEBUG);
	qb_log_ctl(t, QB_LOG_CONF_ENABLED, QB_TRUE);
	LOG("x");
	if (wait_done() != 0) { printf("non-threaded: logger did not return\n"); return 2; }
	printf("non-threaded target: logger returned, %d message(s) written\n", n);

	qb_log_ctl(t, QB_LOG_CONF_THREADED, QB_TRUE);
	qb_log_thread_start();
	LOG("y");
	if (wait_done() != 0) {
		printf("threaded target: the logging thread is stuck inside the logger (3 s)\n"
		       "VIOLATED: qb_log_fini() would never return\n");
		fflush(stdout);
		_exit(1);
	}
	qb_log_fini();
	printf("threaded target: logger returned, fini returned; property held\n");
	return 0;
}
