/* C16 finding 1: a target that is switched to threaded mode while the logging
 * thread has a backlog receives the backlog a second time. */
#include <stdio.h>
#include <stdlib.h>
#include <string.h>
#include <unistd.h>
#include <syslog.h>
#include <qb/qblog.h>

#define N 60
static int nA, nB, seqB[4 * N];
static int tA, tB;

static void cbA(int32_t t, struct qb_log_callsite *cs, struct timespec *ts, const char *msg)
{
	nA++;
	usleep(5000);		/* a slow target: the reason to use the thread at all */
}
static void cbB(int32_t t, struct qb_log_callsite *cs, struct timespec *ts, const char *msg)
{
	if (nB < 4 * N) seqB[nB] = atoi(msg);
	nB++;
}
#define LOG(m) qb_log_from_external_source(__func__, __FILE__, "%s", LOG_INFO, __LINE__, 0, m)

int main(void)
{
	int i, dup = 0, bad = 0;
	char m[32];
	alarm(60);
	qb_log_init("demo", LOG_USER, LOG_EMERG);
	qb_log_ctl(QB_LOG_SYSLOG, QB_LOG_CONF_ENABLED, QB_FALSE);
	tA = qb_log_custom_open(cbA, NULL, NULL, NULL);
	tB = qb_log_custom_open(cbB, NULL, NULL, NULL);
	qb_log_filter_ctl(tA, QB_LOG_FILTER_ADD, QB_LOG_FILTER_FILE, "*", LOG_DEBUG);
	qb_log_filter_ctl(tB, QB_LOG_FILTER_ADD, QB_LOG_FILTER_FILE, "*", LOG_DEBUG);
	qb_log_ctl(tA, QB_LOG_CONF_THREADED, QB_TRUE);
	qb_log_ctl(tA, QB_LOG_CONF_ENABLED, QB_TRUE);
	qb_log_ctl(tB, QB_LOG_CONF_ENABLED, QB_TRUE);	/* B: not threaded yet */
	qb_log_thread_start();

	/* B gets each of these at once (it is not threaded), they are queued for A */
	for (i = 0; i < N; i++) { snprintf(m, sizeof(m), "%d", i); LOG(m); }
	i = nB;
	/* now B is to be served by the thread as well */
	qb_log_ctl(tB, QB_LOG_CONF_THREADED, QB_TRUE);
	qb_log_fini();

	printf("%d messages logged; B had written %d when it was switched to threaded;\n"
	       "at the end A wrote %d, B wrote %d:", N, i, nA, nB);
	for (i = 0; i < nB && i < 4 * N; i++) {
		printf(" %d", seqB[i]);
		if (i > 0 && seqB[i] <= seqB[i - 1]) dup++;
	}
	printf("\n");
	if (nA != N || nB != N || dup) bad = 1;
	if (bad) {
		printf("VIOLATED: B wrote %d of the messages a second time\n", nB - N);
		return 1;
	}
	printf("property held\n");
	return 0;
}
