#include <stdio.h>
#include <stdlib.h>
#include <string.h>
#include <unistd.h>
#include <sched.h>
#include <syslog.h>
#include <qb/qblog.h>
static int n; static int nest;
static void cb(int32_t t, struct qb_log_callsite *cs, struct timespec *ts, const char *msg)
{
	n++;
	if (nest && strcmp(msg, "nested") != 0)
		qb_log_from_external_source("f", "x.c", "%s", LOG_INFO, 2, 0, "nested");
}
#define LOG(m) qb_log_from_external_source("f", "x.c", "%s", LOG_INFO, 1, 0, m)
int main(int argc, char **argv)
{
	int t, rc, r;
	alarm(10);
	for (r = 0; r < 3; r++) {
		qb_log_init("demo", LOG_USER, LOG_EMERG);
		qb_log_ctl(QB_LOG_SYSLOG, QB_LOG_CONF_ENABLED, QB_FALSE);
		t = qb_log_custom_open(cb, NULL, NULL, NULL);
		qb_log_filter_ctl(t, QB_LOG_FILTER_ADD, QB_LOG_FILTER_FILE, "*", LOG_DEBUG);
		qb_log_ctl(t, QB_LOG_CONF_THREADED, QB_TRUE);
		qb_log_ctl(t, QB_LOG_CONF_ENABLED, QB_TRUE);
		rc = qb_log_thread_priority_set(12345, 7);
		fprintf(stderr, "priority_set(invalid) before start: %d\n", rc);
		rc = qb_log_thread_start();
		fprintf(stderr, "thread_start: %d\n", rc);
		LOG("a"); fprintf(stderr, "after log a: n=%d\n", n);
		rc = qb_log_thread_start();
		fprintf(stderr, "thread_start again: %d\n", rc);
		rc = qb_log_thread_priority_set(SCHED_OTHER, 0);
		rc = qb_log_thread_start();
		fprintf(stderr, "thread_start after valid prio: %d\n", rc);
		rc = qb_log_thread_priority_set(12345, 7);
		fprintf(stderr, "priority_set(invalid) while running: %d\n", rc);
		LOG("b"); LOG("c");
		qb_log_fini();
		fprintf(stderr, "after fini: n=%d (want %d)\n", n, 3 * (r + 1));
	}
	if (argc > 1) {
		/* nested logging from a logger */
		n = 0; nest = 1;
		qb_log_init("demo", LOG_USER, LOG_EMERG);
		qb_log_ctl(QB_LOG_SYSLOG, QB_LOG_CONF_ENABLED, QB_FALSE);
		t = qb_log_custom_open(cb, NULL, NULL, NULL);
		qb_log_filter_ctl(t, QB_LOG_FILTER_ADD, QB_LOG_FILTER_FILE, "*", LOG_DEBUG);
		qb_log_ctl(t, QB_LOG_CONF_ENABLED, QB_TRUE);
		LOG("x"); fprintf(stderr, "non-threaded, logger logs: n=%d\n", n);
		qb_log_ctl(t, QB_LOG_CONF_THREADED, QB_TRUE);
		qb_log_thread_start();
		LOG("y"); usleep(200000);
		qb_log_fini();
		fprintf(stderr, "threaded, logger logs: n=%d\n", n);
	}
	return 0;
}
