/* Model-based randomized tester for qb_array (property C19).
 *
 * usage: fuzz <seed> <nops> [threads]
 *   threads == 0 (default): single threaded model check, many arrays
 *   threads  > 0          : threaded check on shared arrays
 */
#include <stdio.h>
#include <stdlib.h>
#include <string.h>
#include <stdint.h>
#include <errno.h>
#include <pthread.h>
#include <stdatomic.h>
#include <qb/qbarray.h>

#define MAXE 65536

static uint64_t rng_s;
static uint64_t rnd64(uint64_t *s)
{
	uint64_t x = *s;
	x ^= x << 13; x ^= x >> 7; x ^= x << 17;
	*s = x;
	return x * 0x2545F4914F6CDD1DULL;
}
#define R(n) ((size_t)(rnd64(&rng_s) % (uint64_t)(n)))

#define FAIL(...) do { fprintf(stderr, "VIOLATION: " __VA_ARGS__); fprintf(stderr, "\n"); abort(); } while (0)

/* ---------- single threaded model ---------- */
struct model {
	qb_array_t *a;
	size_t esize;
	size_t max;
	int autogrow;
	void *ptr[MAXE];
	uint32_t gen[MAXE];	/* 0 = never written */
	size_t nknown;
	int use_cb;
};

static struct model *M;

/* optional fault injection: build array.c with -Dcalloc=fi_calloc and run
 * with FI_CALLOC=<n>: one in n calloc() calls made by array.c fails */
static unsigned fi_n;
static uint64_t fi_s = 88172645463325252ULL;
static unsigned long fi_hits;
void *fi_calloc(size_t n, size_t m);
void *fi_calloc(size_t n, size_t m)
{
	if (fi_n && rnd64(&fi_s) % fi_n == 0) {
		fi_hits++;
		errno = ENOMEM;
		return NULL;
	}
	return (calloc)(n, m);
}

static int cb_depth;
static unsigned long cb_calls;
static uint8_t bin_seen[MAXE / 16 + 2];

static void fill(uint8_t *p, size_t esize, int32_t idx, uint32_t gen)
{
	size_t i, n = esize;
	/* for huge elements write head and tail only */
	if (n <= 256) {
		for (i = 0; i < n; i++)
			p[i] = (uint8_t) (idx * 31 + gen * 7 + i * 13 + 1);
	} else {
		for (i = 0; i < 128; i++) {
			p[i] = (uint8_t) (idx * 31 + gen * 7 + i * 13 + 1);
			p[n - 1 - i] = (uint8_t) (idx * 17 + gen * 3 + i * 5 + 2);
		}
	}
}

static void check(const uint8_t *p, size_t esize, int32_t idx, uint32_t gen, const char *why)
{
	size_t i, n = esize;
	if (gen == 0) {
		if (n <= 4096) {
			for (i = 0; i < n; i++)
				if (p[i] != 0)
					FAIL("%s: idx %d never written but byte %zu = %u", why, idx, i, p[i]);
		} else {
			for (i = 0; i < 256; i++)
				if (p[i] != 0 || p[n - 1 - i] != 0)
					FAIL("%s: idx %d never written but non-zero", why, idx);
		}
		return;
	}
	if (n <= 256) {
		for (i = 0; i < n; i++)
			if (p[i] != (uint8_t) (idx * 31 + gen * 7 + i * 13 + 1))
				FAIL("%s: idx %d content lost at byte %zu", why, idx, i);
	} else {
		for (i = 0; i < 128; i++) {
			if (p[i] != (uint8_t) (idx * 31 + gen * 7 + i * 13 + 1) ||
			    p[n - 1 - i] != (uint8_t) (idx * 17 + gen * 3 + i * 5 + 2))
				FAIL("%s: idx %d content lost (big)", why, idx);
		}
	}
}

static void do_index(struct model *m, int64_t idx64, int write);

static void new_bin_cb(qb_array_t *a, uint32_t bin)
{
	struct model *m = M;
	cb_calls++;
	if (a != m->a)
		FAIL("cb got wrong array");
	if (bin >= MAXE / 16)
		FAIL("cb bin %u out of range", bin);
	if (bin_seen[bin])
		FAIL("cb called twice for bin %u", bin);
	bin_seen[bin] = 1;
	if (cb_depth >= 3)
		return;
	cb_depth++;
	/* re-entrancy: index inside the very same bin, in another bin, and grow */
	do_index(m, (int64_t) bin * 16 + R(16), R(2));
	if (R(2))
		do_index(m, R(MAXE), R(2));
	if (R(3) == 0) {
		size_t n = R(MAXE + 1);
		int32_t rc = qb_array_grow(a, n);
		if (rc != 0)
			FAIL("grow(%zu) in cb rc %d", n, rc);
		if (n > m->max)
			m->max = n;
	}
	cb_depth--;
}

static int ptr_cmp(const void *x, const void *y)
{
	uintptr_t a = *(const uintptr_t *) x, b = *(const uintptr_t *) y;
	return a < b ? -1 : a > b;
}

static void check_disjoint(struct model *m)
{
	static uintptr_t tmp[MAXE];
	size_t n = 0, i;
	for (i = 0; i < MAXE; i++)
		if (m->ptr[i])
			tmp[n++] = (uintptr_t) m->ptr[i];
	qsort(tmp, n, sizeof(tmp[0]), ptr_cmp);
	for (i = 1; i < n; i++)
		if (tmp[i - 1] + m->esize > tmp[i])
			FAIL("overlap: %p + %zu > %p", (void *) tmp[i - 1], m->esize, (void *) tmp[i]);
}

static void do_index(struct model *m, int64_t idx64, int write)
{
	int32_t idx = (int32_t) idx64;
	void *p = (void *) 0x1;
	int32_t rc;
	size_t max_before = m->max;
	int expect_ok;

	if (idx < 0 || idx >= MAXE)
		expect_ok = 0;
	else if ((size_t) idx < m->max)
		expect_ok = 1;
	else
		expect_ok = m->autogrow;
	/* the model has to be updated first: the callback re-enters */
	if (expect_ok && (size_t) idx >= m->max)
		m->max = (size_t) idx + 1;

	rc = qb_array_index(m->a, idx, &p);
	if (!expect_ok) {
		if (rc == 0)
			FAIL("index(%d) succeeded, max %zu autogrow %d", idx, max_before, m->autogrow);
		if (rc != -ERANGE && !(m->autogrow && rc == -EINVAL))
			FAIL("index(%d) rc %d, wanted -ERANGE", idx, rc);
		if (!m->autogrow && rc != -ERANGE)
			FAIL("index(%d) rc %d, wanted -ERANGE (no autogrow)", idx, rc);
		return;
	}
	if (rc == -ENOMEM && fi_n)
		return;		/* injected bin allocation failure: nothing else may change */
	if (rc != 0)
		FAIL("index(%d) failed rc %d, max %zu autogrow %d esize %zu", idx, rc, max_before, m->autogrow, m->esize);
	if (p == NULL || p == (void *) 0x1)
		FAIL("index(%d) no pointer", idx);
	if (m->ptr[idx] == NULL) {
		m->ptr[idx] = p;
		m->nknown++;
	} else if (m->ptr[idx] != p) {
		FAIL("index(%d) moved %p -> %p", idx, m->ptr[idx], p);
	}
	check(p, m->esize, idx, m->gen[idx], "index");
	if (write) {
		m->gen[idx]++;
		if (m->gen[idx] == 0)
			m->gen[idx] = 1;
		fill(p, m->esize, idx, m->gen[idx]);
	}
}

static const size_t esizes[] = { 1, 1, 2, 3, 4, 5, 7, 8, 12, 13, 16, 17, 24, 31, 32, 33, 63, 64, 65, 100,
	127, 128, 255, 256, 257, 1000, 4095, 4096, 4097, 65535, 65536, 1 << 20 };
static const int64_t edge_idx[] = { -1, 0, 1, 14, 15, 16, 17, 31, 32, 255, 256, 4095, 4096, 32767, 32768,
	65519, 65520, 65534, 65535, 65536, 65537, 131071, 131072, INT32_MIN, INT32_MAX - 1, -65536, 1 << 20, -2 };
static const size_t edge_max[] = { 0, 1, 15, 16, 17, 31, 32, 33, 4095, 4096, 65519, 65520, 65535, 65536 };
#define NEL(x) (sizeof(x)/sizeof((x)[0]))

static unsigned long total_ops;

static void run_one(size_t budget)
{
	struct model *m = calloc(1, sizeof(*m));
	size_t i, span;
	size_t init;
	size_t ag;

	M = m;
	memset(bin_seen, 0, sizeof(bin_seen));
	m->esize = R(4) ? esizes[R(NEL(esizes))] : 1 + R(300);
	if (m->esize >= 65535)
		budget = budget > 300 ? 300 : budget;
	switch (R(4)) {
	case 0: init = edge_max[R(NEL(edge_max))]; break;
	case 1: init = R(64); break;
	default: init = R(MAXE + 1); break;
	}
	ag = R(2) ? 0 : 1 + R(16);
	m->autogrow = ag != 0;
	m->max = init;
	if (R(2) && ag == 0)
		m->a = qb_array_create(init, m->esize);
	else
		m->a = qb_array_create_2(init, m->esize, ag);
	while (m->a == NULL && fi_n)
		m->a = qb_array_create_2(init, m->esize, ag);
	if (m->a == NULL)
		FAIL("create(%zu,%zu,%zu) failed", init, m->esize, ag);
	m->use_cb = R(3) == 0;
	if (m->use_cb)
		qb_array_new_bin_cb_set(m->a, new_bin_cb);
	/* locality of indexes: small span, around the limit, or everything */
	span = R(3);

	for (i = 0; i < budget; i++) {
		size_t op = R(100);
		total_ops++;
		if (op < 80) {
			int64_t idx;
			switch (R(8)) {
			case 0: idx = edge_idx[R(NEL(edge_idx))]; break;
			case 1: idx = (int64_t) m->max - 2 + (int64_t) R(5); break;
			case 2: idx = (int64_t) R(MAXE + 40) - 20; break;
			case 3: idx = (int64_t) (int32_t) rnd64(&rng_s); break;
			default:
				if (span == 0) idx = R(200);
				else if (span == 1) idx = m->max ? (int64_t) R(m->max) : 0;
				else idx = R(MAXE);
				break;
			}
			if (idx == INT32_MAX && m->autogrow)
				idx--;	/* idx + 1 overflows in qb_array_index: see targeted test */
			do_index(m, idx, R(2));
		} else if (op < 97) {
			size_t n;
			int32_t rc;
			switch (R(5)) {
			case 0: n = edge_max[R(NEL(edge_max))]; break;
			case 1: n = m->max + R(40); break;
			case 2: n = R(MAXE + 1); break;
			case 3: n = MAXE + 1 + R(1000); break;
			default: n = R(2) ? (size_t) rnd64(&rng_s) : m->max + R(400); break;
			}
			rc = qb_array_grow(m->a, n);
			if (n > MAXE) {
				if (rc == 0)
					FAIL("grow(%zu) succeeded", n);
			} else {
				if (rc != 0)
					FAIL("grow(%zu) rc %d", n, rc);
				if (n > m->max)
					m->max = n;
			}
		} else if (op < 99) {
			/* re-visit a few known elements */
			size_t k;
			for (k = 0; k < 50; k++) {
				size_t idx = R(MAXE);
				if (m->ptr[idx])
					check(m->ptr[idx], m->esize, (int32_t) idx, m->gen[idx], "revisit");
			}
		} else {
			check_disjoint(m);
			if (qb_array_elems_per_bin_get(m->a) != 16)
				FAIL("elems per bin");
		}
	}
	/* final: everything known still holds and is where it was */
	check_disjoint(m);
	for (i = 0; i < MAXE; i++) {
		if (m->ptr[i]) {
			void *p = NULL;
			int32_t rc = qb_array_index(m->a, (int32_t) i, &p);
			if (rc != 0 || p != m->ptr[i])
				FAIL("final index(%zu) rc %d %p vs %p", i, rc, p, m->ptr[i]);
			check(p, m->esize, (int32_t) i, m->gen[i], "final");
		}
	}
	qb_array_free(m->a);
	free(m);
}

/* ---------- threaded ---------- */
static qb_array_t *TA;
static size_t T_esize;
static int T_autogrow;
static int T_n;
static _Atomic(uintptr_t) T_ptr[MAXE];
static _Atomic size_t T_done_max;	/* grows that have completed */
static _Atomic size_t T_started_max;	/* grows that have started   */
static uint32_t T_gen[MAXE];		/* owned by thread idx % T_n  */
static pthread_barrier_t T_bar;
static _Atomic unsigned long T_cb;

static void amax(_Atomic size_t *v, size_t n)
{
	size_t cur = atomic_load(v);
	while (cur < n && !atomic_compare_exchange_weak(v, &cur, n))
		;
}

static void t_cb(qb_array_t *a, uint32_t bin)
{
	void *p;
	atomic_fetch_add(&T_cb, 1);
	/* the bin that was just announced must be reachable */
	if (qb_array_index(a, (int32_t) (bin * 16), &p) != 0)
		FAIL("cb: index of new bin %u failed", bin);
}

struct targ { int tid; uint64_t seed; size_t nops; };

static void *t_main(void *v)
{
	struct targ *ta = v;
	uint64_t s = ta->seed;
	size_t i;
	pthread_barrier_wait(&T_bar);
	for (i = 0; i < ta->nops; i++) {
		uint64_t r = rnd64(&s);
		if (r % 100 < 85) {
			int32_t idx;
			void *p = NULL;
			int32_t rc;
			size_t lo, hi;
			uint64_t r2 = rnd64(&s);
			switch (r2 % 6) {
			case 0: idx = (int32_t) (atomic_load(&T_started_max) + (rnd64(&s) % 40)) - 20; break;
			case 1: idx = (int32_t) (rnd64(&s) % (MAXE + 20)) - 10; break;
			default: {
				size_t mx = atomic_load(&T_done_max);
				idx = mx ? (int32_t) (rnd64(&s) % mx) : 0;
			} break;
			}
			lo = atomic_load(&T_done_max);
			if (T_autogrow && idx >= 0 && idx < MAXE)
				amax(&T_started_max, (size_t) idx + 1);
			rc = qb_array_index(TA, idx, &p);
			hi = atomic_load(&T_started_max);
			if (idx < 0 || idx >= MAXE) {
				if (rc == 0)
					FAIL("T index(%d) succeeded", idx);
				continue;
			}
			if (T_autogrow || (size_t) idx < lo) {
				if (rc != 0)
					FAIL("T index(%d) rc %d lo %zu", idx, rc, lo);
			} else if ((size_t) idx >= hi) {
				if (rc != -ERANGE)
					FAIL("T index(%d) rc %d hi %zu", idx, rc, hi);
			}
			if (rc != 0)
				continue;
			if (T_autogrow)
				amax(&T_done_max, (size_t) idx + 1);
			{
				uintptr_t exp = 0;
				if (!atomic_compare_exchange_strong(&T_ptr[idx], &exp, (uintptr_t) p)
				    && exp != (uintptr_t) p)
					FAIL("T index(%d) moved %p -> %p", idx, (void *) exp, p);
			}
			if (idx % T_n == ta->tid) {
				check(p, T_esize, idx, T_gen[idx], "T");
				if (r2 & 0x100) {
					T_gen[idx]++;
					fill(p, T_esize, idx, T_gen[idx]);
				}
			}
		} else {
			size_t n;
			int32_t rc;
			uint64_t r2 = rnd64(&s);
			size_t cur = atomic_load(&T_started_max);
			switch (r2 % 4) {
			case 0: n = cur + 1 + (rnd64(&s) % 16); break;
			case 1: n = cur + (rnd64(&s) % 300); break;
			case 2: n = rnd64(&s) % (cur + 1); break;
			default: n = cur + 1; break;
			}
			if (n > MAXE)
				n = MAXE;
			amax(&T_started_max, n);
			rc = qb_array_grow(TA, n);
			if (rc != 0)
				FAIL("T grow(%zu) rc %d", n, rc);
			amax(&T_done_max, n);
		}
	}
	return NULL;
}

static void run_threaded(int nthreads, size_t nops)
{
	pthread_t th[16];
	struct targ ta[16];
	int i;
	size_t k, init;
	static uintptr_t tmp[MAXE];
	size_t n = 0;

	T_n = nthreads;
	T_esize = esizes[R(24)];
	T_autogrow = (int) R(2);
	init = R(3) ? R(40) : R(2000);
	for (k = 0; k < MAXE; k++) {
		atomic_store(&T_ptr[k], 0);
		T_gen[k] = 0;
	}
	atomic_store(&T_done_max, init);
	atomic_store(&T_started_max, init);
	TA = qb_array_create_2(init, T_esize, T_autogrow ? 1 + R(16) : 0);
	if (!TA)
		FAIL("T create");
	if (R(2))
		qb_array_new_bin_cb_set(TA, t_cb);
	pthread_barrier_init(&T_bar, NULL, nthreads);
	for (i = 0; i < nthreads; i++) {
		ta[i].tid = i;
		ta[i].seed = rnd64(&rng_s) | 1;
		ta[i].nops = nops;
		pthread_create(&th[i], NULL, t_main, &ta[i]);
	}
	for (i = 0; i < nthreads; i++)
		pthread_join(th[i], NULL);
	pthread_barrier_destroy(&T_bar);
	/* final check */
	for (k = 0; k < MAXE; k++) {
		uintptr_t q = atomic_load(&T_ptr[k]);
		if (q) {
			void *p = NULL;
			int32_t rc = qb_array_index(TA, (int32_t) k, &p);
			if (rc != 0 || (uintptr_t) p != q)
				FAIL("T final index(%zu) rc %d %p vs %p", k, rc, p, (void *) q);
			check(p, T_esize, (int32_t) k, T_gen[k], "T final");
			tmp[n++] = q;
		}
	}
	qsort(tmp, n, sizeof(tmp[0]), ptr_cmp);
	for (k = 1; k < n; k++)
		if (tmp[k - 1] + T_esize > tmp[k])
			FAIL("T overlap");
	total_ops += nops * (size_t) nthreads;
	qb_array_free(TA);
}

int main(int argc, char **argv)
{
	uint64_t seed = argc > 1 ? strtoull(argv[1], NULL, 0) : 1;
	size_t nops = argc > 2 ? strtoul(argv[2], NULL, 0) : 200000;
	int threads = argc > 3 ? atoi(argv[3]) : 0;

	rng_s = seed * 0x9E3779B97F4A7C15ULL + 1;
	if (getenv("FI_CALLOC"))
		fi_n = (unsigned) atoi(getenv("FI_CALLOC"));
	if (threads == 0) {
		while (total_ops < nops)
			run_one(200 + R(20000));
	} else {
		if (threads > 16)
			threads = 16;
		while (total_ops < nops)
			run_threaded(threads, 2000 + R(30000));
	}
	printf("seed %llu ok: %lu ops, %lu cb calls, %lu injected calloc failures\n", (unsigned long long) seed, total_ops,
	       cb_calls + atomic_load(&T_cb), fi_hits);
	return 0;
}
