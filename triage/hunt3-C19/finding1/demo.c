/* C19 finding 1: a failed qb_array_grow() (bin table realloc returns NULL)
 * throws the whole bin table away: addresses change, written data is lost.
 *
 * array.c is compiled with -Drealloc=fi_realloc so that exactly one
 * realloc() call can be made to fail, as it would under memory pressure.
 */
#include <stdio.h>
#include <stdlib.h>
#include <string.h>
#include <stdint.h>
#include <errno.h>
#include <qb/qbarray.h>

static int fail_next;
void *fi_realloc(void *p, size_t n);
void *fi_realloc(void *p, size_t n)
{
	if (fail_next) {
		fail_next = 0;
		errno = ENOMEM;
		return NULL;
	}
	return (realloc)(p, n);
}

int main(void)
{
	qb_array_t *a = qb_array_create(16, 8);	/* 2 bins */
	void *p0 = NULL, *p1 = NULL, *p2 = NULL;
	int32_t rc;
	int bad = 0;

	rc = qb_array_index(a, 0, &p0);
	printf("index(0)   rc %d p %p\n", rc, p0);
	memset(p0, 0xAB, 8);

	fail_next = 1;
	rc = qb_array_grow(a, 1000);		/* bin table realloc fails */
	printf("grow(1000) rc %d (realloc failed)\n", rc);
	if (rc == 0 && fail_next == 0)
		printf("  note: grow reported success although realloc failed\n");

	/* whether or not the grow took effect, element 0 must be unharmed.
	 * Touch a high index first: on the unfixed code this re-creates the
	 * bin table with its first entries uninitialised (otherwise index(0)
	 * just dereferences the NULL table and crashes). */
	rc = qb_array_index(a, 500, &p2);
	printf("index(500) rc %d p %p\n", rc, p2);
	rc = qb_array_index(a, 0, &p1);
	printf("index(0)   rc %d p %p\n", rc, p1);
	if (rc != 0) {
		printf("VIOLATION: element 0 no longer reachable\n");
		bad = 1;
	} else if (p1 != p0) {
		printf("VIOLATION: address of element 0 changed %p -> %p\n", p0, p1);
		bad = 1;
	} else if (*(unsigned char *) p1 != 0xAB) {
		printf("VIOLATION: content of element 0 lost\n");
		bad = 1;
	}
	if (!bad)
		printf("OK\n");
	return bad;
}
