#!/bin/sh
# usage: demo.sh <tree>   exit 0 = property held, non-zero = violated
T=${1:-/repo}
D=$(cd "$(dirname "$0")" && pwd)
INC="-DHAVE_CONFIG_H -I$T/include -I$T/include/qb -I$T/lib"
gcc -g -O0 $INC -o $D/demo $D/demo.c $T/lib/array.c -L$T/lib/.libs -lqb -lpthread || exit 99
LD_LIBRARY_PATH=$T/lib/.libs $D/demo
