/* C19 finding 2: qb_array_create_2() does not check the result of
 * qb_thread_lock_create(); when that fails (malloc or pthread init failure)
 * it still returns an array, and the first index/grow call on it crashes in
 * qb_thread_lock(NULL).
 *
 * The failure is simulated by interposing qb_thread_lock_create() (array.c is
 * compiled into this program, so its call resolves to the definition below).
 */
#include <stdio.h>
#include <stdlib.h>
#include <stdint.h>
#include <signal.h>
#include <unistd.h>
#include <qb/qbarray.h>
#include <qb/qbutil.h>

qb_thread_lock_t *qb_thread_lock_create(qb_thread_lock_type_t t)
{
	(void) t;
	return NULL;		/* as on ENOMEM */
}

static void on_segv(int s)
{
	static const char msg[] = "VIOLATION: SIGSEGV in index on an array that create returned\n";
	(void) s;
	(void) !write(1, msg, sizeof(msg) - 1);
	_exit(2);
}

int main(void)
{
	qb_array_t *a;
	void *p = NULL;
	int32_t rc;

	signal(SIGSEGV, on_segv);
	a = qb_array_create(4, 8);
	printf("create -> %p (lock creation failed)\n", (void *) a);
	fflush(stdout);
	if (a == NULL) {
		printf("OK: create refused\n");
		return 0;
	}
	rc = qb_array_index(a, 0, &p);
	printf("index(0) rc %d p %p\n", rc, p);
	if (rc != 0 || p == NULL) {
		printf("VIOLATION: index 0 of a 4 element array failed\n");
		return 1;
	}
	printf("OK\n");
	return 0;
}
