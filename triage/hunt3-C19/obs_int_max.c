#include <stdio.h>
#include <stdint.h>
#include <limits.h>
#include <qb/qbarray.h>
int main(void){ qb_array_t*a=qb_array_create_2(4,8,1); void*p=0; int32_t rc=qb_array_index(a,INT32_MAX,&p); printf("rc %d\n",rc);
 rc=qb_array_index(a,65536,&p); printf("rc %d\n",rc); rc=qb_array_index(a,65535,&p); printf("rc %d bins %zu\n",rc,qb_array_num_bins_get(a));
 qb_array_t*b=qb_array_create(4,8); rc=qb_array_grow(b,65536); printf("grow rc %d bins %zu\n",rc,qb_array_num_bins_get(b));
 return 0;}
