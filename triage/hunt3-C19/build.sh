#!/bin/sh
# usage: build.sh [tree]   -> fuzz_asan, fuzz_tsan
T=${1:-/repo}
D=$(dirname "$0")
INC="-DHAVE_CONFIG_H -I$T/include -I$T/include/qb -I$T/lib"
gcc -g -O1 -fsanitize=address,undefined -fno-sanitize-recover=undefined $INC -o $D/fuzz_asan $D/fuzz.c $T/lib/array.c -L$T/lib/.libs -lqb -lpthread || exit 1
gcc -g -O1 -fsanitize=thread $INC -o $D/fuzz_tsan $D/fuzz.c $T/lib/array.c -L$T/lib/.libs -lqb -lpthread || exit 1
# fault injection variant: calloc() inside array.c can be made to fail (FI_CALLOC=<n>)
gcc -g -O1 -fsanitize=address,undefined -fno-sanitize-recover=undefined $INC -Dcalloc=fi_calloc -c -o $D/array_fi.o $T/lib/array.c || exit 1
gcc -g -O1 -fsanitize=address,undefined -fno-sanitize-recover=undefined $INC -o $D/fuzz_fi $D/fuzz.c $D/array_fi.o -L$T/lib/.libs -lqb -lpthread || exit 1
