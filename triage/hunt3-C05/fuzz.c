/*
 * C05 model-based tester: IPC admission.
 *
 * driver  : forks one server, then batches of client processes with random
 *           real/effective ids and a random plan per client (refuse with
 *           error E / accept with default auth / accept with auth_set()).
 * server  : libqb IPC server (lib sources compiled in, file syscalls wrapped
 *           with -Wl,--wrap so that after EVERY chown/chmod/open/mkdtemp/
 *           unlink/rmdir the state of /dev/shm/qb-<spid>-* is compared with
 *           the model: the "at any moment" part of the property).
 * client  : qb_ipcc_connect, checks result against the plan, looks at the
 *           files, sends tagged messages.
 *
 * usage: fuzz <seed> <rounds> <shm|sock> [maxbatch] [raw: 1 = mix in hand-made clients that walk away mid-handshake]
 */
#define _GNU_SOURCE
#include <stdio.h>
#include <stdlib.h>
#include <string.h>
#include <unistd.h>
#include <errno.h>
#include <fcntl.h>
#include <dirent.h>
#include <signal.h>
#include <stdarg.h>
#include <grp.h>
#include <poll.h>
#include <sys/mman.h>
#include <sys/stat.h>
#include <sys/wait.h>
#include <sys/types.h>
#include <time.h>

#include <qb/qbdefs.h>
#include <qb/qbloop.h>
#include <qb/qbipcs.h>
#include <qb/qbipcc.h>
#include <qb/qblog.h>
#include <sys/socket.h>
#include <sys/un.h>
#include <stddef.h>
#include "ipc_int.h"

#define MAXSLOT 16

enum { ST_FREE, ST_UNDECIDED, ST_REFUSED, ST_ACCEPTED };

struct slot {
	volatile pid_t pid;
	/* plan */
	uid_t ruid, euid;
	gid_t rgid, egid;
	int refuse;		/* 0 or negative errno to return */
	int use_auth_set;
	uid_t a_uid;
	gid_t a_gid;
	mode_t a_mode;
	uint32_t msgsize;
	int nmsgs;
	int raw;		/* 0: libqb client; 1..5: hand-made handshake that goes away early */
	/* state written by the server */
	volatile int state;
	volatile int accept_calls;
	volatile int created_calls;
	volatile int msgs_seen;
	volatile int destroyed;
};

struct shared {
	struct slot slot[MAXSLOT];
	volatile int stop;
	volatile long violations;
	volatile long accepts, refusals, msgs, scans, transient_left;
	volatile long client_fail_ok;
	volatile int server_ready;
	pid_t spid;
	/* hand-made clients that have gone: their request may still be queued in the
	 * server's socket when the round is closed */
	volatile pid_t rawgone[256];
	volatile unsigned nrawgone;
	time_t t0;	/* entries older than the run belong to an earlier process with the same pid */
};

static struct shared *sh;
static int g_is_server;
static int g_raw;
static char svcname[64];
static enum qb_ipc_type g_type;

static void viol(const char *fmt, ...)
{
	va_list ap;
	char buf[1024];
	va_start(ap, fmt);
	vsnprintf(buf, sizeof buf, fmt, ap);
	va_end(ap);
	fprintf(stderr, "VIOLATION[%d]: %s\n", getpid(), buf);
	__sync_fetch_and_add(&sh->violations, 1);
}

static struct slot *slot_by_pid(pid_t pid)
{
	int i;
	for (i = 0; i < MAXSLOT; i++)
		if (sh->slot[i].pid == pid && sh->slot[i].state != ST_FREE)
			return &sh->slot[i];
	return NULL;
}

static int was_raw(pid_t pid)
{
	int i;
	for (i = 0; i < 256; i++)
		if (sh->rawgone[i] == pid) return 1;
	return 0;
}

static mode_t dir_mode_for(mode_t m)
{
	return (m & 0777) | ((m & 0444) >> 2);
}

/* ---------------- server-side invariant scan ---------------- */
static void check_entry(const char *dpath, struct slot *sl, const char *why)
{
	struct stat st;
	DIR *d;
	struct dirent *de;
	mode_t fmode_ok, dmode_ok;

	if (lstat(dpath, &st) != 0)
		return;
	if (!S_ISDIR(st.st_mode)) {
		viol("%s: %s is not a directory", why, dpath);
		return;
	}
	if (sl->state == ST_UNDECIDED || sl->state == ST_REFUSED) {
		if (st.st_uid != 0 || st.st_gid != 0 || (st.st_mode & 07777) != 0700)
			viol("%s: %s state %d but uid %d gid %d mode %o", why, dpath,
			     sl->state, st.st_uid, st.st_gid, st.st_mode & 07777);
		fmode_ok = 0;
		dmode_ok = 0700;
	} else {
		uid_t u = sl->use_auth_set ? sl->a_uid : sl->euid;
		gid_t g = sl->use_auth_set ? sl->a_gid : sl->egid;
		fmode_ok = sl->use_auth_set ? sl->a_mode : 0600;
		dmode_ok = dir_mode_for(fmode_ok);
		if (!((st.st_uid == 0 && st.st_gid == 0) ||
		      (st.st_uid == u && st.st_gid == g)))
			viol("%s: dir %s owner %d:%d, authorised %d:%d", why, dpath,
			     st.st_uid, st.st_gid, u, g);
		/* group/other bits never beyond what was chosen; owner bits:
		 * 0700 while it is being built */
		if ((st.st_mode & 07077) & ~(dmode_ok & 07077))
			viol("%s: dir %s mode %o, allowed %o", why, dpath,
			     st.st_mode & 07777, dmode_ok);
		/* somebody else than root/authorised owner with access */
		if (st.st_uid != 0 && st.st_uid != u)
			viol("%s: dir %s owned by stranger %d", why, dpath, st.st_uid);
	}
	d = opendir(dpath);
	if (!d)
		return;
	while ((de = readdir(d))) {
		char p[PATH_MAX];
		if (de->d_name[0] == '.')
			continue;
		snprintf(p, sizeof p, "%s/%s", dpath, de->d_name);
		if (lstat(p, &st) != 0)
			continue;
		if (sl->state != ST_ACCEPTED) {
			viol("%s: file %s exists in state %d", why, p, sl->state);
			continue;
		}
		{
			uid_t u = sl->use_auth_set ? sl->a_uid : sl->euid;
			gid_t g = sl->use_auth_set ? sl->a_gid : sl->egid;
			if (!S_ISREG(st.st_mode) && !S_ISSOCK(st.st_mode))
				viol("%s: %s odd type %o", why, p, st.st_mode);
			if (!((st.st_uid == 0 || st.st_uid == u) &&
			      (st.st_gid == 0 || st.st_gid == g)))
				viol("%s: file %s owner %d:%d, authorised %d:%d", why,
				     p, st.st_uid, st.st_gid, u, g);
			if ((st.st_mode & 07077) & ~(fmode_ok & 07077))
				viol("%s: file %s mode %o, chosen %o (owner %d:%d)", why,
				     p, st.st_mode & 07777, fmode_ok, st.st_uid, st.st_gid);
		}
	}
	closedir(d);
}

static int in_scan;
static void scan(const char *why)
{
	DIR *d;
	struct dirent *de;
	char pfx[64];
	size_t pl;
	int saved = errno;

	if (!g_is_server || in_scan)
		return;
	in_scan = 1;
	sh->scans++;
	pl = snprintf(pfx, sizeof pfx, "qb-%d-", (int)sh->spid);
	d = opendir("/dev/shm");
	if (d) {
		while ((de = readdir(d))) {
			char p[PATH_MAX];
			int cpid = 0;
			struct slot *sl;
			if (strncmp(de->d_name, pfx, pl) != 0)
				continue;
			cpid = atoi(de->d_name + pl);
			snprintf(p, sizeof p, "/dev/shm/%s", de->d_name);
			{
				struct stat st0;
				if (lstat(p, &st0) != 0 || st0.st_ctime < sh->t0 - 1) continue;
			}
			sl = slot_by_pid(cpid);
			if (!sl) {
				struct stat st;
				if (lstat(p, &st) == 0 && !was_raw(cpid))
					viol("%s: %s belongs to no client in progress", why, p);
				continue;
			}
			check_entry(p, sl, why);
		}
		closedir(d);
	}
	in_scan = 0;
	errno = saved;
}

/* wrapped syscalls (only references from the objects linked here) */
int __real_chown(const char *p, uid_t u, gid_t g);
int __wrap_chown(const char *p, uid_t u, gid_t g)
{ int r = __real_chown(p, u, g); scan("after chown"); return r; }
int __real_chmod(const char *p, mode_t m);
int __wrap_chmod(const char *p, mode_t m)
{
	int r;
	/* self-test of the checker: FUZZ_MUTATE=1 makes every chmod too generous,
	 * FUZZ_MUTATE=2 makes the accept callback see the real instead of the effective ids */
	if (getenv("FUZZ_MUTATE") && atoi(getenv("FUZZ_MUTATE")) == 1) m |= 0004;
	r = __real_chmod(p, m); scan("after chmod"); return r;
}
char *__real_mkdtemp(char *t);
char *__wrap_mkdtemp(char *t)
{ char *r = __real_mkdtemp(t); scan("after mkdtemp"); return r; }
int __real_unlink(const char *p);
int __wrap_unlink(const char *p)
{ int r = __real_unlink(p); scan("after unlink"); return r; }
int __real_rmdir(const char *p);
int __wrap_rmdir(const char *p)
{ int r = __real_rmdir(p); scan("after rmdir"); return r; }
int __real_open(const char *p, int fl, ...);
int __wrap_open(const char *p, int fl, ...)
{
	mode_t m = 0; int r;
	if (fl & (O_CREAT
#ifdef O_TMPFILE
		  | O_TMPFILE
#endif
	    )) { va_list ap; va_start(ap, fl); m = va_arg(ap, mode_t); va_end(ap); }
	r = __real_open(p, fl, m);
	if (fl & O_CREAT) scan("after open(O_CREAT)");
	return r;
}
int __real_ftruncate(int fd, off_t l);
int __wrap_ftruncate(int fd, off_t l)
{ int r = __real_ftruncate(fd, l); scan("after ftruncate"); return r; }

/* ---------------- server ---------------- */
static qb_loop_t *loop;
static qb_ipcs_service_t *svc;

struct tagmsg {
	struct qb_ipc_request_header hdr;
	int32_t slot;
	int32_t pid;
	uint32_t magic;
};

static int32_t s_accept(qb_ipcs_connection_t *c, uid_t uid, gid_t gid)
{
	struct qb_ipcs_connection_stats st;
	struct slot *sl;

	qb_ipcs_connection_stats_get(c, &st, 0);
	sl = slot_by_pid(st.client_pid);
	if (!sl) {
		if (!was_raw(st.client_pid))
			viol("accept: unknown client pid %d", st.client_pid);
		return -EACCES;
	}
	sl->accept_calls++;
	if (getenv("FUZZ_MUTATE") && atoi(getenv("FUZZ_MUTATE")) == 2) { uid = sl->ruid; gid = sl->rgid; }
	if (uid != sl->euid || gid != sl->egid)
		viol("accept: pid %d got %d:%d, effective ids are %d:%d (real %d:%d)",
		     st.client_pid, uid, gid, sl->euid, sl->egid, sl->ruid, sl->rgid);
	scan("in accept");
	if (sl->refuse) {
		sl->state = ST_REFUSED;
		sh->refusals++;
		return sl->refuse;
	}
	if (sl->use_auth_set)
		qb_ipcs_connection_auth_set(c, sl->a_uid, sl->a_gid, sl->a_mode);
	sl->state = ST_ACCEPTED;
	sh->accepts++;
	return 0;
}

static void final_check(struct slot *sl)
{
	DIR *d = opendir("/dev/shm");
	struct dirent *de;
	char pfx[64];
	size_t pl = snprintf(pfx, sizeof pfx, "qb-%d-%d-", (int)sh->spid, (int)sl->pid);
	int found = 0;
	uid_t u = sl->use_auth_set ? sl->a_uid : sl->euid;
	gid_t g = sl->use_auth_set ? sl->a_gid : sl->egid;
	mode_t fm = (sl->use_auth_set ? sl->a_mode : 0600);

	while (d && (de = readdir(d))) {
		char p[PATH_MAX];
		struct stat st;
		DIR *d2;
		struct dirent *e2;
		int nfiles = 0;
		if (strncmp(de->d_name, pfx, pl)) continue;
		snprintf(p, sizeof p, "/dev/shm/%s", de->d_name);
		if (lstat(p, &st)) continue;
		found++;
		if (st.st_uid != u || st.st_gid != g)
			viol("created: dir %s owner %d:%d want %d:%d", p, st.st_uid, st.st_gid, u, g);
		if ((st.st_mode & 07777) & ~dir_mode_for(fm))
			viol("created: dir %s mode %o want within %o", p, st.st_mode & 07777, dir_mode_for(fm));
		d2 = opendir(p);
		while (d2 && (e2 = readdir(d2))) {
			char q[PATH_MAX];
			if (e2->d_name[0] == '.') continue;
			snprintf(q, sizeof q, "%s/%s", p, e2->d_name);
			if (lstat(q, &st)) continue;
			nfiles++;
			if (st.st_uid != u || st.st_gid != g)
				viol("created: file %s owner %d:%d want %d:%d", q, st.st_uid, st.st_gid, u, g);
			if ((st.st_mode & 07777) & ~(fm & 07777))
				viol("created: file %s mode %o chosen %o", q, st.st_mode & 07777, fm);
		}
		if (d2) closedir(d2);
		/* socket transport: a quick client has disconnected (and unlinked the
		 * control file, removed the directory) before this callback runs */
		if (g_type == QB_IPC_SHM ? nfiles != 6 : nfiles > 1)
			viol("created: %s has %d files (raw %d msgsize %u)", p, nfiles, sl->raw, sl->msgsize);
	}
	if (d) closedir(d);
	if (g_type == QB_IPC_SHM ? found != 1 : found > 1)
		viol("created: %d directories for pid %d", found, sl->pid);
}

static void s_created(qb_ipcs_connection_t *c)
{
	struct qb_ipcs_connection_stats st;
	struct slot *sl;
	qb_ipcs_connection_stats_get(c, &st, 0);
	sl = slot_by_pid(st.client_pid);
	if (!sl) { if (!was_raw(st.client_pid)) viol("created: unknown pid %d", st.client_pid); return; }
	if (sl->state != ST_ACCEPTED)
		viol("created: pid %d in state %d", st.client_pid, sl->state);
	sl->created_calls++;
	qb_ipcs_context_set(c, sl);
	final_check(sl);
}

static int32_t s_msg(qb_ipcs_connection_t *c, void *data, size_t size)
{
	struct tagmsg *m = data;
	struct qb_ipcs_connection_stats st;
	struct slot *sl;
	struct qb_ipc_response_header r;

	qb_ipcs_connection_stats_get(c, &st, 0);
	sh->msgs++;
	if (size < sizeof(*m) || m->magic != 0xC05C05u) {
		viol("msg: garbage message size %zu from pid %d", size, st.client_pid);
		return 0;
	}
	sl = (m->slot >= 0 && m->slot < MAXSLOT) ? &sh->slot[m->slot] : NULL;
	if (!sl || sl->pid != m->pid || sl->pid != (pid_t)st.client_pid)
		viol("msg: tag slot %d pid %d arrives on connection of pid %d", m->slot, m->pid, st.client_pid);
	else if (sl->state != ST_ACCEPTED)
		viol("msg: message from pid %d whose state is %d", m->pid, sl->state);
	else
		sl->msgs_seen++;
	r.id = m->hdr.id; r.size = sizeof r; r.error = 0;
	qb_ipcs_response_send(c, &r, sizeof r);
	return 0;
}

static int32_t s_closed(qb_ipcs_connection_t *c) { return 0; }
static void s_destroyed(qb_ipcs_connection_t *c)
{
	struct qb_ipcs_connection_stats st;
	struct slot *sl;
	qb_ipcs_connection_stats_get(c, &st, 0);
	sl = slot_by_pid(st.client_pid);
	if (sl) sl->destroyed++;
}

static int32_t my_job_add(enum qb_loop_priority p, void *d, qb_loop_job_dispatch_fn fn)
{ return qb_loop_job_add(loop, p, d, fn); }
static int32_t my_dispatch_add(enum qb_loop_priority p, int32_t fd, int32_t ev, void *d, qb_ipcs_dispatch_fn_t fn)
{ return qb_loop_poll_add(loop, p, fd, ev, d, fn); }
static int32_t my_dispatch_mod(enum qb_loop_priority p, int32_t fd, int32_t ev, void *d, qb_ipcs_dispatch_fn_t fn)
{ return qb_loop_poll_mod(loop, p, fd, ev, d, fn); }
static int32_t my_dispatch_del(int32_t fd)
{ return qb_loop_poll_del(loop, fd); }

static void stop_timer(void *d)
{
	qb_loop_timer_handle h;
	if (sh->stop) { qb_loop_stop(loop); return; }
	qb_loop_timer_add(loop, QB_LOOP_LOW, 20 * QB_TIME_NS_IN_MSEC, NULL, stop_timer, &h);
}

static void run_server(void)
{
	struct qb_ipcs_service_handlers h = {
		.connection_accept = s_accept, .connection_created = s_created,
		.msg_process = s_msg, .connection_closed = s_closed,
		.connection_destroyed = s_destroyed };
	struct qb_ipcs_poll_handlers ph = {
		.job_add = my_job_add, .dispatch_add = my_dispatch_add,
		.dispatch_mod = my_dispatch_mod, .dispatch_del = my_dispatch_del };
	int32_t rc;

	g_is_server = 1;
	sh->spid = getpid();
	loop = qb_loop_create();
	svc = qb_ipcs_create(svcname, 0, g_type, &h);
	qb_ipcs_poll_handlers_set(svc, &ph);
	rc = qb_ipcs_run(svc);
	if (rc != 0) { fprintf(stderr, "qb_ipcs_run %d\n", rc); _exit(3); }
	sh->server_ready = 1;
	stop_timer(NULL);
	qb_loop_run(loop);
	qb_ipcs_destroy(svc);
	scan("after destroy");
	_exit(0);
}

/* ---------------- client ---------------- */
static int count_my_dirs(void)
{
	DIR *d = opendir("/dev/shm");
	struct dirent *de;
	char pfx[64];
	size_t pl = snprintf(pfx, sizeof pfx, "qb-%d-%d-", (int)sh->spid, (int)getpid());
	int n = 0;
	while (d && (de = readdir(d)))
		if (!strncmp(de->d_name, pfx, pl)) n++;
	if (d) closedir(d);
	return n;
}


/* a client that speaks the handshake by hand and walks away at some point */
static void run_raw(struct slot *sl)
{
	struct sockaddr_un a;
	struct qb_ipc_connection_request rq;
	struct qb_ipc_connection_response rs;
	int fd = socket(AF_UNIX, SOCK_STREAM, 0);
	ssize_t n;

	memset(&a, 0, sizeof a);
	a.sun_family = AF_UNIX;
	snprintf(a.sun_path + 1, sizeof a.sun_path - 1, "%s", svcname);
	if (connect(fd, (struct sockaddr *)&a, (socklen_t)(offsetof(struct sockaddr_un, sun_path) + 1 + strlen(a.sun_path + 1))) != 0) _exit(0);
	memset(&rq, 0, sizeof rq);
	rq.hdr.id = QB_IPC_MSG_AUTHENTICATE;
	rq.hdr.size = sizeof rq;
	rq.max_msg_size = sl->msgsize;
	switch (sl->raw) {
	case 1: break;						/* nothing at all */
	case 2: n = write(fd, &rq, sizeof rq / 2); break;	/* half a request */
	case 3: n = write(fd, &rq, sizeof rq); break;		/* whole request, no wait */
	case 4: n = write(fd, &rq, sizeof rq);			/* reads the answer, opens nothing */
		n = read(fd, &rs, sizeof rs);
		if (n == sizeof rs && sl->refuse && rs.hdr.error != sl->refuse)
			viol("raw client: refused with %d, response says %d", sl->refuse, rs.hdr.error);
		if (n == sizeof rs && !sl->refuse && rs.hdr.error == 0 && sl->nmsgs) usleep(1000 * sl->nmsgs);
		break;
	default: rq.hdr.id = 12345; n = write(fd, &rq, sizeof rq); usleep(2000); break; /* not a handshake */
	}
	(void)n;
	close(fd);
	_exit(0);
}

static void run_client(int idx)
{
	struct slot *sl = &sh->slot[idx];
	qb_ipcc_connection_t *c;
	int i, e;
	uid_t au = sl->use_auth_set ? sl->a_uid : sl->euid;
	gid_t ag = sl->use_auth_set ? sl->a_gid : sl->egid;
	mode_t am = sl->use_auth_set ? sl->a_mode : 0600;
	int can_open;

	setgroups(0, NULL);
	if (setregid(sl->rgid, sl->egid) || setreuid(sl->ruid, sl->euid)) {
		fprintf(stderr, "client: cannot switch ids: %s\n", strerror(errno));
		_exit(9);
	}
	sl->pid = getpid();
	sl->state = ST_UNDECIDED;
	__sync_synchronize();
	if (sl->raw) run_raw(sl);

	errno = 0;
	c = qb_ipcc_connect(svcname, sl->msgsize);
	e = errno;
	if (sl->refuse) {
		if (c != NULL)
			viol("client %d: refused with %d but connect succeeded", getpid(), sl->refuse);
		else if (e != -sl->refuse)
			viol("client %d: refused with %d but errno %d", getpid(), sl->refuse, e);
		if (count_my_dirs() != 0) {
			/* the reply is sent before rmdir: look again */
			__sync_fetch_and_add(&sh->transient_left, 1);
			usleep(20000);
			for (i = 0; i < 50 && count_my_dirs(); i++) usleep(20000);
			if (count_my_dirs() != 0)
				viol("client %d: refused but directory remains", getpid());
		}
		if (c) qb_ipcc_disconnect(c);
		_exit(0);
	}
	/* accepted by the callback: can this process use the files? */
	if (sl->euid == 0)
		can_open = 1;
	else if (sl->euid == au)
		can_open = (am & 0600) == 0600;
	else if (sl->egid == ag)
		can_open = (am & 0060) == 0060 && (am & 0040);
	else
		can_open = (am & 0006) == 0006;
	if (c == NULL) {
		if (can_open && g_type == QB_IPC_SHM)
			viol("client %d (e %d:%d): accepted (auth %d:%d %o) but connect failed errno %d",
			     getpid(), sl->euid, sl->egid, au, ag, am, e);
		else
			__sync_fetch_and_add(&sh->client_fail_ok, 1);
		_exit(0);
	}
	for (i = 0; i < sl->nmsgs; i++) {
		struct tagmsg m;
		struct qb_ipc_response_header r;
		struct iovec iov = { &m, sizeof m };
		ssize_t rc;
		memset(&m, 0, sizeof m);
		m.hdr.id = 100 + i; m.hdr.size = sizeof m;
		m.slot = idx; m.pid = getpid(); m.magic = 0xC05C05u;
		rc = qb_ipcc_sendv_recv(c, &iov, 1, &r, sizeof r, 3000);
		if (rc != sizeof r)
			fprintf(stderr, "client %d: sendv_recv %zd\n", getpid(), rc);
	}
	qb_ipcc_disconnect(c);
	_exit(0);
}

/* ---------------- driver ---------------- */
static volatile sig_atomic_t g_term;
static void on_term(int sig) { g_term = 1; }
static unsigned long long rs;
static unsigned rnd(void)
{
	rs ^= rs << 13; rs ^= rs >> 7; rs ^= rs << 17;
	return (unsigned)(rs >> 11);
}
static const int errs[] = { -EACCES, -EPERM, -EAGAIN, -ENOMEM, -EINVAL, -EBUSY, -ENOENT, -1, -4095, -ECONNREFUSED, -ENAMETOOLONG, -E2BIG };
static const uid_t ids[] = { 0, 1, 2, 33, 1000, 1001, 65534, 60000, 123456 };
static const mode_t modes[] = { 0600, 0600, 0660, 0666, 0640, 0644, 0606, 0700, 0777, 0664, 0620 };
static const uint32_t sizes[] = { 0, 1, 23, 24, 100, 4095, 4096, 4097, 8192, 65536, 100000, 1048576 };
#define N(a) (sizeof(a)/sizeof(a[0]))

int main(int argc, char **argv)
{
	unsigned long seed = argc > 1 ? strtoul(argv[1], 0, 0) : 1;
	long rounds = argc > 2 ? atol(argv[2]) : 100;
	const char *t = argc > 3 ? argv[3] : "shm";
	int maxbatch = argc > 4 ? atoi(argv[4]) : 8;
	pid_t sp;
	long r, total = 0;
	int st;

	if (maxbatch > MAXSLOT) maxbatch = MAXSLOT;
	g_raw = argc > 5 ? atoi(argv[5]) : 0;
	g_type = strcmp(t, "sock") ? QB_IPC_SHM : QB_IPC_SOCKET;
	rs = seed * 0x9E3779B97F4A7C15ull + 12345;
	snprintf(svcname, sizeof svcname, "h3c05-%d-%lu", getpid(), seed);
	sh = mmap(NULL, sizeof *sh, PROT_READ | PROT_WRITE, MAP_SHARED | MAP_ANONYMOUS, -1, 0);
	memset(sh, 0, sizeof *sh);
	sh->t0 = time(NULL);
	if (getenv("FUZZ_LOG")) {
		qb_log_init("fuzz", LOG_USER, LOG_EMERG);
		qb_log_filter_ctl(QB_LOG_STDERR, QB_LOG_FILTER_ADD, QB_LOG_FILTER_FILE, "*", LOG_TRACE);
		qb_log_ctl(QB_LOG_STDERR, QB_LOG_CONF_ENABLED, QB_TRUE);
	}
	signal(SIGPIPE, SIG_IGN);

	sp = fork();
	if (sp != 0) { signal(SIGTERM, on_term); signal(SIGINT, on_term); }
	if (sp == 0) run_server();
	while (!sh->server_ready) {
		if (waitpid(sp, &st, WNOHANG) == sp) { fprintf(stderr, "server died\n"); return 2; }
		usleep(1000);
	}

	for (r = 0; r < rounds && sh->violations < 20 && !g_term; r++) {
		int n = 1 + rnd() % maxbatch, i;
		pid_t kids[MAXSLOT];
		for (i = 0; i < n; i++) {
			struct slot *sl = &sh->slot[i];
			memset(sl, 0, sizeof *sl);
			sl->euid = ids[rnd() % N(ids)];
			sl->ruid = (rnd() & 1) ? sl->euid : ids[rnd() % N(ids)];
			sl->egid = ids[rnd() % N(ids)];
			sl->rgid = (rnd() & 1) ? sl->egid : ids[rnd() % N(ids)];
			/* a process that is not root in any way cannot pick ids */
			sl->refuse = (rnd() % 3 == 0) ? errs[rnd() % N(errs)] : 0;
			sl->use_auth_set = rnd() % 2;
			switch (rnd() % 4) {
			case 0: sl->a_uid = sl->euid; sl->a_gid = sl->egid; break;
			case 1: sl->a_uid = sl->euid; sl->a_gid = ids[rnd() % N(ids)]; break;
			case 2: sl->a_uid = ids[rnd() % N(ids)]; sl->a_gid = sl->egid; break;
			default: sl->a_uid = ids[rnd() % N(ids)]; sl->a_gid = ids[rnd() % N(ids)]; break;
			}
			sl->a_mode = modes[rnd() % N(modes)];
			sl->msgsize = sizes[rnd() % N(sizes)];
			sl->nmsgs = rnd() % 4;
			sl->raw = (g_raw && rnd() % 3 == 0) ? 1 + rnd() % 5 : 0;
		}
		for (i = 0; i < n; i++) {
			kids[i] = fork();
			if (kids[i] == 0) run_client(i);
		}
		for (i = 0; i < n; i++) {
			waitpid(kids[i], &st, 0);
			if (!WIFEXITED(st) || WEXITSTATUS(st) != 0)
				viol("client %d ended with status %x", kids[i], st);
		}
		total += n;
		/* let the server see the hang-ups, then everything must be gone */
		{
			int tries, left = 1;
			char pfx[64];
			size_t pl = snprintf(pfx, sizeof pfx, "qb-%d-", (int)sp);
			for (tries = 0; tries < 200 && left; tries++) {
				DIR *d = opendir("/dev/shm");
				struct dirent *de;
				left = 0;
				while (d && (de = readdir(d)))
					if (!strncmp(de->d_name, pfx, pl)) {
						char q[PATH_MAX]; struct stat st0;
						snprintf(q, sizeof q, "/dev/shm/%s", de->d_name);
						if (lstat(q, &st0) == 0 && st0.st_ctime >= sh->t0 - 1) left++;
					}
				if (d) closedir(d);
				if (left) usleep(5000);
			}
			if (left)
				viol("round %ld: %d entries of the server remain in /dev/shm", r, left);
		}
		for (i = 0; i < n; i++) {
			struct slot *sl = &sh->slot[i];
			if (sl->raw ? sl->accept_calls > 1 : sl->accept_calls != 1)
				viol("round %ld slot %d: accept called %d times", r, i, sl->accept_calls);
			if (sl->raw && sl->msgs_seen)
				viol("round %ld slot %d: raw client, %d msgs", r, i, sl->msgs_seen);
			if (sl->refuse && (sl->created_calls || sl->msgs_seen))
				viol("round %ld slot %d: refused but created %d msgs %d", r, i, sl->created_calls, sl->msgs_seen);
			/* socket transport: a quick client removes its directory itself, the round can be
			 * closed while the server is between sending the response and connection_created() */
			if (sl->raw || g_type == QB_IPC_SOCKET) sh->rawgone[sh->nrawgone++ % 256] = sl->pid;
			sl->state = ST_FREE;
		}
		if (waitpid(sp, &st, WNOHANG) == sp) { viol("server died status %x", st); break; }
	}
	sh->stop = 1;
	waitpid(sp, &st, 0);
	if (!WIFEXITED(st) || WEXITSTATUS(st)) viol("server exit status %x", st);
	printf("seed %lu type %s: clients %ld accepts %ld refusals %ld msgs %ld scans %ld "
	       "client-cannot-open %ld transient-dir-after-refusal %ld violations %ld\n",
	       seed, t, total, sh->accepts, sh->refusals, sh->msgs, sh->scans,
	       sh->client_fail_ok, sh->transient_left, sh->violations);
	return sh->violations ? 1 : 0;
}
