#!/bin/sh
# usage: demo.sh <tree>     exit 0 = property held, non-zero = violated
T=${1:-/repo}
D=$(cd "$(dirname "$0")" && pwd)
gcc -g -O1 -fsanitize=address,undefined -I$T/include -o $D/demo $D/demo.c -L$T/lib/.libs -lqb || exit 2
LD_LIBRARY_PATH=$T/lib/.libs ASAN_OPTIONS=detect_leaks=0 $D/demo
