/*
 * C05 finding 2: with the socket transport a REFUSED client ends up holding the
 * event channel of an accepted connection and reads what the server sends there.
 *
 *  server (root)   : QB_IPC_SOCKET service, accepts uid 1000, refuses everybody else (-EACCES);
 *                    connection_created() greets the new connection with an event
 *                    ("SECRET-FOR-UID-1000")
 *  client B (1001) : qb_ipcc_connect() -> NULL/EACCES (refused). Then watches /dev/shm
 *                    (world readable) for a new connection directory of the server and binds
 *                    the abstract datagram name "\0<dir>/qb-<service>-event" the moment it shows up.
 *  client A (1000) : qb_ipcc_connect_async(); its process is slow (sleeps 300 ms) before it
 *                    calls qb_ipcc_connect_continue()
 *  expected        : nobody but A ever receives the event
 *  exit 0 = property held, 1 = violated, 2 = set-up problem
 */
#define _GNU_SOURCE
#include <stdio.h>
#include <stdlib.h>
#include <string.h>
#include <unistd.h>
#include <errno.h>
#include <dirent.h>
#include <grp.h>
#include <poll.h>
#include <signal.h>
#include <sys/mman.h>
#include <sys/socket.h>
#include <sys/un.h>
#include <sys/wait.h>
#include <qb/qbdefs.h>
#include <qb/qbloop.h>
#include <qb/qbipcs.h>
#include <qb/qbipcc.h>

struct sh {
	volatile int ready, stop, b_refused, b_done, b_got;
	volatile int na, nr, ev_rc;
	volatile pid_t spid;
	char stolen[64];
} *sh;
static char svc[64];
static qb_loop_t *loop;
struct ev { struct qb_ipc_response_header h; char text[32]; };

static int32_t s_accept(qb_ipcs_connection_t *c, uid_t uid, gid_t gid)
{
	if (uid == 1000) { sh->na++; return 0; }
	sh->nr++;
	return -EACCES;
}
static void s_created(qb_ipcs_connection_t *c)
{
	struct ev e;
	memset(&e, 0, sizeof e);
	e.h.id = 7; e.h.size = sizeof e;
	strcpy(e.text, "SECRET-FOR-UID-1000");
	sh->ev_rc = qb_ipcs_event_send(c, &e, sizeof e);
}
static int32_t s_msg(qb_ipcs_connection_t *c, void *data, size_t size) { return 0; }
static int32_t s_closed(qb_ipcs_connection_t *c) { return 0; }
static int32_t jadd(enum qb_loop_priority p, void *d, qb_loop_job_dispatch_fn f) { return qb_loop_job_add(loop, p, d, f); }
static int32_t dadd(enum qb_loop_priority p, int32_t fd, int32_t e, void *d, qb_ipcs_dispatch_fn_t f) { return qb_loop_poll_add(loop, p, fd, e, d, f); }
static int32_t dmod(enum qb_loop_priority p, int32_t fd, int32_t e, void *d, qb_ipcs_dispatch_fn_t f) { return qb_loop_poll_mod(loop, p, fd, e, d, f); }
static int32_t ddel(int32_t fd) { return qb_loop_poll_del(loop, fd); }
static void tick(void *d)
{
	qb_loop_timer_handle h;
	if (sh->stop) { qb_loop_stop(loop); return; }
	qb_loop_timer_add(loop, QB_LOOP_LOW, 10 * QB_TIME_NS_IN_MSEC, NULL, tick, &h);
}
static void server(void)
{
	struct qb_ipcs_service_handlers h = { .connection_accept = s_accept, .connection_created = s_created,
		.msg_process = s_msg, .connection_closed = s_closed };
	struct qb_ipcs_poll_handlers ph = { jadd, dadd, dmod, ddel };
	qb_ipcs_service_t *s;
	sh->spid = getpid();
	loop = qb_loop_create();
	s = qb_ipcs_create(svc, 0, QB_IPC_SOCKET, &h);
	qb_ipcs_poll_handlers_set(s, &ph);
	if (qb_ipcs_run(s) != 0) _exit(2);
	sh->ready = 1;
	tick(NULL);
	qb_loop_run(loop);
	qb_ipcs_destroy(s);
	_exit(0);
}
static void become(uid_t u)
{
	setgroups(0, NULL);
	if (setresgid(u, u, u) || setresuid(u, u, u)) _exit(2);
}
static void client_a(void)
{
	qb_ipcc_connection_t *c;
	int fd = -1, rc;
	become(1000);
	c = qb_ipcc_connect_async(svc, 8192, &fd);
	if (!c) { fprintf(stderr, "A: connect_async failed %d\n", errno); _exit(2); }
	usleep(300000);			/* a slow / descheduled process */
	rc = qb_ipcc_connect_continue(c);
	printf("A (uid 1000): qb_ipcc_connect_continue -> %d (%s)\n", rc, strerror(-rc));
	fflush(stdout);
	if (rc == 0) {
		struct ev e;
		ssize_t n = qb_ipcc_event_recv(c, &e, sizeof e, 500);
		printf("A: event_recv -> %zd\n", n);
		fflush(stdout);
		qb_ipcc_disconnect(c);
	}
	_exit(0);
}
static void client_b(void)
{
	qb_ipcc_connection_t *c;
	char pfx[64], mine[64], name[108] = "";
	struct sockaddr_un a;
	struct ev e;
	int fd, err, i;
	ssize_t n;

	become(1001);
	errno = 0;
	c = qb_ipcc_connect(svc, 8192);
	err = errno;
	printf("B (uid %d): qb_ipcc_connect -> %p errno %d (%s)\n", getuid(), (void *)c, err, strerror(err));
	fflush(stdout);
	if (c != NULL || err != EACCES) _exit(2);
	sh->b_refused = 1;

	snprintf(pfx, sizeof pfx, "qb-%d-", sh->spid);
	snprintf(mine, sizeof mine, "qb-%d-%d-", sh->spid, getpid());	/* not the leftovers of B's own attempt */
	for (i = 0; i < 20000 && !name[0]; i++) {
		DIR *d = opendir("/dev/shm");
		struct dirent *de;
		while (d && (de = readdir(d)))
			if (!strncmp(de->d_name, pfx, strlen(pfx)) && strncmp(de->d_name, mine, strlen(mine)))
				snprintf(name, sizeof name, "/dev/shm/%s/qb-%s-event", de->d_name, svc);
		if (d) closedir(d);
		if (!name[0]) usleep(500);
	}
	if (!name[0]) { fprintf(stderr, "B: saw no connection directory\n"); sh->b_done = 1; _exit(2); }
	memset(&a, 0, sizeof a);
	a.sun_family = AF_UNIX;
	snprintf(a.sun_path + 1, sizeof a.sun_path - 1, "%s", name);
	fd = socket(AF_UNIX, SOCK_DGRAM, 0);
	if (bind(fd, (struct sockaddr *)&a, sizeof a) != 0) {
		printf("B: bind @%s: %s\n", name, strerror(errno));
		fflush(stdout); sh->b_done = 1; _exit(0);
	}
	printf("B: bound abstract socket @%s\n", name);
	{
		struct pollfd p = { fd, POLLIN, 0 };
		if (poll(&p, 1, 3000) == 1 && (n = recv(fd, &e, sizeof e, 0)) > 0) {
			e.text[sizeof e.text - 1] = 0;
			printf("B: received %zd bytes: event id %d \"%s\"\n", n, e.h.id, e.text);
			strncpy(sh->stolen, e.text, sizeof sh->stolen - 1);
			sh->b_got = 1;
		} else {
			printf("B: nothing received\n");
		}
	}
	fflush(stdout);
	sh->b_done = 1;
	_exit(0);
}
int main(void)
{
	pid_t sp, ap, bp; int st;
	if (geteuid() != 0) { fprintf(stderr, "needs root to switch uids\n"); return 2; }
	sh = mmap(NULL, sizeof *sh, PROT_READ | PROT_WRITE, MAP_SHARED | MAP_ANONYMOUS, -1, 0);
	snprintf(svc, sizeof svc, "h3c05f2-%d", getpid());
	signal(SIGPIPE, SIG_IGN);
	if ((sp = fork()) == 0) server();
	while (!sh->ready) { if (waitpid(sp, &st, WNOHANG) == sp) return 2; usleep(1000); }
	if ((bp = fork()) == 0) client_b();
	while (!sh->b_refused) { if (waitpid(bp, &st, WNOHANG) == bp) { sh->stop = 1; return 2; } usleep(1000); }
	usleep(50000);	/* B's refused connection is cleaned up by now */
	if ((ap = fork()) == 0) client_a();
	waitpid(bp, &st, 0);
	waitpid(ap, &st, 0);
	sh->stop = 1;
	waitpid(sp, &st, 0);
	printf("accept callback: accepted %d, refused %d; qb_ipcs_event_send() in connection_created -> %d\n", sh->na, sh->nr, sh->ev_rc);
	if (sh->b_got) {
		printf("VIOLATED: the refused client (uid 1001) received the event meant for the accepted uid 1000: \"%s\"\n", sh->stolen);
		return 1;
	}
	printf("held\n");
	return 0;
}
