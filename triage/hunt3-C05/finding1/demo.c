/*
 * C05 finding 1: with the socket transport a client that the accept callback
 * REFUSED gets a request through to msg_process() - on the connection of
 * another, accepted, client.
 *
 *  server (root)     : QB_IPC_SOCKET service, accepts uid 1000, refuses everybody else (-EACCES)
 *  client A (1000)   : qb_ipcc_connect() -> accepted; sends nothing at all
 *  client B (1001)   : qb_ipcc_connect() -> NULL/EACCES (refused);
 *                      lists /dev/shm (world readable), finds A's connection directory
 *                      and sends one datagram to the abstract socket
 *                      "\0/dev/shm/qb-<spid>-<apid>-<fd>-XXXXXX/qb-<service>-request"
 *  expected          : msg_process() is never called
 *  exit 0 = property held, 1 = violated, 2 = set-up problem
 */
#define _GNU_SOURCE
#include <stdio.h>
#include <stdlib.h>
#include <string.h>
#include <unistd.h>
#include <errno.h>
#include <dirent.h>
#include <grp.h>
#include <signal.h>
#include <sys/mman.h>
#include <sys/socket.h>
#include <sys/un.h>
#include <sys/wait.h>
#include <qb/qbdefs.h>
#include <qb/qbloop.h>
#include <qb/qbipcs.h>
#include <qb/qbipcc.h>

struct sh {
	volatile int ready, stop, a_connected, b_done;
	volatile int msgs, msg_on_pid, msg_uid_seen;
	volatile int accepted_uid[8], refused_uid[8], na, nr;
	volatile pid_t spid, apid, bpid;
	char payload[64];
} *sh;
static char svc[64];
static qb_loop_t *loop;

static int32_t s_accept(qb_ipcs_connection_t *c, uid_t uid, gid_t gid)
{
	if (uid == 1000) { sh->accepted_uid[sh->na++ & 7] = uid; return 0; }
	sh->refused_uid[sh->nr++ & 7] = uid;
	return -EACCES;
}
static int32_t s_msg(qb_ipcs_connection_t *c, void *data, size_t size)
{
	struct qb_ipcs_connection_stats st;
	qb_ipcs_connection_stats_get(c, &st, 0);
	sh->msg_on_pid = st.client_pid;
	if (size > sizeof(struct qb_ipc_request_header))
		strncpy(sh->payload, (char *)data + sizeof(struct qb_ipc_request_header), sizeof sh->payload - 1);
	sh->msgs++;
	return 0;
}
static int32_t s_closed(qb_ipcs_connection_t *c) { return 0; }
static int32_t jadd(enum qb_loop_priority p, void *d, qb_loop_job_dispatch_fn f) { return qb_loop_job_add(loop, p, d, f); }
static int32_t dadd(enum qb_loop_priority p, int32_t fd, int32_t e, void *d, qb_ipcs_dispatch_fn_t f) { return qb_loop_poll_add(loop, p, fd, e, d, f); }
static int32_t dmod(enum qb_loop_priority p, int32_t fd, int32_t e, void *d, qb_ipcs_dispatch_fn_t f) { return qb_loop_poll_mod(loop, p, fd, e, d, f); }
static int32_t ddel(int32_t fd) { return qb_loop_poll_del(loop, fd); }
static void tick(void *d)
{
	qb_loop_timer_handle h;
	if (sh->stop) { qb_loop_stop(loop); return; }
	qb_loop_timer_add(loop, QB_LOOP_LOW, 10 * QB_TIME_NS_IN_MSEC, NULL, tick, &h);
}
static void server(void)
{
	struct qb_ipcs_service_handlers h = { .connection_accept = s_accept, .msg_process = s_msg, .connection_closed = s_closed };
	struct qb_ipcs_poll_handlers ph = { jadd, dadd, dmod, ddel };
	qb_ipcs_service_t *s;
	sh->spid = getpid();
	loop = qb_loop_create();
	s = qb_ipcs_create(svc, 0, QB_IPC_SOCKET, &h);
	qb_ipcs_poll_handlers_set(s, &ph);
	if (qb_ipcs_run(s) != 0) _exit(2);
	sh->ready = 1;
	tick(NULL);
	qb_loop_run(loop);
	qb_ipcs_destroy(s);
	_exit(0);
}
static void become(uid_t u)
{
	setgroups(0, NULL);
	if (setresgid(u, u, u) || setresuid(u, u, u)) _exit(2);
}
static void client_a(void)
{
	qb_ipcc_connection_t *c;
	become(1000);
	sh->apid = getpid();
	c = qb_ipcc_connect(svc, 8192);
	if (!c) { fprintf(stderr, "A: connect failed %d\n", errno); _exit(2); }
	sh->a_connected = 1;
	while (!sh->b_done) usleep(1000);
	usleep(200000);			/* A never sends a request */
	qb_ipcc_disconnect(c);
	_exit(0);
}
static void client_b(void)
{
	qb_ipcc_connection_t *c;
	char pfx[64], target[108] = "";
	DIR *d; struct dirent *de;
	struct sockaddr_un a;
	struct { struct qb_ipc_request_header h; char text[32]; } m;
	int fd, e;

	become(1001);
	errno = 0;
	c = qb_ipcc_connect(svc, 8192);
	e = errno;
	printf("B (uid %d): qb_ipcc_connect -> %p errno %d (%s)\n", getuid(), (void *)c, e, strerror(e));
	fflush(stdout);
	if (c != NULL || e != EACCES) _exit(2);

	snprintf(pfx, sizeof pfx, "qb-%d-%d-", sh->spid, sh->apid);
	d = opendir("/dev/shm");
	while (d && (de = readdir(d)))
		if (!strncmp(de->d_name, pfx, strlen(pfx)))
			snprintf(target, sizeof target, "/dev/shm/%s/qb-%s-request", de->d_name, svc);
	if (d) closedir(d);
	if (!target[0]) { fprintf(stderr, "B: A's directory not found\n"); _exit(2); }
	printf("B: sending to abstract socket @%s\n", target);

	memset(&a, 0, sizeof a);
	a.sun_family = AF_UNIX;
	snprintf(a.sun_path + 1, sizeof a.sun_path - 1, "%s", target);
	memset(&m, 0, sizeof m);
	m.h.id = 4242; m.h.size = sizeof m;
	strcpy(m.text, "FROM-THE-REFUSED-CLIENT");
	fd = socket(AF_UNIX, SOCK_DGRAM, 0);
	if (sendto(fd, &m, sizeof m, 0, (struct sockaddr *)&a, sizeof a) != sizeof m) {
		printf("B: sendto failed: %s\n", strerror(errno));
	}
	close(fd);
	fflush(stdout);
	usleep(300000);
	sh->b_done = 1;
	_exit(0);
}
int main(void)
{
	pid_t sp, ap, bp; int st;
	if (geteuid() != 0) { fprintf(stderr, "needs root to switch uids\n"); return 2; }
	sh = mmap(NULL, sizeof *sh, PROT_READ | PROT_WRITE, MAP_SHARED | MAP_ANONYMOUS, -1, 0);
	snprintf(svc, sizeof svc, "h3c05f1-%d", getpid());
	signal(SIGPIPE, SIG_IGN);
	if ((sp = fork()) == 0) server();
	while (!sh->ready) { if (waitpid(sp, &st, WNOHANG) == sp) return 2; usleep(1000); }
	if ((ap = fork()) == 0) client_a();
	while (!sh->a_connected) { if (waitpid(ap, &st, WNOHANG) == ap) { sh->stop = 1; return 2; } usleep(1000); }
	if ((bp = fork()) == 0) client_b();
	waitpid(bp, &st, 0);
	if (!WIFEXITED(st) || WEXITSTATUS(st)) { sh->b_done = 1; sh->stop = 1; waitpid(ap, 0, 0); waitpid(sp, 0, 0); return 2; }
	waitpid(ap, &st, 0);
	sh->stop = 1;
	waitpid(sp, &st, 0);
	printf("accept callback: accepted %d connection(s) (uid %d), refused %d (uid %d)\n", sh->na, sh->accepted_uid[0], sh->nr, sh->refused_uid[0]);
	printf("msg_process calls: %d", sh->msgs);
	if (sh->msgs)
		printf("  (on the connection of pid %d = client A, payload \"%s\")", sh->msg_on_pid, sh->payload);
	printf("\n");
	if (sh->msgs) { printf("VIOLATED: a request sent by the refused client reached msg_process()\n"); return 1; }
	printf("held\n");
	return 0;
}
