#!/bin/sh
# usage: build.sh [tree]   (default /repo)
T=${1:-/repo}
D=$(dirname "$0")
SRC="$T/lib/ipc_setup.c $T/lib/ipcs.c $T/lib/ipcc.c $T/lib/ipc_shm.c $T/lib/ipc_socket.c $T/lib/ringbuffer.c $T/lib/ringbuffer_helper.c $T/lib/unix.c"
WRAP="-Wl,--wrap=chown,--wrap=chmod,--wrap=mkdtemp,--wrap=unlink,--wrap=rmdir,--wrap=open,--wrap=ftruncate"
gcc -g -O1 -fsanitize=address,undefined -fno-omit-frame-pointer -DHAVE_CONFIG_H \
  -I$T/include -I$T/include/qb -I$T/lib -o $D/${OUT:-fuzz} $D/fuzz.c $SRC $WRAP \
  -L$T/lib/.libs -lqb -lpthread -ldl 2>&1 | grep -v "warning:" | grep -E "error|undefined" 
echo "built $D/fuzz against $(git -C $T rev-parse --short HEAD)"
