/*
 * C05 finding 3 (low severity): the refusal is reported to the client BEFORE the
 * server removes what it made for that client, so "connect failed with the
 * error" and "nothing remains" do not hold together: when qb_ipcc_connect()
 * returns NULL/EACCES the directory /dev/shm/qb-<spid>-<cpid>-<fd>-XXXXXX is
 * still there, for as long as the server's connection_destroyed() callback
 * (which runs between the two) takes.
 *
 *  server : accept callback returns -EACCES; connection_destroyed() takes 300 ms
 *           (stands for any work an application does there; with an empty
 *           callback the fuzzer still sees the directory in ~2 % of refusals)
 *  client : qb_ipcc_connect() -> NULL, errno EACCES; looks into /dev/shm at once
 *  both transports
 *  exit 0 = property held, 1 = violated, 2 = set-up problem
 */
#define _GNU_SOURCE
#include <stdio.h>
#include <stdlib.h>
#include <string.h>
#include <unistd.h>
#include <errno.h>
#include <dirent.h>
#include <signal.h>
#include <sys/mman.h>
#include <sys/stat.h>
#include <sys/wait.h>
#include <qb/qbdefs.h>
#include <qb/qbloop.h>
#include <qb/qbipcs.h>
#include <qb/qbipcc.h>

struct sh { volatile int ready, stop, seen; volatile pid_t spid; } *sh;
static char svc[64];
static qb_loop_t *loop;

static int32_t s_accept(qb_ipcs_connection_t *c, uid_t uid, gid_t gid) { return -EACCES; }
static void s_destroyed(qb_ipcs_connection_t *c) { usleep(300000); }
static int32_t s_msg(qb_ipcs_connection_t *c, void *data, size_t size) { return 0; }
static int32_t s_closed(qb_ipcs_connection_t *c) { return 0; }
static int32_t jadd(enum qb_loop_priority p, void *d, qb_loop_job_dispatch_fn f) { return qb_loop_job_add(loop, p, d, f); }
static int32_t dadd(enum qb_loop_priority p, int32_t fd, int32_t e, void *d, qb_ipcs_dispatch_fn_t f) { return qb_loop_poll_add(loop, p, fd, e, d, f); }
static int32_t dmod(enum qb_loop_priority p, int32_t fd, int32_t e, void *d, qb_ipcs_dispatch_fn_t f) { return qb_loop_poll_mod(loop, p, fd, e, d, f); }
static int32_t ddel(int32_t fd) { return qb_loop_poll_del(loop, fd); }
static void tick(void *d)
{
	qb_loop_timer_handle h;
	if (sh->stop) { qb_loop_stop(loop); return; }
	qb_loop_timer_add(loop, QB_LOOP_LOW, 10 * QB_TIME_NS_IN_MSEC, NULL, tick, &h);
}
static void server(enum qb_ipc_type t)
{
	struct qb_ipcs_service_handlers h = { .connection_accept = s_accept, .msg_process = s_msg,
		.connection_closed = s_closed, .connection_destroyed = s_destroyed };
	struct qb_ipcs_poll_handlers ph = { jadd, dadd, dmod, ddel };
	qb_ipcs_service_t *s;
	sh->spid = getpid();
	loop = qb_loop_create();
	s = qb_ipcs_create(svc, 0, t, &h);
	qb_ipcs_poll_handlers_set(s, &ph);
	if (qb_ipcs_run(s) != 0) _exit(2);
	sh->ready = 1;
	tick(NULL);
	qb_loop_run(loop);
	qb_ipcs_destroy(s);
	_exit(0);
}
static int my_dirs(int print)
{
	char pfx[64]; DIR *d = opendir("/dev/shm"); struct dirent *de; int n = 0;
	snprintf(pfx, sizeof pfx, "qb-%d-%d-", sh->spid, getpid());
	while (d && (de = readdir(d)))
		if (!strncmp(de->d_name, pfx, strlen(pfx))) {
			n++;
			if (print) printf("  still there: /dev/shm/%s\n", de->d_name);
		}
	if (d) closedir(d);
	return n;
}
static int one(enum qb_ipc_type t, const char *tn)
{
	pid_t sp; int st, n, later; qb_ipcc_connection_t *c; int e;
	sh->ready = sh->stop = 0;
	snprintf(svc, sizeof svc, "h3c05f3-%d-%s", getpid(), tn);
	if ((sp = fork()) == 0) server(t);
	while (!sh->ready) { if (waitpid(sp, &st, WNOHANG) == sp) return 2; usleep(1000); }
	errno = 0;
	c = qb_ipcc_connect(svc, 8192);
	e = errno;
	printf("%s: qb_ipcc_connect -> %p errno %d (%s)\n", tn, (void *)c, e, strerror(e));
	n = my_dirs(1);
	usleep(600000);
	later = my_dirs(0);
	printf("%s: directories for this client right after the refusal: %d, 600 ms later: %d\n", tn, n, later);
	sh->stop = 1;
	waitpid(sp, &st, 0);
	if (c != NULL || e != EACCES) return 2;
	return (n != 0 || later != 0) ? 1 : 0;
}
int main(void)
{
	int a, b;
	sh = mmap(NULL, sizeof *sh, PROT_READ | PROT_WRITE, MAP_SHARED | MAP_ANONYMOUS, -1, 0);
	signal(SIGPIPE, SIG_IGN);
	a = one(QB_IPC_SHM, "shm");
	b = one(QB_IPC_SOCKET, "sock");
	if (a == 2 || b == 2) return 2;
	if (a || b) { printf("VIOLATED: the client was told it is refused while its directory still existed\n"); return 1; }
	printf("held\n");
	return 0;
}
