/* triage replay (dynamic, not part of any check): an overwrite ring opened WITH its semaphore
 * (the default, what the blackbox uses) refuses a write once the writer itself has emptied the ring.
 * C11: "In overwrite mode every write of at most the requested size succeeds".
 * build: gcc replay_overwrite_sem.c -I<tree>/include -L<tree>/lib/.libs -lqb ; exit 0 = held */
#include <stdio.h>
#include <string.h>
#include <errno.h>
#include <qb/qbrb.h>

static int run(uint32_t extra, const char *what)
{
	char buf[3000];
	int fails = 0;
	ssize_t r;
	qb_ringbuffer_t *rb = qb_rb_open("replay-ovw", 4000, QB_RB_FLAG_CREATE | QB_RB_FLAG_OVERWRITE | extra, 0);
	if (!rb) { perror("open"); return 1; }
	memset(buf, 'x', sizeof(buf));
	for (int i = 0; i < 4; i++) {
		r = qb_rb_chunk_write(rb, buf, sizeof(buf));
		printf("%s: write #%d of %zu bytes -> %zd%s\n", what, i + 1, sizeof(buf), r, r < 0 ? " (FAILED)" : "");
		if (r != (ssize_t)sizeof(buf)) fails++;
	}
	qb_rb_close(rb);
	return fails;
}

int main(void)
{
	int f1 = run(QB_RB_FLAG_NO_SEMAPHORE, "no-semaphore");
	int f2 = run(0, "with-semaphore");
	printf("%s\n", (f1 || f2) ? "BROKEN" : "HELD");
	return (f1 || f2) ? 1 : 0;
}
