/*
 * Targeted sequences for C18 (static keys, no FREE notifier unless stated).
 * usage: targeted <test-number> <kind>     kind: 0 hashtable(8) 1 skiplist 2 trie
 * exit 0 = held, 1 = violated (or sanitizer abort)
 */
#include <stdio.h>
#include <stdlib.h>
#include <string.h>
#include <stdint.h>
#include <qb/qbdefs.h>
#include <qb/qbmap.h>

static qb_map_t *m;
static int bad;
#define CHECK(c, ...) do { if (!(c)) { printf("VIOLATION: " __VA_ARGS__); printf("\n"); bad++; } } while (0)

static qb_map_t *mk(int kind)
{
	switch (kind) {
	case 0: return qb_hashtable_create(8);
	case 1: return qb_skiplist_create();
	default: return qb_trie_create();
	}
}

static int drain(qb_map_iter_t *it, char *seen, size_t sz)
{
	const char *k; void *v; int n = 0;
	seen[0] = 0;
	while ((k = qb_map_iter_next(it, &v)) != NULL) {
		n++;
		if (strlen(seen) + strlen(k) + 2 < sz) { strcat(seen, k); strcat(seen, ","); }
		if (n > 1000) break;
	}
	return n;
}

/* 1: next after the end keeps reporting the end */
static void t1(int kind)
{
	qb_map_iter_t *it; const char *k; void *v; char seen[256];
	qb_map_put(m, "a", "1"); qb_map_put(m, "b", "2"); qb_map_put(m, "c", "3");
	it = qb_map_iter_create(m);
	CHECK(drain(it, seen, sizeof seen) == 3, "first pass %s", seen);
	k = qb_map_iter_next(it, &v);
	CHECK(k == NULL, "next after end returned '%s'", k);
	qb_map_iter_free(it);
}

/* 2: iterator opened, everything removed, other keys added, then drained */
static void t2(int kind)
{
	qb_map_iter_t *it, *it2; char seen[256]; const char *k; void *v;
	qb_map_put(m, "a", "1"); qb_map_put(m, "b", "2"); qb_map_put(m, "c", "3");
	it = qb_map_iter_create(m);
	it2 = qb_map_iter_create(m);
	k = qb_map_iter_next(it, &v);
	CHECK(k != NULL, "no first");
	qb_map_rm(m, "a"); qb_map_rm(m, "b"); qb_map_rm(m, "c");
	CHECK(qb_map_count_get(m) == 0, "count");
	qb_map_put(m, "a", "4"); qb_map_put(m, "d", "5");
	drain(it, seen, sizeof seen);
	drain(it2, seen, sizeof seen);
	qb_map_iter_free(it); qb_map_iter_free(it2);
	CHECK(qb_map_count_get(m) == 2, "count2 %zu", qb_map_count_get(m));
	CHECK(qb_map_get(m, "a") && strcmp(qb_map_get(m, "a"), "4") == 0, "a");
	CHECK(qb_map_get(m, "b") == NULL, "b");
	it = qb_map_iter_create(m);
	CHECK(drain(it, seen, sizeof seen) == 2, "final pass %s", seen);
	qb_map_iter_free(it);
}

/* 3: re-entrancy: a DELETED notifier that uses the map (get / rm / put) */
static int cb_mode;
static int cb_depth;
static void del_cb(uint32_t event, char *key, void *old_value, void *value, void *ud)
{
	if (event != QB_MAP_NOTIFY_DELETED) return;
	if (cb_depth) return;
	cb_depth++;
	switch (cb_mode) {
	case 0: (void) qb_map_get(m, "b"); (void) qb_map_get(m, key); break;
	case 1: qb_map_rm(m, "b"); qb_map_rm(m, "ab"); break;
	case 2: qb_map_put(m, "abz", "n"); qb_map_put(m, "zz", "n"); break;
	case 3: qb_map_put(m, key, "again"); break;
	}
	cb_depth--;
}

static void t3(int kind, int mode)
{
	qb_map_iter_t *it; const char *k; void *v; char seen[256]; int n = 0;
	size_t cnt;
	cb_mode = mode;
	CHECK(qb_map_notify_add(m, NULL, del_cb, QB_MAP_NOTIFY_DELETED, NULL) == 0, "notify_add");
	qb_map_put(m, "a", "1"); qb_map_put(m, "ab", "2"); qb_map_put(m, "abc", "3");
	qb_map_put(m, "b", "4"); qb_map_put(m, "c", "5");
	it = qb_map_iter_create(m);
	while ((k = qb_map_iter_next(it, &v)) != NULL) {
		qb_map_rm(m, k);	/* remove the one we are on: destroyed on the next step */
		if (++n > 100) break;
	}
	qb_map_iter_free(it);
	/* now the map must be a plain dictionary again */
	it = qb_map_iter_create(m);
	cnt = drain(it, seen, sizeof seen);
	qb_map_iter_free(it);
	CHECK(cnt == qb_map_count_get(m), "mode %d: iteration gives %zu keys (%s) but count_get says %zu",
	      mode, cnt, seen, qb_map_count_get(m));
	qb_map_notify_del(m, NULL, del_cb, QB_MAP_NOTIFY_DELETED);
	if (mode == 3) {
		CHECK((qb_map_get(m, "a") != NULL) == (strstr(seen, "a,") != NULL), "mode 3: get(a) and iteration disagree");
	}
}

/* 4: foreach removing everything */
static int32_t rm_all_fn(const char *key, void *value, void *ud)
{
	qb_map_rm(m, "a"); qb_map_rm(m, "ab"); qb_map_rm(m, "abc"); qb_map_rm(m, "b");
	return 0;
}
static void t4(int kind)
{
	qb_map_put(m, "a", "1"); qb_map_put(m, "ab", "2"); qb_map_put(m, "abc", "3"); qb_map_put(m, "b", "4");
	qb_map_foreach(m, rm_all_fn, NULL);
	CHECK(qb_map_count_get(m) == 0, "count");
	qb_map_put(m, "ab", "2");
	CHECK(qb_map_count_get(m) == 1 && qb_map_get(m, "ab"), "reuse");
}

/* 5: trie, empty prefix / empty key */
static void t5(int kind)
{
	qb_map_iter_t *it; char seen[256]; int n;
	qb_map_put(m, "a", "1"); qb_map_put(m, "b", "2");
	it = qb_map_pref_iter_create(m, "");
	n = drain(it, seen, sizeof seen);
	qb_map_iter_free(it);
	printf("note: empty prefix iterator returned %d keys (%s)\n", n, seen);
}

int main(int argc, char **argv)
{
	int t = argc > 1 ? atoi(argv[1]) : 1;
	int kind = argc > 2 ? atoi(argv[2]) : 0;
	setvbuf(stdout, NULL, _IOLBF, 0);
	m = mk(kind);
	switch (t) {
	case 1: t1(kind); break;
	case 2: t2(kind); break;
	case 30: case 31: case 32: case 33: t3(kind, t - 30); break;
	case 4: t4(kind); break;
	case 5: t5(kind); break;
	}
	qb_map_destroy(m);
	printf("test %d kind %d: %s\n", t, kind, bad ? "VIOLATED" : "ok");
	return bad ? 1 : 0;
}
