/*
 * Copyright (C) 2011 Red Hat, Inc.
 *
 * Author: Angus Salkeld <asalkeld@redhat.com>
 *
 * This file is part of libqb.
 *
 * libqb is free software: you can redistribute it and/or modify
 * it under the terms of the GNU Lesser General Public License as published by
 * the Free Software Foundation, either version 2.1 of the License, or
 * (at your option) any later version.
 *
 * libqb is distributed in the hope that it will be useful,
 * but WITHOUT ANY WARRANTY; without even the implied warranty of
 * MERCHANTABILITY or FITNESS FOR A PARTICULAR PURPOSE.  See the
 * GNU Lesser General Public License for more details.
 *
 * You should have received a copy of the GNU Lesser General Public License
 * along with libqb.  If not, see <http://www.gnu.org/licenses/>.
 */
#ifndef _QB_MAP_INT_H_
#define _QB_MAP_INT_H_

#include <qb/qblist.h>

struct qb_map;

typedef void (*qb_map_put_func)(struct qb_map *map, const char* key,
				const void* value);
typedef void* (*qb_map_get_func)(struct qb_map *map, const char* key);
typedef int32_t (*qb_map_rm_func)(struct qb_map *map, const char* key);
typedef size_t (*qb_map_count_get_func)(struct qb_map *map);
typedef void (*qb_map_destroy_func)(struct qb_map *map);
typedef qb_map_iter_t* (*qb_map_iter_create_func)(struct qb_map *map,
						  const char* prefix);
typedef const char* (*qb_map_iter_next_func)(qb_map_iter_t* i, void** value);
typedef void (*qb_map_iter_free_func)(qb_map_iter_t* i);

typedef int32_t (*qb_map_notify_add_func)(qb_map_t* m, const char* key,
					  qb_map_notify_fn fn, int32_t events,
					  void *user_data);

typedef int32_t (*qb_map_notify_del_func)(qb_map_t * m, const char *key,
					  qb_map_notify_fn fn,
					  int32_t events,
					  int32_t cmp_userdata,
					  void *user_data);

struct qb_map {
	qb_map_put_func put;
	qb_map_get_func get;
	qb_map_rm_func rm;
	qb_map_count_get_func count_get;
	qb_map_destroy_func destroy;
	qb_map_iter_create_func iter_create;
	qb_map_iter_next_func iter_next;
	qb_map_iter_free_func iter_free;
	qb_map_notify_add_func notify_add;
	qb_map_notify_del_func notify_del;
};

struct qb_map_iter {
	struct qb_map *m;
};

struct qb_map_notifier {
	struct qb_list_head list;
	qb_map_notify_fn callback;
	int32_t events;
	void *user_data;
	int32_t refcount;
};


#endif /* _QB_MAP_INT_H_ */
