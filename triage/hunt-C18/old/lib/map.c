/*
 * Copyright (C) 2011 Red Hat, Inc.
 *
 * Author: Angus Salkeld <asalkeld@redhat.com>
 *
 * This file is part of libqb.
 *
 * libqb is free software: you can redistribute it and/or modify
 * it under the terms of the GNU Lesser General Public License as published by
 * the Free Software Foundation, either version 2.1 of the License, or
 * (at your option) any later version.
 *
 * libqb is distributed in the hope that it will be useful,
 * but WITHOUT ANY WARRANTY; without even the implied warranty of
 * MERCHANTABILITY or FITNESS FOR A PARTICULAR PURPOSE.  See the
 * GNU Lesser General Public License for more details.
 *
 * You should have received a copy of the GNU Lesser General Public License
 * along with libqb.  If not, see <http://www.gnu.org/licenses/>.
 */

#include "os_base.h"
#include <qb/qbmap.h>
#include "map_int.h"

void
qb_map_put(struct qb_map *map, const char *key, const void *value)
{
	map->put(map, key, value);
}

void *
qb_map_get(struct qb_map *map, const char *key)
{
	return map->get(map, key);
}

int32_t
qb_map_rm(struct qb_map * map, const char *key)
{
	return map->rm(map, key);
}

size_t
qb_map_count_get(struct qb_map * map)
{
	return map->count_get(map);
}

void
qb_map_foreach(struct qb_map *map, qb_map_transverse_fn func, void *user_data)
{
	const char *key;
	void *value;
	qb_map_iter_t *i = qb_map_iter_create(map);

	for (key = qb_map_iter_next(i, &value);
	     key; key = qb_map_iter_next(i, &value)) {
		if (func(key, value, user_data)) {
			goto clean_up;
		}
	}
clean_up:
	qb_map_iter_free(i);
}

qb_map_iter_t *
qb_map_iter_create(struct qb_map *map)
{
	return map->iter_create(map, NULL);
}

qb_map_iter_t *
qb_map_pref_iter_create(qb_map_t * map, const char *prefix)
{
	return map->iter_create(map, prefix);
}

const char *
qb_map_iter_next(struct qb_map_iter *i, void **value)
{
	return i->m->iter_next(i, value);
}

void
qb_map_iter_free(qb_map_iter_t * i)
{
	i->m->iter_free(i);
}

int32_t
qb_map_notify_add(qb_map_t * m, const char *key, qb_map_notify_fn fn,
		  int32_t events, void *user_data)
{
	if (key != NULL && events & QB_MAP_NOTIFY_FREE) {
		return -EINVAL;
	}
	if (m->notify_add) {
		return m->notify_add(m, key, fn, events, user_data);
	} else {
		return -ENOSYS;
	}
}

int32_t
qb_map_notify_del(qb_map_t * m, const char *key, qb_map_notify_fn fn,
		  int32_t events)
{
	if (m->notify_del) {
		return m->notify_del(m, key, fn, events, QB_FALSE, NULL);
	} else {
		return -ENOSYS;
	}
}

int32_t
qb_map_notify_del_2(qb_map_t * m, const char *key, qb_map_notify_fn fn,
		    int32_t events, void *user_data)
{
	if (m->notify_del) {
		return m->notify_del(m, key, fn, events, QB_TRUE, user_data);
	} else {
		return -ENOSYS;
	}
}

void
qb_map_destroy(struct qb_map *map)
{
	map->destroy(map);
}
