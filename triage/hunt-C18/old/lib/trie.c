/*
 * Copyright (C) 2011 Red Hat, Inc.
 *
 * Author: Angus Salkeld <asalkeld@redhat.com>
 *
 * This file is part of libqb.
 *
 * libqb is free software: you can redistribute it and/or modify
 * it under the terms of the GNU Lesser General Public License as published by
 * the Free Software Foundation, either version 2.1 of the License, or
 * (at your option) any later version.
 *
 * libqb is distributed in the hope that it will be useful,
 * but WITHOUT ANY WARRANTY; without even the implied warranty of
 * MERCHANTABILITY or FITNESS FOR A PARTICULAR PURPOSE.  See the
 * GNU Lesser General Public License for more details.
 *
 * You should have received a copy of the GNU Lesser General Public License
 * along with libqb.  If not, see <http://www.gnu.org/licenses/>.
 */
#include <os_base.h>
#include <assert.h>

#include <qb/qbdefs.h>
#include <qb/qblist.h>
#include <qb/qbmap.h>
#include "map_int.h"

struct trie_iter {
	struct qb_map_iter i;
	const char *prefix;
	struct trie_node *n;
	struct trie_node *root;
};

struct trie_node {
	uint32_t idx;
	char *segment;
	uint32_t num_segments;
	char *key;
	void *value;
	struct trie_node **children;
	uint32_t num_children;
	uint32_t refcount;
	struct trie_node *parent;
	struct qb_list_head *notifier_head;
};

struct trie {
	struct qb_map map;

	size_t length;
	uint32_t num_nodes;
	uint32_t mem_used;
	struct trie_node *header;
};

static void trie_notify(struct trie_node *n, uint32_t event, const char *key,
			void *old_value, void *value);
static struct trie_node *trie_new_node(struct trie *t, struct trie_node *parent);
static void trie_destroy_node(struct trie_node *node);

/*
 * characters are stored in reverse to make accessing the
 * more common case (non-control chars) more space efficient.
 */
#define TRIE_CHAR2INDEX(ch) (127 - (signed char)ch)
#define TRIE_INDEX2CHAR(idx) (127 - (signed char)idx)


static int32_t
trie_node_alive(struct trie_node *node)
{
	if (node->value == NULL ||
	    node->refcount <= 0) {
		return QB_FALSE;
	}
	return QB_TRUE;
}

static struct trie_node *
trie_node_next(struct trie_node *node, struct trie_node *root, int all)
{
	struct trie_node *c = node;
	struct trie_node *n;
	struct trie_node *p;
	int i;

keep_going:
	n = NULL;

	/* child/outward
	 */
	for (i = c->num_children - 1; i >= 0; i--) {
		if (c->children[i]) {
			n = c->children[i];
			break;
		}
	}
	if (n) {
		if (all || trie_node_alive(n)) {
			return n;
		} else {
			c = n;
			goto keep_going;
		}
	}
	/* sibling/parent
	 */
	if (c == root) {
		return NULL;
	}
	p = c;
	do {
		for (i = p->idx - 1; i >= 0; i--) {
			if (p->parent->children[i]) {
				n = p->parent->children[i];
				break;
			}
		}
		if (n == NULL) {
			p = p->parent;
		}
	} while (n == NULL && p != root);

	if (n) {
		if (all || trie_node_alive(n)) {
			return n;
		}
		if (n == root) {
			return NULL;
		}
		c = n;
		goto keep_going;
	}

	return n;
}

static struct trie_node *
new_child_node(struct trie *t, struct trie_node * parent, char ch)
{
	struct trie_node *new_node;
	int old_max_idx;
	int i;
	int idx = TRIE_CHAR2INDEX(ch);

	if (idx >= parent->num_children) {
		old_max_idx = parent->num_children;
		parent->num_children = QB_MAX(idx + 1, 30);
		t->mem_used += (sizeof(struct trie_node*) * (parent->num_children - old_max_idx));
		parent->children = realloc(parent->children,
				(parent->num_children * sizeof(struct trie_node*)));
		if (parent->children == NULL) {
			return NULL;
		}
		for (i = old_max_idx; i < parent->num_children; i++) {
			parent->children[i] = NULL;
		}
	}
	new_node = trie_new_node(t, parent);
	if (new_node == NULL) {
		return NULL;
	}
	new_node->idx = idx;
	parent->children[idx] = new_node;
	return new_node;
}


static struct trie_node *
trie_node_split(struct trie *t, struct trie_node *cur_node, int seg_cnt)
{
	struct trie_node *split_node;
	struct trie_node ** children = cur_node->children;
	uint32_t num_children = cur_node->num_children;
	struct qb_list_head *tmp;
	int i;
	int s;

	cur_node->children = NULL;
	cur_node->num_children = 0;
	split_node = new_child_node(t, cur_node, cur_node->segment[seg_cnt]);
	if (split_node == NULL) {
		return NULL;
	}
	split_node->children = children;
	split_node->num_children = num_children;
	for (i = 0; i < split_node->num_children; i++) {
		if (split_node->children[i]) {
			split_node->children[i]->parent = split_node;
		}
	}
	split_node->value = cur_node->value;
	split_node->key = cur_node->key;
	split_node->refcount = cur_node->refcount;
	cur_node->value = NULL;
	cur_node->key = NULL;
	cur_node->refcount = 0;
	/* move notifier list to split */
	tmp = split_node->notifier_head;
	split_node->notifier_head = cur_node->notifier_head;
	cur_node->notifier_head = tmp;
	qb_list_init(cur_node->notifier_head);

	if (seg_cnt < cur_node->num_segments) {
		split_node->num_segments = cur_node->num_segments - seg_cnt - 1;
		split_node->segment = malloc(split_node->num_segments * sizeof(char));
		if (split_node->segment == NULL) {
			trie_destroy_node(split_node);
			return NULL;
		}
		for (i = (seg_cnt + 1); i < cur_node->num_segments; i++) {
			s = i - seg_cnt - 1;
			split_node->segment[s] = cur_node->segment[i];
			cur_node->segment[i] = '\0';
		}
		cur_node->num_segments = seg_cnt;
	}
	return cur_node;
}

static struct trie_node *
trie_insert(struct trie *t, const char *key)
{
	struct trie_node *cur_node = t->header;
	struct trie_node *new_node;
	char *cur = (char *)key;
	int idx = TRIE_CHAR2INDEX(key[0]);
	int seg_cnt = 0;

	do {
		new_node = NULL;
		if (cur_node->num_segments > 0 &&
		    seg_cnt < cur_node->num_segments) {
			if (cur_node->segment[seg_cnt] == *cur) {
				/* we found the char in the segment */
				seg_cnt++;
			} else {
				cur_node = trie_node_split(t, cur_node, seg_cnt);
				if (cur_node == NULL) {
					return NULL;
				}
				new_node = new_child_node(t, cur_node, *cur);
				if (new_node == NULL) {
					return NULL;
				}
			}
		} else if (idx < cur_node->num_children &&
		    cur_node->children[idx]) {
			/* the char can be found on the next node */
			new_node = cur_node->children[idx];
		} else if (cur_node == t->header) {
			/* the root node is empty so make it on the next node */
			new_node = new_child_node(t, cur_node, *cur);
			if (new_node == NULL) {
				return NULL;
			}
		} else if (cur_node->value == NULL &&
			   qb_list_empty(cur_node->notifier_head) &&
			   cur_node->num_children == 0 &&
			   seg_cnt == cur_node->num_segments) {
			/* we are on a leaf (with no value) so just add it as a segment */
			cur_node->segment = realloc(cur_node->segment, cur_node->num_segments + 1);
			cur_node->segment[cur_node->num_segments] = *cur;
			t->mem_used += sizeof(char);
			cur_node->num_segments++;
			seg_cnt++;
		} else if (seg_cnt == cur_node->num_segments) {
			/* on the last segment need to make a new node */
			new_node = new_child_node(t, cur_node, *cur);
			if (new_node == NULL) {
				return NULL;
			}
		} else /* need_to_split */ {
			cur_node = trie_node_split(t, cur_node, seg_cnt);
			if (cur_node == NULL) {
				return NULL;
			}
			new_node = new_child_node(t, cur_node, *cur);
			if (new_node == NULL) {
				return NULL;
			}
		}
		if (new_node) {
			seg_cnt = 0;
			cur_node = new_node;
		}
		cur++;
		idx = TRIE_CHAR2INDEX(*cur);
	} while (*cur != '\0');

	if (cur_node->num_segments > 0 &&
	    seg_cnt < cur_node->num_segments) {
		/* we need to split */
		cur_node = trie_node_split(t, cur_node, seg_cnt);
		if (cur_node == NULL) {
			return NULL;
		}
		new_node = new_child_node(t, cur_node, *cur);
		if (new_node == NULL) {
			return NULL;
		}
	}

	return cur_node;
}

static struct trie_node *
trie_lookup(struct trie *t, const char *key, int exact_match)
{
	struct trie_node *cur_node = t->header;
	char *cur = (char *)key;
	int idx = TRIE_CHAR2INDEX(key[0]);
	int seg_cnt = 0;

	do {
		if (cur_node->num_segments > 0 &&
		    seg_cnt < cur_node->num_segments) {
			if (cur_node->segment[seg_cnt] == *cur) {
				/* we found the char in the segment */
				seg_cnt++;
			} else {
				return NULL;
			}
		} else if (idx < cur_node->num_children &&
		    cur_node->children[idx]) {
			/* the char can be found on the next node */
			cur_node = cur_node->children[idx];
			seg_cnt = 0;
		} else {
			return NULL;
		}
		cur++;
		idx = TRIE_CHAR2INDEX(*cur);
	} while (*cur != '\0');

	if (exact_match &&
	    cur_node->num_segments > 0 &&
	    seg_cnt < cur_node->num_segments) {
		return NULL;
	}

	return cur_node;
}

static void
trie_node_release(struct trie *t, struct trie_node *node)
{
	int i;
	int empty = QB_FALSE;

	if (node->key == NULL &&
	    node->parent != NULL &&
	    qb_list_empty(node->notifier_head)) {
		struct trie_node *p = node->parent;

		if (node->num_children == 0) {
			empty = QB_TRUE;
		} else {
			empty = QB_TRUE;
			for (i = node->num_children - 1; i >= 0; i--) {
				if (node->children[i]) {
					empty = QB_FALSE;
					break;
				}
			}
		}
		if (!empty) {
			return;
		}

		/*
		 * unlink the node from the parent
		 */
		p->children[node->idx] = NULL;
		trie_destroy_node(node);
		t->num_nodes--;
		t->mem_used -= sizeof(struct trie_node);

		trie_node_release(t, p);
	}
}

static void
trie_node_destroy(struct trie *t, struct trie_node *n)
{
	if (n->value == NULL) {
		return;
	}
	trie_notify(n, QB_MAP_NOTIFY_DELETED, n->key, n->value, NULL);

	n->key = NULL;
	n->value = NULL;

	trie_node_release(t, n);
}

static void
trie_print_node(struct trie_node *n, struct trie_node *r, const char *suffix)
{
	int i;

	if (n->parent) {
		trie_print_node(n->parent, n, suffix);
	}
	if (n->idx == 0) {
		return;
	}

	printf("[%c", (char) TRIE_INDEX2CHAR(n->idx));
	for (i = 0; i < n->num_segments; i++) {
		printf("%c", n->segment[i]);
	}
	if (n == r) {
#ifndef S_SPLINT_S
		printf("] (%" PRIu32 ") %s\n", n->refcount, suffix);
#endif /* S_SPLINT_S */
	} else {
		printf("] ");
	}
}

static void
trie_node_ref(struct trie *t, struct trie_node *node)
{
	if (t->header == node) {
		return;
	}
	node->refcount++;
}

static void
trie_node_deref(struct trie *t, struct trie_node *node)
{
	if (!trie_node_alive(node)) {
		return;
	}
	node->refcount--;
	if (node->refcount > 0) {
		return;
	}
	trie_node_destroy(t, node);
}

static void
trie_destroy(struct qb_map *map)
{
	struct trie *t = (struct trie *)map;

	struct trie_node *cur_node = t->header;
	struct trie_node *fwd_node;

	do {
		fwd_node = trie_node_next(cur_node, t->header, QB_FALSE);
		trie_node_destroy(t, cur_node);
	} while ((cur_node = fwd_node));

	free(t);
}

static void
trie_destroy_node(struct trie_node *node)
{
	free(node->segment);
	free(node->children);
	free(node->notifier_head);
	free(node);
}

static struct trie_node *
trie_new_node(struct trie *t, struct trie_node *parent)
{
	struct trie_node *new_node = calloc(1, sizeof(struct trie_node));

	if (new_node == NULL) {
		return NULL;
	}

	new_node->notifier_head = calloc(1, sizeof(struct qb_list_head));
	if (new_node->notifier_head == NULL) {
		free(new_node);
		return NULL;
	}

	new_node->parent = parent;
	new_node->num_children = 0;
	new_node->children = NULL;
	new_node->num_segments = 0;
	new_node->segment = NULL;
	t->num_nodes++;
	t->mem_used += sizeof(struct trie_node);
	qb_list_init(new_node->notifier_head);
	return new_node;
}

void
qb_trie_dump(qb_map_t* m)
{
	struct trie * t = (struct trie*)m;
	struct trie_node *n;

	if (t == NULL) {
		return;
	}

#ifndef S_SPLINT_S
	printf("nodes: %" PRIu32 ", bytes: %" PRIu32 "\n", t->num_nodes, t->mem_used);
#endif /* S_SPLINT_S */

	n = t->header;
	do {
		if (n->num_children == 0) {
			trie_print_node(n, n, " ");
		}
		n = trie_node_next(n, t->header, QB_FALSE);
	} while (n);
}

static void
trie_put(struct qb_map *map, const char *key, const void *value)
{
	struct trie *t = (struct trie *)map;
	struct trie_node *n = trie_insert(t, key);
	if (n) {
		const char *old_value = n->value;
		const char *old_key = n->key;

		n->key = (char *)key;
		n->value = (void *)value;

		if (old_value == NULL) {
			trie_node_ref(t, n);
			t->length++;
			trie_notify(n, QB_MAP_NOTIFY_INSERTED,
				    n->key, NULL, n->value);
		} else {
			trie_notify(n, QB_MAP_NOTIFY_REPLACED,
				    (char *)old_key, (void *)old_value,
				    (void *)value);
		}
	}
}

static int32_t
trie_rm(struct qb_map *map, const char *key)
{
	struct trie *t = (struct trie *)map;
	struct trie_node *n = trie_lookup(t, key, QB_TRUE);
	if (n) {
		trie_node_deref(t, n);
		t->length--;
		return QB_TRUE;
	} else {
		return QB_FALSE;
	}
}

static void *
trie_get(struct qb_map *map, const char *key)
{
	struct trie *t = (struct trie *)map;
	struct trie_node *n = trie_lookup(t, key, QB_TRUE);
	if (n) {
		return n->value;
	}

	return NULL;
}

static void
trie_notify_deref(struct qb_map_notifier *f)
{
	f->refcount--;
	if (f->refcount == 0) {
		qb_list_del(&f->list);
		free(f);
	}
}

static void
trie_notify_ref(struct qb_map_notifier *f)
{
	f->refcount++;
}

static void
trie_notify(struct trie_node *n,
	    uint32_t event, const char *key, void *old_value, void *value)
{
	struct trie_node *c = n;
	struct qb_list_head *list;
	struct qb_list_head *next;
	struct qb_list_head *head;
	struct qb_map_notifier *tn;

	do {
		head = c->notifier_head;
		qb_list_for_each_safe(list, next, head) {
			tn = qb_list_entry(list, struct qb_map_notifier, list);
			trie_notify_ref(tn);

			if ((tn->events & event) &&
			    ((tn->events & QB_MAP_NOTIFY_RECURSIVE) ||
			     (n == c))) {
				tn->callback(event, (char *)key, old_value,
					     value, tn->user_data);
			}
			if (((event & QB_MAP_NOTIFY_DELETED) ||
			     (event & QB_MAP_NOTIFY_REPLACED)) &&
			    (tn->events & QB_MAP_NOTIFY_FREE)) {
				tn->callback(QB_MAP_NOTIFY_FREE, (char *)key,
					     old_value, value, tn->user_data);
			}

			trie_notify_deref(tn);
		}
		c = c->parent;
	} while (c);
}

static int32_t
trie_notify_add(qb_map_t * m, const char *key,
		qb_map_notify_fn fn, int32_t events, void *user_data)
{
	struct trie *t = (struct trie *)m;
	struct qb_map_notifier *f;
	struct trie_node *n;
	struct qb_list_head *list;
	int add_to_tail = QB_FALSE;

	if (key) {
		n = trie_lookup(t, key, QB_TRUE);
		if (n == NULL) {
			n = trie_insert(t, key);
		}
	} else {
		n = t->header;
	}
	if (n) {
		qb_list_for_each(list, n->notifier_head) {
			f = qb_list_entry(list, struct qb_map_notifier, list);

			if (events & QB_MAP_NOTIFY_FREE &&
			    f->events == events) {
				/* only one free notifier */
				return -EEXIST;
			}
			if (f->events == events &&
			    f->callback == fn &&
			    f->user_data == user_data) {
				return -EEXIST;
			}
		}

		f = malloc(sizeof(struct qb_map_notifier));
		if (f == NULL) {
			return -errno;
		}
		f->events = events;
		f->user_data = user_data;
		f->callback = fn;
		f->refcount = 1;
		qb_list_init(&f->list);
		if (key) {
			if (events & QB_MAP_NOTIFY_RECURSIVE) {
				add_to_tail = QB_TRUE;
			}
		} else {
			if (events & QB_MAP_NOTIFY_FREE) {
				add_to_tail = QB_TRUE;
			}
		}
		if (add_to_tail) {
			qb_list_add_tail(&f->list, n->notifier_head);
		} else {
			qb_list_add(&f->list, n->notifier_head);
		}
		return 0;
	}
	return -EINVAL;
}

static int32_t
trie_notify_del(qb_map_t * m, const char *key,
		qb_map_notify_fn fn, int32_t events,
		int32_t cmp_userdata, void *user_data)
{
	struct trie *t = (struct trie *)m;
	struct trie_node *n;
	struct qb_list_head *list;
	struct qb_list_head *next;
	int32_t found = QB_FALSE;

	if (key) {
		n = trie_lookup(t, key, QB_FALSE);
	} else {
		n = t->header;
	}
	if (n == NULL) {
		return -ENOENT;
	}
	qb_list_for_each_safe(list, next, n->notifier_head) {
		struct qb_map_notifier *f = qb_list_entry(list, struct qb_map_notifier, list);

		if (f->events == events && f->callback == fn) {
			if (cmp_userdata && (f->user_data == user_data)) {
				trie_notify_deref(f);
				found = QB_TRUE;
			} else if (!cmp_userdata) {
				trie_notify_deref(f);
				found = QB_TRUE;
			}
		}

	}
	if (found) {
		trie_node_release(t, n);
		return 0;
	} else {
		return -ENOENT;
	}
}

static qb_map_iter_t *
trie_iter_create(struct qb_map *map, const char *prefix)
{
	struct trie_iter *i = malloc(sizeof(struct trie_iter));
	struct trie *t = (struct trie *)map;
	if (i == NULL) {
		return NULL;
	}
	i->i.m = map;
	i->prefix = prefix;
	i->n = t->header;
	i->root = t->header;
	return (qb_map_iter_t *) i;
}

static const char *
trie_iter_next(qb_map_iter_t * i, void **value)
{
	struct trie_iter *si = (struct trie_iter *)i;
	struct trie_node *p = si->n;
	struct trie *t = (struct trie *)(i->m);

	if (p == NULL) {
		return NULL;
	}

	if (p->parent == NULL && si->prefix) {
		si->root = trie_lookup(t, si->prefix, QB_FALSE);
		if (si->root == NULL) {
			si->n = NULL;
		} else if (si->root->value == NULL) {
			si->n = trie_node_next(si->root, si->root, QB_FALSE);
		} else {
			si->n = si->root;
		}
	} else {
		si->n = trie_node_next(p, si->root, QB_FALSE);
	}
	if (si->n == NULL) {
		trie_node_deref(t, p);
		return NULL;
	}
	trie_node_ref(t, si->n);
	trie_node_deref(t, p);
	*value = si->n->value;
	return si->n->key;
}

static void
trie_iter_free(qb_map_iter_t * i)
{
	struct trie_iter *si = (struct trie_iter *)i;
	struct trie *t = (struct trie *)(i->m);

	if (si->n != NULL) {
		/* if free'ing the iterator before getting to the last
		 * node make sure we de-ref the current node.
		 */
		trie_node_deref(t, si->n);
	}
	free(i);
}

static size_t
trie_count_get(struct qb_map *map)
{
	struct trie *list = (struct trie *)map;
	return list->length;
}

qb_map_t *
qb_trie_create(void)
{
	struct trie *t = malloc(sizeof(struct trie));
	if (t == NULL) {
		return NULL;
	}

	t->map.put = trie_put;
	t->map.get = trie_get;
	t->map.rm = trie_rm;
	t->map.count_get = trie_count_get;
	t->map.iter_create = trie_iter_create;
	t->map.iter_next = trie_iter_next;
	t->map.iter_free = trie_iter_free;
	t->map.destroy = trie_destroy;
	t->map.notify_add = trie_notify_add;
	t->map.notify_del = trie_notify_del;
	t->length = 0;
	t->num_nodes = 0;
	t->mem_used = sizeof(struct trie);
	t->header = trie_new_node(t, NULL);

	return (qb_map_t *) t;
}
