/*
 * Copyright (C) 2010 Red Hat, Inc.
 *
 * Author: Angus Salkeld <asalkeld@redhat.com>
 *
 * libqb is free software: you can redistribute it and/or modify
 * it under the terms of the GNU Lesser General Public License as published by
 * the Free Software Foundation, either version 2.1 of the License, or
 * (at your option) any later version.
 *
 * libqb is distributed in the hope that it will be useful,
 * but WITHOUT ANY WARRANTY; without even the implied warranty of
 * MERCHANTABILITY or FITNESS FOR A PARTICULAR PURPOSE.  See the
 * GNU Lesser General Public License for more details.
 *
 * You should have received a copy of the GNU Lesser General Public License
 * along with libqb.  If not, see <http://www.gnu.org/licenses/>.
 */

#ifndef QB_UTIL_INT_H_DEFINED
#define QB_UTIL_INT_H_DEFINED

#include "os_base.h"
#include <qb/qblog.h>

#if !defined (va_copy)
#if defined (__va_copy)
#define va_copy(_a, _b) __va_copy(_a, _b)
#else
#define va_copy(_a, _b)  memcpy(&_a, &_b, sizeof(va_list))
#endif /* !__va_copy */
#endif /* !va_copy */

/**
 * This is used internally by libqb.
 *
 * It sets the 32nd bit of the tags so that internal logs can be
 * distinguished from external ones.
 */
#ifndef S_SPLINT_S
#define qb_util_log(priority, fmt, args...) qb_logt(priority, QB_LOG_TAG_LIBQB_MSG, fmt, ##args)
#else
#define qb_util_log
#endif

#ifndef S_SPLINT_S
#define qb_util_perror(priority, fmt, args...) do {		\
	char _perr_buf_[QB_LOG_STRERROR_MAX_LEN];			\
	const char *_perr_str_ = qb_strerror_r(errno, _perr_buf_, sizeof(_perr_buf_));	\
	qb_logt(priority, QB_LOG_TAG_LIBQB_MSG, fmt ": %s (%d)", ##args, _perr_str_, errno); \
    } while(0)
#else
#define qb_util_perror
#endif

/**
 * Create a file to be used to back shared memory.
 *
 * @param path (out) the final absolute path of the file.
 * @param file (in) the name of the file to be used.
 * @param bytes the size to truncate the file to.
 * @param file_flags same as passed into open()
 * @return 0 (success) or -errno
 */
int32_t qb_sys_mmap_file_open(char *path, const char *file, size_t bytes,
			       uint32_t file_flags);

/**
 * Create a shared mamory circular buffer.
 *
 * @param fd an open file to use to back the shared memory.
 * @param buf (out) the pointer to the start of the memory.
 * @param bytes the size of the shared memory.
 * @return 0 (success) or -errno
 */
int32_t qb_sys_circular_mmap(int32_t fd, void **buf, size_t bytes);


/**
 * Set O_NONBLOCK and FD_CLOEXEC on a file descriptor.
 * @param fd the file descriptor.
 * @return 0 (success) or -errno
 */
int32_t qb_sys_fd_nonblock_cloexec_set(int32_t fd);

/**
 * Try to unlink file, and possibly truncate it as a fallback.
 * @param path the file to be unlinked or truncated.
 * @param truncate_fallback whether to truncate the file when unlink fails.
 * @return 0 (success) or -errno
 */
int32_t qb_sys_unlink_or_truncate(const char *path, int32_t truncate_fallback);

#if defined(HAVE_OPENAT) && defined(HAVE_UNLINKAT)
/**
 * Try to unlinkat file, and possibly truncate it as a fallback ("at" variant).
 * @param path the file to be unlinked or truncated.
 * @param truncate_fallback whether to truncate the file when unlink fails.
 * @return 0 (success) or -errno
 */
int32_t qb_sys_unlink_or_truncate_at(int32_t dirfd, const char *path,
				     int32_t truncate_fallback);
#endif

enum qb_sigpipe_ctl {
       QB_SIGPIPE_IGNORE,
       QB_SIGPIPE_DEFAULT,
};

/**
 * Control sigpipe (ignore/default) during send/recv
 * Needed on some bsd's
 */
void qb_sigpipe_ctl(enum qb_sigpipe_ctl ctl);

/**
 * Control sigpipe on the socket.
 */
void qb_socket_nosigpipe(int32_t s);

#define SERVER_BACKLOG 128

#ifndef UNIX_PATH_MAX
#define UNIX_PATH_MAX    108
#endif /* UNIX_PATH_MAX */

/*
 * SUN_LEN() does a strlen() on sun_path, but if you are trying to use the
 * "Linux abstract namespace" (you have to set sun_path[0] == '\0') then
 * the strlen() doesn't work.
 */
#if defined(SUN_LEN)
#define QB_SUN_LEN(a) ((a)->sun_path[0] == '\0') ? sizeof(*(a)) : SUN_LEN(a)
#else
#define QB_SUN_LEN(a) sizeof(*(a))
#endif

#endif /* QB_UTIL_INT_H_DEFINED */
