#include <stdio.h>
#include <stdlib.h>
#include <string.h>
#include <qb/qbdefs.h>
#include <qb/qbmap.h>
int main(void){ qb_map_t *m = qb_trie_create(); char *k = malloc(1); k[0]=0; const char *p; void *v; qb_map_iter_t *it;
 qb_map_put(m, "a", "1"); qb_map_put(m, k, "empty"); printf("get('')=%s count=%zu\n", (char*)qb_map_get(m, k), qb_map_count_get(m));
 it = qb_map_iter_create(m); while ((p = qb_map_iter_next(it,&v))) printf("iter '%s'\n", p); qb_map_iter_free(it); return 0; }
