/*
 * C18 model-based randomized tester: map iterators stay valid while entries
 * are removed or added under them.
 *
 * usage:
 *   fuzz gen <seed> <file>      generate a program (op list) into <file>
 *   fuzz run <file>             execute a program, exit 1 on a violation
 *   fuzz auto <seed0> <count>   for each seed: gen into /tmp/hunt-C18/cur.prog, run
 *
 * A program is a text file:
 *   H <kind> <hsize> <utype> <useed> <flags>
 *   then one op per line:
 *     p <u>   put (insert or replace)        i <u> put only if absent
 *     r <u>   put only if present (replace)  d <u> remove
 *     g <u>   get
 *     c <s> <u> <len>  create iterator in slot s; if u>=0 a prefix iterator
 *                      (trie only) with the first <len> bytes of ukey[u]
 *                      (len > strlen: one extra 'Z' appended)
 *     n <s>   next on slot s      f <s> free slot s     a <s> drain slot s
 *     x       close all iterators, then check the map as a dictionary
 * kind: 0 hashtable 1 skiplist 2 trie
 * flags: 1 = call next again after the end (expects NULL again)
 */
#include <stdio.h>
#include <stdlib.h>
#include <string.h>
#include <stdint.h>
#include <errno.h>
#include <qb/qbdefs.h>
#include <qb/qbmap.h>

#define NU_MAX 512
#define NSLOT 6
#define MAGIC 0x51ab1e00

static char *ukeys[NU_MAX];
static int nu;

struct val {
	int magic;
	int uidx;
	int serial;
};

static struct {
	int present;
	char *kptr;
	struct val *v;
} model[NU_MAX];
static int model_count;

struct it {
	qb_map_iter_t *h;
	int ended;
	char *prefix;
	int inserts;		/* new keys inserted since creation */
	uint8_t whole[NU_MAX];	/* present since creation, never removed */
	uint16_t cnt[NU_MAX];
};
static struct it its[NSLOT];

static qb_map_t *m;
static int kind;
static int flags;
static int violations;
static int serial;
static long opno;
static long live_allocs;

#define VIOL(...) do { \
	printf("VIOLATION (op %ld): ", opno); printf(__VA_ARGS__); printf("\n"); \
	violations++; } while (0)

/* ---------- prng ---------- */
static uint64_t rs;
static uint32_t rnd(void)
{
	rs ^= rs << 13;
	rs ^= rs >> 7;
	rs ^= rs << 17;
	return (uint32_t) (rs >> 11);
}
static int rn(int n) { return n <= 0 ? 0 : (int)(rnd() % (uint32_t) n); }

/* ---------- universe ---------- */
static void uadd(const char *s)
{
	int i;
	if (nu >= NU_MAX || s[0] == 0) return;
	for (i = 0; i < nu; i++) if (strcmp(ukeys[i], s) == 0) return;
	ukeys[nu++] = strdup(s);
}

static void ugen_alpha(const char *alpha, int maxlen)
{
	int na = strlen(alpha);
	char buf[16];
	int len, i;
	long total, k, c;
	for (len = 1; len <= maxlen; len++) {
		total = 1;
		for (i = 0; i < len; i++) total *= na;
		for (k = 0; k < total; k++) {
			c = k;
			for (i = len - 1; i >= 0; i--) { buf[i] = alpha[c % na]; c /= na; }
			buf[len] = 0;
			uadd(buf);
		}
	}
}

static void universe(int utype, uint64_t useed)
{
	uint64_t save = rs;
	char buf[64];
	int i, j, n, len;
	rs = useed * 2654435761u + 88172645463325252ull;
	nu = 0;
	switch (utype) {
	case 0: ugen_alpha("ab", 4); break;
	case 1: ugen_alpha("abc", 3); uadd("abcabc"); uadd("abcabd"); uadd("abcab"); uadd("cccccc"); break;
	case 2:
		n = 16 + rn(80);
		for (i = 0; i < n; i++) {
			len = 1 + rn(3);
			for (j = 0; j < len; j++) buf[j] = (char)(1 + rn(255));
			buf[len] = 0; uadd(buf);
		}
		break;
	case 3:
		n = 1 + rn(200);
		for (i = 0; i < n; i++) { snprintf(buf, sizeof buf, "key%d", i); uadd(buf); }
		break;
	case 4:
		for (i = 1; i <= 10; i++) { memset(buf, 'a', i); buf[i] = 0; uadd(buf); }
		for (i = 0; i < 10; i++) { memset(buf, 'a', 10); buf[10] = 0; buf[i] = 'b'; uadd(buf); }
		for (i = 0; i < 9; i++) { memset(buf, 'a', 10); buf[i+1] = 0; buf[i] = 'b'; uadd(buf); }
		uadd("b"); uadd("ba"); uadd("bb");
		break;
	case 5:
		uadd("\x01"); uadd("\x7f"); uadd("\x80"); uadd("\xff"); uadd("\x7e"); uadd("\x81");
		uadd("a"); uadd("b"); uadd("A"); uadd(" "); uadd("\xfe"); uadd("\x02");
		uadd("\x7f\x7f"); uadd("\x80\x80"); uadd("\x7f\x80"); uadd("\x80\x7f"); uadd("\xff\x01"); uadd("\x01\xff");
		break;
	case 6:
		for (i = 1; i < 100000; i *= 10) { snprintf(buf, sizeof buf, "%d", i); uadd(buf); snprintf(buf, sizeof buf, "%d", i + 1); uadd(buf); snprintf(buf, sizeof buf, "%d", 2 * i); uadd(buf); }
		break;
	case 7: /* one or two keys only */
		uadd("k"); if (useed & 1) uadd("kk");
		break;
	case 8: /* path like */
		{
			const char *a[] = { "runtime", "totem", "logging", "r", "run" };
			const char *b[] = { "config", "c", "conf", "stats", "" };
			for (i = 0; i < 5; i++) {
				uadd(a[i]);
				for (j = 0; j < 5; j++) {
					snprintf(buf, sizeof buf, "%s.%s", a[i], b[j]); uadd(buf);
					snprintf(buf, sizeof buf, "%s.%s.%d", a[i], b[j], j); uadd(buf);
				}
			}
		}
		break;
	default: ugen_alpha("abcd", 2); break;
	}
	rs = save;
}

/* ---------- notifier: free keys and values ---------- */
static void free_cb(uint32_t event, char *key, void *old_value, void *value, void *ud)
{
	struct val *v = old_value;
	if (event != QB_MAP_NOTIFY_FREE) return;
	if (v) {
		if ((v->magic & ~0xff) != MAGIC) VIOL("FREE notifier got a bad value");
		v->magic = 0;
		free(v);
		live_allocs--;
	}
	free(key);
	live_allocs--;
}

/* ---------- helpers ---------- */
static int has_prefix(const char *k, const char *p)
{
	return p == NULL || strncmp(k, p, strlen(p)) == 0;
}

static void do_put(int u, int mode)
{
	struct val *v;
	char *k;
	int s;
	if (u < 0 || u >= nu) return;
	if (mode == 'i' && model[u].present) return;
	if (mode == 'r' && !model[u].present) return;
	v = malloc(sizeof *v);
	v->magic = MAGIC; v->uidx = u; v->serial = ++serial;
	k = malloc(strlen(ukeys[u]) + 1);	/* exact size: overreads are caught */
	strcpy(k, ukeys[u]);
	live_allocs += 2;
	qb_map_put(m, k, v);
	if (!model[u].present) {
		model[u].present = 1;
		model_count++;
		for (s = 0; s < NSLOT; s++) if (its[s].h) its[s].inserts++;
	}
	model[u].kptr = k;
	model[u].v = v;
}

static void do_rm(int u)
{
	int32_t r;
	int s;
	if (u < 0 || u >= nu) return;
	r = qb_map_rm(m, ukeys[u]);
	if (!!r != !!model[u].present) VIOL("rm(%s) returned %d, model present=%d", ukeys[u], r, model[u].present);
	if (model[u].present) {
		model[u].present = 0;
		model[u].v = NULL;
		model[u].kptr = NULL;
		model_count--;
		for (s = 0; s < NSLOT; s++) if (its[s].h) its[s].whole[u] = 0;
	}
}

static void do_get(int u)
{
	void *r;
	if (u < 0 || u >= nu) return;
	if (qb_map_count_get(m) != (size_t) model_count)
		VIOL("count_get %zu while the model holds %d", qb_map_count_get(m), model_count);
	r = qb_map_get(m, ukeys[u]);
	if (model[u].present) {
		if (r != model[u].v) VIOL("get(%s) returned %p, expected %p", ukeys[u], r, (void*)model[u].v);
	} else if (r != NULL) {
		VIOL("get(%s) returned %p for an absent key", ukeys[u], r);
	}
}

static void it_free(int s)
{
	if (!its[s].h) return;
	qb_map_iter_free(its[s].h);
	its[s].h = NULL;
	free(its[s].prefix);
	its[s].prefix = NULL;
}

static void it_create(int s, int u, int len)
{
	int i;
	struct it *t = &its[s];
	it_free(s);
	memset(t, 0, sizeof *t);
	if (kind == 2 && u >= 0 && u < nu) {
		int kl = strlen(ukeys[u]);
		t->prefix = malloc(kl + 2);
		strcpy(t->prefix, ukeys[u]);
		if (len > kl) { t->prefix[kl] = 'Z'; t->prefix[kl + 1] = 0; }
		else { if (len < 1) len = 1; t->prefix[len] = 0; }
		t->h = qb_map_pref_iter_create(m, t->prefix);
	} else {
		t->h = qb_map_iter_create(m);
	}
	for (i = 0; i < nu; i++)
		t->whole[i] = model[i].present && has_prefix(ukeys[i], t->prefix);
}

static void it_end_check(int s)
{
	struct it *t = &its[s];
	int i;
	for (i = 0; i < nu; i++) {
		if (t->whole[i] && t->cnt[i] == 0)
			VIOL("iterator %d (prefix %s) ended without returning key '%s' that was present all along (inserts=%d)",
			     s, t->prefix ? t->prefix : "-", ukeys[i], t->inserts);
	}
}

/* returns 0 when the iterator is at its end */
static int it_next(int s)
{
	struct it *t = &its[s];
	const char *k;
	void *value = NULL;
	struct val *v;
	int u;

	if (!t->h) return 0;
	if (t->ended && !(flags & 1)) return 0;
	k = qb_map_iter_next(t->h, &value);
	if (t->ended) {
		if (k != NULL) VIOL("iterator %d returned '%s' after it had reported the end", s, k);
		return 0;
	}
	if (k == NULL) {
		t->ended = 1;
		it_end_check(s);
		return 0;
	}
	v = value;
	if (v == NULL) { VIOL("iterator %d returned key '%s' with NULL value", s, k); return 1; }
	if ((v->magic & ~0xff) != MAGIC) { VIOL("iterator %d returned bad value", s); return 1; }
	u = v->uidx;
	if (u < 0 || u >= nu || strcmp(k, ukeys[u]) != 0) {
		VIOL("iterator %d returned key '%s' not matching its value (u=%d)", s, k, u);
		return 1;
	}
	if (!model[u].present) {
		VIOL("iterator %d returned key '%s' which is not in the map", s, k);
	} else {
		if (model[u].v != v) VIOL("iterator %d returned a stale value for '%s'", s, k);
		if (model[u].kptr != k) VIOL("iterator %d returned a stale key pointer for '%s'", s, k);
	}
	if (!has_prefix(k, t->prefix)) VIOL("iterator %d (prefix %s) returned '%s'", s, t->prefix, k);
	t->cnt[u]++;
	if (t->cnt[u] > 1 && t->inserts == 0)
		VIOL("iterator %d returned '%s' %d times although only removals happened", s, k, t->cnt[u]);
	if (t->cnt[u] > 1000) { VIOL("iterator %d loops", s); t->ended = 1; return 0; }
	return 1;
}

static void dict_check(void)
{
	int s, i, n = 0;
	struct it *t = &its[0];
	for (s = 0; s < NSLOT; s++) it_free(s);
	if (qb_map_count_get(m) != (size_t) model_count)
		VIOL("count_get %zu, model %d", qb_map_count_get(m), model_count);
	for (i = 0; i < nu; i++) do_get(i);
	it_create(0, -1, 0);
	while (it_next(0)) n++;
	if (n != model_count) VIOL("full iteration returned %d keys, model has %d", n, model_count);
	for (i = 0; i < nu; i++) if (t->cnt[i] != (model[i].present ? 1 : 0))
		VIOL("full iteration returned '%s' %d times, present=%d", ukeys[i], t->cnt[i], model[i].present);
	it_free(0);
}

/* ---------- run ---------- */
static int run_file(const char *fn)
{
	FILE *f = fopen(fn, "r");
	char line[256];
	int hsize, utype, a, b, c, n;
	unsigned long long useed;
	char op;

	if (!f) { perror(fn); return 2; }
	if (!fgets(line, sizeof line, f) ||
	    sscanf(line, "H %d %d %d %llu %d", &kind, &hsize, &utype, &useed, &flags) != 5) {
		fprintf(stderr, "bad header\n"); return 2;
	}
	universe(utype, useed);
	memset(model, 0, sizeof model);
	memset(its, 0, sizeof its);
	model_count = 0;
	switch (kind) {
	case 0: m = qb_hashtable_create(hsize); break;
	case 1: m = qb_skiplist_create(); srandom((unsigned) useed + 1); break;
	default: m = qb_trie_create(); break;
	}
	if (qb_map_notify_add(m, NULL, free_cb, QB_MAP_NOTIFY_FREE, NULL) != 0) {
		fprintf(stderr, "notify_add failed\n"); return 2;
	}
	opno = 0;
	while (fgets(line, sizeof line, f)) {
		opno++;
		a = b = c = 0;
		n = sscanf(line, " %c %d %d %d", &op, &a, &b, &c);
		if (n < 1) continue;
		switch (op) {
		case 'p': case 'i': case 'r': do_put(a, op); break;
		case 'd': do_rm(a); break;
		case 'g': do_get(a); break;
		case 'c': if (a >= 0 && a < NSLOT) it_create(a, n >= 3 ? b : -1, c); break;
		case 'n': if (a >= 0 && a < NSLOT) it_next(a); break;
		case 'f': if (a >= 0 && a < NSLOT) it_free(a); break;
		case 'a': if (a >= 0 && a < NSLOT) while (it_next(a)) ; break;
		case 'x': dict_check(); break;
		default: break;
		}
	}
	fclose(f);
	opno++;
	dict_check();
	qb_map_destroy(m);
	return violations ? 1 : 0;
}

/* ---------- gen ---------- */
static long gen_file(uint64_t seed, const char *fn)
{
	FILE *f = fopen(fn, "w");
	int k, hsize, utype, fl, nops, i, style, s, u;
	static const int hsizes[] = { 0, 1, 2, 3, 7, 8, 9, 15, 16, 17, 64, 1000 };
	int w_put, w_ins, w_rep, w_rm, w_get, w_c, w_n, w_f, w_a, w_x, tot, r;
	int nslots;
	long count = 0;

	rs = seed * 0x9E3779B97F4A7C15ull + 12345;
	for (i = 0; i < 5; i++) rnd();
	k = rn(3);
	hsize = hsizes[rn(12)];
	utype = rn(10);
	fl = (rn(8) == 0) ? 1 : 0;
	fl = 0 * fl; /* "next after end" is exercised by targeted tests only */
	universe(utype, seed);
	fprintf(f, "H %d %d %d %llu %d\n", k, hsize, utype, (unsigned long long) seed, fl);

	style = rn(4); /* 0: removals only under iterators, 1: mixed, 2: replace+rm, 3: heavy churn */
	nslots = 1 + rn(NSLOT);
	/* populate */
	{
		int fill = rn(4); /* 0 all, 1 most, 2 half, 3 few */
		for (i = 0; i < nu; i++) {
			if (fill == 0 || (fill == 1 && rn(10)) || (fill == 2 && rn(2)) || (fill == 3 && !rn(5))) {
				fprintf(f, "i %d\n", i); count++;
			}
		}
		/* shuffle-ish extra */
		for (i = 0; i < nu / 2; i++) { fprintf(f, "%c %d\n", rn(3) ? 'i' : 'd', rn(nu)); count++; }
	}
	nops = 20 + rn(rn(2) ? 200 : 3000);
	w_put = w_ins = w_rep = 0;
	switch (style) {
	case 0: w_rm = 30; break;
	case 1: w_rm = 20; w_put = 20; break;
	case 2: w_rm = 20; w_rep = 15; break;
	default: w_rm = 40; w_ins = 40; w_put = 5; break;
	}
	w_get = 5; w_c = 6; w_n = 40; w_f = 3; w_a = 3; w_x = (rn(3) == 0) ? 1 : 0;
	tot = w_put + w_ins + w_rep + w_rm + w_get + w_c + w_n + w_f + w_a + w_x;
	for (i = 0; i < nops; i++) {
		r = rn(tot);
		s = rn(nslots);
		u = rn(nu);
		if ((r -= w_put) < 0) fprintf(f, "p %d\n", u);
		else if ((r -= w_ins) < 0) fprintf(f, "i %d\n", u);
		else if ((r -= w_rep) < 0) fprintf(f, "r %d\n", u);
		else if ((r -= w_rm) < 0) fprintf(f, "d %d\n", u);
		else if ((r -= w_get) < 0) fprintf(f, "g %d\n", u);
		else if ((r -= w_c) < 0) {
			if (k == 2 && rn(2)) fprintf(f, "c %d %d %d\n", s, u, 1 + rn((int) strlen(ukeys[u]) + 1));
			else fprintf(f, "c %d -1 0\n", s);
		}
		else if ((r -= w_n) < 0) fprintf(f, "n %d\n", s);
		else if ((r -= w_f) < 0) fprintf(f, "f %d\n", s);
		else if ((r -= w_a) < 0) fprintf(f, "a %d\n", s);
		else {
			fprintf(f, "x\n");
			/* refill a bit when no iterator is open */
			if (style == 0 || style == 2) {
				int j, nn = rn(nu);
				for (j = 0; j < nn; j++) { fprintf(f, "i %d\n", rn(nu)); count++; }
			}
		}
		count++;
		/* in removal-only styles, when everything might be gone, drain and refill */
		if ((style == 0 || style == 2) && i % 150 == 149) {
			int j;
			fprintf(f, "x\n");
			for (j = 0; j < nu; j++) if (rn(3)) { fprintf(f, "i %d\n", j); count++; }
		}
	}
	/* finally remove everything under open iterators, then drain them */
	if (rn(2)) {
		for (s = 0; s < nslots; s++) if (rn(2)) fprintf(f, "c %d -1 0\n", s);
		for (i = 0; i < nu; i++) { fprintf(f, "d %d\n", (i * 7 + 3) % nu); if (rn(4) == 0) fprintf(f, "n %d\n", rn(nslots)); count++; }
		for (s = 0; s < nslots; s++) fprintf(f, "a %d\n", s);
	}
	fclose(f);
	return count;
}

int main(int argc, char **argv)
{
	setvbuf(stdout, NULL, _IOLBF, 0);
	if (argc >= 4 && strcmp(argv[1], "gen") == 0) {
		long c = gen_file(strtoull(argv[2], NULL, 0), argv[3]);
		printf("%ld ops\n", c);
		return 0;
	}
	if (argc >= 3 && strcmp(argv[1], "run") == 0) {
		int r = run_file(argv[2]);
		if (r == 0 && argc < 4) printf("OK\n");
		return r;
	}
	fprintf(stderr, "usage: fuzz gen <seed> <file> | fuzz run <file>\n");
	return 2;
}
