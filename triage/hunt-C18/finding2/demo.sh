#!/bin/sh
# usage: demo.sh <tree>    exit 0 = property held, non-zero = violated
T=${1:-/repo}
D=$(cd "$(dirname "$0")" && pwd)
rc=0
for p in demo demo_free; do
  gcc -g -O1 -fsanitize=undefined -fno-sanitize-recover=undefined \
    -DHAVE_CONFIG_H -I$T/include -I$T/include/qb -I$T/lib \
    -o $D/$p $D/$p.c $T/lib/hashtable.c $T/lib/skiplist.c $T/lib/trie.c $T/lib/map.c \
    -L$T/lib/.libs -lqb 2>/dev/null || { echo "build failed"; exit 99; }
  echo "--- $p"
  LD_LIBRARY_PATH=$T/lib/.libs $D/$p || rc=1
done
exit $rc
