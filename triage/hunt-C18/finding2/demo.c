/*
 * C18 finding 2 (re-entrancy): on a trie, a DELETED notifier that puts the
 * key it is being told about back into the map (from inside the notification)
 * gets the delete notification a second time for the same old entry, and the
 * entry it has just put is wiped: count_get() counts it, get() and iterators
 * do not find it.  With an iterator positioned on the removed entry this
 * happens inside qb_map_iter_next()/qb_map_iter_free().
 * The hashtable and the skiplist handle the same sequence correctly.
 */
#include <stdio.h>
#include <string.h>
#include <qb/qbdefs.h>
#include <qb/qbmap.h>

static qb_map_t *m;
static int depth;
static int deleted_calls;
static int deleted_of_old;

static void del_cb(uint32_t event, char *key, void *old_value, void *value, void *ud)
{
	if (!(event & QB_MAP_NOTIFY_DELETED)) {
		return;
	}
	deleted_calls++;
	if (strcmp((char *)old_value, "old") == 0) {
		deleted_of_old++;
	}
	if (depth > 0) {
		return;
	}
	depth++;
	qb_map_put(m, key, "again");	/* "when it is deleted, recreate it" */
	depth--;
}

static int run(qb_map_t *map, const char *name, int32_t extra)
{
	qb_map_iter_t *it;
	const char *k;
	void *v;
	int n = 0, bad = 0;
	char *g;

	m = map;
	depth = deleted_calls = deleted_of_old = 0;
	qb_map_notify_add(m, NULL, del_cb, QB_MAP_NOTIFY_DELETED | extra, NULL);
	qb_map_put(m, "a", "old");
	qb_map_put(m, "b", "other");

	it = qb_map_iter_create(m);
	while ((k = qb_map_iter_next(it, &v)) != NULL) {
		if (strcmp(k, "a") == 0 && strcmp((char *)v, "old") == 0) {
			/* documented use: remove the entry the iterator is on */
			qb_map_rm(m, "a");
		}
	}
	qb_map_iter_free(it);

	/* the iterators are gone: the map must be a dictionary holding a=again, b=other */
	g = qb_map_get(m, "a");
	it = qb_map_iter_create(m);
	while ((k = qb_map_iter_next(it, &v)) != NULL) {
		n++;
	}
	qb_map_iter_free(it);
	printf("%s: DELETED notified %d time(s) for the old entry; count_get=%zu, iteration finds %d, get(a)=%s\n",
	       name, deleted_of_old, qb_map_count_get(m), n, g ? g : "(null)");
	if (deleted_of_old != 1) bad = 1;
	if (qb_map_count_get(m) != (size_t) n) bad = 1;
	if (g == NULL || strcmp(g, "again") != 0) bad = 1;
	qb_map_notify_del(m, NULL, del_cb, QB_MAP_NOTIFY_DELETED | extra);
	qb_map_destroy(m);
	return bad;
}

int main(void)
{
	int bad = 0;
	bad |= run(qb_hashtable_create(8), "hashtable", 0);
	bad |= run(qb_skiplist_create(), "skiplist", 0);
	bad |= run(qb_trie_create(), "trie", QB_MAP_NOTIFY_RECURSIVE);
	printf(bad ? "VIOLATED\n" : "held\n");
	return bad;
}
