/*
 * Variant of finding 2 with heap keys/values released from the documented
 * QB_MAP_NOTIFY_FREE notifier: because the trie notifies the deletion of the
 * old entry twice, the FREE notifier is handed the same key and value twice
 * (double free, reported by ASan; here detected by a guard so that the demo
 * stays deterministic without a sanitizer).
 */
#include <stdio.h>
#include <stdlib.h>
#include <string.h>
#include <qb/qbdefs.h>
#include <qb/qbmap.h>

static qb_map_t *m;
static int depth;
static void *freed[16];
static int nfreed;
static int double_free;

static void free_cb(uint32_t event, char *key, void *old_value, void *value, void *ud)
{
	int i;
	if (event != QB_MAP_NOTIFY_FREE) return;
	for (i = 0; i < nfreed; i++) {
		if (freed[i] == old_value) {
			printf("FREE notifier called again for value %p (key %p): double free\n", old_value, (void *)key);
			double_free++;
			return;
		}
	}
	if (nfreed < 16) freed[nfreed++] = old_value;
	/* a real program calls free(key); free(old_value); here */
}

static void del_cb(uint32_t event, char *key, void *old_value, void *value, void *ud)
{
	if (!(event & QB_MAP_NOTIFY_DELETED) || depth > 0) return;
	depth++;
	qb_map_put(m, strdup("a"), strdup("again"));
	depth--;
}

int main(void)
{
	qb_map_iter_t *it;
	const char *k;
	void *v;

	m = qb_trie_create();
	qb_map_notify_add(m, NULL, del_cb, QB_MAP_NOTIFY_DELETED | QB_MAP_NOTIFY_RECURSIVE, NULL);
	qb_map_notify_add(m, NULL, free_cb, QB_MAP_NOTIFY_FREE, NULL);
	qb_map_put(m, strdup("a"), strdup("old"));
	it = qb_map_iter_create(m);
	k = qb_map_iter_next(it, &v);		/* on "a" */
	qb_map_rm(m, "a");			/* kept for the iterator */
	k = qb_map_iter_next(it, &v);		/* leaves "a": destroyed now, notifier re-puts it */
	(void) k;
	qb_map_iter_free(it);
	printf(double_free ? "VIOLATED\n" : "held\n");
	return double_free != 0;
}
