#!/bin/sh
# usage: loop.sh <first seed> <count>   -- stops at first failing seed, keeps its program
D=/tmp/hunt-C18
s=$1; e=$(($1+$2)); tot=0
export LD_LIBRARY_PATH=/repo/lib/.libs ASAN_OPTIONS=detect_leaks=0:abort_on_error=0
while [ $s -lt $e ]; do
  n=$($D/fuzz gen $s $D/cur.$1.prog | cut -d' ' -f1); tot=$((tot+n))
  if ! $D/fuzz run $D/cur.$1.prog q > $D/out.$1.txt 2>&1; then
     cp $D/cur.$1.prog $D/fail.$s.prog; cp $D/out.$1.txt $D/fail.$s.out
     echo "seed $s FAILED: $(grep -m1 -E 'VIOLATION|ERROR|runtime error' $D/out.$1.txt)"
     [ -n "$STOP" ] && break
  fi
  s=$((s+1))
done
echo "done seeds $1..$((s-1)), $tot ops"
