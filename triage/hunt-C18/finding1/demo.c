/*
 * C18 finding 1 (borderline): a hashtable iterator that has reported the end
 * of the iteration (NULL) starts returning keys again when asked once more,
 * so a key present all along is returned twice by the same iterator although
 * nothing was inserted.  The skiplist and the trie keep answering NULL.
 */
#include <stdio.h>
#include <string.h>
#include <qb/qbdefs.h>
#include <qb/qbmap.h>

static int run(qb_map_t *m, const char *name)
{
	qb_map_iter_t *it;
	const char *k;
	void *v;
	int n = 0, again = 0;

	qb_map_put(m, "a", "1");
	qb_map_put(m, "b", "2");
	qb_map_put(m, "c", "3");
	it = qb_map_iter_create(m);
	while ((k = qb_map_iter_next(it, &v)) != NULL) {
		n++;
	}
	/* the iteration is over; ask again */
	while ((k = qb_map_iter_next(it, &v)) != NULL && again < 10) {
		printf("%s: after the end, next returned '%s' again\n", name, k);
		again++;
	}
	qb_map_iter_free(it);
	qb_map_destroy(m);
	printf("%s: %d keys in the iteration, %d more after its end\n", name, n, again);
	return again != 0 || n != 3;
}

int main(void)
{
	int bad = 0;
	bad |= run(qb_skiplist_create(), "skiplist");
	bad |= run(qb_trie_create(), "trie");
	bad |= run(qb_hashtable_create(8), "hashtable");
	printf(bad ? "VIOLATED\n" : "held\n");
	return bad;
}
