#!/bin/sh
# usage: demo.sh <tree>    exit 0 = property held, non-zero = violated
T=${1:-/repo}
D=$(cd "$(dirname "$0")" && pwd)
gcc -g -O1 -fsanitize=address,undefined -fno-sanitize-recover=undefined \
  -DHAVE_CONFIG_H -I$T/include -I$T/include/qb -I$T/lib \
  -o $D/demo $D/demo.c $T/lib/hashtable.c $T/lib/skiplist.c $T/lib/trie.c $T/lib/map.c \
  -L$T/lib/.libs -lqb 2>/dev/null || { echo "build failed"; exit 99; }
LD_LIBRARY_PATH=$T/lib/.libs ASAN_OPTIONS=detect_leaks=0 $D/demo
