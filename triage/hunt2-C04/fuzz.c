/*
 * C04 model based tester: IPC server callback order / lifetime.
 *
 * Single process, single thread.  Clients use the async connect API so that
 * the server side can be stepped deterministically from the same thread.
 * Two poll back-ends: a strict hand written one (mode 0) and qb_loop (mode 1).
 *
 * usage: fuzz <seed> <nops> [mode] [verbose]
 */
#include "os_base.h"
#include <poll.h>
#include <signal.h>
#include <dirent.h>
#include <sys/un.h>
#include <sys/resource.h>
#include "util_int.h"
#include "ipc_int.h"
#include <qb/qbdefs.h>
#include <qb/qbloop.h>
#include <qb/qbipcs.h>
#include <qb/qbipcc.h>
#include <qb/qblog.h>

static int verbose;
static int loop_mode;
static unsigned long nviol;
static unsigned long ncb[6];

#define V(...) do { if (verbose) { fprintf(stderr, __VA_ARGS__); fputc('\n', stderr);} } while (0)
#define VIOL(...) do { nviol++; fprintf(stderr, "VIOLATION: " __VA_ARGS__); fputc('\n', stderr); if (getenv("ABORT_ON_VIOL")) abort(); } while (0)

/* ---------- rng ---------- */
static uint64_t rs;
static uint32_t rnd(void)
{
	rs ^= rs << 13; rs ^= rs >> 7; rs ^= rs << 17;
	return (uint32_t)(rs >> 16);
}
static uint32_t rn(uint32_t n) { return n ? rnd() % n : 0; }

/* ---------- strict poll harness ---------- */
struct pent {
	int fd, events, active;
	unsigned gen;
	void *data;
	qb_ipcs_dispatch_fn_t fn;
};
#define MAXPE 512
static struct pent pe[MAXPE];
static unsigned pgen;
struct job { void *data; qb_loop_job_dispatch_fn fn; };
#define MAXJOB 1024
static struct job jobs[MAXJOB];
static int njobs;
static unsigned long npollout;
static int fail_dispatch_add;	/* inject a failure into the n-th add from now */
static int fail_job_add;

static qb_loop_t *ql;

static void job_failed(void *data);
static int32_t h_job_add(enum qb_loop_priority p, void *data, qb_loop_job_dispatch_fn fn)
{
	if (fail_job_add > 0 && --fail_job_add == 0) {
		job_failed(data);
		return -ENOMEM;
	}
	if (loop_mode) {
		return qb_loop_job_add(ql, p, data, fn);
	}
	if (njobs >= MAXJOB) return -ENOMEM;
	jobs[njobs].data = data;
	jobs[njobs].fn = fn;
	njobs++;
	return 0;
}
static int32_t h_dispatch_add(enum qb_loop_priority p, int32_t fd, int32_t evts,
			      void *data, qb_ipcs_dispatch_fn_t fn)
{
	int i, fr = -1;
	if (fail_dispatch_add > 0 && --fail_dispatch_add == 0) {
		return -ENOMEM;
	}
	if (loop_mode) {
		int32_t rr = qb_loop_poll_add(ql, p, fd, evts, data, fn);
		if (rr == 0) {
			for (i = 0; i < MAXPE; i++) if (!pe[i].active) break;
			if (i < MAXPE) { pe[i].active = 1; pe[i].fd = fd; pe[i].data = data; pe[i].fn = fn; }
		}
		V("      loop add fd %d data %p -> %d", fd, data, rr);
		return rr;
	}
	for (i = 0; i < MAXPE; i++) {
		if (pe[i].active && pe[i].fd == fd) {
			VIOL("dispatch_add of fd %d that is still registered (stale entry, data %p)", fd, pe[i].data);
			return -EEXIST;
		}
		if (!pe[i].active && fr < 0) fr = i;
	}
	if (fr < 0) return -ENOMEM;
	pe[fr].fd = fd; pe[fr].events = evts; pe[fr].active = 1;
	pe[fr].gen = ++pgen; pe[fr].data = data; pe[fr].fn = fn;
	return 0;
}
static int32_t h_dispatch_mod(enum qb_loop_priority p, int32_t fd, int32_t evts,
			      void *data, qb_ipcs_dispatch_fn_t fn)
{
	int i;
	if (evts & POLLOUT) npollout++;
	if (loop_mode) {
		int32_t rr = qb_loop_poll_mod(ql, p, fd, evts, data, fn);
		V("      loop mod fd %d data %p prio %d -> %d", fd, data, (int)p, rr);
		return rr;
	}
	for (i = 0; i < MAXPE; i++) {
		if (pe[i].active && pe[i].fd == fd) {
			pe[i].events = evts; pe[i].data = data; pe[i].fn = fn;
			return 0;
		}
	}
	return -EBADF;
}
static int32_t h_dispatch_del(int32_t fd)
{
	int i;
	if (loop_mode) {
		int32_t rr = qb_loop_poll_del(ql, fd);
		for (i = 0; i < MAXPE; i++) if (pe[i].active && pe[i].fd == fd) pe[i].active = 0;
		V("      loop del fd %d -> %d", fd, rr);
		return rr;
	}
	for (i = 0; i < MAXPE; i++) {
		if (pe[i].active && pe[i].fd == fd) {
			pe[i].active = 0;
			return 0;
		}
	}
	return -EBADF;
}

static void ql_stop(void *d) { qb_loop_stop(ql); }

static void step(void)
{
	struct pollfd pf[MAXPE];
	int idx[MAXPE];
	unsigned gens[MAXPE];
	int n = 0, i, r, nj;
	struct job jl[MAXJOB];

	if (loop_mode) {
		qb_loop_timer_handle th;
		qb_loop_timer_add(ql, QB_LOOP_HIGH, 300 * QB_TIME_NS_IN_USEC, NULL, ql_stop, &th);
		qb_loop_run(ql);
		return;
	}
	for (i = 0; i < MAXPE; i++) {
		if (pe[i].active) {
			pf[n].fd = pe[i].fd; pf[n].events = pe[i].events; pf[n].revents = 0;
			idx[n] = i; gens[n] = pe[i].gen; n++;
		}
	}
	r = poll(pf, n, 0);
	if (r > 0) {
		for (i = 0; i < n; i++) {
			struct pent *p = &pe[idx[i]];
			if (!pf[i].revents) continue;
			if (!p->active || p->gen != gens[i]) continue;
			r = p->fn(p->fd, pf[i].revents, p->data);
			if (r < 0 && p->active && p->gen == gens[i]) {
				p->active = 0;
			}
		}
	}
	nj = njobs;
	memcpy(jl, jobs, sizeof(struct job) * nj);
	njobs = 0;
	for (i = 0; i < nj; i++) {
		jl[i].fn(jl[i].data);
	}
}

/* ---------- model ---------- */
struct rec {
	qb_ipcs_connection_t *c;
	int id, svc;
	int accepted, created, nmsgs, closed_calls, closed_ok, destroyed;
	int in_closed, in_cb, in_created, jobfail;
	int app_refs;
	int retries;		/* how many times closed() will still say "again" */
	int rejected;
	int disc_in_created;
	struct rec *next;
};
static struct rec *live, *dead;
static int nrec, nlive;

#define NSVC 2
static struct svc {
	qb_ipcs_service_t *s;
	int gen;
	char name[64];
	enum qb_ipc_type type;
} svc[NSVC];

static struct rec *find(struct rec *l, qb_ipcs_connection_t *c)
{
	for (; l; l = l->next) if (l->c == c) return l;
	return NULL;
}
static struct rec *pick_live(void)
{
	struct rec *r = live;
	int n;
	if (!nlive) return NULL;
	n = rn(nlive);
	while (n-- && r) r = r->next;
	return r;
}

static void job_failed(void *data)
{
	struct rec *r = find(live, data);
	if (r) r->jobfail = 1;
}
static int depth;
static int no_created, no_closed, no_jobadd;
static int maxdepth = 3, actrate = 3, hot;
static void actions(struct rec *self, int where);

enum { W_ACCEPT, W_CREATED, W_MSG, W_CLOSED, W_DESTROYED, W_OUTSIDE };
static const char *wn[] = { "accept", "created", "msg", "closed", "destroyed", "outside" };

static struct rec *check_live(qb_ipcs_connection_t *c, const char *cb)
{
	struct rec *r = find(live, c);
	if (!r) {
		struct rec *d = find(dead, c);
		if (d) {
			VIOL("%s() for connection #%d after its destroyed()", cb, d->id);
		} else {
			VIOL("%s() for unknown connection %p", cb, (void *)c);
		}
	}
	return r;
}

static int32_t cb_accept(qb_ipcs_connection_t *c, uid_t u, gid_t g)
{
	struct rec *r, **pp;
	int rej;
	ncb[0]++;
	if (find(live, c)) {
		VIOL("accept() for a connection that is already known");
		return -EACCES;
	}
	for (pp = &dead; *pp; pp = &(*pp)->next) {
		if ((*pp)->c == c) { r = *pp; *pp = r->next; free(r); break; }
	}
	r = calloc(1, sizeof(*r));
	r->c = c; r->id = ++nrec; r->accepted = 1;
	r->svc = qb_ipcs_service_id_get(c);
	r->retries = rn(4) == 0 ? rn(4) : 0;
	r->next = live; live = r; nlive++;
	rej = rn(8) == 0;
	r->rejected = rej;
	V("  cb accept #%d%s", r->id, rej ? " (reject)" : "");
	r->in_cb++;
	if (rn(3) == 0) {
		qb_ipcs_connection_auth_set(c, getuid(), getgid(), 0600);
	}
	qb_ipcs_context_set(c, r);
	actions(r, W_ACCEPT);
	r->in_cb--;
	return rej ? -EACCES : 0;
}

static void cb_created(qb_ipcs_connection_t *c)
{
	struct rec *r = check_live(c, "created");
	ncb[1]++;
	if (!r) return;
	V("  cb created #%d", r->id);
	if (!r->accepted || r->rejected) VIOL("created() #%d without successful accept", r->id);
	if (r->created) VIOL("created() #%d twice", r->id);
	if (r->closed_calls) VIOL("created() #%d after closed", r->id);
	r->created = 1;
	r->in_cb++;
	r->in_created = 1;
	actions(r, W_CREATED);
	r->in_created = 0;
	r->in_cb--;
}

static int32_t cb_msg(qb_ipcs_connection_t *c, void *data, size_t size)
{
	struct rec *r = check_live(c, "msg_process");
	struct qb_ipc_request_header *h = data;
	int32_t ret = 0;
	ncb[2]++;
	if (!r) return 0;
	V("  cb msg #%d id %d size %zu", r->id, h->id, size);
	if (!r->created && !no_created) VIOL("msg_process() #%d before created", r->id);
	if (r->closed_calls) VIOL("msg_process() #%d after closed", r->id);
	if (size < sizeof(*h) || (size_t)h->size != size) VIOL("msg_process() #%d bad size", r->id);
	r->nmsgs++;
	r->in_cb++;
	actions(r, W_MSG);
	r->in_cb--;
	if (rn(10) == 0) ret = -1;
	return ret;
}

static int32_t cb_closed(qb_ipcs_connection_t *c)
{
	struct rec *r = check_live(c, "closed");
	int32_t ret = 0;
	ncb[3]++;
	if (!r) return 0;
	V("  cb closed #%d (call %d, retries left %d)", r->id, r->closed_calls + 1, r->retries);
	if (!r->created && !no_created) VIOL("closed() #%d without created", r->id);
	if (r->closed_ok) VIOL("closed() #%d again after it returned 0", r->id);
	if (r->in_closed) VIOL("closed() #%d re-entered", r->id);
	r->closed_calls++;
	r->in_closed++;
	r->in_cb++;
	actions(r, W_CLOSED);
	r->in_cb--;
	r->in_closed--;
	if (r->retries > 0) {
		r->retries--;
		ret = -1 - (int)rn(2) * 2 + (int)rn(2) * 10;	/* some non-zero value */
		if (ret == 0) ret = 1;
	} else {
		r->closed_ok = 1;
	}
	V("  cb closed #%d -> %d", r->id, ret);
	return ret;
}

static void cb_destroyed(qb_ipcs_connection_t *c)
{
	struct rec *r = check_live(c, "destroyed"), **pp;
	ncb[4]++;
	if (!r) return;
	V("  cb destroyed #%d", r->id);
	if (r->destroyed) VIOL("destroyed() #%d twice", r->id);
	if (r->app_refs) VIOL("destroyed() #%d while the application holds %d references", r->id, r->app_refs);
	if (r->in_cb) VIOL("destroyed() #%d from inside another callback of the same connection", r->id);
	if (r->closed_calls && !r->closed_ok && !r->jobfail && !no_jobadd)
		VIOL("destroyed() #%d although the last closed() asked to be called again", r->id);
	if (r->created && !r->closed_calls && !r->disc_in_created && !no_closed)
		VIOL("destroyed() #%d: created() ran, closed() never did", r->id);
	if (qb_ipcs_context_get(c) != r) VIOL("destroyed() #%d context lost", r->id);
	{
		int i;
		for (i = 0; i < MAXPE; i++)
			if (pe[i].active && pe[i].data == (void *)c)
				VIOL("destroyed() #%d: dispatch entry for fd %d still registered by the library", r->id, pe[i].fd);
	}
	r->destroyed = 1;
	r->in_cb++;
	actions(r, W_DESTROYED);
	r->in_cb--;
	for (pp = &live; *pp; pp = &(*pp)->next) {
		if (*pp == r) { *pp = r->next; break; }
	}
	nlive--;
	r->next = dead; dead = r;
}

static struct qb_ipcs_service_handlers sh = {
	.connection_accept = cb_accept,
	.connection_created = cb_created,
	.msg_process = cb_msg,
	.connection_closed = cb_closed,
	.connection_destroyed = cb_destroyed,
};
static struct qb_ipcs_poll_handlers ph = {
	.job_add = h_job_add,
	.dispatch_add = h_dispatch_add,
	.dispatch_mod = h_dispatch_mod,
	.dispatch_del = h_dispatch_del,
};

static void svc_start(int i)
{
	static int n;
	int32_t r;
	svc[i].gen = ++n;
	snprintf(svc[i].name, sizeof svc[i].name, "h2c04-%d-%d", getpid(), svc[i].gen);
	svc[i].type = (i == 0) ? QB_IPC_SHM : QB_IPC_SOCKET;
	svc[i].s = qb_ipcs_create(svc[i].name, i, svc[i].type, &sh);
	qb_ipcs_poll_handlers_set(svc[i].s, &ph);
	if (rn(3) == 0) {
		static const uint32_t bs[] = { 0, 1, 4096, 20000, 65536 };
		qb_ipcs_enforce_buffer_size(svc[i].s, bs[rn(5)]);
	}
	r = qb_ipcs_run(svc[i].s);
	if (r != 0) {
		fprintf(stderr, "qb_ipcs_run: %d\n", r);
		svc[i].s = NULL;
	}
	V("svc %d started as %s", i, svc[i].name);
}

static void svc_destroy(int i)
{
	qb_ipcs_service_t *s = svc[i].s;
	if (!s) return;
	svc[i].s = NULL;	/* the application may not use it afterwards */
	{
		struct rec *r;
		for (r = live; r; r = r->next) if (r->in_created && r->svc == i) r->disc_in_created = 1;
	}
	V("  svc %d destroy", i);
	qb_ipcs_destroy(s);
}

static char sbuf[1 << 20];

static void act_send(struct rec *t, int ev)
{
	int32_t bs = qb_ipcs_connection_get_buffer_size(t->c);
	struct qb_ipc_response_header *h = (void *)sbuf;
	size_t sz;
	ssize_t r;
	if (bs < (int32_t)sizeof(*h)) return;
	switch (rn(6)) {
	case 0: sz = sizeof(*h); break;
	case 1: sz = bs; break;
	case 2: sz = (size_t)bs + 1; break;
	default: sz = sizeof(*h) + rn(QB_MIN(bs, 3000)); break;
	}
	if (sz > sizeof sbuf) sz = sizeof sbuf;
	h->id = 77; h->size = sz; h->error = 0;
	if (rn(2)) {
		struct iovec iov[2];
		iov[0].iov_base = sbuf; iov[0].iov_len = sizeof(*h);
		iov[1].iov_base = sbuf + sizeof(*h); iov[1].iov_len = sz - sizeof(*h);
		r = ev ? qb_ipcs_event_sendv(t->c, iov, 2) : qb_ipcs_response_sendv(t->c, iov, 2);
	} else {
		r = ev ? qb_ipcs_event_send(t->c, sbuf, sz) : qb_ipcs_response_send(t->c, sbuf, sz);
	}
	V("    %s send #%d size %zu -> %zd", ev ? "event" : "response", t->id, sz, r);
	if (sz > (size_t)bs && r != -EMSGSIZE) VIOL("oversize send accepted: %zd", r);
}

static void act_iterate(int si, int how)
{
	qb_ipcs_connection_t *c, *n;
	qb_ipcs_service_t *s = svc[si].s;
	int cnt = 0;
	if (!s) return;
	V("    iterate svc %d how %d", si, how);
	for (c = qb_ipcs_connection_first_get(s); c; c = n) {
		struct rec *r = find(live, c);
		if (!r) {
			VIOL("listed connection %p is not a live one", (void *)c);
		} else {
			struct qb_ipcs_connection_stats st;
			qb_ipcs_connection_stats_get(c, &st, rn(2));
		}
		if (how == 1 && rn(3) == 0) {
			if (r && r->in_created) r->disc_in_created = 1;
			qb_ipcs_disconnect(c);
		}
		if (how == 2 && rn(2) == 0) {
			struct rec *o = pick_live();
			if (o && o->in_created) o->disc_in_created = 1;
			if (o) qb_ipcs_disconnect(o->c);
		}
		/* s may be gone after this if a callback destroyed it and c was the last */
		n = svc[si].s ? qb_ipcs_connection_next_get(s, c) : NULL;
		qb_ipcs_connection_unref(c);
		if (++cnt > 10000) { VIOL("connection list does not end"); break; }
	}
}

static void actions(struct rec *self, int where)
{
	int n, k;

	if (depth >= maxdepth) return;
	depth++;
	n = rn(actrate) == 0 ? rn(4 + hot * 3) : 0;
	if (where == W_OUTSIDE) n = 1;
	for (k = 0; k < n; k++) {
		struct rec *t = (self && rn(2)) ? self : pick_live();
		int a = rn(16);
		if (!t) break;
		if (t->destroyed) {
			/* inside its own destroyed(): look, try to send, take and drop, disconnect */
			static const int ok[] = { 0, 7, 9, 12, 14 };
			if (t != self || where != W_DESTROYED) continue;
			a = ok[rn(5)];
		}
		switch (a) {
		case 0: case 1:
			V("    [%s] disconnect #%d", wn[where], t->id);
			if (t->in_created) t->disc_in_created = 1;
			qb_ipcs_disconnect(t->c);
			break;
		case 2: case 3:
			if (t->app_refs < 3) {
				V("    [%s] ref #%d", wn[where], t->id);
				qb_ipcs_connection_ref(t->c);
				t->app_refs++;
			}
			break;
		case 4: case 5: case 6:
			if (t->app_refs > 0) {
				V("    [%s] unref #%d", wn[where], t->id);
				t->app_refs--;
				qb_ipcs_connection_unref(t->c);
			}
			break;
		case 7: case 8:
			act_send(t, 1);
			break;
		case 9:
			act_send(t, 0);
			break;
		case 10:
			act_iterate(rn(NSVC), rn(3));
			break;
		case 11: {
			int si = rn(NSVC);
			static const enum qb_ipcs_rate_limit rl[] = {
				QB_IPCS_RATE_FAST, QB_IPCS_RATE_NORMAL, QB_IPCS_RATE_SLOW,
				QB_IPCS_RATE_OFF, QB_IPCS_RATE_OFF_2 };
			if (svc[si].s) {
				int x = rn(5);
				V("    [%s] rate limit svc %d -> %d", wn[where], si, x);
				qb_ipcs_request_rate_limit(svc[si].s, rl[x]);
			}
			break;
		}
		case 12: {
			struct qb_ipcs_connection_stats_2 *s2 = qb_ipcs_connection_stats_get_2(t->c, rn(2));
			free(s2);
			(void)qb_ipcs_service_id_get(t->c);
			(void)qb_ipcs_connection_service_context_get(t->c);
			break;
		}
		case 13:
			if (rn(6) == 0) {
				int si = rn(NSVC);
				V("    [%s] destroy svc %d", wn[where], si);
				svc_destroy(si);
			}
			break;
		case 14:
			/* take and drop */
			qb_ipcs_connection_ref(t->c);
			qb_ipcs_connection_unref(t->c);
			break;
		case 15:
			if (where != W_OUTSIDE && rn(4) == 0) {
				if (rn(2)) fail_job_add = 1; else fail_dispatch_add = 1 + rn(3);
			}
			break;
		}
		if (self && self->destroyed && where != W_DESTROYED) break;
	}
	depth--;
}

/* ---------- clients ---------- */
struct cli {
	qb_ipcc_connection_t *c;
	int svc, gen, dead, inflight;
};
#define MAXCLI 24
static struct cli cl[MAXCLI];

static void cli_free(struct cli *k)
{
	if (!k->c) return;
	k->c->is_connected = QB_TRUE;	/* avoid the 40ms "is the server gone" wait */
	qb_ipcc_disconnect(k->c);
	k->c = NULL;
}

static void op_connect(void)
{
	int i, fd = -1, si = rn(NSVC), r, tries;
	static const size_t szs[] = { 0, 1, 100, 4096, 12304, 12400, 16384, 40000, 65536, 131072 };
	size_t sz = szs[rn(10)];
	struct cli *k = NULL;
	qb_ipcc_connection_t *c;
	struct pollfd pf;

	for (i = 0; i < MAXCLI; i++) if (!cl[i].c) { k = &cl[i]; break; }
	if (!k || !svc[si].s) return;
	if (svc[si].type == QB_IPC_SOCKET && sz > 65536) sz = 65536;
	c = qb_ipcc_connect_async(svc[si].name, sz, &fd);
	V("op connect svc %d size %zu -> %p", si, sz, (void *)c);
	if (!c) return;
	if (getenv("CLOSE0")) {
		/* leave the low descriptor numbers to the server side */
		int hi = fcntl(fd, F_DUPFD_CLOEXEC, 600);
		if (hi >= 0) { close(fd); fd = hi; c->setup.u.us.sock = hi; }
	}
	if (rn(12) == 0) {
		/* give up before the server has looked at us */
		V("   client gives up early");
		close(fd);
		free(c);
		step(); step();
		return;
	}
	if (rn(12) == 0) {
		/* the server can read our request but not answer it */
		V("   client shuts down its reading side");
		shutdown(fd, SHUT_RD);
		step(); step(); step();
		close(fd);
		free(c);
		return;
	}
	if (rn(8) == 0) {
		/* descriptor exhaustion while the server sets the connection up */
		struct rlimit rl, rl2;
		int lo;
		step();
		lo = open("/dev/null", O_RDONLY);
		if (lo >= 0) close(lo);
		getrlimit(RLIMIT_NOFILE, &rl);
		rl2 = rl;
		rl2.rlim_cur = lo + rn(6);
		V("   fd limit %d", (int)rl2.rlim_cur);
		setrlimit(RLIMIT_NOFILE, &rl2);
		step(); step();
		setrlimit(RLIMIT_NOFILE, &rl);
	}
	for (tries = 0; tries < 20; tries++) {
		step();
		pf.fd = fd; pf.events = POLLIN; pf.revents = 0;
		if (poll(&pf, 1, 0) > 0) break;
	}
	if (rn(12) == 0) {
		V("   client gives up after the server answered");
		close(fd);
		free(c);
		return;
	}
	r = qb_ipcc_connect_continue(c);
	V("   continue -> %d", r);
	if (r != 0) return;	/* c was freed */
	k->c = c; k->svc = si; k->gen = svc[si].gen; k->dead = 0; k->inflight = 0;
}

static char cbuf[1 << 20];
/* a peer that speaks the handshake by hand, in pieces, and never opens the rings */
static void op_raw_client(void)
{
	int si = rn(NSVC), fd, i, on = 1;
	struct sockaddr_un a;
	struct qb_ipc_connection_request rq;
	char *p = (char *)&rq;
	size_t cut;
	if (!svc[si].s) return;
	fd = socket(PF_UNIX, SOCK_STREAM, 0);
	if (fd < 0) return;
	if (getenv("CLOSE0")) { int hi = fcntl(fd, F_DUPFD_CLOEXEC, 600); if (hi >= 0) { close(fd); fd = hi; } }
	memset(&a, 0, sizeof a);
	a.sun_family = AF_UNIX;
	snprintf(a.sun_path + 1, sizeof(a.sun_path) - 1, "%s", svc[si].name);
	if (connect(fd, (struct sockaddr *)&a, QB_SUN_LEN(&a)) != 0) { close(fd); return; }
	fcntl(fd, F_SETFL, O_NONBLOCK);
	setsockopt(fd, SOL_SOCKET, SO_PASSCRED, &on, sizeof on);
	memset(&rq, 0, sizeof rq);
	rq.hdr.id = rn(6) ? QB_IPC_MSG_AUTHENTICATE : (int)rn(5) - 2;
	rq.hdr.size = rn(6) ? sizeof rq : rn(100);
	rq.max_msg_size = rn(3) ? rn(70000) : 0;
	cut = rn(sizeof rq + 1);
	V("op raw client svc %d id %d cut %zu", si, rq.hdr.id, cut);
	if (cut) { if (send(fd, p, cut, MSG_NOSIGNAL) < 0) {} }
	for (i = 0; i < (int)rn(3); i++) step();
	if (rn(6) == 0) { close(fd); step(); return; }
	if (cut < sizeof rq) { if (send(fd, p + cut, sizeof rq - cut, MSG_NOSIGNAL) < 0) {} }
	if (rn(4) == 0) { if (send(fd, cbuf, rn(40), MSG_NOSIGNAL) < 0) {} }	/* trailing bytes */
	for (i = 0; i < 1 + (int)rn(4); i++) step();
	if (rn(3) == 0) { if (send(fd, cbuf, 1 + rn(40), MSG_NOSIGNAL) < 0) {} step(); }
	close(fd);
}

static struct cli *pick_cli(void)
{
	int i, s = rn(MAXCLI);
	for (i = 0; i < MAXCLI; i++) {
		struct cli *k = &cl[(s + i) % MAXCLI];
		if (k->c) return k;
	}
	return NULL;
}

static void op_send(void)
{
	struct cli *k = pick_cli();
	struct qb_ipc_request_header *h = (void *)cbuf;
	size_t sz, bs;
	ssize_t r;
	int n, i;
	if (!k || k->dead) return;
	bs = qb_ipcc_get_buffer_size(k->c);
	n = 1 + (rn(4) == 0 ? rn(8) : 0);
	for (i = 0; i < n; i++) {
		if (k->inflight > 40) break;
		switch (rn(6)) {
		case 0: sz = sizeof(*h); break;
		case 1: sz = bs; break;
		default: sz = sizeof(*h) + rn(QB_MIN(bs - sizeof(*h), 2000)); break;
		}
		h->id = 100 + rn(10);
		h->size = sz;
		if (rn(40) == 0) h->id = QB_IPC_MSG_DISCONNECT;
		if (rn(40) == 0) h->size = sz + 1 + rn(100);	/* lies */
		if (rn(60) == 0) h->size = rn(sizeof(*h));
		if (rn(60) == 0 && sz > 4) sz = 4;		/* runt */
		r = qb_ipcc_send(k->c, cbuf, sz);
		V("op send cli %d size %zu id %d hsize %d -> %zd", (int)(k - cl), sz, h->id, h->size, r);
		if (r == (ssize_t)sz) k->inflight++;
		else break;
	}
}

static void op_recv(void)
{
	struct cli *k = pick_cli();
	ssize_t r;
	int i;
	if (!k || k->dead) return;
	for (i = 0; i < 10; i++) {
		r = qb_ipcc_recv(k->c, cbuf, sizeof cbuf, 0);
		if (r <= 0) break;
	}
	for (i = 0; i < (rn(4) ? 10 : 3000); i++) {
		r = qb_ipcc_event_recv(k->c, cbuf, sizeof cbuf, 0);
		if (r <= 0) break;
	}
	k->inflight = 0;
}

static void op_cli_disconnect(void)
{
	struct cli *k = pick_cli();
	if (!k) return;
	V("op client %d disconnect%s", (int)(k - cl), k->dead ? " (was dead)" : "");
	cli_free(k);
}

static void op_cli_die(void)
{
	struct cli *k = pick_cli();
	if (!k || k->dead) return;
	V("op client %d dies", (int)(k - cl));
	close(k->c->setup.u.us.sock);
	k->c->setup.u.us.sock = -1;
	if (svc[k->svc].type == QB_IPC_SOCKET && rn(2)) {
		close(k->c->request.u.us.sock);
		k->c->request.u.us.sock = -1;
		k->c->response.u.us.sock = -1;
	}
	k->dead = 1;
}

static void clean_shm(void)
{
	DIR *d = opendir("/dev/shm");
	struct dirent *e;
	char pfx[64], cmd[512];
	snprintf(pfx, sizeof pfx, "qb-%d-", getpid());
	if (!d) return;
	while ((e = readdir(d))) {
		if (strncmp(e->d_name, pfx, strlen(pfx)) == 0) {
			snprintf(cmd, sizeof cmd, "rm -rf /dev/shm/%s", e->d_name);
			if (system(cmd)) {}
		}
	}
	closedir(d);
}

int main(int argc, char **argv)
{
	unsigned long seed = argc > 1 ? strtoul(argv[1], NULL, 0) : 1;
	unsigned long nops = argc > 2 ? strtoul(argv[2], NULL, 0) : 10000, op;
	int i, rounds;
	struct rec *r;

	loop_mode = argc > 3 ? atoi(argv[3]) : 0;
	verbose = argc > 4 ? atoi(argv[4]) : 0;
	rs = seed * 0x9E3779B97F4A7C15ull + 12345;
	signal(SIGPIPE, SIG_IGN);
	if (loop_mode) ql = qb_loop_create();
	if (getenv("QBLOG")) {
		qb_log_init("fuzz", LOG_USER, LOG_EMERG);
		qb_log_ctl(QB_LOG_SYSLOG, QB_LOG_CONF_ENABLED, QB_FALSE);
		qb_log_filter_ctl(QB_LOG_STDERR, QB_LOG_FILTER_ADD, QB_LOG_FILTER_FILE, "*", LOG_TRACE);
		qb_log_ctl(QB_LOG_STDERR, QB_LOG_CONF_ENABLED, QB_TRUE);
	}

	if (getenv("HOT")) { hot = 1; maxdepth = 5; actrate = 1; }
	if (getenv("NOCB")) {
		int m = atoi(getenv("NOCB"));
		if (m & 1) { sh.connection_created = NULL; no_created = 1; }
		if (m & 2) { sh.connection_closed = NULL; no_closed = 1; }
		if (m & 4) { ph.job_add = NULL; no_jobadd = 1; }
	}
	if (getenv("CLOSE0") && atoi(getenv("CLOSE0")) == 1) close(0);
	for (i = 0; i < NSVC; i++) svc_start(i);
	if (getenv("CLOSE0") && atoi(getenv("CLOSE0")) == 2) close(0);

	for (op = 0; op < nops; op++) {
		int o = rn(100);
		fail_dispatch_add = 0; fail_job_add = 0;
		if (o < 12) op_connect();
		else if (o < 14) op_raw_client();
		else if (o < 40) op_send();
		else if (o < 48) op_recv();
		else if (o < 54) op_cli_disconnect();
		else if (o < 58) op_cli_die();
		else if (o < 80) { V("op step"); step(); }
		else if (o < 92) { depth = 0; V("op outside action"); actions(NULL, W_OUTSIDE); }
		else if (o < 93 && rn(4) == 0) {
			/* event flood: fills the notification socket, POLLOUT path */
			struct rec *t = NULL;
			int tr;
			for (tr = 0; tr < 20; tr++) {
				t = pick_live();
				if (t && t->created && !t->closed_calls && !t->destroyed) break;
				t = NULL;
			}
			if (t) {
				struct qb_ipc_response_header h = { .id = 5, .size = sizeof h };
				int k, n = 200 + rn(1500);
				ssize_t r = 0;
				V("op flood #%d with %d events", t->id, n);
				for (k = 0; k < n; k++) {
					r = qb_ipcs_event_send(t->c, &h, sizeof h);
					if (r < 0 && r != -EAGAIN) break;
				}
				V("   last -> %zd", r);
			}
		} else if (o < 93) {
			int si = rn(NSVC);
			if (svc[si].s && rn(3) == 0) { V("op destroy svc %d", si); svc_destroy(si); }
		} else {
			for (i = 0; i < NSVC; i++) if (!svc[i].s && rn(2)) svc_start(i);
		}
	}

	/* teardown: everything the property promises must have happened */
	V("teardown");
	fail_dispatch_add = 0; fail_job_add = 0;
	depth = 100;	/* no more random actions from callbacks */
	for (i = 0; i < MAXCLI; i++) cli_free(&cl[i]);
	for (rounds = 0; rounds < 10; rounds++) step();
	for (i = 0; i < NSVC; i++) svc_destroy(i);
	for (r = live; r; ) {
		struct rec *nx = r->next;
		/* dropping may destroy r and others: restart from the head */
		if (r->app_refs > 0) {
			r->app_refs--;
			qb_ipcs_connection_unref(r->c);
			r = live;
			continue;
		}
		r = nx;
	}
	for (rounds = 0; rounds < 20; rounds++) step();
	for (r = live; r; r = r->next) {
		VIOL("connection #%d never destroyed (accepted %d rejected %d created %d closed_calls %d closed_ok %d refs %d)",
		     r->id, r->accepted, r->rejected, r->created, r->closed_calls, r->closed_ok, r->app_refs);
	}
	if (!loop_mode) {
		for (i = 0; i < MAXPE; i++) {
			if (pe[i].active) VIOL("poll entry for fd %d left behind (data %p)", pe[i].fd, pe[i].data);
		}
	}
	clean_shm();
	fprintf(stderr, "seed %lu mode %d: ops %lu conns %d callbacks a/c/m/cl/d %lu/%lu/%lu/%lu/%lu violations %lu pollout %lu\n",
		seed, loop_mode, nops, nrec, ncb[0], ncb[1], ncb[2], ncb[3], ncb[4], nviol, npollout);
	return nviol ? 1 : 0;
}
