/*
 * C04 finding 1: a shared-memory connection whose setup socket is descriptor 0
 * is never taken out of the main loop nor closed by qb_ipcs_disconnect();
 * once the connection is destroyed the loop still dispatches to the freed
 * connection (use after free in qb_ipcs_dispatch_connection_request()).
 *
 * Public API only; server and client live in one thread (async connect).
 * exit 0 = property held, 1 = violated (callback-order check or stale poll
 * entry), ASan abort = use after free.
 */
#include <stdio.h>
#include <stdlib.h>
#include <string.h>
#include <unistd.h>
#include <errno.h>
#include <poll.h>
#include <signal.h>
#include <qb/qbdefs.h>
#include <qb/qbloop.h>
#include <qb/qbipcs.h>
#include <qb/qbipcc.h>

static qb_loop_t *l;
static qb_ipcs_connection_t *conn;
static int destroyed, after_destroyed, dispatched_after;
static int conn_fd = -1;

/* poll handlers: plain qb_loop, but remember what was asked for */
static int registered_fd0;
static int32_t my_job_add(enum qb_loop_priority p, void *d, qb_loop_job_dispatch_fn fn)
{ return qb_loop_job_add(l, p, d, fn); }
static int32_t my_add(enum qb_loop_priority p, int32_t fd, int32_t ev, void *d, qb_ipcs_dispatch_fn_t fn)
{
	if (fd == 0) registered_fd0 = 1;
	return qb_loop_poll_add(l, p, fd, ev, d, fn);
}
static int32_t my_mod(enum qb_loop_priority p, int32_t fd, int32_t ev, void *d, qb_ipcs_dispatch_fn_t fn)
{ return qb_loop_poll_mod(l, p, fd, ev, d, fn); }
static int32_t my_del(int32_t fd)
{
	if (fd == 0) registered_fd0 = 0;
	return qb_loop_poll_del(l, fd);
}

static int32_t cb_accept(qb_ipcs_connection_t *c, uid_t u, gid_t g) { return 0; }
static void cb_created(qb_ipcs_connection_t *c) { conn = c; }
static int32_t cb_msg(qb_ipcs_connection_t *c, void *d, size_t s)
{
	if (destroyed) { after_destroyed++; }
	return 0;
}
static int32_t cb_closed(qb_ipcs_connection_t *c) { return 0; }
static void cb_destroyed(qb_ipcs_connection_t *c) { destroyed++; conn = NULL; }

static void stop(void *d) { qb_loop_stop(l); }
static void step(void)
{
	qb_loop_timer_handle th;
	qb_loop_timer_add(l, QB_LOOP_HIGH, 2 * QB_TIME_NS_IN_MSEC, NULL, stop, &th);
	qb_loop_run(l);
}

int main(void)
{
	struct qb_ipcs_service_handlers sh = { cb_accept, cb_created, cb_msg, cb_closed, cb_destroyed };
	struct qb_ipcs_poll_handlers ph = { my_job_add, my_add, my_mod, my_del };
	qb_ipcs_service_t *s;
	qb_ipcc_connection_t *c;
	char name[64];
	int fd = -1, i;

	signal(SIGPIPE, SIG_IGN);
	l = qb_loop_create();
	snprintf(name, sizeof name, "h2c04f1-%d", getpid());
	s = qb_ipcs_create(name, 0, getenv("DEMO_SOCKET") ? QB_IPC_SOCKET : QB_IPC_SHM, &sh);
	qb_ipcs_poll_handlers_set(s, &ph);
	if (qb_ipcs_run(s) != 0) { fprintf(stderr, "run failed\n"); return 2; }

	/* the client's connect() is queued on the listening socket; a daemon
	 * that has closed its stdin gets descriptor 0 from accept() */
	c = qb_ipcc_connect_async(name, 8192, &fd);
	if (!c) { fprintf(stderr, "connect failed\n"); return 2; }
	close(0);
	for (i = 0; i < 5; i++) step();
	if (qb_ipcc_connect_continue(c) != 0) { fprintf(stderr, "continue failed\n"); return 2; }
	if (!conn) { fprintf(stderr, "no connection\n"); return 2; }
	fprintf(stderr, "connection established, loop has fd 0 registered: %d\n", registered_fd0);
	if (!registered_fd0) { fprintf(stderr, "setup: did not get fd 0, cannot test\n"); return 0; }

	/* server-initiated disconnect, outside of any callback */
	qb_ipcs_disconnect(conn);
	fprintf(stderr, "after qb_ipcs_disconnect(): destroyed=%d, fd 0 still registered: %d\n",
		destroyed, registered_fd0);

	/* the client notices and hangs up: the HUP on descriptor 0 wakes up the
	 * loop entry that still points at the freed connection */
	qb_ipcc_disconnect(c);
	c = NULL;
	for (i = 0; i < 3; i++) step();

	if (destroyed != 1) { fprintf(stderr, "VIOLATION: destroyed %d times\n", destroyed); return 1; }
	if (after_destroyed) { fprintf(stderr, "VIOLATION: msg_process() after destroyed()\n"); return 1; }
	if (registered_fd0) { fprintf(stderr, "VIOLATION: dispatch entry of the destroyed connection is still registered\n"); return 1; }
	qb_ipcs_destroy(s);
	fprintf(stderr, "OK\n");
	return 0;
}
