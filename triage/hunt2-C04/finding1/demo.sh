#!/bin/sh
# usage: demo.sh <tree>    exit 0 = property held, non-zero = violated
T=${1:-/repo}
D=$(cd "$(dirname "$0")" && pwd)
SRC="$T/lib/ipcs.c $T/lib/ipc_setup.c $T/lib/ipc_shm.c $T/lib/ipc_socket.c $T/lib/ipcc.c $T/lib/loop.c $T/lib/loop_poll.c $T/lib/loop_poll_epoll.c $T/lib/loop_job.c $T/lib/loop_timerlist.c $T/lib/unix.c $T/lib/ringbuffer.c $T/lib/ringbuffer_helper.c $T/lib/array.c"
gcc -g -O1 -w -fno-omit-frame-pointer -fsanitize=address,undefined -fno-sanitize=alignment -DHAVE_CONFIG_H \
  -I$T/include -I$T/include/qb -I$T/lib -I$T -o $D/demo $D/demo.c $SRC -L$T/lib/.libs -lqb -lpthread -ldl || exit 2
LD_LIBRARY_PATH=$T/lib/.libs ASAN_OPTIONS=detect_leaks=0 $D/demo
rc=$?
rm -rf /dev/shm/qb-*h2c04f1* 2>/dev/null
exit $rc
