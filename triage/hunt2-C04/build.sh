#!/bin/sh
# usage: build.sh [tree]   (default /repo) -> ./fuzz (ASan+UBSan)
T=${1:-/repo}
cd "$(dirname "$0")"
SRC="$T/lib/ipcs.c $T/lib/ipc_setup.c $T/lib/ipc_shm.c $T/lib/ipc_socket.c $T/lib/ipcc.c $T/lib/loop.c $T/lib/loop_poll.c $T/lib/loop_poll_epoll.c $T/lib/loop_job.c $T/lib/loop_timerlist.c $T/lib/unix.c $T/lib/ringbuffer.c $T/lib/ringbuffer_helper.c $T/lib/array.c"
gcc -g -O1 -fno-omit-frame-pointer -fsanitize=address,undefined -fno-sanitize=alignment -DHAVE_CONFIG_H \
  -I$T/include -I$T/include/qb -I$T/lib -I$T \
  -o ${OUT:-fuzz} ${MAIN:-fuzz.c} $SRC -L$T/lib/.libs -lqb -lpthread -ldl 2>&1 | grep -v "warning\|note:\|^\s" | head -30
