#!/bin/sh
# usage: demo.sh <tree>    exit 0 = property held, non-zero = violated
T=${1:-/repo}
D=$(cd "$(dirname "$0")" && pwd)
B=$(mktemp -d /tmp/hunt-C20-demo.XXXXXX)
trap 'rm -rf "$B"' EXIT
gcc -g -O1 -fno-omit-frame-pointer -fsanitize=address,undefined \
    -DHAVE_CONFIG_H -I$T/include -I$T/include/qb -I$T/lib \
    -o $B/demo $D/demo.c $T/lib/hdb.c $T/lib/array.c \
    -L$T/lib/.libs -lqb -lpthread || exit 99
LD_LIBRARY_PATH=$T/lib/.libs ASAN_OPTIONS=allocator_may_return_null=1:detect_leaks=0 $B/demo
