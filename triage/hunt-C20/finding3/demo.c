/*
 * C20 finding 3: a destroyed handle becomes valid again after slot reuse.
 * The only thing that distinguishes the successive occupants of a slot is
 * a 31-bit value taken from random(); nothing prevents the same value from
 * being drawn again for the same slot.  With the default (unseeded) glibc
 * random() sequence the 15358th draw equals the 8957th, so a plain
 * create/destroy loop on one slot deterministically re-issues an old handle
 * value; the stale copy then resolves to the new, unrelated object.
 */
#include <stdio.h>
#include <stdlib.h>
#include <string.h>
#include <qb/qbdefs.h>
#include <qb/qbhdb.h>

#define N 300000
static qb_handle_t hist[N];
static int dtor_calls;
static void dtor(void *inst) { (void)inst; dtor_calls++; }

int main(void)
{
	struct qb_hdb hdb;
	int i, j, rc, bad = 0;

	qb_hdb_create(&hdb);
	hdb.destructor = dtor;
	for (i = 0; i < N && !bad; i++) {
		void *inst, *inst2 = NULL;
		qb_handle_t h;
		rc = qb_hdb_handle_create(&hdb, sizeof(int), &h);
		if (rc != 0) { printf("create failed %d\n", rc); return 2; }
		hist[i] = h;
		for (j = 0; j < i; j++) {
			if (hist[j] != h)
				continue;
			/* hist[j] was destroyed (i-j) generations ago */
			qb_hdb_handle_get(&hdb, h, &inst);
			*(int *)inst = i;
			qb_hdb_handle_put(&hdb, h);
			rc = qb_hdb_handle_get(&hdb, hist[j], &inst2);
			printf("cycle %d: create returned %llx, the value of the handle created in cycle %d and destroyed since\n",
			       i, (unsigned long long)h, j);
			printf("get(stale copy from cycle %d) rc=%d -> object of cycle %d\n",
			       j, rc, rc == 0 ? *(int *)inst2 : -1);
			if (rc == 0) {
				qb_hdb_handle_put(&hdb, hist[j]);
				printf("VIOLATION: destroyed handle is valid again after its slot was reused\n");
				bad = 1;
			}
			break;
		}
		rc = qb_hdb_handle_destroy(&hdb, h);
		if (rc != 0) { printf("destroy failed %d\n", rc); return 2; }
	}
	printf("%d create/destroy cycles on slot 0, destructor calls %d\n", i, dtor_calls);
	qb_hdb_destroy(&hdb);
	printf(bad ? "RESULT: property violated\n" : "RESULT: property held\n");
	return bad;
}
