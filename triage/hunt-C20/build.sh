#!/bin/sh
# usage: build.sh [tree]   (default /repo) - builds ./fuzz (ASan+UBSan)
set -e
T=${1:-/repo}
cd "$(dirname "$0")"
gcc -g -O1 -fno-omit-frame-pointer -fsanitize=address,undefined -fno-sanitize-recover=undefined \
    -DHAVE_CONFIG_H -I$T/include -I$T/include/qb -I$T/lib \
    -o fuzz fuzz.c $T/lib/hdb.c $T/lib/array.c \
    -L$T/lib/.libs -lqb -lpthread
echo "built: run with LD_LIBRARY_PATH=$T/lib/.libs ASAN_OPTIONS=allocator_may_return_null=1 ./fuzz -s 1"
