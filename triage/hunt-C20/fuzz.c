/*
 * Model-based randomized tester for libqb's handle database (lib/hdb.c).
 *
 * Reference model (what property C20 promises):
 *   - every created object has: handle value, instance pointer, state
 *     LIVE / PENDING (destroy called, references outstanding) / DEAD,
 *     outstanding = gets - puts, destructor call count.
 *   - reported refcount == 1 + gets - puts while LIVE, and gets - puts while
 *     PENDING (destroy dropped the creation reference).
 *   - get on LIVE: 0 + the object's instance; get on PENDING/DEAD/never
 *     issued: < 0 and *instance == NULL.
 *   - put of an outstanding reference always succeeds; the destructor runs
 *     exactly once, exactly when the count reaches 0.
 *   - any operation on a DEAD or never-issued handle value is refused (< 0)
 *     and changes nothing - also after the slot has been reused.
 *   - a second destroy on a PENDING object must not take away a reference it
 *     does not own (return value not constrained; the count must not change).
 *   - iteration visits exactly the LIVE objects.
 *
 * The tester never over-puts (put without a matching get) - that would be
 * API misuse.
 *
 * usage: fuzz [-s seed] [-n ops] [-m maxobjs] [-D] [-Z] [-N] [-R] [-C] [-v]
 *   -D  do not issue destroy on PENDING objects (skip "double destroy")
 *   -Z  do not issue never-issued handles with check == 0
 *   -N  do not issue "nocheck" (check == 0xffffffff) handle values
 *   -R  let the destructor re-enter the hdb API
 *   -C  force check collisions: srandom(const) before each create (shows the
 *       32-bit-check limitation; off by default)
 *   -F  inject failing creates (instance_size < 0 -> ENOMEM)
 *   -K  do not report a new handle having the same 64-bit value as a
 *       destroyed one (31-bit random check collision); count them instead
 */
#include <stdio.h>
#include <stdlib.h>
#include <string.h>
#include <errno.h>
#include <unistd.h>
#include <qb/qbdefs.h>
#include <qb/qbhdb.h>

enum st { LIVE, PENDING, DEAD };

struct obj {
	qb_handle_t h;
	void *inst;
	int size;
	enum st st;
	int outstanding;	/* gets - puts */
	int dtor_calls;
	int aliased;	/* DEAD, and its handle value was issued again (-K) */
};

#define MAXOBJ 400000
static struct obj objs[MAXOBJ];
static int nobj;
/* indices of objects that are not DEAD (kept small), and a hash of every
 * handle value ever issued -> latest object index */
static int undead[MAXOBJ];
static int nundead;
#define HSZ (1u << 21)
static int htab[HSZ];	/* object index + 1 */
static unsigned hslot(qb_handle_t h) { return (unsigned)((h * 0x9E3779B97F4A7C15ULL) >> 43) & (HSZ - 1); }
static int issued_lookup(qb_handle_t h)
{
	unsigned i = hslot(h);
	while (htab[i]) {
		if (objs[htab[i] - 1].h == h)
			return htab[i] - 1;
		i = (i + 1) & (HSZ - 1);
	}
	return -1;
}
static void issued_add(int idx)
{
	unsigned i = hslot(objs[idx].h);
	while (htab[i] && objs[htab[i] - 1].h != objs[idx].h)
		i = (i + 1) & (HSZ - 1);
	htab[i] = idx + 1;
}
static void undead_add(int idx) { undead[nundead++] = idx; }
static void undead_gc(void)
{
	int i, j = 0;
	for (i = 0; i < nundead; i++)
		if (objs[undead[i]].st != 2 /* DEAD */)
			undead[j++] = undead[i];
	nundead = j;
}
static int slot_busy_by_undead(uint32_t slot)
{
	int i;
	for (i = 0; i < nundead; i++)
		if (objs[undead[i]].st != 2 && (uint32_t)(objs[undead[i]].h & 0xffffffffu) == slot)
			return 1;
	return 0;
}
static struct qb_hdb hdb;
static int verbose;
static long opno;
static int failures;
static int opt_reenter;
static int opt_ignore_collision;
static long collisions;
static unsigned rnd(unsigned n);
static int maxlive = 50;
static unsigned long dtor_unknown;
static void *expect_dtor_inst;	/* instance whose destructor is legal now */
static int in_dtor;

#define FAIL(...) do { \
	printf("VIOLATION op#%ld: ", opno); printf(__VA_ARGS__); printf("\n"); \
	failures++; \
	if (failures > 20) { printf("too many failures\n"); exit(1); } \
} while (0)
#define LOG(...) do { if (verbose) { printf("op#%ld ", opno); printf(__VA_ARGS__); printf("\n"); } } while (0)

static struct obj *find_by_inst(void *p)
{
	int i;
	for (i = nundead - 1; i >= 0; i--) {
		struct obj *o = &objs[undead[i]];
		if (o->st != DEAD && o->inst == p)
			return o;
	}
	return NULL;
}

static void dtor(void *inst)
{
	struct obj *o = find_by_inst(inst);

	if (o == NULL) {
		dtor_unknown++;
		FAIL("destructor called with %p which is not the instance of any undestroyed object", inst);
		return;
	}
	o->dtor_calls++;
	if (o->dtor_calls > 1)
		FAIL("destructor ran %d times for object %d", o->dtor_calls, (int)(o - objs));
	if (inst != expect_dtor_inst)
		FAIL("destructor ran for object %d (h=%llx) while model count is %d (state %d): not at count==0",
		     (int)(o - objs), (unsigned long long)o->h,
		     (o->st == LIVE) + o->outstanding, o->st);
	if (o->size >= 4 && memcmp(inst, "\0\0\0\0", 4) == 0 && 0)
		;
	if (opt_reenter && !in_dtor) {
		/* re-enter: everything on the dying handle must be refused
		 * or harmless; creating a new object must work */
		void *p = (void *)1;
		qb_handle_t nh;
		int rc;
		in_dtor = 1;
		rc = qb_hdb_handle_get(&hdb, o->h, &p);
		if (rc == 0 || p != NULL)
			FAIL("get inside destructor of the dying handle succeeded rc=%d p=%p", rc, p);
		rc = qb_hdb_handle_refcount_get(&hdb, o->h);
		if (rc > 0)
			FAIL("refcount inside destructor = %d", rc);
		if (nobj < MAXOBJ && nundead < 2 * maxlive + 8 && rnd(2)) {
			rc = qb_hdb_handle_create(&hdb, 8, &nh);
			if (rc != 0) {
				FAIL("create inside destructor failed %d", rc);
			} else {
				struct obj *n = &objs[nobj++];
				void *q;
				memset(n, 0, sizeof(*n));
				n->h = nh;
				n->size = 8;
				n->st = LIVE;
				{
					int k = issued_lookup(nh);
					if (k >= 0) {
						collisions++;
						if (objs[k].st == DEAD && opt_ignore_collision)
							objs[k].aliased = 1;
						else
							FAIL("create inside destructor returned the already issued handle value %llx (object %d, state %d)",
							     (unsigned long long)nh, k, objs[k].st);
					}
				}
				issued_add(nobj - 1);
				undead_add(nobj - 1);
				if (qb_hdb_base_convert(nh) == qb_hdb_base_convert(o->h))
					FAIL("create inside destructor reused the slot being destroyed");
				rc = qb_hdb_handle_get(&hdb, nh, &q);
				if (rc != 0)
					FAIL("get of handle created in destructor failed");
				n->inst = q;
				if (q)
					memset(q, 0xA5, 8);
				qb_hdb_handle_put(&hdb, nh);
			}
		}
		in_dtor = 0;
	}
}

static unsigned rnd(unsigned n)
{
	/* own PRNG so that we do not disturb random() used by hdb */
	static unsigned long long s;
	static int init;
	extern unsigned long long fuzz_seed;
	if (!init) { s = fuzz_seed * 2862933555777941757ULL + 3037000493ULL; init = 1; }
	s ^= s << 13; s ^= s >> 7; s ^= s << 17;
	return (unsigned)((s >> 11) % n);
}
unsigned long long fuzz_seed = 1;

static void check_dead_after(struct obj *o, const char *what)
{
	/* called when model says the object reached zero */
	if (o->dtor_calls != 1)
		FAIL("%s: count reached 0 for object %d but destructor calls = %d", what, (int)(o - objs), o->dtor_calls);
	o->st = DEAD;
}

static void do_put_counted(struct obj *o, qb_handle_t hv, const char *what)
{
	/* o has outstanding > 0 */
	int will_die = (o->st == PENDING && o->outstanding == 1);
	int before = o->dtor_calls;
	int rc;

	expect_dtor_inst = will_die ? o->inst : NULL;
	rc = qb_hdb_handle_put(&hdb, hv);
	expect_dtor_inst = NULL;
	LOG("%s put(%llx) = %d", what, (unsigned long long)hv, rc);
	if (rc != 0) {
		FAIL("%s: put of an outstanding reference refused: rc=%d (obj %d state %d outstanding %d)",
		     what, rc, (int)(o - objs), o->st, o->outstanding);
		/* model: reference is lost; keep model consistent with the property anyway */
	}
	o->outstanding--;
	if (will_die)
		check_dead_after(o, what);
	else if (o->dtor_calls != before)
		FAIL("%s: destructor ran during a put that does not reach zero", what);
}

static void op_create(int fail_inject)
{
	qb_handle_t h = 0xdeadbeefcafef00dULL;
	static const int sizes[] = { 0, 1, 4, 7, 8, 16, 24, 100, 4096, 65536 };
	int size = sizes[rnd(sizeof(sizes) / sizeof(sizes[0]))];
	int rc, i;
	struct obj *o;
	void *p;

	if (nobj >= MAXOBJ)
		return;
	if (fail_inject)
		size = -1 - (int)rnd(3);
	rc = qb_hdb_handle_create(&hdb, size, &h);
	LOG("create(%d) = %d h=%llx", size, rc, (unsigned long long)h);
	if (fail_inject) {
		if (rc == 0)
			FAIL("create with negative size succeeded");
		return;
	}
	if (rc != 0) {
		FAIL("create failed rc=%d", rc);
		return;
	}
	/* the new handle value must differ from every handle value ever issued */
	i = issued_lookup(h);
	if (i >= 0) {
		collisions++;
		if (objs[i].st == DEAD && opt_ignore_collision)
			objs[i].aliased = 1;
		else if (objs[i].st == DEAD)
			FAIL("create returned handle value %llx equal to that of destroyed object %d: the stale copy becomes valid again",
			     (unsigned long long)h, i);
		else
			FAIL("create returned handle value %llx of undestroyed object %d",
			     (unsigned long long)h, i);
	}
	if (slot_busy_by_undead(qb_hdb_base_convert(h)))
		FAIL("create reused slot %u of an undestroyed object", qb_hdb_base_convert(h));
	o = &objs[nobj++];
	memset(o, 0, sizeof(*o));
	o->h = h;
	o->size = size;
	o->st = LIVE;
	issued_add(nobj - 1);
	undead_add(nobj - 1);
	/* learn instance pointer through a get/put pair */
	rc = qb_hdb_handle_get(&hdb, h, &p);
	if (rc != 0 || p == NULL) {
		FAIL("get right after create failed rc=%d p=%p", rc, p);
		return;
	}
	o->inst = p;
	for (i = 0; i < size && i < 64; i++)
		if (((char *)p)[i] != 0)
			FAIL("new instance not zeroed");
	if (size > 0)
		memset(p, 0xA5, size);
	o->outstanding = 1;
	do_put_counted(o, h, "create-probe");
}

static struct obj *pick(int want_mask)
{
	/* pick random object whose state bit is in want_mask; bias to recent */
	int tries;
	if (nobj == 0)
		return NULL;
	if (!(want_mask & (1 << DEAD)) || rnd(2)) {
		for (tries = 0; tries < 10 && nundead; tries++) {
			struct obj *o = &objs[undead[rnd(nundead)]];
			if (want_mask & (1 << o->st))
				return o;
		}
		if (!(want_mask & (1 << DEAD)))
			return NULL;
	}
	for (tries = 0; tries < 40; tries++) {
		int i;
		if (rnd(2) && nobj > 64)
			i = nobj - 1 - rnd(64);
		else
			i = rnd(nobj);
		if ((want_mask & (1 << objs[i].st)) && !objs[i].aliased)
			return &objs[i];
	}
	return NULL;
}

static void check_instance_intact(struct obj *o)
{
	int i;
	for (i = 0; i < o->size && i < 64; i++)
		if (((unsigned char *)o->inst)[i] != 0xA5) {
			FAIL("instance memory of object %d changed", (int)(o - objs));
			return;
		}
}

static void op_get(struct obj *o, qb_handle_t hv, int via_nocheck)
{
	void *p = (void *)1;
	int rc = qb_hdb_handle_get(&hdb, hv, &p);
	LOG("get(%llx) obj %d st %d = %d", (unsigned long long)hv, (int)(o - objs), o->st, rc);
	if (o->st == LIVE) {
		if (rc != 0 || p != o->inst) {
			FAIL("get on live object %d: rc=%d p=%p expected %p", (int)(o - objs), rc, p, o->inst);
			return;
		}
		o->outstanding++;
		check_instance_intact(o);
	} else {
		if (rc == 0) {
			struct obj *w = find_by_inst(p);
			FAIL("get on %s handle %llx%s succeeded (resolves to %s object %d)",
			     o->st == DEAD ? "destroyed(dead)" : "destroy-pending",
			     (unsigned long long)hv, via_nocheck ? " [nocheck copy]" : "",
			     w ? "other" : "unknown", w ? (int)(w - objs) : -1);
			if (w && w->st == LIVE) {
				/* undo so that the run can go on */
				w->outstanding++;
				do_put_counted(w, w->h, "undo");
			} else if (w && w == o) {
				o->outstanding++;
			}
		} else if (p != NULL) {
			FAIL("failed get left *instance = %p", p);
		}
	}
}

static void op_refcount(struct obj *o, qb_handle_t hv)
{
	int rc = qb_hdb_handle_refcount_get(&hdb, hv);
	int expect = (o->st == LIVE) + o->outstanding;
	LOG("refcount(%llx) = %d", (unsigned long long)hv, rc);
	if (o->st == DEAD) {
		if (rc >= 0)
			FAIL("refcount on dead handle %llx accepted: %d", (unsigned long long)hv, rc);
	} else if (rc != expect) {
		FAIL("refcount of object %d (state %d) = %d, model says %d", (int)(o - objs), o->st, rc, expect);
	}
}

static void op_destroy(struct obj *o, qb_handle_t hv)
{
	int rc;
	int before = o->dtor_calls;

	if (o->st == LIVE) {
		int will_die = (o->outstanding == 0);
		expect_dtor_inst = will_die ? o->inst : NULL;
		rc = qb_hdb_handle_destroy(&hdb, hv);
		expect_dtor_inst = NULL;
		LOG("destroy(%llx) live obj %d = %d", (unsigned long long)hv, (int)(o - objs), rc);
		if (rc != 0)
			FAIL("destroy of live object refused rc=%d", rc);
		o->st = PENDING;
		if (will_die)
			check_dead_after(o, "destroy");
		else if (o->dtor_calls != before)
			FAIL("destructor ran in destroy with %d outstanding references", o->outstanding);
	} else if (o->st == PENDING) {
		/* already destroyed, references outstanding: must not drop any */
		rc = qb_hdb_handle_destroy(&hdb, hv);
		LOG("destroy(%llx) AGAIN on pending obj %d = %d", (unsigned long long)hv, (int)(o - objs), rc);
		if (o->dtor_calls != before) {
			FAIL("second destroy (rc=%d) ran the destructor of object %d with %d outstanding reference(s)",
			     rc, (int)(o - objs), o->outstanding);
			/* library freed it: the model cannot continue with this object */
			o->st = DEAD;
			o->outstanding = 0;
			return;
		}
		rc = qb_hdb_handle_refcount_get(&hdb, hv);
		if (rc != o->outstanding) {
			FAIL("second destroy changed the count of object %d: now %d, model %d (gets-puts)",
			     (int)(o - objs), rc, o->outstanding);
			/* resync: library dropped one reference */
			if (rc >= 0 && rc < o->outstanding)
				o->outstanding = rc;
		}
	} else {
		rc = qb_hdb_handle_destroy(&hdb, hv);
		LOG("destroy(%llx) dead = %d", (unsigned long long)hv, rc);
		if (rc >= 0)
			FAIL("destroy on dead handle %llx accepted rc=%d", (unsigned long long)hv, rc);
	}
}

static void op_put_dead(struct obj *o, qb_handle_t hv)
{
	int rc = qb_hdb_handle_put(&hdb, hv);
	LOG("put(%llx) dead = %d", (unsigned long long)hv, rc);
	if (rc >= 0)
		FAIL("put on dead handle %llx accepted rc=%d", (unsigned long long)hv, rc);
}

static void op_iterate(int mutate)
{
	static unsigned *seen_ep;
	static unsigned epoch;
	void *p;
	qb_handle_t h;
	int i, rc, count = 0, live = 0;

	if (!seen_ep)
		seen_ep = calloc(MAXOBJ, sizeof(unsigned));
	epoch++;
#define seen_get(k) (seen_ep[k] == epoch)
#define seen_set(k) (seen_ep[k] = epoch)
	qb_hdb_iterator_reset(&hdb);
	while ((rc = qb_hdb_iterator_next(&hdb, &p, &h)) == 0) {
		struct obj *o = NULL;
		i = issued_lookup(h);
		if (i >= 0 && objs[i].st != DEAD)
			o = &objs[i];
		count++;
		if (o == NULL) {
			FAIL("iterator returned handle %llx inst %p that belongs to no undestroyed object", (unsigned long long)h, p);
			continue;
		}
		if (o->st != LIVE)
			FAIL("iterator visited destroy-pending object %d", (int)(o - objs));
		if (p != o->inst)
			FAIL("iterator instance mismatch");
		if (seen_get(o - objs))
			FAIL("iterator visited object %d twice", (int)(o - objs));
		seen_set(o - objs);
		if (o->st == LIVE)
			o->outstanding++;
		if (mutate && rnd(4) == 0 && o->st == LIVE) {
			/* destroy the element being visited, then put */
			op_destroy(o, o->h);
		}
		if (mutate && rnd(8) == 0 && nundead < 2 * maxlive + 8)
			op_create(0);	/* may reuse earlier slots or grow: new objects may or may not be visited */
		if (o->outstanding > 0 && o->st != DEAD)
			do_put_counted(o, h, "iter");
	}
	for (i = 0; i < nundead; i++) {
		int k = undead[i];
		if (objs[k].st == LIVE) {
			live++;
			if (!seen_get(k) && !mutate)
				FAIL("iterator skipped live object %d (h=%llx)", k, (unsigned long long)objs[k].h);
		}
	}
	if (!mutate && count != live)
		FAIL("iterator visited %d objects, %d are live", count, live);
	LOG("iterate visited %d live %d", count, live);
}

static void op_never_issued(int allow_zero, int allow_nocheck)
{
	/* build a handle value that was never issued and (for nocheck) whose
	 * slot holds no undestroyed object */
	unsigned hc = hdb.handle_count;
	uint32_t idx, check;
	qb_handle_t hv;
	int i, rc, kind = rnd(6), op = rnd(4);
	void *p = (void *)1;
	int slot_busy = 0;
	unsigned long before_unknown = dtor_unknown;

	switch (rnd(5)) {
	case 0: idx = hc; break;
	case 1: idx = hc + 1 + rnd(1000); break;
	case 2: idx = 0x80000000u | rnd(hc + 2); break;
	case 3: idx = 0xffffffffu - rnd(3); break;
	default: idx = hc ? rnd(hc) : 0; break;
	}
	switch (kind) {
	case 0: check = 0; if (!allow_zero) return; break;
	case 1: check = 0xffffffffu; if (!allow_nocheck) return; break;
	case 2: check = 0x80000000u | rnd(0x7fffffff); break;
	case 3: check = 1 + rnd(3); break;
	default: check = 1 + rnd(0x7ffffffe); break;
	}
	hv = ((uint64_t)check << 32) | idx;
	if (issued_lookup(hv) >= 0)
		return;	/* was issued */
	slot_busy = slot_busy_by_undead(idx);
	(void)i;
	if (check == 0xffffffffu && slot_busy)
		return;	/* nocheck alias of a valid object: by design */

	switch (op) {
	case 0:
		rc = qb_hdb_handle_get(&hdb, hv, &p);
		if (rc == 0 || p != NULL)
			FAIL("get(never-issued %llx) rc=%d p=%p", (unsigned long long)hv, rc, p);
		break;
	case 1:
		rc = qb_hdb_handle_put(&hdb, hv);
		if (rc >= 0)
			FAIL("put(never-issued %llx) accepted rc=%d (handle_count=%u)", (unsigned long long)hv, rc, hc);
		break;
	case 2:
		rc = qb_hdb_handle_destroy(&hdb, hv);
		if (rc >= 0)
			FAIL("destroy(never-issued %llx) accepted rc=%d (handle_count=%u)", (unsigned long long)hv, rc, hc);
		break;
	default:
		rc = qb_hdb_handle_refcount_get(&hdb, hv);
		if (rc >= 0)
			FAIL("refcount(never-issued %llx) accepted rc=%d (handle_count=%u)", (unsigned long long)hv, rc, hc);
		break;
	}
	LOG("never-issued op %d (%llx) = %d", op, (unsigned long long)hv, rc);
	(void)before_unknown;
}

static void verify_all(void)
{
	int i;
	for (i = 0; i < nobj; i++) {
		struct obj *o = &objs[i];
		if (o->st == DEAD) {
			if (o->dtor_calls != 1)
				FAIL("final: dead object %d destructor calls %d", i, o->dtor_calls);
		} else {
			int rc;
			if (o->dtor_calls != 0)
				FAIL("final: undestroyed object %d destructor calls %d", i, o->dtor_calls);
			rc = qb_hdb_handle_refcount_get(&hdb, o->h);
			if (rc != (o->st == LIVE) + o->outstanding)
				FAIL("final: refcount obj %d = %d model %d", i, rc, (o->st == LIVE) + o->outstanding);
		}
	}
}

int main(int argc, char **argv)
{
	long nops = 300000, n;
	int no_dd = 0, no_zero = 0, no_nocheck = 0, collide = 0, inject = 0;
	int c;

	while ((c = getopt(argc, argv, "s:n:m:DZNRCFKv")) != -1) {
		switch (c) {
		case 's': fuzz_seed = strtoull(optarg, NULL, 0); break;
		case 'n': nops = atol(optarg); break;
		case 'm': maxlive = atoi(optarg); break;
		case 'D': no_dd = 1; break;
		case 'Z': no_zero = 1; break;
		case 'N': no_nocheck = 1; break;
		case 'R': opt_reenter = 1; break;
		case 'C': collide = 1; break;
		case 'F': inject = 1; break;
		case 'K': opt_ignore_collision = 1; break;
		case 'v': verbose = 1; break;
		default: return 2;
		}
	}
	setvbuf(stdout, NULL, _IOLBF, 0);
	qb_hdb_create(&hdb);
	hdb.destructor = dtor;

	for (n = 0; n < nops && nobj < MAXOBJ - 10; n++) {
		int live = 0, i, r;
		struct obj *o;
		opno = n;
		/* count undead among the recent window (cheap estimate) */
		if ((n & 63) == 0)
			undead_gc();
		for (i = 0; i < nundead; i++)
			if (objs[undead[i]].st != DEAD)
				live++;
		r = rnd(100);
		if (r < 14) {
			if (live < maxlive) {
				if (collide)
					srandom(12345);
				op_create(0);
			}
		} else if (r < 16) {
			if (inject)
				op_create(1);
		} else if (r < 34) {
			o = pick((1 << LIVE) | (1 << PENDING) | (1 << DEAD));
			if (o) op_get(o, o->h, 0);
		} else if (r < 52) {
			o = pick((1 << LIVE) | (1 << PENDING));
			if (o && o->outstanding > 0)
				do_put_counted(o, o->h, "put");
		} else if (r < 58) {
			o = pick(1 << DEAD);
			if (o) op_put_dead(o, o->h);
		} else if (r < 70) {
			o = pick((1 << LIVE) | (1 << DEAD) | (no_dd ? 0 : (1 << PENDING)));
			if (o) op_destroy(o, o->h);
		} else if (r < 80) {
			o = pick((1 << LIVE) | (1 << PENDING) | (1 << DEAD));
			if (o) op_refcount(o, o->h);
		} else if (r < 84) {
			op_iterate(rnd(2));
		} else if (r < 94) {
			op_never_issued(!no_zero, !no_nocheck);
		} else if (!no_nocheck) {
			/* nocheck copy of a DEAD handle whose slot is (maybe) reused */
			qb_handle_t hv;
			int busy = 0;
			o = pick(1 << DEAD);
			if (!o) continue;
			hv = qb_hdb_nocheck_convert(qb_hdb_base_convert(o->h));
			busy = slot_busy_by_undead(qb_hdb_base_convert(o->h));
			switch (rnd(busy ? 1 : 4)) {
			case 0: op_get(o, hv, 1); break;
			case 1: op_put_dead(o, hv); break;
			case 2: op_destroy(o, hv); break;
			default: op_refcount(o, hv); break;
			}
		}
	}
	/* drain: put all outstanding, destroy everything */
	{
		int i;
		for (i = 0; i < nobj; i++) {
			struct obj *o = &objs[i];
			if (o->st == LIVE)
				op_destroy(o, o->h);
			while (o->st == PENDING && o->outstanding > 0)
				do_put_counted(o, o->h, "drain");
			if (o->st != DEAD)
				FAIL("drain: object %d not dead", i);
		}
		op_iterate(0);
	}
	verify_all();
	qb_hdb_destroy(&hdb);
	printf("seed %llu: %ld ops, %d objects, %ld handle-value collisions, %d violation(s)\n", fuzz_seed, n, nobj, collisions, failures);
	return failures ? 1 : 0;
}
