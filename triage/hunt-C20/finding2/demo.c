/*
 * C20 finding 2: never-issued handle values whose upper 32 bits are 0
 * (including the all-zero handle, i.e. a zero-initialised qb_handle_t) are
 * accepted by put / destroy / refcount_get whenever the addressed slot is
 * empty, because an emptied slot has check == 0 and these three functions
 * compare only the check, never the slot state.
 * Consequences shown: (a) success return for a handle that was never issued,
 * (b) destroy(0) turns the empty slot into a permanently "pending" one that
 * is never reused, (c) after a failed create the destructor is run for an
 * object that does not exist (instance NULL).
 */
#include <stdio.h>
#include <stdlib.h>
#include <string.h>
#include <errno.h>
#include <qb/qbdefs.h>
#include <qb/qbhdb.h>

static int dtor_calls;
static void *dtor_last = (void *)-1;
static void dtor(void *inst) { dtor_last = inst; dtor_calls++; }

int main(void)
{
	struct qb_hdb hdb;
	qb_handle_t h, h2, never = 0;	/* check 0, slot 0: never issued (issued checks are > 0) */
	void *inst;
	int rc, bad = 0;

	qb_hdb_create(&hdb);
	hdb.destructor = dtor;

	rc = qb_hdb_handle_create(&hdb, 8, &h);
	printf("create  rc=%d h=%llx\n", rc, (unsigned long long)h);
	rc = qb_hdb_handle_destroy(&hdb, h);
	printf("destroy rc=%d dtor_calls=%d   -> slot 0 is empty now\n", rc, dtor_calls);

	/* (a) the real stale handle is refused ... */
	printf("stale h:  put=%d refcount=%d destroy=%d (all refused, good)\n",
	       qb_hdb_handle_put(&hdb, h), qb_hdb_handle_refcount_get(&hdb, h), qb_hdb_handle_destroy(&hdb, h));
	/* ... but the never-issued value 0 is accepted */
	rc = qb_hdb_handle_get(&hdb, never, &inst);
	printf("never-issued 0: get=%d\n", rc);
	rc = qb_hdb_handle_refcount_get(&hdb, never);
	printf("never-issued 0: refcount_get=%d\n", rc);
	if (rc >= 0) { printf("VIOLATION: refcount_get(never issued handle) accepted\n"); bad = 1; }
	/* (c) failed create leaves ref_count 1 in the empty slot; put(0) then "destroys" nothing */
	rc = qb_hdb_handle_create(&hdb, -1, &h2);	/* malloc((size_t)-1) fails */
	printf("create(size=-1) rc=%d (%s)\n", rc, rc == -ENOMEM ? "ENOMEM" : "?");
	printf("never-issued 0: refcount_get=%d\n", qb_hdb_handle_refcount_get(&hdb, never));
	dtor_calls = 0;
	rc = qb_hdb_handle_put(&hdb, never);
	printf("never-issued 0: put=%d  destructor calls=%d arg=%p\n", rc, dtor_calls, dtor_last);
	if (dtor_calls) { printf("VIOLATION: destructor ran although no object exists\n"); bad = 1; }

	rc = qb_hdb_handle_put(&hdb, never);
	printf("never-issued 0: put=%d refcount now %d\n", rc, qb_hdb_handle_refcount_get(&hdb, never));
	if (rc >= 0) { printf("VIOLATION: put(never issued handle) accepted\n"); bad = 1; }

	/* (b) destroy(0) on the empty slot */
	rc = qb_hdb_handle_destroy(&hdb, never);
	printf("never-issued 0: destroy=%d\n", rc);
	if (rc >= 0) { printf("VIOLATION: destroy(never issued handle) accepted\n"); bad = 1; }
	rc = qb_hdb_handle_create(&hdb, 8, &h2);
	printf("create  rc=%d slot=%u (slot 0 %s)\n", rc, qb_hdb_base_convert(h2),
	       qb_hdb_base_convert(h2) == 0 ? "reused" : "is lost: stuck in PENDINGREMOVAL");
	qb_hdb_handle_destroy(&hdb, h2);

	qb_hdb_destroy(&hdb);
	printf(bad ? "RESULT: property violated\n" : "RESULT: property held\n");
	return bad;
}
