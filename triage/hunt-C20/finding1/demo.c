/*
 * C20 finding 1: a second qb_hdb_handle_destroy() on an already destroyed
 * (destroy-pending) handle is accepted and takes away a reference that
 * belongs to somebody else: the destructor runs (and the instance is freed)
 * while a reference obtained with qb_hdb_handle_get() is still outstanding,
 * and that reference can then no longer be put.
 */
#include <stdio.h>
#include <stdlib.h>
#include <string.h>
#include <qb/qbdefs.h>
#include <qb/qbhdb.h>

static int dtor_calls;
static void dtor(void *inst) { (void)inst; dtor_calls++; }

int main(void)
{
	struct qb_hdb hdb;
	qb_handle_t h;
	void *inst = NULL;
	int rc, bad = 0;
	int rc_d2, dtor_after_d2, cnt_after_d2, rc_put;

	qb_hdb_create(&hdb);
	hdb.destructor = dtor;

	rc = qb_hdb_handle_create(&hdb, 16, &h);		/* count 1 */
	printf("create            rc=%d h=%llx\n", rc, (unsigned long long)h);
	rc = qb_hdb_handle_get(&hdb, h, &inst);			/* count 2: a user holds the object */
	printf("get               rc=%d inst=%p refcount=%d\n", rc, inst, qb_hdb_handle_refcount_get(&hdb, h));
	rc = qb_hdb_handle_destroy(&hdb, h);			/* count 1: destroy pending */
	printf("destroy #1        rc=%d refcount=%d dtor_calls=%d\n", rc, qb_hdb_handle_refcount_get(&hdb, h), dtor_calls);

	rc_d2 = qb_hdb_handle_destroy(&hdb, h);			/* operation on an already destroyed handle */
	dtor_after_d2 = dtor_calls;
	cnt_after_d2 = qb_hdb_handle_refcount_get(&hdb, h);
	printf("destroy #2        rc=%d refcount=%d dtor_calls=%d   (1 get is still outstanding)\n",
	       rc_d2, cnt_after_d2, dtor_after_d2);

	if (dtor_after_d2 != 0) {
		printf("VIOLATION: destructor ran while 1 + gets - puts - destroyed = 1 (outstanding reference)\n");
		bad = 1;
	}
	rc_put = qb_hdb_handle_put(&hdb, h);			/* the outstanding reference */
	printf("put (outstanding) rc=%d dtor_calls=%d\n", rc_put, dtor_calls);
	if (rc_put != 0) {
		printf("VIOLATION: the outstanding reference can no longer be put (rc=%d)\n", rc_put);
		bad = 1;
	}
	if (dtor_calls != 1) {
		printf("VIOLATION: destructor calls = %d at the end\n", dtor_calls);
		bad = 1;
	}
	if (bad && getenv("DEMO_TOUCH")) {
		/* what the holder of the reference would do: ASan reports heap-use-after-free */
		memset(inst, 0x5a, 16);
	}
	qb_hdb_destroy(&hdb);
	printf(bad ? "RESULT: property violated\n" : "RESULT: property held\n");
	return bad;
}
