#!/bin/sh
# triage/fuzz_map_iter.sh <tree> <kind> [trials] [seed] : ASan build of <tree>'s map sources + the fuzzer
T=$1; KIND=$2; N=${3:-3000}; S=${4:-1}
D=$(mktemp -d /tmp/fuzzmap-XXXXXX)
# the map sources are compiled with ASan into the program (they win over the copies in libqb.so, which provides the rest)
gcc -g -O1 -fsanitize=address,undefined -fno-omit-frame-pointer -DHAVE_CONFIG_H -I$T/include -I$T/include/qb -I$T/lib \
  $(dirname $0)/fuzz_map_iter.c $T/lib/map.c $T/lib/skiplist.c $T/lib/hashtable.c $T/lib/trie.c -L$T/lib/.libs -lqb -lpthread -o $D/fz 2>$D/build.log || { tail -5 $D/build.log; rm -rf $D; exit 2; }
LD_LIBRARY_PATH=$T/lib/.libs ASAN_OPTIONS=detect_leaks=0 $D/fz $KIND $N $S 2>&1 | tail -25
rc=$?
rm -rf $D
exit $rc
