/* C12 finding4: the tag reported for a call with tags=0 depends on whether the
 * same call site was logged with an explicit tag before or after the tag
 * filter was added. */
#include <stdio.h>
#include <syslog.h>
#include <qb/qblog.h>
static uint32_t last;
static void lg(int32_t t, struct qb_log_callsite *cs, struct timespec *ts, const char *m){ last = cs->tags; }
static uint32_t run(int explicit_first)
{
	int t;
	qb_log_init("c12f4", LOG_USER, LOG_EMERG);
	qb_log_ctl(QB_LOG_SYSLOG, QB_LOG_CONF_ENABLED, QB_FALSE);
	t = qb_log_custom_open(lg, NULL, NULL, NULL);
	qb_log_filter_ctl(t, QB_LOG_FILTER_ADD, QB_LOG_FILTER_FILE, "*", LOG_TRACE);
	qb_log_ctl(t, QB_LOG_CONF_ENABLED, QB_TRUE);
	if (explicit_first)	/* call site first executed (with explicit tag 3) BEFORE the tag filter */
		qb_log_from_external_source("fn", "a.c", "msg", LOG_INFO, 7, 3);
	qb_log_filter_ctl(5, QB_LOG_TAG_SET, QB_LOG_FILTER_FILE, "a.c", LOG_TRACE);
	if (!explicit_first)	/* ... or AFTER it */
		qb_log_from_external_source("fn", "a.c", "msg", LOG_INFO, 7, 3);
	qb_log_from_external_source("fn", "a.c", "msg", LOG_INFO, 7, 0);	/* tags 0: the tag filter decides */
	qb_log_fini();
	return last;
}
int main(void)
{
	uint32_t a = run(1), b = run(0);
	printf("tag reported for the tags=0 call: explicit call before the filter: %u, after the filter: %u (tag filter says 5)\n", a, b);
	if (a != 5 || b != 5) { printf("PROPERTY VIOLATED\n"); return 1; }
	printf("property held\n");
	return 0;
}
