/*
 * C12 finding2: with threaded logging set up as the documentation asks for
 * (logging thread started, every target in use THREADED), a log call made
 * while another thread is inside qb_log_real_va_() is silently discarded.
 *
 * Part 1 (deterministic up to one 300ms sleep):
 *   main logs M1; the logging thread delivers it and the logger callback
 *   blocks (holding the queue lock, as the library does while it writes).
 *   Thread A logs M2: it sets in_logger and blocks in qb_log_thread_log_post()
 *   on that lock.  main logs M3: in_logger is set -> qb_log_real_va_() returns
 *   without delivering anything.  The callback is released, qb_log_fini()
 *   flushes.  Delivered: M1, M2.  M3 is lost.
 * Part 2 (stress): 4 threads log 1000 messages each (the 512000 byte
 *   queue limit cannot be reached); delivered < posted.
 */
#include <stdio.h>
#include <stdlib.h>
#include <string.h>
#include <unistd.h>
#include <syslog.h>
#include <pthread.h>
#include <semaphore.h>
#include <qb/qblog.h>

static sem_t in_cb, release;
static int block_first = 1;
static volatile long delivered;
static char seen[16][32];
static int nseen;

static void lg(int32_t t, struct qb_log_callsite *cs, struct timespec *ts, const char *m)
{
	if (nseen < 16)
		snprintf(seen[nseen++], 32, "%s", m);
	__sync_fetch_and_add(&delivered, 1);
	if (block_first) {
		block_first = 0;
		sem_post(&in_cb);
		sem_wait(&release);
	}
}

static void *thread_a(void *arg)
{
	qb_log_from_external_source("fa", "a.c", "M2", LOG_INFO, 2, 0);
	return NULL;
}

static volatile long posted;
static void *producer(void *arg)
{
	int i;
	/* 4 x 1000 records of ~60 bytes: far below the 512000 byte queue limit */
	for (i = 0; i < 1000; i++) {
		__sync_fetch_and_add(&posted, 1);
		qb_log_from_external_source("fp", "p.c", "P", LOG_INFO, 10, 0);
	}
	return NULL;
}

int main(void)
{
	pthread_t a, p[4];
	int t, i, bad = 0;

	sem_init(&in_cb, 0, 0);
	sem_init(&release, 0, 0);
	qb_log_init("c12f2", LOG_USER, LOG_EMERG);
	qb_log_ctl(QB_LOG_SYSLOG, QB_LOG_CONF_ENABLED, QB_FALSE);
	t = qb_log_custom_open(lg, NULL, NULL, NULL);
	qb_log_filter_ctl(t, QB_LOG_FILTER_ADD, QB_LOG_FILTER_FILE, "*", LOG_TRACE);
	qb_log_ctl(t, QB_LOG_CONF_THREADED, QB_TRUE);
	qb_log_ctl(t, QB_LOG_CONF_ENABLED, QB_TRUE);
	qb_log_thread_start();

	qb_log_from_external_source("fm", "m.c", "M1", LOG_INFO, 1, 0);
	sem_wait(&in_cb);		/* logging thread is inside the logger */
	pthread_create(&a, NULL, thread_a, NULL);
	usleep(300000);			/* A is now blocked in the post */
	qb_log_from_external_source("fm", "m.c", "M3", LOG_INFO, 3, 0);
	sem_post(&release);
	pthread_join(a, NULL);
	/* quiesce: flushes the queue */
	qb_log_filter_ctl2(-1, QB_LOG_FILTER_ADD, QB_LOG_FILTER_FILE, "*", 0, 0);
	printf("part 1: 3 log calls, target enabled and selected by '*': delivered %ld:", delivered);
	for (i = 0; i < nseen; i++)
		printf(" %s", seen[i]);
	printf("\n");
	if (delivered != 3)
		bad = 1;

	delivered = 0;
	for (i = 0; i < 4; i++)
		pthread_create(&p[i], NULL, producer, NULL);
	for (i = 0; i < 4; i++)
		pthread_join(p[i], NULL);
	qb_log_filter_ctl2(-1, QB_LOG_FILTER_ADD, QB_LOG_FILTER_FILE, "*", 0, 0);
	printf("part 2: 4 threads posted %ld, delivered %ld (lost %ld)\n", posted, delivered, posted - delivered);
	if (delivered != posted)
		bad = 1;
	qb_log_fini();
	printf(bad ? "PROPERTY VIOLATED\n" : "property held\n");
	return bad;
}
