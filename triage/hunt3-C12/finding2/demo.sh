#!/bin/sh
# usage: demo.sh <tree>   exit 0 = property held, 1 = violated
T=${1:-/repo}
D=$(cd "$(dirname "$0")" && pwd)
gcc -g -O1 -w -I$T/include "$D/demo.c" -L$T/lib/.libs -lqb -lpthread -o "$D/demo.$$" || exit 2
LD_LIBRARY_PATH=$T/lib/.libs "$D/demo.$$" > "$D/out.$$" 2>&1
rc=$?
# "N messages lost" would be the (by design) queue limit; the demo never reaches it
cat "$D/out.$$"; rm -f "$D/demo.$$" "$D/out.$$"
exit $rc
