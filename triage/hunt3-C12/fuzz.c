/*
 * Model-based randomized tester for libqb log routing (property C12).
 *
 * usage: fuzz <seed> <nops> [flags]
 *   flags (bitmask): 1 = use threaded targets too
 *                    2 = use file targets too
 *                    4 = allow disable/re-enable of file targets (finding1)
 *                    8 = log calls may carry explicit tags
 *                   16 = verbose trace of operations
 *                   32 = init/fini cycles
 *                   64 = with 8: the same call site may be logged with different explicit tags
 *                  128 = with 64: model the sticky per-call-site tag (tolerate finding2)
 *
 * The model keeps, per target, the ordered list of ADD filters, and the ordered
 * list of tag filters.  A call site is selected for a target iff some filter
 * in the target's list matches it; its tag is the explicit tag of the call
 * or, if that is 0, the value of the last tag filter matching it (0 if none).
 */
#include <stdio.h>
#include <stdlib.h>
#include <string.h>
#include <stdarg.h>
#include <unistd.h>
#include <errno.h>
#include <regex.h>
#include <syslog.h>
#include <pthread.h>
#include <qb/qbdefs.h>
#include <qb/qblog.h>

#define NT 32
#define MAXF 64

static int flags;
#define F_THREAD 1
#define F_FILE 2
#define F_FILE_REENABLE 4
#define F_TAGS 8
#define F_VERBOSE 16
#define F_REINIT 32
#define F_TAGS_VARY 64	/* the same call site is logged with varying explicit tags (finding2) */
#define F_TAGS_STICKY 128	/* model the library's per-call-site tag memory (tolerates finding2) */

#define V(...) do { if (flags & F_VERBOSE) { printf(__VA_ARGS__); fflush(stdout);} } while (0)

struct mfilter {
	int type;
	char text[64];
	int hi, lo;
	uint32_t value;
};
struct mlist {
	int n;
	struct mfilter f[MAXF];
};
enum { U, D, E };
struct mtarget {
	int state;
	int threaded;
	int isfile;
	int filedead;
	long lines;		/* file targets: lines seen so far */
	char path[128];
	struct mlist fl;
};
static struct mtarget mt[NT];
static struct mlist mtags;

static const char *files[] = { "a.c", "b.c", "ab.c", "dir/a.c", "" };
static const char *funcs[] = { "f", "g", "fg", "main", "" };
static const uint32_t lines[] = { 0, 1, 2, 65536, 65537, 65538, 131073, 4000000000u };
static const char *fmts[] = { "hello %d", "hell %d", "x%d\n", "%d", "*%d", "a.c %d" };
#define N(a) (sizeof(a)/sizeof(a[0]))

static const char *txt_file[] = { "*", "a.c", "b.c", "a.c,b.c", "ab.c,zz.c,dir/a.c", "a", ".c", "dir/a.c", "zz.c,a.c" };
static const char *txt_func[] = { "*", "f", "g", "f,g", "fg", "main,fg", "m", "x,y,z,main" };
static const char *txt_fmt[] = { "*", "hell", "hello", "x", "%d", "o %", "a.c", "q" };
static const char *txt_re[] = { "*", "^a", "c$", "^f$", "f", "h.*o", "[", "^$", "a\\.c", "^[ab]*\\.c$", ".", "main\\|g" };

struct rec {
	int t;
	uint32_t tags;
	uint32_t lineno;
	uint8_t prio;
	char fn[16], file[16], fmt[16];
	char msg[64];
};
static struct rec recs[256];
static int nrecs;
static pthread_mutex_t recmx = PTHREAD_MUTEX_INITIALIZER;
static long total_ops, total_logs, total_deliv;

static void logger_cb(int32_t t, struct qb_log_callsite *cs,
		      struct timespec *ts, const char *msg)
{
	pthread_mutex_lock(&recmx);
	if (nrecs < 256) {
		struct rec *r = &recs[nrecs++];
		r->t = t;
		r->tags = cs->tags;
		r->lineno = cs->lineno;
		r->prio = cs->priority;
		snprintf(r->fn, sizeof r->fn, "%s", cs->function);
		snprintf(r->file, sizeof r->file, "%s", cs->filename);
		snprintf(r->fmt, sizeof r->fmt, "%s", cs->format);
		snprintf(r->msg, sizeof r->msg, "%s", msg);
	}
	pthread_mutex_unlock(&recmx);
}
static void close_cb(int32_t t) { (void)t; }

static uint64_t rs;
static uint32_t rnd(void)
{
	rs ^= rs << 13; rs ^= rs >> 7; rs ^= rs << 17;
	return (uint32_t)(rs >> 11);
}
#define R(n) (rnd() % (n))

static void die(const char *fmt, ...)
{
	va_list ap;
	va_start(ap, fmt);
	printf("VIOLATION: ");
	vprintf(fmt, ap);
	printf("\n");
	va_end(ap);
	fflush(stdout);
	_exit(1);
}

static int m_match(const struct mfilter *f, const char *file, const char *fn,
		   const char *fmt, int prio)
{
	const char *name = NULL;
	if (prio < f->hi || prio > f->lo)
		return 0;
	if (strcmp(f->text, "*") == 0)
		return 1;
	switch (f->type) {
	case QB_LOG_FILTER_FILE:
	case QB_LOG_FILTER_FUNCTION: {
		char tmp[64];
		char *p, *save = tmp;
		name = f->type == QB_LOG_FILTER_FILE ? file : fn;
		strcpy(tmp, f->text);
		while ((p = strsep(&save, ",")) != NULL)
			if (strcmp(p, name) == 0)
				return 1;
		return 0;
	}
	case QB_LOG_FILTER_FORMAT:
		return strstr(fmt, f->text) != NULL;
	case QB_LOG_FILTER_FILE_REGEX: name = file; break;
	case QB_LOG_FILTER_FUNCTION_REGEX: name = fn; break;
	case QB_LOG_FILTER_FORMAT_REGEX: name = fmt; break;
	}
	{
		regex_t re;
		int m;
		if (regcomp(&re, f->text, 0) != 0)
			return 0;
		m = regexec(&re, name, 0, NULL, 0) == 0;
		regfree(&re);
		return m;
	}
}

static int is_re(int type)
{
	return type == QB_LOG_FILTER_FILE_REGEX || type == QB_LOG_FILTER_FUNCTION_REGEX
	    || type == QB_LOG_FILTER_FORMAT_REGEX;
}

static int m_add(struct mlist *l, int type, const char *text, int hi, int lo, uint32_t value)
{
	int i;
	if (lo < hi)
		return -EINVAL;
	for (i = 0; i < l->n; i++) {
		struct mfilter *f = &l->f[i];
		if (f->type == type && f->hi == hi && f->lo == lo && f->value == value
		    && strcmp(f->text, text) == 0)
			return -EEXIST;
	}
	if (is_re(type)) {
		regex_t re;
		if (regcomp(&re, text, 0) != 0)
			return -EINVAL;
		regfree(&re);
	}
	if (l->n == MAXF)
		die("model list overflow");
	l->f[l->n].type = type;
	strcpy(l->f[l->n].text, text);
	l->f[l->n].hi = hi;
	l->f[l->n].lo = lo;
	l->f[l->n].value = value;
	l->n++;
	return 0;
}

static int m_remove(struct mlist *l, int type, const char *text, int hi, int lo)
{
	int i;
	if (lo < hi)
		return -EINVAL;
	for (i = 0; i < l->n; i++) {
		struct mfilter *f = &l->f[i];
		if (f->type == type && f->lo <= lo && f->hi >= hi &&
		    (strcmp(f->text, text) == 0 || strcmp(text, "*") == 0)) {
			memmove(f, f + 1, (l->n - i - 1) * sizeof(*f));
			l->n--;
			return 0;
		}
	}
	return 0;
}

static const char *pick_text(int type)
{
	switch (type) {
	case QB_LOG_FILTER_FILE: return txt_file[R(N(txt_file))];
	case QB_LOG_FILTER_FUNCTION: return txt_func[R(N(txt_func))];
	case QB_LOG_FILTER_FORMAT: return txt_fmt[R(N(txt_fmt))];
	default: return txt_re[R(N(txt_re))];
	}
}

static void flush_thread(void)
{
	/* quiesces the logging thread as a side effect, then fails */
	(void)qb_log_filter_ctl2(-1, QB_LOG_FILTER_ADD, QB_LOG_FILTER_FILE, "*", 0, 0);
}

static long file_lines(const char *p)
{
	FILE *f = fopen(p, "r");
	long n = 0;
	int c;
	if (!f)
		return -1;
	while ((c = getc(f)) != EOF)
		if (c == '\n')
			n++;
	fclose(f);
	return n;
}

static int serial;
static int threads_started;

/* per call site memory, only for F_TAGS_STICKY */
struct mcs { int created; uint32_t tags; };
static struct mcs mcs[5][5][8][9][6];
static uint32_t m_filter_tag(const char *file, const char *fn, const char *fmt, int prio)
{
	uint32_t v = 0;
	int i;
	for (i = 0; i < mtags.n; i++)
		if (m_match(&mtags.f[i], file, fn, fmt, prio))
			v = mtags.f[i].value;
	return v;
}
static void mcs_recompute(int mode, const struct mfilter *nf)
{
	int a, b, c, d, e;
	for (a = 0; a < 5; a++) for (b = 0; b < 5; b++) for (c = 0; c < 8; c++)
	for (d = 0; d < 9; d++) for (e = 0; e < 6; e++) {
		struct mcs *m = &mcs[a][b][c][d][e];
		if (!m->created) continue;
		if (mode == 0) m->tags = 0;
		else if (mode == 1) m->tags = m_filter_tag(files[a], funcs[b], fmts[e], d);
		else if (m_match(nf, files[a], funcs[b], fmts[e], d)) m->tags = nf->value;
	}
}

static void do_init(void)
{
	int i;
	memset(mt, 0, sizeof mt);
	memset(&mtags, 0, sizeof mtags);
	memset(mcs, 0, sizeof mcs);
	qb_log_init("fuzzC12", LOG_USER, LOG_EMERG);
	/* syslog: enabled with "*" EMERG filter; take it out of the picture */
	qb_log_ctl(QB_LOG_SYSLOG, QB_LOG_CONF_ENABLED, QB_FALSE);
	qb_log_filter_ctl(QB_LOG_SYSLOG, QB_LOG_FILTER_CLEAR_ALL, QB_LOG_FILTER_FILE, "*", LOG_TRACE);
	for (i = 0; i < 4; i++)
		mt[i].state = D;
	threads_started = 0;
}

static void do_fini(void)
{
	int i;
	qb_log_fini();
	for (i = 0; i < NT; i++)
		if (mt[i].isfile && mt[i].state != U)
			unlink(mt[i].path);
}

static int pick_target(int want_used)
{
	int i, k = R(NT);
	if (!want_used || R(20) == 0)
		return k;
	for (i = 0; i < NT; i++) {
		int t = (k + i) % NT;
		if (t >= 4 && mt[t].state != U)
			return t;
	}
	return k;
}

static void op_log(void)
{
	int ia = R(N(files)), ib = R(N(funcs)), ie = R(N(fmts)), ic = R(N(lines));
	const char *file = files[ia];
	const char *fn = funcs[ib];
	const char *fmt = fmts[ie];
	uint32_t line = lines[ic];
	int prio = R(LOG_TRACE + 1);
	uint32_t tags = 0;
	uint32_t exp_tag;
	char expmsg[64];
	int t, i, len;
	int any_threaded = 0;

	if (flags & F_TAGS) {
		if (flags & F_TAGS_VARY) {
			if (R(4) == 0)
				tags = 1 + R(3);
		} else {
			int h = (ia * 7 + ib * 5 + ic * 3 + prio + ie * 11) % 8;
			tags = h < 3 ? h + 1 : 0;
		}
	}
	serial++;
	total_logs++;
	V("log file=%s fn=%s fmt=%s line=%u prio=%d tags=%u serial=%d\n", file, fn, fmt, line, prio, tags, serial);

	pthread_mutex_lock(&recmx);
	nrecs = 0;
	pthread_mutex_unlock(&recmx);

	qb_log_from_external_source(fn, file, fmt, prio, line, tags, serial);

	for (t = 0; t < NT; t++)
		if (mt[t].state == E && mt[t].threaded)
			any_threaded = 1;
	if (any_threaded || threads_started)
		flush_thread();

	/* expectations */
	exp_tag = tags;
	if (tags == 0)
		exp_tag = m_filter_tag(file, fn, fmt, prio);
	if (flags & F_TAGS_STICKY) {
		struct mcs *m = &mcs[ia][ib][ic][prio][ie];
		if (!m->created) {
			m->created = 1;
			m->tags = exp_tag;
		} else if (tags) {
			m->tags = tags;
		}
		exp_tag = m->tags;
	}
	len = snprintf(expmsg, sizeof expmsg, fmt, serial);
	if (len > 0 && expmsg[len - 1] == '\n')
		expmsg[len - 1] = 0;

	pthread_mutex_lock(&recmx);
	for (t = 4; t < NT; t++) {
		int want = 0, got = 0;
		if (mt[t].state == E)
			for (i = 0; i < mt[t].fl.n; i++)
				if (m_match(&mt[t].fl.f[i], file, fn, fmt, prio)) {
					want = 1;
					break;
				}
		if (mt[t].isfile) {
			long now;
			if (mt[t].state == U)
				continue;
			now = file_lines(mt[t].path);
			got = (int)(now - mt[t].lines);
			mt[t].lines = now;
			if (mt[t].filedead)
				want = 0;	/* known: finding1 */
		} else {
			for (i = 0; i < nrecs; i++) {
				struct rec *r = &recs[i];
				if (r->t != t)
					continue;
				got++;
				if (r->lineno != line || r->prio != prio || strcmp(r->fn, fn)
				    || strcmp(r->file, file) || strcmp(r->fmt, fmt))
					die("serial %d: target %d got wrong call site", serial, t);
				if (strcmp(r->msg, expmsg))
					die("serial %d: target %d got msg '%s' want '%s'", serial, t, r->msg, expmsg);
				if (r->tags != exp_tag)
					die("serial %d: target %d reported tags %u, model says %u (call tags %u)",
					    serial, t, r->tags, exp_tag, tags);
			}
		}
		if (got != want)
			die("serial %d: target %d (state %d threaded %d file %d) received %d times, model says %d  [cs %s:%s:%u prio %d fmt '%s']",
			    serial, t, mt[t].state, mt[t].threaded, mt[t].isfile, got, want, file, fn, line, prio, fmt);
		total_deliv += got;
	}
	for (i = 0; i < nrecs; i++)
		if (recs[i].t < 4 || mt[recs[i].t].isfile)
			die("serial %d: delivery to unexpected target %d", serial, recs[i].t);
	pthread_mutex_unlock(&recmx);
}

static void op_filter(void)
{
	int t = pick_target(1);
	int c = R(10);
	int type = R(6);
	const char *text = pick_text(type);
	int hi, lo, rc, mrc;

	if (R(3) == 0) {
		hi = 0;
		lo = R(LOG_TRACE + 1);
	} else {
		hi = R(LOG_TRACE + 1);
		lo = R(LOG_TRACE + 1);
		if (lo < hi && R(8)) {
			int x = lo; lo = hi; hi = x;
		}
	}
	if (c < 6)
		c = QB_LOG_FILTER_ADD;
	else if (c < 9)
		c = QB_LOG_FILTER_REMOVE;
	else
		c = QB_LOG_FILTER_CLEAR_ALL;

	rc = qb_log_filter_ctl2(t, c, type, text, hi, lo);
	V("filter t=%d c=%d type=%d text=%s hi=%d lo=%d -> %d\n", t, c, type, text, hi, lo, rc);
	if (mt[t].state == U)
		mrc = -EBADF;
	else if (lo < hi)
		mrc = -EINVAL;
	else if (c == QB_LOG_FILTER_ADD)
		mrc = m_add(&mt[t].fl, type, text, hi, lo, t);
	else if (c == QB_LOG_FILTER_REMOVE)
		mrc = m_remove(&mt[t].fl, type, text, hi, lo);
	else {
		mt[t].fl.n = 0;
		mrc = 0;
	}
	if (rc != mrc)
		die("filter_ctl2(t=%d c=%d type=%d '%s' %d..%d) = %d, model %d", t, c, type, text, hi, lo, rc, mrc);
}

static void op_tag(void)
{
	int c = R(10);
	int type = R(6);
	const char *text = pick_text(type);
	int hi = R(LOG_TRACE + 1), lo = R(LOG_TRACE + 1);
	int val = 1 + R(5);
	int rc, mrc;

	if (lo < hi && R(8)) {
		int x = lo; lo = hi; hi = x;
	}
	if (c < 6)
		c = QB_LOG_TAG_SET;
	else if (c < 9)
		c = QB_LOG_TAG_CLEAR;
	else
		c = QB_LOG_TAG_CLEAR_ALL;
	rc = qb_log_filter_ctl2(val, c, type, text, hi, lo);
	V("tag val=%d c=%d type=%d text=%s hi=%d lo=%d -> %d\n", val, c, type, text, hi, lo, rc);
	if (lo < hi)
		mrc = -EINVAL;
	else if (c == QB_LOG_TAG_SET)
	{
		mrc = m_add(&mtags, type, text, hi, lo, val);
		if (mrc == 0)
			mcs_recompute(2, &mtags.f[mtags.n - 1]);
	} else if (c == QB_LOG_TAG_CLEAR) {
		mrc = m_remove(&mtags, type, text, hi, lo);
		if (mrc == 0)
			mcs_recompute(1, NULL);
	} else {
		mtags.n = 0;
		mrc = 0;
		mcs_recompute(0, NULL);
	}
	if (rc != mrc)
		die("tag ctl(c=%d type=%d '%s' %d..%d val %d) = %d, model %d", c, type, text, hi, lo, val, rc, mrc);
}

static void op_target(void)
{
	int k = R(10);
	int t, rc;

	if (k < 3) {
		/* open */
		int isfile = (flags & F_FILE) && R(4) == 0;
		char path[128];
		int i, exp = -EMFILE;
		for (i = 0; i < NT; i++)
			if (mt[i].state == U) {
				exp = i;
				break;
			}
		if (isfile) {
			snprintf(path, sizeof path, "/tmp/hunt3-C12/fz-%d-%d.log", (int)getpid(), serial++);
			unlink(path);
			t = qb_log_file_open(path);
		} else {
			t = qb_log_custom_open(logger_cb, R(2) ? close_cb : NULL, NULL, NULL);
		}
		V("open file=%d -> %d\n", isfile, t);
		if (t != exp)
			die("open returned %d, model %d", t, exp);
		if (t >= 0) {
			memset(&mt[t], 0, sizeof mt[t]);
			mt[t].state = D;
			mt[t].isfile = isfile;
			if (isfile)
				strcpy(mt[t].path, path);
		}
	} else if (k < 5) {
		/* close */
		t = pick_target(1);
		if (t < 4)
			return;
		V("close %d\n", t);
		qb_log_custom_close(t);
		if (mt[t].state != U && mt[t].isfile)
			unlink(mt[t].path);
		mt[t].state = U;
		mt[t].fl.n = 0;
		mt[t].threaded = 0;
	} else if (k < 9) {
		int en = R(2);
		t = pick_target(1);
		if (t < 4)
			return;
		if (mt[t].isfile && !en && !(flags & F_FILE_REENABLE))
			return;
		rc = qb_log_ctl(t, QB_LOG_CONF_ENABLED, en);
		V("enable t=%d %d -> %d\n", t, en, rc);
		if (mt[t].state == U) {
			if (rc != -EBADF)
				die("enable on unused target %d = %d", t, rc);
		} else {
			if (rc != 0)
				die("enable t=%d = %d", t, rc);
			if (mt[t].isfile && mt[t].state == E && !en)
				mt[t].filedead = 1;
			mt[t].state = en ? E : D;
		}
		rc = qb_log_ctl(t, QB_LOG_CONF_STATE_GET, 0);
		if (mt[t].state != U &&
		    rc != (mt[t].state == E ? QB_LOG_STATE_ENABLED : QB_LOG_STATE_DISABLED))
			die("STATE_GET t=%d = %d, model %d", t, rc, mt[t].state);
	} else {
		if (!(flags & F_THREAD))
			return;
		t = pick_target(1);
		if (t < 4 || mt[t].state == U)
			return;
		if (!threads_started && R(2)) {
			rc = qb_log_thread_start();
			V("thread_start -> %d\n", rc);
			threads_started = 1;
		}
		{
			int th = R(2);
			rc = qb_log_ctl(t, QB_LOG_CONF_THREADED, th);
			V("threaded t=%d %d -> %d\n", t, th, rc);
			if (rc != 0)
				die("threaded ctl = %d", rc);
			mt[t].threaded = th;
		}
	}
}

int main(int argc, char **argv)
{
	long nops, i;
	if (argc < 3) {
		fprintf(stderr, "usage: %s seed nops [flags]\n", argv[0]);
		return 2;
	}
	rs = strtoull(argv[1], NULL, 0) * 0x9E3779B97F4A7C15ull + 0x1234567;
	nops = atol(argv[2]);
	flags = argc > 3 ? atoi(argv[3]) : 0;

	do_init();
	for (i = 0; i < nops; i++) {
		int k = R(100);
		total_ops++;
		if (k < 45)
			op_log();
		else if (k < 70)
			op_filter();
		else if (k < 82)
			op_tag();
		else if (k < 99 || !(flags & F_REINIT))
			op_target();
		else if (R(20) == 0) {
			V("fini/init\n");
			do_fini();
			do_init();
		}
	}
	do_fini();
	printf("seed %s ok: %ld ops, %ld log calls, %ld deliveries\n", argv[1], total_ops, total_logs, total_deliv);
	return 0;
}
