#include <stdio.h>
#include <stdlib.h>
#include <string.h>
#include <unistd.h>
#include <syslog.h>
#include <qb/qblog.h>
static long fsize(const char*p){FILE*f=fopen(p,"r"); if(!f)return -1; fseek(f,0,SEEK_END); long s=ftell(f); fclose(f); return s;}
int main(void){
  char path[256]; snprintf(path,sizeof path,"/tmp/hunt3-C12-f1-%d.log",(int)getpid());
  unlink(path);
  qb_log_init("f1", LOG_USER, LOG_EMERG);
  qb_log_ctl(QB_LOG_SYSLOG, QB_LOG_CONF_ENABLED, QB_FALSE);
  int t = qb_log_file_open(path);
  printf("t=%d\n",t);
  qb_log_filter_ctl(t, QB_LOG_FILTER_ADD, QB_LOG_FILTER_FILE, "*", LOG_DEBUG);
  qb_log_ctl(t, QB_LOG_CONF_ENABLED, QB_TRUE);
  qb_log(LOG_INFO, "one");
  long s1=fsize(path);
  qb_log_ctl(t, QB_LOG_CONF_ENABLED, QB_FALSE);
  qb_log(LOG_INFO, "two");
  long s2=fsize(path);
  int rc=qb_log_ctl(t, QB_LOG_CONF_ENABLED, QB_TRUE);
  printf("re-enable rc=%d state=%d\n",rc,qb_log_ctl(t,QB_LOG_CONF_STATE_GET,0));
  qb_log(LOG_INFO, "three");
  long s3=fsize(path);
  printf("%ld %ld %ld\n",s1,s2,s3);
  qb_log_fini();
  unlink(path);
  return s3>s2?0:1;
}
