#!/bin/sh
# usage: demo.sh <tree>   exit 0 = property held, non-zero = violated
T=${1:-/repo}
D=$(cd "$(dirname "$0")" && pwd)
gcc -g -O1 -w -I$T/include "$D/demo.c" -L$T/lib/.libs -lqb -lpthread -o "$D/demo.$$" || exit 2
LD_LIBRARY_PATH=$T/lib/.libs "$D/demo.$$" 2>&1
rc=$?
rm -f "$D/demo.$$"
exit $rc
