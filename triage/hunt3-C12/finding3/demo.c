#include <stdio.h>
#include <stdlib.h>
#include <syslog.h>
#include <qb/qblog.h>
static long n;
static void lg(int32_t t, struct qb_log_callsite *cs, struct timespec *ts, const char *m){ n++; }
int main(int argc,char**argv){
  long total = argc>1?atol(argv[1]):65537, i;
  qb_log_init("f3", LOG_USER, LOG_EMERG);
  qb_log_ctl(QB_LOG_SYSLOG, QB_LOG_CONF_ENABLED, QB_FALSE);
  int t = qb_log_custom_open(lg,NULL,NULL,NULL);
  qb_log_filter_ctl(t, QB_LOG_FILTER_ADD, QB_LOG_FILTER_FILE, "*", LOG_TRACE);
  qb_log_ctl(t, QB_LOG_CONF_ENABLED, QB_TRUE);
  for(i=0;i<total;i++){
    qb_log_from_external_source("fn","file.c","msg",LOG_INFO,(uint32_t)(i+1),0);
    if (n!=i+1){ printf("call %ld: delivered %ld\n", i+1, n); return 1; }
  }
  printf("ok %ld\n", n);
  qb_log_fini();
  return 0;
}
