#!/bin/sh
# usage: build.sh [tree]   (default /repo) -> ./fuzz (ASan+UBSan), ./fuzz_tsan
T=${1:-/repo}
D=$(dirname "$0")
SRCS="$T/lib/log.c $T/lib/log_dcs.c $T/lib/log_thread.c $T/lib/log_file.c $T/lib/log_format.c $T/lib/log_syslog.c $T/lib/log_blackbox.c"
CF="-g -O1 -DHAVE_CONFIG_H -I$T/include -I$T/include/qb -I$T/lib -w"
gcc $CF -fsanitize=address,undefined -fno-sanitize-recover=undefined $D/fuzz.c $SRCS -L$T/lib/.libs -lqb -lpthread -o $D/fuzz || exit 1
gcc $CF -fsanitize=thread $D/fuzz.c $SRCS -L$T/lib/.libs -lqb -lpthread -o $D/fuzz_tsan || exit 1
