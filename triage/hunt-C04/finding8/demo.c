/*
 * finding 8 (socket transport): same root cause as finding 5 - a disconnected
 * connection keeps the numbers of its closed descriptors - seen from the
 * sending side: an event sent to a closed connection the application still
 * holds a reference on is written to whatever now owns that descriptor
 * number; here it is delivered to another client.
 *
 *  1. client A connects; created() takes an application reference
 *  2. client A goes away: closed(A) -> 0, A lingers, its fds are closed
 *  3. client B connects; on the server its sockets get A's old numbers
 *     (that is what happens naturally when one client replaces another;
 *      the demo plugs/unplugs fds only because its clients live in the
 *      same process)
 *  4. server sends event "for-B" to B, then event "for-A" to A
 *  5. client B reads its event channel
 */
#include "demo_common.h"

static qb_ipcs_connection_t *conn[2];
static int n_conn;

static int32_t cb_accept(qb_ipcs_connection_t *c, uid_t u, gid_t g) { return 0; }
static void cb_created(qb_ipcs_connection_t *c)
{
	if (n_conn == 0) qb_ipcs_connection_ref(c);
	if (n_conn < 2) conn[n_conn++] = c;
}
static int32_t cb_msg(qb_ipcs_connection_t *c, void *d, size_t s) { return 0; }
static int32_t cb_closed(qb_ipcs_connection_t *c) { SAY("  closed(%c)", c == conn[0] ? 'A' : 'B'); return 0; }
static void cb_destroyed(qb_ipcs_connection_t *c) { SAY("  destroyed(%c)", c == conn[0] ? 'A' : 'B'); }

struct ev { struct qb_ipc_response_header h; char text[16]; };

static int scenario(enum qb_ipc_type t)
{
	struct qb_ipcs_service_handlers sh = { cb_accept, cb_created, cb_msg, cb_closed, cb_destroyed };
	char name[64];
	struct h_client cl[2];
	qb_ipcs_service_t *s;
	int X[3], i, nfill = 0, fill[256], res = 1, got_for_a = 0;
	struct ev e;
	ssize_t r;

	s = demo_service("f8", t, &sh, NULL, name);
	if (h_client_connect(&cl[0], name, 8192) != 0 || n_conn != 1) { SAY("connect A failed"); return 97; }
	X[0] = conn[0]->setup.u.us.sock; X[1] = conn[0]->request.u.us.sock; X[2] = conn[0]->event.u.us.sock;
	SAY("1. A connected (server fds %d %d %d), application holds a reference; 2. client A disconnects", X[0], X[1], X[2]);
	h_client_disconnect(&cl[0]);
	h_pump(3);

	for (;;) {
		int f = open("/dev/null", O_RDONLY);
		if (f < 0 || nfill >= 255) { SAY("cannot plug fds"); return 97; }
		if (f > X[2]) { close(f); break; }
		fill[nfill++] = f;
	}
	if (h_client_start(&cl[1], name, 8192) != 0) { SAY("connect B failed"); return 97; }
	close(X[0]); close(X[1]); close(X[2]);
	for (i = 0; i < 50 && res == 1; i++) {
		h_pump(1);
		res = h_client_continue(&cl[1]);
	}
	for (i = 0; i < nfill; i++) if (fill[i] != X[0] && fill[i] != X[1] && fill[i] != X[2]) close(fill[i]);
	if (res != 0 || n_conn != 2) { SAY("connect B failed (%d)", res); return 97; }
	SAY("3. B connected (server fds %d %d %d)", conn[1]->setup.u.us.sock, conn[1]->request.u.us.sock, conn[1]->event.u.us.sock);
	if (conn[1]->event.u.us.sock != X[2]) { SAY("fd plan did not work out"); return 97; }

	memset(&e, 0, sizeof(e));
	e.h.id = 1; e.h.size = sizeof(e);
	strcpy(e.text, "for-B");
	r = qb_ipcs_event_send(conn[1], &e, sizeof(e));
	SAY("4. qb_ipcs_event_send(B, \"for-B\") -> %zd", r);
	strcpy(e.text, "for-A");
	r = qb_ipcs_event_send(conn[0], &e, sizeof(e));
	SAY("   qb_ipcs_event_send(A, \"for-A\") -> %zd   (A was closed in step 2)", r);
	if (r == sizeof(e)) BAD("an event for the closed connection A was reported as sent");

	SAY("5. client B reads its events");
	for (i = 0; i < 3; i++) {
		memset(&e, 0, sizeof(e));
		r = qb_ipcc_event_recv(cl[1].cc, &e, sizeof(e), 0);
		if (r < 0) break;
		SAY("   client B received event \"%s\"", e.text);
		if (strcmp(e.text, "for-A") == 0) got_for_a = 1;
	}
	if (got_for_a) BAD("client B received the event that was sent to connection A");
	qb_ipcs_connection_unref(conn[0]);
	h_client_disconnect(&cl[1]);
	h_pump(3);
	qb_ipcs_destroy(s);
	return demo_bad ? 1 : 0;
}

int main(int argc, char **argv)
{
	return demo_child("socket", scenario, QB_IPC_SOCKET) ? 1 : 0;
}
