/*
 * finding 7: qbipcs.h documents that, of the poll handlers, "only job_add
 * can be NULL".  With job_add == NULL, a closed() callback that returns
 * non-zero ("call me again") makes qb_ipcs_disconnect() call through the
 * NULL pointer instead of repeating closed().
 *
 *  1. poll handlers with job_add = NULL; client connects
 *  2. client disconnects; closed() returns 1 once, then 0
 */
#include "demo_common.h"
#include <setjmp.h>

static int n_closed, n_destroyed;

static int32_t cb_accept(qb_ipcs_connection_t *c, uid_t u, gid_t g) { return 0; }
static void cb_created(qb_ipcs_connection_t *c) { }
static int32_t cb_msg(qb_ipcs_connection_t *c, void *d, size_t s) { return 0; }
static int32_t cb_closed(qb_ipcs_connection_t *c)
{
	n_closed++;
	SAY("  closed() call %d -> %d", n_closed, n_closed == 1);
	return n_closed == 1;
}
static void cb_destroyed(qb_ipcs_connection_t *c) { n_destroyed++; SAY("  destroyed() call %d", n_destroyed); }

static int scenario(enum qb_ipc_type t)
{
	struct qb_ipcs_service_handlers sh = { cb_accept, cb_created, cb_msg, cb_closed, cb_destroyed };
	struct qb_ipcs_poll_handlers ph = H_ph;
	char name[64];
	struct h_client cl;
	qb_ipcs_service_t *s;

	ph.job_add = NULL;
	s = demo_service("f7", t, &sh, &ph, name);
	if (h_client_connect(&cl, name, 8192) != 0) { SAY("connect failed"); return 97; }
	SAY("1. connected (job_add == NULL); 2. client disconnects");
	h_client_disconnect(&cl);
	h_pump(5);
	SAY("done: closed %d destroyed %d", n_closed, n_destroyed);
	if (n_destroyed != 1) BAD("destroyed called %d times", n_destroyed);
	qb_ipcs_destroy(s);
	return demo_bad ? 1 : 0;
}

int main(int argc, char **argv)
{
	int bad = 0;
	bad += demo_child("shm", scenario, QB_IPC_SHM);
	bad += demo_child("socket", scenario, QB_IPC_SOCKET);
	return bad ? 1 : 0;
}
