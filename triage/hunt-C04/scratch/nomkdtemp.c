#include "demo_common.h"
static int fail_mkdtemp;
char *mkdtemp(char *t) { 
	if (fail_mkdtemp) { errno = ENOSPC; return NULL; }
	/* poor man's */
	{ size_t n = strlen(t); static int k; snprintf(t + n - 6, 7, "%06d", ++k % 1000000); if (mkdir(t, 0700) == 0) return t; return NULL; }
}
static int n_accept, n_destroyed;
static int32_t cb_accept(qb_ipcs_connection_t *c, uid_t u, gid_t g) { n_accept++; SAY(" accept %p", c); return 0; }
static void cb_created(qb_ipcs_connection_t *c) { SAY(" created %p", c); }
static int32_t cb_msg(qb_ipcs_connection_t *c, void *d, size_t s) { return 0; }
static int32_t cb_closed(qb_ipcs_connection_t *c) { SAY(" closed %p", c); return 0; }
static void cb_destroyed(qb_ipcs_connection_t *c) { n_destroyed++; SAY(" destroyed %p ctx %p", c, qb_ipcs_context_get(c)); }
int main(int argc, char **argv)
{
	struct qb_ipcs_service_handlers sh = { cb_accept, cb_created, cb_msg, cb_closed, cb_destroyed };
	char name[64]; struct h_client cl; int res;
	qb_ipcs_service_t *s = demo_service("sc", demo_type(argc, argv, QB_IPC_SHM), &sh, NULL, name);
	fail_mkdtemp = 1;
	res = h_client_connect(&cl, name, 8192);
	SAY("connect -> %d; accept %d destroyed %d", res, n_accept, n_destroyed);
	qb_ipcs_destroy(s);
	return 0;
}
