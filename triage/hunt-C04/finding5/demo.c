/*
 * finding 5 (socket transport): a disconnected connection keeps the numbers
 * of its closed file descriptors.  While it lingers on the service's list
 * (application reference, or closed() asking for a retry), a rate limit
 * change calls dispatch_mod() with that stale descriptor number.  If the
 * number now belongs to another connection, that connection's poll entry is
 * re-pointed at the lingering connection - and keeps pointing at it after it
 * has been destroyed and freed.
 *
 *  1. client A connects; created() takes an application reference
 *  2. server disconnects A: closed(A) -> 0, A lingers, its fds are closed;
 *     X := A's (closed) event socket number
 *  3. client B connects and its setup socket gets number X
 *     (the demo plugs the other free numbers so that accept() returns X)
 *  4. qb_ipcs_request_rate_limit(s, QB_IPCS_RATE_FAST)
 *     -> dispatch_mod(X, data = A)     B's liveliness entry now says "A"
 *  5. application drops its reference: destroyed(A), A freed
 *  6. client B goes away -> poll event on X -> dispatched with data = A
 */
#include "demo_common.h"

static qb_ipcs_connection_t *conn[2];
static int n_conn, n_closed[2], n_destroyed[2];
static int idx(qb_ipcs_connection_t *c) { return c == conn[0] ? 0 : c == conn[1] ? 1 : -1; }

static int32_t cb_accept(qb_ipcs_connection_t *c, uid_t u, gid_t g) { return 0; }
static void cb_created(qb_ipcs_connection_t *c)
{
	if (n_conn == 0) qb_ipcs_connection_ref(c);	/* A: kept by the application */
	if (n_conn < 2) conn[n_conn++] = c;
}
static int32_t cb_msg(qb_ipcs_connection_t *c, void *d, size_t s) { return 0; }
static int32_t cb_closed(qb_ipcs_connection_t *c)
{
	int i = idx(c);
	if (i < 0) { BAD("closed() for unknown connection"); return 0; }
	n_closed[i]++;
	SAY("  closed(%c) call %d", "AB"[i], n_closed[i]);
	if (n_destroyed[i]) BAD("closed(%c) after destroyed(%c)", "AB"[i], "AB"[i]);
	if (n_closed[i] > 1) BAD("closed(%c) invoked again after it returned 0", "AB"[i]);
	return 0;
}
static void cb_destroyed(qb_ipcs_connection_t *c)
{
	int i = idx(c);
	if (i < 0) { BAD("destroyed() for unknown connection"); return; }
	n_destroyed[i]++;
	SAY("  destroyed(%c) call %d", "AB"[i], n_destroyed[i]);
}

static int dm_calls;
static int32_t
my_dispatch_mod(enum qb_loop_priority p, int32_t fd, int32_t events, void *data, qb_ipcs_dispatch_fn_t fn)
{
	int32_t res = qb_loop_poll_mod(H_loop, p, fd, events, data, fn);
	int i = idx(data);
	SAY("  dispatch_mod(fd %d, data = connection %c) -> %d", fd, i < 0 ? '?' : "AB"[i], res);
	dm_calls++;
	return res;
}

static int scenario(enum qb_ipc_type t)
{
	struct qb_ipcs_service_handlers sh = { cb_accept, cb_created, cb_msg, cb_closed, cb_destroyed };
	struct qb_ipcs_poll_handlers ph = H_ph;
	char name[64];
	struct h_client cl[2];
	qb_ipcs_service_t *s;
	int X, i, nfill = 0, fill[256], res = 1;

	ph.dispatch_mod = my_dispatch_mod;
	s = demo_service("f5", t, &sh, &ph, name);

	if (h_client_connect(&cl[0], name, 8192) != 0 || n_conn != 1) { SAY("connect A failed"); return 97; }
	SAY("1. A connected (application holds a reference); 2. server disconnects A");
	qb_ipcs_disconnect(conn[0]);
	X = conn[0]->event.u.us.sock;
	SAY("   A lingers (closed %d destroyed %d); its closed event socket was fd %d", n_closed[0], n_destroyed[0], X);

	/* make sure the next accept() on the server side returns X */
	for (;;) {
		int f = open("/dev/null", O_RDONLY);
		if (f < 0 || nfill >= 255) { SAY("cannot plug fds"); return 97; }
		if (f > X) { close(f); break; }
		fill[nfill++] = f;
	}
	if (h_client_start(&cl[1], name, 8192) != 0) { SAY("connect B failed"); return 97; }
	close(X);		/* the plug sitting on X */
	for (i = 0; i < 50 && res == 1; i++) {
		h_pump(1);
		res = h_client_continue(&cl[1]);
	}
	for (i = 0; i < nfill; i++) if (fill[i] != X) close(fill[i]);
	if (res != 0 || n_conn != 2) { SAY("connect B failed (%d)", res); return 97; }
	SAY("3. B connected, its setup socket is fd %d, request socket fd %d", conn[1]->setup.u.us.sock, conn[1]->request.u.us.sock);
	if (conn[1]->setup.u.us.sock != X && conn[1]->request.u.us.sock != X) { SAY("fd plan did not work out"); return 97; }

	SAY("4. qb_ipcs_request_rate_limit(QB_IPCS_RATE_FAST)");
	qb_ipcs_request_rate_limit(s, QB_IPCS_RATE_FAST);
	SAY("5. application drops its reference on A");
	qb_ipcs_connection_unref(conn[0]);
	if (n_destroyed[0] != 1) BAD("destroyed(A) called %d times", n_destroyed[0]);
	SAY("6. client B disconnects, loop runs");
	h_client_disconnect(&cl[1]);
	h_pump(4);
	SAY("done: closed A %d B %d, destroyed A %d B %d", n_closed[0], n_closed[1], n_destroyed[0], n_destroyed[1]);
	if (n_closed[1] != 1 || n_destroyed[1] != 1) BAD("B was not closed/destroyed exactly once");
	qb_ipcs_destroy(s);
	return demo_bad ? 1 : 0;
}

int main(int argc, char **argv)
{
	return demo_child("socket", scenario, QB_IPC_SOCKET) ? 1 : 0;
}
