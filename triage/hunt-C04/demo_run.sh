#!/bin/sh
# usage: demo_run.sh <finding-dir> <tree> [args...]
D=$(cd "$1" && pwd); TREE=${2:-/repo}; shift; shift
HERE=$(cd "$(dirname "$0")" && pwd)
sh "$HERE/build.sh" "$TREE" "$D/demo.c" "$D/demo.bin" >/dev/null 2>"$D/build.log" || { cat "$D/build.log"; echo "BUILD FAILED"; exit 99; }
LD_LIBRARY_PATH="$TREE/lib/.libs" ASAN_OPTIONS=detect_leaks=0 UBSAN_OPTIONS=print_stacktrace=1 "$D/demo.bin" "$@"
rc=$?
echo "exit code $rc"
exit $rc
