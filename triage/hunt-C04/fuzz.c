/*
 * C04 model-based randomized tester: IPC server connection life cycle.
 *
 * One process, one thread.  A qb_loop hosts the server, in-process clients
 * are driven through the async connect API.  Every server callback is checked
 * against a reference model of the promised order
 *    accept, created, msg*, closed (while != 0), destroyed
 * and of the reference counting (destroyed only once nobody holds a ref,
 * nothing afterwards).  Memory safety is checked by ASan/UBSan.
 *
 * Build: ./build.sh [tree]   Run: LD_LIBRARY_PATH=<tree>/lib/.libs ./fuzz ...
 * VERBOSE=1 prints every operation, H_TRACE=1 also the poll handler calls;
 * otherwise the last 300 operations are printed on a failure.
 * Exit: 0 clean, 3 model violation, 1 sanitizer report, 4 connection leaked.
 *
 * usage: fuzz <shm|sock> <seed> <nops> [flags]
 *   flags (bitmask, decimal or 0x..) switch off operation classes so that a
 *   known finding does not hide the next one:
 *     0x01  never destroy the service while a disconnected connection lingers
 *           (extra app reference or pending closed() retry)
 *     0x02  callbacks never touch *other* connections
 *     0x04  closed() never asks for a retry
 *     0x08  never destroy the service at all
 *     0x10  no rate limit changes
 *     0x20  application never takes extra references
 *     0x40  (enable) disconnect again a connection that is already closed but
 *           still referenced by the application
 *     0x80  (enable) send / ref+unref from inside destroyed()
 *    0x100  no disconnect from inside created()
 *    0x200  no rate limit change while a disconnected connection lingers
 *    0x400  callbacks running under qb_ipcs_destroy() never touch other connections
 */
#include "harness.h"
#include <stdarg.h>

int usleep(useconds_t u) { (void)u; return 0; }	/* no 100ms naps in connect-on-send */

extern void __sanitizer_set_death_callback(void (*cb)(void));

/* ---------------------------------------------------------------- prng */
static uint64_t rng_s;
static uint32_t
rnd(void)
{
	rng_s ^= rng_s << 13;
	rng_s ^= rng_s >> 7;
	rng_s ^= rng_s << 17;
	return (uint32_t)(rng_s >> 16);
}
#define RND(n) (rnd() % (n))
#define ONE_IN(n) (RND(n) == 0)

/* --------------------------------------------------------------- trace */
#define TR_N 300
static char tr_buf[TR_N][160];
static unsigned long tr_cnt;
static int verbose;

static void
TR(const char *fmt, ...)
{
	va_list ap;
	char *b = tr_buf[tr_cnt % TR_N];
	va_start(ap, fmt);
	vsnprintf(b, sizeof(tr_buf[0]), fmt, ap);
	va_end(ap);
	tr_cnt++;
	if (verbose) {
		fprintf(stderr, "%6lu %s\n", tr_cnt, b);
	}
}

static void
tr_dump(void)
{
	unsigned long i, from = tr_cnt > TR_N ? tr_cnt - TR_N : 0;
	if (verbose) {
		return;
	}
	fprintf(stderr, "---- last operations ----\n");
	for (i = from; i < tr_cnt; i++) {
		fprintf(stderr, "%6lu %s\n", i + 1, tr_buf[i % TR_N]);
	}
}

static int violations;
static void
VIOL(const char *fmt, ...)
{
	va_list ap;
	fprintf(stderr, "\nMODEL VIOLATION: ");
	va_start(ap, fmt);
	vfprintf(stderr, fmt, ap);
	va_end(ap);
	fprintf(stderr, "\n");
	tr_dump();
	violations++;
	fflush(stderr);
	_exit(3);
}

/* --------------------------------------------------------------- model */
enum { ST_ACCEPT, ST_CREATED, ST_NOCLOSE, ST_CLOSING, ST_CLOSED, ST_DESTROYED };
static const char *st_name[] = { "ACCEPT", "CREATED", "NOCLOSE", "CLOSING", "CLOSED", "DESTROYED" };

struct rec {
	qb_ipcs_connection_t *c;
	int id;
	int stage;
	int rejected;
	int app_refs;
	int iter_refs;		/* references held by a list iteration in progress */
	int retry_left;
	int closed_calls;
	int msgs;
	int svc_gen;
	int in_cb;		/* nesting of callbacks running for this rec */
};

#define MAX_LIVE 4096
static struct rec *live[MAX_LIVE];
static int nlive;
static int rec_ids;
static unsigned long n_accept, n_created, n_msg, n_closed, n_destroyed,
    n_destroy_noclose, n_retry, n_svc_destroy, n_ops;

static struct rec *
find_rec(qb_ipcs_connection_t *c)
{
	int i;
	for (i = 0; i < nlive; i++) {
		if (live[i]->c == c) {
			return live[i];
		}
	}
	return NULL;
}

static struct rec *
find_rec_id(int id)
{
	int i;
	for (i = 0; i < nlive; i++) {
		if (live[i]->id == id) {
			return live[i];
		}
	}
	return NULL;
}

static void
live_del(struct rec *r)
{
	int i;
	for (i = 0; i < nlive; i++) {
		if (live[i] == r) {
			live[i] = live[--nlive];
			return;
		}
	}
}

static int
lingering(void)
{
	int i, n = 0;
	for (i = 0; i < nlive; i++) {
		if (live[i]->stage == ST_CLOSING || live[i]->stage == ST_CLOSED ||
		    live[i]->stage == ST_NOCLOSE) {
			n++;
		}
	}
	return n;
}

/* ------------------------------------------------------------- globals */
static enum qb_ipc_type g_type;
static qb_ipcs_service_t *g_s;
static int g_gen;
static char g_name[64];
static unsigned g_flags;
static int cb_depth;
static int in_destroy;

#define F_NO_DESTROY_LINGER 0x01
#define F_NO_OTHERS 0x02
#define F_NO_RETRY 0x04
#define F_NO_DESTROY 0x08
#define F_NO_RATE 0x10
#define F_NO_REFS 0x20
#define F_REDISC 0x40
#define F_IN_DESTROYED 0x80
#define F_NO_DISC_IN_CREATED 0x100
#define F_NO_RATE_LINGER 0x200
#define F_NO_OTHERS_IN_DESTROY 0x400

static char big[2 * 1024 * 1024];

static void svc_destroy(const char *where);
static int winding_down;

/* ------------------------------------------------ application actions */
static void
app_ref(struct rec *r, const char *where)
{
	if (g_flags & F_NO_REFS) {
		return;
	}
	TR("  %s: ref #%d", where, r->id);
	r->app_refs++;
	qb_ipcs_connection_ref(r->c);
}

static void
app_unref(struct rec *r, const char *where)
{
	if (r->app_refs <= 0) {
		return;
	}
	TR("  %s: unref #%d (app_refs %d->%d)", where, r->id, r->app_refs, r->app_refs - 1);
	r->app_refs--;
	qb_ipcs_connection_unref(r->c);
}

static void
app_send(struct rec *r, const char *where)
{
	struct qb_ipc_response_header *h = (struct qb_ipc_response_header *)big;
	int32_t bs = qb_ipcs_connection_get_buffer_size(r->c);
	size_t len;
	ssize_t res;
	struct iovec iov[2];
	int how = RND(4);

	if (r->stage == ST_ACCEPT && g_type == QB_IPC_SOCKET) {
		return;	/* would write to fd 0 */
	}
	switch (RND(6)) {
	case 0: len = sizeof(*h); break;
	case 1: len = bs > 0 ? bs : 24; break;
	case 2: len = bs > 0 ? bs + 1 : 24; break;
	case 3: len = bs > 32 ? bs - 1 : 24; break;
	default: len = sizeof(*h) + RND(600); break;
	}
	if (len > sizeof(big)) len = sizeof(big);
	h->id = 77;
	h->size = len;
	h->error = 0;
	iov[0].iov_base = big;
	iov[0].iov_len = sizeof(*h);
	iov[1].iov_base = big + sizeof(*h);
	iov[1].iov_len = len - sizeof(*h);
	switch (how) {
	case 0: res = qb_ipcs_event_send(r->c, big, len); break;
	case 1: res = qb_ipcs_event_sendv(r->c, iov, 2); break;
	case 2: res = qb_ipcs_response_send(r->c, big, len); break;
	default: res = qb_ipcs_response_sendv(r->c, iov, 2); break;
	}
	TR("  %s: send(how %d) #%d len %zu -> %zd", where, how, r->id, len, res);
}

static void
app_disconnect(struct rec *r, const char *where)
{
	if ((g_flags & F_NO_DISC_IN_CREATED) && r->c->state == QB_IPCS_CONNECTION_ACTIVE) {
		return;
	}
	TR("  %s: disconnect #%d (stage %s)", where, r->id, st_name[r->stage]);
	if (r->stage == ST_CREATED && r->c->state == QB_IPCS_CONNECTION_ACTIVE) {
		/* from inside created(): the library will not call closed() */
		r->stage = ST_NOCLOSE;
	}
	qb_ipcs_disconnect(r->c);
}

static void
app_stats(struct rec *r)
{
	struct qb_ipcs_connection_stats st;
	TR("  stats #%d (stage %s, lib state %d)", r->id, st_name[r->stage], r->c->state);
	qb_ipcs_connection_stats_get(r->c, &st, RND(2));
	if (r->stage == ST_CREATED || r->stage == ST_CLOSING || r->stage == ST_CLOSED) {
		struct qb_ipcs_connection_stats_2 *s2 =
		    qb_ipcs_connection_stats_get_2(r->c, RND(2));
		free(s2);
	}
	(void)qb_ipcs_service_id_get(r->c);
	(void)qb_ipcs_connection_service_context_get(r->c);
}

static void
app_rate(const char *where)
{
	static const enum qb_ipcs_rate_limit rl[] = {
		QB_IPCS_RATE_FAST, QB_IPCS_RATE_NORMAL, QB_IPCS_RATE_SLOW,
		QB_IPCS_RATE_OFF, QB_IPCS_RATE_OFF_2, QB_IPCS_RATE_NORMAL,
		QB_IPCS_RATE_NORMAL
	};
	int i = RND(7);
	if (g_s == NULL || (g_flags & F_NO_RATE)) {
		return;
	}
	if ((g_flags & F_NO_RATE_LINGER) && lingering()) {
		return;
	}
	TR("  %s: rate_limit %d", where, rl[i]);
	if (verbose) {
		struct qb_list_head *pos;
		qb_list_for_each(pos, &g_s->connections) {
			struct qb_ipcs_connection *c = qb_list_entry(pos, struct qb_ipcs_connection, list);
			struct rec *r = find_rec(c);
			if (c->state != QB_IPCS_CONNECTION_ESTABLISHED || (g_type == QB_IPC_SHM && c->request.u.shm.rb == NULL)) {
				TR("    in list: #%d state %d refcount %d stage %s app_refs %d req.rb %p",
				   r ? r->id : -1, c->state, c->refcount, r ? st_name[r->stage] : "?",
				   r ? r->app_refs : -1, g_type == QB_IPC_SHM ? (void*)c->request.u.shm.rb : NULL);
			}
		}
	}
	qb_ipcs_request_rate_limit(g_s, rl[i]);
}

static void
app_iterate(const char *where)
{
	qb_ipcs_service_t *s = g_s;
	qb_ipcs_connection_t *c, *next;
	int gen = g_gen;
	int mode = RND(5);

	if (s == NULL) {
		return;
	}
	TR("  %s: iterate list mode %d", where, mode);
	c = qb_ipcs_connection_first_get(s);
	while (c) {
		struct rec *r = find_rec(c);
		if (r == NULL) {
			VIOL("connection list returned %p which is unknown/destroyed", c);
		}
		r->iter_refs++;
		if (mode == 1) {
			app_send(r, "iter");
		} else if (mode == 2 && r->stage == ST_CREATED && ONE_IN(2)) {
			app_disconnect(r, "iter");
		} else if (mode == 3) {
			app_stats(r);
		}
		if (g_s != s || g_gen != gen) {
			/* service destroyed under us by a callback: stop using it */
			r->iter_refs--;
			qb_ipcs_connection_unref(c);
			return;
		}
		next = qb_ipcs_connection_next_get(s, c);
		r->iter_refs--;
		qb_ipcs_connection_unref(c);
		c = next;
	}
}

/* act on some other (or the same) live connection */
static void
side_op(const char *where)
{
	struct rec *o;
	if (nlive == 0) {
		return;
	}
	o = live[RND(nlive)];
	switch (RND(8)) {
	case 0:
	case 1:
		if (ONE_IN(2)) app_ref(o, where);
		break;
	case 2:
	case 3:
		app_unref(o, where);
		break;
	case 4:
		if (o->stage == ST_CREATED && o->c->state == QB_IPCS_CONNECTION_ESTABLISHED) {
			app_disconnect(o, where);
		} else if ((g_flags & F_REDISC) && o->app_refs > 0 &&
			   o->stage == ST_CLOSED && o->in_cb == 0) {
			app_disconnect(o, where);
		}
		break;
	case 5:
	case 6:
		if (o->stage != ST_ACCEPT) app_send(o, where);
		break;
	default:
		app_stats(o);
		break;
	}
}

static void
cb_extras(struct rec *self, const char *where)
{
	if (cb_depth > 3) {
		return;
	}
	if (!(g_flags & F_NO_OTHERS) && !((g_flags & F_NO_OTHERS_IN_DESTROY) && in_destroy) && ONE_IN(5)) {
		side_op(where);
	}
	if (ONE_IN(25)) {
		app_rate(where);
	}
	if (ONE_IN(25)) {
		app_iterate(where);
	}
	if (ONE_IN(400) && !in_destroy) {
		svc_destroy(where);
	}
	(void)self;
}

/* ----------------------------------------------------------- callbacks */
static int32_t
cb_accept(qb_ipcs_connection_t *c, uid_t uid, gid_t gid)
{
	struct rec *r = find_rec(c);
	int32_t ret;

	if (r) {
		VIOL("accept(%p): that connection (#%d, %s) was never destroyed",
		     c, r->id, st_name[r->stage]);
	}
	if (nlive >= MAX_LIVE) {
		VIOL("too many live connections (harness limit)");
	}
	r = calloc(1, sizeof(*r));
	r->c = c;
	r->id = ++rec_ids;
	r->stage = ST_ACCEPT;
	r->svc_gen = g_gen;
	live[nlive++] = r;
	n_accept++;
	qb_ipcs_context_set(c, r);
	ret = ONE_IN(8) ? -EACCES : 0;
	r->rejected = (ret != 0);
	if (!(g_flags & F_NO_RETRY) && ONE_IN(4)) {
		r->retry_left = 1 + RND(3);
	}
	TR("CB accept #%d c=%p -> %d", r->id, c, ret);
	cb_depth++;
	r->in_cb++;
	if (ONE_IN(6)) app_ref(r, "accept");
	if (ONE_IN(10)) qb_ipcs_connection_auth_set(c, uid, gid, 0600 | (RND(2) ? 0060 : 0));
	if (ONE_IN(12)) app_disconnect(r, "accept");
	if (ONE_IN(12)) app_send(r, "accept");
	cb_extras(r, "accept");
	r->in_cb--;
	cb_depth--;
	return ret;
}

static void
cb_created(qb_ipcs_connection_t *c)
{
	struct rec *r = find_rec(c);

	if (r == NULL) {
		VIOL("created(%p): unknown or already destroyed connection", c);
	}
	if (r->stage != ST_ACCEPT) {
		VIOL("created(#%d) in stage %s", r->id, st_name[r->stage]);
	}
	if (r->rejected) {
		VIOL("created(#%d) although accept said no", r->id);
	}
	r->stage = ST_CREATED;
	n_created++;
	TR("CB created #%d", r->id);
	cb_depth++;
	r->in_cb++;
	if (ONE_IN(5)) app_ref(r, "created");
	if (ONE_IN(6)) app_send(r, "created");
	if (!(g_flags & F_NO_DISC_IN_CREATED) && ONE_IN(12)) app_disconnect(r, "created");
	if (ONE_IN(10)) app_send(r, "created");
	if (ONE_IN(10)) app_unref(r, "created");
	cb_extras(r, "created");
	r->in_cb--;
	cb_depth--;
}

static int32_t
cb_msg(qb_ipcs_connection_t *c, void *data, size_t size)
{
	struct rec *r = find_rec(c);
	struct qb_ipc_request_header *h = data;
	int32_t ret = 0;

	if (r == NULL) {
		VIOL("msg_process(%p): unknown or already destroyed connection", c);
	}
	if (r->stage != ST_CREATED) {
		VIOL("msg_process(#%d) in stage %s", r->id, st_name[r->stage]);
	}
	if (size < sizeof(*h) || h->size != (int32_t)size) {
		VIOL("msg_process(#%d): size %zu hdr->size %d", r->id, size, h->size);
	}
	r->msgs++;
	n_msg++;
	TR("CB msg #%d id %d size %zu", r->id, h->id, size);
	cb_depth++;
	r->in_cb++;
	switch (RND(14)) {
	case 0: case 1: case 2:
		app_send(r, "msg");
		break;
	case 3:
		app_disconnect(r, "msg");
		break;
	case 4:
		app_ref(r, "msg");
		break;
	case 5:
		app_unref(r, "msg");
		break;
	case 6:
		app_disconnect(r, "msg");
		app_send(r, "msg");
		break;
	case 7:
		app_ref(r, "msg");
		app_disconnect(r, "msg");
		app_unref(r, "msg");
		break;
	case 8:
		ret = -1 - (int)RND(3);
		break;
	case 9:
		app_send(r, "msg");
		app_send(r, "msg");
		break;
	default:
		break;
	}
	cb_extras(r, "msg");
	r->in_cb--;
	cb_depth--;
	return ret;
}

static int32_t
cb_closed(qb_ipcs_connection_t *c)
{
	struct rec *r = find_rec(c);
	int32_t ret;

	if (r == NULL) {
		VIOL("closed(%p): unknown or already destroyed connection", c);
	}
	if (r->stage == ST_ACCEPT) {
		VIOL("closed(#%d) but created was never called", r->id);
	}
	if (r->stage == ST_CLOSED) {
		VIOL("closed(#%d) called again after it returned 0 (call %d, app_refs %d)",
		     r->id, r->closed_calls + 1, r->app_refs);
	}
	r->closed_calls++;
	n_closed++;
	if (r->retry_left > 0) {
		r->retry_left--;
		r->stage = ST_CLOSING;
		ret = ONE_IN(2) ? 1 : -EAGAIN;
		n_retry++;
	} else {
		r->stage = ST_CLOSED;
		ret = 0;
	}
	TR("CB closed #%d call %d -> %d", r->id, r->closed_calls, ret);
	cb_depth++;
	r->in_cb++;
	if (ONE_IN(8)) app_ref(r, "closed");
	if (ONE_IN(8)) app_send(r, "closed");
	if (ONE_IN(6)) app_unref(r, "closed");
	if (ONE_IN(20)) app_stats(r);
	cb_extras(r, "closed");
	r->in_cb--;
	cb_depth--;
	return ret;
}

static void
cb_destroyed(qb_ipcs_connection_t *c)
{
	struct rec *r = find_rec(c);

	if (r == NULL) {
		VIOL("destroyed(%p): unknown or already destroyed connection", c);
	}
	if (r->app_refs + r->iter_refs > 0) {
		VIOL("destroyed(#%d) while the application still holds %d reference(s) (stage %s)",
		     r->id, r->app_refs + r->iter_refs, st_name[r->stage]);
	}
	if (r->stage == ST_CLOSING) {
		VIOL("destroyed(#%d) although closed last returned non-zero", r->id);
	}
	if (r->in_cb > 0) {
		VIOL("destroyed(#%d) from inside one of its own callbacks (nesting %d)", r->id, r->in_cb);
	}
	if (r->stage == ST_CREATED) {
		n_destroy_noclose++;
	}
	TR("CB destroyed #%d (was %s)", r->id, st_name[r->stage]);
	r->stage = ST_DESTROYED;
	n_destroyed++;
	live_del(r);
	cb_depth++;
	if (g_flags & F_IN_DESTROYED) {
		if (ONE_IN(4)) {
			struct qb_ipcs_connection_stats st;
			qb_ipcs_connection_stats_get(c, &st, 0);
		}
		if (ONE_IN(4)) {
			TR("  destroyed: event_send");
			qb_ipcs_event_send(c, big, 24);
		}
	}
	if (ONE_IN(4)) {
		(void)qb_ipcs_context_get(c);
	}
	cb_extras(NULL, "destroyed");
	cb_depth--;
	free(r);
}

static struct qb_ipcs_service_handlers g_sh = {
	.connection_accept = cb_accept,
	.connection_created = cb_created,
	.msg_process = cb_msg,
	.connection_closed = cb_closed,
	.connection_destroyed = cb_destroyed,
};

/* ------------------------------------------------------------- service */
static void
svc_create(void)
{
	int32_t res;

	g_gen++;
	snprintf(g_name, sizeof(g_name), "hc04-%d-%d", (int)getpid(), g_gen);
	g_s = qb_ipcs_create(g_name, g_gen, g_type, &g_sh);
	if (g_s == NULL) {
		perror("qb_ipcs_create");
		exit(1);
	}
	qb_ipcs_poll_handlers_set(g_s, &H_ph);
	if (ONE_IN(3)) {
		static const uint32_t bs[] = { 0, 1, 4096, 12345, 65536, 200000 };
		qb_ipcs_enforce_buffer_size(g_s, bs[RND(6)]);
	}
	res = qb_ipcs_run(g_s);
	if (res != 0) {
		fprintf(stderr, "qb_ipcs_run: %d\n", res);
		exit(1);
	}
	TR("OP service create %s", g_name);
}

static void
svc_destroy(const char *where)
{
	qb_ipcs_service_t *s = g_s;

	if (s == NULL) {
		return;
	}
	if (winding_down != 2) {
		if (winding_down || (g_flags & F_NO_DESTROY)) {
			return;
		}
		if ((g_flags & F_NO_DESTROY_LINGER) && lingering()) {
			return;
		}
	}
	TR("  %s: SERVICE DESTROY %s (live %d, lingering %d)", where, g_name, nlive, lingering());
	g_s = NULL;
	n_svc_destroy++;
	in_destroy++;
	qb_ipcs_destroy(s);
	in_destroy--;
	{
		int i;
		for (i = 0; i < nlive; i++) {
			/* a connection the destroy caught inside its created() callback */
			if (live[i]->stage == ST_CREATED &&
			    live[i]->c->state == QB_IPCS_CONNECTION_INACTIVE) {
				live[i]->stage = ST_NOCLOSE;
			}
		}
	}
}

/* ------------------------------------------------------------- clients */
#define NCLI 10
static struct h_client cli[NCLI];

static size_t
pick_size(void)
{
	static const size_t sz[] = { 0, 1, 24, 1000, 4095, 4096, 4097, 8192, 12328,
		12329, 20000, 65536, 131072, 400000 };
	return sz[RND(sizeof(sz) / sizeof(sz[0]))];
}

static void
raw_client(void)
{
	/* a peer that is not libqb: garbage / partial / odd handshakes */
	struct sockaddr_un a;
	struct qb_ipc_connection_request rq;
	int fd = socket(PF_UNIX, SOCK_STREAM, 0);
	int how = RND(5);
	size_t n;

	if (fd < 0) return;
	memset(&a, 0, sizeof(a));
	a.sun_family = AF_UNIX;
	snprintf(a.sun_path + 1, sizeof(a.sun_path) - 1, "%s", g_name);
	if (connect(fd, (struct sockaddr *)&a, sizeof(a.sun_family) + 1 + strlen(g_name)) < 0) {
		close(fd);
		return;
	}
	memset(&rq, 0, sizeof(rq));
	rq.hdr.id = QB_IPC_MSG_AUTHENTICATE;
	rq.hdr.size = sizeof(rq);
	rq.max_msg_size = pick_size();
	n = sizeof(rq);
	if (how == 0) n = RND(sizeof(rq));
	if (how == 1) rq.hdr.id = 5;
	if (how == 2) rq.max_msg_size = 3;
	TR("OP raw client how %d", how);
	if (n) {
		(void)send(fd, &rq, n, MSG_NOSIGNAL | MSG_DONTWAIT);
	}
	if (how == 3) {
		h_pump(1);	/* let the server get half way */
	}
	if (how == 4) {
		h_pump(2);
	}
	close(fd);
}

static void
client_op(void)
{
	struct h_client *cl = &cli[RND(NCLI)];
	int idx = (int)(cl - cli);
	int res;

	switch (cl->state) {
	case HC_NONE:
		if (g_s == NULL) {
			return;
		}
		if (ONE_IN(15)) {
			raw_client();
			return;
		}
		res = h_client_start(cl, g_name, pick_size());
		TR("OP client %d connect start -> %d", idx, res);
		break;
	case HC_CONNECTING:
		if (ONE_IN(10)) {
			TR("OP client %d killed while connecting", idx);
			h_client_kill(cl);
			break;
		}
		res = h_client_continue(cl);
		TR("OP client %d connect continue -> %d", idx, res);
		break;
	case HC_CONNECTED:
		switch (RND(12)) {
		case 0:
			TR("OP client %d disconnect", idx);
			h_client_disconnect(cl);
			break;
		case 1:
			TR("OP client %d killed", idx);
			h_client_kill(cl);
			break;
		case 2: case 3:
		{
			/* drain responses and events */
			int i;
			for (i = 0; i < 8; i++) {
				if (qb_ipcc_recv(cl->cc, big, sizeof(big), 0) < 0) break;
			}
			for (i = 0; i < 8; i++) {
				if (qb_ipcc_event_recv(cl->cc, big, sizeof(big), 0) < 0) break;
			}
			break;
		}
		default:
		{
			struct qb_ipc_request_header *h = (struct qb_ipc_request_header *)big;
			int32_t bs = qb_ipcc_get_buffer_size(cl->cc);
			size_t len;
			int k, burst = ONE_IN(4) ? 1 + RND(8) : 1;

			for (k = 0; k < burst; k++) {
				switch (RND(8)) {
				case 0: len = bs; break;
				case 1: len = bs + 1; break;
				case 2: len = sizeof(*h); break;
				default: len = sizeof(*h) + RND(500); break;
				}
				if (len > sizeof(big)) len = sizeof(big);
				h->id = RND(20);
				h->size = len;
				if (ONE_IN(40)) h->id = QB_IPC_MSG_DISCONNECT;
				if (ONE_IN(60)) h->size = len + 8;	/* lies */
				if (ONE_IN(60)) h->size = 3;
				if (ONE_IN(80)) len = 4;		/* shorter than a header */
				if (cl->sent > 40) {
					break;
				}
				res = qb_ipcc_send(cl->cc, big, len);
				if (res > 0) cl->sent++;
				TR("OP client %d send id %d len %zu -> %d", idx, h->id, len, res);
			}
			break;
		}
		}
		break;
	case HC_DEAD:
		TR("OP client %d reaped", idx);
		h_client_reap(cl);
		break;
	}
}

static void
server_op(void)
{
	switch (RND(16)) {
	case 0: case 1: case 2: case 3:
		side_op("main");
		break;
	case 4:
		app_rate("main");
		break;
	case 5:
		app_iterate("main");
		break;
	case 6:
		if (ONE_IN(12)) {
			svc_destroy("main");
		}
		break;
	case 9: case 10:
		if (nlive) {
			struct rec *o = live[RND(nlive)];
			int id = o->id;
			while (find_rec_id(id) && o->app_refs > 0) {
				app_unref(o, "main");
			}
		}
		break;
	case 7:
		if (g_s == NULL && ONE_IN(2)) {
			svc_create();
		}
		break;
	case 8:
		if (g_s) {
			struct qb_ipcs_stats st;
			qb_ipcs_stats_get(g_s, &st, RND(2));
		}
		break;
	default:
		break;
	}
}

static void
on_death(void)
{
	fprintf(stderr, "\n(sanitizer report above) ");
	tr_dump();
}

int
main(int argc, char **argv)
{
	unsigned long nops, i;
	int k;

	if (argc < 4) {
		fprintf(stderr, "usage: %s <shm|sock> <seed> <nops> [flags]\n", argv[0]);
		return 2;
	}
	g_type = strcmp(argv[1], "sock") == 0 ? QB_IPC_SOCKET : QB_IPC_SHM;
	rng_s = strtoull(argv[2], NULL, 0) * 0x9E3779B97F4A7C15ULL + 0x1234567;
	nops = strtoul(argv[3], NULL, 0);
	g_flags = argc > 4 ? strtoul(argv[4], NULL, 0) : 0;
	verbose = getenv("VERBOSE") != NULL;
	signal(SIGPIPE, SIG_IGN);
	__sanitizer_set_death_callback(on_death);
	for (k = 0; k < 20; k++) rnd();

	H_loop = qb_loop_create();
	svc_create();

	for (i = 0; i < nops; i++) {
		n_ops++;
		switch (RND(10)) {
		case 0: case 1: case 2: case 3:
			client_op();
			break;
		case 4: case 5:
			server_op();
			break;
		default:
			h_pump(1);
			/* the server has had a chance to read */
			for (k = 0; k < NCLI; k++) cli[k].sent = 0;
			break;
		}
	}

	/* wind down: everything goes away, every connection must get destroyed */
	TR("OP wind down");
	for (k = 0; k < NCLI; k++) {
		if (cli[k].state == HC_CONNECTED || cli[k].state == HC_CONNECTING) h_client_kill(&cli[k]);
		h_client_reap(&cli[k]);
	}
	h_pump(5);
	winding_down = 1;
	if (g_flags & F_NO_DESTROY_LINGER) {
		/* let lingering ones go first */
		for (k = 0; k < 10000 && nlive; k++) {
			int j;
			for (j = 0; j < nlive; j++) {
				if (live[j]->app_refs > 0) {
					app_unref(live[j], "wind");
					break;
				}
			}
			h_pump(1);
			if (!lingering()) break;
		}
	}
	winding_down = 2;
	svc_destroy("wind");
	winding_down = 1;
	for (k = 0; k < 10000 && nlive; k++) {
		int j;
		for (j = 0; j < nlive; j++) {
			if (live[j]->app_refs > 0) {
				app_unref(live[j], "wind");
				break;
			}
		}
		h_pump(1);
	}
	h_pump(5);
	printf("type %s seed %s ops %lu flags 0x%x: accept %lu created %lu msg %lu closed %lu (retries %lu) destroyed %lu (w/o closed %lu) svc-destroys %lu job_add %d still-live %d\n",
	       argv[1], argv[2], n_ops, g_flags, n_accept, n_created, n_msg, n_closed, n_retry,
	       n_destroyed, n_destroy_noclose, n_svc_destroy, H_job_add_calls, nlive);
	if (nlive) {
		int j;
		for (j = 0; j < nlive && j < 5; j++) {
			fprintf(stderr, "  never destroyed: #%d stage %s app_refs %d lib refcount %d\n",
				live[j]->id, st_name[live[j]->stage], live[j]->app_refs, live[j]->c->refcount);
		}
		tr_dump();
		return 4;
	}
	qb_loop_destroy(H_loop);
	return 0;
}
