/*
 * finding 3: qb_ipcs_destroy() walks the connection list with a saved
 * "next" pointer; a closed() callback that disconnects another connection
 * (which thereby gets destroyed and freed) leaves that pointer dangling.
 *
 *  1. clients A and B connect (list order: B, A - new ones go to the head)
 *  2. qb_ipcs_destroy(s): visits B first, remembers A as next
 *  3. closed(B): the application also disconnects B's peer A
 *     -> closed(A), destroyed(A), A freed
 *  4. destroy continues with the remembered pointer A
 */
#include "demo_common.h"

static qb_ipcs_connection_t *conn[2];
static int n_conn, n_closed[2], n_destroyed[2];

static int idx(qb_ipcs_connection_t *c) { return c == conn[0] ? 0 : c == conn[1] ? 1 : -1; }

static int32_t cb_accept(qb_ipcs_connection_t *c, uid_t u, gid_t g) { return 0; }
static void cb_created(qb_ipcs_connection_t *c) { if (n_conn < 2) conn[n_conn++] = c; }
static int32_t cb_msg(qb_ipcs_connection_t *c, void *d, size_t s) { return 0; }
static int32_t cb_closed(qb_ipcs_connection_t *c)
{
	int i = idx(c);
	if (i < 0) { BAD("closed() for unknown connection %p", (void*)c); return 0; }
	n_closed[i]++;
	SAY("  closed(%c) call %d", "AB"[i], n_closed[i]);
	if (n_destroyed[i]) BAD("closed(%c) after destroyed(%c)", "AB"[i], "AB"[i]);
	if (n_closed[i] > 1) BAD("closed(%c) invoked %d times although it returned 0", "AB"[i], n_closed[i]);
	if (i == 1 && n_closed[0] == 0) {
		SAY("  closed(B): application disconnects peer A");
		qb_ipcs_disconnect(conn[0]);
	}
	return 0;
}
static void cb_destroyed(qb_ipcs_connection_t *c)
{
	int i = idx(c);
	if (i < 0) { BAD("destroyed() for unknown connection %p", (void*)c); return; }
	n_destroyed[i]++;
	SAY("  destroyed(%c) call %d", "AB"[i], n_destroyed[i]);
}

static int scenario(enum qb_ipc_type t)
{
	struct qb_ipcs_service_handlers sh = { cb_accept, cb_created, cb_msg, cb_closed, cb_destroyed };
	char name[64];
	struct h_client cl[2];
	qb_ipcs_service_t *s = demo_service("f3", t, &sh, NULL, name);

	if (h_client_connect(&cl[0], name, 8192) != 0 || h_client_connect(&cl[1], name, 8192) != 0 || n_conn != 2) {
		SAY("connect failed"); return 97;
	}
	SAY("1. A and B connected; 2. qb_ipcs_destroy()");
	qb_ipcs_destroy(s);
	h_pump(2);
	SAY("done: closed A %d B %d, destroyed A %d B %d", n_closed[0], n_closed[1], n_destroyed[0], n_destroyed[1]);
	if (n_destroyed[0] != 1 || n_destroyed[1] != 1) BAD("destroyed counts wrong");
	return demo_bad ? 1 : 0;
}

int main(int argc, char **argv)
{
	int bad = 0;
	bad += demo_child("shm", scenario, QB_IPC_SHM);
	bad += demo_child("socket", scenario, QB_IPC_SOCKET);
	return bad ? 1 : 0;
}
