/*
 * finding 4: a connection that is disconnected from inside created()
 * (state ACTIVE) has its transport torn down at once - ring buffers closed
 * and set to NULL (shm), control page unmapped but pointer kept (socket) -
 * yet it stays on the service's connection list for as long as somebody
 * holds a reference.  qb_ipcs_request_rate_limit() then writes the flow
 * control word through that dead transport.
 *
 *  1. created(): the application takes a reference and disconnects
 *  2. qb_ipcs_request_rate_limit(s, QB_IPCS_RATE_OFF)
 *  3. application drops the reference
 */
#include "demo_common.h"

static qb_ipcs_connection_t *the_c;
static int n_destroyed;

static int32_t cb_accept(qb_ipcs_connection_t *c, uid_t u, gid_t g) { return 0; }
static void cb_created(qb_ipcs_connection_t *c)
{
	the_c = c;
	qb_ipcs_connection_ref(c);
	SAY("  created(): ref + qb_ipcs_disconnect()");
	qb_ipcs_disconnect(c);
}
static int32_t cb_msg(qb_ipcs_connection_t *c, void *d, size_t s) { return 0; }
static int32_t cb_closed(qb_ipcs_connection_t *c) { SAY("  closed()"); return 0; }
static void cb_destroyed(qb_ipcs_connection_t *c) { n_destroyed++; SAY("  destroyed()"); }

static int scenario(enum qb_ipc_type t)
{
	struct qb_ipcs_service_handlers sh = { cb_accept, cb_created, cb_msg, cb_closed, cb_destroyed };
	char name[64];
	struct h_client cl;
	qb_ipcs_service_t *s = demo_service("f4", t, &sh, NULL, name);
	int res;

	res = h_client_connect(&cl, name, 8192);
	SAY("1. client connect -> %d, connection known: %s, destroyed: %d", res, the_c ? "yes" : "no", n_destroyed);
	if (!the_c || n_destroyed) return 97;
	SAY("2. qb_ipcs_request_rate_limit(QB_IPCS_RATE_OFF)");
	qb_ipcs_request_rate_limit(s, QB_IPCS_RATE_OFF);
	SAY("3. unref");
	qb_ipcs_connection_unref(the_c);
	if (n_destroyed != 1) BAD("destroyed called %d times", n_destroyed);
	if (res == 0) h_client_disconnect(&cl);
	qb_ipcs_destroy(s);
	return demo_bad ? 1 : 0;
}

int main(int argc, char **argv)
{
	int bad = 0;
	bad += demo_child("shm", scenario, QB_IPC_SHM);
	bad += demo_child("socket", scenario, QB_IPC_SOCKET);
	return bad ? 1 : 0;
}
