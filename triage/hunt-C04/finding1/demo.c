/*
 * finding 1: a pending closed() retry plus a second qb_ipcs_disconnect()
 * (here: the one qb_ipcs_destroy() does for every listed connection)
 * frees the connection while the retry job still points at it.
 *
 *  1. client connects
 *  2. server disconnects it; closed() returns 1 ("call me again")
 *     -> library queues qb_ipcs_disconnect(c) as a loop job
 *  3. qb_ipcs_destroy(s): walks the list, disconnects c again:
 *     closed() now returns 0 -> connection destroyed and freed
 *  4. the loop runs the queued job on the freed connection
 */
#include "demo_common.h"

static qb_ipcs_connection_t *the_c;
static int n_created, n_closed, n_destroyed;

static int32_t cb_accept(qb_ipcs_connection_t *c, uid_t u, gid_t g) { return 0; }
static void cb_created(qb_ipcs_connection_t *c) { the_c = c; n_created++; }
static int32_t cb_msg(qb_ipcs_connection_t *c, void *d, size_t s) { return 0; }
static int32_t cb_closed(qb_ipcs_connection_t *c)
{
	n_closed++;
	if (n_destroyed) {
		BAD("closed() call %d for a connection that was already destroyed", n_closed);
		exit(1);
	}
	SAY("  closed() call %d -> %d", n_closed, n_closed == 1 ? 1 : 0);
	return n_closed == 1 ? 1 : 0;
}
static void cb_destroyed(qb_ipcs_connection_t *c)
{
	n_destroyed++;
	SAY("  destroyed() call %d", n_destroyed);
}

static int scenario(enum qb_ipc_type t)
{
	struct qb_ipcs_service_handlers sh = { cb_accept, cb_created, cb_msg, cb_closed, cb_destroyed };
	char name[64];
	struct h_client cl;
	qb_ipcs_service_t *s = demo_service("f1", t, &sh, NULL, name);

	if (h_client_connect(&cl, name, 8192) != 0 || !the_c) { SAY("connect failed"); return 97; }
	SAY("1. connected; 2. server side qb_ipcs_disconnect()");
	qb_ipcs_disconnect(the_c);
	SAY("   retry jobs queued: %d", H_job_add_calls);
	SAY("3. qb_ipcs_destroy()");
	qb_ipcs_destroy(s);
	SAY("4. run the loop (destroyed so far: %d)", n_destroyed);
	h_pump(3);
	SAY("done: closed %d destroyed %d", n_closed, n_destroyed);
	if (n_destroyed != 1) BAD("destroyed called %d times", n_destroyed);
	return demo_bad ? 1 : 0;
}

int main(int argc, char **argv)
{
	int bad = 0;
	bad += demo_child("shm", scenario, QB_IPC_SHM);
	bad += demo_child("socket", scenario, QB_IPC_SOCKET);
	return bad ? 1 : 0;
}
