/*
 * finding 6: destroyed() runs when the reference count has already dropped
 * to zero, with the connection otherwise still intact.  Any library call in
 * that callback that brackets its work with ref/unref - all four send
 * functions do - takes the count 0 -> 1 -> 0 and so runs the whole
 * "last reference gone" path a second time from inside the first one:
 * destroyed() is invoked again, the connection is freed, and the outer
 * invocation carries on with the freed object.
 *
 *  1. client connects, then disconnects
 *  2. destroyed(): the application sends a last event to the connection
 *     (only on the first invocation, to keep the recursion finite)
 */
#include "demo_common.h"

static int n_closed, n_destroyed;

static int32_t cb_accept(qb_ipcs_connection_t *c, uid_t u, gid_t g) { return 0; }
static void cb_created(qb_ipcs_connection_t *c) { }
static int32_t cb_msg(qb_ipcs_connection_t *c, void *d, size_t s) { return 0; }
static int32_t cb_closed(qb_ipcs_connection_t *c) { n_closed++; SAY("  closed() call %d", n_closed); return 0; }
static void cb_destroyed(qb_ipcs_connection_t *c)
{
	struct qb_ipc_response_header h;
	ssize_t res;

	n_destroyed++;
	SAY("  destroyed() call %d", n_destroyed);
	if (n_destroyed > 1) {
		BAD("destroyed() invoked %d times for the same connection", n_destroyed);
		return;
	}
	h.id = 1; h.size = sizeof(h); h.error = 0;
	res = qb_ipcs_event_send(c, &h, sizeof(h));
	SAY("  destroyed(): qb_ipcs_event_send -> %zd", res);
}

static int scenario(enum qb_ipc_type t)
{
	struct qb_ipcs_service_handlers sh = { cb_accept, cb_created, cb_msg, cb_closed, cb_destroyed };
	char name[64];
	struct h_client cl;
	qb_ipcs_service_t *s = demo_service("f6", t, &sh, NULL, name);

	if (h_client_connect(&cl, name, 8192) != 0) { SAY("connect failed"); return 97; }
	SAY("1. connected; client disconnects");
	h_client_disconnect(&cl);
	h_pump(3);
	SAY("done: closed %d destroyed %d", n_closed, n_destroyed);
	if (n_destroyed != 1) BAD("destroyed called %d times", n_destroyed);
	qb_ipcs_destroy(s);
	return demo_bad ? 1 : 0;
}

int main(int argc, char **argv)
{
	int bad = 0;
	bad += demo_child("shm", scenario, QB_IPC_SHM);
	bad += demo_child("socket", scenario, QB_IPC_SOCKET);
	return bad ? 1 : 0;
}
