/* tiny common bits for the finding demos */
#ifndef DEMO_COMMON_H
#define DEMO_COMMON_H
#include "harness.h"

int usleep(useconds_t u) { (void)u; return 0; }

static int demo_bad;
#define BAD(...) do { printf("VIOLATION: " __VA_ARGS__); printf("\n"); fflush(stdout); demo_bad++; } while (0)
#define SAY(...) do { printf(__VA_ARGS__); printf("\n"); fflush(stdout); } while (0)

static qb_ipcs_service_t *
demo_service(const char *tag, enum qb_ipc_type type,
	     struct qb_ipcs_service_handlers *h, struct qb_ipcs_poll_handlers *ph,
	     char *name_out)
{
	qb_ipcs_service_t *s;
	int32_t res;

	signal(SIGPIPE, SIG_IGN);
	setvbuf(stdout, NULL, _IONBF, 0);
	H_loop = qb_loop_create();
	sprintf(name_out, "hc04d-%s-%d", tag, (int)getpid());
	s = qb_ipcs_create(name_out, 1, type, h);
	qb_ipcs_poll_handlers_set(s, ph ? ph : &H_ph);
	res = qb_ipcs_run(s);
	if (res != 0) {
		printf("qb_ipcs_run failed: %d\n", res);
		exit(98);
	}
	return s;
}

static enum qb_ipc_type
demo_type(int argc, char **argv, enum qb_ipc_type dflt)
{
	if (argc > 1 && strcmp(argv[1], "sock") == 0) return QB_IPC_SOCKET;
	if (argc > 1 && strcmp(argv[1], "shm") == 0) return QB_IPC_SHM;
	return dflt;
}

#include <sys/wait.h>
/* run one scenario per transport in a child; returns 0 if the child exited 0 */
static int
demo_child(const char *label, int (*fn)(enum qb_ipc_type), enum qb_ipc_type t)
{
	int st = 0;
	pid_t p;
	fflush(stdout);
	p = fork();
	if (p == 0) {
		_exit(fn(t));
	}
	waitpid(p, &st, 0);
	if (WIFEXITED(st) && WEXITSTATUS(st) == 0) {
		printf("[%s] property held\n", label);
		return 0;
	}
	if (WIFEXITED(st)) {
		printf("[%s] VIOLATED (child exit %d)\n", label, WEXITSTATUS(st));
	} else {
		printf("[%s] VIOLATED (child killed by signal %d)\n", label, WTERMSIG(st));
	}
	return 1;
}
#endif
