#!/bin/sh
# usage: demo.sh <tree>   (exit 0 = property held, non-zero = violated, 99 = build failure)
exec sh "$(dirname "$0")/../demo_run.sh" "$(dirname "$0")" "${1:-/repo}"
