/*
 * finding 9: qb_ipcs_destroy() (or qb_ipcs_disconnect(c)) called from inside
 * closed(c) re-enters closed(c) for the very same connection and drops the
 * connection's initial reference twice.
 *
 * A daemon that shuts its IPC service down when the last client has left
 * does exactly this:
 *
 *  1. one client connects, then disconnects
 *  2. closed(c): "that was the last one" -> qb_ipcs_destroy(s)
 *     -> the destroy walk finds c (still listed, SHUTTING_DOWN)
 *     -> qb_ipcs_disconnect(c) -> closed(c) is entered again, returns 0
 *     -> initial reference dropped -> destroyed(c), c freed
 *  3. the outer closed(c) returns 0; the outer qb_ipcs_disconnect(c) goes on
 *     with the freed connection and drops "the initial reference" again
 */
#include "demo_common.h"

static qb_ipcs_service_t *the_s;
static int n_closed, in_closed, n_destroyed;

static int32_t cb_accept(qb_ipcs_connection_t *c, uid_t u, gid_t g) { return 0; }
static void cb_created(qb_ipcs_connection_t *c) { }
static int32_t cb_msg(qb_ipcs_connection_t *c, void *d, size_t s) { return 0; }
static int32_t cb_closed(qb_ipcs_connection_t *c)
{
	n_closed++;
	SAY("  closed() call %d (nesting %d)", n_closed, in_closed);
	if (in_closed) {
		BAD("closed() re-entered for the same connection while it is running");
		return 0;
	}
	if (n_closed > 1) BAD("closed() invoked again after it returned 0");
	in_closed++;
	if (the_s) {
		qb_ipcs_service_t *s = the_s;
		the_s = NULL;
		SAY("  closed(): last client gone, qb_ipcs_destroy()");
		qb_ipcs_destroy(s);
	}
	in_closed--;
	return 0;
}
static void cb_destroyed(qb_ipcs_connection_t *c)
{
	n_destroyed++;
	SAY("  destroyed() call %d", n_destroyed);
	if (in_closed) BAD("destroyed() while closed() for the same connection is still running");
}

static int scenario(enum qb_ipc_type t)
{
	struct qb_ipcs_service_handlers sh = { cb_accept, cb_created, cb_msg, cb_closed, cb_destroyed };
	char name[64];
	struct h_client cl;

	the_s = demo_service("f9", t, &sh, NULL, name);
	if (h_client_connect(&cl, name, 8192) != 0) { SAY("connect failed"); return 97; }
	SAY("1. connected; client disconnects");
	h_client_disconnect(&cl);
	h_pump(3);
	SAY("done: closed %d destroyed %d", n_closed, n_destroyed);
	if (n_destroyed != 1) BAD("destroyed called %d times", n_destroyed);
	return demo_bad ? 1 : 0;
}

int main(int argc, char **argv)
{
	int bad = 0;
	bad += demo_child("shm", scenario, QB_IPC_SHM);
	bad += demo_child("socket", scenario, QB_IPC_SOCKET);
	return bad ? 1 : 0;
}
