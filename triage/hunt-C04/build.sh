#!/bin/sh
# usage: build.sh [tree] [src.c] [out]
# Builds a tester against the library sources of <tree> (default /repo) with
# ASan+UBSan.  The IPC, loop and ringbuffer sources are compiled into the
# program (so they are instrumented), the rest comes from <tree>/lib/.libs/libqb.so
set -e
TREE=${1:-/repo}
SRC=${2:-$(dirname "$0")/fuzz.c}
OUT=${3:-$(dirname "$0")/fuzz}
HERE=$(cd "$(dirname "$0")" && pwd)
LIBSRC="ipcs.c ipc_setup.c ipc_shm.c ipc_socket.c ipcc.c loop.c loop_job.c loop_poll.c loop_poll_epoll.c loop_timerlist.c ringbuffer.c ringbuffer_helper.c array.c unix.c util.c"
SRCS=""
for f in $LIBSRC; do SRCS="$SRCS $TREE/lib/$f"; done
gcc -g -O1 -fno-omit-frame-pointer -fsanitize=address,undefined -fno-sanitize=alignment -fno-sanitize-recover=undefined \
    -DHAVE_CONFIG_H -I"$TREE/include" -I"$TREE/include/qb" -I"$TREE/lib" -I"$HERE" \
    -Wno-deprecated-declarations -w \
    "$SRC" $SRCS -L"$TREE/lib/.libs" -lqb -lpthread -ldl -o "$OUT"
echo "built $OUT (tree $TREE)"
