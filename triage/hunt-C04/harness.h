/*
 * Shared single-process, single-thread harness: a qb_loop the IPC server is
 * hooked into, a bounded "pump" of that loop, and in-process clients driven
 * through the async connect API so that everything is deterministic.
 */
#ifndef HUNT_C04_HARNESS_H
#define HUNT_C04_HARNESS_H

#include "os_base.h"
#include <poll.h>
#include <sys/mman.h>
#include <sys/socket.h>
#include <sys/un.h>
#include <qb/qbdefs.h>
#include <qb/qblist.h>
#include <qb/qbloop.h>
#include <qb/qbrb.h>
#include <qb/qbipcs.h>
#include <qb/qbipcc.h>
#include "ipc_int.h"

static qb_loop_t *H_loop;
static int H_job_add_calls;

static int32_t
h_job_add(enum qb_loop_priority p, void *data, qb_loop_job_dispatch_fn fn)
{
	H_job_add_calls++;
	return qb_loop_job_add(H_loop, p, data, fn);
}

static int H_trace = -1;
#define H_TRACE(...) do { if (H_trace < 0) H_trace = getenv("H_TRACE") != NULL; \
	if (H_trace) { fprintf(stderr, "        [poll] " __VA_ARGS__); fputc('\n', stderr); } } while (0)

static int32_t
h_dispatch_add(enum qb_loop_priority p, int32_t fd, int32_t events,
	       void *data, qb_ipcs_dispatch_fn_t fn)
{
	int32_t res = qb_loop_poll_add(H_loop, p, fd, events, data, fn);
	H_TRACE("add fd %d prio %d data %p -> %d", fd, p, data, res);
	return res;
}

static int32_t
h_dispatch_mod(enum qb_loop_priority p, int32_t fd, int32_t events,
	       void *data, qb_ipcs_dispatch_fn_t fn)
{
	int32_t res = qb_loop_poll_mod(H_loop, p, fd, events, data, fn);
	H_TRACE("mod fd %d prio %d data %p -> %d", fd, p, data, res);
	return res;
}

static int32_t
h_dispatch_del(int32_t fd)
{
	int32_t res = qb_loop_poll_del(H_loop, fd);
	H_TRACE("del fd %d -> %d", fd, res);
	return res;
}

static struct qb_ipcs_poll_handlers H_ph = {
	.job_add = h_job_add,
	.dispatch_add = h_dispatch_add,
	.dispatch_mod = h_dispatch_mod,
	.dispatch_del = h_dispatch_del,
};

static void
h_stop(void *d)
{
	(void)d;
	qb_loop_stop(H_loop);
}

/* run the loop for a few non-blocking iterations (all priorities get a go) */
static void
h_pump(int n)
{
	while (n-- > 0) {
		qb_loop_timer_handle th;
		qb_loop_timer_add(H_loop, QB_LOOP_LOW, 1, NULL, h_stop, &th);
		qb_loop_run(H_loop);
	}
}

/* ------------------------------------------------------------------ */
enum { HC_NONE = 0, HC_CONNECTING, HC_CONNECTED, HC_DEAD };

struct h_client {
	qb_ipcc_connection_t *cc;
	int fd;
	int state;
	int sent;		/* requests sent since connect */
};

static int
h_client_start(struct h_client *cl, const char *name, size_t sz)
{
	cl->fd = -1;
	cl->cc = qb_ipcc_connect_async(name, sz, &cl->fd);
	if (cl->cc == NULL) {
		cl->state = HC_NONE;
		return -errno;
	}
	cl->state = HC_CONNECTING;
	cl->sent = 0;
	return 0;
}

/* 0: connected, 1: not ready yet, <0: failed (client gone) */
static int
h_client_continue(struct h_client *cl)
{
	struct pollfd p;
	int res;

	p.fd = cl->fd;
	p.events = POLLIN;
	p.revents = 0;
	if (poll(&p, 1, 0) <= 0) {
		return 1;
	}
	res = qb_ipcc_connect_continue(cl->cc);
	if (fcntl(0, F_GETFD) == -1) {
		/* out of scope here: the client's qb_ipcc_us_connect() error path
		 * closes its not yet opened event socket, i.e. fd 0.  Keep 0 busy
		 * so that no server socket ever becomes fd 0. */
		(void)open("/dev/null", O_RDONLY);
	}
	if (res != 0) {
		/* the library freed cl->cc */
		cl->cc = NULL;
		cl->state = HC_NONE;
		return res < 0 ? res : -EIO;
	}
	cl->state = HC_CONNECTED;
	return 0;
}

/* connect completely, pumping the server in between */
static int
h_client_connect(struct h_client *cl, const char *name, size_t sz)
{
	int i;
	int res = h_client_start(cl, name, sz);
	if (res < 0) {
		return res;
	}
	for (i = 0; i < 50; i++) {
		h_pump(1);
		res = h_client_continue(cl);
		if (res <= 0) {
			return res;
		}
	}
	return -ETIMEDOUT;
}

/* polite disconnect through the library */
static void
h_client_disconnect(struct h_client *cl)
{
	if (cl->state == HC_CONNECTED) {
		if (!qb_ipcc_is_connected(cl->cc)) {
			/* skip the 4 x 10ms "is the server still there" naps */
			cl->cc->server_pid = 0;
		}
		qb_ipcc_disconnect(cl->cc);
	}
	cl->cc = NULL;
	cl->state = HC_NONE;
}

/* the client "dies": its sockets vanish, nothing polite is said */
static void
h_client_kill(struct h_client *cl)
{
	struct qb_ipcc_connection *cc = cl->cc;

	if (cl->state == HC_CONNECTING) {
		qb_ipcc_us_sock_close(cc->setup.u.us.sock);
		free(cc);
		cl->cc = NULL;
		cl->state = HC_NONE;
		return;
	}
	if (cl->state != HC_CONNECTED) {
		return;
	}
	if (cc->needs_sock_for_poll) {
		qb_ipcc_us_sock_close(cc->setup.u.us.sock);
	} else {
		qb_ipcc_us_sock_close(cc->event.u.us.sock);
		qb_ipcc_us_sock_close(cc->request.u.us.sock);
		qb_ipcc_us_sock_close(cc->setup.u.us.sock);
	}
	cl->state = HC_DEAD;
}

/* give the dead client's memory back (the kernel would do that) */
static void
h_client_reap(struct h_client *cl)
{
	struct qb_ipcc_connection *cc = cl->cc;

	if (cl->state != HC_DEAD) {
		return;
	}
	if (cc->needs_sock_for_poll) {
		qb_rb_close(cc->request.u.shm.rb);
		qb_rb_close(cc->response.u.shm.rb);
		qb_rb_close(cc->event.u.shm.rb);
	} else {
		munmap(cc->request.u.us.shared_data, 24);
	}
	free(cc->receive_buf);
	free(cc);
	cl->cc = NULL;
	cl->state = HC_NONE;
}

#endif
