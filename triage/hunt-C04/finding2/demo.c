/*
 * finding 2: qb_ipcs_destroy() disconnects a connection a second time when
 * the application still holds a reference on an already closed connection:
 * closed() is invoked again although it returned 0, the application's
 * reference is dropped by the library, destroyed() runs while the
 * application still owns a reference, and the application's own unref then
 * works on freed memory.
 *
 *  1. client connects; created() takes a reference (app keeps c around)
 *  2. client disconnects; closed() -> 0; c lingers because of the app ref
 *  3. qb_ipcs_destroy(s)
 *  4. app drops its reference
 */
#include "demo_common.h"

static qb_ipcs_connection_t *the_c;
static int app_refs, n_closed, n_destroyed;

static int32_t cb_accept(qb_ipcs_connection_t *c, uid_t u, gid_t g) { return 0; }
static void cb_created(qb_ipcs_connection_t *c)
{
	the_c = c;
	qb_ipcs_connection_ref(c);
	app_refs++;
}
static int32_t cb_msg(qb_ipcs_connection_t *c, void *d, size_t s) { return 0; }
static int32_t cb_closed(qb_ipcs_connection_t *c)
{
	n_closed++;
	SAY("  closed() call %d -> 0", n_closed);
	if (n_closed > 1) BAD("closed() invoked again (call %d) after it had returned 0", n_closed);
	return 0;
}
static void cb_destroyed(qb_ipcs_connection_t *c)
{
	n_destroyed++;
	SAY("  destroyed() call %d, application references: %d", n_destroyed, app_refs);
	if (app_refs > 0) BAD("destroyed() while the application still holds %d reference(s)", app_refs);
}

static int scenario(enum qb_ipc_type t)
{
	struct qb_ipcs_service_handlers sh = { cb_accept, cb_created, cb_msg, cb_closed, cb_destroyed };
	char name[64];
	struct h_client cl;
	qb_ipcs_service_t *s = demo_service("f2", t, &sh, NULL, name);

	if (h_client_connect(&cl, name, 8192) != 0 || !the_c) { SAY("connect failed"); return 97; }
	SAY("1. connected, app holds a reference; 2. client disconnects");
	h_client_disconnect(&cl);
	h_pump(3);
	if (n_closed != 1 || n_destroyed != 0) { SAY("unexpected: closed %d destroyed %d", n_closed, n_destroyed); return 96; }
	SAY("3. qb_ipcs_destroy()");
	qb_ipcs_destroy(s);
	h_pump(2);
	SAY("4. application drops its reference");
	app_refs--;
	qb_ipcs_connection_unref(the_c);
	SAY("done: closed %d destroyed %d", n_closed, n_destroyed);
	if (n_destroyed != 1) BAD("destroyed called %d times", n_destroyed);
	return demo_bad ? 1 : 0;
}

int main(int argc, char **argv)
{
	int bad = 0;
	bad += demo_child("shm", scenario, QB_IPC_SHM);
	bad += demo_child("socket", scenario, QB_IPC_SOCKET);
	return bad ? 1 : 0;
}
