/*
 * C18 model-based fuzzer: map iterators stay valid while entries are
 * removed / added under them.
 *
 * usage: fuzz <impl 0=hash 1=skip 2=trie> <seed> <nops> [nkeys] [maxiters] [alphabet] [htsize] [flags]
 *  flags bit0: no inserts while iterators are open (removal-only: exactly once)
 *        bit1: call next again after NULL (soft check)
 *        bit2: the FREE notifier itself works on the map (remove / insert
 *              other keys, run a whole iteration)
 *        bit3: (with bit2) the notifier may also advance an open iterator
 */
#include <stdio.h>
#include <stdlib.h>
#include <string.h>
#include <stdint.h>
#include <assert.h>
#include <qb/qbdefs.h>
#include <qb/qbmap.h>

#define MAXKEYS 512
#define MAXIT 8

static int impl, nkeys = 60, maxiters = 3, alphabet = 0, htsize = 8, flags = 0;
static unsigned long long opno;
static int verbose;

static char ukeys[MAXKEYS][12];	/* the universe of key strings */

struct ment {
	int present;
	char *key;		/* the allocated copy the map holds */
	int *val;		/* allocated value */
	unsigned gen;		/* bumped on every removal */
};
static struct ment model[MAXKEYS];
static int model_count;

struct mit {
	qb_map_iter_t *it;
	int prefixed;
	char prefix[12];
	int ended;
	int inserted;		/* a new key was inserted while open */
	unsigned char at_create[MAXKEYS];	/* present at creation and not removed since */
	unsigned char ever[MAXKEYS];	/* present at some point during the iteration */
	unsigned short returned[MAXKEYS];
	int pos;		/* key index last returned, -1 */
};
static struct mit its[MAXIT];

static long n_free_cb, n_put, n_rm, n_next, n_iters;

#define FAIL(...) do { fprintf(stderr, "VIOLATION impl=%d op=%llu: ", impl, opno); \
	fprintf(stderr, __VA_ARGS__); fprintf(stderr, "\n"); exit(2); } while (0)

static void pkey(const char *k)
{
	for (; *k; k++) {
		if (*k > 32 && *k < 127) fputc(*k, stderr);
		else fprintf(stderr, "\\x%02x", (unsigned char)*k);
	}
}
#define LOG(...) do { if (verbose) fprintf(stderr, __VA_ARGS__); } while (0)

static int cb_depth, busy_key = -1, busy_iter = -1;
static unsigned long nested_gen;
static void nested_op(const char *curkey);

static void free_cb(uint32_t event, char *key, void *old_value, void *value, void *ud)
{
	(void)value; (void)ud;
	if (event != QB_MAP_NOTIFY_FREE)
		return;
	n_free_cb++;
	if ((flags & 4) && cb_depth == 0 && random() % 4 == 0) {
		cb_depth++;
		nested_op(key);
		cb_depth--;
	}
	/* documented use: item memory is released here */
	memset(key, 'Z', strlen(key));
	free(key);
	*(int *)old_value = -1;
	free(old_value);
}

static int kidx(const char *k)
{
	int i;
	for (i = 0; i < nkeys; i++)
		if (strcmp(ukeys[i], k) == 0)
			return i;
	return -1;
}

static void gen_keys(void)
{
	static const char *alph[] = {
		"ab", "abc", "a\x01\x7f\x80\xff", "abcdefghijklmnopqrstuvwxyz", "a",
		"ab\xff\x80",
	};
	const char *a = alph[alphabet % 6];
	int na = strlen(a);
	int i, j, len, tries;
	int maxlen = (alphabet % 6 == 4) ? 11 : 6;

	for (i = 0; i < nkeys; i++) {
		for (tries = 0; tries < 1000; tries++) {
			len = 1 + random() % maxlen;
			for (j = 0; j < len; j++)
				ukeys[i][j] = a[random() % na];
			ukeys[i][len] = 0;
			if (kidx(ukeys[i]) == i || kidx(ukeys[i]) < 0) {
				int d = 0, m;
				for (m = 0; m < i; m++)
					if (!strcmp(ukeys[m], ukeys[i])) d = 1;
				if (!d) break;
			}
		}
		if (tries == 1000) { nkeys = i; break; }
	}
}

static qb_map_t *m;

static int has_prefix(const char *k, const char *p)
{
	return strncmp(k, p, strlen(p)) == 0;
}

static void do_put(int k)
{
	int i;
	int isnew = !model[k].present;
	char *kc = strdup(ukeys[k]);
	int *v = malloc(sizeof(int));
	*v = k;
	LOG("put %d ", k); if (verbose) { pkey(ukeys[k]); fputc('\n', stderr); }
	if (isnew)
		for (i = 0; i < maxiters; i++)
			if (its[i].it && !its[i].ended) {
				its[i].inserted = 1;
				its[i].ever[k] = 1;
			}
	model[k].key = kc;
	model[k].val = v;
	if (cb_depth == 0) busy_key = k;
	qb_map_put(m, kc, v);
	if (cb_depth == 0) busy_key = -1;
	n_put++;
	/* on replace the FREE notifier released the old pair */
	model[k].key = kc;
	model[k].val = v;
	if (isnew) {
		model[k].present = 1;
		model_count++;
		for (i = 0; i < maxiters; i++) {
			if (its[i].it && !its[i].ended) {
				its[i].inserted = 1;
				its[i].ever[k] = 1;
			}
		}
	}
}

static void do_rm(int k)
{
	int i, r;
	LOG("rm %d ", k); if (verbose) { pkey(ukeys[k]); fputc('\n', stderr); }
	if (model[k].present)
		for (i = 0; i < maxiters; i++)
			if (its[i].it)
				its[i].at_create[k] = 0;
	if (cb_depth == 0) busy_key = k;
	r = qb_map_rm(m, ukeys[k]);
	if (cb_depth == 0) busy_key = -1;
	n_rm++;
	if (r != (model[k].present ? QB_TRUE : QB_FALSE))
		FAIL("rm(%d) returned %d, model present=%d", k, r, model[k].present);
	if (model[k].present) {
		model[k].present = 0;
		model[k].gen++;
		model_count--;
		for (i = 0; i < maxiters; i++)
			if (its[i].it)
				its[i].at_create[k] = 0;
	}
}

static void do_get(int k)
{
	int *v = qb_map_get(m, ukeys[k]);
	if (model[k].present) {
		if (v != model[k].val)
			FAIL("get(%d) = %p, model %p", k, (void *)v, (void *)model[k].val);
		if (*v != k)
			FAIL("get(%d) value content %d", k, *v);
	} else if (v != NULL) {
		FAIL("get(%d) = %p for an absent key", k, (void *)v);
	}
}

static void check_count(void)
{
	size_t c = qb_map_count_get(m);
	if (c != (size_t)model_count)
		FAIL("count %zu, model %d", c, model_count);
}

static void it_create(int s)
{
	int k;
	struct mit *t = &its[s];
	memset(t, 0, sizeof(*t));
	t->pos = -1;
	if (impl == 2 && random() % 3 == 0) {
		/* prefix of some key of the universe */
		int pk = random() % nkeys;
		int pl = 1 + random() % strlen(ukeys[pk]);
		memcpy(t->prefix, ukeys[pk], pl);
		t->prefix[pl] = 0;
		t->prefixed = 1;
		t->it = qb_map_pref_iter_create(m, t->prefix);
	} else {
		t->it = qb_map_iter_create(m);
	}
	n_iters++;
	LOG("iter_create %d prefix=%s\n", s, t->prefixed ? t->prefix : "-");
	for (k = 0; k < nkeys; k++) {
		if (model[k].present &&
		    (!t->prefixed || has_prefix(ukeys[k], t->prefix))) {
			t->at_create[k] = 1;
			t->ever[k] = 1;
		}
	}
}

static void it_end_check(int s)
{
	struct mit *t = &its[s];
	int k;
	for (k = 0; k < nkeys; k++) {
		if (!t->at_create[k])
			continue;
		if (t->returned[k] == 0)
			FAIL("iterator %d ended without returning key %d (present all along)%s",
			     s, k, t->inserted ? " [inserts happened]" : "");
		if (t->returned[k] > 1 && !t->inserted)
			FAIL("iterator %d returned key %d %d times (removals only)",
			     s, k, t->returned[k]);
	}
}

static void it_next(int s)
{
	struct mit *t = &its[s];
	void *v = (void *)0x1;
	const char *k;
	int ki;

	unsigned long ng = nested_gen;
	LOG("iter_next %d", s);
	if (cb_depth == 0) busy_iter = s;
	k = qb_map_iter_next(t->it, &v);
	if (cb_depth == 0) busy_iter = -1;
	n_next++;
	if (k == NULL) {
		LOG(" -> NULL\n");
		if (!t->ended) {
			it_end_check(s);
			t->ended = 1;
		}
		return;
	}
	if (t->ended) {
		if (flags & 2)
			FAIL("iterator %d returned a key after it had returned NULL", s);
		return;
	}
	ki = kidx(k);		/* ASan: reads the returned key */
	LOG(" -> %d\n", ki);
	if (ki < 0)
		FAIL("iterator %d returned an unknown key", s);
	if (!t->ever[ki])
		FAIL("iterator %d returned key %d which was never present during it%s",
		     s, ki, t->prefixed ? " (or lacks the prefix)" : "");
	if (ng != nested_gen) {
		/* the notifier changed the map during the call: only the
		 * safety of what was returned is looked at */
		if (model[ki].present && k == model[ki].key) {
			t->returned[ki]++;
			t->pos = ki;
		}
		return;
	}
	if (!model[ki].present)
		FAIL("iterator %d returned key %d which is not in the map now", s, ki);
	if (k != model[ki].key)
		FAIL("iterator %d returned a stale key pointer for %d", s, ki);
	if (v != model[ki].val)
		FAIL("iterator %d returned value %p for %d, model %p", s, v, ki,
		     (void *)model[ki].val);
	if (*(int *)v != ki)
		FAIL("value content");
	t->returned[ki]++;
	if (t->returned[ki] > 1 && !t->inserted)
		FAIL("iterator %d returned key %d twice (removals only)", s, ki);
	t->pos = ki;
}

static void it_free(int s)
{
	qb_map_iter_t *it = its[s].it;
	LOG("iter_free %d\n", s);
	its[s].it = NULL;	/* not usable from the notifier any more */
	qb_map_iter_free(it);
}

static void nested_op(const char *curkey)
{
	int cur = kidx(curkey);
	int k = random() % nkeys;
	int s, r = random() % ((flags & 8) ? 4 : 3);
	const char *p;
	void *v;

	nested_gen++;
	if (r == 0) {
		if (k == cur || k == busy_key) return;
		LOG(" nested: ");
		do_rm(k);
	} else if (r == 1) {
		if (k == cur || k == busy_key) return;
		LOG(" nested: ");
		do_put(k);
	} else if (r == 2) {
		unsigned short seen[MAXKEYS];
		qb_map_iter_t *it = qb_map_iter_create(m);
		memset(seen, 0, sizeof(seen));
		LOG(" nested: whole iteration\n");
		while ((p = qb_map_iter_next(it, &v)) != NULL) {
			k = kidx(p);
			if (k < 0) FAIL("nested iteration: unknown key");
			if (*(int *)v != k) FAIL("nested iteration: value of %d", k);
			if (seen[k]++) FAIL("nested iteration: key %d twice", k);
		}
		qb_map_iter_free(it);
		for (k = 0; k < nkeys; k++)
			if (model[k].present && k != cur && k != busy_key && !seen[k])
				FAIL("nested iteration: key %d missing", k);
	} else {
		s = random() % maxiters;
		if (s != busy_iter && its[s].it) {
			LOG(" nested: ");
			it_next(s);
		}
	}
}

static int n_open(void)
{
	int i, n = 0;
	for (i = 0; i < maxiters; i++)
		if (its[i].it) n++;
	return n;
}

/* with no iterator open: the map is a dictionary of the survivors */
static void full_check(void)
{
	int k;
	unsigned short seen[MAXKEYS];
	const char *p, *prev = NULL;
	char prevbuf[12];
	void *v;
	qb_map_iter_t *it;
	int n = 0;

	check_count();
	for (k = 0; k < nkeys; k++)
		do_get(k);
	memset(seen, 0, sizeof(seen));
	it = qb_map_iter_create(m);
	while ((p = qb_map_iter_next(it, &v)) != NULL) {
		k = kidx(p);
		if (k < 0 || !model[k].present)
			FAIL("full iteration returned absent key %d", k);
		if (seen[k]++)
			FAIL("full iteration returned key %d twice", k);
		if (v != model[k].val)
			FAIL("full iteration value mismatch key %d", k);
		if (impl != 0 && prev && strcmp(prevbuf, p) >= 0)
			FAIL("full iteration out of order at key %d", k);
		strcpy(prevbuf, p);
		prev = prevbuf;
		n++;
	}
	qb_map_iter_free(it);
	if (n != model_count)
		FAIL("full iteration returned %d keys, model %d", n, model_count);
}

int main(int argc, char **argv)
{
	unsigned seed;
	unsigned long long nops;
	int i, k, s;

	if (argc < 4) {
		fprintf(stderr, "usage\n");
		return 1;
	}
	impl = atoi(argv[1]);
	seed = atoi(argv[2]);
	nops = strtoull(argv[3], NULL, 0);
	if (argc > 4) nkeys = atoi(argv[4]);
	if (argc > 5) maxiters = atoi(argv[5]);
	if (argc > 6) alphabet = atoi(argv[6]);
	if (argc > 7) htsize = atoi(argv[7]);
	if (argc > 8) flags = atoi(argv[8]);
	verbose = getenv("V") != NULL;
	if (nkeys > MAXKEYS) nkeys = MAXKEYS;
	if (maxiters > MAXIT) maxiters = MAXIT;

	srandom(seed);
	gen_keys();
	switch (impl) {
	case 0: m = qb_hashtable_create(htsize); break;
	case 1: m = qb_skiplist_create(); break;
	default: m = qb_trie_create(); break;
	}
	srandom(seed * 7919 + 13);	/* skiplist_create() reseeds rand() only */
	i = qb_map_notify_add(m, NULL, free_cb, QB_MAP_NOTIFY_FREE, NULL);
	assert(i == 0);

	for (opno = 0; opno < nops; opno++) {
		int r = random() % 100;
		int open = n_open();

		/* phases: fill / drain bias changes every 4096 ops */
		int phase = (opno >> 12) & 3;
		int put_w = (phase == 0) ? 35 : (phase == 1) ? 20 : (phase == 2) ? 8 : 25;
		if ((flags & 1) && open)
			put_w = 0;
		if ((flags & 1) && model_count < nkeys / 4 && random() % 16 == 0) {
			for (s = 0; s < maxiters; s++)
				if (its[s].it) it_free(s);
			for (k = 0; k < nkeys; k++)
				if (!model[k].present) do_put(k);
			continue;
		}

		if (r < put_w) {
			k = random() % nkeys;
			if ((flags & 1) && open && !model[k].present)
				continue;
			do_put(k);
		} else if (r < put_w + 25) {
			/* removal, biased to what the iterators stand on */
			k = random() % nkeys;
			if (open && random() % 2) {
				s = random() % maxiters;
				if (its[s].it && its[s].pos >= 0) {
					k = its[s].pos;
					if (random() % 4 == 0)
						k = (k + 1) % nkeys;
				}
			}
			do_rm(k);
		} else if (r < put_w + 30) {
			do_get(random() % nkeys);
			check_count();
		} else if (r < put_w + 33) {
			/* remove everything */
			if (random() % 8 == 0)
				for (k = 0; k < nkeys; k++)
					if (model[k].present) do_rm(k);
		} else if (r < put_w + 38) {
			s = random() % maxiters;
			if (!its[s].it)
				it_create(s);
		} else if (r < put_w + 41) {
			s = random() % maxiters;
			if (its[s].it)
				it_free(s);
		} else if (r < put_w + 43) {
			/* drain one iterator */
			s = random() % maxiters;
			if (its[s].it) {
				while (!its[s].ended)
					it_next(s);
				if (random() % 2) it_next(s);
			}
		} else {
			s = random() % maxiters;
			if (its[s].it)
				it_next(s);
		}
		if ((opno & 63) == 0) {
			check_count();
			if (random() % 4 == 0) {
				/* close everything and verify dictionary behaviour */
				for (s = 0; s < maxiters; s++)
					if (its[s].it) it_free(s);
				full_check();
			}
		}
	}
	for (s = 0; s < maxiters; s++)
		if (its[s].it) it_free(s);
	full_check();
	cb_depth = 1;		/* the notifier leaves the map alone from here on */
	for (k = 0; k < nkeys; k++)
		if (model[k].present) do_rm(k);
	cb_depth = 0;
	full_check();
	cb_depth = 1;
	qb_map_destroy(m);
	printf("ok impl=%d seed=%u ops=%llu puts=%ld rms=%ld nexts=%ld iters=%ld frees=%ld\n",
	       impl, seed, nops, n_put, n_rm, n_next, n_iters, n_free_cb);
	if (n_free_cb != n_put)
		{ fprintf(stderr, "VIOLATION: FREE notifications %ld != puts %ld\n", n_free_cb, n_put); return 2; }
	return 0;
}
