/*
 * C18 finding 2 (trie only): an entry is removed while an iterator stands
 * on it and is then inserted again.  trie_put() announces the deletion of
 * the old entry while the node still carries the old key/value and is
 * still marked "removed".  If the notifier lets go of the iterator (free
 * or next - the hashtable and the skiplist take exactly the same
 * interleaving without trouble) the node is destroyed under trie_put():
 * the old item is announced deleted/FREE a second time (double free in the
 * documented "free in the notifier" use) and trie_put() goes on writing to
 * the node that has just been given back to the allocator.
 */
#include <stdio.h>
#include <stdlib.h>
#include <string.h>
#include <qb/qbmap.h>

static qb_map_iter_t *it;
static int free_calls_v1;
static int v1 = 1, v2 = 2;

static void free_cb(uint32_t event, char *key, void *old_value, void *value, void *ud)
{
	(void)key; (void)value; (void)ud;
	if (event != QB_MAP_NOTIFY_FREE)
		return;
	if (old_value == &v1)
		free_calls_v1++;
	if (it) {
		/* the iteration is abandoned from here */
		qb_map_iter_t *i = it;
		it = NULL;
		qb_map_iter_free(i);
	}
}

static int run(const char *name, qb_map_t *m)
{
	const char *k;
	void *v;
	int bad = 0;

	free_calls_v1 = 0;
	qb_map_notify_add(m, NULL, free_cb, QB_MAP_NOTIFY_FREE, NULL);
	qb_map_put(m, "a", &v1);
	it = qb_map_iter_create(m);
	k = qb_map_iter_next(it, &v);		/* stands on "a" */
	if (!k || strcmp(k, "a")) return 3;
	qb_map_rm(m, "a");			/* kept for the iterator */
	qb_map_put(m, "a", &v2);		/* -> notifier -> iter_free */
	if (it) { qb_map_iter_t *i = it; it = NULL; qb_map_iter_free(i); }

	printf("%-9s FREE notifications for the first item: %d, get(a)=%s, count=%zu\n",
	       name, free_calls_v1,
	       qb_map_get(m, "a") == &v2 ? "v2" : (qb_map_get(m, "a") ? "other" : "NULL"),
	       qb_map_count_get(m));
	if (free_calls_v1 != 1 || qb_map_get(m, "a") != &v2 || qb_map_count_get(m) != 1) {
		printf("%-9s VIOLATION\n", name);
		bad = 1;
	}
	qb_map_rm(m, "a");
	qb_map_destroy(m);
	return bad;
}

int main(void)
{
	int bad = 0;
	setvbuf(stdout, NULL, _IONBF, 0);
	bad |= run("hashtable", qb_hashtable_create(8));
	bad |= run("skiplist", qb_skiplist_create());
	bad |= run("trie", qb_trie_create());
	return bad ? 2 : 0;
}
