#!/bin/sh
# broad sweep: prints only failures and a final count
export ASAN_OPTIONS=detect_leaks=0 LD_LIBRARY_PATH=/repo/lib/.libs
cd /tmp/hunt2-C18
n=0; bad=0
for fl in 0 1 4; do
for sd in 101 102 103 104 105 106 107 108 109 110 111 112; do
for i in 0 1 2; do
  nk=$(( (sd * 37) % 200 + 2 )); mi=$(( sd % 8 + 1 )); al=$(( sd % 6 )); hs=$(( (sd*5) % 70 ))
  [ $((sd % 4)) = 0 ] && nk=$(( sd % 5 + 1 ))
  out=$(./fuzz $i $sd 150000 $nk $mi $al $hs $fl 2>&1 | grep -a "VIOLATION\|SUMMARY\|^ok")
  n=$((n+1))
  case "$out" in ok*) ;; *) bad=$((bad+1)); echo "FAIL impl=$i seed=$sd nk=$nk mi=$mi al=$al hs=$hs fl=$fl: $out";; esac
done; done; done
echo "sweep finished: $n runs, $bad failures"
