#!/bin/sh
# usage: demo.sh <tree>    exit 0 = property held, non-zero = violated
T=${1:-/repo}
D=$(cd "$(dirname "$0")" && pwd)
B=$(mktemp -d /tmp/hunt2-C18-f1.XXXXXX)
gcc -g -O1 -fsanitize=address,undefined -fno-sanitize-recover=undefined \
  -DHAVE_CONFIG_H -I$T/include -I$T/include/qb -I$T/lib -I$T \
  -o $B/demo $D/demo.c $T/lib/hashtable.c $T/lib/skiplist.c $T/lib/trie.c $T/lib/map.c \
  -L$T/lib/.libs -lqb || exit 99
ASAN_OPTIONS=detect_leaks=0 LD_LIBRARY_PATH=$T/lib/.libs $B/demo
rc=$?
rm -rf $B
exit $rc
