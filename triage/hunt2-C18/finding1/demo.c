/*
 * C18 finding 1: a hashtable iterator that has reported the end (NULL)
 * starts again when asked once more, so a key that was in the map all
 * along is returned twice by the same iterator (no insertions at all).
 * The skiplist and the trie keep returning NULL.
 */
#include <stdio.h>
#include <string.h>
#include <qb/qbmap.h>

static int run(const char *name, qb_map_t *m)
{
	static int v1 = 1, v2 = 2;
	qb_map_iter_t *it;
	const char *k;
	void *v;
	int a = 0, b = 0, i, bad = 0;

	qb_map_put(m, "a", &v1);
	qb_map_put(m, "b", &v2);
	it = qb_map_iter_create(m);
	/* a normal, complete iteration ... */
	while ((k = qb_map_iter_next(it, &v)) != NULL) {
		if (!strcmp(k, "a")) a++;
		if (!strcmp(k, "b")) b++;
	}
	printf("%-9s first pass: a x%d, b x%d\n", name, a, b);
	/* ... and the iterator is asked again (twice) before it is freed */
	for (i = 0; i < 2; i++) {
		k = qb_map_iter_next(it, &v);
		printf("%-9s next after the end -> %s\n", name, k ? k : "NULL");
		if (k) {
			if (!strcmp(k, "a")) a++;
			if (!strcmp(k, "b")) b++;
		}
	}
	qb_map_iter_free(it);
	if (a != 1 || b != 1) {
		printf("%-9s VIOLATION: a returned %d times, b %d times by one iterator, nothing was inserted\n", name, a, b);
		bad = 1;
	}
	qb_map_destroy(m);
	return bad;
}

int main(void)
{
	int bad = 0;
	bad |= run("skiplist", qb_skiplist_create());
	bad |= run("trie", qb_trie_create());
	bad |= run("hashtable", qb_hashtable_create(8));
	return bad ? 2 : 0;
}
