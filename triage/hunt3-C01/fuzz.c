/*
 * C01 tester: model based, three modes
 *   seq  : one thread, random operation sequences against a FIFO model
 *   ilv  : (build -DILV) writer and reader are coroutines; every access of the
 *          library to the shared header / data words (hooked through the
 *          -fsanitize=thread instrumentation, see ilv_hooks.c) is a possible
 *          switch point, schedules are random (several switch probabilities)
 *   thr  : (build -DTHR) two real threads
 */
#define _GNU_SOURCE
#include <stdio.h>
#include <stdlib.h>
#include <string.h>
#include <stdint.h>
#include <errno.h>
#include <unistd.h>
#include <pthread.h>
#include <qb/qbrb.h>
#include <qb/qbdefs.h>
#include "ringbuffer_int.h"
#ifdef ILV
extern void *ilv_memcpy(void *d, const void *s, size_t n);
#endif

#define MAGIC 0xA1A1A1A1u
#define DEAD  0xD0D0D0D0u
#define ALLOCM 0xA110CED0u

static uint64_t rs = 88172645463325252ull;
static uint32_t rnd(void) { rs ^= rs << 13; rs ^= rs >> 7; rs ^= rs << 17; return (uint32_t)(rs >> 11); }
static uint32_t rndn(uint32_t n) { return n ? rnd() % n : 0; }

struct ent { uint32_t len; uint32_t seed; };
#define MAXN (1u << 22)
static struct ent *ent;
static volatile uint32_t nw;	/* successful writes */
static volatile uint32_t nr;	/* chunks taken by the reader */
static volatile int failed;
static int verbose;

static void fill(unsigned char *p, uint32_t len, uint32_t seed)
{
	uint32_t i, kind = seed & 7;
	uint32_t w[2];
	for (i = 0; i < len; i++) {
		switch (kind) {
		case 0: p[i] = 0xA1; break;
		case 1: p[i] = 0xD0; break;
		case 2: /* looks like [len][MAGIC] headers */
			w[0] = (seed >> 8) % 64; w[1] = MAGIC;
			p[i] = ((unsigned char *)w)[i % 8]; break;
		case 3: w[0] = MAGIC; w[1] = (seed >> 8) % 64;
			p[i] = ((unsigned char *)w)[i % 8]; break;
		default: p[i] = (unsigned char)((seed >> 3) + i * 31 + (i >> 8) * 7); break;
		}
	}
}

static int check(const unsigned char *p, uint32_t len, uint32_t seed, const char *who)
{
	uint32_t i;
	static unsigned char *tmp; static uint32_t tmpcap;
	if (len > tmpcap) { tmp = realloc(tmp, len + 1); tmpcap = len; }
	fill(tmp, len, seed);
	for (i = 0; i < len; i++)
		if (p[i] != tmp[i]) {
			fprintf(stderr, "VIOLATION(%s): chunk #%u len %u byte %u is %02x expected %02x\n",
				who, nr, len, i, p[i], tmp[i]);
			failed = 1;
			return -1;
		}
	return 0;
}

static char rbname[64];
static qb_ringbuffer_t *rbw, *rbr;
static size_t cmax;
static unsigned char *wbuf, *rbuf;

static int open_rings(size_t size, uint32_t flags, int two)
{
	static int cnt;
	snprintf(rbname, sizeof rbname, "h3c01-%d-%d", (int)getpid(), cnt++);
	rbw = qb_rb_open(rbname, size, flags | QB_RB_FLAG_CREATE, 0);
	if (!rbw) { perror("qb_rb_open"); return -1; }
	rbr = rbw;
	if (two) {
		rbr = qb_rb_open(rbname, size, flags, 0);
		if (!rbr) { perror("qb_rb_open 2"); qb_rb_close(rbw); return -1; }
	}
	cmax = qb_rb_chunk_max(rbw);
	wbuf = realloc(wbuf, cmax + 64);
	rbuf = realloc(rbuf, cmax + 64);
	nw = nr = 0;
	return 0;
}
static void close_rings(void)
{
	if (rbr != rbw) qb_rb_close(rbr);
	qb_rb_close(rbw);
}

static uint32_t pick_len(void)
{
	uint32_t r = rndn(100);
	ssize_t fr = qb_rb_space_free(rbw);
	if (r < 8) return 0;
	if (r < 30) return 1 + rndn(16);
	if (r < 50) return 1 + rndn(300);
	if (r < 60) return (uint32_t)cmax - rndn(5);
	if (r < 63) return (uint32_t)cmax + 1 + rndn(5);
	if (r < 80 && fr >= 9) { /* around what exactly fits */
		int64_t l = (int64_t)fr - 12 + (int64_t)rndn(9) - 4;
		return l < 0 ? 0 : (uint32_t)l;
	}
	if (r < 90) return rndn((uint32_t)cmax / 3 + 1);
	return rndn((uint32_t)cmax + 1);
}

/* one write attempt; returns 1 on success, 0 refused, <0 trouble */
static int do_write(uint32_t len, int how)
{
	uint32_t seed = rnd();
	ssize_t res;
	if (nw >= MAXN) return 0;
	ent[nw].len = len; ent[nw].seed = seed;
	__atomic_thread_fence(__ATOMIC_SEQ_CST);
	if (how == 0) {
		fill(wbuf, len, seed);
		res = qb_rb_chunk_write(rbw, wbuf, len);
		if (res == (ssize_t)len) { __atomic_store_n(&nw, nw + 1, __ATOMIC_RELEASE); return 1; }
		if (res == -EAGAIN) return 0;
		fprintf(stderr, "VIOLATION(writer): chunk_write(%u) returned %zd\n", len, res);
		failed = 1; return -1;
	} else {
		/* alloc more, commit less */
		uint32_t extra = (how == 2) ? rndn(64) : 0;
		unsigned char *p;
		if ((size_t)len + extra > cmax) extra = 0;
		p = qb_rb_chunk_alloc(rbw, len + extra);
		if (!p) {
			if (errno == EAGAIN) return 0;
			fprintf(stderr, "VIOLATION(writer): chunk_alloc(%u) errno %d\n", len + extra, errno);
			failed = 1; return -1;
		}
		/* junk that looks like chunk markers behind the committed part */
		{ uint32_t i; for (i = 0; i < extra; i++) p[len + i] = 0xA1; }
#ifdef ILV
		fill(wbuf, len, seed);
		ilv_memcpy(p, wbuf, len);
#else
		fill(p, len, seed);
#endif
		res = qb_rb_chunk_commit(rbw, len);
		if (res != 0) { fprintf(stderr, "VIOLATION(writer): commit -> %zd\n", res); failed = 1; return -1; }
		__atomic_store_n(&nw, nw + 1, __ATOMIC_RELEASE);
		return 1;
	}
}

/*
 * one read attempt. conc: writer may be running.
 * returns 1 took a chunk, 0 nothing, <0 trouble
 */
static int do_read(int how, int conc, int32_t tmo)
{
	ssize_t res;
	uint32_t k = nr;
	uint32_t avail;
	if (how == 0 || how == 3) {
		size_t cap = cmax + 8;
		if (how == 3) cap = rndn(64);	/* maybe too small */
		memset(rbuf, 0x5a, cap < 256 ? cap + 8 : 256);
		res = qb_rb_chunk_read(rbr, rbuf, cap, tmo);
		avail = __atomic_load_n(&nw, __ATOMIC_ACQUIRE);
		if (res == -ETIMEDOUT) {
			if (!conc && k < avail) {
				fprintf(stderr, "VIOLATION(reader): read says empty but %u chunks written, %u read\n", avail, k);
				failed = 1; return -1;
			}
			return 0;
		}
		if (res == -ENOBUFS) {
			if (k > avail || ent[k].len <= cap) {
				fprintf(stderr, "VIOLATION(reader): ENOBUFS cap %zu but next chunk #%u len %u (nw %u)\n", cap, k, ent[k].len, avail);
				failed = 1; return -1;
			}
			return 0;
		}
		if (res < 0) {
			fprintf(stderr, "VIOLATION(reader): chunk_read -> %zd (nw %u nr %u)\n", res, avail, k);
			failed = 1; return -1;
		}
		/* conc: the writer may not have counted its success yet */
		if (k >= avail + (conc ? 1 : 0)) {
			fprintf(stderr, "VIOLATION(reader): read returned a chunk (len %zd) but written %u read %u\n", res, avail, k);
			failed = 1; return -1;
		}
		if ((uint32_t)res != ent[k].len) {
			fprintf(stderr, "VIOLATION(reader): chunk #%u len %zd expected %u\n", k, res, ent[k].len);
			failed = 1; return -1;
		}
		if (check(rbuf, (uint32_t)res, ent[k].seed, "read") < 0) return -1;
		nr = k + 1;
		return 1;
	} else {
		void *p = NULL;
		res = qb_rb_chunk_peek(rbr, &p, tmo);
		avail = __atomic_load_n(&nw, __ATOMIC_ACQUIRE);
		if (res == -EBADMSG || (res == 0 && p == NULL)) {
			/* -EBADMSG: count there, chunk not: only without the semaphore */
			if (!conc && k < avail) {
				fprintf(stderr, "VIOLATION(reader): peek %zd says empty but %u written, %u read\n", res, avail, k);
				failed = 1; return -1;
			}
			return 0;
		}
		if (res < 0) {
			fprintf(stderr, "VIOLATION(reader): chunk_peek -> %zd\n", res);
			failed = 1; return -1;
		}
		if (k >= avail + (conc ? 1 : 0)) {
			fprintf(stderr, "VIOLATION(reader): peek returned a chunk (len %zd) but written %u read %u\n", res, avail, k);
			failed = 1; return -1;
		}
		if ((uint32_t)res != ent[k].len) {
			fprintf(stderr, "VIOLATION(reader): peek chunk #%u len %zd expected %u\n", k, res, ent[k].len);
			failed = 1; return -1;
		}
#ifdef ILV
		ilv_memcpy(rbuf, p, (size_t)res);
		p = rbuf;
#endif
		if (check(p, (uint32_t)res, ent[k].seed, "peek") < 0) return -1;
		if (how == 2) return 0;	/* peek only */
		qb_rb_chunk_reclaim(rbr);
		nr = k + 1;
		return 1;
	}
}

static const size_t sizes[] = { 1, 100, 4083, 4084, 4085, 4096, 8179, 8180, 10000, 65536 - 13, 65536 };
static const uint32_t flagsets[] = { QB_RB_FLAG_NO_SEMAPHORE, 0, QB_RB_FLAG_SHARED_PROCESS,
	QB_RB_FLAG_SHARED_PROCESS | QB_RB_FLAG_NO_SEMAPHORE };

#if !defined(ILV) && !defined(THR)
int main(int argc, char **argv)
{
	uint64_t seed = argc > 1 ? strtoull(argv[1], 0, 0) : 1;
	long rounds = argc > 2 ? atol(argv[2]) : 200;
	long ops = argc > 3 ? atol(argv[3]) : 5000;
	long total = 0;
	rs ^= seed * 0x9E3779B97F4A7C15ull; rnd();
	ent = calloc(MAXN, sizeof *ent);
	for (long r = 0; r < rounds && !failed; r++) {
		size_t size = sizes[rndn(sizeof sizes / sizeof *sizes)];
		uint32_t fl = flagsets[rndn(4)];
		int two = (fl & QB_RB_FLAG_SHARED_PROCESS) ? rndn(2) : 0;
		int wbias = 30 + rndn(50);
		if (open_rings(size, fl, two)) return 2;
		for (long i = 0; i < ops && !failed; i++, total++) {
			if (rndn(2000) == 0) wbias = 30 + rndn(50);
			if ((int)rndn(100) < wbias) {
				do_write(pick_len(), rndn(3));
			} else {
				uint32_t h = rndn(100);
				int rc = do_read(h < 40 ? 0 : h < 50 ? 3 : h < 85 ? 1 : 2, 0, 0);
				(void)rc;
				if (rndn(50) == 0 && nr == nw) {
					/* reclaim on an empty ring takes nothing */
					qb_rb_chunk_reclaim(rbr);
				}
			}
		}
		/* drain */
		while (!failed && nr < nw) if (do_read(0, 0, 0) != 1 && !failed) {
			fprintf(stderr, "VIOLATION: drain stuck at %u of %u\n", nr, nw); failed = 1; }
		if (!failed && do_read(0, 0, 0) != 0) { fprintf(stderr, "VIOLATION: extra chunk\n"); failed = 1; }
		if (failed) fprintf(stderr, "  round %ld size %zu flags %#x two %d seed %llu\n", r, size, fl, two, (unsigned long long)seed);
		close_rings();
	}
	printf("seq: seed %llu ops %ld %s\n", (unsigned long long)seed, total, failed ? "FAILED" : "ok");
	return failed ? 1 : 0;
}
#endif

#ifdef ILV
#include <ucontext.h>
extern void ilv_setup(void *a0, size_t l0, void *a1, size_t l1);
extern void ilv_run(void (*f0)(void), void (*f1)(void), uint64_t seed, uint32_t num, uint32_t den);
extern unsigned long ilv_switches, ilv_points;

static long w_ops, r_ops;
static int w_done;
static void writer_co(void)
{
	for (long i = 0; i < w_ops && !failed; i++)
		do_write(pick_len(), rndn(3));
	w_done = 1;
}
static void reader_co(void)
{
	long idle = 0;
	while (!failed) {
		uint32_t h = rndn(100);
		int rc = do_read(h < 45 ? 0 : h < 50 ? 3 : h < 90 ? 1 : 2, !w_done, 0);
		if (rc == 0 && w_done && nr >= nw) { if (++idle > 2) break; }
	}
}

/*
 * systematic part: a small scenario (writer: up to 3 writes, reader: up to 4
 * reads) from a prepared ring state, run under EVERY schedule with at most
 * 'maxsw' switches (switch positions enumerated over all access points).
 */
extern long ilv_run_sched(void (*f0)(void), void (*f1)(void), int first, const int *sw, int n);
static uint32_t sc_len[3]; static int sc_nw, sc_nrd, sc_whow, sc_rhow;
static void sc_writer(void)
{
	for (int i = 0; i < sc_nw && !failed; i++) do_write(sc_len[i], sc_whow);
	w_done = 1;
}
static void sc_reader(void)
{
	for (int i = 0; i < sc_nrd && !failed; i++) do_read(sc_rhow, !w_done, 0);
}
static void sc_reset(uint32_t pos, int prefill)
{
	uint32_t ws = rbw->shared_hdr->word_size;
	/* worst case leftovers of earlier laps: everything looks like a marker */
	memset(rbw->shared_data, 0xA1, (size_t)ws * 4);
	rbw->shared_data[pos % ws] = 0;
	rbw->shared_data[(pos + 1) % ws] = DEAD;
	rbw->shared_hdr->write_pt = rbw->shared_hdr->read_pt = pos % ws;
	if (rbw->notifier.timedwait_fn) while (rbw->notifier.timedwait_fn(rbw->notifier.instance, 0) == 0) ;
	nw = nr = 0; w_done = 0;
	/* chunks already waiting */
	if (prefill == 2) do_write(4040, 0);	/* nearly full: refusals until the reader has taken it */
	else for (int i = 0; i < prefill; i++) do_write(i == 0 ? 7 : 0, 0);
}
static unsigned long sc_runs;
static int sc_explore(uint32_t pos, int prefill, int maxsw)
{
	int sw[3]; long n;
	for (int first = 0; first < 2 && !failed; first++) {
		sc_reset(pos, prefill);
		n = ilv_run_sched(sc_writer, sc_reader, first, sw, 0); sc_runs++;
		if (n > 400) n = 400;
		for (int a = 0; a < n && !failed && maxsw >= 1; a++) {
			sw[0] = a; sc_reset(pos, prefill);
			long n1 = ilv_run_sched(sc_writer, sc_reader, first, sw, 1); sc_runs++;
			for (int b = a + 1; b < n1 && !failed && maxsw >= 2; b++) {
				sw[1] = b; sc_reset(pos, prefill);
				long n2 = ilv_run_sched(sc_writer, sc_reader, first, sw, 2); sc_runs++;
				for (int c = b + 1; c < n2 && !failed && maxsw >= 3; c++) {
					sw[2] = c; sc_reset(pos, prefill);
					ilv_run_sched(sc_writer, sc_reader, first, sw, 3); sc_runs++;
					if (failed) fprintf(stderr, "  sched first %d switches %d %d %d\n", first, a, b, c);
				}
				if (failed) fprintf(stderr, "  sched first %d switches %d %d\n", first, a, b);
			}
			if (failed) fprintf(stderr, "  sched first %d switch %d\n", first, a);
		}
	}
	/* whatever is left must still come out, in order */
	return failed;
}
static int sys_main(int maxsw)
{
	static const uint32_t fls[] = { QB_RB_FLAG_NO_SEMAPHORE, 0 };
	ent = calloc(MAXN, sizeof *ent);
	for (int f = 0; f < 2 && !failed; f++) {
		if (getenv("SYS_F") && atoi(getenv("SYS_F")) != f) continue;
		if (open_rings(1, fls[f], 0)) return 2;	/* 1024 words */
		uint32_t ws = rbw->shared_hdr->word_size;
		ilv_setup(rbw->shared_hdr, sizeof(struct qb_ringbuffer_shared_s), rbw->shared_data, (size_t)ws * 8);
		static const uint32_t L[][3] = { {0, 0, 0}, {1, 4, 5}, {5, 0, 3}, {4084, 0, 0}, {4081, 1, 0}, {4072, 0, 1}, {4068, 4, 0}, {2000, 2060, 9}, {8, 4060, 0} };
		uint32_t poss[] = { 0, ws - 1, ws - 2, ws - 3, ws - 4, 17 };
		for (unsigned li = 0; li < sizeof L / sizeof *L && !failed; li++) if (!getenv("SYS_LI") || (unsigned)atoi(getenv("SYS_LI")) == li)
		for (unsigned pi = 0; pi < 6 && !failed; pi++)
		for (int wh = 0; wh < 2 && !failed; wh++)
		for (int rh = 0; rh < 2 && !failed; rh++)
		for (int pre = 0; pre < 3 && !failed; pre++) if (!getenv("SYS_PRE") || atoi(getenv("SYS_PRE")) == pre) {
			memcpy(sc_len, L[li], sizeof sc_len);
			sc_nw = 3; sc_nrd = 4; sc_whow = wh; sc_rhow = rh;
			if (sc_explore(poss[pi], pre, (sc_len[0] > 64 || sc_len[1] > 64) ? (maxsw > 2 ? 2 : maxsw) : maxsw))
				fprintf(stderr, "  scenario flags %#x lens %u %u %u pos %u whow %d rhow %d prefill %d\n", fls[f], sc_len[0], sc_len[1], sc_len[2], poss[pi], wh, rh, pre);
			/* drain and compare the rest */
			w_done = 1;
			while (!failed && nr < nw) if (do_read(0, 0, 0) != 1 && !failed) { fprintf(stderr, "VIOLATION: drain stuck %u/%u\n", nr, nw); failed = 1; }
			if (!failed && do_read(0, 0, 0) != 0) { fprintf(stderr, "VIOLATION: extra chunk\n"); failed = 1; }
		}
		close_rings();
	}
	printf("sys: maxsw %d schedules run %lu %s\n", maxsw, sc_runs, failed ? "FAILED" : "ok");
	return failed ? 1 : 0;
}

int main(int argc, char **argv)
{
	if (argc > 1 && !strcmp(argv[1], "sys")) return sys_main(argc > 2 ? atoi(argv[2]) : 2);
	uint64_t seed = argc > 1 ? strtoull(argv[1], 0, 0) : 1;
	long rounds = argc > 2 ? atol(argv[2]) : 200;
	w_ops = argc > 3 ? atol(argv[3]) : 300;
	static const uint32_t dens[] = { 2, 3, 5, 10, 30, 100, 400, 0, 0, 0 };
	unsigned long tw = 0;
	rs ^= seed * 0x9E3779B97F4A7C15ull; rnd();
	ent = calloc(MAXN, sizeof *ent);
	for (long r = 0; r < rounds && !failed; r++) {
		size_t size = sizes[rndn(6)];
		uint32_t fl = flagsets[rndn(4)];
		int two = (fl & QB_RB_FLAG_SHARED_PROCESS) ? rndn(2) : 0;
		uint32_t den = dens[rndn(10)];
		if (open_rings(size, fl, two)) return 2;
		ilv_setup(rbw->shared_hdr, sizeof(struct qb_ringbuffer_shared_s),
			  rbw->shared_data, (size_t)rbw->shared_hdr->word_size * 8);
		if (two) /* second mapping of the same memory */
			ilv_setup(rbr->shared_hdr, sizeof(struct qb_ringbuffer_shared_s),
				  rbr->shared_data, (size_t)rbr->shared_hdr->word_size * 8);
		w_done = 0;
		ilv_run(writer_co, reader_co, rnd(), 1, den);
		if (!failed && nr != nw) { fprintf(stderr, "VIOLATION: read %u of %u\n", nr, nw); failed = 1; }
		if (failed) fprintf(stderr, "  round %ld size %zu flags %#x two %d den %u seed %llu\n", r, size, fl, two, den, (unsigned long long)seed);
		tw += nw;
		close_rings();
	}
	printf("ilv: seed %llu chunks %lu points %lu switches %lu %s\n", (unsigned long long)seed, tw, ilv_points, ilv_switches, failed ? "FAILED" : "ok");
	return failed ? 1 : 0;
}
#endif

#ifdef THR
static long w_ops;
static volatile int w_done;
static int32_t r_tmo;
static void *writer_th(void *a)
{
	for (long i = 0; i < w_ops && !failed; i++) {
		int rc = do_write(pick_len(), rndn(3));
		if (rc == 0 && (rnd() & 3) == 0) sched_yield();
	}
	__atomic_store_n(&w_done, 1, __ATOMIC_SEQ_CST);
	return a;
}
static uint64_t rs2;
static void *reader_th(void *a)
{
	long idle = 0;
	while (!failed) {
		int done = __atomic_load_n(&w_done, __ATOMIC_SEQ_CST);
		rs2 = rs2 * 6364136223846793005ull + 1442695040888963407ull;
		uint32_t h = (uint32_t)(rs2 >> 33) % 100;
		int rc = do_read(h < 50 ? 0 : 1, !done, r_tmo);
		if (rc == 0 && done && nr >= nw) { if (++idle > 2) break; }
	}
	return a;
}
int main(int argc, char **argv)
{
	uint64_t seed = argc > 1 ? strtoull(argv[1], 0, 0) : 1;
	long rounds = argc > 2 ? atol(argv[2]) : 20;
	w_ops = argc > 3 ? atol(argv[3]) : 200000;
	unsigned long tw = 0;
	rs ^= seed * 0x9E3779B97F4A7C15ull; rnd(); rs2 = seed;
	ent = calloc(MAXN, sizeof *ent);
	for (long r = 0; r < rounds && !failed; r++) {
		pthread_t tw_, tr_;
		size_t size = sizes[rndn(6)];
		uint32_t fl = flagsets[rndn(4)];
		int two = (fl & QB_RB_FLAG_SHARED_PROCESS) ? rndn(2) : 0;
		r_tmo = (fl & QB_RB_FLAG_NO_SEMAPHORE) ? 0 : (int32_t)rndn(3);
		if (open_rings(size, fl, two)) return 2;
		w_done = 0;
		pthread_create(&tr_, NULL, reader_th, NULL);
		pthread_create(&tw_, NULL, writer_th, NULL);
		pthread_join(tw_, NULL);
		pthread_join(tr_, NULL);
		if (!failed && nr != nw) { fprintf(stderr, "VIOLATION: read %u of %u\n", nr, nw); failed = 1; }
		if (failed) fprintf(stderr, "  round %ld size %zu flags %#x two %d seed %llu\n", r, size, fl, two, (unsigned long long)seed);
		tw += nw;
		close_rings();
	}
	printf("thr: seed %llu chunks %lu %s\n", (unsigned long long)seed, tw, failed ? "FAILED" : "ok");
	return failed ? 1 : 0;
}
#endif
