/*
 * Stand-in for the thread sanitizer runtime: lib/ringbuffer.c and
 * lib/ringbuffer_helper.c are compiled with -fsanitize=thread (instrumentation
 * only), the program is linked WITHOUT the tsan runtime and these hooks turn
 * every instrumented access to the shared memory into a possible coroutine
 * switch.  Result: sequentially consistent interleavings of writer and reader
 * at the granularity of single accesses to header / data words.
 */
#define _GNU_SOURCE
#include <stdint.h>
#include <stddef.h>
#include <stdlib.h>
#include <string.h>
#include <ucontext.h>

static struct { char *a; size_t l; } rng_[8];
static int nrng;
static ucontext_t cmain, cco[2];
static int cur = -1, fin[2];
static uint64_t srs;
static uint32_t snum, sden;
unsigned long ilv_switches, ilv_points;
static const int *sch; static int nsch, schi; static long schcnt; static int sched_mode, adaptive;
static const uint32_t dl[] = { 2, 3, 5, 10, 30, 100, 400, 2000 };
static void (*fns[2])(void);

void ilv_setup(void *a0, size_t l0, void *a1, size_t l1)
{
	if (nrng >= 8) nrng = 0;
	rng_[nrng].a = a0; rng_[nrng++].l = l0;
	rng_[nrng].a = a1; rng_[nrng++].l = l1;
}

static inline uint32_t srnd(void) { srs ^= srs << 13; srs ^= srs >> 7; srs ^= srs << 17; return (uint32_t)(srs >> 11); }

static void point(const void *addr, int force)
{
	int i, other;
	if (cur < 0) return;
	if (!force) {
		for (i = 0; i < nrng; i++)
			if ((char *)addr >= rng_[i].a && (char *)addr < rng_[i].a + rng_[i].l) break;
		if (i == nrng) return;
	}
	ilv_points++;
	other = 1 - cur;
	if (fin[other]) return;
	if (sched_mode) {
		long c = schcnt++;
		if (schi >= nsch || sch[schi] != c) return;
		schi++;
	} else {
		if (srnd() % sden >= snum) return;
		if (adaptive && (srnd() & 3) == 0) sden = dl[srnd() % 8];
	}
	ilv_switches++;
	i = cur; cur = other;
	swapcontext(&cco[i], &cco[other]);
}

static void tramp(int i)
{
	fns[i]();
	fin[i] = 1;
	if (!fin[1 - i]) { cur = 1 - i; swapcontext(&cco[i], &cco[1 - i]); }
	cur = -1;
	swapcontext(&cco[i], &cmain);
}

void ilv_run(void (*f0)(void), void (*f1)(void), uint64_t seed, uint32_t num, uint32_t den)
{
	static char *st[2];
	int i;
	srs = seed | 1; snum = num; sden = den; adaptive = (den == 0); if (adaptive) sden = 10;
	fns[0] = f0; fns[1] = f1; fin[0] = fin[1] = 0;
	for (i = 0; i < 2; i++) {
		if (!st[i]) st[i] = malloc(1 << 20);
		getcontext(&cco[i]);
		cco[i].uc_stack.ss_sp = st[i];
		cco[i].uc_stack.ss_size = 1 << 20;
		cco[i].uc_link = &cmain;
		makecontext(&cco[i], (void (*)(void))tramp, 1, i);
	}
	cur = sched_mode ? (int)(seed & 1) : (int)(srnd() & 1);
	swapcontext(&cmain, &cco[cur]);
	cur = -1;
	if (!sched_mode) nrng = 0;
}

/* switch exactly at the listed point numbers; returns the number of points passed */
long ilv_run_sched(void (*f0)(void), void (*f1)(void), int first, const int *sw, int n)
{
	sched_mode = 1; sch = sw; nsch = n; schi = 0; schcnt = 0;
	ilv_run(f0, f1, (uint64_t)first, 1, 1);
	sched_mode = 0;
	return schcnt;
}

/* a memcpy that can be preempted between words */
void *ilv_memcpy(void *d, const void *s, size_t n)
{
	size_t i = 0;
	while (i < n) {
		size_t c = n - i < 4 ? n - i : 4;
		point((char *)d + i, 0);
		point((const char *)s + i, 0);
		memcpy((char *)d + i, (const char *)s + i, c);
		i += c;
		if (n > 256 && i >= 32 && i + 32 < n) { /* middle of a long chunk in one go */
			size_t m = n - 32 - i;
			memcpy((char *)d + i, (const char *)s + i, m);
			i += m;
		}
	}
	return d;
}

void __tsan_init(void) {}
void __tsan_func_entry(void *pc) { (void)pc; point(0, 1); }
void __tsan_func_exit(void) { point(0, 1); }
#define RW(n) \
void __tsan_read##n(void *a) { point(a, 0); } \
void __tsan_write##n(void *a) { point(a, 0); } \
void __tsan_unaligned_read##n(void *a) { point(a, 0); } \
void __tsan_unaligned_write##n(void *a) { point(a, 0); } \
void __tsan_volatile_read##n(void *a) { point(a, 0); } \
void __tsan_volatile_write##n(void *a) { point(a, 0); }
RW(1) RW(2) RW(4) RW(8) RW(16)
void __tsan_read_range(void *a, long n) { (void)n; point(a, 0); }
void __tsan_write_range(void *a, long n) { (void)n; point(a, 0); }
void __tsan_vptr_update(void **a, void *b) { (void)a; (void)b; }
void __tsan_vptr_read(void **a) { (void)a; }

int32_t __tsan_atomic32_load(const volatile int32_t *a, int mo) { (void)mo; point((const void *)a, 0); return __atomic_load_n(a, __ATOMIC_SEQ_CST); }
void __tsan_atomic32_store(volatile int32_t *a, int32_t v, int mo) { (void)mo; point((const void *)a, 0); __atomic_store_n(a, v, __ATOMIC_SEQ_CST); }
int32_t __tsan_atomic32_fetch_add(volatile int32_t *a, int32_t v, int mo) { (void)mo; point((const void *)a, 0); return __atomic_fetch_add(a, v, __ATOMIC_SEQ_CST); }
int32_t __tsan_atomic32_fetch_sub(volatile int32_t *a, int32_t v, int mo) { (void)mo; point((const void *)a, 0); return __atomic_fetch_sub(a, v, __ATOMIC_SEQ_CST); }
int32_t __tsan_atomic32_exchange(volatile int32_t *a, int32_t v, int mo) { (void)mo; point((const void *)a, 0); return __atomic_exchange_n(a, v, __ATOMIC_SEQ_CST); }
int __tsan_atomic32_compare_exchange_strong(volatile int32_t *a, int32_t *c, int32_t v, int mo, int fmo) { (void)mo; (void)fmo; point((const void *)a, 0); return __atomic_compare_exchange_n(a, c, v, 0, __ATOMIC_SEQ_CST, __ATOMIC_SEQ_CST); }
int __tsan_atomic32_compare_exchange_weak(volatile int32_t *a, int32_t *c, int32_t v, int mo, int fmo) { (void)mo; (void)fmo; point((const void *)a, 0); return __atomic_compare_exchange_n(a, c, v, 0, __ATOMIC_SEQ_CST, __ATOMIC_SEQ_CST); }
int32_t __tsan_atomic32_compare_exchange_val(volatile int32_t *a, int32_t c, int32_t v, int mo, int fmo) { (void)mo; (void)fmo; point((const void *)a, 0); __atomic_compare_exchange_n(a, &c, v, 0, __ATOMIC_SEQ_CST, __ATOMIC_SEQ_CST); return c; }
void __tsan_atomic_thread_fence(int mo) { (void)mo; __atomic_thread_fence(__ATOMIC_SEQ_CST); }
void __tsan_atomic_signal_fence(int mo) { (void)mo; }
