#!/bin/sh
# usage: build.sh [tree]   (default /repo)
set -e
T=${1:-/repo}
cd "$(dirname "$0")"
INC="-DHAVE_CONFIG_H -I$T/include -I$T/include/qb -I$T/lib"
LIBS="-L$T/lib/.libs -lqb -lpthread"
# 1. sequential model fuzz, ASan+UBSan
gcc -g -O1 -fsanitize=address,undefined -fno-sanitize-recover=undefined $INC fuzz.c $T/lib/ringbuffer.c $T/lib/ringbuffer_helper.c -o fuzz_seq $LIBS
# 2. interleaving explorer: library files instrumented with tsan hooks, no tsan runtime
gcc -g -O1 -fsanitize=thread $INC -Dmemcpy=ilv_memcpy -c $T/lib/ringbuffer.c -o ilv_rb.o
gcc -g -O1 -fsanitize=thread $INC -c $T/lib/ringbuffer_helper.c -o ilv_rbh.o
gcc -g -O1 -DILV $INC fuzz.c ilv_hooks.c ilv_rb.o ilv_rbh.o -o fuzz_ilv $LIBS
# 3. real threads: tsan build and optimized plain build
gcc -g -O1 -DTHR -fsanitize=thread $INC fuzz.c $T/lib/ringbuffer.c $T/lib/ringbuffer_helper.c -o fuzz_thr_tsan $LIBS
gcc -g -O2 -DTHR $INC fuzz.c $T/lib/ringbuffer.c $T/lib/ringbuffer_helper.c -o fuzz_thr $LIBS
gcc -g -O2 $INC huge.c $T/lib/ringbuffer.c $T/lib/ringbuffer_helper.c -o huge $LIBS
echo built
