/* targeted: rings near the 4 GiB limit, chunk lengths above INT32_MAX, wrap across the end */
#define _GNU_SOURCE
#include <stdio.h>
#include <stdlib.h>
#include <string.h>
#include <stdint.h>
#include <errno.h>
#include <unistd.h>
#include <qb/qbrb.h>
#include "ringbuffer_int.h"
static unsigned char *src, *dst;
static void pat(size_t len, uint32_t seed) { uint64_t *p = (uint64_t *)src; for (size_t i = 0; i < len / 8 + 1; i++) p[i] = (i * 0x9E3779B97F4A7C15ull) ^ seed ^ 0xA1A1A1A1A1A1A1A1ull; }
int main(int argc, char **argv)
{
	size_t size = argc > 1 ? strtoull(argv[1], 0, 0) : (size_t)UINT32_MAX - 13 - 4095;
	uint32_t flags = argc > 2 ? strtoul(argv[2], 0, 0) : QB_RB_FLAG_NO_SEMAPHORE;
	char name[64]; int bad = 0;
	snprintf(name, sizeof name, "h3c01-huge-%d", (int)getpid());
	qb_ringbuffer_t *rb = qb_rb_open(name, size, flags | QB_RB_FLAG_CREATE, 0);
	if (!rb) { printf("open(%zu) failed errno %d\n", size, errno); return 0; }
	size_t cmax = qb_rb_chunk_max(rb);
	printf("word_size %u cmax %zu\n", rb->shared_hdr->word_size, cmax);
	src = malloc(cmax + 64); dst = malloc(cmax + 64);
	size_t lens[] = { cmax, cmax - 1, 0x80000005u < cmax ? 0x80000005u : cmax / 2, cmax / 2 + 3, cmax / 2 + 1, 7, cmax - 100, 0, cmax - 3, cmax / 3, cmax / 3 + 2, cmax / 3 + 1 };
	size_t pending[16]; uint32_t pseed[16]; int ph = 0, pt = 0;
	for (unsigned i = 0; i < sizeof lens / sizeof *lens && !bad; i++) {
		size_t len = lens[i];
		for (;;) {
			pat(len, i);
			ssize_t w = qb_rb_chunk_write(rb, src, len);
			if (w == (ssize_t)len) { pending[pt] = len; pseed[pt] = i; pt = (pt + 1) % 16; break; }
			if (w != -EAGAIN) { printf("VIOLATION write(%zu) -> %zd\n", len, w); bad = 1; break; }
			if (ph == pt) { printf("write(%zu) refused on an empty ring (free %zd)\n", len, qb_rb_space_free(rb)); break; }
			/* make room: read the oldest */
			ssize_t r = qb_rb_chunk_read(rb, dst, cmax + 8, 0);
			pat(pending[ph], pseed[ph]);
			if (r != (ssize_t)pending[ph] || memcmp(dst, src, pending[ph])) { printf("VIOLATION read -> %zd expected %zu (or bytes differ)\n", r, pending[ph]); bad = 1; break; }
			ph = (ph + 1) % 16;
		}
		printf("wrote %zu wp %u rp %u\n", len, rb->shared_hdr->write_pt, rb->shared_hdr->read_pt);
	}
	while (!bad && ph != pt) {
		void *p; ssize_t r = qb_rb_chunk_peek(rb, &p, 0);
		pat(pending[ph], pseed[ph]);
		if (r != (ssize_t)pending[ph] || memcmp(p, src, pending[ph])) { printf("VIOLATION peek -> %zd expected %zu (or bytes differ)\n", r, pending[ph]); bad = 1; break; }
		qb_rb_chunk_reclaim(rb);
		ph = (ph + 1) % 16;
	}
	if (!bad && qb_rb_chunk_read(rb, dst, cmax, 0) != -ETIMEDOUT) { printf("VIOLATION extra chunk\n"); bad = 1; }
	qb_rb_close(rb);
	printf("huge: %s\n", bad ? "FAILED" : "ok");
	return bad;
}
