/*
 * Copyright 2010-2024 Red Hat, Inc.
 *
 * Author: Angus Salkeld <asalkeld@redhat.com>
 *
 * This file is part of libqb.
 *
 * libqb is free software: you can redistribute it and/or modify
 * it under the terms of the GNU Lesser General Public License as published by
 * the Free Software Foundation, either version 2.1 of the License, or
 * (at your option) any later version.
 *
 * libqb is distributed in the hope that it will be useful,
 * but WITHOUT ANY WARRANTY; without even the implied warranty of
 * MERCHANTABILITY or FITNESS FOR A PARTICULAR PURPOSE.  See the
 * GNU Lesser General Public License for more details.
 *
 * You should have received a copy of the GNU Lesser General Public License
 * along with libqb.  If not, see <http://www.gnu.org/licenses/>.
 */
#include "ringbuffer_int.h"
#include <qb/qbdefs.h>
#include "atomic_int.h"

#define QB_RB_FILE_HEADER_VERSION 1

/*
 * #define CRAZY_DEBUG_PRINTFS 1
 */
#ifdef CRAZY_DEBUG_PRINTFS
#define DEBUG_PRINTF(format, args...)	\
do {				\
	printf(format, ##args);	\
} while(0)
#else
#define DEBUG_PRINTF(format, args...)
#endif /* CRAZY_DEBUG_PRINTFS */

/*
 * move the write pointer to the next 128 byte boundary
 * write_pt goes in 4 bytes (sizeof(uint32_t))
 * #define USE_CACHE_LINE_ALIGNMENT 1
 */
#ifdef USE_CACHE_LINE_ALIGNMENT
#define QB_CACHE_LINE_SIZE 128
#define QB_CACHE_LINE_WORDS (QB_CACHE_LINE_SIZE/sizeof(uint32_t))
#define idx_cache_line_step(idx)	\
do {					\
	if (idx % QB_CACHE_LINE_WORDS) {			\
		idx += (QB_CACHE_LINE_WORDS - (idx % QB_CACHE_LINE_WORDS));	\
	}				\
	if (idx > (rb->shared_hdr->word_size - 1)) {		\
		idx = ((idx) % (rb->shared_hdr->word_size));	\
	}						\
} while (0)
#else
#define QB_CACHE_LINE_SIZE 0
#define QB_CACHE_LINE_WORDS 0
#define idx_cache_line_step(idx)			\
do {							\
	if (idx > (rb->shared_hdr->word_size - 1)) {		\
		idx = ((idx) % (rb->shared_hdr->word_size));	\
	}						\
} while (0)
#endif


/* the chunk header is two words
 * 1) the chunk data size
 * 2) the magic number
 */
#define QB_RB_CHUNK_HEADER_WORDS 2
#define QB_RB_CHUNK_HEADER_SIZE (sizeof(uint32_t) * QB_RB_CHUNK_HEADER_WORDS)
/*
 * margin is the gap we leave when checking to see if we have enough
 * space for a new chunk.
 * So:
 * qb_rb_space_free() >= QB_RB_CHUNK_MARGIN + new data chunk
 * The extra word size is to allow for non word sized data chunks.
 * QB_CACHE_LINE_WORDS is to make sure we have space to align the
 * chunk.
 */
#define QB_RB_WORD_ALIGN 1
#define QB_RB_CHUNK_MARGIN (sizeof(uint32_t) * (QB_RB_CHUNK_HEADER_WORDS +\
						QB_RB_WORD_ALIGN +\
						QB_CACHE_LINE_WORDS))
#define QB_RB_CHUNK_MAGIC		0xA1A1A1A1
#define QB_RB_CHUNK_MAGIC_DEAD		0xD0D0D0D0
#define QB_RB_CHUNK_MAGIC_ALLOC		0xA110CED0
#define QB_RB_CHUNK_SIZE_GET(rb, pointer) rb->shared_data[pointer]
#define QB_RB_CHUNK_MAGIC_GET(rb, pointer) \
	qb_atomic_int_get_ex((int32_t*)&rb->shared_data[(pointer + 1) % rb->shared_hdr->word_size], \
                             QB_ATOMIC_ACQUIRE)
#define QB_RB_CHUNK_MAGIC_SET(rb, pointer, new_val) \
	qb_atomic_int_set_ex((int32_t*)&rb->shared_data[(pointer + 1) % rb->shared_hdr->word_size], \
			     new_val, QB_ATOMIC_RELEASE)
#define QB_RB_CHUNK_DATA_GET(rb, pointer) \
	&rb->shared_data[(pointer + QB_RB_CHUNK_HEADER_WORDS) % rb->shared_hdr->word_size]

#define QB_MAGIC_ASSERT(_ptr_) \
do {							\
	uint32_t chunk_magic = QB_RB_CHUNK_MAGIC_GET(rb, _ptr_); \
	if (chunk_magic != QB_RB_CHUNK_MAGIC) print_header(rb); \
	assert(chunk_magic == QB_RB_CHUNK_MAGIC); \
} while (0)

#define idx_step(idx)					\
do {							\
	if (idx > (rb->shared_hdr->word_size - 1)) {		\
		idx = ((idx) % (rb->shared_hdr->word_size));	\
	}						\
} while (0)

static void print_header(struct qb_ringbuffer_s * rb);
static int _rb_chunk_reclaim(struct qb_ringbuffer_s * rb);

qb_ringbuffer_t *
qb_rb_open(const char *name, size_t size, uint32_t flags,
	   size_t shared_user_data_size)
{
	return qb_rb_open_2(name, size, flags, shared_user_data_size, NULL);
}

qb_ringbuffer_t *
qb_rb_open_2(const char *name, size_t size, uint32_t flags,
	     size_t shared_user_data_size,
	     struct qb_rb_notifier *notifiers)
{
	struct qb_ringbuffer_s *rb;
	size_t real_size;
	size_t shared_size;
	char path[PATH_MAX];
	int32_t fd_hdr;
	int32_t fd_data;
	uint32_t file_flags = O_RDWR;
	char filename[PATH_MAX];
	int32_t error = 0;
	void *shm_addr;
	long page_size = sysconf(_SC_PAGESIZE);

#ifdef QB_ARCH_HPPA
	page_size = QB_MAX(page_size, 0x00400000); /* align to page colour */
#elif defined(QB_FORCE_SHM_ALIGN)
	page_size = QB_MAX(page_size, 16 * 1024);
#endif /* QB_FORCE_SHM_ALIGN */
	/* The user of this api expects the 'size' parameter passed into this function
	 * to be reflective of the max size single write we can do to the
	 * ringbuffer.  This means we have to add both the 'margin' space used
	 * to calculate if there is enough space for a new chunk as well as the '+1' that
	 * prevents overlap of the read/write pointers */
	/*
	 * Chunk lengths and the ring's indices are 32 bit words: a ring they
	 * cannot describe is refused, not silently made smaller.
	 */
	if (size > UINT32_MAX - QB_RB_CHUNK_MARGIN - 1) {
		errno = EINVAL;
		return NULL;
	}
	size += QB_RB_CHUNK_MARGIN + 1;
	real_size = QB_ROUNDUP(size, page_size);
	if (real_size < size || real_size > UINT32_MAX) {
		errno = EINVAL;
		return NULL;
	}

	shared_size =
	    sizeof(struct qb_ringbuffer_shared_s) + shared_user_data_size;

	if (flags & QB_RB_FLAG_CREATE) {
		file_flags |= O_CREAT | O_TRUNC | O_EXCL;
	}

	rb = calloc(1, sizeof(struct qb_ringbuffer_s));
	if (rb == NULL) {
		return NULL;
	}

	/*
	 * Create a shared_hdr memory segment for the header.
	 */
	snprintf(filename, PATH_MAX, "%s-header", name);
	fd_hdr = qb_sys_mmap_file_open(path, filename,
				       shared_size, file_flags);
	if (fd_hdr < 0) {
		error = fd_hdr;
		qb_util_log(LOG_ERR, "couldn't create file for mmap");
		goto cleanup_hdr;
	}

	rb->shared_hdr = mmap(0,
			      shared_size,
			      PROT_READ | PROT_WRITE, MAP_SHARED, fd_hdr, 0);

	if (rb->shared_hdr == MAP_FAILED) {
		error = -errno;
		qb_util_log(LOG_ERR, "couldn't create mmap for header");
		goto cleanup_hdr;
	}
	qb_atomic_init();

	rb->flags = flags;

	/*
	 * create the semaphore
	 */
	if (flags & QB_RB_FLAG_CREATE) {
		rb->shared_data = NULL;
		/* rb->shared_hdr->word_size tracks data by ints and not bytes/chars. */
		rb->shared_hdr->word_size = real_size / sizeof(uint32_t);
		rb->shared_hdr->write_pt = 0;
		rb->shared_hdr->read_pt = 0;
		(void)strlcpy(rb->shared_hdr->hdr_path, path, PATH_MAX);
	}
	if (notifiers && notifiers->post_fn) {
		error = 0;
		memcpy(&rb->notifier,
		       notifiers,
		       sizeof(struct qb_rb_notifier));
	} else {
		error = qb_rb_sem_create(rb, flags);
	}
	if (error < 0) {
		errno = -error;
		qb_util_perror(LOG_ERR, "couldn't create a semaphore");
		goto cleanup_hdr;
	}

	/* Create the shared_data memory segment for the actual ringbuffer.
	 * They have to be separate.
	 */
	if (flags & QB_RB_FLAG_CREATE) {
		snprintf(filename, PATH_MAX, "%s-data", name);
		fd_data = qb_sys_mmap_file_open(path,
						filename,
						real_size, file_flags);
		(void)strlcpy(rb->shared_hdr->data_path, path, PATH_MAX);
	} else {
		fd_data = qb_sys_mmap_file_open(path,
						rb->shared_hdr->data_path,
						real_size, file_flags);
	}
	if (fd_data < 0) {
		error = fd_data;
		qb_util_log(LOG_ERR, "couldn't create file for mmap");
		goto cleanup_hdr;
	}

	qb_util_log(LOG_TRACE,
		    "shm size:%ld; real_size:%ld; rb->word_size:%d", size,
		    real_size, rb->shared_hdr->word_size);

	/* this function closes fd_data */
	error = qb_sys_circular_mmap(fd_data, &shm_addr, real_size);
	rb->shared_data = shm_addr;
	if (error != 0) {
		qb_util_log(LOG_ERR, "couldn't create circular mmap on %s",
			    rb->shared_hdr->data_path);
		goto cleanup_data;
	}

	if (flags & QB_RB_FLAG_CREATE) {
		memset(rb->shared_data, 0, real_size);
		rb->shared_data[rb->shared_hdr->word_size] = 5;
		rb->shared_hdr->ref_count = 1;
	} else {
		qb_atomic_int_inc(&rb->shared_hdr->ref_count);
	}

	close(fd_hdr);
	return rb;

cleanup_data:
	if (flags & QB_RB_FLAG_CREATE) {
		unlink(rb->shared_hdr->data_path);
	}

cleanup_hdr:
	if (fd_hdr >= 0) {
		close(fd_hdr);
	}
	if (rb && (rb->shared_hdr != MAP_FAILED) && (flags & QB_RB_FLAG_CREATE)) {
		unlink(rb->shared_hdr->hdr_path);
		if (rb->notifier.destroy_fn) {
			(void)rb->notifier.destroy_fn(rb->notifier.instance);
		}
	}
	if (rb && (rb->shared_hdr != MAP_FAILED)) {
		munmap(rb->shared_hdr, sizeof(struct qb_ringbuffer_shared_s));
	}
	free(rb);
	errno = -error;
	return NULL;
}


void
qb_rb_close(struct qb_ringbuffer_s * rb)
{
	if (rb == NULL) {
		return;
	}
	qb_enter();

	(void)qb_atomic_int_dec_and_test(&rb->shared_hdr->ref_count);
	(void)qb_rb_close_helper(rb, rb->flags & QB_RB_FLAG_CREATE, QB_FALSE);
}

void
qb_rb_force_close(struct qb_ringbuffer_s * rb)
{
	if (rb == NULL) {
		return;
	}
	qb_enter();

	qb_atomic_int_set(&rb->shared_hdr->ref_count, -1);
	(void)qb_rb_close_helper(rb, QB_TRUE, QB_TRUE);
}

char *
qb_rb_name_get(struct qb_ringbuffer_s * rb)
{
	if (rb == NULL) {
		return NULL;
	}
	return rb->shared_hdr->hdr_path;
}

void *
qb_rb_shared_user_data_get(struct qb_ringbuffer_s * rb)
{
	if (rb == NULL) {
		return NULL;
	}
	return rb->shared_hdr->user_data;
}

int32_t
qb_rb_refcount_get(struct qb_ringbuffer_s * rb)
{
	if (rb == NULL) {
		return -EINVAL;
	}
	return qb_atomic_int_get(&rb->shared_hdr->ref_count);
}

ssize_t
qb_rb_space_free(struct qb_ringbuffer_s * rb)
{
	uint32_t write_size;
	uint32_t read_size;
	size_t space_free = 0;

	if (rb == NULL) {
		return -EINVAL;
	}
	if (rb->notifier.space_used_fn) {
		return (rb->shared_hdr->word_size * sizeof(uint32_t)) -
			rb->notifier.space_used_fn(rb->notifier.instance);
	}
	write_size = rb->shared_hdr->write_pt;
	read_size = rb->shared_hdr->read_pt;

	if (write_size > read_size) {
		space_free =
		    (read_size - write_size + rb->shared_hdr->word_size) - 1;
	} else if (write_size < read_size) {
		space_free = (read_size - write_size) - 1;
	} else {
		/*
		 * Equal indices mean empty or full; the chunk count tells
		 * which. Not in overwrite mode: there the writer drops old
		 * chunks itself without taking their count back, and it never
		 * fills the ring (it keeps the margin free), so equal indices
		 * can only mean that it has just emptied the ring.
		 */
		if (!(rb->flags & QB_RB_FLAG_OVERWRITE) &&
		    rb->notifier.q_len_fn && rb->notifier.q_len_fn(rb->notifier.instance) > 0) {
			space_free = 0;
		} else {
			space_free = rb->shared_hdr->word_size;
		}
	}

	/* word -> bytes */
	return (space_free * sizeof(uint32_t));
}

ssize_t
qb_rb_space_used(struct qb_ringbuffer_s * rb)
{
	uint32_t write_size;
	uint32_t read_size;
	size_t space_used;

	if (rb == NULL) {
		return -EINVAL;
	}
	if (rb->notifier.space_used_fn) {
		return rb->notifier.space_used_fn(rb->notifier.instance);
	}
	write_size = rb->shared_hdr->write_pt;
	read_size = rb->shared_hdr->read_pt;

	if (write_size > read_size) {
		space_used = write_size - read_size;
	} else if (write_size < read_size) {
		space_used =
		    (write_size - read_size + rb->shared_hdr->word_size) - 1;
	} else {
		space_used = 0;
	}
	/* word -> bytes */
	return (space_used * sizeof(uint32_t));
}

ssize_t
qb_rb_chunks_used(struct qb_ringbuffer_s *rb)
{
	if (rb == NULL) {
		return -EINVAL;
	}
	if (rb->notifier.q_len_fn) {
		return rb->notifier.q_len_fn(rb->notifier.instance);
	}
	return -ENOTSUP;
}

/* the longest chunk the ring can hold when it is empty */
size_t
qb_rb_chunk_max(struct qb_ringbuffer_s * rb)
{
	return (rb->shared_hdr->word_size * sizeof(uint32_t)) -
	    QB_RB_CHUNK_MARGIN;
}

void *
qb_rb_chunk_alloc(struct qb_ringbuffer_s * rb, size_t len)
{
	uint32_t write_pt;
	int32_t never_fits;

	if (rb == NULL) {
		errno = EINVAL;
		return NULL;
	}
	/*
	 * What the empty ring cannot hold: compared without adding to len,
	 * a length just below SIZE_MAX plus the margin is a small number.
	 */
	never_fits = (len > qb_rb_chunk_max(rb));
	/*
	 * Reclaim data if we are over writing and we need space
	 */
	if (rb->flags & QB_RB_FLAG_OVERWRITE) {
		/* refused before, not after, every chunk has been dropped to
		 * make room for it */
		if (never_fits) {
			errno = EINVAL;
			return NULL;
		}
		while (qb_rb_space_free(rb) < (len + QB_RB_CHUNK_MARGIN)) {
			int rc = _rb_chunk_reclaim(rb);
			if (rc != 0) {
				return NULL;  /* errno already set */
			}
		}
	} else {
		if (never_fits ||
		    qb_rb_space_free(rb) < (len + QB_RB_CHUNK_MARGIN)) {
			errno = EAGAIN;
			return NULL;
		}
	}

	write_pt = rb->shared_hdr->write_pt;
	/*
	 * insert the chunk header
	 */
	rb->shared_data[write_pt] = 0;
	QB_RB_CHUNK_MAGIC_SET(rb, write_pt, QB_RB_CHUNK_MAGIC_ALLOC);

	/*
	 * return a pointer to the beginning of the chunk data
	 */
	return (void *)QB_RB_CHUNK_DATA_GET(rb, write_pt);

}

static uint32_t
qb_rb_chunk_step(struct qb_ringbuffer_s * rb, uint32_t pointer)
{
	uint32_t chunk_size = QB_RB_CHUNK_SIZE_GET(rb, pointer);
	/*
	 * skip over the chunk header
	 */
	pointer += QB_RB_CHUNK_HEADER_WORDS;

	/*
	 * skip over the user's data.
	 */
	pointer += (chunk_size / sizeof(uint32_t));
	/* make allowance for non-word sizes */
	if ((chunk_size % (sizeof(uint32_t) * QB_RB_WORD_ALIGN)) != 0) {
		pointer++;
	}

	idx_cache_line_step(pointer);
	return pointer;
}

int32_t
qb_rb_chunk_commit(struct qb_ringbuffer_s * rb, size_t len)
{
	uint32_t old_write_pt;
	uint32_t new_write_pt;

	if (rb == NULL) {
		return -EINVAL;
	}
	/*
	 * commit the magic & chunk_size
	 */
	old_write_pt = rb->shared_hdr->write_pt;
	rb->shared_data[old_write_pt] = len;
	new_write_pt = qb_rb_chunk_step(rb, old_write_pt);

	/*
	 * The reader takes the two words behind this chunk for the header
	 * of the next one. They may still hold payload of an earlier lap,
	 * which must not be able to pass for a chunk marker. The chunk
	 * margin keeps the first of them free; the second one is free as
	 * well unless this chunk fills the whole ring, in which case it is
	 * this chunk's own length word (cleared when the chunk is reclaimed).
	 */

	/*
	 * commit the new write pointer
	 */
	rb->shared_hdr->write_pt = new_write_pt;
	QB_RB_CHUNK_MAGIC_SET(rb, old_write_pt, QB_RB_CHUNK_MAGIC);

	DEBUG_PRINTF("commit [%zd] read: %u, write: %u -> %u (%u)\n",
		     (rb->notifier.q_len_fn ?
		      rb->notifier.q_len_fn(rb->notifier.instance) : 0),
		     rb->shared_hdr->read_pt,
		     old_write_pt,
		     rb->shared_hdr->write_pt,
		     rb->shared_hdr->word_size);

	/*
	 * post the notification to the reader
	 */
	if (rb->notifier.post_fn) {
		return rb->notifier.post_fn(rb->notifier.instance, len);
	}
	return 0;
}

ssize_t
qb_rb_chunk_write(struct qb_ringbuffer_s * rb, const void *data, size_t len)
{
	char *dest = qb_rb_chunk_alloc(rb, len);
	int32_t res = 0;

	if (rb == NULL) {
		return -EINVAL;
	}

	if (dest == NULL) {
		return -errno;
	}

	memcpy(dest, data, len);

	res = qb_rb_chunk_commit(rb, len);
	if (res < 0) {
		return res;
	}

	return len;
}

static int
_rb_chunk_reclaim(struct qb_ringbuffer_s * rb)
{
	uint32_t old_read_pt;
	uint32_t new_read_pt;
	uint32_t old_chunk_size;
	uint32_t chunk_magic;
	int rc = 0;

	old_read_pt = rb->shared_hdr->read_pt;
	chunk_magic = QB_RB_CHUNK_MAGIC_GET(rb, old_read_pt);
	if (chunk_magic != QB_RB_CHUNK_MAGIC) {
		errno = EINVAL;
		return -errno;
	}

	old_chunk_size = QB_RB_CHUNK_SIZE_GET(rb, old_read_pt);
	new_read_pt = qb_rb_chunk_step(rb, old_read_pt);

	/*
	 * clear the header
	 */
	rb->shared_data[old_read_pt] = 0;
	QB_RB_CHUNK_MAGIC_SET(rb, old_read_pt, QB_RB_CHUNK_MAGIC_DEAD);

	/*
	 * set the new read pointer after clearing the header
	 * to prevent a situation where a fast writer will write their
	 * new chunk between setting the new read pointer and clearing the
	 * header.
	 */
	rb->shared_hdr->read_pt = new_read_pt;

	if (rb->notifier.reclaim_fn) {
		rc = rb->notifier.reclaim_fn(rb->notifier.instance,
						 old_chunk_size);
		if (rc < 0) {
			errno = -rc;
			qb_util_perror(LOG_WARNING, "reclaim_fn");
		}
	}

	DEBUG_PRINTF("reclaim [%zd]: read: %u -> %u, write: %u\n",
		     (rb->notifier.q_len_fn ?
		      rb->notifier.q_len_fn(rb->notifier.instance) : 0),
		     old_read_pt,
		     rb->shared_hdr->read_pt,
		     rb->shared_hdr->write_pt);

	return rc;
}

void
qb_rb_chunk_reclaim(struct qb_ringbuffer_s * rb)
{
	if (rb == NULL) {
		return;
	}
	/*
	 * The count of the notifier is the number of chunks a reader has not
	 * taken yet: whoever takes one out takes one off the count (a peek
	 * leaves both as they were).  A chunk whose count has not arrived
	 * yet is not there to be taken.
	 */
	if (rb->notifier.timedwait_fn &&
	    rb->notifier.timedwait_fn(rb->notifier.instance, 0) < 0) {
		return;
	}
	_rb_chunk_reclaim(rb);
}

ssize_t
qb_rb_chunk_peek(struct qb_ringbuffer_s * rb, void **data_out, int32_t timeout)
{
	uint32_t read_pt;
	uint32_t chunk_size;
	uint32_t chunk_magic;
	int32_t res = 0;

	if (rb == NULL) {
		return -EINVAL;
	}
	if (rb->notifier.timedwait_fn) {
		res = rb->notifier.timedwait_fn(rb->notifier.instance, timeout);
	}
	if (res < 0 && res != -EIDRM) {
		if (res == -ETIMEDOUT) {
			return 0;
		} else {
			errno = -res;
			qb_util_perror(LOG_ERR, "sem_timedwait");
		}
		return res;
	}
	read_pt = rb->shared_hdr->read_pt;
	chunk_magic = QB_RB_CHUNK_MAGIC_GET(rb, read_pt);
	if (chunk_magic != QB_RB_CHUNK_MAGIC) {
		if (rb->notifier.post_fn) {
			(void)rb->notifier.post_fn(rb->notifier.instance, res);
		}
#ifdef EBADMSG
		return -EBADMSG;
#else
		return -EINVAL;
#endif
	}
	chunk_size = QB_RB_CHUNK_SIZE_GET(rb, read_pt);
	*data_out = QB_RB_CHUNK_DATA_GET(rb, read_pt);
	/* looked at, not taken: it still counts (see qb_rb_chunk_reclaim()) */
	if (rb->notifier.post_fn) {
		(void)rb->notifier.post_fn(rb->notifier.instance, chunk_size);
	}
	return chunk_size;
}

ssize_t
qb_rb_chunk_read(struct qb_ringbuffer_s * rb, void *data_out, size_t len,
		 int32_t timeout)
{
	uint32_t read_pt;
	uint32_t chunk_size;
	uint32_t chunk_magic;
	int32_t res = 0;

	if (rb == NULL) {
		return -EINVAL;
	}
	if (rb->notifier.timedwait_fn) {
		res = rb->notifier.timedwait_fn(rb->notifier.instance, timeout);
	}
	if (res < 0 && res != -EIDRM) {
		if (res != -ETIMEDOUT) {
			errno = -res;
			qb_util_perror(LOG_ERR, "sem_timedwait");
		}
		return res;
	}

	read_pt = rb->shared_hdr->read_pt;
	chunk_magic = QB_RB_CHUNK_MAGIC_GET(rb, read_pt);

	if (chunk_magic != QB_RB_CHUNK_MAGIC) {
		if (rb->notifier.timedwait_fn == NULL) {
			return -ETIMEDOUT;
		} else {
			(void)rb->notifier.post_fn(rb->notifier.instance, res);
#ifdef EBADMSG
			return -EBADMSG;
#else
			return -EINVAL;
#endif
		}
	}

	chunk_size = QB_RB_CHUNK_SIZE_GET(rb, read_pt);
	if (len < chunk_size) {
		qb_util_log(LOG_ERR,
			    "trying to recv chunk of size %d but %d available",
			    len, chunk_size);
		if (rb->notifier.post_fn) {
			(void)rb->notifier.post_fn(rb->notifier.instance, chunk_size);
		}
		return -ENOBUFS;
	}

	memcpy(data_out,
	       QB_RB_CHUNK_DATA_GET(rb, read_pt),
	       chunk_size);

	_rb_chunk_reclaim(rb);

	return chunk_size;
}

static void
print_header(struct qb_ringbuffer_s * rb)
{
	printf("Ringbuffer: \n");
	if (rb->flags & QB_RB_FLAG_OVERWRITE) {
		printf(" ->OVERWRITE\n");
	} else {
		printf(" ->NORMAL\n");
	}
#ifndef S_SPLINT_S
	printf(" ->write_pt [%" PRIu32 "]\n", rb->shared_hdr->write_pt);
	printf(" ->read_pt [%" PRIu32 "]\n", rb->shared_hdr->read_pt);
	printf(" ->size [%" PRIu32 " words]\n", rb->shared_hdr->word_size);
	printf(" =>free [%zd bytes]\n", qb_rb_space_free(rb));
	printf(" =>used [%zd bytes]\n", qb_rb_space_used(rb));
#endif /* S_SPLINT_S */
}

/*
 * FILE HEADER ORDER
 * 1. word_size
 * 2. write_pt
 * 3. read_pt
 * 4. version
 * 5. header_hash
 *
 * 6. data
 */

ssize_t
qb_rb_write_to_file(struct qb_ringbuffer_s * rb, int32_t fd)
{
	ssize_t result;
	ssize_t written_size = 0;
	uint32_t hash = 0;
	uint32_t version = QB_RB_FILE_HEADER_VERSION;

	if (rb == NULL) {
		return -EINVAL;
	}
	print_header(rb);

	/*
 	 * 1. word_size
 	 */
	result = write(fd, &rb->shared_hdr->word_size, sizeof(uint32_t));
	if (result != sizeof(uint32_t)) {
		return -errno;
	}
	written_size += result;

	/*
	 * 2. 3. store the read & write pointers
	 */
	result = write(fd, (void *)&rb->shared_hdr->write_pt, sizeof(uint32_t));
	if (result != sizeof(uint32_t)) {
		return -errno;
	}
	written_size += result;
	result = write(fd, (void *)&rb->shared_hdr->read_pt, sizeof(uint32_t));
	if (result != sizeof(uint32_t)) {
		return -errno;
	}
	written_size += result;

	/*
	 * 4. version used
	 */
	result = write(fd, &version, sizeof(uint32_t));
	if (result != sizeof(uint32_t)) {
		return -errno;
	}
	written_size += result;

	/*
	 * 5. hash helps us verify header is not corrupted on file read
	 */
	hash = rb->shared_hdr->word_size + rb->shared_hdr->write_pt + rb->shared_hdr->read_pt + QB_RB_FILE_HEADER_VERSION;
	result = write(fd, &hash, sizeof(uint32_t));
	if (result != sizeof(uint32_t)) {
		return -errno;
	}
	written_size += result;

	result = write(fd, rb->shared_data,
		       rb->shared_hdr->word_size * sizeof(uint32_t));
	if (result != rb->shared_hdr->word_size * sizeof(uint32_t)) {
		return -errno;
	}
	written_size += result;

	qb_util_log(LOG_DEBUG, " writing total of: %zd\n", written_size);

	return written_size;
}

qb_ringbuffer_t *
qb_rb_create_from_file(int32_t fd, uint32_t flags)
{
	char rb_name[64];
	ssize_t n_read;
	size_t n_required;
	size_t total_read = 0;
	uint32_t read_pt;
	uint32_t write_pt;
	struct qb_ringbuffer_s *rb;
	uint32_t word_size = 0;
	uint32_t version = 0;
	uint32_t hash = 0;
	uint32_t calculated_hash = 0;
	struct stat st;

	if (fd < 0) {
		return NULL;
	}

	if (fstat(fd, &st)) {
		qb_util_perror(LOG_ERR, "Unable to stat blackbox file");
		return NULL;
	}

	/*
	 * 1. word size
	 */
	n_required = sizeof(uint32_t);
	n_read = read(fd, &word_size, n_required);
	if (n_read != n_required) {
		qb_util_perror(LOG_ERR, "Unable to read blackbox file header");
		return NULL;
	}
	total_read += n_read;

	if (word_size > (st.st_size / sizeof(uint32_t))) {
		qb_util_perror(LOG_ERR, "Invalid word size read from blackbox header");
		return NULL;
	}

	/*
	 * 2. 3. read & write pointers
	 */
	n_read = read(fd, &write_pt, sizeof(uint32_t));
	if (n_read != sizeof(uint32_t)) {
		qb_util_perror(LOG_ERR, "Unable to read blackbox file header");
		return NULL;
	}
	total_read += n_read;

	n_read = read(fd, &read_pt, sizeof(uint32_t));
	if (n_read != sizeof(uint32_t)) {
		qb_util_perror(LOG_ERR, "Unable to read blackbox file header");
		return NULL;
	}
	total_read += n_read;
	if (write_pt >= word_size || read_pt >= word_size) {
		qb_util_perror(LOG_ERR, "Invalid pointers read from blackbox header");
		return NULL;
	}

	/*
	 * 4. version
	 */
	n_required = sizeof(uint32_t);
	n_read = read(fd, &version, n_required);
	if (n_read != n_required) {
		qb_util_perror(LOG_ERR, "Unable to read blackbox file header");
		return NULL;
	}
	total_read += n_read;

	/*
	 * 5. Hash
	 */
	n_required = sizeof(uint32_t);
	n_read = read(fd, &hash, n_required);
	if (n_read != n_required) {
		qb_util_perror(LOG_ERR, "Unable to read blackbox file header");
		return NULL;
	}
	total_read += n_read;

	calculated_hash = word_size + write_pt + read_pt + version;
	if (hash != calculated_hash) {
		qb_util_log(LOG_ERR, "Corrupt blackbox: File header hash (%d) does not match calculated hash (%d)", hash, calculated_hash);
		return NULL;
	} else if (version != QB_RB_FILE_HEADER_VERSION) {
		qb_util_log(LOG_ERR, "Wrong file header version. Expected %d got %d",
			QB_RB_FILE_HEADER_VERSION, version);
		return NULL;
	}

	/*
	 * 6. data
	 */
	n_required = (word_size * sizeof(uint32_t));

	/*
	 * qb_rb_open adds QB_RB_CHUNK_MARGIN + 1 to the requested size.
	 */
	/* a name of our own: two processes that print dumps at the same time
	 * must not meet in (and lose half of) each other's files */
	(void)snprintf(rb_name, sizeof(rb_name), "create_from_file-%d",
		       (int)getpid());
	rb = qb_rb_open(rb_name, n_required - (QB_RB_CHUNK_MARGIN + 1),
			QB_RB_FLAG_CREATE | QB_RB_FLAG_NO_SEMAPHORE, 0);
	if (rb == NULL) {
		return NULL;
	}
	rb->shared_hdr->read_pt = read_pt;
	rb->shared_hdr->write_pt = write_pt;

	n_read = read(fd, rb->shared_data, n_required);
	if (n_read < 0) {
		qb_util_perror(LOG_ERR, "Unable to read blackbox file data");
		goto cleanup_fail;
	}
	total_read += n_read;

	if (n_read != n_required) {
		qb_util_log(LOG_WARNING, "read %zd bytes, but expected %zu",
			    n_read, n_required);
		goto cleanup_fail;
	}

	qb_util_log(LOG_DEBUG, "read total of: %zd", total_read);
	print_header(rb);

	return rb;

cleanup_fail:
	qb_rb_close(rb);
	return NULL;
}

int32_t
qb_rb_chown(struct qb_ringbuffer_s * rb, uid_t owner, gid_t group)
{
	int32_t res;

	if (rb == NULL) {
		return -EINVAL;
	}
	res = chown(rb->shared_hdr->data_path, owner, group);
	if (res < 0 && errno != EPERM) {
		return -errno;
	}
	res = chown(rb->shared_hdr->hdr_path, owner, group);
	if (res < 0 && errno != EPERM) {
		return -errno;
	}
	return 0;
}

int32_t
qb_rb_chmod(qb_ringbuffer_t * rb, mode_t mode)
{
	int32_t res;

	if (rb == NULL) {
		return -EINVAL;
	}
	res = chmod(rb->shared_hdr->data_path, mode);
	if (res < 0) {
		return -errno;
	}
	res = chmod(rb->shared_hdr->hdr_path, mode);
	if (res < 0) {
		return -errno;
	}
	return 0;
}
