#!/bin/sh
# usage: build.sh [tree]   (default /repo)
T=${1:-/repo}
D=$(dirname "$0")
SRCS="ipcs.c ipcc.c ipc_setup.c ipc_shm.c ipc_socket.c ringbuffer.c ringbuffer_helper.c unix.c loop.c loop_job.c loop_poll.c loop_poll_epoll.c loop_timerlist.c array.c"
L=""
for f in $SRCS; do L="$L $T/lib/$f"; done
gcc -g -O1 -fsanitize=address,undefined -fno-sanitize=alignment -fno-omit-frame-pointer -DHAVE_CONFIG_H \
    -I$T/include -I$T/include/qb -I$T/lib -include stdarg.h \
    -o "$D/fuzz" "$D/fuzz.c" $L -L$T/lib/.libs -lqb -lpthread -ldl 2>&1 | grep -v "warning:" | grep -E "error|undefined"
test -x "$D/fuzz"
