/*
 * C03 finding 1: socket transport, a client that dies before it ever got a
 * response or an event.  Every later qb_ipcs_response_send()/event_send() to
 * that connection blocks the whole server for 1 s (10 x usleep(100000) in
 * _finish_connecting(), lib/ipc_socket.c), the queued requests of the dead
 * client are worked through first, other clients are not served meanwhile.
 *
 * exit 0: the witness client was served promptly (< 1500 ms) after the death
 * exit 1: the witness had to wait (property violated)
 */
#define _GNU_SOURCE
#include <stdio.h>
#include <stdlib.h>
#include <string.h>
#include <unistd.h>
#include <signal.h>
#include <time.h>
#include <errno.h>
#include <sys/wait.h>
#include <sys/uio.h>
#include <qb/qbdefs.h>
#include <qb/qbloop.h>
#include <qb/qbipcs.h>
#include <qb/qbipcc.h>

#define NAME_FMT "h3c03f1-%d"
static char name[64];
static qb_loop_t *loop;
enum { REQ_ECHO = QB_IPC_MSG_USER_START + 1, REQ_SLOW };
struct req { struct qb_ipc_request_header hdr; int32_t arg; int32_t pad; };

static long long now_ms(void)
{ struct timespec ts; clock_gettime(CLOCK_MONOTONIC, &ts); return ts.tv_sec * 1000LL + ts.tv_nsec / 1000000; }

static int32_t s_accept(qb_ipcs_connection_t *c, uid_t u, gid_t g) { return 0; }
static void s_created(qb_ipcs_connection_t *c) { }
static int32_t s_closed(qb_ipcs_connection_t *c) { return 0; }
static void s_destroyed(qb_ipcs_connection_t *c) { fprintf(stderr, "[server %lld] connection destroyed\n", now_ms()); }
static int32_t s_msg(qb_ipcs_connection_t *c, void *data, size_t size)
{
	struct req *r = data;
	struct qb_ipc_response_header resp;
	if (r->hdr.id == REQ_SLOW) { usleep(r->arg * 1000); return 0; }
	resp.id = r->hdr.id; resp.size = sizeof resp; resp.error = 0;
	{
		long long t0 = now_ms();
		ssize_t rc = qb_ipcs_response_send(c, &resp, sizeof resp);
		if (now_ms() - t0 > 100)
			fprintf(stderr, "[server] qb_ipcs_response_send -> %zd after %lld ms\n", rc, now_ms() - t0);
	}
	return 0;
}
static int32_t jadd(enum qb_loop_priority p, void *d, qb_loop_job_dispatch_fn f) { return qb_loop_job_add(loop, p, d, f); }
static int32_t dadd(enum qb_loop_priority p, int32_t fd, int32_t ev, void *d, qb_ipcs_dispatch_fn_t f) { return qb_loop_poll_add(loop, p, fd, ev, d, f); }
static int32_t dmod(enum qb_loop_priority p, int32_t fd, int32_t ev, void *d, qb_ipcs_dispatch_fn_t f) { return qb_loop_poll_mod(loop, p, fd, ev, d, f); }
static int32_t ddel(int32_t fd) { return qb_loop_poll_del(loop, fd); }

static void server(int ready_fd)
{
	struct qb_ipcs_service_handlers h = { s_accept, s_created, s_msg, s_closed, s_destroyed };
	struct qb_ipcs_poll_handlers ph = { jadd, dadd, dmod, ddel };
	qb_ipcs_service_t *s;
	loop = qb_loop_create();
	s = qb_ipcs_create(name, 0, QB_IPC_SOCKET, &h);
	qb_ipcs_poll_handlers_set(s, &ph);
	if (qb_ipcs_run(s) != 0) _exit(9);
	if (write(ready_fd, "R", 1) != 1) _exit(9);
	qb_loop_run(loop);
	_exit(0);
}

static ssize_t roundtrip(qb_ipcc_connection_t *c, int32_t to)
{
	struct req r; struct iovec iov = { &r, sizeof r }; char buf[256];
	memset(&r, 0, sizeof r);
	r.hdr.id = REQ_ECHO; r.hdr.size = sizeof r;
	return qb_ipcc_sendv_recv(c, &iov, 1, buf, sizeof buf, to);
}

int main(void)
{
	int p[2], i; char ch; pid_t sp, cp; qb_ipcc_connection_t *w; long long t0, dt; ssize_t rc;
	signal(SIGPIPE, SIG_IGN);
	snprintf(name, sizeof name, NAME_FMT, getpid());
	if (pipe(p)) return 2;
	sp = fork();
	if (sp == 0) { close(p[0]); server(p[1]); }
	close(p[1]);
	if (read(p[0], &ch, 1) != 1) return 2;
	w = qb_ipcc_connect(name, 8192);
	if (!w) { perror("witness connect"); kill(sp, SIGKILL); return 2; }
	rc = roundtrip(w, 2000);
	printf("witness round trip before: %zd\n", rc);

	cp = fork();
	if (cp == 0) {
		struct req r;
		qb_ipcc_connection_t *c = qb_ipcc_connect(name, 8192);
		if (!c) _exit(3);
		memset(&r, 0, sizeof r);
		r.hdr.id = REQ_SLOW; r.hdr.size = sizeof r; r.arg = 300;
		qb_ipcc_send(c, &r, sizeof r);		/* keeps the server busy while we die */
		r.hdr.id = REQ_ECHO;
		for (i = 0; i < 4; i++) qb_ipcc_send(c, &r, sizeof r);	/* 4 requests that want a response */
		kill(getpid(), SIGKILL);		/* mid-request, requests still queued */
	}
	waitpid(cp, NULL, 0);
	t0 = now_ms();
	rc = roundtrip(w, 30000);
	dt = now_ms() - t0;
	printf("client dead; witness round trip -> %zd after %lld ms\n", rc, dt);
	qb_ipcc_disconnect(w);
	kill(sp, SIGKILL);
	waitpid(sp, NULL, 0);
	{ char cmd[128]; snprintf(cmd, sizeof cmd, "rm -rf /dev/shm/qb-%d-*", sp); if (system(cmd)) {} }
	if (rc <= 0 || dt > 1500) { printf("VIOLATED: the server did not serve its other client for %lld ms\n", dt); return 1; }
	printf("held\n");
	return 0;
}
