/*
 * C03 finding 2: shared memory transport, the server is SIGKILLed and stays a
 * zombie (its parent has not called wait() yet).  qb_ipcc_disconnect() asks
 * kill(server_pid, 0) whether the server is gone; a zombie still answers, so
 * after 4 x 10 ms the client closes its rings the ordinary way and all six
 * files of the dead server stay in /dev/shm.
 *
 * The same sequence with a parent that reaps at once is run first as control.
 * exit 0: no file of the dead server is left after qb_ipcc_disconnect()
 * exit 1: files are left (property violated)
 */
#define _GNU_SOURCE
#include <stdio.h>
#include <stdlib.h>
#include <string.h>
#include <unistd.h>
#include <signal.h>
#include <dirent.h>
#include <errno.h>
#include <sys/wait.h>
#include <sys/uio.h>
#include <qb/qbdefs.h>
#include <qb/qbloop.h>
#include <qb/qbipcs.h>
#include <qb/qbipcc.h>

static char name[64];
static qb_loop_t *loop;
struct req { struct qb_ipc_request_header hdr; };

static int32_t s_accept(qb_ipcs_connection_t *c, uid_t u, gid_t g) { return 0; }
static void s_created(qb_ipcs_connection_t *c) { }
static int32_t s_closed(qb_ipcs_connection_t *c) { return 0; }
static void s_destroyed(qb_ipcs_connection_t *c) { }
static int32_t s_msg(qb_ipcs_connection_t *c, void *data, size_t size)
{
	struct qb_ipc_response_header resp = { 0, sizeof resp, 0 };
	qb_ipcs_response_send(c, &resp, sizeof resp);
	return 0;
}
static int32_t jadd(enum qb_loop_priority p, void *d, qb_loop_job_dispatch_fn f) { return qb_loop_job_add(loop, p, d, f); }
static int32_t dadd(enum qb_loop_priority p, int32_t fd, int32_t ev, void *d, qb_ipcs_dispatch_fn_t f) { return qb_loop_poll_add(loop, p, fd, ev, d, f); }
static int32_t dmod(enum qb_loop_priority p, int32_t fd, int32_t ev, void *d, qb_ipcs_dispatch_fn_t f) { return qb_loop_poll_mod(loop, p, fd, ev, d, f); }
static int32_t ddel(int32_t fd) { return qb_loop_poll_del(loop, fd); }

static void server(int ready_fd)
{
	struct qb_ipcs_service_handlers h = { s_accept, s_created, s_msg, s_closed, s_destroyed };
	struct qb_ipcs_poll_handlers ph = { jadd, dadd, dmod, ddel };
	qb_ipcs_service_t *s;
	loop = qb_loop_create();
	s = qb_ipcs_create(name, 0, QB_IPC_SHM, &h);
	qb_ipcs_poll_handlers_set(s, &ph);
	if (qb_ipcs_run(s) != 0) _exit(9);
	if (write(ready_fd, "R", 1) != 1) _exit(9);
	qb_loop_run(loop);
	_exit(0);
}

static int files_left(pid_t sp, char *where, size_t wl)
{
	char pfx[64], p[512];
	DIR *d = opendir("/dev/shm"), *d2;
	struct dirent *e, *e2;
	int n = 0;
	snprintf(pfx, sizeof pfx, "qb-%d-%d-", sp, getpid());
	while (d && (e = readdir(d))) {
		if (strncmp(e->d_name, pfx, strlen(pfx))) continue;
		snprintf(p, sizeof p, "/dev/shm/%s", e->d_name);
		snprintf(where, wl, "%s", p);
		d2 = opendir(p);
		while (d2 && (e2 = readdir(d2))) if (e2->d_name[0] != '.') { n++; printf("    left: %s/%s\n", p, e2->d_name); }
		if (d2) closedir(d2);
	}
	if (d) closedir(d);
	return n;
}

static int once(int reap_first)
{
	int p[2], left; char ch, where[512] = "", cmd[600]; pid_t sp; qb_ipcc_connection_t *c;
	struct req r; struct iovec iov = { &r, sizeof r }; char buf[256]; ssize_t rc;
	static int inst;
	snprintf(name, sizeof name, "h3c03f2-%d-%d", getpid(), inst++);
	if (pipe(p)) return -1;
	sp = fork();
	if (sp == 0) { close(p[0]); server(p[1]); }
	close(p[1]);
	if (read(p[0], &ch, 1) != 1) return -1;
	close(p[0]);
	c = qb_ipcc_connect(name, 8192);
	if (!c) { perror("connect"); kill(sp, SIGKILL); waitpid(sp, NULL, 0); return -1; }
	memset(&r, 0, sizeof r); r.hdr.id = QB_IPC_MSG_USER_START + 1; r.hdr.size = sizeof r;
	rc = qb_ipcc_sendv_recv(c, &iov, 1, buf, sizeof buf, 1000);
	printf("  server alive: sendv_recv -> %zd\n", rc);
	kill(sp, SIGKILL);
	if (reap_first) waitpid(sp, NULL, 0);
	else usleep(50000);			/* dead, not reaped: a zombie */
	rc = qb_ipcc_sendv_recv(c, &iov, 1, buf, sizeof buf, -1);
	printf("  server killed%s: sendv_recv(-1) -> %zd (%s)\n", reap_first ? " and reaped" : ", still a zombie", rc, rc < 0 ? strerror(-rc) : "ok");
	qb_ipcc_disconnect(c);
	left = files_left(sp, where, sizeof where);
	printf("  after qb_ipcc_disconnect(): %d files of the dead server left\n", left);
	if (!reap_first) waitpid(sp, NULL, 0);
	if (where[0]) { snprintf(cmd, sizeof cmd, "rm -rf %s", where); if (system(cmd)) {} }
	return left;
}

int main(void)
{
	int a, b;
	signal(SIGPIPE, SIG_IGN);
	printf("control: parent reaps the server at once\n");
	a = once(1);
	printf("test: the dead server is not reaped before the client disconnects\n");
	b = once(0);
	if (a < 0 || b < 0) return 2;
	if (a != 0) printf("VIOLATED even in the control run\n");
	if (b != 0) printf("VIOLATED: %d shared memory files of the dead server remain\n", b);
	return (a || b) ? 1 : 0;
}
