/*
 * C03 tester: death of the IPC peer at any point is detected and cleaned up.
 *
 * mode A (client dies): a long running server process, a witness client in
 *   the orchestrator, and a traced (ptrace) client child that is SIGKILLed at
 *   its N-th system call boundary while it runs a random script.  After each
 *   death the model is checked: destroyed exactly once per accepted
 *   connection, closed before destroyed iff created was reported, witness is
 *   still served, server descriptors and /dev/shm entries back to baseline.
 *   Also: every prefix of the handshake bytes followed by close.
 *
 * mode B (server dies): a traced server that is SIGKILLed at its N-th system
 *   call boundary (counted from the moment the service is published) while a
 *   free running client does random calls and checks deadlines, the kind of
 *   error, "later calls fail at once" and the files left after disconnect.
 *
 * usage: fuzz A|B shm|sock seed iterations [verbose]
 */
#define _GNU_SOURCE
#include <stdio.h>
#include <stdlib.h>
#include <string.h>
#include <stdint.h>
#include <unistd.h>
#include <errno.h>
#include <signal.h>
#include <fcntl.h>
#include <dirent.h>
#include <poll.h>
#include <time.h>
#include <stddef.h>
#include <sys/types.h>
#include <sys/wait.h>
#include <sys/time.h>
#include <sys/mman.h>
#include <sys/ptrace.h>
#include <sys/socket.h>
#include <sys/un.h>
#include <sys/uio.h>
#include <qb/qbdefs.h>
#include <qb/qbloop.h>
#include <qb/qbipcs.h>
#include <qb/qbipcc.h>
#include <qb/qbipc_common.h>
#include <qb/qblog.h>
#include <sys/user.h>

static char svc_name[64];
static enum qb_ipc_type ipc_type;
static int verbose;
static int violations;
static int stalls;

static int64_t now_ms(void)
{
	struct timespec ts;
	clock_gettime(CLOCK_MONOTONIC, &ts);
	return ts.tv_sec * 1000LL + ts.tv_nsec / 1000000;
}

static uint64_t rs;
static uint32_t rnd(void)
{
	rs ^= rs << 13; rs ^= rs >> 7; rs ^= rs << 17;
	return (uint32_t)(rs >> 11);
}

struct shared {
	volatile int64_t kill_sent_ms;
	volatile int64_t dead_ms;
	volatile int client_ready;
	volatile int client_done;
	volatile int64_t op_start_ms;
};
static struct shared *sh;

enum { REQ_ECHO = QB_IPC_MSG_USER_START + 1, REQ_EVENTS, REQ_NORESP, REQ_SLOW };
struct req {
	struct qb_ipc_request_header hdr;
	int32_t arg;
	int32_t arg2;
};

/* ------------------------------------------------------------------ server */
static qb_loop_t *loop;
static qb_ipcs_service_t *svc;
static int report_fd = -1;
static int next_id = 1;
struct cctx { int id; int created; int closed_calls; int held; };
static int opt_retry, opt_bcast, opt_hold, opt_disc;
struct rec { char kind; int id; int pid; };

static void report(char kind, int id, int pid)
{
	struct rec r;
	memset(&r, 0, sizeof r);
	r.kind = kind; r.id = id; r.pid = pid;
	if (report_fd >= 0 && write(report_fd, &r, sizeof r) != sizeof r) { }
}

static int32_t s_accept(qb_ipcs_connection_t *c, uid_t u, gid_t g)
{
	struct cctx *x = calloc(1, sizeof *x);
	struct qb_ipcs_connection_stats st;
	x->id = next_id++;
	qb_ipcs_context_set(c, x);
	qb_ipcs_connection_stats_get(c, &st, 0);
	report('A', x->id, st.client_pid);
	return 0;
}
static void s_created(qb_ipcs_connection_t *c)
{
	struct cctx *x = qb_ipcs_context_get(c);
	if (x) { x->created = 1; report('C', x->id, 0); }
	if (x && opt_hold) { qb_ipcs_connection_ref(c); x->held = 1; }
}
static int32_t s_closed(qb_ipcs_connection_t *c)
{
	struct cctx *x = qb_ipcs_context_get(c);
	if (x && x->closed_calls++ == 0 && opt_retry) { report('x', x->id, 0); return 1; }
	report('X', x ? x->id : 0, 0);
	if (opt_disc) {
		/* take another (possibly dying) connection down from inside the callback */
		qb_ipcs_connection_t *o = qb_ipcs_connection_first_get(svc), *nx;
		while (o) {
			struct cctx *ox = qb_ipcs_context_get(o);
			nx = qb_ipcs_connection_next_get(svc, o);
			if (o != c && ox && ox->id != 1) qb_ipcs_disconnect(o);
			qb_ipcs_connection_unref(o);
			o = nx;
		}
	}
	if (x && x->held) { x->held = 0; qb_ipcs_connection_unref(c); }
	return 0;
}
static void s_destroyed(qb_ipcs_connection_t *c)
{
	struct cctx *x = qb_ipcs_context_get(c);
	report('D', x ? x->id : 0, 0);
	free(x);
	qb_ipcs_context_set(c, NULL);
}
static char sbuf[1 << 20];
static int32_t s_msg(qb_ipcs_connection_t *c, void *data, size_t size)
{
	struct req *r = data;
	struct qb_ipc_response_header *resp = (void *)sbuf;
	int32_t max = qb_ipcs_connection_get_buffer_size(c);
	int32_t sz, i;

	if (size < sizeof(struct qb_ipc_request_header)) return 0;
	if (size < sizeof(*r)) { r = NULL; }
	switch (r ? r->hdr.id : 0) {
	case REQ_EVENTS:
		for (i = 0; i < r->arg; i++) {
			sz = r->arg2;
			if (sz < (int)sizeof(*resp)) sz = sizeof(*resp);
			if (sz > max) sz = max;
			if (sz > (int)sizeof sbuf) sz = sizeof sbuf;
			resp->id = REQ_EVENTS; resp->size = sz; resp->error = i;
			{
				ssize_t er = qb_ipcs_event_send(c, sbuf, sz);
				if (er < 0 && er != -EAGAIN && er != -ENOBUFS) break;	/* a sane application gives up */
			}
		}
		resp->id = REQ_EVENTS; resp->size = sizeof(*resp); resp->error = 0;
		(void)qb_ipcs_response_send(c, resp, sizeof(*resp));
		break;
	case REQ_ECHO:
		if (opt_bcast) {
			qb_ipcs_connection_t *o = qb_ipcs_connection_first_get(svc), *nx;
			while (o) {
				struct qb_ipc_response_header ev = { REQ_EVENTS, sizeof ev, 77 };
				(void)qb_ipcs_event_send(o, &ev, sizeof ev);
				nx = qb_ipcs_connection_next_get(svc, o);
				qb_ipcs_connection_unref(o);
				o = nx;
			}
		}
		sz = r->arg;
		if (sz < (int)sizeof(*resp)) sz = sizeof(*resp);
		if (sz > max) sz = max;
		if (sz > (int)sizeof sbuf) sz = sizeof sbuf;
		resp->id = REQ_ECHO; resp->size = sz; resp->error = 0;
		(void)qb_ipcs_response_send(c, sbuf, sz);
		break;
	case REQ_SLOW:
		usleep(r->arg * 1000);
		break;
	case REQ_NORESP:
		if (opt_disc && (size % 3) == 0) {
			struct cctx *x = qb_ipcs_context_get(c);
			if (x && x->id != 1) qb_ipcs_disconnect(c);
		}
		break;
	default:
		break;
	}
	return 0;
}
static int32_t my_job_add(enum qb_loop_priority p, void *d, qb_loop_job_dispatch_fn f)
{ return qb_loop_job_add(loop, p, d, f); }
static int32_t my_dadd(enum qb_loop_priority p, int32_t fd, int32_t ev, void *d, qb_ipcs_dispatch_fn_t f)
{ return qb_loop_poll_add(loop, p, fd, ev, d, f); }
static int32_t my_dmod(enum qb_loop_priority p, int32_t fd, int32_t ev, void *d, qb_ipcs_dispatch_fn_t f)
{ return qb_loop_poll_mod(loop, p, fd, ev, d, f); }
static int32_t my_ddel(int32_t fd)
{ return qb_loop_poll_del(loop, fd); }

static void run_server(int rfd, int traced)
{
	struct qb_ipcs_service_handlers h = {
		.connection_accept = s_accept, .connection_created = s_created,
		.msg_process = s_msg, .connection_closed = s_closed,
		.connection_destroyed = s_destroyed };
	struct qb_ipcs_poll_handlers ph = {
		.job_add = my_job_add, .dispatch_add = my_dadd,
		.dispatch_mod = my_dmod, .dispatch_del = my_ddel };
	report_fd = rfd;
	opt_retry = getenv("H3_CLOSED_RETRY") != NULL;
	opt_bcast = getenv("H3_BCAST") != NULL;
	opt_hold = getenv("H3_HOLDREF") != NULL;
	opt_disc = getenv("H3_DISC") != NULL;
	if (traced) ptrace(PTRACE_TRACEME, 0, 0, 0);
	loop = qb_loop_create();
	svc = qb_ipcs_create(svc_name, 0, ipc_type, &h);
	qb_ipcs_poll_handlers_set(svc, &ph);
	if (qb_ipcs_run(svc) != 0) { fprintf(stderr, "ipcs_run failed\n"); _exit(9); }
	if (traced) raise(SIGSTOP);
	else report('R', 0, 0);
	qb_loop_run(loop);
	_exit(0);
}

/* ------------------------------------------------------ client helpers */
static char cbuf[1 << 20];
static char rbuf[1 << 20];

static ssize_t c_echo_sendv_recv(qb_ipcc_connection_t *c, int32_t reqsz, int32_t respsz, int32_t to)
{
	struct req *r = (void *)cbuf;
	struct iovec iov[2];
	int32_t max = qb_ipcc_get_buffer_size(c);
	if (reqsz < (int)sizeof(*r)) reqsz = sizeof(*r);
	if (reqsz > max) reqsz = max;
	if (reqsz < (int)sizeof(*r)) return -EMSGSIZE;
	r->hdr.id = REQ_ECHO; r->hdr.size = reqsz; r->arg = respsz; r->arg2 = 0;
	iov[0].iov_base = cbuf; iov[0].iov_len = sizeof(*r);
	iov[1].iov_base = cbuf + sizeof(*r); iov[1].iov_len = reqsz - sizeof(*r);
	return qb_ipcc_sendv_recv(c, iov, 2, rbuf, sizeof rbuf, to);
}
static ssize_t c_send(qb_ipcc_connection_t *c, int id, int32_t reqsz, int32_t arg, int32_t arg2)
{
	struct req *r = (void *)cbuf;
	int32_t max = qb_ipcc_get_buffer_size(c);
	if (reqsz < (int)sizeof(*r)) reqsz = sizeof(*r);
	if (reqsz > max) reqsz = max;
	r->hdr.id = id; r->hdr.size = reqsz; r->arg = arg; r->arg2 = arg2;
	return qb_ipcc_send(c, r, reqsz);
}

static const size_t mms_tab[] = { 0, 1, 100, 1024, 4096, 8192, 8193, 65536, 200000 };

/* the script of the client that is going to be killed (mode A) */
static void client_script(uint64_t seed)
{
	qb_ipcc_connection_t *c;
	int nops, i, k, n;
	rs = seed * 2654435761u + 12345;
	rnd(); rnd();
	c = qb_ipcc_connect(svc_name, mms_tab[rnd() % (sizeof mms_tab / sizeof mms_tab[0])]);
	if (c == NULL) _exit(3);
	nops = rnd() % 6;
	for (i = 0; i < nops; i++) {
		switch (rnd() % (getenv("H3_BURST") ? 7 : 6)) {
		case 6:
			n = 200 + rnd() % 3000;
			c_send(c, REQ_EVENTS, 0, n, 0);
			qb_ipcc_recv(c, rbuf, sizeof rbuf, 500);
			k = rnd() % 50;
			while (k-- > 0) qb_ipcc_event_recv(c, rbuf, sizeof rbuf, 0);
			break;
		case 0:
			c_send(c, REQ_ECHO, rnd() % 9000, rnd() % 9000, 0);
			qb_ipcc_recv(c, rbuf, sizeof rbuf, 500);
			break;
		case 1:
			c_echo_sendv_recv(c, rnd() % 9000, rnd() % 9000, 500);
			break;
		case 2:
			n = rnd() % 8;
			c_send(c, REQ_EVENTS, 0, n, rnd() % 3000);
			qb_ipcc_recv(c, rbuf, sizeof rbuf, 500);
			k = rnd() % (n + 1);
			while (k-- > 0) qb_ipcc_event_recv(c, rbuf, sizeof rbuf, 200);
			break;
		case 3:
			n = rnd() % 5 + 1;
			while (n-- > 0) c_send(c, REQ_SLOW, rnd() % 2000, 3, 0);
			break;
		case 4:
			n = rnd() % 20 + 1;
			while (n-- > 0) c_send(c, REQ_NORESP, rnd() % 9000, 0, 0);
			break;
		default:
			qb_ipcc_event_recv(c, rbuf, sizeof rbuf, 0);
			break;
		}
	}
	if (rnd() % 4) qb_ipcc_disconnect(c);
	_exit(0);
}

/* ----------------------------------------------------------- orchestrator */
#define MAXC 200000
static struct cst { int pid; short A, C, X, D; short bad_order; } *tab;
static int max_id;
static int rpipe[2];

static void vio(const char *fmt, ...)
{
	va_list ap;
	va_start(ap, fmt);
	fprintf(stdout, "VIOLATION: ");
	vfprintf(stdout, fmt, ap);
	fprintf(stdout, "\n");
	va_end(ap);
	fflush(stdout);
	violations++;
}

static void drain_reports(int timeout_ms)
{
	struct pollfd p = { .fd = rpipe[0], .events = POLLIN };
	struct rec r;
	while (poll(&p, 1, timeout_ms) > 0) {
		if (read(rpipe[0], &r, sizeof r) != sizeof r) return;
		if (r.id <= 0 || r.id >= MAXC) {
			if (r.kind != 'R') vio("callback %c without a context", r.kind);
			continue;
		}
		if (r.id > max_id) max_id = r.id;
		switch (r.kind) {
		case 'A': tab[r.id].A++; tab[r.id].pid = r.pid; break;
		case 'C': tab[r.id].C++; if (tab[r.id].D || tab[r.id].X) tab[r.id].bad_order = 1; break;
		case 'X': tab[r.id].X++; if (tab[r.id].D || !tab[r.id].C) tab[r.id].bad_order = 1; break;
		case 'D': tab[r.id].D++; if (tab[r.id].C && !tab[r.id].X) tab[r.id].bad_order = 1; break;
		}
		timeout_ms = 0;
	}
}

static int all_destroyed_for(int pid)
{
	int i;
	for (i = 1; i <= max_id; i++)
		if (tab[i].pid == pid && tab[i].D == 0) return 0;
	return 1;
}

static int count_fds(pid_t pid)
{
	char path[64];
	DIR *d;
	struct dirent *e;
	int n = 0;
	snprintf(path, sizeof path, "/proc/%d/fd", pid);
	d = opendir(path);
	if (!d) return -1;
	while ((e = readdir(d))) if (e->d_name[0] != '.') n++;
	closedir(d);
	return n;
}

/* entries of /dev/shm that start with prefix; files inside directories too */
#include <sys/stat.h>
/* entries older than this are leftovers of somebody else whose pids wrapped round to ours */
static time_t shm_min_ctime;
static int count_shm(const char *prefix, int *files_inside, char *first, size_t fl)
{
	DIR *d = opendir("/dev/shm");
	struct dirent *e;
	int n = 0;
	if (files_inside) *files_inside = 0;
	if (!d) return -1;
	while ((e = readdir(d))) {
		if (strncmp(e->d_name, prefix, strlen(prefix)) != 0) continue;
		if (shm_min_ctime) {
			struct stat st;
			char p0[512];
			snprintf(p0, sizeof p0, "/dev/shm/%s", e->d_name);
			if (stat(p0, &st) == 0 && st.st_ctime < shm_min_ctime) {
				struct dirent *e3; DIR *d3 = opendir(p0); int has = 0;
				/* only skip it when nothing in it is recent either */
				while (d3 && (e3 = readdir(d3))) {
					char p1[800]; struct stat s1;
					if (e3->d_name[0] == '.') continue;
					snprintf(p1, sizeof p1, "%s/%s", p0, e3->d_name);
					if (stat(p1, &s1) == 0 && s1.st_ctime >= shm_min_ctime) has = 1;
				}
				if (d3) closedir(d3);
				if (!has) { printf("  (ignoring stale %s)\n", p0); continue; }
			}
		}
		n++;
		if (first && n == 1) snprintf(first, fl, "%s", e->d_name);
		if (files_inside) {
			char p[512];
			DIR *d2;
			struct dirent *e2;
			snprintf(p, sizeof p, "/dev/shm/%s", e->d_name);
			d2 = opendir(p);
			if (d2) {
				while ((e2 = readdir(d2))) if (e2->d_name[0] != '.') (*files_inside)++;
				closedir(d2);
			}
		}
	}
	closedir(d);
	return n;
}

static pid_t spid;
static qb_ipcc_connection_t *witness;
static int base_fds, base_shm;

static void check_after_death(const char *what, int cpid)
{
	int i, fds = 0, shm = 0;
	int64_t t0 = now_ms();
	ssize_t r;
	char first[256] = "";

	if (cpid > 0) {
		while (!all_destroyed_for(cpid) && now_ms() - t0 < 40000) drain_reports(50);
		if (!all_destroyed_for(cpid))
			vio("%s: client %d dead for 40s, connection not destroyed", what, cpid);
		else if (now_ms() - t0 > 1500) {
			printf("STALL: %s: connection of dead client %d destroyed only after %lld ms\n", what, cpid, (long long)(now_ms() - t0));
			stalls++;
		}
	}
	t0 = now_ms();
	r = c_echo_sendv_recv(witness, 64, 64, 30000);
	while (qb_ipcc_event_recv(witness, rbuf, sizeof rbuf, 0) > 0) { }
	if (r > 0 && now_ms() - t0 > 1500) { printf("STALL: %s: witness served after %lld ms\n", what, (long long)(now_ms() - t0)); stalls++; }
	if (r <= 0) vio("%s: witness not served (%zd) after %lld ms", what, r, (long long)(now_ms() - t0));
	for (i = 0; i < 100; i++) {
		fds = count_fds(spid);
		shm = count_shm(svc_name + 0 == NULL ? "" : "", NULL, NULL, 0), shm = 0;
		{
			char pfx[64];
			snprintf(pfx, sizeof pfx, "qb-%d-", spid);
			shm = count_shm(pfx, NULL, first, sizeof first);
		}
		if (fds == base_fds && shm == base_shm) break;
		usleep(10000);
		(void)c_echo_sendv_recv(witness, 64, 64, 3000);
		while (qb_ipcc_event_recv(witness, rbuf, sizeof rbuf, 0) > 0) { }
	}
	drain_reports(0);
	if (fds != base_fds) vio("%s: server has %d descriptors, baseline %d", what, fds, base_fds);
	if (shm != base_shm) vio("%s: %d /dev/shm entries of the server, baseline %d (e.g. %s)", what, shm, base_shm, first);
	for (i = 1; i <= max_id; i++) {
		if (tab[i].D > 1) { vio("%s: conn %d destroyed %d times", what, i, tab[i].D); tab[i].D = 1; }
		if (tab[i].X > 1) { vio("%s: conn %d closed %d times", what, i, tab[i].X); tab[i].X = 1; }
		if (tab[i].bad_order) { vio("%s: conn %d callbacks out of order A%d C%d X%d D%d", what, i, tab[i].A, tab[i].C, tab[i].X, tab[i].D); tab[i].bad_order = 0; }
		if (tab[i].D && tab[i].C && !tab[i].X) { vio("%s: conn %d created, destroyed but never closed", what, i); tab[i].X = 1; }
	}
}

/* run a traced client, kill at the n-th syscall stop (n<0: never). returns
 * number of stops seen */
static int run_killed_client(uint64_t seed, int n, pid_t *pid_out)
{
	int status, stops = 0;
	pid_t p = fork();
	if (p == 0) {
		close(rpipe[0]);
		ptrace(PTRACE_TRACEME, 0, 0, 0);
		raise(SIGSTOP);
		client_script(seed);
		_exit(0);
	}
	*pid_out = p;
	waitpid(p, &status, 0);
	if (!WIFSTOPPED(status)) return -1;
	ptrace(PTRACE_SETOPTIONS, p, 0, PTRACE_O_TRACESYSGOOD | PTRACE_O_EXITKILL);
	for (;;) {
		int sig = 0;
		if (n >= 0 && stops >= n) {
			kill(p, SIGKILL);
			waitpid(p, &status, 0);
			break;
		}
		ptrace(PTRACE_SYSCALL, p, 0, sig);
		if (waitpid(p, &status, 0) < 0) break;
		if (WIFEXITED(status) || WIFSIGNALED(status)) break;
		if (WIFSTOPPED(status) && WSTOPSIG(status) == (SIGTRAP | 0x80)) {
			stops++;
			if (verbose > 1) {
				struct user_regs_struct regs;
				ptrace(PTRACE_GETREGS, p, 0, &regs);
				printf("   stop %d: syscall %lld rax %lld args %lld %lld %lld\n", stops, (long long)regs.orig_rax, (long long)regs.rax, (long long)regs.rdi, (long long)regs.rsi, (long long)regs.rdx);
			}
		}
		else if (WIFSTOPPED(status)) {
			/* a real signal: pass it on */
			sig = WSTOPSIG(status);
			ptrace(PTRACE_SYSCALL, p, 0, sig);
			if (waitpid(p, &status, 0) < 0) break;
			if (WIFEXITED(status) || WIFSIGNALED(status)) break;
			if (WIFSTOPPED(status) && WSTOPSIG(status) == (SIGTRAP | 0x80)) stops++;
		}
	}
	return stops;
}

/* k traced clients at once, each killed at its own stop */
static void run_killed_clients(int k, uint64_t *seeds, int *ns, pid_t *pids)
{
	int status, i, alive = 0, stops[8] = { 0 };
	for (i = 0; i < k; i++) {
		pids[i] = fork();
		if (pids[i] == 0) {
			close(rpipe[0]);
			ptrace(PTRACE_TRACEME, 0, 0, 0);
			raise(SIGSTOP);
			client_script(seeds[i]);
			_exit(0);
		}
		waitpid(pids[i], &status, 0);
		ptrace(PTRACE_SETOPTIONS, pids[i], 0, PTRACE_O_TRACESYSGOOD | PTRACE_O_EXITKILL);
	}
	for (i = 0; i < k; i++) {
		if (ns[i] == 0) { kill(pids[i], SIGKILL); }
		else ptrace(PTRACE_SYSCALL, pids[i], 0, 0);
		alive++;
	}
	while (alive > 0) {
		pid_t w = waitpid(-1, &status, __WALL);
		if (w < 0) { if (errno == EINTR) continue; break; }
		for (i = 0; i < k; i++) if (pids[i] == w) break;
		if (i == k) continue;
		if (WIFEXITED(status) || WIFSIGNALED(status)) { alive--; continue; }
		if (WIFSTOPPED(status) && WSTOPSIG(status) == (SIGTRAP | 0x80)) {
			stops[i]++;
			if (ns[i] >= 0 && stops[i] >= ns[i]) { kill(w, SIGKILL); continue; }
			ptrace(PTRACE_SYSCALL, w, 0, 0);
		} else if (WIFSTOPPED(status)) {
			ptrace(PTRACE_SYSCALL, w, 0, WSTOPSIG(status) == SIGTRAP ? 0 : WSTOPSIG(status));
		}
	}
}

static int raw_connect(void)
{
	struct sockaddr_un a;
	int fd = socket(PF_UNIX, SOCK_STREAM, 0);
	memset(&a, 0, sizeof a);
	a.sun_family = AF_UNIX;
	snprintf(a.sun_path + 1, sizeof(a.sun_path) - 1, "%s", svc_name);
	if (connect(fd, (struct sockaddr *)&a,
		    offsetof(struct sockaddr_un, sun_path) + 1 + strlen(svc_name)) < 0) {
		/* libqb uses QB_SUN_LEN = sizeof whole struct on linux? try full */
		if (connect(fd, (struct sockaddr *)&a, sizeof a) < 0) { close(fd); return -1; }
	}
	return fd;
}

struct conn_req { struct qb_ipc_request_header hdr; uint32_t max_msg_size; } __attribute__((aligned(8)));

static void handshake_prefixes(void)
{
	struct conn_req rq;
	size_t len;
	int variant;
	char what[64];
	for (variant = 0; variant < 3; variant++)
	for (len = 0; len <= sizeof rq; len++) {
		int fd = raw_connect();
		if (fd < 0) { vio("raw connect failed"); return; }
		memset(&rq, 0, sizeof rq);
		rq.hdr.id = QB_IPC_MSG_AUTHENTICATE;
		rq.hdr.size = sizeof rq;
		rq.max_msg_size = 8192;
		if (len && write(fd, &rq, len) != (ssize_t)len) { }
		if (variant == 1) usleep(3000);	/* let the server see the partial data first */
		if (variant == 2 && len == sizeof rq) {
			/* read only a part of the response, then die */
			char b[16];
			struct pollfd p = { .fd = fd, .events = POLLIN };
			poll(&p, 1, 1000);
			if (read(fd, b, sizeof b) < 0) { }
		}
		close(fd);
		snprintf(what, sizeof what, "handshake prefix %zu/%zu variant %d", len, sizeof rq, variant);
		drain_reports(20);
		check_after_death(what, getpid() + 0);
	}
}

static int mode_a(uint64_t seed, int iters)
{
	int it, total;
	pid_t cp;
	char pfx[64], what[128];

	tab = calloc(MAXC, sizeof *tab);
	if (pipe(rpipe) < 0) return 2;
	spid = fork();
	if (spid == 0) { close(rpipe[0]); run_server(rpipe[1], 0); }
	close(rpipe[1]);
	{
		struct rec r;
		if (read(rpipe[0], &r, sizeof r) != sizeof r || r.kind != 'R') { fprintf(stderr, "server did not start\n"); return 2; }
	}
	witness = qb_ipcc_connect(svc_name, 8192);
	if (!witness) { fprintf(stderr, "witness connect failed\n"); kill(spid, SIGKILL); return 2; }
	drain_reports(100);
	tab[1].pid = -1;	/* the witness is not expected to be destroyed */
	(void)c_echo_sendv_recv(witness, 64, 64, 3000);
	(void)qb_ipcc_event_recv(witness, rbuf, sizeof rbuf, 0);
	base_fds = count_fds(spid);
	snprintf(pfx, sizeof pfx, "qb-%d-", spid);
	base_shm = count_shm(pfx, NULL, NULL, 0);
	if (verbose) printf("server %d baseline fds %d shm %d\n", spid, base_fds, base_shm);

	if (getenv("H3_SCRIPT")) {
		uint64_t cs = strtoull(getenv("H3_SCRIPT"), NULL, 0);
		int n = atoi(getenv("H3_KILL"));
		total = run_killed_client(cs, n, &cp);
		snprintf(what, sizeof what, "script %llu kill at stop %d (seen %d)", (unsigned long long)cs, n, total);
		drain_reports(5);
		check_after_death(what, cp);
		iters = 0;
	} else
	handshake_prefixes();

	rs = seed ^ 0x9e3779b97f4a7c15ULL;
	for (it = 0; it < iters && violations < 20; ) {
		uint64_t cs = seed * 1000003 + it;
		int n, reps, j;
		/* measure */
		total = run_killed_client(cs, -1, &cp);
		snprintf(what, sizeof what, "seed %llu script %llu no kill (stops %d)", (unsigned long long)seed, (unsigned long long)cs, total);
		drain_reports(5);
		check_after_death(what, cp);
		it++;
		if (getenv("H3_CONC")) {
			uint64_t sd[3]; int ns[3]; pid_t ps[3]; int q;
			for (j = 0; j < 8 && violations < 20; j++, it++) {
				for (q = 0; q < 3; q++) { sd[q] = cs + q * 7 + (j % 2) * q; ns[q] = rnd() % (total + 40); }
				run_killed_clients(3, sd, ns, ps);
				snprintf(what, sizeof what, "seed %llu conc scripts %llu.. kill at %d,%d,%d", (unsigned long long)seed, (unsigned long long)cs, ns[0], ns[1], ns[2]);
				drain_reports(2);
				for (q = 0; q < 3; q++) check_after_death(what, ps[q]);
			}
			continue;
		}
		reps = getenv("H3_ENUM") ? total + 2 : 12;
		for (j = 0; j < reps && violations < 20; j++, it++) {
			uint64_t save;
			rs ^= cs + j; save = rs;
			n = rnd() % (total + 2);
			rs = save; rnd();
			if (getenv("H3_ENUM")) n = j;
			run_killed_client(cs, n, &cp);
			snprintf(what, sizeof what, "seed %llu script %llu kill at stop %d/%d", (unsigned long long)seed, (unsigned long long)cs, n, total);
			if (verbose) printf("%s\n", what);
			drain_reports(2);
			check_after_death(what, cp);
		}
	}
	/* the end: witness goes, server should destroy it too */
	qb_ipcc_disconnect(witness);
	tab[1].pid = 1;
	{
		int64_t t0 = now_ms();
		while (tab[1].D == 0 && now_ms() - t0 < 3000) drain_reports(50);
		if (tab[1].D != 1) vio("witness connection destroyed %d times", tab[1].D);
	}
	kill(spid, SIGKILL);
	waitpid(spid, NULL, 0);
	{
		/* remove what the killed server could not */
		char cmd[128];
		snprintf(cmd, sizeof cmd, "rm -rf /dev/shm/qb-%d-*", spid);
		if (system(cmd)) { }
	}
	printf("mode A %s seed %llu: %d iterations, %d connections, %d violations, %d stalls\n",
	       ipc_type == QB_IPC_SHM ? "shm" : "sock", (unsigned long long)seed, it, max_id, violations, stalls);
	return violations ? 1 : 0;
}

/* ------------------------------------------------------------- mode B */
static int is_disc(ssize_t r)
{
	return r < 0 && r != -EAGAIN && r != -ETIMEDOUT && r != -EINTR &&
	    r != -EMSGSIZE && r != -ENOMSG && r != -ENOBUFS && r != -EINVAL;
}

#define FINITE_SLACK 700
#define INF_BOUND 6000
#define LATER_BOUND 300

static int b_client(uint64_t seed, pid_t server)
{
	qb_ipcc_connection_t *c;
	int bad = 0, i, seen_disc = 0, later = 0;
	char pfx[64], first[256];
	int inside = 0, dirs;
	int64_t t0, t1;
	char diag[256] = "";

	rs = seed * 2654435761u + 99;
	rnd(); rnd();
	shm_min_ctime = time(NULL) - 3;
	t0 = now_ms();
	c = qb_ipcc_connect(svc_name, mms_tab[rnd() % (sizeof mms_tab / sizeof mms_tab[0])]);
	t1 = now_ms();
	sh->client_ready = 1;
	if (c == NULL) {
		if (verbose) printf("  client: connect failed errno %d after %lld ms\n", errno, (long long)(t1 - t0));
		sh->client_done = 1;
		goto files;
	}
	int post = 0;
	for (i = 0; i < 5000 && later < 4 && post < 14; i++) {
		int op = rnd() % 7;
		if (i == 400) sh->client_done = 1;
		if (sh->dead_ms) post++;
		int32_t to;
		ssize_t r = 0;
		const char *name = "";
		int inf = 0;
		int64_t dead_at_start = sh->dead_ms;
		static const int32_t tos[] = { 0, 1, 50, 300, 1000, 2500, -1, -1 };
		to = tos[rnd() % 8];
		if (sh->dead_ms && (rnd() % 2)) { to = -1; op = (rnd() % 2) ? 2 : 3; }
		t0 = now_ms();
		sh->op_start_ms = t0;
		switch (op) {
		case 0: name = "send"; to = 0; r = c_send(c, REQ_ECHO, rnd() % 9000, rnd() % 9000, 0); break;
		case 1: name = "recv"; if (to < 0) to = 400; r = qb_ipcc_recv(c, rbuf, sizeof rbuf, to); break;
		case 2: name = "sendv_recv"; inf = (to < 0); r = c_echo_sendv_recv(c, rnd() % 9000, rnd() % 9000, to); break;
		case 3: name = "event_recv"; inf = (to < 0);
			/* make sure something may come, or not */
			if (rnd() % 2) c_send(c, REQ_EVENTS, 0, rnd() % 4, rnd() % 2000);
			t0 = now_ms();
			dead_at_start = sh->dead_ms;
			if (inf && !dead_at_start && (rnd() % 4)) { to = 300; inf = 0; }
			r = qb_ipcc_event_recv(c, rbuf, sizeof rbuf, to); break;
		case 4: name = "send_events"; to = 0; r = c_send(c, REQ_EVENTS, 0, rnd() % 6, rnd() % 3000); break;
		case 5: name = "send_noresp"; to = 0; r = c_send(c, REQ_NORESP, rnd() % 9000, 0, 0); break;
		default: name = "sendv_recv_noresp"; inf = (to < 0);
			{
				struct req *q = (void *)cbuf;
				struct iovec iov = { cbuf, sizeof *q };
				q->hdr.id = REQ_NORESP; q->hdr.size = sizeof *q;
				if (inf && !sh->kill_sent_ms) { to = 200; inf = 0; }
				r = qb_ipcc_sendv_recv(c, &iov, 1, rbuf, sizeof rbuf, to);
			}
			break;
		}
		t1 = now_ms();
		sh->op_start_ms = 0;
		if (verbose > 1) printf("  client: %s to=%d -> %zd in %lld ms (dead=%d)\n", name, to, r, (long long)(t1 - t0), sh->dead_ms != 0);
		if (!inf && t1 - t0 > to + FINITE_SLACK) {
			printf("VIOLATION: %s with timeout %d ms returned %zd after %lld ms (server dead: %s)\n", name, to, r, (long long)(t1 - t0), sh->dead_ms ? "yes" : "no");
			bad++;
		}
		if (inf && sh->dead_ms) {
			int64_t from = sh->dead_ms > t0 ? sh->dead_ms : t0;
			if (t1 - from > INF_BOUND) {
				printf("VIOLATION: %s waiting for ever returned %zd %lld ms after the death of the server\n", name, r, (long long)(t1 - from));
				bad++;
			}
		}
		if (inf && dead_at_start && r < 0 && !is_disc(r)) {
			printf("VIOLATION: %s waiting for ever, server dead before the call, returned %zd (not a disconnect)\n", name, r);
			bad++;
		}
		if (seen_disc) {
			later++;
			if (t1 - t0 > LATER_BOUND) {
				printf("VIOLATION: %s after a disconnect error took %lld ms (to %d)\n", name, (long long)(t1 - t0), to);
				bad++;
			}
			if (r >= 0 && op != 1 && op != 3) {
				printf("VIOLATION: %s after a disconnect error succeeded (%zd)\n", name, r);
				bad++;
			}
		}
		if (is_disc(r)) {
			if (!sh->kill_sent_ms) {
				printf("VIOLATION?: %s returned disconnect %zd while server alive\n", name, r);
				bad++;
			}
			seen_disc = 1;
		}
	}
	sh->client_done = 1;
	if (sh->dead_ms && !seen_disc) {
		printf("VIOLATION?: %d calls after the death of the server, none reported a disconnect\n", post);
		bad++;
	}
	/* wait for the death to be confirmed (the orchestrator reaps) */
	t0 = now_ms();
	while (!sh->dead_ms && now_ms() - t0 < 20000) usleep(1000);
	if (!sh->dead_ms) { printf("client: server never died?\n"); return 2; }
	{
		int isc = qb_ipcc_is_connected(c);
		int kr = kill(server, 0), ke = errno;
		snprintf(diag, sizeof diag, "before disconnect: is_connected %d kill(server,0) %d errno %d seen_disc %d post %d", isc, kr, ke, seen_disc, post);
	}
	t0 = now_ms();
	qb_ipcc_disconnect(c);
	t1 = now_ms();
	if (t1 - t0 > 1000) { printf("VIOLATION: disconnect took %lld ms\n", (long long)(t1 - t0)); bad++; }
files:
	t0 = now_ms();
	while (!sh->dead_ms && now_ms() - t0 < 20000) usleep(1000);
	snprintf(pfx, sizeof pfx, "qb-%d-%d-", server, getpid());
	dirs = count_shm(pfx, &inside, first, sizeof first);
	if (c != NULL && inside > 0) {
		char cmd[400];
		printf("VIOLATION: after disconnect %d shared memory files of the dead server remain in %s\n", inside, first);
		printf("  %s\n", diag);
		fflush(stdout);
		snprintf(cmd, sizeof cmd, "ls -la /dev/shm/%s/", first);
		if (system(cmd)) { }
		bad++;
	}
	if (verbose && dirs > 0) printf("  note: %d directory(ies) remain (%s), files inside %d\n", dirs, first, inside);
	fflush(stdout);
	return bad ? 1 : 0;
}

static void on_alarm(int sig) { (void)sig; }

static int mode_b_once(uint64_t seed, int n, int *total_out)
{
	struct sigaction sa;
	struct itimerval itv = { { 0, 100000 }, { 0, 100000 } };
	int status, stops = 0, rc = 0, cstat = 0;
	pid_t s, c;
	int killed = 0, cdone = 0;
	int64_t t0;
	char cmd[128];

	memset(&sa, 0, sizeof sa);
	sa.sa_handler = on_alarm;
	sigaction(SIGALRM, &sa, NULL);
	setitimer(ITIMER_REAL, &itv, NULL);
	memset((void *)sh, 0, sizeof *sh);
	s = fork();
	if (s == 0) run_server(-1, 1);
	waitpid(s, &status, 0);
	if (!WIFSTOPPED(status)) { fprintf(stderr, "server did not stop\n"); return 2; }
	ptrace(PTRACE_SETOPTIONS, s, 0, PTRACE_O_TRACESYSGOOD | PTRACE_O_EXITKILL);
	c = fork();
	if (c == 0) _exit(b_client(seed, s));
	t0 = now_ms();
	ptrace(PTRACE_SYSCALL, s, 0, 0);
	while (!killed) {
		pid_t w = waitpid(-1, &status, __WALL);
		if (w < 0 && errno == EINTR) {
			int64_t os = sh->op_start_ms;
			if ((os && now_ms() - os > 1200) || now_ms() - t0 > 60000 || sh->client_done || cdone) {
				/* the client sits in a long wait (or is done) while the server idles: the server dies now */
				sh->kill_sent_ms = now_ms();
				kill(s, SIGKILL);
				while (waitpid(s, &status, __WALL) != s || !(WIFEXITED(status) || WIFSIGNALED(status))) { }
				sh->dead_ms = now_ms();
				killed = 1;
				break;
			}
			continue;
		}
		if (w == c) { cdone = 1; cstat = status; continue; }
		if (w != s) continue;
		if (WIFEXITED(status) || WIFSIGNALED(status)) { killed = 1; sh->kill_sent_ms = sh->dead_ms = now_ms(); break; }
		if (WIFSTOPPED(status) && WSTOPSIG(status) == (SIGTRAP | 0x80)) stops++;
		if ((n >= 0 && stops >= n) || sh->client_done || cdone || now_ms() - t0 > 60000) {
			sh->kill_sent_ms = now_ms();
			kill(s, SIGKILL);
			while (waitpid(s, &status, __WALL) != s || !(WIFEXITED(status) || WIFSIGNALED(status))) { }
			sh->dead_ms = now_ms();
			killed = 1;
			break;
		}
		ptrace(PTRACE_SYSCALL, s, 0,
		       (WIFSTOPPED(status) && WSTOPSIG(status) != (SIGTRAP | 0x80) && WSTOPSIG(status) != SIGTRAP) ? WSTOPSIG(status) : 0);
	}
	if (!cdone) {
		int64_t t1 = now_ms();
		for (;;) {
			pid_t w = waitpid(c, &cstat, WNOHANG);
			if (w == c) break;
			if (now_ms() - t1 > 30000) {
				printf("VIOLATION: client still blocked 30 s after the death of the server (kill point %d)\n", n);
				rc = 1;
				kill(c, SIGKILL);
				waitpid(c, &cstat, 0);
				break;
			}
			usleep(2000);
		}
	}
	if (WIFEXITED(cstat) && WEXITSTATUS(cstat) == 1) rc = 1;
	else if (!WIFEXITED(cstat) || WEXITSTATUS(cstat) != 0) {
		if (!rc) { printf("client ended abnormally status 0x%x (kill point %d)\n", cstat, n); rc = 1; }
	}
	snprintf(cmd, sizeof cmd, "rm -rf /dev/shm/qb-%d-%d-*", s, c);
	if (system(cmd)) { }
	*total_out = stops;
	return rc;
}

static int mode_b(uint64_t seed, int iters)
{
	int it, total = 0, rc;
	sh = mmap(NULL, 4096, PROT_READ | PROT_WRITE, MAP_SHARED | MAP_ANONYMOUS, -1, 0);
	rs = seed ^ 0xabcdef12345ULL;
	for (it = 0; it < iters && violations < 10; it++) {
		uint64_t cs = seed * 7919 + it / 8;
		int n;
		uint64_t save = rs;
		if (it % 8 == 0 || total <= 0) n = -1;
		else { n = rnd() % (total + 1); }
		(void)save;
		if (getenv("H3_KILL_LO") && n >= 0) { int lo = atoi(getenv("H3_KILL_LO")), hi = atoi(getenv("H3_KILL_HI")); n = lo + rnd() % (hi - lo + 1); }
		if (getenv("H3_SCRIPT")) { cs = strtoull(getenv("H3_SCRIPT"), NULL, 0); n = atoi(getenv("H3_KILL")); }
		rc = mode_b_once(cs, n, &total);
		if (verbose || rc) printf("mode B %s script %llu kill at stop %d (seen %d): %s\n",
			ipc_type == QB_IPC_SHM ? "shm" : "sock", (unsigned long long)cs, n, total, rc ? "VIOLATED" : "ok");
		if (rc) violations++;
		fflush(stdout);
	}
	printf("mode B %s seed %llu: %d iterations, %d violations\n",
	       ipc_type == QB_IPC_SHM ? "shm" : "sock", (unsigned long long)seed, it, violations);
	return violations ? 1 : 0;
}

int main(int argc, char **argv)
{
	uint64_t seed;
	int iters;
	if (argc < 5) { fprintf(stderr, "usage: %s A|B shm|sock seed iterations [verbose]\n", argv[0]); return 2; }
	ipc_type = strcmp(argv[2], "shm") == 0 ? QB_IPC_SHM : QB_IPC_SOCKET;
	seed = strtoull(argv[3], NULL, 0);
	iters = atoi(argv[4]);
	verbose = argc > 5 ? atoi(argv[5]) : 0;
	snprintf(svc_name, sizeof svc_name, "h3c03-%d", getpid());
	signal(SIGPIPE, SIG_IGN);
	setvbuf(stdout, NULL, _IOLBF, 0);
	if (argv[1][0] == 'A') return mode_a(seed, iters);
	return mode_b(seed, iters);
}
