#!/bin/sh
# usage: build.sh [tree]   (default /repo)
T=${1:-/repo}
cd "$(dirname "$0")"
SRC="$T/lib/ipc_setup.c $T/lib/ipcs.c $T/lib/ipc_shm.c $T/lib/ipc_socket.c $T/lib/ipcc.c $T/lib/ringbuffer.c $T/lib/ringbuffer_helper.c $T/lib/unix.c"
gcc -g -O1 -fsanitize=address,undefined -fno-omit-frame-pointer -DHAVE_CONFIG_H \
  -I$T/include -I$T/include/qb -I$T/lib -o fuzz fuzz.c $SRC \
  -L$T/lib/.libs -lqb -ldl -lpthread 2>&1 | grep -v "warning: ignoring return value\|^ *[0-9]* |\|^ *|\|In function\|note:" | head -30
# same thing without sanitizers (fork of an ASan process is slow): for volume
gcc -g -O2 -DHAVE_CONFIG_H -I$T/include -I$T/include/qb -I$T/lib -o fuzz-fast fuzz.c $SRC \
  -L$T/lib/.libs -lqb -ldl -lpthread 2>&1 | grep -E "error" | head
